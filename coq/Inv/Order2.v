(* Order2.v -- T2 for C08 (service order) on the STAGE-2 engine model (Engine2 / State2 / Codec2), function level, plus one
   statement over whole events and runs.  Partial correctness: nothing is said about calls that return Err / OutOfFuel.
   Every theorem holds for EVERY configuration, state and oracle of draws; the only hypothesis anywhere is Idx (node identities
   are positions; executable Idx_b, Idx_b_sound; kept by every event), needed where a theorem speaks about the queues, because
   put_node writes a node back to the place its identity names; the only scope restriction is sched_stays (executable
   sched_stays_b) on the two theorems change_shift_queues / slotted_service_queues.

   Part 1 (a)  who WAITS (iswait: a record without server marker; an interrupted customer keeps its stale server identifier and a
           customer in a slotted service has the marker -1: neither waits) and what choose_next_customer returns:
           choose_next_customer_spec (the first priority class in which anybody waits; Chosen: FIFO the first waiting customer in
           queue order, LIFO the last, SIRO the one at index int(u * number waiting), u the next uniform draw; nothing but that draw
           is consumed), chosen_is_prescribed (the same in words), none_chosen_none_waiting, fifo_no_overtaking.
   Part 2 (b)  the five blocks that start a service: start_give_spec (release / change_shift), start_fresh_spec (arrival, with
           or without server), start_preemptor_spec (pre-emption), begin_interrupted_spec (restart of an interrupted customer:
           the head of the node's list of interrupted customers), slot_start_spec (slotted service).  Each: the clock stands
           still, the record of NO other customer changes (chg), and the customer's own record changes to Started / StartedW:
           start date = now, end date = now + service time, server marker set, everything in `core` untouched.
   Part 3      the recursive core one layer at a time (release_body ... preempt_body, slot_pick, ccww_move ...: each equal to the
           engine's code by reflexivity) and a walk over the WHOLE engine (kq) for any reflexive transitive relation Qr between
           the queues of a node before and after.  Instance equality (same_queues): no service start, no restart, no pre-emption
           or interruption without rerouting, no shift change / slot without rerouting moves anybody in any queue
           (start_give_queues ... slot_loop_queues, change_shift_queues, slotted_service_queues).  Instance qsteps
           (event_step_queues, run_many_queues, queue_order_is_order_of_joining): over any event and any run, every queue of every
           node changes only by members leaving and members joining at its TAIL (qsteps_view: queue after = those of before who
           are still there, in their old order, followed by those who joined since, in order of joining).  This is (c) for runs.
   Part 4 (b)  every path that starts a service: serve_with_starts, bsip_release_starts (release: the freed server serves the head
           of the interrupted list if any, else the choice, else nobody); bsip_change_shift_starts, change_shift_starts, Starts,
           Starts_frame (change_shift: an induction over the free servers, each start is the interrupted head / the choice AT THE STATE
           THE PREVIOUS STARTS HAVE LEFT); slot_loop_starts, slotted_service_starts, SlotStarts, SlotStarts_frame (slotted: the same
           over the places of the slot, at most min(slot size, customers present) starts); accept_enqueues (c: accept appends the
           arriving customer at the TAIL of the queue of its priority class and touches no other queue or record) and
           accept_tail_starts (infinite-server node: the arriving customer itself; else the choice among those waiting, the
           arriving customer included, on the server find_free_server gives it; else, no server being free, the choice may
           pre-empt); preempt_starts, preempt_frame (the customer started is the pre-emptor, on the victim's server; without
           rerouting only the victim's and the pre-emptor's records change); class_change_moves_to_tail, ccww_preempt_spec,
           ccww_finish_spec (c: a class change while waiting moves the customer to the TAIL of the queue of its new priority class;
           the pre-emption it may trigger starts THAT customer).
   Part 5      closed examples (names f8_...) and two refutations by closed witnesses:
           fifo_by_arrival_date_refuted / choose_fifo_not_earliest_arrival_refuted -- under FIFO the customer chosen is NOT always
           the earliest arrival of its class: queue order is order of joining THAT queue and a class change while waiting joins at
           the tail (finding F-08a, known);
           preemptor_started_twice_refuted -- a customer whose service starts was NOT always waiting: reroute pre-emption into
           the same node starts the pre-emptor twice (finding F-11a, known). *)
From Coq Require Import ZArith List Bool Lia.
From RecordUpdate Require Import RecordUpdate.
From CiwV Require Import Sx Prelude Routing Sched.
From CiwV.Engine Require Import State2 Engine2 Codec2.
Import ListNotations.
Open Scope Z_scope.

(* list facts (before arithmetic is made opaque to cbn) *)
Lemma nthZ_nat {A} (l : list A) k x : nthZ l k = Some x -> 0 <= k /\ nth_error l (Z.to_nat k) = Some x.
Proof. unfold nthZ. destruct (k <? 0) eqn:E; [discriminate|]. apply Z.ltb_ge in E. auto. Qed.
Lemma nthZ_of_nat {A} (l : list A) n : nthZ l (Z.of_nat n) = nth_error l n.
Proof. unfold nthZ. destruct (Z.of_nat n <? 0) eqn:E; [apply Z.ltb_lt in E; lia|]. rewrite Nat2Z.id. reflexivity. Qed.
Lemma nth_error_upd_eq {A} (l : list A) k y x : nth_error l k = Some x -> nth_error (upd l k y) k = Some y.
Proof. revert k. induction l as [|a l IH]; intros [|k] H; cbn in *; try discriminate; auto. Qed.
Lemma nth_error_upd_ne {A} (l : list A) k k' y : k <> k' -> nth_error (upd l k y) k' = nth_error l k'.
Proof. revert k k'. induction l as [|a l IH]; intros [|k] [|k'] H; cbn; auto; try congruence. Qed.
Lemma length_upd {A} (l : list A) k y : length (upd l k y) = length l.
Proof. revert k. induction l as [|a l IH]; intros [|k]; cbn; auto. Qed.
Lemma nthZ_updZ_eq {A} (l : list A) k y x : nthZ l k = Some x -> nthZ (updZ l k y) k = Some y.
Proof.
  intros H. destruct (nthZ_nat _ _ _ H) as [Hk Hn]. unfold nthZ, updZ. destruct (k <? 0) eqn:E; [apply Z.ltb_lt in E; lia|].
  eapply nth_error_upd_eq; eauto.
Qed.
Lemma nthZ_updZ_ne {A} (l : list A) k k' y : k <> k' -> nthZ (updZ l k y) k' = nthZ l k'.
Proof.
  intros H. unfold nthZ, updZ. destruct (k' <? 0) eqn:E'; [reflexivity|]. destruct (k <? 0) eqn:E; [reflexivity|].
  apply Z.ltb_ge in E, E'. apply nth_error_upd_ne. lia.
Qed.

Local Arguments Z.mul : simpl never.
Local Arguments Z.add : simpl never.
Local Arguments Z.sub : simpl never.
Local Arguments Z.ltb : simpl never.
Local Arguments Z.leb : simpl never.
Local Arguments Z.eqb : simpl never.
Local Arguments Z.to_nat : simpl never.
Local Arguments Z.of_nat : simpl never.
Local Arguments Z.modulo : simpl never.
Local Arguments nth_error : simpl never.

(* ================================================================================================================ *)
(* Part 0: the state monad and the access functions                                                                 *)
(* ================================================================================================================ *)
Ltac minv H a s1 E :=
  match type of H with
  | bind ?m ?f ?s = Ok _ => unfold bind in H at 1; destruct (m s) as [[a s1]| |] eqn:E; [|discriminate H|discriminate H]
  end.

Lemma ret_inv {A} (a b : A) s s' : ret a s = Ok (b, s') -> b = a /\ s' = s.
Proof. unfold ret. intros H. injection H as <- <-. auto. Qed.
Lemma gets_inv {A} (f : sim -> A) b s s' : gets f s = Ok (b, s') -> b = f s /\ s' = s.
Proof. unfold gets. intros H. injection H as <- <-. auto. Qed.
Lemma tnow_inv b s s' : tnow s = Ok (b, s') -> b = now s /\ s' = s.
Proof. apply gets_inv. Qed.
Lemma modify_inv f u s s' : modify f s = Ok (u, s') -> s' = f s.
Proof. unfold modify. intros H. injection H as <- <-. auto. Qed.
Lemma lift_inv {A} e (o : option A) a s s' : lift e o s = Ok (a, s') -> o = Some a /\ s' = s.
Proof. destruct o as [x|]; cbn; unfold ret, fail; intros H; [injection H as <- <-; auto|discriminate]. Qed.
Lemma get_node_inv j nd s s' : get_node j s = Ok (nd, s') -> s' = s /\ 1 <= j /\ nthZ (nodes s) (j - 1) = Some nd.
Proof.
  unfold get_node. destruct (j <? 1) eqn:E; [discriminate|]. apply Z.ltb_ge in E.
  destruct (nthZ (nodes s) (j - 1)) as [x|]; [|discriminate]. intros H. injection H as <- <-. auto.
Qed.
Lemma get_ind_inv i x s s' : get_ind i s = Ok (x, s') -> s' = s /\ find_ind i (inds s) = Some x.
Proof. unfold get_ind. destruct (find_ind i (inds s)) as [y|]; [|discriminate]. intros H. injection H as <- <-. auto. Qed.
Lemma ncfg_of_inv cf j nc s s' : ncfg_of cf j s = Ok (nc, s') -> s' = s /\ nthZ (cf_nodes cf) (j - 1) = Some nc.
Proof. unfold ncfg_of. intros H. apply lift_inv in H as [H ->]. auto. Qed.

Lemma find_ind_id i l x : find_ind i l = Some x -> i_id x = i.
Proof. induction l as [|y r IH]; cbn; [discriminate|]. destruct (i_id y =? i) eqn:E; [intros H; injection H as <-; apply Z.eqb_eq; exact E|exact IH]. Qed.
Lemma find_put_ind x l i : find_ind i (put_ind_l x l) = if i =? i_id x then Some x else find_ind i l.
Proof.
  induction l as [|y r IH]; cbn.
  - rewrite (Z.eqb_sym (i_id x) i). reflexivity.
  - destruct (i_id y =? i_id x) eqn:E; cbn.
    + apply Z.eqb_eq in E. rewrite (Z.eqb_sym (i_id x) i). destruct (i =? i_id x) eqn:E2; [reflexivity|].
      rewrite E. rewrite (Z.eqb_sym (i_id x) i), E2. reflexivity.
    + destruct (i_id y =? i) eqn:E2; [|exact IH].
      apply Z.eqb_eq in E2. apply Z.eqb_neq in E. destruct (i =? i_id x) eqn:E3; [apply Z.eqb_eq in E3; lia|reflexivity].
Qed.

(* ================================================================================================================ *)
(* Part 1: who waits, and what choose_next_customer returns                                                         *)
(* ================================================================================================================ *)
(* a customer WAITS when it has a record and no server marker.  An interrupted customer keeps the (stale) identifier of
   the server it had and a customer in a slotted service has the marker -1: neither waits. *)
Definition iswait (il : list ind) (i : Z) : bool :=
  match find_ind i il with Some x => match i_server x with None => true | Some _ => false end | None => false end.

Lemma waiting_of_filter q il : waiting_of q il = filter (iswait il) q.
Proof.
  induction q as [|i r IH]; cbn; [reflexivity|]. unfold iswait at 1.
  destruct (find_ind i il) as [x|]; [destruct (i_server x)|]; cbn; rewrite IH; reflexivity.
Qed.

(* the first priority class (lowest index) in which somebody waits, in queue order *)
Lemma first_waiting_spec qs il :
  (first_waiting qs il = [] /\ Forall (fun q => filter (iswait il) q = []) qs) \/
  (exists pre q post, qs = pre ++ q :: post /\ Forall (fun q' => filter (iswait il) q' = []) pre /\
     first_waiting qs il = filter (iswait il) q /\ filter (iswait il) q <> []).
Proof.
  induction qs as [|q r IH]; cbn [first_waiting]; [left; split; [reflexivity|constructor]|].
  rewrite waiting_of_filter. destruct (filter (iswait il) q) as [|w0 wr] eqn:E.
  - destruct IH as [[H1 H2]|(pre & q0 & post & H1 & H2 & H3 & H4)].
    + left. split; [exact H1|constructor; assumption].
    + right. exists (q :: pre), q0, post. split; [rewrite H1; reflexivity|]. split; [constructor; assumption|]. split; assumption.
  - right. exists [], q, r. split; [reflexivity|]. split; [constructor|]. rewrite E. split; [reflexivity|discriminate].
Qed.

Lemma last_cons {A} (r : list A) : forall d a, last (a :: r) d = last r a.
Proof. induction r as [|b r IH]; intros d a; [reflexivity|]. change (last (a :: b :: r) d) with (last (b :: r) d). rewrite (IH d b), (IH a b). reflexivity. Qed.
Lemma last_In {A} (r : list A) : forall d, In (last r d) (d :: r).
Proof. induction r as [|b r IH]; intros d; [left; reflexivity|]. right. rewrite last_cons. apply IH. Qed.

(* the discipline's choice among the waiting line w: d = 0 FIFO, d = 1 LIFO, otherwise SIRO with the uniform draw u *)
Definition Chosen (d : Z) (w : list Z) (us : list Z) (c : Z) : Prop :=
  In c w /\
  (d = 0 -> hd_error w = Some c) /\
  (d = 1 -> last w c = c) /\
  (d <> 0 -> d <> 1 -> exists u ur, us = u :: ur /\ nth_error w (rc_uniform (length w) u) = Some c).

Section Order.
  Variable cf : config.

  Definition disc_of (j : Z) : option Z := option_map nc_disc (nthZ (cf_nodes cf) (j - 1)).
  Definition node_at (s : sim) (j : Z) (nd : node) : Prop := 1 <= j /\ nthZ (nodes s) (j - 1) = Some nd.
  (* the state after a uniform draw has been consumed *)
  Definition took_unif (s : sim) : sim := s <| dr := dr s <| d_unif := tl (d_unif (dr s)) |> |>.

  (* ---- (a) what choose_next_customer returns ---- *)
  Theorem choose_next_customer_spec j s r s' : choose_next_customer cf j s = Ok (r, s') ->
    exists nd, node_at s j nd /\
    let w := first_waiting (n_queues nd) (inds s) in
    match r with
    | None => w = [] /\ s' = s
    | Some c => exists d, disc_of j = Some d /\ Chosen d w (d_unif (dr s)) c /\
                  s' = (if (d =? 0) || (d =? 1) then s else took_unif s)
    end.
  Proof.
    unfold choose_next_customer. intros H. minv H nd s1 E1. apply get_node_inv in E1 as (-> & Hj & Hn).
    minv H il s1 E2. apply gets_inv in E2 as [-> ->]. exists nd. split; [split; assumption|]. cbv zeta.
    destruct (first_waiting (n_queues nd) (inds s)) as [|w0 wr] eqn:W.
    - apply ret_inv in H as [-> ->]. auto.
    - minv H nc s1 E3. apply ncfg_of_inv in E3 as [-> Hc]. unfold disc_of. rewrite Hc. cbn [option_map].
      destruct (nc_disc nc =? 0) eqn:D0; [|destruct (nc_disc nc =? 1) eqn:D1].
      + apply ret_inv in H as [-> ->]. exists (nc_disc nc). split; [reflexivity|]. rewrite D0. cbn [orb]. split; [|reflexivity].
        apply Z.eqb_eq in D0. split; [left; reflexivity|]. split; [reflexivity|]. split; intros; lia.
      + apply ret_inv in H as [-> ->]. exists (nc_disc nc). split; [reflexivity|]. rewrite D0, D1. cbn [orb]. split; [|reflexivity].
        apply Z.eqb_neq in D0. apply Z.eqb_eq in D1. split; [apply last_In|]. split; [intros; lia|]. split; [|intros; lia].
        intros _. rewrite !last_cons. destruct wr as [|b t]; [reflexivity|]. rewrite !last_cons. reflexivity.
      + minv H x s1 E4. apply ret_inv in H as [-> ->]. unfold choice_uniform in E4. minv E4 u s2 E5.
        apply lift_inv in E4 as [Hx ->]. unfold draw_unif in E5. destruct (d_unif (dr s)) as [|u0 ur] eqn:EU; [discriminate|].
        injection E5 as <- <-. exists (nc_disc nc). split; [reflexivity|]. rewrite D0, D1. cbn [orb]. split.
        * apply Z.eqb_neq in D0, D1. split; [eapply nth_error_In; exact Hx|]. split; [intros; lia|]. split; [intros; lia|].
          intros _ _. exists u0, ur. split; [reflexivity|exact Hx].
        * unfold took_unif. rewrite EU. reflexivity.
  Qed.

  (* choosing changes nothing but (under SIRO) the stock of uniform draws *)
  Corollary choose_next_customer_frame j s r s' : choose_next_customer cf j s = Ok (r, s') ->
    inds s' = inds s /\ nodes s' = nodes s /\ now s' = now s.
  Proof.
    intros H. destruct (choose_next_customer_spec _ _ _ _ H) as (nd & _ & Hr). cbv zeta in Hr. destruct r as [c|].
    - destruct Hr as (d & _ & _ & ->). destruct ((d =? 0) || (d =? 1)); auto.
    - destruct Hr as [_ ->]. auto.
  Qed.

  (* in the property's words: the chosen customer waits, it stands in the first (most urgent) class in which anybody waits;
     FIFO: nobody who waits stands before it in that class's queue; LIFO: nobody who waits stands after it; SIRO: it is the
     waiting customer number int(u * number waiting) of that queue, u the next uniform draw *)
  Corollary chosen_is_prescribed j s c s' : choose_next_customer cf j s = Ok (Some c, s') ->
    exists nd pre q post d, node_at s j nd /\ n_queues nd = pre ++ q :: post /\ disc_of j = Some d /\
      In c q /\ iswait (inds s) c = true /\
      (forall q' i, In q' pre -> In i q' -> iswait (inds s) i = false) /\
      (d = 0 -> exists a b, q = a ++ c :: b /\ forall i, In i a -> iswait (inds s) i = false) /\
      (d = 1 -> exists a b, q = a ++ c :: b /\ forall i, In i b -> iswait (inds s) i = false) /\
      (d <> 0 -> d <> 1 -> exists u ur, d_unif (dr s) = u :: ur /\
                             nth_error (filter (iswait (inds s)) q) (rc_uniform (length (filter (iswait (inds s)) q)) u) = Some c).
  Proof.
    intros H. destruct (choose_next_customer_spec _ _ _ _ H) as (nd & Hnd & d & Hd & (Hin & H0 & H1 & H2) & _).
    destruct (first_waiting_spec (n_queues nd) (inds s)) as [[E _]|(pre & q & post & Eq & Hpre & Ew & Hne)].
    - rewrite E in Hin. destruct Hin.
    - exists nd, pre, q, post, d. rewrite Ew in Hin, H0, H1, H2. apply filter_In in Hin as [Hq Hw].
      split; [exact Hnd|]. split; [exact Eq|]. split; [exact Hd|]. split; [exact Hq|]. split; [exact Hw|]. split; [|split; [|split]].
      + intros q' i Hq' Hi. rewrite Forall_forall in Hpre. specialize (Hpre q' Hq').
        destruct (iswait (inds s) i) eqn:E; [|reflexivity]. exfalso.
        assert (Hf : In i (filter (iswait (inds s)) q')) by (apply filter_In; auto). rewrite Hpre in Hf. destruct Hf.
      + intros D. specialize (H0 D). clear -H0. induction q as [|a r IH]; cbn in H0; [discriminate|].
        destruct (iswait (inds s) a) eqn:E.
        * cbn in H0. injection H0 as ->. exists [], r. split; [reflexivity|]. intros i [].
        * destruct (IH H0) as (x & y & -> & Hx). exists (a :: x), y. split; [reflexivity|]. intros i [<-|Hi]; [exact E|apply Hx; exact Hi].
      + intros D. specialize (H1 D). clear -H1 Hne.
        induction q as [|a r IH]; cbn in *; [congruence|].
        destruct (iswait (inds s) a) eqn:E.
        * destruct (filter (iswait (inds s)) r) as [|b t] eqn:F.
          -- cbn in H1. subst a. exists [], r. split; [reflexivity|]. intros i Hi.
             destruct (iswait (inds s) i) eqn:Ei; [|reflexivity]. exfalso.
             assert (Hf : In i (filter (iswait (inds s)) r)) by (apply filter_In; auto). rewrite F in Hf. destruct Hf.
          -- assert (Hl' : last (b :: t) c = c) by (cbn [last] in H1; exact H1).
             destruct (IH Hl') as (x & y & -> & Hy); [discriminate|]. exists (a :: x), y. split; [reflexivity|exact Hy].
        * destruct (IH H1 Hne) as (x & y & -> & Hy). exists (a :: x), y. split; [reflexivity|exact Hy].
      + exact H2.
  Qed.

  (* ... and when nobody is chosen, nobody waits at that node *)
  Corollary none_chosen_none_waiting j s s' : choose_next_customer cf j s = Ok (None, s') ->
    exists nd, node_at s j nd /\ forall q i, In q (n_queues nd) -> In i q -> iswait (inds s) i = false.
  Proof.
    intros H. destruct (choose_next_customer_spec _ _ _ _ H) as (nd & Hnd & Hw & _). exists nd. split; [exact Hnd|].
    intros q i Hq Hi. destruct (first_waiting_spec (n_queues nd) (inds s)) as [[_ Hall]|(pre & q0 & post & _ & _ & Ew & Hne)].
    - rewrite Forall_forall in Hall. specialize (Hall q Hq). destruct (iswait (inds s) i) eqn:E; [|reflexivity]. exfalso.
      assert (Hf : In i (filter (iswait (inds s)) q)) by (apply filter_In; auto). rewrite Hall in Hf. destruct Hf.
    - cbv zeta in Hw. rewrite Hw in Ew. symmetry in Ew. contradiction.
  Qed.

  (* "Hence under FIFO no customer starts service while an equal-or-higher priority customer that ARRIVED IN ITS QUEUE earlier is
     still waiting": whoever stands before the chosen customer in the queue of its class, or anywhere in the queue of a more urgent
     class, is not waiting.  (Queue order is order of joining the queue: Part 4 (c) and queue_order_is_order_of_joining.) *)
  Corollary fifo_no_overtaking j s c s' : disc_of j = Some 0 -> choose_next_customer cf j s = Ok (Some c, s') ->
    exists nd pre a b post, node_at s j nd /\ n_queues nd = pre ++ (a ++ c :: b) :: post /\ iswait (inds s) c = true /\
      forall o, (In o a \/ exists q', In q' pre /\ In o q') -> iswait (inds s) o = false.
  Proof.
    intros Hd H. destruct (chosen_is_prescribed _ _ _ _ H) as (nd & pre & q & post & d & Hnd & Hq & Hd' & _ & Hw & Hpre & H0 & _).
    rewrite Hd in Hd'. injection Hd' as <-. destruct (H0 eq_refl) as (a & b & -> & Ha). exists nd, pre, a, b, post.
    split; [exact Hnd|]. split; [exact Hq|]. split; [exact Hw|]. intros o [Ho|(q' & Hq' & Ho)]; [apply Ha; exact Ho|eapply Hpre; eauto].
  Qed.
End Order.

(* ================================================================================================================ *)
(* Part 2: the blocks that start a service change the record of the customer started and of nobody else             *)
(* ================================================================================================================ *)
(* same: the clock and the customer records are untouched.  chg i P: the clock is untouched, every record but i's is
   untouched, and i's record a becomes b with P a b. *)
Definition same (s s' : sim) : Prop := now s' = now s /\ inds s' = inds s.
Definition chg (i : Z) (P : ind -> ind -> Prop) (s s' : sim) : Prop :=
  now s' = now s /\
  (forall i', i' <> i -> find_ind i' (inds s') = find_ind i' (inds s)) /\
  (forall a, find_ind i (inds s) = Some a -> exists b, find_ind i (inds s') = Some b /\ P a b).

Lemma same_refl s : same s s. Proof. split; reflexivity. Qed.
Lemma same_trans s s1 s2 : same s s1 -> same s1 s2 -> same s s2.
Proof. intros [A B] [C D]. split; congruence. Qed.
Lemma same_chg i (P : ind -> ind -> Prop) s s' : same s s' -> (forall a, P a a) -> chg i P s s'.
Proof. intros [A B] HP. split; [exact A|]. rewrite B. split; [reflexivity|]. intros a Ha. exists a. auto. Qed.
Lemma chg_weak i (P Q : ind -> ind -> Prop) s s' : chg i P s s' -> (forall a b, P a b -> Q a b) -> chg i Q s s'.
Proof. intros (A & B & C) H. split; [exact A|]. split; [exact B|]. intros a Ha. destruct (C a Ha) as (b & Hb & Pb). exists b. auto. Qed.
Lemma chg_trans i (P Q : ind -> ind -> Prop) s s1 s2 : chg i P s s1 -> chg i Q s1 s2 -> chg i (fun a c => exists b, P a b /\ Q b c) s s2.
Proof.
  intros (A & B & C) (A' & B' & C'). split; [congruence|]. split.
  - intros i' Hne. rewrite (B' i' Hne). apply B. exact Hne.
  - intros a Ha. destruct (C a Ha) as (b & Hb & Pb). destruct (C' b Hb) as (c & Hc & Qc). exists c. split; [exact Hc|]. exists b. auto.
Qed.
Lemma chg_same_l i P s s0 s' : same s s0 -> chg i P s0 s' -> chg i P s s'.
Proof. intros [A B] (A' & B' & C'). rewrite A, B in *. split; [exact A'|]. split; assumption. Qed.
Lemma chg_same_r i P s s0 s' : chg i P s s0 -> same s0 s' -> chg i P s s'.
Proof. intros (A' & B' & C') [A B]. rewrite <- A, <- B in *. split; [exact A'|]. split; assumption. Qed.

Lemma put_ind_chg i x x' u s s' : find_ind i (inds s) = Some x -> i_id x' = i -> put_ind x' s = Ok (u, s') ->
  chg i (fun a b => a = x /\ b = x') s s'.
Proof.
  intros Hx Hid H. apply modify_inv in H. subst s'. split; [reflexivity|]. split.
  - intros i' Hne. cbn. rewrite find_put_ind, Hid. destruct (i' =? i) eqn:E; [apply Z.eqb_eq in E; contradiction|reflexivity].
  - intros a Ha. rewrite Hx in Ha. injection Ha as <-. exists x'. split; [|auto]. cbn. rewrite find_put_ind, Hid, Z.eqb_refl. reflexivity.
Qed.
Lemma upd_ind_chg i f u s s' : (forall x, i_id (f x) = i_id x) -> upd_ind i f s = Ok (u, s') -> chg i (fun a b => b = f a) s s'.
Proof.
  intros Hf H. unfold upd_ind in H. minv H x s1 E. apply get_ind_inv in E as [-> Hx].
  eapply chg_weak; [eapply put_ind_chg; [exact Hx| |exact H]|].
  - rewrite Hf. eapply find_ind_id; eauto.
  - cbv beta. intros a b [-> ->]. reflexivity.
Qed.

Lemma put_node_same nd u s s' : put_node nd s = Ok (u, s') -> same s s'.
Proof. intros H. apply modify_inv in H. subst s'. split; reflexivity. Qed.
Lemma upd_node_same j f u s s' : upd_node j f s = Ok (u, s') -> same s s'.
Proof. unfold upd_node. intros H. minv H nd s1 E. apply get_node_inv in E as (-> & _). eapply put_node_same; eauto. Qed.
Lemma upd_server_same j sid f u s s' : upd_server j sid f s = Ok (u, s') -> same s s'.
Proof.
  unfold upd_server. intros H. minv H nd s1 E. apply get_node_inv in E as (-> & _).
  destruct (find_server sid (n_servers nd)); [eapply put_node_same; eauto|apply ret_inv in H as [_ ->]; apply same_refl].
Qed.
Lemma set_next_end_same j sid d u s s' : set_next_end j sid d s = Ok (u, s') -> same s s'.
Proof. apply upd_server_same. Qed.
Lemma draw_svc_same st s s' : draw_svc s = Ok (st, s') -> same s s'.
Proof. unfold draw_svc. destruct (d_svc (dr s)); [discriminate|]. intros H. injection H as _ <-. split; reflexivity. Qed.
Lemma draw_cct_same st s s' : draw_cct s = Ok (st, s') -> same s s'.
Proof. unfold draw_cct. destruct (d_cct (dr s)); [discriminate|]. intros H. injection H as _ <-. split; reflexivity. Qed.
Lemma cct_loop_same : forall row b best bc s r s', cct_loop row b best bc s = Ok (r, s') -> same s s'.
Proof.
  induction row as [|h row IH]; intros b best bc s r s' H; cbn [cct_loop] in H; [apply ret_inv in H as [_ ->]; apply same_refl|].
  destruct h; [|eapply IH; eauto]. minv H t s1 E. apply draw_cct_same in E.
  destruct (date_lt (Some t) best); (eapply same_trans; [exact E|eapply IH; eauto]).
Qed.
Lemma find_next_class_change_same j u s s' : find_next_class_change j s = Ok (u, s') -> same s s'.
Proof.
  unfold find_next_class_change. intros H. minv H nd s1 E. apply get_node_inv in E as (-> & _). minv H il s1 E. apply gets_inv in E as [_ ->].
  minv H r s1 E. apply lift_inv in E as [_ ->]. eapply put_node_same; eauto.
Qed.
Lemma stime_num_inv x st s s' : stime_num x s = Ok (st, s') -> i_smark x = 0 /\ st = numo (i_stime x) /\ s' = s.
Proof. unfold stime_num. destruct (i_smark x =? 0) eqn:E; [|discriminate]. intros H. apply ret_inv in H as [-> ->]. apply Z.eqb_eq in E. auto. Qed.

(* a record is its own update *)
Lemma ind_eta_svc x : x = x <| i_stime := i_stime x |> <| i_smark := i_smark x |>.
Proof. destruct x. reflexivity. Qed.
Lemma ind_eta_cc x : x = x <| i_ncls := i_ncls x |> <| i_ccd := i_ccd x |>.
Proof. destruct x. reflexivity. Qed.

(* only the service-time fields / only the class-change clock *)
Definition set_svc (a b : ind) : Prop := exists st sm, b = a <| i_stime := st |> <| i_smark := sm |>.
Definition set_cc (a b : ind) : Prop := exists n c, b = a <| i_ncls := n |> <| i_ccd := c |>.
Lemma set_svc_refl a : set_svc a a. Proof. exists (i_stime a), (i_smark a). apply ind_eta_svc. Qed.
Lemma set_cc_refl a : set_cc a a. Proof. exists (i_ncls a), (i_ccd a). apply ind_eta_cc. Qed.

Lemma gstap_chg i u s s' : give_service_time_after_preemption i s = Ok (u, s') -> chg i set_svc s s'.
Proof.
  unfold give_service_time_after_preemption. intros H. minv H x s1 E. apply get_ind_inv in E as [-> Hx].
  pose proof (find_ind_id _ _ _ Hx) as Hid.
  assert (Hput : forall st s2 u2, put_ind (x <| i_stime := Some st |> <| i_smark := 0 |>) s = Ok (u2, s2) -> chg i set_svc s s2).
  { intros st s2 u2 H2. eapply chg_weak; [eapply put_ind_chg; [exact Hx| |exact H2]; exact Hid|]. cbv beta. intros a b [-> ->]. exists (Some st), 0. reflexivity. }
  destruct (i_smark x =? 3).
  { minv H st s1 E. apply draw_svc_same in E. eapply chg_same_l; [exact E|]. destruct E as [_ E]. rewrite <- E in Hx.
    eapply chg_weak; [eapply put_ind_chg; [exact Hx| |exact H]; exact Hid|]. cbv beta. intros a b [-> ->]. exists (Some st), 0. reflexivity. }
  destruct (i_smark x =? 2). { destruct (i_ost x); [eapply Hput; eauto|discriminate]. }
  destruct (i_smark x =? 1). { destruct (i_tleft x); [eapply Hput; eauto|discriminate]. }
  apply ret_inv in H as [_ ->]. apply same_chg; [apply same_refl|apply set_svc_refl].
Qed.
Lemma giast_chg i u s s' : give_individual_a_service_time i s = Ok (u, s') -> chg i set_svc s s'.
Proof.
  unfold give_individual_a_service_time. intros H. minv H x s1 E. apply get_ind_inv in E as [-> Hx].
  destruct ((i_smark x =? 0) && _); [|eapply gstap_chg; eauto].
  minv H st s1 E. apply draw_svc_same in E. eapply chg_same_l; [exact E|]. destruct E as [_ E]. rewrite <- E in Hx.
  eapply chg_weak; [eapply put_ind_chg; [exact Hx| |exact H]; exact (find_ind_id _ _ _ Hx)|]. cbv beta. intros a b [-> ->].
  exists (Some st), (i_smark x). destruct x. reflexivity.
Qed.
Lemma attach_server_chg j sid i u s s' : attach_server j sid i s = Ok (u, s') -> chg i (fun a b => b = a <| i_server := Some sid |>) s s'.
Proof.
  unfold attach_server. intros H. minv H u1 s1 E. apply upd_server_same in E. eapply chg_same_l; [exact E|].
  eapply upd_ind_chg; [|exact H]. reflexivity.
Qed.

Section Starts.
  Variable cf : config.

  Lemma reset_class_change_chg j i u s s' : reset_class_change cf j i s = Ok (u, s') -> chg i set_cc s s'.
  Proof.
    unfold reset_class_change. intros H. destruct (cf_dyn cf); [|apply ret_inv in H as [_ ->]; apply same_chg; [apply same_refl|apply set_cc_refl]].
    minv H u1 s1 E. apply upd_ind_chg in E; [|reflexivity]. minv H nd s2 E2. apply get_node_inv in E2 as (-> & _).
    eapply chg_weak; [eapply chg_same_r; [exact E|]|].
    - destruct (n_ncci nd) as [k|]; [destruct (k =? i)|]; first [solve [eapply find_next_class_change_same; eauto]|apply ret_inv in H as [_ ->]; apply same_refl].
    - cbv beta. intros a b ->. exists (i_ncls a), XI. destruct a. reflexivity.
  Qed.
  Lemma decide_class_change_chg j i u s s' : decide_class_change cf j i s = Ok (u, s') -> chg i set_cc s s'.
  Proof.
    unfold decide_class_change. intros H. destruct (cf_dyn cf); [|apply ret_inv in H as [_ ->]; apply same_chg; [apply same_refl|apply set_cc_refl]].
    minv H x s1 E. apply get_ind_inv in E as [-> _]. minv H row s1 E. apply lift_inv in E as [_ ->].
    minv H r s1 E. apply cct_loop_same in E. eapply chg_same_l; [exact E|]. minv H t s2 E2. apply tnow_inv in E2 as [-> ->].
    minv H x' s2 E2. apply get_ind_inv in E2 as [-> Hx']. minv H u1 s2 E2.
    eapply chg_weak; [eapply chg_same_r; [eapply put_ind_chg; [exact Hx'| |exact E2]|eapply find_next_class_change_same; eauto]|].
    - exact (find_ind_id _ _ _ Hx').
    - cbv beta. intros a b [-> ->]. eexists _, _. reflexivity.
  Qed.

  (* the fields no service start touches *)
  Definition core (x : ind) :=
    (i_id x, i_cls x, i_pcls x, i_ocls x, i_prio x, i_pprio x, i_node x, i_arr x, i_exit x, i_qa x, i_qd x, i_nrec x, i_ren x,
     (i_tleft x, i_ost x, i_osst x, i_route x)).
  (* record b is record a with a service started at t on server marker srv: start date t, end date t + service time *)
  Definition Started (t : Z) (srv : option Z) (a b : ind) : Prop :=
    core b = core a /\ i_sst b = Some t /\ i_server b = srv /\ i_smark b = 0 /\ i_send b = Some (t + numo (i_stime b)).
  (* ... and the interruption / blockage flags are as before (every start but the restart of an interrupted customer) *)
  Definition flags (x : ind) := (i_interrupted x, i_blocked x, i_dest x).
  Definition StartedW (t : Z) (srv : option Z) (a b : ind) : Prop := Started t srv a b /\ flags b = flags a.

  (* begin_service_if_possible_release / _change_shift *)
  Theorem start_give_spec j c sid s s' : start_give cf j c sid s = Ok (tt, s') -> chg c (StartedW (now s) (Some sid)) s s'.
  Proof.
    unfold start_give. intros H.
    minv H u1 s1 E1. apply attach_server_chg in E1. minv H t s1' E. apply tnow_inv in E as [-> ->].
    minv H u2 s2 E2. apply upd_ind_chg in E2; [|reflexivity]. minv H u3 s3 E3. apply giast_chg in E3.
    minv H x s3' E. apply get_ind_inv in E as [-> Hx]. minv H st s3' E. apply stime_num_inv in E as (Hsm & -> & ->).
    minv H u4 s4 E4. eapply put_ind_chg in E4; [|exact Hx|exact (find_ind_id _ _ _ Hx)].
    minv H u5 s5 E5. apply upd_node_same in E5. minv H u6 s6 E6. apply reset_class_change_chg in E6. apply set_next_end_same in H.
    pose proof (proj1 E1) as N1.
    eapply chg_weak; [eapply chg_same_r; [eapply chg_trans; [exact E1|eapply chg_trans; [exact E2|eapply chg_trans; [exact E3|
      eapply chg_trans; [exact E4|eapply chg_same_l; [exact E5|exact E6]]]]]|exact H]|].
    cbv beta. intros a b (b1 & -> & b2 & -> & b3 & (st & sm & ->) & b4 & [<- ->] & (n & cc & ->)).
    rewrite N1. repeat split; try reflexivity. exact Hsm.
  Qed.
  (* preempt(): the same block without the number_in_service increment *)
  Theorem start_preemptor_spec j c sid s s' : start_preemptor cf j c sid s = Ok (tt, s') -> chg c (StartedW (now s) (Some sid)) s s'.
  Proof.
    unfold start_preemptor. intros H.
    minv H u1 s1 E1. apply attach_server_chg in E1. minv H t s1' E. apply tnow_inv in E as [-> ->].
    minv H u2 s2 E2. apply upd_ind_chg in E2; [|reflexivity]. minv H u3 s3 E3. apply giast_chg in E3.
    minv H x s3' E. apply get_ind_inv in E as [-> Hx]. minv H st s3' E. apply stime_num_inv in E as (Hsm & -> & ->).
    minv H u4 s4 E4. eapply put_ind_chg in E4; [|exact Hx|exact (find_ind_id _ _ _ Hx)].
    minv H u6 s6 E6. apply reset_class_change_chg in E6. apply set_next_end_same in H.
    pose proof (proj1 E1) as N1.
    eapply chg_weak; [eapply chg_same_r; [eapply chg_trans; [exact E1|eapply chg_trans; [exact E2|eapply chg_trans; [exact E3|
      eapply chg_trans; [exact E4|exact E6]]]]|exact H]|].
    cbv beta. intros a b (b1 & -> & b2 & -> & b3 & (st & sm & ->) & b4 & [<- ->] & (n & cc & ->)).
    rewrite N1. repeat split; try reflexivity. exact Hsm.
  Qed.

  (* begin_service_if_possible_accept: always a fresh service time; osid = None is the node with infinitely many servers,
     where no server marker is written *)
  Theorem start_fresh_spec j c osid cnt s s' : start_fresh cf j c osid cnt s = Ok (tt, s') ->
    chg c (fun a b => StartedW (now s) (match osid with Some sid => Some sid | None => i_server a end) a b) s s'.
  Proof.
    unfold start_fresh. intros H.
    minv H u1 s1 E1.
    assert (C1 : chg c (fun a b => b = a <| i_server := match osid with Some sid => Some sid | None => i_server a end |>) s s1).
    { destruct osid as [sid|]; [eapply attach_server_chg; eauto|]. apply ret_inv in E1 as [_ ->]. apply same_chg; [apply same_refl|].
      intros a. destruct a. reflexivity. }
    clear E1. minv H t s1' E. apply tnow_inv in E as [-> ->]. minv H st s2 E2. apply draw_svc_same in E2.
    minv H u3 s3 E3. apply upd_ind_chg in E3; [|reflexivity].
    minv H u4 s4 E4. assert (S4 : same s3 s4).
    { destruct cnt; [eapply upd_node_same; eauto|apply ret_inv in E4 as [_ ->]; apply same_refl]. }
    clear E4. minv H u5 s5 E5. apply reset_class_change_chg in E5.
    assert (S6 : same s5 s').
    { destruct osid; [eapply set_next_end_same; eauto|apply ret_inv in H as [_ ->]; apply same_refl]. }
    pose proof (proj1 C1) as N1.
    eapply chg_weak; [eapply chg_same_r; [eapply chg_trans; [exact C1|eapply chg_same_l; [exact E2|eapply chg_trans; [exact E3|
      eapply chg_same_l; [exact S4|exact E5]]]]|exact S6]|].
    cbv beta. intros a b (b1 & -> & b2 & -> & (n & cc & ->)).
    rewrite N1. repeat split; reflexivity.
  Qed.

  (* the restart of an interrupted customer: the head of the node's list of interrupted customers, whatever waits *)
  Theorem begin_interrupted_spec j sid s s' : begin_interrupted_individuals_service j sid s = Ok (tt, s') ->
    exists nd i, node_at s j nd /\ hd_error (n_interrupted nd) = Some i /\
      chg i (fun a b => Started (now s) (Some sid) a b /\ i_interrupted b = false /\ i_blocked b = false) s s'.
  Proof.
    unfold begin_interrupted_individuals_service. intros H.
    minv H nd s0 E. apply get_node_inv in E as (-> & Hj & Hn). minv H i s0 E. apply lift_inv in E as [Hi ->].
    minv H x s0 E. apply get_ind_inv in E as [-> Hx]. exists nd, i. split; [split; assumption|]. split; [exact Hi|].
    minv H u0 s1 E0.
    assert (C0 : chg i (fun a b => a = x /\ exists d, b = x <| i_dest := d |> <| i_blocked := false |>) s s1).
    { destruct (i_blocked x) eqn:Eb.
      - minv E0 d s2 E. apply lift_inv in E as [_ ->]. minv E0 dn s2 E. apply get_node_inv in E as (-> & _).
        minv E0 bq' s2 E. apply lift_inv in E as [_ ->]. minv E0 u2 s2 E. apply put_node_same in E.
        eapply chg_same_l; [exact E|]. destruct E as [_ E]. rewrite <- E in Hx.
        eapply chg_weak; [eapply put_ind_chg; [exact Hx| |exact E0]; exact (find_ind_id _ _ _ Hx)|]. cbv beta. intros a b [-> ->]. split; [reflexivity|]. exists None. reflexivity.
      - apply ret_inv in E0 as [_ ->]. split; [reflexivity|]. split; [reflexivity|]. intros a Ha. rewrite Hx in Ha. injection Ha as <-.
        exists x. split; [exact Hx|]. split; [reflexivity|]. exists (i_dest x). rewrite <- Eb. destruct x. reflexivity. }
    clear E0. minv H u1 s2 E1. apply attach_server_chg in E1. minv H u2 s3 E2. apply gstap_chg in E2.
    minv H t s3' E. apply tnow_inv in E as [-> ->]. minv H x1 s3' E. apply get_ind_inv in E as [-> Hx1].
    minv H st s3' E. apply stime_num_inv in E as (Hsm & -> & ->).
    minv H u4 s4 E4. eapply put_ind_chg in E4; [|exact Hx1|exact (find_ind_id _ _ _ Hx1)].
    minv H u5 s5 E5. apply upd_node_same in E5. minv H u6 s6 E6. apply set_next_end_same in E6.
    minv H nd2 s6' E. apply get_node_inv in E as (-> & _). minv H l' s6' E. apply lift_inv in E as [_ ->]. apply put_node_same in H.
    pose proof (proj1 C0) as N0. pose proof (proj1 E1) as N1. pose proof (proj1 E2) as N2.
    eapply chg_weak; [eapply chg_same_r; [eapply chg_trans; [exact C0|eapply chg_trans; [exact E1|eapply chg_trans; [exact E2|exact E4]]]|
      eapply same_trans; [exact E5|eapply same_trans; [exact E6|exact H]]]|].
    cbv beta. intros a b (b0 & [-> (d & ->)] & b1 & -> & b2 & (st & sm & ->) & [<- ->]).
    rewrite N2, N1, N0. repeat split; try reflexivity. exact Hsm.
  Qed.

  (* slotted_service: the block that starts one customer of a slot (no server object: the marker -1) *)
  Definition slot_start (j t i : Z) : M unit :=
    upd_ind i (fun x => x <| i_sst := Some t |>) ;;;
    give_individual_a_service_time i ;;;
    x <- get_ind i ;; st <- stime_num x ;;
    put_ind (x <| i_send := Some (t + st) |> <| i_server := Some (-1) |>) ;;;
    upd_node j (fun n' => n' <| n_insvc := n_insvc n' + 1 |>) ;;;
    reset_class_change cf j i.
  Theorem slot_start_spec j t c s s' : slot_start j t c s = Ok (tt, s') -> chg c (StartedW t (Some (-1))) s s'.
  Proof.
    unfold slot_start. intros H.
    minv H u2 s2 E2. apply upd_ind_chg in E2; [|reflexivity]. minv H u3 s3 E3. apply giast_chg in E3.
    minv H x s3' E. apply get_ind_inv in E as [-> Hx]. minv H st s3' E. apply stime_num_inv in E as (Hsm & -> & ->).
    minv H u4 s4 E4. eapply put_ind_chg in E4; [|exact Hx|exact (find_ind_id _ _ _ Hx)].
    minv H u5 s5 E5. apply upd_node_same in E5. apply reset_class_change_chg in H.
    eapply chg_weak; [eapply chg_trans; [exact E2|eapply chg_trans; [exact E3|eapply chg_trans; [exact E4|eapply chg_same_l; [exact E5|exact H]]]]|].
    cbv beta. intros a b (b2 & -> & b3 & (st & sm & ->) & b4 & [<- ->] & (n & cc & ->)).
    repeat split; try reflexivity. exact Hsm.
  Qed.
End Starts.

(* ================================================================================================================ *)
(* Part 3: the recursive core one layer at a time, and a walk over the whole engine for the queues of every node    *)
(* ================================================================================================================ *)
Section Bodies.
  Variable cf : config.
  Definition release_body (acc : Z -> Z -> M unit) (rbi : Z -> M unit) (j i d : Z) (rr : bool) : M unit :=
    t <- tnow ;;
    x <- get_ind i ;;
    nd <- get_node j ;;
    nc <- ncfg_of cf j ;;
    q <- lift E_Remove (nthZ (n_queues nd) (i_pprio x)) ;;
    q' <- lift E_Remove (remove_first i q) ;;
    let nd1 := nd <| n_queues := updZ (n_queues nd) (i_pprio x) q' |> <| n_pop := n_pop nd - 1 |> <| n_insvc := n_insvc nd - 1 |> in
    put_node nd1 ;;;
    put_ind (x <| i_qd := Some (n_pop nd1) |> <| i_exit := Some t |>) ;;;
    (if rr then ret tt else write_individual_record cf j i) ;;;
    freed <- (if negb (nd_inf nd) && negb (nc_slotted nc)
              then x1 <- get_ind i ;; sid <- lift E_NoServer (i_server x1) ;; detatch_server j sid i ;;; ret (Some sid)
              else ret None) ;;
    (if nc_slotted nc then upd_ind i (fun y => y <| i_server := None |>) else ret tt) ;;;
    reset_individual_attributes i ;;;
    (if rr then ret tt else begin_service_if_possible_release cf j freed) ;;;
    (if d =? -1 then exit_accept i true else acc d i) ;;;
    (if rr then ret tt else rbi j).
  Definition rbi_body (rel : Z -> Z -> Z -> bool -> M unit) (j : Z) : M unit :=
    nd <- get_node j ;; nc <- ncfg_of cf j ;;
    if (0 <? n_lenbq nd) && (match nc_cap nc with None => true | Some cap => n_pop nd <? cap end) then
      match n_bq nd with
      | [] => fail E_Index
      | (from, y) :: rest =>
        fnd <- get_node from ;;
        (if memZ y (all_individuals fnd) then ret tt else fail E_Index) ;;;
        put_node (nd <| n_bq := rest |> <| n_lenbq := n_lenbq nd - 1 |>) ;;;
        yx <- get_ind y ;;
        (if i_interrupted yx then
           os <- lift E_Attr (i_osst yx) ;; ot <- lift E_Attr (i_ost yx) ;;
           put_ind (yx <| i_interrupted := false |> <| i_sst := Some os |> <| i_send := Some (os + ot) |>) ;;;
           fnd2 <- get_node from ;;
           l' <- lift E_IntRemove (remove_first y (n_interrupted fnd2)) ;;
           put_node (fnd2 <| n_interrupted := l' |> <| n_nint := n_nint fnd2 - 1 |>)
         else ret tt) ;;;
        rel from y j false
      end
    else ret tt.
  (* accept from the moment of the choice (begin_service_if_possible_accept after the stamps and the class-change clock) *)
  Definition accept_tail (pre : Z -> Z -> Z -> M unit) (j i : Z) (nc : ncfg) : M unit :=
    nd1 <- get_node j ;;
    let inf := nd_inf nd1 in
    cand <- (if inf then ret (Some i) else choose_next_customer cf j) ;;
    match cand with
    | None => ret tt
    | Some c =>
      if inf then start_fresh cf j c None true
      else
        cx <- get_ind c ;;
        match find_free_server_for (nc_spf nc) (i_cls cx) (n_servers nd1) with
           | Some sv => start_fresh cf j c (Some (sv_id sv)) true
           | None =>
             if 0 <? numo (n_c nd1) then
               v <- preempt_victim cf j c ;;
               match v with Some vi => pre j vi c | None => ret tt end
             else ret tt
           end
    end.
  Definition accept_body (pre : Z -> Z -> Z -> M unit) (j i : Z) : M unit :=
    x <- get_ind i ;; nd <- get_node j ;;
    put_ind (x <| i_node := Some j |> <| i_exit := None |> <| i_blocked := false |> <| i_ocls := i_cls x |> <| i_pcls := i_cls x |>
               <| i_pprio := i_prio x |> <| i_qa := Some (n_pop nd) |>) ;;;
    qs <- lift E_Index (match nthZ (n_queues nd) (i_prio x) with Some q => Some (updZ (n_queues nd) (i_prio x) (q ++ [i])) | None => None end) ;;
    put_node (nd <| n_queues := qs |> <| n_pop := n_pop nd + 1 |>) ;;;
    t <- tnow ;;
    upd_ind i (fun y => y <| i_arr := Some t |>) ;;;
    nc <- ncfg_of cf j ;;
    (if nc_reneging nc then rd <- get_reneging_date cf j i ;; upd_ind i (fun y => y <| i_ren := rd |>) else ret tt) ;;;
    decide_class_change cf j i ;;;
    accept_tail pre j i nc.
  (* preempt: what happens to the victim ... *)
  Definition preempt_victim_part (rel : Z -> Z -> Z -> bool -> M unit) (j v t : Z) (vx : ind) (nc : ncfg) : M unit :=
    if nc_preempt nc =? 4 then
       d <- next_node_for cf 1 j v ;;
       write_interruption_record cf j v (Some d) ;;;
       rel j v d true
     else
       write_interruption_record cf j v None ;;;
       upd_ind v (fun y => y <| i_sst := None |> <| i_tleft := Some (numo (i_send y) - t) |> <| i_smark := nc_preempt nc |>
                            <| i_stime := None |> <| i_send := None |>) ;;;
       sid <- lift E_NoServer (i_server vx) ;;
       detatch_server j sid v ;;;
       decide_class_change cf j v.
  (* ... and then the pre-emptor i is started on the victim's server *)
  Definition preempt_body (rel : Z -> Z -> Z -> bool -> M unit) (j v i : Z) : M unit :=
    t <- tnow ;;
    vx <- get_ind v ;; nc <- ncfg_of cf j ;;
    put_ind (vx <| i_ost := i_stime vx |>) ;;;
    preempt_victim_part rel j v t vx nc ;;;
    sid <- lift E_NoServer (i_server vx) ;;
    start_preemptor cf j i sid.

  Lemma release_S f j i d rr : release cf (S f) j i d rr = release_body (accept cf f) (release_blocked_individual cf f) j i d rr.
  Proof. reflexivity. Qed.
  Lemma rbi_S f j : release_blocked_individual cf (S f) j = rbi_body (release cf f) j.
  Proof. reflexivity. Qed.
  Lemma accept_S f j i : accept cf (S f) j i = accept_body (preempt cf f) j i.
  Proof. reflexivity. Qed.
  Lemma preempt_S f j v i : preempt cf (S f) j v i = preempt_body (release cf f) j v i.
  Proof. reflexivity. Qed.

  (* slotted_service: who is taken for the next place of the slot, and one round of the loop *)
  Definition slot_pick (j : Z) (nd : node) : M (option Z) :=
    if 0 <? n_nint nd then
      i <- lift E_IntRemove (hd_error (n_interrupted nd)) ;;
      l' <- lift E_IntRemove (remove_first i (n_interrupted nd)) ;;
      put_node (nd <| n_interrupted := l' |> <| n_nint := n_nint nd - 1 |>) ;;;
      upd_ind i (fun x => x <| i_interrupted := false |>) ;;; ret (Some i)
    else choose_next_customer cf j.
  Lemma slot_loop_S k j : slot_loop cf (S k) j =
    (t <- tnow ;; nd <- get_node j ;; cand <- slot_pick j nd ;;
     (match cand with None => ret tt | Some i => slot_start cf j t i end) ;;; slot_loop cf k j).
  Proof. reflexivity. Qed.

  Definition slot_interrupt (j : Z) (sl : slotcfg) (nd : node) (size : Z) : M unit :=
    if sl_cap sl && negb (sl_pre sl =? 0) then
      let k := n_insvc nd - size in
      if 0 <? k then
        il <- gets inds ;;
        let started := filter (fun i => match find_ind i il with Some x => match i_sst x with Some _ => true | None => false end | None => false end) (all_individuals nd) in
        kl <- keyed started ;;
        fl <- gets fuel_of ;;
        forM_ (firstn (Z.to_nat k) (sort_by_key_desc kl)) (fun i => interrupt_service cf fl j i (sl_pre sl))
      else ret tt
    else ret tt.
  Definition slot_size (sl : slotcfg) (nd : node) : Z := fst (slot_values sl (Z.to_nat (n_spos nd))).
  (* find_number_of_slotted_services *)
  Definition slot_num (sl : slotcfg) (nd : node) : Z :=
    if sl_cap sl then Z.min (Z.max (slot_size sl nd - n_insvc nd) 0) (n_pop nd) else Z.min (slot_size sl nd) (n_pop nd).
  Lemma slotted_unfold j : slotted_service cf j =
    (nc <- ncfg_of cf j ;;
     match nc_srv nc with
     | SSlot sl =>
       nd <- get_node j ;;
       (match sl_b sl with [] => fail E_Config | _ => ret tt end) ;;;
       slot_interrupt j sl nd (slot_size sl nd) ;;;
       slot_loop cf (Z.to_nat (slot_num sl nd)) j ;;;
       upd_node j (fun n' => n' <| n_spos := n_spos n' + 1 |>)
     | _ => fail E_Config
     end).
  Proof. reflexivity. Qed.

  (* class change while waiting: the move between the queues, the pre-emption it may trigger, the rest *)
  Definition ccww_move (i : Z) (x : ind) (nd : node) (p' : Z) (k : M unit) : M unit :=
    q <- lift E_Remove (nthZ (n_queues nd) (i_pprio x)) ;;
    q' <- lift E_Remove (remove_first i q) ;;
    let qs1 := updZ (n_queues nd) (i_pprio x) q' in
    qn <- lift E_Index (nthZ qs1 p') ;;
    put_node (nd <| n_queues := updZ qs1 p' (qn ++ [i]) |>) ;;; k.
  Definition ccww_preempt (j i : Z) (nd : node) : M unit :=
    if negb (nd_inf nd) && (0 <? numo (n_c nd)) then
      v <- preempt_victim cf j i ;;
      match v with Some vi => fl <- gets fuel_of ;; preempt cf fl j vi i | None => ret tt end
    else ret tt.
  Definition ccww_finish (j i ncl : Z) : M unit :=
    upd_ind i (fun y => y <| i_pcls := ncl |> <| i_pprio := i_prio y |>) ;;;
    decide_class_change cf j i.
  Lemma ccww_unfold j : change_customer_class_while_waiting cf j =
    (nd <- get_node j ;;
     i <- lift E_NoInd (hd_error (n_next_inds nd)) ;;
     x <- get_ind i ;;
     ncl <- lift E_Attr (i_ncls x) ;;
     p' <- lift E_Config (nthZ (cf_prio cf) ncl) ;;
     put_ind (x <| i_cls := ncl |> <| i_prio := p' |>) ;;;
     (if negb (p' =? i_pprio x) then ccww_move i x nd p' (ccww_preempt j i nd) else ret tt) ;;;
     ccww_finish j i ncl).
  Proof. reflexivity. Qed.
End Bodies.

(* ---------- node identities are positions ---------- *)
Definition IdxL (ns : list node) : Prop := forall k nd, nth_error ns k = Some nd -> n_id nd = Z.of_nat k + 1.
Definition Idx (s : sim) : Prop := IdxL (nodes s).
Fixpoint idx_from (k0 : Z) (ns : list node) : bool :=
  match ns with [] => true | nd :: r => (n_id nd =? k0) && idx_from (k0 + 1) r end.
Definition Idx_b (s : sim) : bool := idx_from 1 (nodes s).
Lemma idx_from_sound : forall ns k0, idx_from k0 ns = true -> forall k nd, nth_error ns k = Some nd -> n_id nd = Z.of_nat k + k0.
Proof.
  induction ns as [|n r IH]; intros k0 H k nd Hk; [destruct k; discriminate|]. cbn [idx_from] in H. apply andb_prop in H as [H1 H2].
  destruct k as [|k]; [injection Hk as <-; apply Z.eqb_eq in H1; lia|]. change (nth_error r k = Some nd) in Hk. rewrite (IH _ H2 k nd Hk). lia.
Qed.
Lemma Idx_b_sound s : Idx_b s = true -> Idx s.
Proof. intros H k nd Hk. apply (idx_from_sound _ _ H k nd Hk). Qed.
Lemma IdxL_at ns j nd : IdxL ns -> nthZ ns (j - 1) = Some nd -> n_id nd = j.
Proof. intros HI H. apply nthZ_nat in H as [H0 H]. rewrite (HI _ _ H). lia. Qed.

(* ---------- the walk: every function of the engine relates the queues of a node before and after by Qr, any reflexive and
   transitive relation; the functions that neither enqueue nor dequeue do so for EVERY such Qr, equality included ---------- *)
Create HintDb rodb.
Create HintDb kqdb.
Section KQ.
  Variable Qr : list (list Z) -> list (list Z) -> Prop.
  Hypothesis Qrefl : forall q, Qr q q.
  Hypothesis Qtrans : forall a b c, Qr a b -> Qr b c -> Qr a c.

  (* same number of nodes, same identities, queues related *)
  Definition NR (ns ns' : list node) : Prop :=
    length ns' = length ns /\
    forall k nd, nth_error ns k = Some nd -> exists nd', nth_error ns' k = Some nd' /\ n_id nd' = n_id nd /\ Qr (n_queues nd) (n_queues nd').
  Lemma NR_refl ns : NR ns ns.
  Proof. split; [reflexivity|]. intros k nd H. exists nd. auto. Qed.
  Lemma NR_trans a b c : NR a b -> NR b c -> NR a c.
  Proof.
    intros [L1 H1] [L2 H2]. split; [congruence|]. intros k nd Hk. destruct (H1 k nd Hk) as (nd1 & Hk1 & I1 & Q1).
    destruct (H2 k nd1 Hk1) as (nd2 & Hk2 & I2 & Q2). exists nd2. split; [exact Hk2|]. split; [congruence|]. eapply Qtrans; eauto.
  Qed.
  Lemma NR_Idx a b : IdxL a -> NR a b -> IdxL b.
  Proof.
    intros HI [L H] k nd' Hk. assert (Hlt : (k < length a)%nat) by (rewrite <- L; apply nth_error_Some; congruence).
    destruct (nth_error a k) as [nd|] eqn:E; [|apply nth_error_None in E; lia].
    destruct (H k nd E) as (nd2 & Hk2 & I2 & _). rewrite Hk in Hk2. injection Hk2 as <-. rewrite I2. apply (HI k nd E).
  Qed.
  Lemma NR_upd ns k nd0 nd' : nth_error ns k = Some nd0 -> n_id nd' = n_id nd0 -> Qr (n_queues nd0) (n_queues nd') -> NR ns (upd ns k nd').
  Proof.
    intros Hk Hid Hq. split; [apply length_upd|]. intros k' nd Hk'. destruct (Nat.eq_dec k k') as [<-|Hne].
    - rewrite Hk in Hk'. injection Hk' as <-. exists nd'. split; [eapply nth_error_upd_eq; eauto|auto].
    - exists nd. rewrite nth_error_upd_ne by exact Hne. auto.
  Qed.

  Definition ro {A} (m : M A) : Prop := forall s a s', m s = Ok (a, s') -> nodes s' = nodes s.
  Definition kq (K : list node -> Prop) {A} (m : M A) : Prop :=
    forall s a s', IdxL (nodes s) -> K (nodes s) -> m s = Ok (a, s') -> NR (nodes s) (nodes s').
  Definition KT : list node -> Prop := fun _ => True.
  Definition at_ (j : Z) (nd : node) (ns : list node) : Prop := 1 <= j /\ nthZ ns (j - 1) = Some nd.

  (* --- functions that leave the node list alone --- *)
  Lemma ro_ret {A} (a : A) : ro (ret a). Proof. intros s b s' H. apply ret_inv in H as [_ ->]. reflexivity. Qed.
  Lemma ro_fail {A} e : ro (@fail A e). Proof. intros s a s' H. discriminate. Qed.
  Lemma ro_oof {A} : ro (@oof A). Proof. intros s a s' H. discriminate. Qed.
  Lemma ro_bind {A B} (m : M A) (f : A -> M B) : ro m -> (forall a, ro (f a)) -> ro (bind m f).
  Proof. intros Hm Hf s b s' H. minv H a s1 E. rewrite (Hf _ _ _ _ H). eapply Hm; eauto. Qed.
  Lemma ro_gets {A} (f : sim -> A) : ro (gets f). Proof. intros s a s' H. apply gets_inv in H as [_ ->]. reflexivity. Qed.
  Lemma ro_lift {A} e (o : option A) : ro (lift e o). Proof. destruct o; [apply ro_ret|apply ro_fail]. Qed.
  Lemma ro_modify (f : sim -> sim) : (forall s, nodes (f s) = nodes s) -> ro (modify f).
  Proof. intros Hf s a s' H. apply modify_inv in H. subst s'. apply Hf. Qed.
  Lemma ro_get_node j : ro (get_node j). Proof. intros s a s' H. apply get_node_inv in H as [-> _]. reflexivity. Qed.
  Lemma ro_get_ind i : ro (get_ind i). Proof. intros s a s' H. apply get_ind_inv in H as [-> _]. reflexivity. Qed.
  Lemma ro_put_ind x : ro (put_ind x). Proof. apply ro_modify. reflexivity. Qed.
  Lemma ro_del_ind i : ro (del_ind i). Proof. apply ro_modify. reflexivity. Qed.
  Lemma ro_log_rec r : ro (log_rec r). Proof. apply ro_modify. reflexivity. Qed.
  Lemma ro_draw_arr : ro draw_arr. Proof. intros s a s' H. unfold draw_arr in H. destruct (d_arr (dr s)); inversion H. reflexivity. Qed.
  Lemma ro_draw_batch : ro draw_batch. Proof. intros s a s' H. unfold draw_batch in H. destruct (d_batch (dr s)); inversion H. reflexivity. Qed.
  Lemma ro_draw_svc : ro draw_svc. Proof. intros s a s' H. unfold draw_svc in H. destruct (d_svc (dr s)); inversion H. reflexivity. Qed.
  Lemma ro_draw_unif : ro draw_unif. Proof. intros s a s' H. unfold draw_unif in H. destruct (d_unif (dr s)); inversion H. reflexivity. Qed.
  Lemma ro_draw_ren : ro draw_ren. Proof. intros s a s' H. unfold draw_ren in H. destruct (d_ren (dr s)); inversion H. reflexivity. Qed.
  Lemma ro_draw_cct : ro draw_cct. Proof. intros s a s' H. unfold draw_cct in H. destruct (d_cct (dr s)); inversion H. reflexivity. Qed.
  Lemma ro_mapM {A B} (f : A -> M B) l : (forall a, ro (f a)) -> ro (mapM f l).
  Proof. intros Hf. induction l as [|a r IH]; cbn [mapM]; [apply ro_ret|]. apply ro_bind; [apply Hf|]. intros b. apply ro_bind; [exact IH|]. intros bs. apply ro_ret. Qed.
  Lemma ro_forM {A} (f : A -> M unit) l : (forall a, ro (f a)) -> ro (forM_ l f).
  Proof. intros Hf. induction l as [|a r IH]; cbn [forM_]; [apply ro_ret|]. apply ro_bind; [apply Hf|]. intros _. exact IH. Qed.
  #[local] Hint Resolve ro_ret ro_fail ro_oof ro_gets ro_lift ro_get_node ro_get_ind ro_put_ind ro_del_ind ro_log_rec
    ro_draw_arr ro_draw_batch ro_draw_svc ro_draw_unif ro_draw_ren ro_draw_cct : rodb.
  (* fails as soon as one leaf is not known to leave the node list alone *)
  Ltac row :=
    first
      [ solve [auto 1 with rodb nocore]
      | match goal with
        | |- ro (modify _) => apply ro_modify; intros ?; reflexivity
        | |- ro (bind _ _) => apply ro_bind; [row|intros; row]
        | |- ro (mapM _ _) => apply ro_mapM; intros; row
        | |- ro (forM_ _ _) => apply ro_forM; intros; row
        | |- ro (let _ := _ in _) => cbv zeta; row
        | |- ro (if ?b then _ else _) => destruct b; row
        | |- ro (match ?x with _ => _ end) => destruct x; row
        end ].

  Variable cf : config.
  Lemma ro_ncfg_of j : ro (ncfg_of cf j). Proof. apply ro_lift. Qed.
  Lemma ro_upd_ind i f : ro (upd_ind i f). Proof. unfold upd_ind. row. Qed.
  Lemma ro_tnow : ro tnow. Proof. apply ro_gets. Qed.
  #[local] Hint Resolve ro_ncfg_of ro_upd_ind ro_tnow : rodb.
  Lemma ro_choice_uniform {A} (l : list A) : ro (choice_uniform l). Proof. unfold choice_uniform. row. Qed.
  Lemma ro_choice_weighted den Pw : ro (choice_weighted den Pw). Proof. unfold choice_weighted. row. Qed.
  #[local] Hint Resolve ro_choice_uniform ro_choice_weighted : rodb.
  Lemma ro_exit_accept i c : ro (exit_accept i c). Proof. unfold exit_accept. row. Qed.
  Lemma ro_choose_next_customer j : ro (choose_next_customer cf j). Proof. unfold choose_next_customer. row. Qed.
  Lemma ro_cct_loop : forall row b best bc, ro (cct_loop row b best bc).
  Proof. induction row as [|h r IH]; intros b best bc; cbn [cct_loop]; [apply ro_ret|]. destruct h; [|apply IH]. apply ro_bind; [apply ro_draw_cct|]. intros t. destruct (date_lt (Some t) best); apply IH. Qed.
  Lemma ro_stime_num x : ro (stime_num x). Proof. unfold stime_num. row. Qed.
  Lemma ro_gstap i : ro (give_service_time_after_preemption i). Proof. unfold give_service_time_after_preemption. row. Qed.
  #[local] Hint Resolve ro_exit_accept ro_choose_next_customer ro_cct_loop ro_stime_num ro_gstap : rodb.
  Lemma ro_giast i : ro (give_individual_a_service_time i). Proof. unfold give_individual_a_service_time. row. Qed.
  Lemma ro_bump_rec i : ro (bump_rec i). Proof. unfold bump_rec. row. Qed.
  #[local] Hint Resolve ro_giast ro_bump_rec : rodb.
  Lemma ro_write_individual_record j i : ro (write_individual_record cf j i). Proof. unfold write_individual_record. row. Qed.
  Lemma ro_write_interruption_record j i d : ro (write_interruption_record cf j i d). Proof. unfold write_interruption_record. row. Qed.
  Lemma ro_write_reneging_record j i : ro (write_reneging_record j i). Proof. unfold write_reneging_record. row. Qed.
  Lemma ro_write_br_record j i ty : ro (write_br_record j i ty). Proof. unfold write_br_record. row. Qed.
  Lemma ro_reset_individual_attributes i : ro (reset_individual_attributes i). Proof. unfold reset_individual_attributes. row. Qed.
  #[local] Hint Resolve ro_write_individual_record ro_write_interruption_record ro_write_reneging_record ro_write_br_record ro_reset_individual_attributes : rodb.
  Lemma ro_valid_dest d : ro (valid_dest d). Proof. unfold valid_dest. row. Qed.
  Lemma ro_jsq_loop lb : forall ds best acc, ro (jsq_loop lb ds best acc).
  Proof. induction ds as [|d r IH]; intros best acc; cbn [jsq_loop]; [apply ro_ret|]. apply ro_bind; [apply ro_get_node|]. intros nd. cbv zeta. destruct (date_eqb _ _); [apply IH|]. destruct (date_lt _ _); apply IH. Qed.
  #[local] Hint Resolve ro_valid_dest ro_jsq_loop : rodb.
  Lemma ro_jsq_next lb ds o : ro (jsq_next lb ds o). Proof. unfold jsq_next. row. Qed.
  Lemma ro_get_cyc c j : ro (get_cyc c j). Proof. unfold get_cyc. row. Qed.
  Lemma ro_bump_cyc c j : ro (bump_cyc c j).
  Proof. unfold bump_cyc. apply ro_modify. intros s. destruct (nthZ (cyc s) c) as [row|]; [|reflexivity]. destruct (nthZ row (j - 1)); reflexivity. Qed.
  #[local] Hint Resolve ro_jsq_next ro_get_cyc ro_bump_cyc : rodb.
  Lemma ro_node_router_next r c j : ro (node_router_next r c j). Proof. unfold node_router_next. row. Qed.
  #[local] Hint Resolve ro_node_router_next : rodb.
  Lemma ro_next_node_for mode j i : ro (next_node_for cf mode j i). Proof. unfold next_node_for. row. Qed.
  Lemma ro_get_reneging_date j i : ro (get_reneging_date cf j i). Proof. unfold get_reneging_date. row. Qed.
  Lemma ro_preempt_victim j i : ro (preempt_victim cf j i). Proof. unfold preempt_victim. row. Qed.
  Lemma ro_decide_between l : ro (decide_between l). Proof. unfold decide_between. row. Qed.
  Lemma ro_change_customer_class j i : ro (change_customer_class cf j i). Proof. unfold change_customer_class. row. Qed.
  Lemma ro_has_space d : ro (has_space cf d). Proof. unfold has_space. row. Qed.
  Lemma ro_keyed l : ro (keyed l). Proof. unfold keyed. row. Qed.
  Lemma ro_find_next_event_date : ro find_next_event_date.
  Proof. unfold find_next_event_date. apply ro_modify. intros s. destruct (find_min_dates 1 (a_dates (arr s)) (None, 0, 0)) as [[d j] c]. reflexivity. Qed.
  Lemma ro_sys_population : ro sys_population. Proof. unfold sys_population. row. Qed.
  Lemma ro_route_of i c : ro (route_of cf i c). Proof. unfold route_of. row. Qed.
  Lemma ro_find_next_active_node : ro find_next_active_node. Proof. unfold find_next_active_node. row. Qed.
  #[local] Hint Resolve ro_next_node_for ro_get_reneging_date ro_preempt_victim ro_decide_between ro_change_customer_class ro_has_space
    ro_keyed ro_find_next_event_date ro_sys_population ro_route_of ro_find_next_active_node : rodb.

  (* --- the rules of the walk --- *)
  Lemma kq_ro (K : list node -> Prop) {A} (m : M A) : ro m -> kq K m.
  Proof. intros Hm s a s' _ _ H. rewrite (Hm _ _ _ H). apply NR_refl. Qed.
  Lemma kq_pre (K K' : list node -> Prop) {A} (m : M A) : kq K m -> (forall ns, K' ns -> K ns) -> kq K' m.
  Proof. intros Hm HK s a s' HI Hk H. eapply Hm; eauto. Qed.
  Lemma kq_weak (K : list node -> Prop) {A} (m : M A) : kq KT m -> kq K m.
  Proof. intros Hm. eapply kq_pre; [exact Hm|]. intros; exact I. Qed.
  Lemma kq_bind_ro (K : list node -> Prop) {A B} (m : M A) (f : A -> M B) : ro m -> (forall a, kq K (f a)) -> kq K (bind m f).
  Proof. intros Hm Hf s b s' HI HK H. minv H a s1 E. pose proof (Hm _ _ _ E) as En. rewrite <- En in *. eapply Hf; eauto. Qed.
  Lemma kq_bind (K : list node -> Prop) {A B} (m : M A) (f : A -> M B) : kq K m -> (forall a, kq KT (f a)) -> kq K (bind m f).
  Proof.
    intros Hm Hf s b s' HI HK H. minv H a s1 E. pose proof (Hm _ _ _ HI HK E) as N1.
    eapply NR_trans; [exact N1|]. eapply Hf; [eapply NR_Idx; eauto|exact I|exact H].
  Qed.
  Lemma kq_get_node_bind (K : list node -> Prop) {B} j (f : node -> M B) : (forall nd, kq (fun ns => K ns /\ at_ j nd ns) (f nd)) -> kq K (bind (get_node j) f).
  Proof. intros Hf s b s' HI HK H. minv H nd s1 E. apply get_node_inv in E as (-> & Hj & Hn). eapply Hf; [exact HI| |exact H]. split; [exact HK|split; assumption]. Qed.
  Lemma kq_lift_bind (K : list node -> Prop) {A B} e (o : option A) (f : A -> M B) : (forall a, o = Some a -> kq K (f a)) -> kq K (bind (lift e o) f).
  Proof. intros Hf s b s' HI HK H. minv H a s1 E. apply lift_inv in E as [-> ->]. eapply Hf; eauto. Qed.
  Lemma kq_put_node (K : list node -> Prop) nd' :
    (forall ns, K ns -> exists j nd0, at_ j nd0 ns /\ n_id nd' = n_id nd0 /\ Qr (n_queues nd0) (n_queues nd')) -> kq K (put_node nd').
  Proof.
    intros Hs s a s' HI HK H. apply modify_inv in H. subst s'. destruct (Hs _ HK) as (j & nd0 & [Hj Hn] & Hid & Hq).
    pose proof (IdxL_at _ _ _ HI Hn) as Hj0. cbn. rewrite Hid, Hj0. apply nthZ_nat in Hn as [H0 Hn].
    unfold updZ. destruct (j - 1 <? 0) eqn:E; [apply Z.ltb_lt in E; lia|]. eapply NR_upd; eauto.
  Qed.
  Lemma kq_upd_node (K : list node -> Prop) j f : (forall nd, n_id (f nd) = n_id nd /\ n_queues (f nd) = n_queues nd) -> kq K (upd_node j f).
  Proof.
    intros Hf. unfold upd_node. apply kq_get_node_bind. intros nd. apply kq_put_node. intros ns [_ Hat]. exists j, nd.
    destruct (Hf nd) as [A B]. split; [exact Hat|]. split; [exact A|]. rewrite B. apply Qrefl.
  Qed.
  Lemma kq_mapM {A B} (f : A -> M B) l : (forall a, kq KT (f a)) -> kq KT (mapM f l).
  Proof. intros Hf. induction l as [|a r IH]; cbn [mapM]; [apply kq_ro, ro_ret|]. apply kq_bind; [apply Hf|]. intros b. apply kq_bind; [exact IH|]. intros bs. apply kq_ro, ro_ret. Qed.
  Lemma kq_forM {A} (f : A -> M unit) l : (forall a, kq KT (f a)) -> kq KT (forM_ l f).
  Proof. intros Hf. induction l as [|a r IH]; cbn [forM_]; [apply kq_ro, ro_ret|]. apply kq_bind; [apply Hf|]. intros _. exact IH. Qed.

  (* the side condition of kq_put_node when the node written is an update, not touching the queues, of a node read before *)
  Ltac putside :=
    let ns := fresh "ns" in let HK := fresh "HK" in
    intros ns HK; cbv beta in HK;
    repeat match goal with H : _ /\ _ |- _ => destruct H end;
    match goal with
    | H : at_ ?j ?nd0 ns |- _ => exists j, nd0; split; [exact H|split; [reflexivity|exact (Qrefl (n_queues nd0))]]
    end.
  Ltac kq1 :=
    first
      [ solve [apply kq_weak; auto 1 with kqdb nocore]
      | solve [apply kq_ro; row]
      | match goal with
        | |- kq _ (bind (get_node _) _) => apply kq_get_node_bind; intros ?
        | |- kq _ (bind _ _) => first [apply kq_bind_ro; [solve [row]|intros] | apply kq_bind; [|intros]]
        | |- kq _ (upd_node _ _) => solve [apply kq_upd_node; intros; split; reflexivity]
        | |- kq _ (put_node _) => solve [apply kq_put_node; putside]
        | |- kq _ (forM_ _ _) => solve [apply kq_weak; apply kq_forM; intros; auto 1 with kqdb nocore]
        | |- kq _ (let _ := _ in _) => cbv zeta
        | |- kq _ (if ?b then _ else _) => destruct b
        | |- kq _ (match ?x with _ => _ end) => destruct x
        end ].
  Ltac kqw := repeat kq1.

  Lemma kq_upd_server j sid f : kq KT (upd_server j sid f). Proof. unfold upd_server. kqw. Qed.
  Lemma kq_find_next_class_change j : kq KT (find_next_class_change j). Proof. unfold find_next_class_change. kqw. Qed.
  #[local] Hint Resolve kq_upd_server kq_find_next_class_change : kqdb.
  Lemma kq_decide_class_change j i : kq KT (decide_class_change cf j i). Proof. unfold decide_class_change. kqw. Qed.
  Lemma kq_reset_class_change j i : kq KT (reset_class_change cf j i). Proof. unfold reset_class_change. kqw. Qed.
  Lemma kq_attach_server j sid i : kq KT (attach_server j sid i). Proof. unfold attach_server. kqw. Qed.
  Lemma kq_set_next_end j sid d : kq KT (set_next_end j sid d). Proof. unfold set_next_end. kqw. Qed.
  Lemma kq_kill_server j sid : kq KT (kill_server j sid). Proof. unfold kill_server. kqw. Qed.
  #[local] Hint Resolve kq_decide_class_change kq_reset_class_change kq_attach_server kq_set_next_end kq_kill_server : kqdb.
  Lemma kq_detatch_server j sid i : kq KT (detatch_server j sid i). Proof. unfold detatch_server. kqw. Qed.
  #[local] Hint Resolve kq_detatch_server : kqdb.
  Lemma kq_start_fresh j i osid c : kq KT (start_fresh cf j i osid c). Proof. unfold start_fresh. kqw. Qed.
  Lemma kq_start_give j i sid : kq KT (start_give cf j i sid). Proof. unfold start_give. kqw. Qed.
  Lemma kq_start_preemptor j i sid : kq KT (start_preemptor cf j i sid). Proof. unfold start_preemptor. kqw. Qed.
  Lemma kq_biis j sid : kq KT (begin_interrupted_individuals_service j sid). Proof. unfold begin_interrupted_individuals_service. kqw. Qed.
  Lemma kq_slot_start j t i : kq KT (slot_start cf j t i). Proof. unfold slot_start. kqw. Qed.
  #[local] Hint Resolve kq_start_fresh kq_start_give kq_start_preemptor kq_biis kq_slot_start : kqdb.
  Lemma kq_serve_with j sid : kq KT (serve_with cf j sid). Proof. unfold serve_with. kqw. Qed.
  #[local] Hint Resolve kq_serve_with : kqdb.
  Lemma kq_bsipr j freed : kq KT (begin_service_if_possible_release cf j freed). Proof. unfold begin_service_if_possible_release. kqw. Qed.
  Lemma kq_block_individual j i d : kq KT (block_individual j i d). Proof. unfold block_individual. kqw. Qed.
  Lemma kq_bsipcs j : kq KT (begin_service_if_possible_change_shift cf j). Proof. unfold begin_service_if_possible_change_shift. kqw. Qed.
  Lemma kq_slot_pick j nd : kq (fun ns => KT ns /\ at_ j nd ns) (slot_pick cf j nd). Proof. unfold slot_pick. kqw. Qed.
  Lemma kq_slot_loop : forall k j, kq KT (slot_loop cf k j).
  Proof.
    induction k as [|k IH]; intros j; [apply kq_ro, ro_ret|]. rewrite slot_loop_S.
    apply kq_bind_ro; [row|intros t]. apply kq_get_node_bind. intros nd. apply kq_bind; [apply kq_slot_pick|]. intros cand.
    apply kq_bind; [|intros _; apply IH]. destruct cand; kqw.
  Qed.
  Lemma kq_sort_interrupted_individuals j : kq KT (sort_interrupted_individuals j). Proof. unfold sort_interrupted_individuals. kqw. Qed.
  Lemma kq_add_new_servers : forall k j, kq KT (add_new_servers k j).
  Proof. induction k as [|k IH]; intros j; cbn [add_new_servers]; [apply kq_ro, ro_ret|]. kqw. Qed.
  #[local] Hint Resolve kq_bsipr kq_block_individual kq_bsipcs kq_slot_loop kq_sort_interrupted_individuals kq_add_new_servers : kqdb.
  Lemma kq_update_next_event_date j : kq KT (update_next_event_date cf j). Proof. unfold update_next_event_date. kqw. Qed.
  Lemma kq_update_all : forall js, kq KT (update_all cf js).
  Proof. induction js as [|j r IH]; cbn [update_all]; [apply kq_ro, ro_ret|]. apply kq_bind; [apply kq_update_next_event_date|]. intros _. exact IH. Qed.
  #[local] Hint Resolve kq_update_next_event_date kq_update_all : kqdb.

  (* pre-emption and interruption without rerouting never dequeue *)
  Lemma kq_preempt_victim_part_stay rel j v t vx nc : (nc_preempt nc =? 4) = false -> kq KT (preempt_victim_part cf rel j v t vx nc).
  Proof. intros E. unfold preempt_victim_part. rewrite E. kqw. Qed.
  Lemma kq_interrupt_service_stay f j i pre : (pre =? 4) = false -> kq KT (interrupt_service cf f j i pre).
  Proof. intros E. unfold interrupt_service. rewrite E. kqw. Qed.
  Lemma kq_off_duty_loop_stay : forall k f j idx pre se, (pre =? 4) = false -> kq KT (off_duty_loop cf k f j idx pre se).
  Proof.
    induction k as [|k IH]; intros f j idx pre se E; cbn [off_duty_loop]; [apply kq_ro, ro_ret|].
    pose proof (kq_interrupt_service_stay f j) as HS. pose proof (IH f j (S idx) pre se E) as IH'. kqw; apply kq_weak; apply HS; exact E.
  Qed.
  Lemma kq_take_servers_off_duty_stay f j pre : (pre =? 4) = false -> kq KT (take_servers_off_duty cf f j pre).
  Proof. intros E. unfold take_servers_off_duty. pose proof (fun k idx se => kq_off_duty_loop_stay k f j idx pre se E) as HS. kqw. Qed.
  Lemma kq_change_shift_stay j :
    (forall nc sc, nthZ (cf_nodes cf) (j - 1) = Some nc -> nc_srv nc = SSched sc -> (sc_pre sc =? 4) = false) -> kq KT (change_shift cf j).
  Proof.
    intros Hsc. unfold change_shift, ncfg_of. apply kq_lift_bind. intros nc Hnc. destruct (nc_srv nc) as [|sc|sl] eqn:Esrv; [apply kq_ro, ro_fail| |apply kq_ro, ro_fail].
    pose proof (fun f => kq_take_servers_off_duty_stay f j (sc_pre sc) (Hsc nc sc Hnc Esrv)) as HS. kqw.
  Qed.
  Lemma kq_slotted_service_stay j :
    (forall nc sl, nthZ (cf_nodes cf) (j - 1) = Some nc -> nc_srv nc = SSlot sl -> (sl_pre sl =? 4) = false) -> kq KT (slotted_service cf j).
  Proof.
    intros Hsl. unfold slotted_service, ncfg_of. apply kq_lift_bind. intros nc Hnc. destruct (nc_srv nc) as [|sc|sl] eqn:Esrv; [apply kq_ro, ro_fail|apply kq_ro, ro_fail|].
    pose proof (fun f i => kq_interrupt_service_stay f j i (sl_pre sl) (Hsl nc sl Hnc Esrv)) as HS. kqw.
  Qed.

  (* --- from here on: the functions that enqueue and dequeue.  Qr must admit the two primitive moves --- *)
  Hypothesis Happ : forall qs p q i, nthZ qs p = Some q -> Qr qs (updZ qs p (q ++ [i])).
  Hypothesis Hrm : forall qs p q q' i, nthZ qs p = Some q -> remove_first i q = Some q' -> Qr qs (updZ qs p q').

  Lemma kq_release_body acc rbi j i d rr : (forall d' i', kq KT (acc d' i')) -> (forall j', kq KT (rbi j')) -> kq KT (release_body cf acc rbi j i d rr).
  Proof.
    intros Ha Hr. unfold release_body.
    apply kq_bind_ro; [row|intros t]. apply kq_bind_ro; [row|intros x]. apply kq_get_node_bind; intros nd. apply kq_bind_ro; [row|intros nc].
    apply kq_lift_bind; intros q Hq. apply kq_lift_bind; intros q' Hq'. cbv zeta.
    apply kq_bind; [|intros _; kqw].
    apply kq_put_node. intros ns [_ Hat]. exists j, nd. split; [exact Hat|]. split; [reflexivity|].
    change (Qr (n_queues nd) (updZ (n_queues nd) (i_pprio x) q')). eapply Hrm; eassumption.
  Qed.
  Lemma kq_rbi_body rel j : (forall a b c e, kq KT (rel a b c e)) -> kq KT (rbi_body cf rel j).
  Proof. intros Hr. unfold rbi_body. kqw. Qed.
  Lemma kq_accept_body pre j i : (forall a b c, kq KT (pre a b c)) -> kq KT (accept_body cf pre j i).
  Proof.
    intros Hp. unfold accept_body.
    apply kq_bind_ro; [row|intros x]. apply kq_get_node_bind; intros nd. apply kq_bind_ro; [row|intros _].
    apply kq_lift_bind; intros qs Hqs. apply kq_bind; [|intros _; unfold accept_tail; kqw].
    apply kq_put_node. intros ns [_ Hat]. exists j, nd. split; [exact Hat|]. split; [reflexivity|].
    change (Qr (n_queues nd) qs). destruct (nthZ (n_queues nd) (i_prio x)) as [q|] eqn:Eq; [|discriminate Hqs].
    injection Hqs as <-. eapply Happ; exact Eq.
  Qed.
  Lemma kq_preempt_body rel j v i : (forall a b c e, kq KT (rel a b c e)) -> kq KT (preempt_body cf rel j v i).
  Proof. intros Hr. unfold preempt_body, preempt_victim_part. kqw. Qed.
  Lemma kq_core : forall f, (forall j i d rr, kq KT (release cf f j i d rr)) /\ (forall j, kq KT (release_blocked_individual cf f j)) /\
                            (forall j i, kq KT (accept cf f j i)) /\ (forall j v i, kq KT (preempt cf f j v i)).
  Proof.
    induction f as [|f (IH1 & IH2 & IH3 & IH4)]; [split; [|split; [|split]]; intros; apply kq_ro, ro_oof|].
    split; [|split; [|split]]; intros.
    - rewrite release_S. apply kq_release_body; assumption.
    - rewrite rbi_S. apply kq_rbi_body; assumption.
    - rewrite accept_S. apply kq_accept_body; assumption.
    - rewrite preempt_S. apply kq_preempt_body; assumption.
  Qed.
  Lemma kq_release f j i d rr : kq KT (release cf f j i d rr). Proof. apply kq_core. Qed.
  Lemma kq_rbi f j : kq KT (release_blocked_individual cf f j). Proof. apply kq_core. Qed.
  Lemma kq_accept f j i : kq KT (accept cf f j i). Proof. apply kq_core. Qed.
  Lemma kq_preempt f j v i : kq KT (preempt cf f j v i). Proof. apply kq_core. Qed.
  #[local] Hint Resolve kq_release kq_rbi kq_accept kq_preempt : kqdb.

  Lemma kq_finish_service j : kq KT (finish_service cf j). Proof. unfold finish_service. kqw. Qed.
  Lemma kq_renege j : kq KT (renege cf j).
  Proof.
    unfold renege. apply kq_bind_ro; [row|intros t]. apply kq_get_node_bind; intros nd. apply kq_bind_ro; [row|intros i].
    apply kq_bind_ro; [row|intros _]. apply kq_bind_ro; [row|intros d]. apply kq_bind_ro; [row|intros x].
    apply kq_get_node_bind; intros nd1. apply kq_lift_bind; intros q Hq. apply kq_lift_bind; intros q' Hq'. cbv zeta.
    apply kq_bind; [|intros _; kqw].
    apply kq_put_node. intros ns [_ Hat]. exists j, nd1. split; [exact Hat|]. split; [reflexivity|].
    change (Qr (n_queues nd1) (updZ (n_queues nd1) (i_pprio x) q')). eapply Hrm; eassumption.
  Qed.
  Lemma kq_interrupt_service f j i pre : kq KT (interrupt_service cf f j i pre). Proof. unfold interrupt_service. kqw. Qed.
  #[local] Hint Resolve kq_finish_service kq_renege kq_interrupt_service : kqdb.
  Lemma kq_slot_interrupt j sl nd size : kq KT (slot_interrupt cf j sl nd size). Proof. unfold slot_interrupt. kqw. Qed.
  Lemma kq_off_duty_loop : forall k f j idx pre se, kq KT (off_duty_loop cf k f j idx pre se).
  Proof. induction k as [|k IH]; intros f j idx pre se; cbn [off_duty_loop]; [apply kq_ro, ro_ret|]. kqw. Qed.
  #[local] Hint Resolve kq_off_duty_loop : kqdb.
  Lemma kq_take_servers_off_duty f j pre : kq KT (take_servers_off_duty cf f j pre). Proof. unfold take_servers_off_duty. kqw. Qed.
  #[local] Hint Resolve kq_take_servers_off_duty : kqdb.
  Lemma kq_change_shift j : kq KT (change_shift cf j). Proof. unfold change_shift. kqw. Qed.
  Lemma kq_slotted_service j : kq KT (slotted_service cf j). Proof. unfold slotted_service. kqw. Qed.
  Lemma kq_ccww j : kq KT (change_customer_class_while_waiting cf j).
  Proof.
    rewrite ccww_unfold. apply kq_get_node_bind; intros nd. apply kq_bind_ro; [row|intros i]. apply kq_bind_ro; [row|intros x].
    apply kq_bind_ro; [row|intros ncl]. apply kq_bind_ro; [row|intros p']. apply kq_bind_ro; [row|intros _].
    apply kq_bind; [|intros _; unfold ccww_finish; kqw].
    destruct (negb (p' =? i_pprio x)); [|apply kq_ro, ro_ret]. unfold ccww_move.
    apply kq_lift_bind; intros q Hq. apply kq_lift_bind; intros q' Hq'. cbv zeta. apply kq_lift_bind; intros qn Hqn.
    apply kq_bind; [|intros _; unfold ccww_preempt; kqw].
    apply kq_put_node. intros ns [_ Hat]. exists j, nd. split; [exact Hat|]. split; [reflexivity|].
    change (Qr (n_queues nd) (updZ (updZ (n_queues nd) (i_pprio x) q') p' (qn ++ [i]))).
    eapply Qtrans; [eapply Hrm; eassumption|eapply Happ; exact Hqn].
  Qed.
  #[local] Hint Resolve kq_change_shift kq_slotted_service kq_ccww : kqdb.
  Lemma kq_node_have_event j : kq KT (node_have_event cf j).
  Proof.
    unfold node_have_event. kqw.
  Qed.
  Lemma kq_send_individual j i : kq KT (send_individual cf j i). Proof. unfold send_individual. kqw. Qed.
  #[local] Hint Resolve kq_node_have_event kq_send_individual : kqdb.
  Lemma kq_release_individual j i : kq KT (release_individual cf j i). Proof. unfold release_individual. kqw. Qed.
  #[local] Hint Resolve kq_release_individual : kqdb.
  Lemma kq_batch_loop : forall n j c p, kq KT (batch_loop cf n j c p).
  Proof. induction n as [|n IH]; intros j c p; cbn [batch_loop]; [apply kq_ro, ro_ret|]. kqw. Qed.
  #[local] Hint Resolve kq_batch_loop : kqdb.
  Lemma kq_arrival_have_event : kq KT (arrival_have_event cf). Proof. unfold arrival_have_event. kqw. Qed.
  #[local] Hint Resolve kq_arrival_have_event : kqdb.
  Lemma kq_event_step : kq KT (event_step cf). Proof. unfold event_step. kqw. Qed.
End KQ.

(* ---------- instance 1: equality.  No service start, no restart of an interrupted customer, no pre-emption or interruption
   without rerouting moves anybody in any queue ---------- *)
Definition same_queues (s s' : sim) : Prop := NR eq (nodes s) (nodes s').
Lemma same_queues_at s s' j nd : same_queues s s' -> 1 <= j -> nthZ (nodes s) (j - 1) = Some nd ->
  exists nd', nthZ (nodes s') (j - 1) = Some nd' /\ n_id nd' = n_id nd /\ n_queues nd' = n_queues nd.
Proof.
  intros [_ H] Hj Hn. apply nthZ_nat in Hn as [H0 Hn]. destruct (H _ _ Hn) as (nd' & Hk & Hid & Hq). exists nd'.
  split; [|auto]. unfold nthZ. destruct (j - 1 <? 0) eqn:E; [apply Z.ltb_lt in E; lia|exact Hk].
Qed.
Lemma same_queues_Idx s s' : Idx s -> same_queues s s' -> Idx s'.
Proof. intros HI H. eapply (NR_Idx eq); eauto. Qed.
Lemma same_queues_trans s s1 s2 : same_queues s s1 -> same_queues s1 s2 -> same_queues s s2.
Proof. apply (NR_trans eq). intros a b c -> ->. reflexivity. Qed.
Lemma nodes_same_queues s s' : nodes s' = nodes s -> same_queues s s'.
Proof. intros E. unfold same_queues. rewrite E. apply NR_refl. reflexivity. Qed.

Lemma IdxL_updZ ns k nd0 nd' : IdxL ns -> nthZ ns k = Some nd0 -> n_id nd' = n_id nd0 -> IdxL (updZ ns k nd').
Proof.
  intros HI Hn Hid. apply nthZ_nat in Hn as [H0 Hn]. unfold updZ. destruct (k <? 0) eqn:E; [apply Z.ltb_lt in E; lia|].
  eapply (NR_Idx (fun _ _ => True)); [exact HI|]. eapply NR_upd; eauto.
Qed.

Section SameQueues.
  Variable cf : config.
  Let eqr : forall q : list (list Z), q = q := fun q => eq_refl.
  Let eqt : forall a b c : list (list Z), a = b -> b = c -> a = c := fun a b c H1 H2 => eq_trans H1 H2.
  Lemma kq_use {A} (m : M A) a s s' : kq eq KT m -> Idx s -> m s = Ok (a, s') -> same_queues s s'.
  Proof. intros Hm HI H. exact (Hm _ _ _ HI I H). Qed.
  Ltac sq L := intros HI H; eapply kq_use; [|exact HI|exact H]; eapply (L eq); first [exact eqr|exact eqt|eassumption].

  Theorem start_give_queues j c sid s s' : Idx s -> start_give cf j c sid s = Ok (tt, s') -> same_queues s s'.
  Proof. sq kq_start_give. Qed.
  Theorem start_fresh_queues j c osid cnt s s' : Idx s -> start_fresh cf j c osid cnt s = Ok (tt, s') -> same_queues s s'.
  Proof. sq kq_start_fresh. Qed.
  Theorem start_preemptor_queues j c sid s s' : Idx s -> start_preemptor cf j c sid s = Ok (tt, s') -> same_queues s s'.
  Proof. sq kq_start_preemptor. Qed.
  Theorem begin_interrupted_queues j sid s s' : Idx s -> begin_interrupted_individuals_service j sid s = Ok (tt, s') -> same_queues s s'.
  Proof. sq kq_biis. Qed.
  Theorem slot_start_queues j t c s s' : Idx s -> slot_start cf j t c s = Ok (tt, s') -> same_queues s s'.
  Proof. sq kq_slot_start. Qed.
  Theorem serve_with_queues j sid s s' : Idx s -> serve_with cf j sid s = Ok (tt, s') -> same_queues s s'.
  Proof. sq kq_serve_with. Qed.
  Theorem bsip_release_queues j freed s s' : Idx s -> begin_service_if_possible_release cf j freed s = Ok (tt, s') -> same_queues s s'.
  Proof. sq kq_bsipr. Qed.
  Theorem bsip_change_shift_queues j s s' : Idx s -> begin_service_if_possible_change_shift cf j s = Ok (tt, s') -> same_queues s s'.
  Proof. sq kq_bsipcs. Qed.
  Theorem slot_loop_queues k j s s' : Idx s -> slot_loop cf k j s = Ok (tt, s') -> same_queues s s'.
  Proof. sq kq_slot_loop. Qed.
  Theorem decide_class_change_queues j i s s' : Idx s -> decide_class_change cf j i s = Ok (tt, s') -> same_queues s s'.
  Proof. sq kq_decide_class_change. Qed.
  Theorem update_next_event_date_queues j s s' : Idx s -> update_next_event_date cf j s = Ok (tt, s') -> same_queues s s'.
  Proof. sq kq_update_next_event_date. Qed.
  Theorem preempt_victim_part_queues rel j v t vx nc s s' : (nc_preempt nc =? 4) = false ->
    Idx s -> preempt_victim_part cf rel j v t vx nc s = Ok (tt, s') -> same_queues s s'.
  Proof. intros E. sq kq_preempt_victim_part_stay. Qed.
  Theorem slot_pick_queues j nd cand s s' : Idx s -> node_at s j nd -> slot_pick cf j nd s = Ok (cand, s') -> same_queues s s'.
  Proof.
    intros HI Hat H. assert (Hk : kq eq (fun ns => KT ns /\ at_ j nd ns) (slot_pick cf j nd)) by (eapply (kq_slot_pick eq); first [exact eqr|exact eqt]).
    exact (Hk _ _ _ HI (conj I Hat) H).
  Qed.
  Theorem upd_node_queues j f s s' : (forall nd, n_id (f nd) = n_id nd /\ n_queues (f nd) = n_queues nd) ->
    Idx s -> upd_node j f s = Ok (tt, s') -> same_queues s s'.
  Proof. intros Hf HI H. exact (kq_upd_node eq eqr KT j f Hf _ _ _ HI I H). Qed.
  (* a whole shift change / slot whose pre-emption option is not `reroute`: servers come and go, services are interrupted and
     (re)started, nobody changes place in any queue *)
  Definition sched_stays (j : Z) : Prop :=
    forall nc, nthZ (cf_nodes cf) (j - 1) = Some nc ->
      match nc_srv nc with SFixed => True | SSched sc => (sc_pre sc =? 4) = false | SSlot sl => (sl_pre sl =? 4) = false end.
  Definition sched_stays_b (j : Z) : bool :=
    match nthZ (cf_nodes cf) (j - 1) with
    | Some nc => match nc_srv nc with SFixed => true | SSched sc => negb (sc_pre sc =? 4) | SSlot sl => negb (sl_pre sl =? 4) end
    | None => true
    end.
  Lemma sched_stays_b_sound j : sched_stays_b j = true -> sched_stays j.
  Proof.
    unfold sched_stays_b, sched_stays. intros H nc Hnc. rewrite Hnc in H. destruct (nc_srv nc) as [|sc|sl]; [exact I| |]; apply negb_true_iff in H; exact H.
  Qed.
  Theorem change_shift_queues j s s' : sched_stays j -> Idx s -> change_shift cf j s = Ok (tt, s') -> same_queues s s'.
  Proof.
    intros Hs. assert (Hs' : forall nc sc, nthZ (cf_nodes cf) (j - 1) = Some nc -> nc_srv nc = SSched sc -> (sc_pre sc =? 4) = false).
    { intros nc sc Hnc E. specialize (Hs nc Hnc). rewrite E in Hs. exact Hs. }
    sq kq_change_shift_stay.
  Qed.
  Theorem slotted_service_queues j s s' : sched_stays j -> Idx s -> slotted_service cf j s = Ok (tt, s') -> same_queues s s'.
  Proof.
    intros Hs. assert (Hs' : forall nc sl, nthZ (cf_nodes cf) (j - 1) = Some nc -> nc_srv nc = SSlot sl -> (sl_pre sl =? 4) = false).
    { intros nc sl Hnc E. specialize (Hs nc Hnc). rewrite E in Hs. exact Hs. }
    sq kq_slotted_service_stay.
  Qed.
End SameQueues.

(* ---------- instance 2: a queue changes only by somebody joining at its TAIL or somebody leaving it ---------- *)
Inductive qsteps : list (list Z) -> list (list Z) -> Prop :=
| qs_refl qs : qsteps qs qs
| qs_join qs qs1 p q i : qsteps qs qs1 -> nthZ qs1 p = Some q -> qsteps qs (updZ qs1 p (q ++ [i]))
| qs_leave qs qs1 p q q' i : qsteps qs qs1 -> nthZ qs1 p = Some q -> remove_first i q = Some q' -> qsteps qs (updZ qs1 p q').
Lemma qsteps_trans a b c : qsteps a b -> qsteps b c -> qsteps a c.
Proof. intros H1 H2. induction H2; [exact H1|eapply qs_join; eauto|eapply qs_leave; eauto]. Qed.

(* l is what is left of l' after some of its members have gone, in the same order *)
Inductive Subseq : list Z -> list Z -> Prop :=
| ss_nil : Subseq [] []
| ss_skip a l l' : Subseq l l' -> Subseq l (a :: l')
| ss_keep a l l' : Subseq l l' -> Subseq (a :: l) (a :: l').
Lemma subseq_refl l : Subseq l l.
Proof. induction l; constructor; assumption. Qed.
Lemma subseq_cons_inv a x b : Subseq a (x :: b) -> Subseq a b \/ exists a', a = x :: a' /\ Subseq a' b.
Proof.
  intros H. remember (x :: b) as l eqn:El. destruct H as [|y l0 l' H|y l0 l' H]; [discriminate| |]; injection El as -> ->.
  - left. exact H.
  - right. exists l0. auto.
Qed.
Lemma subseq_trans : forall b c, Subseq b c -> forall a, Subseq a b -> Subseq a c.
Proof.
  induction 1 as [|x b c H IH|x b c H IH]; intros a Ha.
  - exact Ha.
  - apply ss_skip. apply IH. exact Ha.
  - destruct (subseq_cons_inv _ _ _ Ha) as [Hl|(a' & -> & Hl)].
    + apply ss_skip. apply IH. exact Hl.
    + apply ss_keep. apply IH. exact Hl.
Qed.
Lemma remove_first_subseq i : forall l l', remove_first i l = Some l' -> Subseq l' l.
Proof.
  induction l as [|h t IH]; intros l' H; cbn in H; [discriminate|]. destruct (h =? i).
  - injection H as <-. apply ss_skip, subseq_refl.
  - destruct (remove_first i t) as [t'|]; [|discriminate]. cbn in H. injection H as <-. apply ss_keep, IH. reflexivity.
Qed.
Lemma remove_first_app i : forall a b l, remove_first i (a ++ b) = Some l ->
  (exists a', remove_first i a = Some a' /\ l = a' ++ b) \/ (exists b', remove_first i b = Some b' /\ l = a ++ b').
Proof.
  induction a as [|h t IH]; intros b l H; cbn in H.
  - right. exists l. auto.
  - cbn [remove_first]. destruct (h =? i).
    + injection H as <-. left. exists t. auto.
    + destruct (remove_first i (t ++ b)) as [r|] eqn:E; [|discriminate]. cbn in H. injection H as <-.
      destruct (IH _ _ E) as [(a' & Ha & ->)|(b' & Hb & ->)].
      * left. rewrite Ha. exists (h :: a'). auto.
      * right. exists b'. auto.
Qed.

(* what qsteps means for each single queue: afterwards it is (those of before who are still there, in their old order)
   followed by (those who joined since, in the order in which they joined) *)
Definition qview (qs qs' : list (list Z)) : Prop :=
  length qs' = length qs /\
  forall k q, nth_error qs k = Some q -> exists kept added, nth_error qs' k = Some (kept ++ added) /\ Subseq kept q.
Theorem qsteps_view qs qs' : qsteps qs qs' -> qview qs qs'.
Proof.
  induction 1 as [qs|qs qs1 p q i H [IL IH] Hp|qs qs1 p q q' i H [IL IH] Hp Hr].
  - split; [reflexivity|]. intros k q Hk. exists q, []. rewrite app_nil_r. split; [exact Hk|apply subseq_refl].
  - apply nthZ_nat in Hp as [Hp0 Hp]. unfold updZ. destruct (p <? 0) eqn:E; [apply Z.ltb_lt in E; lia|].
    split; [rewrite length_upd; exact IL|]. intros k q0 Hk. destruct (IH k q0 Hk) as (kept & added & Hk1 & Hs).
    destruct (Nat.eq_dec (Z.to_nat p) k) as [<-|Hne].
    + rewrite Hp in Hk1. injection Hk1 as ->. exists kept, (added ++ [i]). rewrite (nth_error_upd_eq _ _ _ _ Hp), app_assoc. auto.
    + exists kept, added. rewrite nth_error_upd_ne by exact Hne. auto.
  - apply nthZ_nat in Hp as [Hp0 Hp]. unfold updZ. destruct (p <? 0) eqn:E; [apply Z.ltb_lt in E; lia|].
    split; [rewrite length_upd; exact IL|]. intros k q0 Hk. destruct (IH k q0 Hk) as (kept & added & Hk1 & Hs).
    destruct (Nat.eq_dec (Z.to_nat p) k) as [<-|Hne].
    + rewrite Hp in Hk1. injection Hk1 as ->. rewrite (nth_error_upd_eq _ _ _ _ Hp).
      destruct (remove_first_app _ _ _ _ Hr) as [(a' & Ha & ->)|(b' & Hb & ->)].
      * exists a', added. split; [reflexivity|]. eapply subseq_trans; [exact Hs|]. eapply remove_first_subseq; eauto.
      * exists kept, b'. auto.
    + exists kept, added. rewrite nth_error_upd_ne by exact Hne. auto.
Qed.

Definition queues_evolve (s s' : sim) : Prop := NR qsteps (nodes s) (nodes s').
Lemma qsteps_join qs p q i : nthZ qs p = Some q -> qsteps qs (updZ qs p (q ++ [i])).
Proof. intros H. eapply qs_join; [apply qs_refl|exact H]. Qed.
Lemma qsteps_leave qs p q q' i : nthZ qs p = Some q -> remove_first i q = Some q' -> qsteps qs (updZ qs p q').
Proof. intros H H'. eapply qs_leave; [apply qs_refl|exact H|exact H']. Qed.

(* (c) over one event and over any run: in every node, every queue only loses members and gains members at its tail *)
Theorem event_step_queues cf s s' : Idx s -> event_step cf s = Ok (tt, s') -> Idx s' /\ queues_evolve s s'.
Proof.
  intros HI H. pose proof (kq_event_step qsteps qs_refl qsteps_trans cf qsteps_join qsteps_leave _ _ _ HI I H) as HN.
  split; [eapply (NR_Idx qsteps); eauto|exact HN].
Qed.
Theorem run_many_queues cf : forall ds s s', Idx s -> run_many cf s ds = Ok s' -> Idx s' /\ queues_evolve s s'.
Proof.
  induction ds as [|d r IH]; intros s s' HI H; cbn [run_many] in H.
  - injection H as <-. split; [exact HI|apply NR_refl, qs_refl].
  - destruct (event_step cf (s <| dr := d |>)) as [[[] s1]| |] eqn:E; try discriminate.
    assert (HI0 : Idx (s <| dr := d |>)) by exact HI.
    destruct (event_step_queues _ _ _ HI0 E) as [HI1 N1]. destruct (IH _ _ HI1 H) as [HI2 N2].
    split; [exact HI2|]. eapply (NR_trans qsteps qsteps_trans); [exact N1|exact N2].
Qed.
(* ... in words *)
Corollary queue_order_is_order_of_joining cf ds s s' k nd p q : Idx s -> run_many cf s ds = Ok s' ->
  nth_error (nodes s) k = Some nd -> nth_error (n_queues nd) p = Some q ->
  exists nd' kept added, nth_error (nodes s') k = Some nd' /\ n_id nd' = n_id nd /\
    nth_error (n_queues nd') p = Some (kept ++ added) /\ Subseq kept q.
Proof.
  intros HI H Hk Hp. destruct (run_many_queues _ _ _ _ HI H) as [_ [_ HN]]. destruct (HN _ _ Hk) as (nd' & Hk' & Hid & Hq).
  destruct (qsteps_view _ _ Hq) as [_ Hv]. destruct (Hv _ _ Hp) as (kept & added & H1 & H2). exists nd', kept, added. auto.
Qed.

(* ================================================================================================================ *)
(* Part 4: (b) every path that starts a service                                                                     *)
(* ================================================================================================================ *)
Lemma took_unif_same s : same s (took_unif s).
Proof. split; reflexivity. Qed.
Lemma after_choice_same (d : Z) s : same s (if (d =? 0) || (d =? 1) then s else took_unif s).
Proof. destruct ((d =? 0) || (d =? 1)); [apply same_refl|apply took_unif_same]. Qed.
Lemma after_choice_nodes (d : Z) s : nodes (if (d =? 0) || (d =? 1) then s else took_unif s) = nodes s.
Proof. destruct ((d =? 0) || (d =? 1)); reflexivity. Qed.

Section Paths.
  Variable cf : config.
  Notation waiting_line nd s := (first_waiting (n_queues nd) (inds s)).
  (* the restart of an interrupted customer *)
  Definition Restarted (t : Z) (sid : Z) (a b : ind) : Prop := Started t (Some sid) a b /\ i_interrupted b = false /\ i_blocked b = false.

  (* ---- a server that has become free (release path; one round of the change_shift path) ---- *)
  Theorem serve_with_starts j sid s s' : serve_with cf j sid s = Ok (tt, s') ->
    exists nd, node_at s j nd /\
     ((0 < n_nint nd /\ exists i, hd_error (n_interrupted nd) = Some i /\ chg i (Restarted (now s) sid) s s')
      \/ (n_nint nd <= 0 /\ waiting_line nd s = [] /\ s' = s)
      \/ (n_nint nd <= 0 /\ exists d c, disc_of cf j = Some d /\ Chosen d (waiting_line nd s) (d_unif (dr s)) c /\
            chg c (StartedW (now s) (Some sid)) s s')).
  Proof.
    unfold serve_with. intros H. minv H nd s0 E. apply get_node_inv in E as (-> & Hj & Hn). exists nd. split; [split; assumption|].
    destruct (0 <? n_nint nd) eqn:En.
    - apply Z.ltb_lt in En. left. split; [exact En|]. apply begin_interrupted_spec in H as (nd' & i & [_ Hn'] & Hi & Hc).
      rewrite Hn in Hn'. injection Hn' as <-. exists i. split; [exact Hi|exact Hc].
    - apply Z.ltb_ge in En. right. minv H cand s1 E. destruct (choose_next_customer_spec _ _ _ _ _ E) as (nd' & [_ Hn'] & Hr).
      rewrite Hn in Hn'. injection Hn' as <-. cbv zeta in Hr. destruct cand as [c|].
      + right. split; [exact En|]. destruct Hr as (d & Hd & Hch & ->). exists d, c. split; [exact Hd|]. split; [exact Hch|].
        eapply chg_same_l; [apply (after_choice_same d)|]. apply start_give_spec in H.
        replace (now s) with (now (if (d =? 0) || (d =? 1) then s else took_unif s)) by (destruct ((d =? 0) || (d =? 1)); reflexivity). exact H.
      + left. destruct Hr as [Hw ->]. apply ret_inv in H as [_ ->]. auto.
  Qed.
  (* release: nothing when no server was freed or the freed server has been retired meanwhile *)
  Theorem bsip_release_starts j freed s s' : begin_service_if_possible_release cf j freed s = Ok (tt, s') ->
    s' = s \/ exists sid, freed = Some sid /\ serve_with cf j sid s = Ok (tt, s').
  Proof.
    unfold begin_service_if_possible_release. intros H. destruct freed as [sid|]; [|apply ret_inv in H as [_ ->]; auto].
    minv H nd s0 E. apply get_node_inv in E as (-> & _). destruct (find_server sid (n_servers nd)); [right; exists sid; auto|apply ret_inv in H as [_ ->]; auto].
  Qed.

  (* ---- change_shift: the servers free after the shift change, one after the other; each start is made at the state the
     previous starts have left ---- *)
  Inductive Starts (j : Z) : list Z -> sim -> list (Z * Z) -> sim -> Prop :=
  | St_nil s : Starts j [] s [] s
  | St_int sid r s s1 s' l nd i : node_at s j nd -> 0 < n_nint nd -> hd_error (n_interrupted nd) = Some i ->
      chg i (Restarted (now s) sid) s s1 -> same_queues s s1 ->
      Starts j r s1 l s' -> Starts j (sid :: r) s ((i, sid) :: l) s'
  | St_none sid r s s' l nd : node_at s j nd -> n_nint nd <= 0 -> waiting_line nd s = [] ->
      Starts j r s l s' -> Starts j (sid :: r) s l s'
  | St_choice sid r s s1 s' l nd d c : node_at s j nd -> n_nint nd <= 0 -> disc_of cf j = Some d ->
      Chosen d (waiting_line nd s) (d_unif (dr s)) c -> chg c (StartedW (now s) (Some sid)) s s1 -> same_queues s s1 ->
      Starts j r s1 l s' -> Starts j (sid :: r) s ((c, sid) :: l) s'.

  Lemma forM_serve_starts j : forall sids s s', Idx s -> forM_ sids (serve_with cf j) s = Ok (tt, s') -> exists l, Starts j sids s l s'.
  Proof.
    induction sids as [|sid r IH]; intros s s' HI H; cbn [forM_] in H.
    - apply ret_inv in H as [_ ->]. exists []. constructor.
    - minv H u s1 E. destruct u. pose proof (serve_with_queues _ _ _ _ _ HI E) as HQ. pose proof (same_queues_Idx _ _ HI HQ) as HI1.
      destruct (serve_with_starts _ _ _ _ E) as (nd & Hnd & [(Hn & i & Hi & Hc)|[(Hn & Hw & ->)|(Hn & d & c & Hd & Hch & Hc)]]).
      + destruct (IH _ _ HI1 H) as (l & Hl). exists ((i, sid) :: l). eapply St_int; eauto.
      + destruct (IH _ _ HI H) as (l & Hl). exists l. eapply St_none; eauto.
      + destruct (IH _ _ HI1 H) as (l & Hl). exists ((c, sid) :: l). eapply St_choice; eauto.
  Qed.
  Theorem bsip_change_shift_starts j s s' : Idx s -> begin_service_if_possible_change_shift cf j s = Ok (tt, s') ->
    exists nd l, node_at s j nd /\ Starts j (map sv_id (filter (fun sv => negb (sv_busy sv)) (n_servers nd))) s l s'.
  Proof.
    unfold begin_service_if_possible_change_shift. intros HI H. minv H nd s0 E. apply get_node_inv in E as (-> & Hj & Hn).
    destruct (forM_serve_starts _ _ _ _ HI H) as (l & Hl). exists nd, l. split; [split; assumption|exact Hl].
  Qed.
  (* at most one start per free server, the clock stands still, nobody but the customers started is touched, no queue moves *)
  Theorem Starts_frame j sids s l s' : Starts j sids s l s' ->
    now s' = now s /\ (length l <= length sids)%nat /\ same_queues s s' /\
    forall i', ~ In i' (map fst l) -> find_ind i' (inds s') = find_ind i' (inds s).
  Proof.
    induction 1 as [s|sid r s s1 s' l nd i Hnd Hn Hi Hc HQ Hr IH|sid r s s' l nd Hnd Hn Hw Hr IH|sid r s s1 s' l nd d c Hnd Hn Hd Hch Hc HQ Hr IH].
    - split; [reflexivity|]. split; [cbn; lia|]. split; [apply nodes_same_queues; reflexivity|]. reflexivity.
    - destruct IH as (A & B & C & D). destruct Hc as (N & F & _). split; [congruence|]. split; [cbn; lia|]. split; [eapply same_queues_trans; eauto|].
      intros i' Hni. cbn in Hni. rewrite D by tauto. apply F. intros ->. tauto.
    - destruct IH as (A & B & C & D). split; [exact A|]. split; [cbn; lia|]. split; [exact C|exact D].
    - destruct IH as (A & B & C & D). destruct Hc as (N & F & _). split; [congruence|]. split; [cbn; lia|]. split; [eapply same_queues_trans; eauto|].
      intros i' Hni. cbn in Hni. rewrite D by tauto. apply F. intros ->. tauto.
  Qed.

  Lemma kq_Idx {A} (m : M A) a s s' : kq qsteps KT m -> Idx s -> m s = Ok (a, s') -> Idx s'.
  Proof. intros Hm HI H. eapply (NR_Idx qsteps); [exact HI|]. exact (Hm _ _ _ HI I H). Qed.
  (* the whole shift change: servers are taken off duty (their customers interrupted when the schedule is pre-emptive), new
     servers are added, and then the free servers are served as above, from the state s1 reached *)
  Theorem change_shift_starts j s s' : Idx s -> change_shift cf j s = Ok (tt, s') ->
    exists s1 nd l, Idx s1 /\ node_at s1 j nd /\ Starts j (map sv_id (filter (fun sv => negb (sv_busy sv)) (n_servers nd))) s1 l s'.
  Proof.
    intros HI H. unfold change_shift in H. minv H nc s0 E. apply ncfg_of_inv in E as [-> Hnc].
    destruct (nc_srv nc) as [|sc|sl]; try discriminate. minv H nd s0 E. apply get_node_inv in E as (-> & Hj & Hn).
    minv H u s0 E. assert (s0 = s) as -> by (destruct (sc_b sc); [discriminate|apply ret_inv in E as [_ ->]; reflexivity]). clear E u.
    cbv zeta in H. minv H u sa Ea. apply modify_inv in Ea.
    assert (HIa : Idx sa). { subst sa. unfold Idx. cbn. eapply (IdxL_updZ _ _ nd); [exact HI| |reflexivity]. rewrite (IdxL_at _ _ _ HI Hn). exact Hn. }
    minv H fl sa' E. apply gets_inv in E as [-> ->]. minv H u2 sb Eb. minv H u3 sc' Ec.
    assert (HIb : Idx sb).
    { eapply kq_Idx; [|exact HIa|exact Eb]. eapply (kq_take_servers_off_duty qsteps); first [exact qs_refl|exact qsteps_trans|exact qsteps_join|exact qsteps_leave]. }
    assert (HIc : Idx sc').
    { eapply kq_Idx; [|exact HIb|exact Ec]. eapply (kq_add_new_servers qsteps); first [exact qs_refl|exact qsteps_trans]. }
    destruct (bsip_change_shift_starts _ _ _ HIc H) as (nd1 & l & Hnd1 & Hl). exists sc', nd1, l. auto.
  Qed.

  (* ---- slotted_service: the places of the slot, one after the other ---- *)
  Lemma slot_pick_spec j nd s cand s1 : node_at s j nd -> slot_pick cf j nd s = Ok (cand, s1) ->
    (0 < n_nint nd /\ exists i, cand = Some i /\ hd_error (n_interrupted nd) = Some i /\ chg i (fun a b => b = a <| i_interrupted := false |>) s s1)
    \/ (n_nint nd <= 0 /\ cand = None /\ waiting_line nd s = [] /\ s1 = s)
    \/ (n_nint nd <= 0 /\ exists d c, cand = Some c /\ disc_of cf j = Some d /\ Chosen d (waiting_line nd s) (d_unif (dr s)) c /\ same s s1).
  Proof.
    intros [Hj Hn] H. unfold slot_pick in H. destruct (0 <? n_nint nd) eqn:En.
    - apply Z.ltb_lt in En. left. split; [exact En|]. minv H i s0 E. apply lift_inv in E as [Hi ->]. minv H l' s0 E. apply lift_inv in E as [_ ->].
      minv H u s0 E. apply put_node_same in E. minv H u2 s2 E2. apply upd_ind_chg in E2; [|reflexivity]. apply ret_inv in H as [-> ->].
      exists i. split; [reflexivity|]. split; [exact Hi|]. eapply chg_same_l; eauto.
    - apply Z.ltb_ge in En. right. destruct (choose_next_customer_spec _ _ _ _ _ H) as (nd' & [_ Hn'] & Hr).
      rewrite Hn in Hn'. injection Hn' as <-. cbv zeta in Hr. destruct cand as [c|].
      + right. split; [exact En|]. destruct Hr as (d & Hd & Hch & ->). exists d, c. split; [reflexivity|]. split; [exact Hd|]. split; [exact Hch|apply after_choice_same].
      + left. destruct Hr as [Hw ->]. auto.
  Qed.

  Inductive SlotStarts (j : Z) : nat -> sim -> list Z -> sim -> Prop :=
  | Sl_O s : SlotStarts j O s [] s
  | Sl_int k s s1 s' l nd i : node_at s j nd -> 0 < n_nint nd -> hd_error (n_interrupted nd) = Some i ->
      chg i (fun a b => Started (now s) (Some (-1)) a b /\ i_interrupted b = false) s s1 -> same_queues s s1 ->
      SlotStarts j k s1 l s' -> SlotStarts j (S k) s (i :: l) s'
  | Sl_none k s s' l nd : node_at s j nd -> n_nint nd <= 0 -> waiting_line nd s = [] ->
      SlotStarts j k s l s' -> SlotStarts j (S k) s l s'
  | Sl_choice k s s1 s' l nd d c : node_at s j nd -> n_nint nd <= 0 -> disc_of cf j = Some d ->
      Chosen d (waiting_line nd s) (d_unif (dr s)) c -> chg c (StartedW (now s) (Some (-1))) s s1 -> same_queues s s1 ->
      SlotStarts j k s1 l s' -> SlotStarts j (S k) s (c :: l) s'.

  Theorem slot_loop_starts j : forall k s s', Idx s -> slot_loop cf k j s = Ok (tt, s') -> exists l, SlotStarts j k s l s'.
  Proof.
    induction k as [|k IH]; intros s s' HI H.
    - cbn [slot_loop] in H. apply ret_inv in H as [_ ->]. exists []. constructor.
    - rewrite slot_loop_S in H. minv H t s0 E. apply tnow_inv in E as [-> ->]. minv H nd s0 E. apply get_node_inv in E as (-> & Hj & Hn).
      assert (Hnd : node_at s j nd) by (split; assumption).
      minv H cand s1 E1. pose proof (slot_pick_queues _ _ _ _ _ _ HI Hnd E1) as HQ1. pose proof (same_queues_Idx _ _ HI HQ1) as HI1.
      minv H u s2 E2. destruct u.
      destruct (slot_pick_spec _ _ _ _ _ Hnd E1) as [(Hni & i & -> & Hi & Hc)|[(Hni & -> & Hw & ->)|(Hni & d & c & -> & Hd & Hch & Hs)]].
      + pose proof (slot_start_queues _ _ _ _ _ _ HI1 E2) as HQ2. pose proof (same_queues_Idx _ _ HI1 HQ2) as HI2.
        destruct (IH _ _ HI2 H) as (l & Hl). exists (i :: l).
        eapply (Sl_int j k s s2 s' l nd i Hnd Hni Hi); [|eapply same_queues_trans; eauto|exact Hl].
        apply slot_start_spec in E2. eapply chg_weak; [eapply chg_trans; [exact Hc|exact E2]|]. cbv beta.
        intros a b (b1 & -> & (Hcore & Hsst & Hsrv & Hsm & Hse) & Hfl). split; [split; [exact Hcore|auto]|].
        unfold flags in Hfl. injection Hfl as Hf _ _. exact Hf.
      + apply ret_inv in E2 as [_ ->]. destruct (IH _ _ HI H) as (l & Hl). exists l. eapply Sl_none; eauto.
      + pose proof (slot_start_queues _ _ _ _ _ _ HI1 E2) as HQ2. pose proof (same_queues_Idx _ _ HI1 HQ2) as HI2.
        destruct (IH _ _ HI2 H) as (l & Hl). exists (c :: l).
        eapply (Sl_choice j k s s2 s' l nd d c Hnd Hni Hd Hch); [|eapply same_queues_trans; eauto|exact Hl].
        apply slot_start_spec in E2. eapply chg_same_l; eauto.
  Qed.
  Theorem SlotStarts_frame j k s l s' : SlotStarts j k s l s' ->
    now s' = now s /\ (length l <= k)%nat /\ same_queues s s' /\
    forall i', ~ In i' l -> find_ind i' (inds s') = find_ind i' (inds s).
  Proof.
    induction 1 as [s|k s s1 s' l nd i Hnd Hn Hi Hc HQ Hr IH|k s s' l nd Hnd Hn Hw Hr IH|k s s1 s' l nd d c Hnd Hn Hd Hch Hc HQ Hr IH].
    - split; [reflexivity|]. split; [cbn; lia|]. split; [apply nodes_same_queues; reflexivity|]. reflexivity.
    - destruct IH as (A & B & C & D). destruct Hc as (N & F & _). split; [congruence|]. split; [cbn; lia|]. split; [eapply same_queues_trans; eauto|].
      intros i' Hni. cbn in Hni. rewrite D by tauto. apply F. intros ->. tauto.
    - destruct IH as (A & B & C & D). split; [exact A|]. split; [cbn; lia|]. split; [exact C|exact D].
    - destruct IH as (A & B & C & D). destruct Hc as (N & F & _). split; [congruence|]. split; [cbn; lia|]. split; [eapply same_queues_trans; eauto|].
      intros i' Hni. cbn in Hni. rewrite D by tauto. apply F. intros ->. tauto.
  Qed.

  (* the whole slot: services in excess of a capacitated slot are interrupted first (slot_interrupt); then slot_num places are
     filled, one after the other: at most min(slot size, customers present) starts *)
  Theorem slotted_service_starts j s s' : Idx s -> slotted_service cf j s = Ok (tt, s') ->
    exists nc sl nd s0 s1 l, nthZ (cf_nodes cf) (j - 1) = Some nc /\ nc_srv nc = SSlot sl /\ node_at s j nd /\
      slot_interrupt cf j sl nd (slot_size sl nd) s = Ok (tt, s0) /\ Idx s0 /\
      SlotStarts j (Z.to_nat (slot_num sl nd)) s0 l s1 /\ same s1 s' /\ same_queues s1 s'.
  Proof.
    intros HI H. rewrite slotted_unfold in H. minv H nc s0 E. apply ncfg_of_inv in E as [-> Hnc].
    destruct (nc_srv nc) as [|sc|sl] eqn:Esrv; try discriminate. minv H nd s0 E. apply get_node_inv in E as (-> & Hj & Hn).
    minv H u s0 E. assert (s0 = s) as -> by (destruct (sl_b sl); [discriminate|apply ret_inv in E as [_ ->]; reflexivity]). clear E u.
    minv H u s0 E0. destruct u. minv H u s1 E1. destruct u.
    assert (HI0 : Idx s0).
    { eapply kq_Idx; [|exact HI|exact E0]. eapply (kq_slot_interrupt qsteps); first [exact qs_refl|exact qsteps_trans|exact qsteps_join|exact qsteps_leave]. }
    destruct (slot_loop_starts _ _ _ _ HI0 E1) as (l & Hl). destruct (SlotStarts_frame _ _ _ _ _ Hl) as (_ & _ & HQ & _).
    exists nc, sl, nd, s0, s1, l. split; [exact Hnc|]. split; [exact Esrv|]. split; [split; assumption|]. split; [exact E0|]. split; [exact HI0|].
    split; [exact Hl|]. split; [eapply upd_node_same; eauto|]. eapply upd_node_queues; [|eapply same_queues_Idx; eauto|exact H].
    intros nd0. split; reflexivity.
  Qed.

  (* ---- the arrival path ---- *)
  Lemma preempt_victim_pure j c s v s' : preempt_victim cf j c s = Ok (v, s') -> s' = s.
  Proof.
    unfold preempt_victim. intros H. minv H nc s0 E. apply ncfg_of_inv in E as [-> _].
    destruct (nc_preempt nc =? 0); [apply ret_inv in H as [_ ->]; reflexivity|].
    minv H nd s0 E. apply get_node_inv in E as (-> & _). minv H il s0 E. apply gets_inv in E as [_ ->].
    minv H ps s0 E. apply lift_inv in E as [_ ->]. destruct ps as [|p0 pr]; [discriminate|]. cbv zeta in H.
    minv H x s0 E. apply get_ind_inv in E as [-> _]. destruct (i_prio x <? _); [|apply ret_inv in H as [_ ->]; reflexivity].
    destruct (filter _ _); [discriminate|]. apply ret_inv in H as [_ ->]. reflexivity.
  Qed.
  Lemma draw_ren_same z s s' : draw_ren s = Ok (z, s') -> same s s'.
  Proof. unfold draw_ren. destruct (d_ren (dr s)); [discriminate|]. intros H. injection H as _ <-. split; reflexivity. Qed.
  Lemma get_reneging_date_same j i rd s s' : get_reneging_date cf j i s = Ok (rd, s') -> same s s'.
  Proof.
    unfold get_reneging_date. intros H. minv H x s0 E. apply get_ind_inv in E as [-> _]. minv H nc s0 E. apply ncfg_of_inv in E as [-> _].
    minv H t s0 E. apply tnow_inv in E as [_ ->]. minv H has s0 E. apply lift_inv in E as [_ ->].
    destruct has; [|apply ret_inv in H as [_ ->]; apply same_refl]. minv H z s0 E. apply draw_ren_same in E. apply ret_inv in H as [_ ->]. exact E.
  Qed.
  (* what accept has written into the record of the arriving customer when the choice is made *)
  Definition Arrived (j t : Z) (x x0 : ind) : Prop :=
    i_id x0 = i_id x /\ i_node x0 = Some j /\ i_arr x0 = Some t /\ i_cls x0 = i_cls x /\ i_prio x0 = i_prio x /\ i_pprio x0 = i_prio x /\
    i_server x0 = i_server x /\ i_sst x0 = i_sst x.

  (* (c), first half: accept puts the arriving customer at the TAIL of the queue of its priority class, touches no other queue and
     no other record, and then makes the choice (accept_tail) at that state s0 *)
  Theorem accept_enqueues f j i s s' : Idx s -> accept cf (S f) j i s = Ok (tt, s') ->
    exists x nd q nc s0 nd0,
      find_ind i (inds s) = Some x /\ node_at s j nd /\ nthZ (n_queues nd) (i_prio x) = Some q /\ nthZ (cf_nodes cf) (j - 1) = Some nc /\
      Idx s0 /\ now s0 = now s /\
      node_at s0 j nd0 /\ n_queues nd0 = updZ (n_queues nd) (i_prio x) (q ++ [i]) /\
      (forall j' nd', j' <> j -> node_at s j' nd' -> exists nd'', node_at s0 j' nd'' /\ n_queues nd'' = n_queues nd') /\
      chg i (fun a b => a = x /\ Arrived j (now s) x b) s s0 /\
      accept_tail cf (preempt cf f) j i nc s0 = Ok (tt, s').
  Proof.
    intros HI H. rewrite accept_S in H. unfold accept_body in H.
    minv H x s0 E. apply get_ind_inv in E as [-> Hx]. minv H nd s0 E. apply get_node_inv in E as (-> & Hj & Hn).
    pose proof (IdxL_at _ _ _ HI Hn) as Hid.
    minv H u1 s1 E1. pose proof (modify_inv _ _ _ _ E1) as Es1. eapply put_ind_chg in E1; [|exact Hx|exact (find_ind_id _ _ _ Hx)].
    minv H qs s1' E. apply lift_inv in E as [Hqs ->]. destruct (nthZ (n_queues nd) (i_prio x)) as [q|] eqn:Eq; [|discriminate]. injection Hqs as <-.
    minv H u2 s2 E2. pose proof (modify_inv _ _ _ _ E2) as Es2. apply put_node_same in E2.
    minv H t s2' E. apply tnow_inv in E as [-> ->]. minv H u3 s3 E3. pose proof (ro_upd_ind _ _ _ _ _ E3) as N3. apply upd_ind_chg in E3; [|reflexivity].
    minv H nc s3' E. apply ncfg_of_inv in E as [-> Hnc]. minv H u4 s4 E4.
    assert (C4 : chg i (fun a b => exists rd, b = a <| i_ren := rd |>) s3 s4 /\ nodes s4 = nodes s3).
    { destruct (nc_reneging nc).
      - minv E4 rd s3' E. pose proof (ro_get_reneging_date _ _ _ _ _ _ E) as N. apply get_reneging_date_same in E.
        pose proof (ro_upd_ind _ _ _ _ _ E4) as N'. apply upd_ind_chg in E4; [|reflexivity]. split; [|congruence].
        eapply chg_same_l; [exact E|]. eapply chg_weak; [exact E4|]. cbv beta. intros a b ->. exists rd. reflexivity.
      - apply ret_inv in E4 as [_ ->]. split; [|reflexivity]. apply same_chg; [apply same_refl|]. intros a. exists (i_ren a). destruct a. reflexivity. }
    destruct C4 as [C4 N4]. clear E4. minv H u5 s5 E5. destruct u5.
    set (nd2 := nd <| n_queues := updZ (n_queues nd) (i_prio x) (q ++ [i]) |> <| n_pop := n_pop nd + 1 |>) in *.
    assert (Nn : nodes s4 = updZ (nodes s) (j - 1) nd2).
    { rewrite N4, N3, Es2, Es1. cbn. change (n_id nd2) with (n_id nd). rewrite Hid. reflexivity. }
    assert (HI4 : Idx s4). { unfold Idx. rewrite Nn. eapply IdxL_updZ; [exact HI|exact Hn|reflexivity]. }
    pose proof (decide_class_change_queues _ _ _ _ _ HI4 E5) as HQ. apply decide_class_change_chg in E5.
    assert (N2 : now s2 = now s) by (destruct E2 as [A _]; destruct E1 as [B _]; congruence).
    exists x, nd, q, nc, s5. assert (Hat4 : nthZ (nodes s4) (j - 1) = Some nd2) by (rewrite Nn; eapply nthZ_updZ_eq; eauto).
    destruct (same_queues_at _ _ _ _ HQ Hj Hat4) as (nd0 & Hat0 & _ & Hq0). exists nd0.
    split; [exact Hx|]. split; [split; assumption|]. split; [exact Eq|]. split; [exact Hnc|]. split; [eapply same_queues_Idx; eauto|].
    assert (Call : chg i (fun a b => a = x /\ Arrived j (now s) x b) s s5).
    { eapply chg_weak; [eapply chg_trans; [exact E1|eapply chg_same_l; [exact E2|eapply chg_trans; [exact E3|eapply chg_trans; [exact C4|exact E5]]]]|].
      cbv beta. intros a b (b1 & [-> ->] & b3 & -> & b4 & (rd & ->) & (n & cc & ->)). split; [reflexivity|]. rewrite N2. repeat split; reflexivity. }
    split; [destruct Call as [A _]; exact A|]. split; [split; assumption|]. split; [exact Hq0|]. split; [|split; [exact Call|exact H]].
    intros j' nd' Hne [Hj' Hn']. assert (Hat' : nthZ (nodes s4) (j' - 1) = Some nd') by (rewrite Nn, nthZ_updZ_ne by lia; exact Hn').
    destruct (same_queues_at _ _ _ _ HQ Hj' Hat') as (nd'' & Hat'' & _ & Hq''). exists nd''. split; [split; assumption|exact Hq''].
  Qed.

  (* the choice at an arrival: who is started, if anybody *)
  Theorem accept_tail_starts pre j i nc s0 s' : accept_tail cf pre j i nc s0 = Ok (tt, s') ->
    exists nd1, node_at s0 j nd1 /\
     ( (* infinitely many servers: the arriving customer itself, at once *)
       (n_c nd1 = None /\ chg i (fun a b => StartedW (now s0) (i_server a) a b) s0 s')
       (* nobody waits (not even the arriving customer: it then carries a stale server marker) *)
     \/ (n_c nd1 <> None /\ waiting_line nd1 s0 = [] /\ s' = s0)
       (* the discipline's choice c among those waiting, the arriving customer included ... *)
     \/ (n_c nd1 <> None /\ exists d c cx, disc_of cf j = Some d /\ Chosen d (waiting_line nd1 s0) (d_unif (dr s0)) c /\
          find_ind c (inds s0) = Some cx /\
          let s1 := if (d =? 0) || (d =? 1) then s0 else took_unif s0 in
          match find_free_server_for (nc_spf nc) (i_cls cx) (n_servers nd1) with
          | Some sv => (* ... is started on the free server that find_free_server gives it *)
                       chg c (StartedW (now s0) (Some (sv_id sv))) s0 s'
          | None => (* ... or, no server being free, may pre-empt: the pre-emptor is c *)
                    if 0 <? numo (n_c nd1)
                    then exists v, preempt_victim cf j c s1 = Ok (v, s1) /\
                                   match v with Some vi => pre j vi c s1 = Ok (tt, s') | None => s' = s1 end
                    else s' = s1
          end)).
  Proof.
    unfold accept_tail. intros H. minv H nd1 s1 E. apply get_node_inv in E as (-> & Hj & Hn). exists nd1. split; [split; assumption|].
    cbv zeta in H. unfold nd_inf in H. destruct (n_c nd1) as [cc|] eqn:Ec.
    - right. minv H cand s1 E. destruct (choose_next_customer_spec _ _ _ _ _ E) as (nd' & [_ Hn'] & Hr).
      rewrite Hn in Hn'. injection Hn' as <-. cbv zeta in Hr. destruct cand as [c|].
      + right. split; [discriminate|]. destruct Hr as (d & Hd & Hch & ->). minv H cx s2 E2. apply get_ind_inv in E2 as [-> Hcx].
        exists d, c, cx. split; [exact Hd|]. split; [exact Hch|].
        split; [destruct ((d =? 0) || (d =? 1)); exact Hcx|]. cbv zeta.
        destruct (find_free_server_for (nc_spf nc) (i_cls cx) (n_servers nd1)) as [sv|].
        * eapply chg_same_l; [apply (after_choice_same d)|]. apply start_fresh_spec in H.
          replace (now s0) with (now (if (d =? 0) || (d =? 1) then s0 else took_unif s0)) by (destruct ((d =? 0) || (d =? 1)); reflexivity). exact H.
        * change (numo (Some cc)) with cc in *. destruct (0 <? cc); [|apply ret_inv in H as [_ ->]; reflexivity].
          minv H v s3 E3. pose proof (preempt_victim_pure _ _ _ _ _ E3) as ->. exists v. split; [first [exact E3|reflexivity]|].
          destruct v; [exact H|apply ret_inv in H as [_ ->]; reflexivity].
      + left. split; [discriminate|]. destruct Hr as [Hw ->]. apply ret_inv in H as [_ ->]. auto.
    - left. split; [reflexivity|]. minv H cand s1 E. apply ret_inv in E as [-> ->]. apply start_fresh_spec in H. exact H.
  Qed.

  (* ---- the pre-emption path ---- *)
  Lemma log_rec_same r u s s' : log_rec r s = Ok (u, s') -> same s s'.
  Proof. intros H. apply modify_inv in H. subst s'. split; reflexivity. Qed.
  Lemma write_interruption_record_chg j i dest u s s' : write_interruption_record cf j i dest s = Ok (u, s') ->
    chg i (fun a b => b = a <| i_nrec := i_nrec a + 1 |>) s s'.
  Proof.
    unfold write_interruption_record. intros H. minv H t s0 E. apply tnow_inv in E as [_ ->]. minv H x s0 E. apply get_ind_inv in E as [-> _].
    minv H nc s0 E. apply ncfg_of_inv in E as [-> _]. minv H sid s0 E.
    assert (s0 = s) as ->.
    { destruct (nc_slotted nc); [apply ret_inv in E as [_ ->]; reflexivity|]. minv E z s1 E1. apply lift_inv in E1 as [_ ->]. apply ret_inv in E as [_ ->]. reflexivity. }
    minv H u1 s1 E1. apply log_rec_same in E1. eapply chg_same_l; [exact E1|]. unfold bump_rec in H. eapply upd_ind_chg; [|exact H]. reflexivity.
  Qed.
  Lemma kill_server_same j sid u s s' : kill_server j sid s = Ok (u, s') -> same s s'.
  Proof.
    unfold kill_server. intros H. minv H t s0 E. apply tnow_inv in E as [_ ->]. minv H nd s0 E. apply get_node_inv in E as (-> & _).
    minv H sv s0 E. apply lift_inv in E as [_ ->]. cbv zeta in H. eapply put_node_same; eauto.
  Qed.
  Lemma detatch_server_chg j sid i u s s' : detatch_server j sid i s = Ok (u, s') -> chg i (fun a b => b = a <| i_server := None |>) s s'.
  Proof.
    unfold detatch_server. intros H. minv H t s0 E. apply tnow_inv in E as [_ ->]. minv H nd s0 E. apply get_node_inv in E as (-> & _).
    minv H x s0 E. apply get_ind_inv in E as [-> Hx]. minv H u1 s1 E1. eapply put_ind_chg in E1; [|exact Hx|exact (find_ind_id _ _ _ Hx)].
    eapply chg_weak; [eapply chg_same_r; [exact E1|]|cbv beta; intros a b [-> ->]; reflexivity].
    destruct (find_server sid (n_servers nd)) as [sv|]; [|apply ret_inv in H as [_ ->]; apply same_refl].
    minv H u2 s2 E2. apply put_node_same in E2. eapply same_trans; [exact E2|].
    destruct (sv_offduty sv); [eapply kill_server_same; eauto|apply ret_inv in H as [_ ->]; apply same_refl].
  Qed.

  (* without rerouting the victim phase touches the victim's record only *)
  Lemma preempt_victim_part_stays rel j v t vx nc s s' : (nc_preempt nc =? 4) = false ->
    preempt_victim_part cf rel j v t vx nc s = Ok (tt, s') ->
    chg v (fun a b => i_id b = i_id a /\ i_server b = None /\ i_sst b = None /\ i_smark b = nc_preempt nc) s s'.
  Proof.
    intros E4 H. unfold preempt_victim_part in H. rewrite E4 in H.
    minv H u1 s1 E1. apply write_interruption_record_chg in E1. minv H u2 s2 E2. apply upd_ind_chg in E2; [|reflexivity].
    minv H sid s2' E. apply lift_inv in E as [_ ->]. minv H u3 s3 E3. apply detatch_server_chg in E3. apply decide_class_change_chg in H.
    eapply chg_weak; [eapply chg_trans; [exact E1|eapply chg_trans; [exact E2|eapply chg_trans; [exact E3|exact H]]]|].
    cbv beta. intros a b (b1 & -> & b2 & -> & b3 & -> & (n & cc & ->)). repeat split; reflexivity.
  Qed.

  (* preempt: whatever happens to the victim, the customer started is the pre-emptor i, the one that asked, on the server the
     victim held when pre-emption was decided *)
  Theorem preempt_starts f j v i s s' : preempt cf (S f) j v i s = Ok (tt, s') ->
    exists vx nc sid s0 s1,
      find_ind v (inds s) = Some vx /\ nthZ (cf_nodes cf) (j - 1) = Some nc /\ i_server vx = Some sid /\
      chg v (fun a b => b = a <| i_ost := i_stime a |>) s s0 /\
      preempt_victim_part cf (release cf f) j v (now s) vx nc s0 = Ok (tt, s1) /\
      chg i (StartedW (now s1) (Some sid)) s1 s'.
  Proof.
    intros H. rewrite preempt_S in H. unfold preempt_body in H.
    minv H t s0 E. apply tnow_inv in E as [-> ->]. minv H vx s0 E. apply get_ind_inv in E as [-> Hvx].
    minv H nc s0 E. apply ncfg_of_inv in E as [-> Hnc]. minv H u0 s0 E0. eapply put_ind_chg in E0; [|exact Hvx|exact (find_ind_id _ _ _ Hvx)].
    minv H u1 s1 E1. destruct u1. minv H sid s1' E. apply lift_inv in E as [Hsid ->]. apply start_preemptor_spec in H.
    exists vx, nc, sid, s0, s1. split; [exact Hvx|]. split; [exact Hnc|]. split; [exact Hsid|]. split; [|split; [exact E1|exact H]].
    eapply chg_weak; [exact E0|]. cbv beta. intros a b [-> ->]. reflexivity.
  Qed.
  (* hence, without rerouting, a pre-emption touches two records: the victim's and the pre-emptor's *)
  Corollary preempt_frame f j v i s s' nc : nthZ (cf_nodes cf) (j - 1) = Some nc -> (nc_preempt nc =? 4) = false ->
    preempt cf (S f) j v i s = Ok (tt, s') ->
    now s' = now s /\ forall i', i' <> v -> i' <> i -> find_ind i' (inds s') = find_ind i' (inds s).
  Proof.
    intros Hnc E4 H. destruct (preempt_starts _ _ _ _ _ _ H) as (vx & nc' & sid & s0 & s1 & _ & Hnc' & _ & C0 & Hp & C1).
    rewrite Hnc in Hnc'. injection Hnc' as <-. apply (preempt_victim_part_stays _ _ _ _ _ _ _ _ E4) in Hp.
    destruct C0 as (A0 & B0 & _). destruct Hp as (A1 & B1 & _). destruct C1 as (A2 & B2 & _). split; [congruence|].
    intros i' Hv Hi. rewrite (B2 i' Hi), (B1 i' Hv). apply B0. exact Hv.
  Qed.

  (* ---- (c), second half: class change while waiting.  The customer takes the class noted for it; when the priority class
     changes it leaves its old queue and joins the TAIL of the queue of the new priority class, whatever its arrival date
     (finding F-08a); it may then pre-empt: the pre-emptor is that customer, whoever else waits in its new class ---- *)
  Theorem class_change_moves_to_tail j s s' : Idx s -> change_customer_class_while_waiting cf j s = Ok (tt, s') ->
    exists nd i x ncl p', node_at s j nd /\ hd_error (n_next_inds nd) = Some i /\ find_ind i (inds s) = Some x /\
      i_ncls x = Some ncl /\ nthZ (cf_prio cf) ncl = Some p' /\
      let s0 := s <| inds := put_ind_l (x <| i_cls := ncl |> <| i_prio := p' |>) (inds s) |> in
      ((p' = i_pprio x /\ ccww_finish cf j i ncl s0 = Ok (tt, s'))
       \/ (p' <> i_pprio x /\ exists q q' qn s2,
             nthZ (n_queues nd) (i_pprio x) = Some q /\ remove_first i q = Some q' /\
             nthZ (updZ (n_queues nd) (i_pprio x) q') p' = Some qn /\
             let s1 := s0 <| nodes := updZ (nodes s0) (j - 1) (nd <| n_queues := updZ (updZ (n_queues nd) (i_pprio x) q') p' (qn ++ [i]) |>) |> in
             ccww_preempt cf j i nd s1 = Ok (tt, s2) /\ ccww_finish cf j i ncl s2 = Ok (tt, s'))).
  Proof.
    intros HI H. rewrite ccww_unfold in H. minv H nd s0 E. apply get_node_inv in E as (-> & Hj & Hn).
    pose proof (IdxL_at _ _ _ HI Hn) as Hid.
    minv H i s0 E. apply lift_inv in E as [Hi ->]. minv H x s0 E. apply get_ind_inv in E as [-> Hx].
    minv H ncl s0 E. apply lift_inv in E as [Hncl ->]. minv H p' s0 E. apply lift_inv in E as [Hp' ->].
    minv H u0 s0 E0. apply modify_inv in E0. subst s0. minv H u1 s1 E1. destruct u1.
    exists nd, i, x, ncl, p'. split; [split; assumption|]. split; [exact Hi|]. split; [exact Hx|]. split; [exact Hncl|]. split; [exact Hp'|]. cbv zeta.
    destruct (p' =? i_pprio x) eqn:Ep; cbn [negb] in E1.
    - apply Z.eqb_eq in Ep. left. apply ret_inv in E1 as [_ ->]. auto.
    - apply Z.eqb_neq in Ep. right. split; [exact Ep|]. unfold ccww_move in E1.
      minv E1 q s2 E. apply lift_inv in E as [Hq ->]. minv E1 q' s2 E. apply lift_inv in E as [Hq' ->]. cbv zeta in E1.
      minv E1 qn s2 E. apply lift_inv in E as [Hqn ->]. minv E1 u2 s2 E2. apply modify_inv in E2. subst s2.
      exists q, q', qn, s1. split; [exact Hq|]. split; [exact Hq'|]. split; [exact Hqn|]. split; [|exact H].
      cbn in E1. cbn. rewrite Hid in E1. exact E1.
  Qed.
  Theorem ccww_preempt_spec j i nd s1 s2 : ccww_preempt cf j i nd s1 = Ok (tt, s2) ->
    s2 = s1 \/ exists vi, preempt_victim cf j i s1 = Ok (Some vi, s1) /\ preempt cf (fuel_of s1) j vi i s1 = Ok (tt, s2).
  Proof.
    unfold ccww_preempt. intros H. destruct (negb (nd_inf nd) && (0 <? numo (n_c nd))); [|apply ret_inv in H as [_ ->]; auto].
    minv H v s0 E. pose proof (preempt_victim_pure _ _ _ _ _ E) as ->. destruct v as [vi|]; [|apply ret_inv in H as [_ ->]; auto].
    right. exists vi. split; [reflexivity|]. minv H fl s0 E0. apply gets_inv in E0 as [-> ->]. exact H.
  Qed.
  Theorem ccww_finish_spec j i ncl s2 s' : Idx s2 -> ccww_finish cf j i ncl s2 = Ok (tt, s') ->
    same_queues s2 s' /\ chg i (fun a b => exists n cc, b = a <| i_pcls := ncl |> <| i_pprio := i_prio a |> <| i_ncls := n |> <| i_ccd := cc |>) s2 s'.
  Proof.
    unfold ccww_finish. intros HI H. minv H u s3 E. pose proof (ro_upd_ind _ _ _ _ _ E) as N. apply upd_ind_chg in E; [|reflexivity].
    assert (HI3 : Idx s3) by (unfold Idx; rewrite N; exact HI). split.
    - eapply same_queues_trans; [apply nodes_same_queues; exact N|eapply decide_class_change_queues; eauto].
    - apply decide_class_change_chg in H. eapply chg_weak; [eapply chg_trans; [exact E|exact H]|]. cbv beta.
      intros a b (b1 & -> & (n & cc & ->)). exists n, cc. reflexivity.
  Qed.
End Paths.

(* ================================================================================================================ *)
(* Part 5: closed examples and the two regions in which the property, read naively, is FALSE of the model           *)
(* ================================================================================================================ *)
(* one node, one server, two classes: class 0 has priority 0, class 1 priority 1; a waiting customer of class 1 turns into
   class 0 after a drawn time (class change while waiting); d = discipline *)
Definition f8_cf (d : Z) : config :=
  mkCfg 2 [ mkNcfg None None d SFixed 0 false [false; false] 0 ] [0; 1] 2 None
    [ RtNR [RLeave]; RtNR [RLeave] ] [ [None]; [None] ] true [ [false; false]; [true; false] ].
Definition f8_srv : server := mkServer 1 None false None 0 None 0 false 0 None.
Definition f8_node : node := mkNode 1 0 0 [[]; []] [f8_srv] [] 0 None [] (Some 1) 1 [] 0 [] [] [] 0 None 0 None None.
Definition f8_s0 : sim :=
  mkSim 1 0 (mkArr 0 0 [[Some 1; Some 2]] 1 0 (Some 1)) [f8_node] [] 0 0 [] (mkDraws [] [] [] [] [] []) [] [[0]; [0]].
(* t = 1: customer 1 (class 0) arrives, served until 101.  t = 2: customer 2 (class 1) arrives and waits; it will change class at 12.
   t = 3: customer 3 (class 0) arrives and waits.  t = 12: customer 2 becomes class 0.  t = 101: customer 1 leaves. *)
Definition f8_ds : list draws :=
  [ mkDraws [2] [1] [100] [] [] []; mkDraws [1000] [1] [] [] [] [10]; mkDraws [1000] [1] [] [] [] [];
    mkDraws [] [] [] [] [] []; mkDraws [] [] [50] [] [] [] ].
Definition f8_s4 : sim := Eval vm_compute in match run_many (f8_cf 0) f8_s0 (firstn 4 f8_ds) with Ok s => s | _ => f8_s0 end.
Definition f8_s5 : sim := Eval vm_compute in match run_many (f8_cf 0) f8_s0 f8_ds with Ok s => s | _ => f8_s0 end.

Example f8_idx : Idx_b f8_s0 = true /\ Idx_b f8_s4 = true /\ Idx_b f8_s5 = true.
Proof. vm_compute. auto. Qed.
Example f8_run4 : run_many (f8_cf 0) f8_s0 (firstn 4 f8_ds) = Ok f8_s4. Proof. vm_compute. reflexivity. Qed.
Example f8_run5 : run_many (f8_cf 0) f8_s0 f8_ds = Ok f8_s5. Proof. vm_compute. reflexivity. Qed.
(* after the class change the queue of priority 0 is [1; 3; 2] (1 in service), that of priority 1 is empty: customer 2 stands at the tail *)
Example f8_queues4 : map n_queues (nodes f8_s4) = [[[1; 3; 2]; []]] /\ first_waiting [[1; 3; 2]; []] (inds f8_s4) = [3; 2].
Proof. vm_compute. auto. Qed.
(* the three disciplines on that state: FIFO takes 3, LIFO takes 2, SIRO takes the one the uniform draw designates *)
Example f8_choose :
  choose_next_customer (f8_cf 0) 1 f8_s4 = Ok (Some 3, f8_s4) /\
  choose_next_customer (f8_cf 1) 1 f8_s4 = Ok (Some 2, f8_s4) /\
  choose_next_customer (f8_cf 2) 1 (f8_s4 <| dr := mkDraws [] [] [] [two53 / 4] [] [] |>) = Ok (Some 3, f8_s4 <| dr := mkDraws [] [] [] [] [] [] |>) /\
  choose_next_customer (f8_cf 2) 1 (f8_s4 <| dr := mkDraws [] [] [] [3 * (two53 / 4)] [] [] |>) = Ok (Some 2, f8_s4 <| dr := mkDraws [] [] [] [] [] [] |>).
Proof. vm_compute. auto. Qed.
Example f8_prescribed : exists nd pre q post, node_at f8_s4 1 nd /\ n_queues nd = pre ++ q :: post /\ In 3 q /\ iswait (inds f8_s4) 3 = true /\
  exists a b, q = a ++ 3 :: b /\ forall i, In i a -> iswait (inds f8_s4) i = false.
Proof.
  destruct (chosen_is_prescribed (f8_cf 0) 1 f8_s4 3 f8_s4 (proj1 f8_choose)) as (nd & pre & q & post & d & A & B & C & D & E & _ & F & _).
  assert (d = 0) as -> by (vm_compute in C; congruence). exists nd, pre, q, post.
  split; [exact A|]. split; [exact B|]. split; [exact D|]. split; [exact E|]. exact (F eq_refl).
Qed.
(* the run as seen by the queue theorem *)
Example f8_evolve : Idx f8_s5 /\ queues_evolve f8_s0 f8_s5.
Proof. apply (run_many_queues (f8_cf 0) f8_ds f8_s0 f8_s5 (Idx_b_sound _ (proj1 f8_idx)) f8_run5). Qed.

(* REFUTED (finding F-08a, known): "under FIFO the customer chosen is the earliest ARRIVAL of its priority class".  At t = 101
   customer 3 (arrived at 3) starts service although customer 2 (arrived at 2, of the same class and priority since t = 12) still
   waits: the queue order is the order of joining THAT queue, and a class change while waiting joins it at the tail. *)
Definition f8_x2 : ind := Eval vm_compute in match find_ind 2 (inds f8_s5) with Some x => x | None => new_ind 0 0 0 None end.
Definition f8_x3 : ind := Eval vm_compute in match find_ind 3 (inds f8_s5) with Some x => x | None => new_ind 0 0 0 None end.
Definition f8_y2 : ind := Eval vm_compute in match find_ind 2 (inds f8_s4) with Some x => x | None => new_ind 0 0 0 None end.
Definition f8_y3 : ind := Eval vm_compute in match find_ind 3 (inds f8_s4) with Some x => x | None => new_ind 0 0 0 None end.
Theorem fifo_by_arrival_date_refuted : exists cf s ds s' a b xa xb t,
  Idx_b s = true /\ forallb (fun nc => nc_disc nc =? 0) (cf_nodes cf) = true /\ run_many cf s ds = Ok s' /\
  find_ind a (inds s') = Some xa /\ find_ind b (inds s') = Some xb /\
  i_node xa = i_node xb /\ i_cls xa = i_cls xb /\ i_prio xa = i_prio xb /\
  i_server xa = None /\ i_sst xb = Some t /\ i_arr xa = Some 2 /\ i_arr xb = Some 3 /\ t = 101.
Proof.
  exists (f8_cf 0), f8_s0, f8_ds, f8_s5, 2, 3, f8_x2, f8_x3, 101.
  split; [vm_compute; reflexivity|]. split; [vm_compute; reflexivity|]. split; [exact f8_run5|].
  split; [vm_compute; reflexivity|]. split; [vm_compute; reflexivity|]. vm_compute. repeat split; reflexivity.
Qed.
(* the same at function level: in the state of t = 12..101 choose_next_customer under FIFO returns 3 while 2 waits in the same queue
   with an earlier arrival date *)
Theorem choose_fifo_not_earliest_arrival_refuted : exists cf j s c s' o xc xo,
  disc_of cf j = Some 0 /\ choose_next_customer cf j s = Ok (Some c, s') /\
  iswait (inds s) o = true /\ find_ind c (inds s) = Some xc /\ find_ind o (inds s) = Some xo /\
  i_prio xo = i_prio xc /\ i_cls xo = i_cls xc /\ i_node xo = i_node xc /\ numo (i_arr xo) < numo (i_arr xc).
Proof.
  exists (f8_cf 0), 1, f8_s4, 3, f8_s4, 2, f8_y3, f8_y2. split; [reflexivity|]. split; [exact (proj1 f8_choose)|].
  split; [vm_compute; reflexivity|]. split; [vm_compute; reflexivity|]. split; [vm_compute; reflexivity|]. vm_compute. repeat split; reflexivity.
Qed.

(* REFUTED (finding F-11a, known): "a customer whose service starts was waiting".  Priority pre-emption with option `reroute`
   at a node whose rerouting sends the victim back to the SAME node: releasing the victim frees its server, the victim's
   re-arrival (accept) makes the choice and starts the pre-emptor on that server, and preempt() then starts the pre-emptor
   a second time.  One node, one server; customer 1 (priority 1) in service since t = 1, customer 2 (priority 0) arrives at t = 2. *)
Definition f11_cf : config :=
  mkCfg 2 [ mkNcfg None None 0 SFixed 4 false [false; false] 0 ] [0; 1] 2 None
    [ RtNR [RDirect 1]; RtNR [RDirect 1] ] [ [None]; [None] ] false [ [false; false]; [false; false] ].
Definition f11_s0 : sim :=
  mkSim 1 0 (mkArr 0 0 [[Some 2; Some 1]] 1 1 (Some 1)) [f8_node] [] 0 0 [] (mkDraws [] [] [] [] [] []) [] [[0]; [0]].
Definition f11_s1 : sim := Eval vm_compute in match run_many f11_cf f11_s0 [mkDraws [1000] [1] [100] [] [] []] with Ok s => s | _ => f11_s0 end.
Definition f11_d2 : draws := mkDraws [1000] [1] [30; 40; 50] [] [] [].
(* the state in which accept(node 1, customer 2) is entered during the second event, and the state in which it calls preempt:
   accept_body with a pre-emption that does nothing stops exactly there *)
Definition f11_acc : sim := f11_s1 <| dr := f11_d2 |> <| inds := put_ind_l (new_ind 2 0 0 None) (inds f11_s1) |>.
Definition f11_sp : sim := Eval vm_compute in match accept_body f11_cf (fun _ _ _ => ret tt) 1 2 f11_acc with Ok (_, s) => s | _ => f11_acc end.
Definition f11_vx : ind := Eval vm_compute in match find_ind 1 (inds f11_sp) with Some x => x | None => new_ind 0 0 0 None end.
Definition f11_nc : ncfg := mkNcfg None None 0 SFixed 4 false [false; false] 0.
Definition f11_sa : sim := f11_sp <| inds := put_ind_l (f11_vx <| i_ost := i_stime f11_vx |>) (inds f11_sp) |>.
Definition f11_sb : sim := Eval vm_compute in match preempt_victim_part f11_cf (release f11_cf 50) 1 1 (now f11_sp) f11_vx f11_nc f11_sa with Ok (_, s) => s | _ => f11_sa end.

Definition f11_xi : ind := Eval vm_compute in match find_ind 2 (inds f11_sb) with Some x => x | None => new_ind 0 0 0 None end.
Definition f11_s' : sim := Eval vm_compute in match start_preemptor f11_cf 1 2 1 f11_sb with Ok (_, s) => s | _ => f11_sb end.

Example f11_event2 : exists s2, event_step f11_cf (f11_s1 <| dr := f11_d2 |>) = Ok (tt, s2) /\ Idx_b s2 = true.
Proof. eexists. split; [vm_compute; reflexivity|]. vm_compute. reflexivity. Qed.

Theorem preemptor_started_twice_refuted : exists cf f j v i s vx nc s0 s1 s' sid,
  Idx_b s = true /\ accept_body cf (fun _ _ _ => ret tt) j i f11_acc = Ok (tt, s) /\
  (* in s the arriving customer i waits, is the discipline's choice and pre-empts v *)
  iswait (inds s) i = true /\ choose_next_customer cf j s = Ok (Some i, s) /\ preempt_victim cf j i s = Ok (Some v, s) /\
  preempt cf (S f) j v i s = Ok (tt, s') /\
  (* the decomposition of preempt_starts: the victim is rerouted (released and accepted again at the same node) ... *)
  find_ind v (inds s) = Some vx /\ nthZ (cf_nodes cf) (j - 1) = Some nc /\ nc_preempt nc = 4 /\ i_server vx = Some sid /\
  s0 = s <| inds := put_ind_l (vx <| i_ost := i_stime vx |>) (inds s) |> /\
  preempt_victim_part cf (release cf f) j v (now s) vx nc s0 = Ok (tt, s1) /\
  (* ... and when preempt comes to start the pre-emptor, it is in service already, on the very server *)
  iswait (inds s1) i = false /\ (exists xi, find_ind i (inds s1) = Some xi /\ i_server xi = Some sid /\ i_sst xi = Some (now s)) /\
  start_preemptor cf j i sid s1 = Ok (tt, s').
Proof.
  exists f11_cf, 50%nat, 1, 1, 2, f11_sp, f11_vx, f11_nc, f11_sa, f11_sb, f11_s', 1.
  split; [vm_compute; reflexivity|]. split; [vm_compute; reflexivity|]. split; [vm_compute; reflexivity|]. split; [vm_compute; reflexivity|].
  split; [vm_compute; reflexivity|]. split; [vm_compute; reflexivity|]. split; [vm_compute; reflexivity|]. split; [reflexivity|].
  split; [reflexivity|]. split; [reflexivity|]. split; [reflexivity|]. split; [vm_compute; reflexivity|]. split; [vm_compute; reflexivity|].
  split; [exists f11_xi; vm_compute; auto|]. vm_compute. reflexivity.
Qed.

Print Assumptions choose_next_customer_spec.
Print Assumptions chosen_is_prescribed.
Print Assumptions none_chosen_none_waiting.
Print Assumptions fifo_no_overtaking.
Print Assumptions change_shift_starts.
Print Assumptions start_give_spec.
Print Assumptions start_preemptor_spec.
Print Assumptions start_fresh_spec.
Print Assumptions begin_interrupted_spec.
Print Assumptions slot_start_spec.
Print Assumptions serve_with_starts.
Print Assumptions bsip_release_starts.
Print Assumptions bsip_change_shift_starts.
Print Assumptions Starts_frame.
Print Assumptions slot_loop_starts.
Print Assumptions SlotStarts_frame.
Print Assumptions slotted_service_starts.
Print Assumptions accept_enqueues.
Print Assumptions accept_tail_starts.
Print Assumptions preempt_starts.
Print Assumptions preempt_frame.
Print Assumptions class_change_moves_to_tail.
Print Assumptions ccww_preempt_spec.
Print Assumptions ccww_finish_spec.
Print Assumptions serve_with_queues.
Print Assumptions start_fresh_queues.
Print Assumptions bsip_change_shift_queues.
Print Assumptions slot_loop_queues.
Print Assumptions preempt_victim_part_queues.
Print Assumptions change_shift_queues.
Print Assumptions slotted_service_queues.
Print Assumptions qsteps_view.
Print Assumptions event_step_queues.
Print Assumptions run_many_queues.
Print Assumptions queue_order_is_order_of_joining.
Print Assumptions Idx_b_sound.
Print Assumptions sched_stays_b_sound.
Print Assumptions f8_prescribed.
Print Assumptions f8_evolve.
Print Assumptions fifo_by_arrival_date_refuted.
Print Assumptions choose_fifo_not_earliest_arrival_refuted.
Print Assumptions preemptor_started_twice_refuted.

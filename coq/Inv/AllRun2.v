(* AllRun2.v -- the executable forms of the T2 invariants of the STAGE-2 engine model, evaluated together on one snapshot of
   the real engine by the correspondence check (dispatch_model 38): L [cfg; state] -> L [A wfx2; A sched; A next; A svc2; A ren; A prio; A rows2; A blk2; A srv2; A idle2; A clk2; A cnt2; A clk2r; A noinv; A slot].
   Invariants proved in a restricted scope are reported as 1 outside it. *)
From Coq Require Import ZArith List Bool.
From CiwV Require Import Sx Prelude.
From CiwV.Engine Require Import State2 Engine2 Codec2.
From CiwV.Inv Require Conserve2 Sched2 Preempt2 Renege2 Route2 Samples2 Blocking2 Servers2 Clock2 HorizonCount2 Journey2 Horizon2 Clock2r Inversion2 Journey2s Slot2 Journey2r DateSum2 Knot2 Clock2p TrackerInc2 Clock2s TrackerInc2b.
Import ListNotations.
Open Scope Z_scope.

Definition bit (b : bool) : sx := A (if b then 1 else 0).

Definition invs2_b (cf : config) (s : sim) : list bool :=
  [ Conserve2.wfx2_b s;                                              (* C01: conservation, every configuration *)
    Sched2.sched_inv_b cf s;                                         (* C12: on-duty servers follow the timetable, every configuration *)
    Sched2.next_inv_b cf s;                                          (* C12: no shift change is overdue; a shift change runs at its date *)
    Samples2.SvcInv_b s;                                             (* C10 / C11: service stamps consistent (end = start + duration), every configuration *)
    negb (Renege2.nopre cf) || Renege2.RenInv_b cf s;                (* C13: reneging dates (scope: no pre-emption of any kind) *)
    Route2.PrioInv_b cf s;                                           (* C09: priority = mapping[current class], every configuration *)
    Route2.routing_ok_b cf && Route2.ccm_ok_b cf;
    forallb (fun b => b) (Blocking2.blocking2_b cf s);
    negb (Servers2.srv_scope cf) || Servers2.srvinv2_b cf s;         (* C04: server <-> customer link (scope: Servers2.srv_scope) *)
    negb (Servers2.srv_scope cf) || (Servers2.srvinv2_b cf s && Servers2.nonidle2_b cf s);
    negb (Clock2.scope cf) || Horizon2.hzn2_b cf s;                    (* C02: nothing scheduled in the past, the active node's date = now (scope: Clock2.scope) *)
    HorizonCount2.cinv_b cf s;
    negb (Clock2r.scope_r_partial cf) || Clock2r.clk2r_b cf s;
    negb (Inversion2.inv_scope cf) || Inversion2.invj_b cf s;
    Slot2.slot_inv_b cf s && Slot2.slot_next_b cf s;
    negb (Clock2p.tiny cf && forallb (fun nd => negb (nd_inf nd)) (nodes s)) || Clock2p.clk2pt_b cf s;
    negb (Clock2s.scope_s cf) || Clock2s.clk2s_b cf s ].               (* C12, slots: next slot at slotdate k, never overdue, a slot event runs at its date; every configuration *)      (* C11: no priority inversion at pre-emptive nodes (scope: Inversion2.inv_scope) *)    (* C02 with the resume option of pre-emptive capacitated slots (no capacities): Clock2r *)                                     (* C14: the four counts are ordered (completed <= finished <= arrived, accepted <= arrived) *)   (* C05: nobody waits while an on-duty server idles *)              (* C07 / C06: counter = length; in their scopes: nobody blocked while there is space, population <= capacity *)                  (* C09: the hypotheses of the routing theorems hold of the configuration *)              (* C13: reneging dates (scope: no pre-emption of any kind) *)

Definition run_invs2 (inp : sx) : sx :=
  match inp with
  | L [c; s] =>
    match dec_cfg c, dec_sim s (L [L []; L []; L []; L []; L []; L []]) with
    | Some cf, Some st => L (map bit (invs2_b cf st))
    | _, _ => A (-1)
    end
  | _ => A (-1)
  end.

Theorem invs2_b_sound cf s : invs2_b cf s = [true; true; true; true; true; true; true; true; true; true; true; true; true; true; true; true; true] ->
  Conserve2.WFx2 [] s /\ Sched2.SchedInv cf s /\ Sched2.NextInv cf s /\
  Samples2.SvcInv s /\ (Renege2.nopre cf = true -> Renege2.RenInv cf s) /\
  Route2.PrioInv cf s /\ Route2.routing_ok cf /\ Route2.ccm_ok cf /\
  Blocking2.Len2 s /\ (Blocking2.scope_blk cf = true -> Blocking2.Blk2 cf s) /\ (Blocking2.scope_cap cf = true -> Blocking2.Blk2 cf s /\ Blocking2.Cap2 cf s) /\
  (Servers2.srv_scope cf = true -> Servers2.SrvInv2 cf s /\ Servers2.NonIdle2 cf s) /\
  (Clock2.scope cf = true -> Horizon2.Hzn2 cf s) /\ HorizonCount2.CInv cf s /\
  (Clock2r.scope_r_partial cf = true -> Clock2r.Clk2r cf s) /\
  (Inversion2.inv_scope cf = true -> Inversion2.InvJ cf s) /\
  Slot2.SlotInv cf s /\ Slot2.SlotNext cf s /\
  (Clock2p.tiny cf = true -> forallb (fun nd => negb (nd_inf nd)) (nodes s) = true -> Clock2p.Clk2pt cf s) /\
  (Clock2s.scope_s cf = true -> Clock2s.Clk2s cf s).
Proof.
  unfold invs2_b. intros H. injection H as H1 H2 H3 H4 H5 H6 H7 H9 H10 H11 H12 H13 H14 H15 H16 H18 H19.
  split; [apply Conserve2.wfx2_b_sound; exact H1|]. split; [apply Sched2.sched_inv_b_sound; exact H2|]. split; [apply Sched2.next_inv_b_sound; exact H3|].
  split; [apply Samples2.SvcInv_b_sound; exact H4|].
  split; [intros Hs; rewrite Hs in H5; cbn in H5; apply Renege2.RenInv_b_sound; exact H5|].
  apply andb_true_iff in H7 as [H7 H8].
  split; [apply Route2.PrioInv_b_sound; exact H6|]. split; [apply Route2.routing_ok_b_sound; exact H7|]. split; [apply Route2.ccm_ok_b_sound; exact H8|].
  assert (HB : Blocking2.blocking2_b cf s = [true; true; true; true]).
  { unfold Blocking2.blocking2_b in *. cbn [forallb] in H9.
    repeat (apply andb_true_iff in H9 as [?X H9]). congruence. }
  destruct (Blocking2.blocking2_b_sound cf s HB) as (A & B & C & _).
  split; [exact A|]. split; [exact B|]. split; [exact C|].
  split; [intros Hs; rewrite Hs in H10, H11; cbn in H10, H11; apply andb_true_iff in H11 as [_ H11];
          split; [apply Servers2.srvinv2_b_sound; exact H10|apply Servers2.nonidle2_b_sound; exact H11]|].
  split; [intros Hs; rewrite Hs in H12; cbn in H12; apply Horizon2.hzn2_b_sound; exact H12|].
  split; [apply HorizonCount2.cinv_b_sound; exact H13|].
  split; [intros Hs; rewrite Hs in H14; cbn in H14; apply Clock2r.clk2r_b_sound; exact H14|].
  apply andb_true_iff in H16 as [H16 H17].
  split; [intros Hs; rewrite Hs in H15; cbn in H15; apply Inversion2.invj_b_sound; exact H15|].
  split; [apply Slot2.slot_inv_b_sound; exact H16|]. split; [apply Slot2.slot_next_b_sound; exact H17|].
  split; [intros Ht Hi; rewrite Ht, Hi in H18; cbn in H18; apply Clock2p.clk2pt_b_sound; exact H18|].
  intros Hs. rewrite Hs in H19. cbn in H19. apply Clock2s.clk2s_b_sound. exact H19.
Qed.
Print Assumptions invs2_b_sound.

(* C03 on stage 2: the journey invariant on a real snapshot together with the REAL cumulative record history and the real arrival nodes
   (dispatch_model 40): L [cfg; state; L records (as Codec2.enc_rec writes them); L [L [A id; A node]; ...]] -> A 1 / A 0 / A 2 (outside Journey2s.scope2s, which extends Journey2.scope2 to pre-emptive Schedules) *)
Definition dec_rec (s : sx) : option rec :=
  match s with
  | L [A i; A c; A oc; A n; A t; a; w; ss; st; se; b; e; d; qa; qd; sv] =>
    do a' <- do_ a; do w' <- do_ w; do ss' <- do_ ss; do st' <- do_ st; do se' <- do_ se; do b' <- do_ b; do e' <- do_ e;
    do d' <- do_ d; do qa' <- do_ qa; do qd' <- do_ qd; do sv' <- do_ sv;
    Some (mkRec i c oc n t a' w' ss' st' se' b' e' d' qa' qd' sv')
  | _ => None
  end.
Fixpoint an_of (l : list (Z * Z)) (i : Z) : option Z :=
  match l with [] => None | (k, n) :: r => if k =? i then Some n else an_of r i end.
Definition run_jrn2_real (inp : sx) : sx :=
  match inp with
  | L [c; s; h; a] =>
    match dec_cfg c, dec_sim s (L [L []; L []; L []; L []; L []; L []]), (do l <- getL h; omap dec_rec l), (do l <- getL a; omap dec_pair l) with
    | Some cf, Some st, Some hs, Some al =>
      if Journey2s.scope2s cf then bit (Journey2s.jrn2s_b cf (an_of al) st hs)
      else if Journey2r.scope2r cf then bit (Journey2.jrn2_b cf (an_of al) st hs)      (* the `reroute` option: Journey2r.v *)
      else A 2
    | _, _, _, _ => A (-1)
    end
  | _ => A (-1)
  end.
Theorem run_jrn2_real_sound cf st hs al : Journey2s.jrn2s_b cf (an_of al) st hs = true -> Journey2s.Jrn2s cf (an_of al) st hs.
Proof. apply Journey2s.jrn2s_b_sound. Qed.
Theorem run_jrn2_real_sound_r cf st hs al : Journey2.jrn2_b cf (an_of al) st hs = true -> Journey2.Jrn2 cf (an_of al) st hs.
Proof. apply Journey2r.jrn2r_b_sound. Qed.

(* C20 on stage 2 (dispatch_model 42): the hypotheses and the conclusion of DateSum2.event_step_grid / event_step_records on one REAL event:
   L [A g; cfg; snapshot AFTER the event; the draws the event consumed; L records it wrote]
   -> L [timetable on the grid g; the time draws on the grid; every date and duration of the snapshot on the grid; every time field of the records on the grid] *)
Definition run_grid2 (inp : sx) : sx :=
  match inp with
  | L [A g; c; s; d; h] =>
    match dec_cfg c, dec_sim s d, (do l <- getL h; omap dec_rec l) with
    | Some cf, Some st, Some hs =>
      L [bit (DateSum2.grid_b g cf); bit (DateSum2.drawson_b g (dr st)); bit (DateSum2.ongrid_b g cf st); bit (DateSum2.logon_b g hs)]
    | _, _, _ => A (-1)
    end
  | _ => A (-1)
  end.
Theorem run_grid2_sound g cf st hs : DateSum2.grid_b g cf = true -> DateSum2.ongrid_b g cf st = true -> DateSum2.logon_b g hs = true ->
  DateSum2.Grid g cf /\ DateSum2.OnGrid g st /\ DateSum2.LogOn g hs.
Proof. intros A B C. split; [apply DateSum2.grid_b_sound; exact A|]. split; [eapply DateSum2.ongrid_b_sound; exact B|apply DateSum2.logon_b_sound; exact C]. Qed.

(* C18 on stage 2 (dispatch_model 44): the hypotheses / the conclusion of Knot2.knot2_is_permanent_in_scope on a REAL snapshot and the set K of
   nodes the harness read off it:  L [cfg; snapshot; L K] -> L [knot_scope cf K; knot2_b cf s K; noscope_b cf K s] *)
Definition run_knot2 (inp : sx) : sx :=
  match inp with
  | L [c; s; k] =>
    match dec_cfg c, dec_sim s (L [L []; L []; L []; L []; L []; L []]), getZs k with
    | Some cf, Some st, Some K => L [bit (Knot2.knot_scope cf K); bit (Knot2.knot2_b cf st K); bit (Knot2.noscope_b cf K st)]
    | _, _, _ => A (-1)
    end
  | _ => A (-1)
  end.

(* C17 on stage 2 (dispatch_model 45): the tracker calls the STAGE-2 ENGINE MODEL says one event makes (TrackerInc2.calls_event_step, the ghost
   call list the theorems of TrackerInc2.v fold the incremental updates over), for comparison with the calls the real engine makes to its
   tracker in that event; plus the invariant Idx and the hypotheses of the NaiveBlocking theorem on the real snapshot:
   L [cfg; state; draws] -> L [idx2_b; scope_int && noint2_b && nextunbl_b; L calls; scope_nb -> tinvs_b; scope_nb] *)
Definition enc_call2 (c : TrackerInc2.call) : sx :=
  match c with
  | TrackerInc2.Acc j k => L [A 0; A j; A k]
  | TrackerInc2.Blk j d i pc => L [A 1; A j; A d; A i; A pc]
  | TrackerInc2.Rel j d i pc b => L [A 2; A j; A d; A i; A pc; A (if b then 1 else 0)]
  | TrackerInc2.Chg j pc k => L [A 3; A j; A pc; A k]
  end.
Definition run_calls2 (inp : sx) : sx :=
  match inp with
  | L [c; s; d] =>
    match dec_cfg c, dec_sim s d with
    | Some cf, Some st => L [bit (TrackerInc2.idx2_b st); bit (TrackerInc2.scope_int cf && TrackerInc2.noint2_b st && TrackerInc2.nextunbl_b st);
                             L (map enc_call2 (TrackerInc2.calls_event_step cf st));
                             (* TrackerInc2b: inside scope_nb every unblocked customer has previous_class = customer_class (TInvS, the NodeClassMatrix invariant) *)
                             bit (negb (TrackerInc2b.scope_nb cf) || TrackerInc2b.tinvs_b st); bit (TrackerInc2b.scope_nb cf)]
    | _, _ => A (-1)
    end
  | _ => A (-1)
  end.

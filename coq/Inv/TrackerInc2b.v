(* TrackerInc2b.v -- completes the C17 theorems of TrackerInc2.v (state trackers on the STAGE-2 engine model).

   (A) NaiveBlocking, full run theorem.  TrackerInc2 assumes NextUnbl before every event.  Here it is derived from an INVARIANT:
       Inv2 cf s := exists an h, Journey2.Jrn2 cf an s h   (conservation WFx2 + journey invariant JH + blocked queues Lq + NoInt
       + the server / blocked-flag link SrvInv + PickOK: the candidates of the next end of service / reneging are not blocked),
       which Journey2r.v proves to be kept by every event in the executable scope scope_nb = Journey2r.scope2r.
       PickOK only speaks about candidates that HAVE a record; that a picked candidate has one follows from the event returning Ok
       (change_customer_class / renege read it first), so TrackerInc2's per-event hypothesis is weakened to NextUnblW here and the
       two event lemmas are re-proved for it.
         event_step_naive_blocking2, run_many_naive_blocking2, naive_blocking_never_negative, inv2_b / inv2_b_sound, examples nb_*.
       Scope scope_nb (executable, Journey2r.scope2r): per node no pre-emptive Schedule, no pre-emptive capacitated slot, a slotted
       node has neither reneging nor priority pre-emption; priority pre-emption of any kind (resume / restart / resample / reroute, the
       latter only towards the exit or non-slotted nodes without reroute, NetworkRouting) only in configurations WITHOUT capacities
       (nobody is ever blocked: excludes F-02a) and without class-change times.  All routers, reneging + jockeying, blocking,
       non-pre-emptive schedules, slots, class change after service and while waiting are inside.  It is narrower than what
       TrackerInc2's per-event theorem allows (reroute schedules; pre-emption together with capacities at nodes where nobody can be
       blocked; pre-emption with class-change times): those regions are neither proved nor refuted here (what is missing: the
       server / blocked-flag link SrvInv + PickOK of Journey2 in those regions).
   (B) NodeClassMatrix (per-class counts), same scope.  cntc c s j = number of customers of node j whose previous_class is c (what
       change_state_release subtracts); with TInvS (a customer that is not blocked has previous_class = customer_class) these are the
       entries of TrackerInc2.cm_true (class_matrix_means).  Invariant InvB = Inv2 /\ TInvS (executable invb_b).
         event_step_tinvs2 : TInvS is kept by every event (logic CT: the count of customers that are not blocked and have
                             previous_class <> customer_class never increases);
         event_step_class_matrix2, run_many_class_matrix2 (configurations without class-change times: FULL, no hypothesis on the run):
             InvB is kept, every entry moves exactly as the calls say (Acc +1 at customer_class, Rel -1 at previous_class, Chg), and
             whenever the tracker started on a matrix m0 does not raise, every entry that was right before the run is right after it;
         event_step_class_matrix2_partial, run_many_class_matrix2_partial (with class-change times, the Chg call included): the same
             under the per-event hypothesis CandQ1 (the candidate of a class change while waiting is a customer of its node;
             executable candq1_run_b), which is NOT shown invariant (it needs a link between n_ncci, the queues and class_change_date);
         not shown either: that the tracker does not raise (customer classes are indices of the matrix: stage 1's CR).
       class_matrix_refuted_F02b: closed witness outside the scope (region of F-02b; new as a tracker finding): the tracker holds
       (2, 0) for a node whose true counts are (0, 2).  No drift was found by computation for class change while waiting together with
       priority pre-emption (all four options), reneging after a class change, blocking (60 events of a two-node network).
       Method: TrackerInc2's frame logic calmN / measures cntb / Hoare logic hoB are ported twice by textual substitution: CP
       (attribute previous_class, = ) and CT (attribute (customer_class, previous_class, is_blocked), <= , no calls). *)
From Coq Require Import ZArith List Bool Lia Permutation.
From RecordUpdate Require Import RecordUpdate.
From CiwV Require Import Sx Prelude Routing Sched.
From CiwV.Engine Require Import State2 Engine2 Codec2.
From CiwV.Inv Require Import Conserve2 TrackerInc2.
From CiwV.Inv Require Journey2 Journey2r.
Import ListNotations.
Open Scope Z_scope.

Local Arguments Z.mul : simpl never.
Local Arguments Z.add : simpl never.
Local Arguments Z.sub : simpl never.
Local Arguments Z.opp : simpl never.

(* ====================================================================================================================
   A. NaiveBlocking
   ==================================================================================================================== *)
(* the scope: per node no pre-emptive Schedule, no pre-emptive capacitated slot, a slotted node has neither reneging nor priority
   pre-emption; reroute pre-emption only towards the exit or non-slotted nodes without reroute (NetworkRouting only); if some node
   has priority pre-emption then no node has a capacity (nobody is ever blocked: F-02a) and there are no class-change times *)
Definition scope_nb (cf : config) : bool := Journey2r.scope2r cf.
Definition Inv2 (cf : config) (s : sim) : Prop := exists an h, Journey2.Jrn2 cf an s h.
(* executable: the ghost `an` (node of first arrival) and the history h of records are witnesses; for a state without
   customers take (fun _ => None) and [] *)
Definition inv2_b (cf : config) (an : Z -> option Z) (h : list rec) (s : sim) : bool := Journey2.jrn2_b cf an s h.
Theorem inv2_b_sound cf an h s : inv2_b cf an h s = true -> Inv2 cf s.
Proof. intros H. exists an, h. apply Journey2.jrn2_b_sound. exact H. Qed.

Lemma scope_nb_int cf : scope_nb cf = true -> scope_int cf = true.
Proof.
  unfold scope_nb, Journey2r.scope2r, scope_int. intros H. apply andb_true_iff in H as [H _]. apply andb_true_iff in H as [H _].
  rewrite forallb_forall in H. apply forallb_forall. intros nc Hin. specialize (H nc Hin).
  unfold Journey2r.scope_nc in H. unfold scope_int_nc. destruct (nc_srv nc) as [|sc|sl]; [reflexivity| |].
  - rewrite H. reflexivity.
  - apply andb_true_iff in H as [H _]. apply andb_true_iff in H as [H _].
    destruct (sl_cap sl); [|reflexivity]. cbn in H. apply negb_true_iff, negb_false_iff in H. rewrite H. reflexivity.
Qed.

(* the candidates of an end of service / a reneging that have a record are not blocked; the former are customers of the node *)
Definition NextUnblW (s : sim) : Prop :=
  forall j nd, nthZ (nodes s) (j - 1) = Some nd -> forall i x, In i (n_next_inds nd) -> find_ind i (inds s) = Some x ->
    (n_next_type nd = 0 -> i_blocked x = false /\ In i (all_individuals nd)) /\ (n_next_type nd = 2 -> i_blocked x = false).

Lemma in_some_queue s i x : WFx2 [] s -> find_ind i (inds s) = Some x ->
  exists k nd, nthZ (nodes s) (k - 1) = Some nd /\ In i (all_individuals nd).
Proof.
  intros (_ & _ & _ & _ & HQ) Hf. rewrite app_nil_r in HQ.
  assert (Hin : In i (qids (shp s))) by (eapply Permutation_in; [exact HQ|]; exact (Conserve2.find_ind_In _ _ _ Hf)).
  unfold qids in Hin. apply in_concat in Hin as (l & Hl & Hil). apply in_map_iff in Hl as (t & <- & Ht).
  cbn [shp sh_ns] in Ht. apply in_map_iff in Ht as (nd & <- & Hnd).
  apply In_nth_error in Hnd as [n Hn]. exists (Z.of_nat n + 1), nd. split; [|exact Hil].
  replace (Z.of_nat n + 1 - 1) with (Z.of_nat n) by lia. rewrite nthZ_of_nat. exact Hn.
Qed.

Lemma Inv2_facts cf s : Inv2 cf s -> WFx2 [] s /\ NoInt s /\ NextUnblW s.
Proof.
  intros (an & h & (HW & HJ & _ & HN & _ & HP)). split; [exact HW|]. split.
  - unfold NoInt. apply Forall_forall. intros nd Hnd. apply In_nth_error in Hnd as [n Hn].
    apply (HN (Z.of_nat n + 1) nd). unfold Journey2.nodeZ. replace (Z.of_nat n + 1 - 1) with (Z.of_nat n) by lia. rewrite nthZ_of_nat. exact Hn.
  - intros j nd Hnd i x Hi Hx. destruct (HP j nd Hnd) as [HP1 _]. destruct (HP1 i x Hi Hx) as [P0 P2]. split.
    + intros E0. destruct (P0 E0) as [Pb Pn]. split; [exact Pb|].
      destruct (in_some_queue s i x HW Hx) as (k & nd' & Hk & Hin).
      destruct (Journey2.j_node _ _ _ HJ k i (ex_intro _ nd' (conj Hk Hin))) as (x' & Hx' & (Gn & _)).
      assert (x' = x) by congruence. assert (k = j) by congruence. assert (nd' = nd) by congruence. congruence.
    + intros E2. exact (proj1 (P2 E2)).
Qed.

(* a picked candidate of an event that returns Ok has a record *)
Lemma bind_ok_inv {A B} (m : M A) (f : A -> M B) s b s' : bind m f s = Ok (b, s') -> exists a s1, m s = Ok (a, s1) /\ f a s1 = Ok (b, s').
Proof. unfold bind. destruct (m s) as [[a s1]| |]; try discriminate. intros H. exists a, s1. auto. Qed.
Lemma get_ind_some i s x s1 : get_ind i s = Ok (x, s1) -> s1 = s /\ find_ind i (inds s) = Some x.
Proof. unfold get_ind. destruct (find_ind i (inds s)) as [y|]; [|discriminate]. intros H. injection H as <- <-. auto. Qed.
Lemma fs_tail_rec cf j nd i s a s' cs : fs_tailW cf j nd i s = Ok (a, s', cs) -> exists x, find_ind i (inds s) = Some x.
Proof.
  unfold fs_tailW. intros H. apply wbind_inv in H as (a1 & s1 & c1 & c2 & E1 & _ & _). apply up_inv in E1 as [E1 _].
  unfold change_customer_class in E1. apply bind_ok_inv in E1 as (nc & s2 & E2 & E1).
  unfold ncfg_of, lift in E2. destruct (nthZ (cf_nodes cf) (j - 1)); [|discriminate]. unfold ret in E2. injection E2 as _ <-.
  apply bind_ok_inv in E1 as (x & s3 & E3 & _). apply get_ind_some in E3 as [_ E3]. eauto.
Qed.
Lemma ren_tail_rec cf j t i s a s' cs : ren_tailW cf j t i s = Ok (a, s', cs) -> exists x, find_ind i (inds s) = Some x.
Proof.
  unfold ren_tailW. intros H. apply wbind_inv in H as (a1 & s1 & c1 & c2 & E1 & _ & _). apply up_inv in E1 as [E1 _].
  unfold upd_ind in E1. apply bind_ok_inv in E1 as (x & s3 & E3 & _). apply get_ind_some in E3 as [_ E3]. eauto.
Qed.

Section BWalk3w.
  Variable cf : config.
  Variable p : bool -> bool.
  Hypothesis Hscope : scope_int cf = true.

  (* one event of node j: TrackerInc2.hb_node_have_event with the weaker hypothesis *)
  Lemma hb_node_have_event_w j s a s' cs : NextUnblW s -> WFx2 [] s -> NoInt s -> node_have_eventW cf j s = Ok (a, s', cs) ->
    WFx2 [] s' /\ NoInt s' /\ forall j0, cntb p s' j0 - netb p j0 cs = cntb p s j0.
  Proof.
    intros HX HW HN H. unfold node_have_eventW in H.
    apply wbind_inv in H as (nd & s1 & c1 & cs1 & E1 & H & ->). apply up_inv in E1 as [E1 ->].
    apply get_node_spec in E1 as (-> & Hj & Hnd). cbv zeta in H. cbn [app].
    assert (Fin : forall (m : W unit), hoB p KT [] [] [] z0 m -> m s = Ok (a, s', cs1) ->
                  WFx2 [] s' /\ NoInt s' /\ forall j0, cntb p s' j0 - netb p j0 cs1 = cntb p s j0).
    { intros m Hm E. destruct (Hm s a s' cs1 I (fun i0 b0 (H0 : In (i0, b0) []) => match H0 with end) HW HN E) as (A & B & D).
      split; [exact A|split; [exact B|]]. intros j0. rewrite (D j0). unfold z0. lia. }
    destruct (n_next_type nd =? 0) eqn:E0.
    { apply Z.eqb_eq in E0. unfold finish_serviceW in H.
      apply wbind_inv in H as (nd' & s2 & c2 & cs2 & E2 & H & ->). apply up_inv in E2 as [E2 ->].
      apply get_node_spec in E2 as (-> & _ & Hnd'). rewrite Hnd in Hnd'. injection Hnd' as <-.
      apply wbind_inv in H as (i & s3 & c3 & cs3 & E3 & H & ->). apply up_inv in E3 as [E3 ->]. cbn [app].
      pose proof (decide_between_In _ _ _ _ E3) as Hin.
      destruct (frame_step _ [] s i s3 (pk_decide_between _) (cn_decide_between _) HW HN E3) as (Es & W3 & N3 & B3).
      destruct (fs_tail_rec _ _ _ _ _ _ _ _ H) as [x3 Hx3].
      assert (Hbs : exists x, find_ind i (inds s) = Some x /\ i_blocked x = i_blocked x3).
      { pose proof (B3 i) as Hb. unfold bl in Hb. rewrite Hx3 in Hb. destruct (find_ind i (inds s)) as [x|]; [|discriminate Hb].
        exists x. split; [reflexivity|]. cbn in Hb. congruence. }
      destruct Hbs as (x & Hx & Hbx).
      destruct (proj1 (HX j nd Hnd i x Hin Hx) E0) as [Hbl Hq].
      assert (HK : inq i j (shp s3)).
      { rewrite Es. exists (nshape nd). split; [cbn [shp sh_ns]; rewrite nthZ_map, Hnd; reflexivity|exact Hq]. }
      assert (HL : Lok [(i, false)] s3).
      { intros i0 b0 [Hq0|[]]. injection Hq0 as <- <-. unfold bl. rewrite Hx3. cbn. congruence. }
      destruct (hb_fs_tail cf p j nd i [] s3 a s' cs3 HK HL W3 N3 H) as (A & B & D).
      split; [exact A|split; [exact B|]]. intros j0. rewrite (D j0). unfold z0.
      rewrite (cntb_frame p s s3 (f_equal sh_ns Es) B3). lia. }
    destruct (n_next_type nd =? 1) eqn:E1; [exact (Fin _ (hb_change_shift cf p Hscope j []) H)|].
    destruct (n_next_type nd =? 2) eqn:E2.
    { apply Z.eqb_eq in E2. unfold renegeW in H.
      apply wbind_inv in H as (t & s2 & c2 & cs2 & E2' & H & ->). apply up_inv in E2' as [E2' ->].
      unfold tnow, gets in E2'. injection E2' as <- <-.
      apply wbind_inv in H as (nd' & s2b & c2b & cs2b & E2b & H & ->). apply up_inv in E2b as [E2b ->].
      apply get_node_spec in E2b as (-> & _ & Hnd'). rewrite Hnd in Hnd'. injection Hnd' as <-.
      apply wbind_inv in H as (i & s3 & c3 & cs3 & E3 & H & ->). apply up_inv in E3 as [E3 ->]. cbn [app].
      pose proof (decide_between_In _ _ _ _ E3) as Hin.
      destruct (frame_step _ [] s i s3 (pk_decide_between _) (cn_decide_between _) HW HN E3) as (Es & W3 & N3 & B3).
      destruct (ren_tail_rec _ _ _ _ _ _ _ _ H) as [x3 Hx3].
      assert (Hbs : exists x, find_ind i (inds s) = Some x /\ i_blocked x = i_blocked x3).
      { pose proof (B3 i) as Hb. unfold bl in Hb. rewrite Hx3 in Hb. destruct (find_ind i (inds s)) as [x|]; [|discriminate Hb].
        exists x. split; [reflexivity|]. cbn in Hb. congruence. }
      destruct Hbs as (x & Hx & Hbx).
      pose proof (proj2 (HX j nd Hnd i x Hin Hx) E2) as Hbl.
      assert (HL : Lok [(i, false)] s3).
      { intros i0 b0 [Hq0|[]]. injection Hq0 as <- <-. unfold bl. rewrite Hx3. cbn. congruence. }
      destruct (hb_ren_tail cf p j (now s) i [] s3 a s' cs3 I HL W3 N3 H) as (A & B & D).
      split; [exact A|split; [exact B|]]. intros j0. rewrite (D j0). unfold z0.
      rewrite (cntb_frame p s s3 (f_equal sh_ns Es) B3). lia. }
    destruct (n_next_type nd =? 3) eqn:E3; [exact (Fin _ (hb_ccww cf p j []) H)|].
    destruct (n_next_type nd =? 4) eqn:E4; [exact (Fin _ (hb_slotted_service cf p Hscope j []) H)|].
    exact (Fin _ (B_wret p KT [] [] tt) H).
  Qed.

  Lemma hb_event_step_w s a s' cs : NextUnblW s -> WFx2 [] s -> NoInt s -> event_stepW cf s = Ok (a, s', cs) ->
    WFx2 [] s' /\ NoInt s' /\ forall j0, cntb p s' j0 - netb p j0 cs = cntb p s j0.
  Proof.
    intros HX HW HN H. unfold event_stepW in H.
    apply wbind_inv in H as (a1 & s1 & c1 & cs1 & E1 & H & ->). apply up_inv in E1 as [E1 ->].
    unfold modify in E1. injection E1 as <- <-. set (s1 := s <| log := [] |>) in *.
    apply wbind_inv in H as (k & s2 & c2 & cs2 & E2 & H & ->). apply up_inv in E2 as [E2 ->].
    unfold gets in E2. injection E2 as <- <-. cbn [app].
    apply wbind_inv in H as (a3 & s3 & c3 & cs3 & E3 & H & ->).
    assert (M3 : WFx2 [] s3 /\ NoInt s3 /\ forall j0, cntb p s3 j0 - netb p j0 c3 = cntb p s j0).
    { change (next_active s1) with (next_active s) in *. destruct (next_active s =? 0).
      - destruct (hb_arrival_have_event cf p s1 a3 s3 c3 I (fun i0 b0 (H0 : In (i0, b0) []) => match H0 with end) HW HN E3) as (A & B & D).
        split; [exact A|split; [exact B|]]. intros j0. rewrite (D j0). unfold z0. change (cntb p s1 j0) with (cntb p s j0). lia.
      - exact (hb_node_have_event_w (next_active s) s1 a3 s3 c3 HX HW HN E3). }
    destruct M3 as (W3 & N3 & D3).
    apply up_inv in H as [H ->]. rewrite app_nil_r.
    assert (Hp : presK KT (ns <- gets nodes ;; update_all cf (map n_id ns) ;;; find_next_active_node)) by pka.
    assert (Hc : calmN (ns <- gets nodes ;; update_all cf (map n_id ns) ;;; find_next_active_node)) by cna.
    destruct (frame_step _ [] s3 a s' Hp Hc W3 N3 H) as (Es & W4 & N4 & B4).
    split; [exact W4|split; [exact N4|]]. intros j0. rewrite (cntb_frame p s3 s' (f_equal sh_ns Es) B4). apply D3.
  Qed.
End BWalk3w.

(* ---------- T2 for C17, NaiveBlocking, stage 2: one event, no per-event hypothesis ---------- *)
Theorem event_step_naive_blocking2 cf s s' : scope_nb cf = true -> Inv2 cf s -> event_step cf s = Ok (tt, s') ->
  Inv2 cf s' /\ orun nb_step (calls_event_step cf s) (nb_true s) = Some (nb_true s').
Proof.
  intros Hsc HI H. destruct (Inv2_facts cf s HI) as (HW & HN & HX). split.
  - destruct HI as (an & h & HJ). exists (Journey2.an_step s an), (h ++ log s'). exact (Journey2r.event_step_jrn2r cf an s s' h Hsc HJ H).
  - pose proof (scope_nb_int cf Hsc) as Hsi. pose proof (event_stepW_ok cf s s' H) as HE.
    destruct (hb_event_step_w cf negb Hsi s tt s' _ HX HW HN HE) as (W1 & N1 & D1).
    destruct (hb_event_step_w cf (fun b => b) Hsi s tt s' _ HX HW HN HE) as (_ & _ & D2).
    destruct (hw_event_step cf (length (nsh s)) s tt s' _ (WFx2_Idx _ _ HW) eq_refl I HE) as (_ & B & C & _).
    unfold nsh in B, C. rewrite !map_length in B. rewrite map_length in C. eapply nb_track; [reflexivity|exact B|exact C|exact D1|exact D2].
Qed.
Lemma Inv2_dr cf s d : Inv2 cf s -> Inv2 cf (s <| dr := d |>).
Proof. intros (an & h & HJ). exists an, h. apply Journey2.Jrn2_dr. exact HJ. Qed.
(* any number of events, every oracle of draws *)
Theorem run_many_naive_blocking2 cf : scope_nb cf = true -> forall ds s s', Inv2 cf s -> run_many cf s ds = Ok s' ->
  Inv2 cf s' /\ orun nb_step (calls_many cf s ds) (nb_true s) = Some (nb_true s').
Proof.
  intros Hsc. induction ds as [|d r IH]; intros s s' HI H; cbn [run_many calls_many] in *.
  - injection H as <-. auto.
  - destruct (event_step cf (s <| dr := d |>)) as [[[] s1]| |] eqn:E; try discriminate.
    destruct (event_step_naive_blocking2 cf _ _ Hsc (Inv2_dr cf s d HI) E) as (I1 & T1).
    destruct (IH _ _ I1 H) as (I2 & T2'). split; [exact I2|].
    rewrite orun_app. change (nb_true (s <| dr := d |>)) with (nb_true s) in T1. rewrite T1. exact T2'.
Qed.
(* the NaiveBlocking tracker never holds a negative count, and never raises, along any run in scope *)
Corollary naive_blocking_never_negative cf ds s s' : scope_nb cf = true -> Inv2 cf s -> run_many cf s ds = Ok s' ->
  exists m, orun nb_step (calls_many cf s ds) (nb_true s) = Some m /\ Forall (Forall (fun z => 0 <= z)) m.
Proof.
  intros Hsc HI H. exists (nb_true s'). split; [exact (proj2 (run_many_naive_blocking2 cf Hsc ds s s' HI H))|apply naive_blocking_never_negative2].
Qed.

(* ---------- example: a blocking tandem 1 -> 2 (node 2 has room for one customer) and a third node with its own arrivals where
   waiting customers renege after one tick; arrivals every 2 ticks, services of 3 ---------- *)
Definition nb_cf : config :=
  mkCfg 1
    [ mkNcfg None None 0 SFixed 0 false [false] 0;
      mkNcfg (Some 1) None 0 SFixed 0 false [false] 0;
      mkNcfg None None 0 SFixed 0 true [true] 0 ]
    [0] 1 None [ RtNR [RDirect 2; RLeave; RLeave] ] [ [None; None; None] ] false [ [false] ].
Definition nb_s0 : sim :=
  mkSim 1 0 (mkArr 0 0 [[Some 1]; [None]; [Some 1]] 1 0 (Some 1))
        [x_node 1 1 [x_srv 1] 1; x_node 2 1 [x_srv 1] 1; x_node 3 1 [x_srv 1] 1] [] 0 0 [] x_nd [] [[0; 0; 0]].
Definition nb_d : draws := mkDraws [2] [1] [3; 3] [0; 0; 0] [1; 1] [].
Definition nb_an0 : Z -> option Z := fun _ => None.
Example nb_hyps : scope_nb nb_cf = true /\ inv2_b nb_cf nb_an0 [] nb_s0 = true.
Proof. vm_compute. split; reflexivity. Qed.
(* after 12 events customer 3 is blocked at node 1 (truth (2, 1)); customers 2 .. 6 of node 3 were served or reneged *)
Example nb_blocked12 : exists s12, run_many nb_cf nb_s0 (repeat nb_d 12) = Ok s12 /\ nb_true s12 = [[2; 1]; [1; 0]; [2; 0]] /\
  calls_many nb_cf nb_s0 (repeat nb_d 12) =
    [Acc 1 0; Acc 3 0; Acc 1 0; Acc 3 0; Rel 1 2 1 0 false; Acc 2 0; Rel 3 0 2 0 false; Acc 1 0; Acc 3 0; Rel 3 0 6 0 false; Acc 1 0; Acc 3 0; Blk 1 2 3 0].
Proof. eexists. split; [vm_compute; reflexivity|]. vm_compute. split; reflexivity. Qed.
(* the invariant holds in that non-trivial state: by the theorem, and by its executable test on the state, the ghost and the
   history that Journey2.run_hist accumulates *)
Example nb_inv12 : exists s12, run_many nb_cf nb_s0 (repeat nb_d 12) = Ok s12 /\ Inv2 nb_cf s12.
Proof.
  destruct (run_many nb_cf nb_s0 (repeat nb_d 12)) as [s'| |] eqn:E; [|vm_compute in E; discriminate|vm_compute in E; discriminate].
  exists s'. split; [reflexivity|]. destruct nb_hyps as (H1 & H2).
  exact (proj1 (run_many_naive_blocking2 nb_cf H1 _ _ _ (inv2_b_sound _ _ _ _ H2) E)).
Qed.
Example nb_inv12_b : match Journey2.run_hist nb_cf nb_s0 [] nb_an0 (repeat nb_d 12) with Ok (s, h, an) => inv2_b nb_cf an h s | _ => false end = true.
Proof. vm_compute. reflexivity. Qed.
(* 60 events: the tracker, folded over the calls of the run, gives the true state *)
Example nb_run60 : exists s', run_many nb_cf nb_s0 (repeat nb_d 60) = Ok s' /\
  orun nb_step (calls_many nb_cf nb_s0 (repeat nb_d 60)) (nb_true nb_s0) = Some (nb_true s').
Proof.
  destruct (run_many nb_cf nb_s0 (repeat nb_d 60)) as [s'| |] eqn:E; [|vm_compute in E; discriminate|vm_compute in E; discriminate].
  exists s'. split; [reflexivity|]. destruct nb_hyps as (H1 & H2).
  exact (proj2 (run_many_naive_blocking2 nb_cf H1 _ _ _ (inv2_b_sound _ _ _ _ H2) E)).
Qed.
(* TrackerInc2's refutations are outside: F-02b violates scope_nb; F-02a is in the region "priority pre-emption and a capacity" *)
Example nb_refutations_outside : scope_nb r4_cf = false /\ scope_nb a2_cf = false /\ scope_nb a3_cf = false /\ scope_nb tk_cf = true /\ scope_nb b2_cf = true.
Proof. vm_compute. repeat split; reflexivity. Qed.

(* ====================================================================================================================
   B. NodeClassMatrix: the per-class counts
   ==================================================================================================================== *)
(* B.1  TrackerInc2's frame logic (calmN), measures (cntb) and Hoare logic (hoB, hb_core) ported from the blocked flag to the
   attribute previous_class: calmN m = "m changes no customer's previous_class, creates and deletes no record, keeps NoInt";
   cntb p s j = number of customers of node j whose previous_class satisfies p; cdb = what a tracker call does to that number.
   The proof text is TrackerInc2's (sections 5b-5c) with i_blocked replaced by i_pcls; change_customer_class is NOT calm here
   (it overwrites previous_class) and is treated by hand below. *)
Module CP.
Definition pcl (s : sim) (i : Z) : option Z := option_map i_pcls (find_ind i (inds s)).
Definition pz (p : Z -> bool) (o : option Z) : bool := match o with Some b => p b | None => false end.
Definition calmN {A} (m : M A) : Prop :=
  forall s a s', NoInt s -> m s = Ok (a, s') -> NoInt s' /\ forall i, pcl s' i = pcl s i.
Definition calmB {A} (i0 : Z) (b0 : Z) (m : M A) : Prop :=
  forall s a s', pcl s i0 = Some b0 -> NoInt s -> m s = Ok (a, s') -> NoInt s' /\ forall i, pcl s' i = pcl s i.

Lemma calmB_of_calmN {A} i0 b0 (m : M A) : calmN m -> calmB i0 b0 m.
Proof. intros H s a s' _ HN E. eapply H; eauto. Qed.
Lemma cn_same {A} (m : M A) : (forall s a s', m s = Ok (a, s') -> inds s' = inds s /\ nodes s' = nodes s) -> calmN m.
Proof. intros H s a s' HN E. destruct (H _ _ _ E) as [Ei En]. unfold NoInt, pcl. rewrite Ei, En. auto. Qed.
Lemma cn_ret {A} (x : A) : calmN (ret x). Proof. apply cn_same. intros s a s' H. inversion H. auto. Qed.
Lemma cn_fail {A} e : calmN (@fail A e). Proof. intros s a s' _ H. discriminate. Qed.
Lemma cn_oof {A} : calmN (@oof A). Proof. intros s a s' _ H. discriminate. Qed.
Lemma cn_gets {A} (f : sim -> A) : calmN (gets f). Proof. apply cn_same. intros s a s' H. inversion H. auto. Qed.
Lemma cn_lift {A} e (o : option A) : calmN (lift e o). Proof. destruct o; [apply cn_ret|apply cn_fail]. Qed.
Lemma cn_modify (f : sim -> sim) : (forall s, inds (f s) = inds s /\ nodes (f s) = nodes s) -> calmN (modify f).
Proof. intros Hf. apply cn_same. intros s a s' H. inversion H. apply Hf. Qed.
Lemma cn_get_node j : calmN (get_node j). Proof. apply cn_same. intros s a s' H. apply get_node_spec in H as (-> & _). auto. Qed.
Lemma cn_get_ind i : calmN (get_ind i). Proof. apply cn_same. intros s a s' H. apply get_ind_spec in H as (-> & _). auto. Qed.
Lemma cn_draw_arr : calmN draw_arr. Proof. apply cn_same. intros s a s' H. unfold draw_arr in H. destruct (d_arr (dr s)); inversion H. auto. Qed.
Lemma cn_draw_batch : calmN draw_batch. Proof. apply cn_same. intros s a s' H. unfold draw_batch in H. destruct (d_batch (dr s)); inversion H. auto. Qed.
Lemma cn_draw_svc : calmN draw_svc. Proof. apply cn_same. intros s a s' H. unfold draw_svc in H. destruct (d_svc (dr s)); inversion H. auto. Qed.
Lemma cn_draw_unif : calmN draw_unif. Proof. apply cn_same. intros s a s' H. unfold draw_unif in H. destruct (d_unif (dr s)); inversion H. auto. Qed.
Lemma cn_draw_ren : calmN draw_ren. Proof. apply cn_same. intros s a s' H. unfold draw_ren in H. destruct (d_ren (dr s)); inversion H. auto. Qed.
Lemma cn_draw_cct : calmN draw_cct. Proof. apply cn_same. intros s a s' H. unfold draw_cct in H. destruct (d_cct (dr s)); inversion H. auto. Qed.
Lemma cn_bind {A B} (m : M A) (f : A -> M B) : calmN m -> (forall a, calmN (f a)) -> calmN (bind m f).
Proof.
  intros Hm Hf s b s' HN H. unfold bind in H. destruct (m s) as [[a s1]| |] eqn:E; try discriminate.
  destruct (Hm _ _ _ HN E) as [N1 B1]. destruct (Hf a _ _ _ N1 H) as [N2 B2]. split; [exact N2|]. intros i. rewrite B2. apply B1.
Qed.
Lemma cb_bind {A B} i0 b0 (m : M A) (f : A -> M B) : calmB i0 b0 m -> (forall a, calmB i0 b0 (f a)) -> calmB i0 b0 (bind m f).
Proof.
  intros Hm Hf s b s' Hk HN H. unfold bind in H. destruct (m s) as [[a s1]| |] eqn:E; try discriminate.
  destruct (Hm _ _ _ Hk HN E) as [N1 B1]. assert (Hk1 : pcl s1 i0 = Some b0) by (rewrite B1; exact Hk).
  destruct (Hf a _ _ _ Hk1 N1 H) as [N2 B2]. split; [exact N2|]. intros i. rewrite B2. apply B1.
Qed.
Lemma cn_get_node_bind {B} j (f : node -> M B) : (forall nd, n_nint nd <= 0 -> calmN (f nd)) -> calmN (bind (get_node j) f).
Proof.
  intros Hf s b s' HN H. unfold bind in H. destruct (get_node j s) as [[nd s1]| |] eqn:E; try discriminate.
  apply get_node_spec in E as (-> & _ & Hn). exact (Hf nd (NoInt_nth _ _ _ HN Hn) _ _ _ HN H).
Qed.
Lemma cb_get_node_bind {B} i0 b0 j (f : node -> M B) : (forall nd, n_nint nd <= 0 -> calmB i0 b0 (f nd)) -> calmB i0 b0 (bind (get_node j) f).
Proof.
  intros Hf s b s' Hk HN H. unfold bind in H. destruct (get_node j s) as [[nd s1]| |] eqn:E; try discriminate.
  apply get_node_spec in E as (-> & _ & Hn). exact (Hf nd (NoInt_nth _ _ _ HN Hn) _ _ _ Hk HN H).
Qed.
Lemma cn_put_node nd : n_nint nd <= 0 -> calmN (put_node nd).
Proof.
  intros Hn s a s' HN H. unfold put_node, modify in H. inversion H. split; [|reflexivity].
  unfold NoInt. cbn. unfold updZ. destruct (n_id nd - 1 <? 0); [exact HN|]. apply Forall_upd; assumption.
Qed.
Lemma cb_put_ind i0 b0 x' : i_id x' = i0 -> i_pcls x' = b0 -> calmB i0 b0 (put_ind x').
Proof.
  intros Hid Hb s a s' Hk HN H. unfold put_ind, modify in H. inversion H. split; [exact HN|].
  intros i. unfold pcl. cbn. rewrite find_put_l. destruct (Z.eqb_spec (i_id x') i) as [<-|Hne]; [|reflexivity].
  cbn. rewrite Hb. rewrite Hid. symmetry. exact Hk.
Qed.
Lemma cn_get_ind_then {B} i (F : ind -> M B) : (forall x, i_id x = i -> calmB i (i_pcls x) (F x)) -> calmN (bind (get_ind i) F).
Proof.
  intros HF s b s' HN H. unfold bind in H. destruct (get_ind i s) as [[x s1]| |] eqn:E; try discriminate.
  unfold get_ind in E. destruct (find_ind i (inds s)) as [x0|] eqn:Ef; inversion E. subst x0 s1.
  apply (HF x (find_ind_id _ _ _ Ef) s b s'); [unfold pcl; rewrite Ef; reflexivity|exact HN|exact H].
Qed.
Lemma cn_upd_ind i f : (forall x, i_id (f x) = i_id x) -> (forall x, i_pcls (f x) = i_pcls x) -> calmN (upd_ind i f).
Proof. intros H1 H2. unfold upd_ind. apply cn_get_ind_then. intros x Hx. apply cb_put_ind; [rewrite H1; exact Hx|apply H2]. Qed.
Lemma cn_upd_node j f : (forall nd, n_nint (f nd) <= n_nint nd) -> calmN (upd_node j f).
Proof. intros Hf. unfold upd_node. apply cn_get_node_bind. intros nd Hn. apply cn_put_node. specialize (Hf nd). lia. Qed.
Lemma cn_mapM {A B} (f : A -> M B) l : (forall a, calmN (f a)) -> calmN (mapM f l).
Proof. intros Hf. induction l as [|a r IH]; cbn [mapM]; [apply cn_ret|]. apply cn_bind; [apply Hf|]. intros b. apply cn_bind; [exact IH|]. intros bs. apply cn_ret. Qed.
Lemma cn_forM {A} (f : A -> M unit) l : (forall a, calmN (f a)) -> calmN (forM_ l f).
Proof. intros Hf. induction l as [|a r IH]; cbn [forM_]; [apply cn_ret|]. apply cn_bind; [apply Hf|]. intros _. exact IH. Qed.

Ltac cn_prim :=
  first [ apply cn_ret | apply cn_fail | apply cn_oof | apply cn_gets | apply cn_lift | apply cn_get_node | apply cn_get_ind
        | apply cn_draw_arr | apply cn_draw_batch | apply cn_draw_svc | apply cn_draw_unif | apply cn_draw_ren | apply cn_draw_cct
        | (apply cn_upd_ind; intros ?; reflexivity)
        | (apply cn_upd_node; intros ?; cbn; lia)
        | (apply cn_put_node; cbn; lia)
        | (apply cn_modify; intros ?; split; reflexivity) ].
Ltac cn_struct :=
  match goal with
  | |- calmN (bind (get_ind _) _) => apply cn_get_ind_then; intros ? ?
  | |- calmB _ _ (bind (get_ind _) _) => apply calmB_of_calmN, cn_get_ind_then; intros ? ?
  | |- calmN (bind (get_node _) _) => apply cn_get_node_bind; intros ? ?
  | |- calmB _ _ (bind (get_node _) _) => apply cb_get_node_bind; intros ? ?
  | |- calmN (bind _ _) => apply cn_bind; [|intros ?]
  | |- calmB _ _ (bind _ _) => apply cb_bind; [|intros ?]
  | |- calmN (mapM _ _) => apply cn_mapM; intros ?
  | |- calmN (forM_ _ _) => apply cn_forM; intros ?
  | |- calmN (if ?b then _ else _) => destruct b
  | |- calmN (match ?x with _ => _ end) => destruct x
  | |- calmB _ _ (if ?b then _ else _) => destruct b
  | |- calmB _ _ (match ?x with _ => _ end) => destruct x
  | |- calmB _ _ (put_ind _) => apply cb_put_ind; [cbn; assumption|reflexivity]
  | |- calmB _ _ _ => apply calmB_of_calmN
  end.
Tactic Notation "cn" "using" tactic(t) := repeat first [ t | cn_struct | cn_prim ].
Ltac cn0 := repeat first [ cn_struct | cn_prim ].

Section CalmWalk.
  Variable cf : config.
  Lemma cn_ncfg_of j : calmN (ncfg_of cf j). Proof. apply cn_lift. Qed.
  Lemma cn_tnow : calmN tnow. Proof. apply cn_gets. Qed.
  Lemma cn_log_rec r : calmN (log_rec r). Proof. apply cn_modify. intros s. split; reflexivity. Qed.
  Lemma cn_choice_uniform {X} (l : list X) : calmN (choice_uniform l). Proof. unfold choice_uniform. cn0. Qed.
  Lemma cn_choice_weighted den P : calmN (choice_weighted den P). Proof. unfold choice_weighted. cn0. Qed.
  Lemma cn_choose_next_customer j : calmN (choose_next_customer cf j).
  Proof. unfold choose_next_customer. cn using first [apply cn_ncfg_of | apply cn_choice_uniform]. Qed.
  Lemma cn_upd_server j sid f : calmN (upd_server j sid f). Proof. unfold upd_server. cn0. Qed.
  Lemma cn_find_next_class_change j : calmN (find_next_class_change j). Proof. unfold find_next_class_change. cn0. Qed.
  Lemma cn_cct_loop row : forall b best bc, calmN (cct_loop row b best bc).
  Proof. induction row as [|h r IH]; intros b best bc; cbn [cct_loop]; [apply cn_ret|]. cn using (apply IH). Qed.
  Lemma cn_decide_class_change j i : calmN (decide_class_change cf j i).
  Proof. unfold decide_class_change. cn using first [apply cn_cct_loop | apply cn_find_next_class_change | apply cn_tnow]. Qed.
  Lemma cn_reset_class_change j i : calmN (reset_class_change cf j i).
  Proof. unfold reset_class_change. cn using (apply cn_find_next_class_change). Qed.
  Lemma cn_stime_num x : calmN (stime_num x). Proof. unfold stime_num. cn0. Qed.
  Lemma cn_give_service_time_after_preemption i : calmN (give_service_time_after_preemption i).
  Proof. unfold give_service_time_after_preemption. cn0. Qed.
  Lemma cn_give_individual_a_service_time i : calmN (give_individual_a_service_time i).
  Proof. unfold give_individual_a_service_time. cn using (apply cn_give_service_time_after_preemption). Qed.
  Lemma cn_attach_server j sid i : calmN (attach_server j sid i). Proof. unfold attach_server. cn using (apply cn_upd_server). Qed.
  Lemma cn_set_next_end j sid d : calmN (set_next_end j sid d). Proof. unfold set_next_end. apply cn_upd_server. Qed.
  Lemma cn_kill_server j sid : calmN (kill_server j sid). Proof. unfold kill_server. cn using (apply cn_tnow). Qed.
  Lemma cn_detatch_server j sid i : calmN (detatch_server j sid i). Proof. unfold detatch_server. cn using first [apply cn_kill_server | apply cn_tnow]. Qed.
  Lemma cn_bump_rec i : calmN (bump_rec i). Proof. unfold bump_rec. cn0. Qed.
  Lemma cn_write_individual_record j i : calmN (write_individual_record cf j i).
  Proof. unfold write_individual_record. cn using first [apply cn_ncfg_of | apply cn_bump_rec | apply cn_log_rec]. Qed.
  Lemma cn_write_interruption_record j i d : calmN (write_interruption_record cf j i d).
  Proof. unfold write_interruption_record. cn using first [apply cn_ncfg_of | apply cn_bump_rec | apply cn_log_rec | apply cn_tnow]. Qed.
  Lemma cn_write_reneging_record j i : calmN (write_reneging_record j i).
  Proof. unfold write_reneging_record. cn using first [apply cn_bump_rec | apply cn_log_rec]. Qed.
  Lemma cn_write_br_record j i ty : calmN (write_br_record j i ty).
  Proof. unfold write_br_record. cn using first [apply cn_bump_rec | apply cn_log_rec | apply cn_tnow]. Qed.
  Lemma cn_reset_individual_attributes i : calmN (reset_individual_attributes i). Proof. unfold reset_individual_attributes. cn0. Qed.
End CalmWalk.

Section CalmWalk2.
  Variable cf : config.
  Lemma cn_valid_dest d : calmN (valid_dest d). Proof. unfold valid_dest. cn0. Qed.
  Lemma cn_jsq_loop lb ds : forall best acc, calmN (jsq_loop lb ds best acc).
  Proof. induction ds as [|d r IH]; intros best acc; cbn [jsq_loop]; [apply cn_ret|]. cn using (apply IH). Qed.
  Lemma cn_jsq_next lb ds order : calmN (jsq_next lb ds order).
  Proof. unfold jsq_next. cn using first [apply cn_jsq_loop | apply cn_choice_uniform]. Qed.
  Lemma cn_get_cyc c j : calmN (get_cyc c j). Proof. unfold get_cyc. cn0. Qed.
  Lemma cn_bump_cyc c j : calmN (bump_cyc c j).
  Proof.
    unfold bump_cyc. apply cn_modify. intros s. destruct (nthZ (cyc s) c) as [row|]; [|split; reflexivity].
    destruct (nthZ row (j - 1)); split; reflexivity.
  Qed.
  Lemma cn_node_router_next r c j : calmN (node_router_next r c j).
  Proof. unfold node_router_next. cn using first [apply cn_choice_weighted | apply cn_jsq_next | apply cn_get_cyc | apply cn_bump_cyc]. Qed.
  Lemma cn_next_node_for mode j i : calmN (next_node_for cf mode j i).
  Proof.
    unfold next_node_for.
    cn using first [apply cn_node_router_next | apply cn_valid_dest | apply cn_choice_uniform | apply cn_jsq_next].
  Qed.
  Lemma cn_start_fresh j i osid count : calmN (start_fresh cf j i osid count).
  Proof. unfold start_fresh. cn using first [apply cn_attach_server | apply cn_reset_class_change | apply cn_set_next_end | apply cn_tnow]. Qed.
  Lemma cn_start_give j i sid : calmN (start_give cf j i sid).
  Proof.
    unfold start_give.
    cn using first [apply cn_attach_server | apply cn_give_individual_a_service_time | apply cn_stime_num | apply cn_reset_class_change | apply cn_set_next_end | apply cn_tnow].
  Qed.
  Lemma cn_start_preemptor j i sid : calmN (start_preemptor cf j i sid).
  Proof.
    unfold start_preemptor.
    cn using first [apply cn_attach_server | apply cn_give_individual_a_service_time | apply cn_stime_num | apply cn_reset_class_change | apply cn_set_next_end | apply cn_tnow].
  Qed.
  (* with NoInt nobody is waiting to be resumed: begin_interrupted_individuals_service (which clears a blocked flag, F-02b) is not reached *)
  Lemma cn_serve_with j sid : calmN (serve_with cf j sid).
  Proof.
    unfold serve_with. apply cn_get_node_bind. intros nd Hn.
    destruct (0 <? n_nint nd) eqn:E; [apply Z.ltb_lt in E; lia|].
    cn using first [apply cn_choose_next_customer | apply cn_start_give].
  Qed.
  Lemma cn_begin_service_if_possible_release j freed : calmN (begin_service_if_possible_release cf j freed).
  Proof. unfold begin_service_if_possible_release. cn using (apply cn_serve_with). Qed.
  Lemma cn_get_reneging_date j i : calmN (get_reneging_date cf j i).
  Proof. unfold get_reneging_date. cn using first [apply cn_ncfg_of | apply cn_tnow]. Qed.
  Lemma cn_preempt_victim j i : calmN (preempt_victim cf j i).
  Proof. unfold preempt_victim. cn using (apply cn_ncfg_of). Qed.
  Lemma cn_decide_between l : calmN (decide_between l).
  Proof. unfold decide_between. destruct l as [|a [|b r]]; [apply cn_fail|apply cn_ret|apply cn_choice_uniform]. Qed.
  Lemma cn_has_space d : calmN (has_space cf d). Proof. unfold has_space. cn using (apply cn_ncfg_of). Qed.
  Lemma cn_keyed l : calmN (keyed l). Proof. unfold keyed. cn0. Qed.
  Lemma cn_sort_interrupted_individuals j : calmN (sort_interrupted_individuals j).
  Proof. unfold sort_interrupted_individuals. cn using (apply cn_keyed). Qed.
  Lemma cn_add_new_servers k j : calmN (add_new_servers k j).
  Proof. induction k as [|k IH]; cbn [add_new_servers]; [apply cn_ret|]. cn using first [apply IH | apply cn_tnow]. Qed.
  Lemma cn_begin_service_if_possible_change_shift j : calmN (begin_service_if_possible_change_shift cf j).
  Proof. unfold begin_service_if_possible_change_shift. cn using (apply cn_serve_with). Qed.
  Lemma cn_slot_loop k j : calmN (slot_loop cf k j).
  Proof.
    induction k as [|k IH]; cbn [slot_loop]; [apply cn_ret|].
    cn using first [apply IH | apply cn_choose_next_customer | apply cn_give_individual_a_service_time | apply cn_stime_num | apply cn_reset_class_change | apply cn_tnow].
  Qed.
  Lemma cn_update_next_event_date j : calmN (update_next_event_date cf j).
  Proof. unfold update_next_event_date. cn using first [apply cn_ncfg_of | apply cn_tnow]. Qed.
  Lemma cn_update_all js : calmN (update_all cf js).
  Proof. induction js as [|j r IH]; cbn [update_all]; [apply cn_ret|]. cn using first [apply IH | apply cn_update_next_event_date]. Qed.
  Lemma cn_find_next_event_date : calmN find_next_event_date.
  Proof. apply cn_modify. intros s. destruct (find_min_dates 1 (a_dates (arr s)) (None, 0, 0)) as [[d j] c]. split; reflexivity. Qed.
  Lemma cn_sys_population : calmN sys_population. Proof. unfold sys_population. cn0. Qed.
  Lemma cn_route_of i c : calmN (route_of cf i c). Proof. unfold route_of. cn0. Qed.
  Lemma cn_find_next_active_node : calmN find_next_active_node.
  Proof. unfold find_next_active_node. cn using (apply cn_choice_uniform). Qed.
End CalmWalk2.

Ltac cn_lem :=
  first [ apply cn_ncfg_of | apply cn_tnow | apply cn_log_rec | apply cn_choice_uniform | apply cn_choice_weighted | apply cn_choose_next_customer
        | apply cn_upd_server | apply cn_find_next_class_change | apply cn_cct_loop | apply cn_decide_class_change
        | apply cn_reset_class_change | apply cn_stime_num | apply cn_give_service_time_after_preemption
        | apply cn_give_individual_a_service_time | apply cn_attach_server | apply cn_set_next_end | apply cn_kill_server
        | apply cn_detatch_server | apply cn_bump_rec | apply cn_write_individual_record | apply cn_write_interruption_record
        | apply cn_write_reneging_record | apply cn_write_br_record | apply cn_reset_individual_attributes | apply cn_valid_dest
        | apply cn_jsq_loop | apply cn_jsq_next | apply cn_get_cyc | apply cn_bump_cyc | apply cn_node_router_next
        | apply cn_next_node_for | apply cn_start_fresh | apply cn_start_give | apply cn_start_preemptor
        | apply cn_serve_with | apply cn_begin_service_if_possible_release | apply cn_get_reneging_date
        | apply cn_preempt_victim | apply cn_decide_between | apply cn_has_space | apply cn_keyed
        | apply cn_sort_interrupted_individuals | apply cn_add_new_servers | apply cn_begin_service_if_possible_change_shift
        | apply cn_slot_loop | apply cn_update_next_event_date | apply cn_update_all | apply cn_find_next_event_date
        | apply cn_sys_population | apply cn_route_of | apply cn_find_next_active_node ].
Ltac cna := cn using cn_lem.
(* ---------- the measures: customers of node j whose blocked flag satisfies p ---------- *)
Definition cntb (p : Z -> bool) (s : sim) (j : Z) : Z :=
  match nthZ (nsh s) (j - 1) with Some t => zlen (filter (fun i => pz p (pcl s i)) (qof t)) | None => 0 end.
Definition cdb (p : Z -> bool) (c : call) : Z :=
  match c with Acc _ c0 => bz (p c0) | Blk _ _ _ _ => 0 | Rel _ _ _ pc _ => - bz (p pc) | Chg _ pc c0 => bz (p c0) - bz (p pc) end.
Definition catb (p : Z -> bool) (j : Z) (c : call) : Z := if cnode c =? j then cdb p c else 0.
Definition netb (p : Z -> bool) (j : Z) (cs : list call) : Z := zsum (map (catb p j) cs).
Lemma netb_app p j a b : netb p j (a ++ b) = netb p j a + netb p j b.
Proof. unfold netb. rewrite map_app. apply zsum_app. Qed.
(* a step that changes neither the shape nor the flags changes no count *)
Lemma cntb_frame p s s' : nsh s' = nsh s -> (forall i, pcl s' i = pcl s i) -> forall j, cntb p s' j = cntb p s j.
Proof. intros E B j. unfold cntb. rewrite E. destruct (nthZ (nsh s) (j - 1)); [|reflexivity]. unfold zlen. do 2 f_equal. apply filter_ext. intros i. rewrite B. reflexivity. Qed.
(* flags of customers that are in no queue do not count *)
Lemma cntb_flags p s s' : nsh s' = nsh s -> (forall i k t, nth_error (nsh s) k = Some t -> In i (qof t) -> pcl s' i = pcl s i) -> forall j, cntb p s' j = cntb p s j.
Proof.
  intros E B j. unfold cntb. rewrite E. destruct (nthZ (nsh s) (j - 1)) as [t|] eqn:Et; [|reflexivity]. unfold zlen. do 2 f_equal.
  destruct (nthZ_nat _ _ _ Et) as (k & _ & Hk). apply filter_ext_in. intros i Hi. rewrite (B i k t Hk Hi). reflexivity.
Qed.
(* a node is written back: only its count changes *)
Lemma cntb_put_node p s nd nd0 : okn (shp s) nd0 -> n_id nd = n_id nd0 ->
  forall j, cntb p (s <| nodes := updZ (nodes s) (n_id nd - 1) nd |>) j =
            if j =? n_id nd0 then zlen (filter (fun i => pz p (pcl s i)) (concat (n_queues nd))) else cntb p s j.
Proof.
  intros Hok Hid j. unfold cntb.
  assert (E : nsh (s <| nodes := updZ (nodes s) (n_id nd - 1) nd |>) = updZ (nsh s) (n_id nd - 1) (nshape nd)) by (unfold nsh; cbn; apply tk_updZ_map).
  rewrite E, Hid. unfold okn in Hok. cbn [shp sh_ns] in Hok. fold (nsh s) in Hok.
  destruct (j =? n_id nd0) eqn:Ej.
  - apply Z.eqb_eq in Ej. rewrite Ej, (tk_nthZ_updZ_eq _ _ _ _ Hok). reflexivity.
  - apply Z.eqb_neq in Ej. rewrite tk_nthZ_updZ_neq by lia. reflexivity.
Qed.
(* ---------- the Hoare logic over W for these measures ---------- *)
Definition Lok (L : list (Z * Z)) (s : sim) : Prop := forall i b, In (i, b) L -> pcl s i = Some b.
Definition hoB (p : Z -> bool) (K : shape -> Prop) (L : list (Z * Z)) (fl fl' : list Z) (dl : Z -> Z) {X} (m : W X) : Prop :=
  forall s a s' cs, K (shp s) -> Lok L s -> WFx2 fl s -> NoInt s -> m s = Ok (a, s', cs) ->
    WFx2 fl' s' /\ NoInt s' /\ forall j, cntb p s' j - netb p j cs = cntb p s j + dl j.

Section BLogic.
  Variable p : Z -> bool.
  Lemma B_ext K L fl fl' dl dl' {X} (m : W X) : hoB p K L fl fl' dl m -> (forall j, dl' j = dl j) -> hoB p K L fl fl' dl' m.
  Proof. intros H E s a s' cs HK HL HW HN Hm. destruct (H _ _ _ _ HK HL HW HN Hm) as (A & B & D). split; [auto|split; [auto|]]. intros j. rewrite E. apply D. Qed.
  Lemma B_weak (K : shape -> Prop) L fl fl' dl {X} (m : W X) : hoB p KT [] fl fl' dl m -> hoB p K L fl fl' dl m.
  Proof. intros H s a s' cs _ _ HW HN Hm. eapply H; [exact I| |exact HW|exact HN|exact Hm]. intros i b []. Qed.
  Lemma B_wret K L fl {X} (a : X) : hoB p K L fl fl z0 (wret a).
  Proof. intros s a0 s' cs _ _ HW HN H. unfold wret in H. injection H as <- <- <-. split; [auto|split; [auto|]]. intros j. unfold netb, z0. cbn. lia. Qed.
  Lemma B_up K L fl {X} (m : M X) : presK K m -> calmN m -> hoB p K L fl fl z0 (up m).
  Proof.
    intros Hp Hc s a s' cs HK _ HW HN H. unfold up in H. destruct (m s) as [[a1 s1]| |] eqn:E; try discriminate. injection H as <- <- <-.
    pose proof (Hp _ _ _ (WFx2_idx _ _ HW) HK E) as E1. destruct (Hc _ _ _ HN E) as [N1 B1].
    split; [eapply WFx2_shape; eauto|]. split; [exact N1|]. intros j. rewrite (cntb_frame p s s1 (f_equal sh_ns E1) B1). unfold netb, z0. cbn. lia.
  Qed.
  Lemma B_bind_pres K L fl fl' dl {X Y} (m : M X) (f : X -> W Y) : presK K m -> calmN m -> (forall a, hoB p K L fl fl' dl (f a)) ->
    hoB p K L fl fl' dl (wbind (up m) f).
  Proof.
    intros Hp Hc Hf s b s' cs HK HL HW HN H. unfold wbind, up in H. destruct (m s) as [[a s1]| |] eqn:E; try discriminate.
    destruct (f a s1) as [[[b1 s2] c2]| |] eqn:E2; try discriminate. injection H as <- <- <-. cbn [app].
    pose proof (Hp _ _ _ (WFx2_idx _ _ HW) HK E) as E1. destruct (Hc _ _ _ HN E) as [N1 B1].
    assert (HK1 : K (shp s1)) by (rewrite E1; exact HK).
    assert (HL1 : Lok L s1) by (intros i b0 Hi; rewrite B1; apply HL; exact Hi).
    destruct (Hf a _ _ _ _ HK1 HL1 (WFx2_shape _ _ _ E1 HW) N1 E2) as (A & B & D). split; [exact A|split; [exact B|]].
    intros j. rewrite (D j). rewrite (cntb_frame p s s1 (f_equal sh_ns E1) B1). reflexivity.
  Qed.
  Lemma B_bind K L fl1 fl2 fl3 d1 d2 {X Y} (m : W X) (f : X -> W Y) :
    hoB p K L fl1 fl2 d1 m -> (forall a, hoB p KT [] fl2 fl3 d2 (f a)) -> hoB p K L fl1 fl3 (fun j => d1 j + d2 j) (wbind m f).
  Proof.
    intros Hm Hf s b s' cs HK HL HW HN H. unfold wbind in H. destruct (m s) as [[[a s1] c1]| |] eqn:E; try discriminate.
    destruct (f a s1) as [[[b1 s2] c2]| |] eqn:E2; try discriminate. injection H as <- <- <-.
    destruct (Hm _ _ _ _ HK HL HW HN E) as (A1 & B1 & D1).
    destruct (Hf a _ _ _ _ I (fun i b0 (H0 : In (i, b0) []) => match H0 with end) A1 B1 E2) as (A2 & B2 & D2).
    split; [exact A2|split; [exact B2|]]. intros j. rewrite netb_app. specialize (D1 j). specialize (D2 j). lia.
  Qed.
  Lemma B_bind_z K L fl1 fl2 fl3 dl {X Y} (m : W X) (f : X -> W Y) :
    hoB p K L fl1 fl2 z0 m -> (forall a, hoB p KT [] fl2 fl3 dl (f a)) -> hoB p K L fl1 fl3 dl (wbind m f).
  Proof. intros Hm Hf. eapply B_ext; [eapply B_bind; eauto|]. intros j. unfold z0. lia. Qed.
  Lemma B_get_node_bind K L fl fl' dl {Y} j (f : node -> W Y) :
    (forall nd, n_id nd = j -> n_nint nd <= 0 -> hoB p (fun sh => K sh /\ okn sh nd) L fl fl' dl (f nd)) -> hoB p K L fl fl' dl (wbind (up (get_node j)) f).
  Proof.
    intros Hf s b s' cs HK HL HW HN H. unfold wbind, up in H. destruct (get_node j s) as [[nd s1]| |] eqn:E; try discriminate.
    apply get_node_spec in E as (-> & Hj & Hnd).
    destruct (f nd s) as [[[b1 s2] c2]| |] eqn:E2; try discriminate. injection H as <- <- <-. cbn [app].
    destruct (get_node_okn j s nd (WFx2_idx _ _ HW) Hnd) as [Hid Hok].
    exact (Hf nd Hid (NoInt_nth _ _ _ HN Hnd) _ _ _ _ (conj HK Hok) HL HW HN E2).
  Qed.
  Lemma B_get_ind_bind K L fl fl' dl {Y} i (f : ind -> W Y) :
    (forall x, i_id x = i -> hoB p (fun sh => K sh /\ oki sh x) ((i, i_pcls x) :: L) fl fl' dl (f x)) -> hoB p K L fl fl' dl (wbind (up (get_ind i)) f).
  Proof.
    intros Hf s b s' cs HK HL HW HN H. unfold wbind, up in H. destruct (get_ind i s) as [[x s1]| |] eqn:E; try discriminate.
    assert (Hb : pcl s i = Some (i_pcls x)).
    { unfold get_ind in E. unfold pcl. destruct (find_ind i (inds s)); inversion E. reflexivity. }
    apply get_ind_spec in E as (-> & Hi & Hx).
    destruct (f x s) as [[[b1 s2] c2]| |] eqn:E2; try discriminate. injection H as <- <- <-. cbn [app].
    eapply (Hf x Hi); [exact (conj HK Hx)| |exact HW|exact HN|exact E2]. intros i0 b0 [Hq|Hq]; [injection Hq as <- <-; exact Hb|apply HL; exact Hq].
  Qed.
  Lemma B_lift_bind K L fl fl' dl {X Y} e (o : option X) (f : X -> W Y) :
    (forall a, o = Some a -> hoB p K L fl fl' dl (f a)) -> hoB p K L fl fl' dl (wbind (up (lift e o)) f).
  Proof.
    intros Hf s b s' cs HK HL HW HN H. destruct o as [a|]; [|discriminate]. unfold wbind, up in H. cbn in H.
    destruct (f a s) as [[[b1 s2] c2]| |] eqn:E2; try discriminate. injection H as <- <- <-. cbn [app]. exact (Hf a eq_refl _ _ _ _ HK HL HW HN E2).
  Qed.
  Lemma B_emit_bind K L fl fl' d2 {Y} c (f : W Y) : hoB p K L fl fl' d2 f -> hoB p K L fl fl' (fun j => d2 j - catb p j c) (wbind (emit c) (fun _ => f)).
  Proof.
    intros Hf s b s' cs HK HL HW HN H. unfold wbind, emit in H.
    destruct (f s) as [[[b1 s2] c2]| |] eqn:E2; try discriminate. injection H as <- <- <-.
    destruct (Hf _ _ _ _ HK HL HW HN E2) as (A & B & D). split; [exact A|split; [exact B|]].
    intros j. specialize (D j). unfold netb in *. cbn [app map]. change (zsum (catb p j c :: map (catb p j) c2)) with (catb p j c + zsum (map (catb p j) c2)). lia.
  Qed.
  Lemma B_bind_emit K L fl fl' d1 c (m : W unit) : hoB p K L fl fl' d1 m -> hoB p K L fl fl' (fun j => d1 j - catb p j c) (wbind m (fun _ => emit c)).
  Proof.
    intros Hm s b s' cs HK HL HW HN H. unfold wbind, emit in H.
    destruct (m s) as [[[a s1] c1]| |] eqn:E; try discriminate. injection H as <- <- <-.
    destruct (Hm _ _ _ _ HK HL HW HN E) as (A & B & D). split; [exact A|split; [exact B|]].
    intros j. specialize (D j). rewrite netb_app. unfold netb at 2. cbn [map]. change (zsum [catb p j c]) with (catb p j c + 0). lia.
  Qed.
End BLogic.
Section BMoves.
  Variable p : Z -> bool.
  (* customer i (flag b) is taken out of a queue of node j *)
  Lemma B_put_rm (K : shape -> Prop) L fl i b nd j :
    n_id nd = j -> n_nint nd <= 0 -> In (i, b) L ->
    (forall sh, K sh -> exists nd0 p0 q q', okn sh nd0 /\ nthZ (n_queues nd0) p0 = Some q /\ remove_first i q = Some q' /\
                        n_id nd = n_id nd0 /\ n_pop nd = n_pop nd0 - 1 /\ n_queues nd = updZ (n_queues nd0) p0 q') ->
    hoB p K L fl (i :: fl) (fun j0 => if j0 =? j then - bz (p b) else 0) (up (put_node nd)).
  Proof.
    intros Hj Hn Hib HS s a s' cs HK HL HW HN H.
    destruct (HS _ HK) as (nd0 & p0 & q & q' & Hok & Hq & Hr & Hid & Hpop & Hqs).
    assert (E : put_node nd s = Ok (tt, s <| nodes := updZ (nodes s) (n_id nd - 1) nd |>)) by reflexivity.
    destruct (trK_put_node_rm K fl i nd HS s tt _ HK HW E) as [W1 _].
    unfold up in H. rewrite E in H. injection H as <- <- <-.
    split; [exact W1|]. split; [apply NoInt_put; assumption|].
    intros j0. rewrite (cntb_put_node p s nd nd0 Hok Hid). unfold netb. cbn [map zsum fold_right]. rewrite <- Hj, Hid.
    destruct (j0 =? n_id nd0) eqn:Ej; [|lia]. apply Z.eqb_eq in Ej. rewrite Ej.
    unfold cntb. unfold okn in Hok. cbn [shp sh_ns] in Hok. fold (nsh s) in Hok. rewrite Hok. unfold qof, nshape. cbn [snd].
    assert (P : Permutation (concat (n_queues nd0)) (i :: concat (n_queues nd))).
    { rewrite Hqs. destruct (nthZ_nat _ _ _ Hq) as (kp & -> & Hqk). rewrite updZ_nat. symmetry.
      eapply concat_upd_rm; [exact Hqk|]. apply remove_first_perm. exact Hr. }
    unfold zlen at 2. rewrite (tk_filter_len_perm _ _ _ P). fold (zlen (filter (fun i0 : Z => pz p (pcl s i0)) (i :: concat (n_queues nd)))).
    rewrite zlen_filter_cons, (HL i b Hib). cbn [pz]. lia.
  Qed.
  (* customer i (flag b), in flight, is appended to a queue of node j *)
  Lemma B_put_add (K : shape -> Prop) L fl i b nd j :
    n_id nd = j -> n_nint nd <= 0 -> In (i, b) L ->
    (forall sh, K sh -> exists nd0 p0 q, okn sh nd0 /\ nthZ (n_queues nd0) p0 = Some q /\
                        n_id nd = n_id nd0 /\ n_pop nd = n_pop nd0 + 1 /\ n_queues nd = updZ (n_queues nd0) p0 (q ++ [i])) ->
    hoB p K L (i :: fl) fl (fun j0 => if j0 =? j then bz (p b) else 0) (up (put_node nd)).
  Proof.
    intros Hj Hn Hib HS s a s' cs HK HL HW HN H.
    destruct (HS _ HK) as (nd0 & p0 & q & Hok & Hq & Hid & Hpop & Hqs).
    assert (E : put_node nd s = Ok (tt, s <| nodes := updZ (nodes s) (n_id nd - 1) nd |>)) by reflexivity.
    destruct (trK_put_node_add K fl i nd HS s tt _ HK HW E) as [W1 _].
    unfold up in H. rewrite E in H. injection H as <- <- <-.
    split; [exact W1|]. split; [apply NoInt_put; assumption|].
    intros j0. rewrite (cntb_put_node p s nd nd0 Hok Hid). unfold netb. cbn [map zsum fold_right]. rewrite <- Hj, Hid.
    destruct (j0 =? n_id nd0) eqn:Ej; [|lia]. apply Z.eqb_eq in Ej. rewrite Ej.
    unfold cntb. unfold okn in Hok. cbn [shp sh_ns] in Hok. fold (nsh s) in Hok. rewrite Hok. unfold qof, nshape. cbn [snd].
    assert (P : Permutation (concat (n_queues nd)) (i :: concat (n_queues nd0))).
    { rewrite Hqs. destruct (nthZ_nat _ _ _ Hq) as (kp & -> & Hqk). rewrite updZ_nat.
      eapply concat_upd_add; [exact Hqk|]. rewrite Permutation_app_comm. reflexivity. }
    unfold zlen at 1. rewrite (tk_filter_len_perm _ _ _ P). fold (zlen (filter (fun i0 : Z => pz p (pcl s i0)) (i :: concat (n_queues nd0)))).
    rewrite zlen_filter_cons, (HL i b Hib). cbn [pz]. lia.
  Qed.
  (* the queues of a node are rearranged *)
  Lemma B_put_mv (K : shape -> Prop) L fl nd :
    n_nint nd <= 0 ->
    (forall sh, K sh -> exists nd0, okn sh nd0 /\ n_id nd = n_id nd0 /\ n_pop nd = n_pop nd0 /\
                        Permutation (concat (n_queues nd)) (concat (n_queues nd0))) ->
    hoB p K L fl fl z0 (up (put_node nd)).
  Proof.
    intros Hn HS s a s' cs HK HL HW HN H.
    destruct (HS _ HK) as (nd0 & Hok & Hid & Hpop & P).
    assert (E : put_node nd s = Ok (tt, s <| nodes := updZ (nodes s) (n_id nd - 1) nd |>)) by reflexivity.
    destruct (trK_put_node_mv K fl nd HS s tt _ HK HW E) as [W1 _].
    unfold up in H. rewrite E in H. injection H as <- <- <-.
    split; [exact W1|]. split; [apply NoInt_put; assumption|].
    intros j0. rewrite (cntb_put_node p s nd nd0 Hok Hid). unfold netb, z0. cbn [map zsum fold_right].
    destruct (j0 =? n_id nd0) eqn:Ej; [|lia]. apply Z.eqb_eq in Ej. rewrite Ej.
    unfold cntb. unfold okn in Hok. cbn [shp sh_ns] in Hok. fold (nsh s) in Hok. rewrite Hok. unfold qof, nshape. cbn [snd].
    unfold zlen. rewrite (tk_filter_len_perm _ _ _ P). lia.
  Qed.
  (* the record of a customer in flight is rewritten *)
  Lemma B_put_ind_fl_bind (K : shape -> Prop) L fl fl' dl {Y} x (f : W Y) :
    In (i_id x) fl -> hoB p K [(i_id x, i_pcls x)] fl fl' dl f -> hoB p K L fl fl' dl (wbind (up (put_ind x)) (fun _ => f)).
  Proof.
    intros Hi Hf s b s' cs HK HL HW HN H. unfold wbind, up, put_ind, modify in H.
    set (s1 := s <| inds := put_ind_l x (inds s) |>) in *.
    destruct (f s1) as [[[b1 s2] c2]| |] eqn:E2; try discriminate. injection H as <- <- <-. cbn [app].
    assert (Es : shp s1 = shp s).
    { unfold shp, s1. cbn. f_equal. apply put_ind_l_ids_in. apply (WFx2_fl_in _ _ _ HW Hi). }
    assert (Hbl : forall i, pcl s1 i = if i_id x =? i then Some (i_pcls x) else pcl s i).
    { intros i. unfold pcl, s1. cbn. rewrite find_put_l. destruct (i_id x =? i); reflexivity. }
    assert (HL1 : Lok [(i_id x, i_pcls x)] s1).
    { intros i0 b0 [Hq|[]]. injection Hq as <- <-. rewrite Hbl, Z.eqb_refl. reflexivity. }
    assert (HK1 : K (shp s1)) by (rewrite Es; exact HK).
    destruct (Hf _ _ _ _ HK1 HL1 (WFx2_shape _ _ _ Es HW) HN E2) as (A & B & D). split; [exact A|split; [exact B|]].
    intros j. rewrite (D j). f_equal. apply (cntb_flags p s s1 (f_equal sh_ns Es)).
    intros i k t Hk Hin. rewrite Hbl. destruct (Z.eqb_spec (i_id x) i) as [<-|]; [|reflexivity].
    exfalso. exact (WFx2_fl_notin _ _ _ _ _ HW Hi Hk Hin).
  Qed.
  (* the blocked flag of a customer waiting in node j is rewritten *)
  Lemma B_put_ind_q_bind (K : shape -> Prop) L fl fl' d2 {Y} x b0 j (f : W Y) :
    In (i_id x, b0) L ->
    (forall sh, K sh -> oki sh x /\ exists t, nthZ (sh_ns sh) (j - 1) = Some t /\ In (i_id x) (qof t)) ->
    hoB p K [(i_id x, i_pcls x)] fl fl' d2 f ->
    hoB p K L fl fl' (fun j0 => d2 j0 + (if j0 =? j then bz (p (i_pcls x)) - bz (p b0) else 0)) (wbind (up (put_ind x)) (fun _ => f)).
  Proof.
    intros Hib HS Hf s b s' cs HK HL HW HN H. unfold wbind, up, put_ind, modify in H.
    set (s1 := s <| inds := put_ind_l x (inds s) |>) in *.
    destruct (f s1) as [[[b1 s2] c2]| |] eqn:E2; try discriminate. injection H as <- <- <-. cbn [app].
    destruct (HS _ HK) as (Hoki & t & Ht & Hin).
    assert (Es : shp s1 = shp s) by (unfold shp, s1; cbn; f_equal; apply put_ind_l_ids_in; exact Hoki).
    assert (Hbl : forall i, pcl s1 i = if i_id x =? i then Some (i_pcls x) else pcl s i).
    { intros i. unfold pcl, s1. cbn. rewrite find_put_l. destruct (i_id x =? i); reflexivity. }
    assert (HL1 : Lok [(i_id x, i_pcls x)] s1).
    { intros i0 b1' [Hq|[]]. injection Hq as <- <-. rewrite Hbl, Z.eqb_refl. reflexivity. }
    assert (HK1 : K (shp s1)) by (rewrite Es; exact HK).
    destruct (Hf _ _ _ _ HK1 HL1 (WFx2_shape _ _ _ Es HW) HN E2) as (A & B & D). split; [exact A|split; [exact B|]].
    intros j0. rewrite (D j0).
    assert (C : cntb p s1 j0 = cntb p s j0 + (if j0 =? j then bz (p (i_pcls x)) - bz (p b0) else 0)); [|lia].
    pose proof (WFx2_nodup _ _ HW) as Hnd. apply NoDup_app_left in Hnd.
    cbn [shp sh_ns] in Ht. fold (nsh s) in Ht. destruct (nthZ_nat _ _ _ Ht) as (k & Hk & Hkt).
    unfold cntb. rewrite (f_equal sh_ns Es : nsh s1 = nsh s).
    destruct (j0 =? j) eqn:Ej.
    - apply Z.eqb_eq in Ej. rewrite Ej, Ht.
      rewrite (tk_filter_change (fun i => pz p (pcl s i)) (fun i => pz p (pcl s1 i)) (qof t) (i_id x)).
      + rewrite Hbl, Z.eqb_refl, (HL _ _ Hib). cbn [pz]. reflexivity.
      + eapply (tk_NoDup_concat_nth (map qof (nsh s)) k); [exact Hnd|]. rewrite nth_error_map, Hkt. reflexivity.
      + exact Hin.
      + intros i' Hne. rewrite Hbl. destruct (Z.eqb_spec (i_id x) i'); [congruence|reflexivity].
    - apply Z.eqb_neq in Ej. destruct (nthZ (nsh s) (j0 - 1)) as [t0|] eqn:Et0; [|lia].
      destruct (nthZ_nat _ _ _ Et0) as (k0 & Hk0 & Hkt0).
      assert (E : filter (fun i => pz p (pcl s1 i)) (qof t0) = filter (fun i => pz p (pcl s i)) (qof t0)); [|rewrite E; lia].
      apply filter_ext_in. intros i' Hi'. rewrite Hbl. destruct (Z.eqb_spec (i_id x) i') as [<-|]; [|reflexivity]. exfalso.
      apply (tk_NoDup_concat_disj (map qof (nsh s)) k k0 (qof t) (qof t0) (i_id x) Hnd); try assumption.
      + rewrite nth_error_map, Hkt. reflexivity.
      + rewrite nth_error_map, Hkt0. reflexivity.
      + lia.
  Qed.
  (* the customer in flight reaches the exit *)
  Lemma B_exit_accept (K : shape -> Prop) L fl i c : hoB p K L (i :: fl) fl z0 (up (exit_accept i c)).
  Proof.
    intros s a s' cs HK HL HW HN H. unfold up in H. destruct (exit_accept i c s) as [[a1 s1]| |] eqn:E; try discriminate. injection H as <- <- <-.
    destruct (tr_exit_accept i c fl s a1 s1 I HW E) as [W1 _]. unfold exit_accept, bind, del_ind, modify in E. injection E as <- <-.
    split; [exact W1|]. split; [exact HN|].
    intros j. unfold netb, z0. cbn [map zsum fold_right].
    match goal with |- cntb p ?st j - 0 = _ => rewrite (cntb_flags p s st eq_refl) end; [lia|].
    intros i' k t Hk Hin. unfold pcl. cbn. rewrite find_del_l; [reflexivity|]. intros ->.
    exact (WFx2_fl_notin _ _ _ _ _ HW (or_introl eq_refl) Hk Hin).
  Qed.
End BMoves.

Section BLogic2.
  Variable p : Z -> bool.
  (* a frame step that writes back the record of a customer whose flag is remembered in L *)
  Lemma B_bind_presB K L fl fl' dl {X Y} i0 b0 (m : M X) (f : X -> W Y) : presK K m -> In (i0, b0) L -> calmB i0 b0 m ->
    (forall a, hoB p K L fl fl' dl (f a)) -> hoB p K L fl fl' dl (wbind (up m) f).
  Proof.
    intros Hp Hin Hc Hf s b s' cs HK HL HW HN H. unfold wbind, up in H. destruct (m s) as [[a s1]| |] eqn:E; try discriminate.
    destruct (f a s1) as [[[b1 s2] c2]| |] eqn:E2; try discriminate. injection H as <- <- <-. cbn [app].
    pose proof (Hp _ _ _ (WFx2_idx _ _ HW) HK E) as E1. destruct (Hc _ _ _ (HL _ _ Hin) HN E) as [N1 B1].
    assert (HK1 : K (shp s1)) by (rewrite E1; exact HK).
    assert (HL1 : Lok L s1) by (intros i b' Hi; rewrite B1; apply HL; exact Hi).
    destruct (Hf a _ _ _ _ HK1 HL1 (WFx2_shape _ _ _ E1 HW) N1 E2) as (A & B & D). split; [exact A|split; [exact B|]].
    intros j. rewrite (D j). rewrite (cntb_frame p s s1 (f_equal sh_ns E1) B1). reflexivity.
  Qed.
  Lemma B_oof K L fl fl' dl {X} : hoB p K L fl fl' dl (up (@oof X)).
  Proof. intros s a s' cs _ _ _ _ H. discriminate. Qed.
End BLogic2.

Ltac hb_struct :=
  match goal with
  | |- hoB _ _ _ _ _ _ (wbind (up (get_node _)) _) => apply B_get_node_bind; intros ? ? ?
  | |- hoB _ _ _ _ _ _ (wbind (up (get_ind _)) _) => apply B_get_ind_bind; intros ? ?
  | |- hoB _ _ _ _ _ _ (wbind (up (lift _ _)) _) => apply B_lift_bind; intros ? ?
  | |- hoB _ _ _ _ _ _ (wbind (up _) _) =>
      first [ (apply B_bind_pres; [solve [pka]|solve [cna]|intros ?])
            | (eapply B_bind_presB; [solve [pka]|left; reflexivity|solve [cna]|intros ?]) ]
  | |- hoB _ _ _ _ _ _ (if ?b then _ else _) => destruct b
  | |- hoB _ _ _ _ _ _ (match ?x with _ => _ end) => destruct x
  | |- hoB _ _ _ _ _ _ (up _) => apply B_up; [solve [pka]|solve [cna]]
  | |- hoB _ _ _ _ _ _ (wret _) => apply B_wret
  end.
Tactic Notation "hb" "using" tactic(t) :=
  repeat first [ progress cbv zeta | (apply B_weak; t) | t | hb_struct | (eapply B_bind_z; [|intros ?]) ].

(* ====================================================================================================================
   5c. Every instrumented engine function: the emitted calls account exactly for the change of every count of blocked / unblocked
   ==================================================================================================================== *)
Section BWalk.
  Variable cf : config.
  Variable p : Z -> bool.
  Notation B0 fl fl' m := (hoB p KT [] fl fl' z0 m).

  Lemma hb_core : forall f,
    (forall j i d rr fl, B0 fl fl (releaseW cf f j i d rr)) /\
    (forall j fl, B0 fl fl (release_blocked_individualW cf f j)) /\
    (forall j i fl, B0 (i :: fl) fl (acceptW cf f j i)) /\
    (forall j v i fl, B0 fl fl (preemptW cf f j v i)).
  Proof.
    induction f as [|f (IHr & IHb & IHa & IHp)].
    - split; [|split; [|split]]; intros; simpl; apply B_oof.
    - split; [|split; [|split]].
      + intros j i d rr fl. simpl releaseW.
        apply B_bind_pres; [solve [pka]|solve [cna]|intros t].
        apply B_get_ind_bind; intros x Hx.
        apply B_get_node_bind; intros nd Hid Hn.
        apply B_bind_pres; [solve [pka]|solve [cna]|intros nc].
        apply B_lift_bind; intros q Hq. apply B_lift_bind; intros q' Hq'.
        cbv zeta.
        eapply B_ext; [eapply B_bind; [apply B_put_rm with (i := i) (b := i_pcls x) (j := j); [exact Hid|cbn; lia|left; reflexivity|]|intros _]|].
        * intros sh ((_ & _) & Hok). exists nd, (i_pprio x), q, q'. repeat split; assumption || reflexivity.
        * apply B_put_ind_fl_bind; [left; symmetry; exact Hx|].
          do 4 hb_struct.
          eapply B_emit_bind.
          hb using first [apply B_exit_accept | apply IHa | apply IHb].
        * intros j0. unfold catb, z0, cnode, cdb. rewrite (Z.eqb_sym j j0). destruct (j0 =? j); lia.
      + intros j fl. simpl release_blocked_individualW. hb using (apply IHr).
      + intros j i fl. simpl acceptW.
        apply B_get_ind_bind; intros x Hx.
        apply B_get_node_bind; intros nd Hid Hn.
        eapply B_ext; [eapply B_bind_emit|].
        * apply B_put_ind_fl_bind; [left; symmetry; exact Hx|].
          apply B_lift_bind; intros qs Hqs.
          eapply B_bind; [apply B_put_add with (i := i) (b := i_cls x) (j := j); [exact Hid|cbn; lia|left; f_equal; exact Hx|]|intros _].
          -- intros sh ((_ & _) & Hok). destruct (nthZ (n_queues nd) (i_prio x)) as [q|] eqn:Eq; [|discriminate].
             injection Hqs as <-. exists nd, (i_prio x), q. repeat split; assumption || reflexivity.
          -- hb using (apply IHp).
        * intros j0. unfold catb, z0, cnode, cdb. rewrite (Z.eqb_sym j j0). destruct (j0 =? j); lia.
      + intros j v i fl. simpl preemptW. hb using (apply IHr).
  Qed.
End BWalk.
Lemma hoB_eq p K L fl fl' dl {X} (m m' : W X) : (forall s, m s = m' s) -> hoB p K L fl fl' dl m -> hoB p K L fl fl' dl m'.
Proof. intros E H s a s' cs HK HL HW HN Hm. rewrite <- E in Hm. eapply H; eauto. Qed.
Section BWalk2.
  Variable cf : config.
  Variable p : Z -> bool.
  Hypothesis Hscope : scope_int cf = true.
  Notation B0 fl fl' m := (hoB p KT [] fl fl' z0 m).

  Lemma hb_release f j i d rr fl : B0 fl fl (releaseW cf f j i d rr). Proof. apply hb_core. Qed.
  Lemma hb_rbi f j fl : B0 fl fl (release_blocked_individualW cf f j). Proof. apply hb_core. Qed.
  Lemma hb_accept f j i fl : B0 (i :: fl) fl (acceptW cf f j i). Proof. apply hb_core. Qed.
  Lemma hb_preempt f j v i fl : B0 fl fl (preemptW cf f j v i). Proof. apply hb_core. Qed.

  Lemma B_forMW K L fl {X} (l : list X) (f : X -> W unit) : (forall a, B0 fl fl (f a)) -> hoB p K L fl fl z0 (forMW l f).
  Proof. intros Hf. apply B_weak. induction l as [|a r IH]; cbn [forMW]; [apply B_wret|]. eapply B_bind_z; [apply Hf|intros _; exact IH]. Qed.

  (* finish_service after change_customer_class *)
  Definition fs_restW (j : Z) (nd : node) (i : Z) : W unit :=
    d <~ up (next_node_for cf 0 j i) ;;
    up (upd_ind i (fun x => x <| i_dest := Some d |>)) ;;~
    nc <~ up (ncfg_of cf j) ;;
    up (if negb (nd_inf nd) && negb (nc_slotted nc)
        then x <- get_ind i ;; sid <- lift E_NoServer (i_server x) ;; set_next_end j sid None
        else ret tt) ;;~
    space <~ up (has_space cf d) ;;
    if space then (fl <~ up (gets fuel_of) ;; releaseW cf fl j i d false)
    else
      x <~ up (get_ind i) ;;
      up (put_ind (x <| i_blocked := true |>)) ;;~
      emit (Blk j d i (i_pcls x)) ;;~
      up (upd_node d (fun dn => dn <| n_bq := n_bq dn ++ [(j, i)] |> <| n_lenbq := n_lenbq dn + 1 |>)).
  Lemma fs_tail_split j nd i s : fs_tailW cf j nd i s = (up (change_customer_class cf j i) ;;~ fs_restW j nd i) s.
  Proof. reflexivity. Qed.
  Lemma hb_fs_rest j nd i fl : B0 fl fl (fs_restW j nd i).
  Proof.
    unfold fs_restW.
    do 6 hb_struct.
    - hb using (apply hb_release).
    - apply B_get_ind_bind; intros x Hx.
      hb_struct.
      eapply B_ext; [eapply B_emit_bind; apply B_up; [solve [pka]|solve [cna]]|].
      intros j0. unfold catb, z0, cnode, cdb. destruct (j =? j0); lia.
  Qed.

  (* renege after its candidate i has been chosen *)
  Lemma hb_ren_tail j t i fl : B0 fl fl (ren_tailW cf j t i).
  Proof.
    unfold ren_tailW.
    apply B_bind_pres; [solve [pka]|solve [cna]|intros _].
    apply B_bind_pres; [solve [pka]|solve [cna]|intros d].
    apply B_get_ind_bind; intros x Hx.
    apply B_get_node_bind; intros nd1 Hid1 Hn1.
    apply B_lift_bind; intros q Hq. apply B_lift_bind; intros q' Hq'.
    cbv zeta.
    eapply B_ext; [eapply B_bind; [apply B_put_rm with (i := i) (b := i_pcls x) (j := j); [exact Hid1|cbn; lia|left; reflexivity|]|intros _]|].
    - intros sh ((_ & _) & Hok). exists nd1, (i_pprio x), q, q'. repeat split; assumption || reflexivity.
    - do 4 hb_struct.
      eapply B_emit_bind.
      hb using first [apply B_exit_accept | apply hb_accept | apply hb_rbi].
    - intros j0. unfold catb, z0, cnode, cdb. rewrite (Z.eqb_sym j j0). destruct (j0 =? j); lia.
  Qed.

  Lemma hb_interrupt_service f j i fl : B0 fl fl (interrupt_serviceW cf f j i 4).
  Proof. unfold interrupt_serviceW. change (4 =? 4) with true. cbv iota. hb using (apply hb_release). Qed.
  Lemma hb_off_duty_loop k f j se fl : forall idx, B0 fl fl (off_duty_loopW cf k f j idx 4 se).
  Proof. induction k as [|k IH]; intros idx; cbn [off_duty_loopW]; [apply B_wret|]. hb using first [apply hb_interrupt_service | apply IH]. Qed.
  Lemma hb_take_servers_off_duty f j pre fl : pre = 0 \/ pre = 4 -> B0 fl fl (take_servers_off_dutyW cf f j pre).
  Proof.
    intros [-> | ->]; unfold take_servers_off_dutyW.
    - change (0 =? 0) with true. cbv iota. hb using fail.
    - change (4 =? 0) with false. cbv iota. hb using (apply hb_off_duty_loop).
  Qed.
  Lemma scope_nc j nc : nthZ (cf_nodes cf) (j - 1) = Some nc -> scope_int_nc nc = true.
  Proof.
    intros H. unfold scope_int in Hscope. rewrite forallb_forall in Hscope. apply Hscope.
    destruct (nthZ_nat _ _ _ H) as (k & _ & Hk). eapply nth_error_In; eauto.
  Qed.
  Lemma hb_change_shift j fl : B0 fl fl (change_shiftW cf j).
  Proof.
    unfold change_shiftW, ncfg_of. apply B_lift_bind; intros nc Hnc. pose proof (scope_nc j nc Hnc) as Hs. unfold scope_int_nc in Hs.
    destruct (nc_srv nc) as [|sc|sl]; try (apply B_up; [solve [pka]|solve [cna]]).
    assert (Hpre : sc_pre sc = 0 \/ sc_pre sc = 4).
    { apply orb_true_iff in Hs as [Hs|Hs]; apply Z.eqb_eq in Hs; auto. }
    hb using (apply hb_take_servers_off_duty; exact Hpre).
  Qed.
  Lemma hb_slotted_service j fl : B0 fl fl (slotted_serviceW cf j).
  Proof.
    unfold slotted_serviceW, ncfg_of. apply B_lift_bind; intros nc Hnc. pose proof (scope_nc j nc Hnc) as Hs. unfold scope_int_nc in Hs.
    destruct (nc_srv nc) as [|sc|sl]; try (apply B_up; [solve [pka]|solve [cna]]).
    apply B_get_node_bind; intros nd Hid Hn.
    apply B_bind_pres; [solve [pka]|solve [cna]|intros _]. cbv zeta.
    eapply B_bind_z; [|intros _; hb using fail].
    destruct (sl_cap sl) eqn:Ec; cbn [andb negb orb] in *; [|apply B_wret].
    destruct (sl_pre sl =? 0) eqn:E0; cbn [negb orb] in *; [apply B_wret|]. apply Z.eqb_eq in Hs. rewrite Hs.
    hb using first [apply B_forMW; intros ? | apply hb_interrupt_service].
  Qed.
  Lemma hb_send_individual j i fl : B0 (i :: fl) fl (send_individualW cf j i).
  Proof. unfold send_individualW. hb using (apply hb_accept). Qed.
  Lemma B_up_exit K L fl i c (m : M unit) : presK K m -> calmN m -> hoB p K L (i :: fl) fl z0 (up (m ;;; exit_accept i c)).
  Proof. intros Hp Hc. eapply hoB_eq; [intros s; apply up_bind_eq|]. apply B_bind_pres; [exact Hp|exact Hc|intros _; apply B_exit_accept]. Qed.
  Lemma hb_release_individual j i fl : B0 (i :: fl) fl (release_individualW cf j i).
  Proof. unfold release_individualW. hb using first [apply hb_send_individual | (apply B_up_exit; [solve [pka]|solve [cna]])]. Qed.
End BWalk2.
Lemma frame_step {X} (m : M X) fl s a s1 : presK KT m -> calmN m -> WFx2 fl s -> NoInt s -> m s = Ok (a, s1) ->
  shp s1 = shp s /\ WFx2 fl s1 /\ NoInt s1 /\ forall i, pcl s1 i = pcl s i.
Proof.
  intros Hp Hc HW HN E. pose proof (Hp _ _ _ (WFx2_idx _ _ HW) I E) as E1. destruct (Hc _ _ _ HN E) as [N1 B1].
  split; [exact E1|]. split; [eapply WFx2_shape; eauto|]. auto.
Qed.

Section BWalk3.
  Variable cf : config.
  Variable p : Z -> bool.
  Hypothesis Hscope : scope_int cf = true.
  Notation B0 fl fl' m := (hoB p KT [] fl fl' z0 m).

  Lemma hb_batch_loop : forall n j c p0, B0 [] [] (batch_loopW cf n j c p0).
  Proof.
    induction n as [|n IH]; intros j c p0; cbn [batch_loopW]; [apply B_wret|].
    intros s a s' cs _ _ HW HN H.
    apply wbind_inv in H as (a1 & s1 & c1 & cs1 & E1 & H & ->). apply up_inv in E1 as [E1 ->].
    unfold modify in E1. injection E1 as <- <-.
    set (s1 := s <| arr := arr s <| a_created := a_created (arr s) + 1 |> |>) in *.
    apply wbind_inv in H as (i & s2 & c2 & cs2 & E2 & H & ->). apply up_inv in E2 as [E2 ->].
    unfold gets in E2. injection E2 as <- <-. change (a_created (arr s1)) with (a_created (arr s) + 1) in H.
    set (i := a_created (arr s) + 1) in *.
    apply wbind_inv in H as (a3 & s3 & c3 & cs3 & E3 & H & ->). apply up_inv in E3 as [E3 ->].
    destruct (1 <=? j); [|discriminate E3]. unfold ret in E3. injection E3 as _ <-.
    apply wbind_inv in H as (a4 & s4 & c4 & cs4 & E4 & H & ->). apply up_inv in E4 as [E4 ->].
    apply get_node_spec in E4 as (-> & _ & _).
    apply wbind_inv in H as (r & s5 & c5 & cs5 & E5 & H & ->). apply up_inv in E5 as [E5 ->].
    assert (HI1 : sh_idx (shp s1)) by (exact (WFx2_idx _ _ HW)).
    pose proof (pk_route_of cf i c s1 r s5 HI1 I E5) as Hs5.
    assert (HN1 : NoInt s1) by exact HN.
    destruct (cn_route_of cf i c s1 r s5 HN1 E5) as [N5 B5].
    apply wbind_inv in H as (a6 & s6 & c6 & cs6 & E6 & H & ->). apply up_inv in E6 as [E6 ->].
    unfold put_ind, modify in E6. injection E6 as <- <-.
    destruct (spawn_spec s s5 (new_ind i c p0 r) HW) as [W6 _]; [rewrite Hs5; reflexivity|reflexivity|].
    change (i_id (new_ind i c p0 r)) with i in W6.
    set (s6 := s5 <| inds := put_ind_l (new_ind i c p0 r) (inds s5) |>) in *.
    assert (T : hoB p KT [] [i] [] z0 (release_individualW cf j i ;;~ batch_loopW cf n j c p0))
      by (eapply B_bind_z; [apply hb_release_individual|intros _; apply IH]).
    destruct (T s6 a s' cs6 I (fun i0 b0 (H0 : In (i0, b0) []) => match H0 with end) W6 N5 H) as (A & B & D).
    split; [exact A|]. split; [exact B|]. intros j0. cbn [app]. rewrite (D j0). f_equal.
    assert (En : nsh s6 = nsh s) by (apply (f_equal sh_ns) in Hs5; exact Hs5).
    apply (cntb_flags p s s6 En). intros i' k t Hk Hin.
    unfold pcl, s6. cbn. rewrite find_put_l. change (i_id (new_ind i c p0 r)) with i.
    destruct (Z.eqb_spec i i') as [<-|Hne]; [|exact (B5 i')].
    exfalso. apply (WFsh_fresh _ HW). destruct HW as (_ & _ & _ & _ & HQ). eapply Permutation_in; [symmetry; exact HQ|].
    apply in_or_app. left. unfold qids. apply in_concat. exists (qof t). split; [|exact Hin].
    change (fun t0 : Z * Z * list (list Z) => concat (snd t0)) with qof. apply in_map. eapply nth_error_In. exact Hk.
  Qed.
  Lemma hb_arrival_have_event : B0 [] [] (arrival_have_eventW cf).
  Proof. unfold arrival_have_eventW. hb using (apply hb_batch_loop). Qed.

  (* ---------- one event ---------- *)
  Lemma lift_state {A} e (o : option A) s a s1 : lift e o s = Ok (a, s1) -> s1 = s.
  Proof. destruct o; unfold lift, ret, fail; intros H; [injection H as _ <-; reflexivity|discriminate]. Qed.
  Lemma decide_between_inds l s i s1 : decide_between l s = Ok (i, s1) -> inds s1 = inds s.
  Proof.
    unfold decide_between. destruct l as [|a0 [|b0 r]]; [discriminate|intros H; unfold ret in H; injection H as _ <-; reflexivity|].
    unfold choice_uniform, bind. destruct (draw_unif s) as [[u s0]| |] eqn:E; try discriminate.
    unfold draw_unif in E. destruct (d_unif (dr s)); [discriminate|]. injection E as _ <-.
    intros H. apply lift_state in H. rewrite H. reflexivity.
  Qed.
  (* change_customer_class overwrites previous_class with customer_class: nothing happens when they are equal *)
  Lemma ccc_calm j i s a s1 : (forall x, find_ind i (inds s) = Some x -> i_cls x = i_pcls x) -> NoInt s ->
    change_customer_class cf j i s = Ok (a, s1) -> NoInt s1 /\ forall i', pcl s1 i' = pcl s i'.
  Proof.
    intros Hc HN H. unfold change_customer_class in H.
    apply bind_ok_inv in H as (nc & s2 & E & H). unfold ncfg_of in E. apply lift_state in E. rewrite E in H. clear E.
    apply bind_ok_inv in H as (x & s3 & E3 & H). apply get_ind_some in E3 as [Es3 Hx]. rewrite Es3 in H. clear Es3.
    destruct (nc_ccm nc) as [m|]; [|unfold ret in H; injection H as _ <-; split; [exact HN|reflexivity]].
    apply bind_ok_inv in H as (row & s4 & E4 & H). apply lift_state in E4. rewrite E4 in H. clear E4.
    apply bind_ok_inv in H as (k & s5 & E5 & H). destruct (cn_choice_weighted 8 row s k s5 HN E5) as [N5 B5].
    cbv zeta in H. apply bind_ok_inv in H as (p' & s6 & E6 & H). apply lift_state in E6. rewrite E6 in H. clear E6.
    match type of H with put_ind ?x' _ = _ =>
      assert (Hid : i_id x' = i) by (cbn; exact (Conserve2.find_ind_id _ _ _ Hx));
      assert (Hpc : i_pcls x' = i_pcls x) by (cbn; exact (Hc x Hx));
      assert (Hk : pcl s5 i = Some (i_pcls x)) by (rewrite B5; unfold pcl; rewrite Hx; reflexivity);
      destruct (cb_put_ind i (i_pcls x) x' Hid Hpc s5 a s1 Hk N5 H) as [N1 B1]
    end.
    split; [exact N1|]. intros i'. rewrite B1. apply B5.
  Qed.

  (* ---------- class change while waiting at a node without priority pre-emption ---------- *)
  Lemma up_seq_upd_ind {Y} i f (m2 : M Y) s : up (upd_ind i f ;;; m2) s = (y <~ up (get_ind i) ;; up (put_ind (f y)) ;;~ up m2) s.
  Proof.
    unfold up, wbind, upd_ind, bind. destruct (get_ind i s) as [[y s1]| |]; [|reflexivity|reflexivity].
    unfold put_ind, modify. destruct (m2 _) as [[b s2]| |]; reflexivity.
  Qed.
  (* the tracker call and the update of previous_class: customer i (previous_class pc0) is in a queue of node j *)
  Lemma hb_cc_tail j i pc0 nc' fl : hoB p (inq i j) [(i, pc0)] fl fl z0
    (emit (Chg j pc0 nc') ;;~ up (upd_ind i (fun y => y <| i_pcls := nc' |> <| i_pprio := i_prio y |>) ;;; decide_class_change cf j i)).
  Proof.
    eapply B_ext; [eapply B_emit_bind with (d2 := fun j0 => if j0 =? j then bz (p nc') - bz (p pc0) else 0)|].
    - eapply hoB_eq; [intros s; symmetry; apply up_seq_upd_ind|].
      apply B_get_ind_bind; intros y Hy.
      eapply B_ext; [eapply B_put_ind_q_bind with (b0 := pc0) (j := j)|].
      + right. left. f_equal. cbn. symmetry. exact Hy.
      + intros sh [Hq Hoki]. split; [exact Hoki|]. destruct Hq as (t & Ht & Hin). exists t. split; [exact Ht|]. cbn. rewrite Hy. exact Hin.
      + apply B_up; [solve [pka]|solve [cna]].
      + intros j0. cbn. unfold z0. lia.
    - intros j0. unfold catb, z0, cnode, cdb. cbn. rewrite (Z.eqb_sym j j0). destruct (j0 =? j); lia.
  Qed.
  Lemma preempt_victim_none j i s v s1 : (forall nc, nthZ (cf_nodes cf) (j - 1) = Some nc -> nc_preempt nc = 0) ->
    preempt_victim cf j i s = Ok (v, s1) -> v = None /\ s1 = s.
  Proof.
    intros Hnp H. unfold preempt_victim in H. apply bind_ok_inv in H as (nc & s2 & E & H).
    unfold ncfg_of in E. destruct (nthZ (cf_nodes cf) (j - 1)) as [nc0|] eqn:En; [|discriminate E].
    unfold lift, ret in E. injection E as <- <-. rewrite (Hnp nc0 eq_refl) in H. change (0 =? 0) with true in H. cbv iota in H.
    unfold ret in H. injection H as <- <-. auto.
  Qed.
  Lemma hb_ccww_ev j s nd a s' cs : WFx2 [] s -> NoInt s -> nthZ (nodes s) (j - 1) = Some nd ->
    (forall i, hd_error (n_next_inds nd) = Some i -> In i (all_individuals nd)) ->
    (forall nc, nthZ (cf_nodes cf) (j - 1) = Some nc -> nc_preempt nc = 0) ->
    change_customer_class_while_waitingW cf j s = Ok (a, s', cs) ->
    WFx2 [] s' /\ NoInt s' /\ forall j0, cntb p s' j0 - netb p j0 cs = cntb p s j0.
  Proof.
    intros HW HN Hnd HQ Hnp H. unfold change_customer_class_while_waitingW in H.
    apply wbind_inv in H as (nd' & s1 & c1 & cs1 & E1 & H & ->). apply up_inv in E1 as [E1 ->].
    apply get_node_spec in E1 as (-> & _ & Hnd'). rewrite Hnd in Hnd'. injection Hnd' as <-. cbn [app].
    apply wbind_inv in H as (i & s2 & c2 & cs2 & E2 & H & ->). apply up_inv in E2 as [E2 ->]. cbn [app].
    assert (Hi : hd_error (n_next_inds nd) = Some i).
    { destruct (hd_error (n_next_inds nd)); [unfold lift, ret in E2; injection E2 as -> _; reflexivity|discriminate E2]. }
    apply lift_state in E2. rewrite E2 in H. clear E2 s2.
    apply wbind_inv in H as (x & s3 & c3 & cs3 & E3 & H & ->). apply up_inv in E3 as [E3 ->]. cbn [app].
    apply get_ind_some in E3 as [Es3 Hx]. rewrite Es3 in H. clear Es3 s3.
    apply wbind_inv in H as (nc' & s4 & c4 & cs4 & E4 & H & ->). apply up_inv in E4 as [E4 ->]. cbn [app].
    apply lift_state in E4. rewrite E4 in H. clear E4 s4.
    apply wbind_inv in H as (p' & s4b & c4b & cs4b & E4 & H & ->). apply up_inv in E4 as [E4 ->]. cbn [app].
    apply lift_state in E4. rewrite E4 in H. clear E4 s4b.
    apply wbind_inv in H as (u5 & s5 & c5 & cs5 & E5 & H & ->). apply up_inv in E5 as [E5 ->]. cbn [app].
    unfold put_ind, modify in E5. injection E5 as _ <-.
    set (x1 := x <| i_cls := nc' |> <| i_prio := p' |>) in *.
    set (s5 := s <| inds := put_ind_l x1 (inds s) |>) in *.
    pose proof (Conserve2.find_ind_id _ _ _ Hx) as Hxi.
    assert (Es5 : shp s5 = shp s).
    { unfold shp, s5. cbn. f_equal. apply put_ind_l_ids_in. change (i_id x1) with (i_id x). rewrite Hxi. exact (Conserve2.find_ind_In _ _ _ Hx). }
    assert (B5 : forall i', pcl s5 i' = pcl s i').
    { intros i'. unfold pcl, s5. cbn. rewrite find_put_l. change (i_id x1) with (i_id x). rewrite Hxi.
      destruct (Z.eqb_spec i i') as [<-|]; [rewrite Hx; reflexivity|reflexivity]. }
    assert (W5 : WFx2 [] s5) by (eapply WFx2_shape; [exact Es5|exact HW]).
    assert (N5 : NoInt s5) by exact HN.
    destruct (get_node_okn j s nd (WFx2_idx _ _ HW) Hnd) as [Hidn Hokn].
    assert (Hq0 : inq i j (shp s5)).
    { rewrite Es5. exists (nshape nd). split; [cbn [shp sh_ns]; rewrite nthZ_map, Hnd; reflexivity|exact (HQ i Hi)]. }
    apply wbind_inv in H as (u6 & s6 & c6 & cs6 & E6 & H & ->).
    assert (M6 : WFx2 [] s6 /\ NoInt s6 /\ (forall j0, cntb p s6 j0 - netb p j0 c6 = cntb p s5 j0) /\ (forall i', pcl s6 i' = pcl s5 i') /\ inq i j (shp s6)).
    { destruct (negb (p' =? i_pprio x)).
      2:{ unfold wret in E6. injection E6 as _ <- <-. split; [exact W5|]. split; [exact N5|]. split; [intros j0; unfold netb; cbn; lia|]. split; [reflexivity|exact Hq0]. }
      apply wbind_inv in E6 as (q & s7 & c7 & cs7 & E7 & E6 & ->). apply up_inv in E7 as [E7 ->]. cbn [app] in *.
      pose proof E7 as Hq. apply lift_state in E7. rewrite E7 in E6, Hq. clear E7 s7.
      apply wbind_inv in E6 as (q' & s7b & c7b & cs7b & E7 & E6 & ->). apply up_inv in E7 as [E7 ->]. cbn [app] in *.
      pose proof E7 as Hq'. apply lift_state in E7. rewrite E7 in E6, Hq'. clear E7 s7b.
      cbv zeta in E6.
      apply wbind_inv in E6 as (qn & s7c & c7c & cs7c & E7 & E6 & ->). apply up_inv in E7 as [E7 ->]. cbn [app] in *.
      pose proof E7 as Hqn. apply lift_state in E7. rewrite E7 in E6, Hqn. clear E7 s7c.
      assert (Lq : nthZ (n_queues nd) (i_pprio x) = Some q) by (destruct (nthZ (n_queues nd) (i_pprio x)); [unfold lift, ret in Hq; injection Hq as -> ; reflexivity|discriminate Hq]).
      assert (Lq' : remove_first i q = Some q') by (destruct (remove_first i q); [unfold lift, ret in Hq'; injection Hq' as -> ; reflexivity|discriminate Hq']).
      assert (Lqn : nthZ (updZ (n_queues nd) (i_pprio x) q') p' = Some qn).
      { destruct (nthZ (updZ (n_queues nd) (i_pprio x) q') p'); [unfold lift, ret in Hqn; injection Hqn as -> ; reflexivity|discriminate Hqn]. }
      clear Hq Hq' Hqn.
      apply wbind_inv in E6 as (u8 & s8 & c8 & cs8 & E8 & E6 & ->).
      set (nd2 := nd <| n_queues := updZ (updZ (n_queues nd) (i_pprio x) q') p' (qn ++ [i]) |>) in *.
      assert (HS : forall sh, okn sh nd -> exists nd0, okn sh nd0 /\ n_id nd2 = n_id nd0 /\ n_pop nd2 = n_pop nd0 /\
                                Permutation (concat (n_queues nd2)) (concat (n_queues nd0))).
      { intros sh Hok. exists nd. split; [exact Hok|]. split; [reflexivity|]. split; [reflexivity|]. cbn.
        destruct (nthZ_nat _ _ _ Lq) as (kp & Hkp & Hqk). rewrite Hkp, updZ_nat in *.
        destruct (nthZ_nat _ _ _ Lqn) as (kn & Hkn & Hqnk). rewrite Hkn, updZ_nat.
        rewrite (concat_upd_add _ _ _ (qn ++ [i]) i Hqnk); [|rewrite Permutation_app_comm; reflexivity].
        eapply concat_upd_rm; [exact Hqk|]. apply remove_first_perm. exact Lq'. }
      assert (Hok5 : okn (shp s5) nd) by (rewrite Es5; exact Hokn).
      destruct (B_put_mv p (fun sh => okn sh nd) [] [] nd2 (NoInt_nth _ _ _ HN Hnd) HS s5 u8 s8 c8 Hok5
                  (fun i0 b0 (H0 : In (i0, b0) []) => match H0 with end) W5 N5 E8) as (W8 & N8 & D8).
      apply up_inv in E8 as [E8 ->]. unfold put_node, modify in E8. injection E8 as _ Es8.
      assert (Hq8 : inq i j (shp s8)).
      { rewrite <- Es8. exists (nshape nd2). split.
        - change (nthZ (map nshape (updZ (nodes s) (n_id nd - 1) nd2)) (j - 1) = Some (nshape nd2)).
          rewrite tk_updZ_map, Hidn. eapply tk_nthZ_updZ_eq. rewrite nthZ_map, Hnd. reflexivity.
        - change (In i (concat (updZ (updZ (n_queues nd) (i_pprio x) q') p' (qn ++ [i])))).
          apply in_concat. exists (qn ++ [i]). split; [|apply in_or_app; right; left; reflexivity].
          eapply tk_nthZ_In. eapply tk_nthZ_updZ_eq. exact Lqn. }
      assert (B8 : forall i', pcl s8 i' = pcl s5 i') by (intros i'; rewrite <- Es8; reflexivity).
      assert (D8' : forall j0, cntb p s8 j0 - netb p j0 [] = cntb p s5 j0) by (intros j0; rewrite (D8 j0); unfold z0; lia).
      destruct (negb (nd_inf nd) && (0 <? numo (n_c nd))).
      2:{ unfold wret in E6. injection E6 as _ <- <-. split; [exact W8|]. split; [exact N8|]. split; [intros j0; cbn [app]; apply D8'|]. split; [exact B8|exact Hq8]. }
      apply wbind_inv in E6 as (v & s9 & c9 & cs9 & E9 & E6 & ->). apply up_inv in E9 as [E9 ->]. cbn [app] in *.
      destruct (preempt_victim_none j i s8 v s9 Hnp E9) as [-> ->].
      unfold wret in E6. injection E6 as _ <- <-. split; [exact W8|]. split; [exact N8|]. split; [intros j0; cbn [app]; apply D8'|]. split; [exact B8|exact Hq8]. }
    destruct M6 as (W6 & N6 & D6 & B6 & Hq6).
    assert (HL6 : Lok [(i, i_pcls x)] s6).
    { intros i0 b0 [Hq|[]]. injection Hq as <- <-. rewrite B6, B5. unfold pcl. rewrite Hx. reflexivity. }
    destruct (hb_cc_tail j i (i_pcls x) nc' [] s6 a s' cs6 Hq6 HL6 W6 N6 H) as (A & B & D).
    split; [exact A|split; [exact B|]]. intros j0. rewrite netb_app. specialize (D j0). specialize (D6 j0). unfold z0 in D.
    rewrite (cntb_frame p s s5 (f_equal sh_ns Es5) B5) in D6. lia.
  Qed.

  (* the candidates of an end of service have previous_class = customer_class (they are not blocked: TInvS below) *)
  Definition CandC (s : sim) : Prop :=
    forall j nd, nthZ (nodes s) (j - 1) = Some nd -> n_next_type nd = 0 -> forall i x, In i (n_next_inds nd) -> find_ind i (inds s) = Some x -> i_cls x = i_pcls x.
  (* the candidate of a class change while waiting is a customer of the node, and the node has no priority pre-emption *)
  Definition CandQ (s : sim) : Prop := forall j nd, nthZ (nodes s) (j - 1) = Some nd -> n_next_type nd = 3 ->
    (forall i, hd_error (n_next_inds nd) = Some i -> In i (all_individuals nd)) /\
    (forall nc, nthZ (cf_nodes cf) (j - 1) = Some nc -> nc_preempt nc = 0).

  Lemma hb_node_have_event j s a s' cs : CandC s -> CandQ s -> WFx2 [] s -> NoInt s -> node_have_eventW cf j s = Ok (a, s', cs) ->
    WFx2 [] s' /\ NoInt s' /\ forall j0, cntb p s' j0 - netb p j0 cs = cntb p s j0.
  Proof.
    intros HC HN3 HW HN H. unfold node_have_eventW in H.
    apply wbind_inv in H as (nd & s1 & c1 & cs1 & E1 & H & ->). apply up_inv in E1 as [E1 ->].
    apply get_node_spec in E1 as (-> & Hj & Hnd). cbv zeta in H. cbn [app].
    assert (Fin : forall (m : W unit), hoB p KT [] [] [] z0 m -> m s = Ok (a, s', cs1) ->
                  WFx2 [] s' /\ NoInt s' /\ forall j0, cntb p s' j0 - netb p j0 cs1 = cntb p s j0).
    { intros m Hm E. destruct (Hm s a s' cs1 I (fun i0 b0 (H0 : In (i0, b0) []) => match H0 with end) HW HN E) as (A & B & D).
      split; [exact A|split; [exact B|]]. intros j0. rewrite (D j0). unfold z0. lia. }
    destruct (n_next_type nd =? 0) eqn:E0.
    { apply Z.eqb_eq in E0. unfold finish_serviceW in H.
      apply wbind_inv in H as (nd' & s2 & c2 & cs2 & E2 & H & ->). apply up_inv in E2 as [E2 ->].
      apply get_node_spec in E2 as (-> & _ & Hnd'). rewrite Hnd in Hnd'. injection Hnd' as <-.
      apply wbind_inv in H as (i & s3 & c3 & cs3 & E3 & H & ->). apply up_inv in E3 as [E3 ->]. cbn [app].
      pose proof (decide_between_In _ _ _ _ E3) as Hin.
      destruct (frame_step _ [] s i s3 (pk_decide_between _) (cn_decide_between _) HW HN E3) as (Es & W3 & N3 & B3).
      rewrite fs_tail_split in H.
      apply wbind_inv in H as (a4 & s4 & c4 & cs4 & E4 & H & ->). apply up_inv in E4 as [E4 ->]. cbn [app].
      assert (Hc3 : forall x, find_ind i (inds s3) = Some x -> i_cls x = i_pcls x).
      { rewrite (decide_between_inds _ _ _ _ E3). intros x Hx. exact (HC j nd Hnd E0 i x Hin Hx). }
      destruct (ccc_calm j i s3 a4 s4 Hc3 N3 E4) as [N4 B4].
      pose proof (pk_change_customer_class cf j i s3 a4 s4 (WFx2_idx _ _ W3) I E4) as Es4.
      assert (W4 : WFx2 [] s4) by (eapply WFx2_shape; [exact Es4|exact W3]).
      destruct (hb_fs_rest cf p j nd i [] s4 a s' cs4 I (fun i0 b0 (H0 : In (i0, b0) []) => match H0 with end) W4 N4 H) as (A & B & D).
      split; [exact A|split; [exact B|]]. intros j0. rewrite (D j0). unfold z0.
      rewrite (cntb_frame p s3 s4 (f_equal sh_ns Es4) B4), (cntb_frame p s s3 (f_equal sh_ns Es) B3). lia. }
    destruct (n_next_type nd =? 1) eqn:E1; [exact (Fin _ (hb_change_shift cf p Hscope j []) H)|].
    destruct (n_next_type nd =? 2) eqn:E2.
    { unfold renegeW in H.
      apply wbind_inv in H as (t & s2 & c2 & cs2 & E2' & H & ->). apply up_inv in E2' as [E2' ->].
      unfold tnow, gets in E2'. injection E2' as <- <-.
      apply wbind_inv in H as (nd' & s2b & c2b & cs2b & E2b & H & ->). apply up_inv in E2b as [E2b ->].
      apply get_node_spec in E2b as (-> & _ & Hnd'). rewrite Hnd in Hnd'. injection Hnd' as <-.
      apply wbind_inv in H as (i & s3 & c3 & cs3 & E3 & H & ->). apply up_inv in E3 as [E3 ->]. cbn [app].
      destruct (frame_step _ [] s i s3 (pk_decide_between _) (cn_decide_between _) HW HN E3) as (Es & W3 & N3 & B3).
      destruct (hb_ren_tail cf p j (now s) i [] s3 a s' cs3 I (fun i0 b0 (H0 : In (i0, b0) []) => match H0 with end) W3 N3 H) as (A & B & D).
      split; [exact A|split; [exact B|]]. intros j0. rewrite (D j0). unfold z0.
      rewrite (cntb_frame p s s3 (f_equal sh_ns Es) B3). lia. }
    destruct (n_next_type nd =? 3) eqn:E3; [apply Z.eqb_eq in E3; destruct (HN3 j nd Hnd E3) as [Q1 Q2]; exact (hb_ccww_ev j s nd a s' cs1 HW HN Hnd Q1 Q2 H)|].
    destruct (n_next_type nd =? 4) eqn:E4; [exact (Fin _ (hb_slotted_service cf p Hscope j []) H)|].
    exact (Fin _ (B_wret p KT [] [] tt) H).
  Qed.

  Lemma hb_event_step s a s' cs : CandC s -> CandQ s -> WFx2 [] s -> NoInt s -> event_stepW cf s = Ok (a, s', cs) ->
    WFx2 [] s' /\ NoInt s' /\ forall j0, cntb p s' j0 - netb p j0 cs = cntb p s j0.
  Proof.
    intros HX HN3 HW HN H. unfold event_stepW in H.
    apply wbind_inv in H as (a1 & s1 & c1 & cs1 & E1 & H & ->). apply up_inv in E1 as [E1 ->].
    unfold modify in E1. injection E1 as <- <-. set (s1 := s <| log := [] |>) in *.
    apply wbind_inv in H as (k & s2 & c2 & cs2 & E2 & H & ->). apply up_inv in E2 as [E2 ->].
    unfold gets in E2. injection E2 as <- <-. cbn [app].
    apply wbind_inv in H as (a3 & s3 & c3 & cs3 & E3 & H & ->).
    assert (M3 : WFx2 [] s3 /\ NoInt s3 /\ forall j0, cntb p s3 j0 - netb p j0 c3 = cntb p s j0).
    { change (next_active s1) with (next_active s) in *. destruct (next_active s =? 0).
      - destruct (hb_arrival_have_event s1 a3 s3 c3 I (fun i0 b0 (H0 : In (i0, b0) []) => match H0 with end) HW HN E3) as (A & B & D).
        split; [exact A|split; [exact B|]]. intros j0. rewrite (D j0). unfold z0. change (cntb p s1 j0) with (cntb p s j0). lia.
      - exact (hb_node_have_event (next_active s) s1 a3 s3 c3 HX HN3 HW HN E3). }
    destruct M3 as (W3 & N3 & D3).
    apply up_inv in H as [H ->]. rewrite app_nil_r.
    assert (Hp : presK KT (ns <- gets nodes ;; update_all cf (map n_id ns) ;;; find_next_active_node)) by pka.
    assert (Hc : calmN (ns <- gets nodes ;; update_all cf (map n_id ns) ;;; find_next_active_node)) by cna.
    destruct (frame_step _ [] s3 a s' Hp Hc W3 N3 H) as (Es & W4 & N4 & B4).
    split; [exact W4|split; [exact N4|]]. intros j0. rewrite (cntb_frame p s3 s' (f_equal sh_ns Es) B4). apply D3.
  Qed.
End BWalk3.
End CP.

(* ---------- B.2  the per-class counts at event level ---------- *)
(* cntc c s j: the number of customers of node j that count under class c = whose previous_class is c (what the tracker
   subtracts at a release); netc c j cs: what the calls cs do to entry (j, c) of NodeClassMatrix *)
Definition cntc (c : Z) (s : sim) (j : Z) : Z := CP.cntb (fun z => z =? c) s j.
Definition netc (c : Z) (j : Z) (cs : list call) : Z := CP.netb (fun z => z =? c) j cs.

(* what is assumed of the candidates (shown invariant in B.4 as far as the first clause goes):
   - a candidate of an end of service has previous_class = customer_class (it is not blocked);
   - the candidate of a class change while waiting is a customer of the node *)
Definition CandOK (s : sim) : Prop :=
  forall j nd, nthZ (nodes s) (j - 1) = Some nd ->
    (n_next_type nd = 0 -> forall i x, In i (n_next_inds nd) -> find_ind i (inds s) = Some x -> i_cls x = i_pcls x) /\
    (n_next_type nd = 3 -> forall i, hd_error (n_next_inds nd) = Some i -> In i (all_individuals nd)).
Definition candok_b (s : sim) : bool :=
  forallb (fun nd =>
    (negb (n_next_type nd =? 0) || forallb (fun i => match find_ind i (inds s) with Some x => i_cls x =? i_pcls x | None => true end) (n_next_inds nd)) &&
    (negb (n_next_type nd =? 3) || match hd_error (n_next_inds nd) with Some i => memZ i (all_individuals nd) | None => true end)) (nodes s).
Theorem candok_b_sound s : candok_b s = true -> CandOK s.
Proof.
  unfold candok_b. rewrite forallb_forall. intros H j nd Hnd. specialize (H nd (tk_nthZ_In _ _ _ Hnd)).
  apply andb_true_iff in H as [H0 H3]. split.
  - intros E0 i x Hi Hx. rewrite E0 in H0. cbn in H0. rewrite forallb_forall in H0. specialize (H0 i Hi). rewrite Hx in H0. apply Z.eqb_eq. exact H0.
  - intros E3 i Hi. rewrite E3 in H3. cbn in H3. rewrite Hi in H3. apply memZ_In. exact H3.
Qed.

Lemma Inv2_nopre3 cf s : scope_nb cf = true -> Inv2 cf s ->
  forall j nd, nthZ (nodes s) (j - 1) = Some nd -> n_next_type nd = 3 -> forall nc, nthZ (cf_nodes cf) (j - 1) = Some nc -> nc_preempt nc = 0.
Proof.
  intros Hsc (an & h & (_ & _ & _ & _ & _ & HP)) j nd Hnd E3 nc Hnc.
  destruct (HP j nd Hnd) as [_ Hd]. specialize (Hd E3).
  apply (Journey2.nopre_nc cf j nc); [|exact Hnc].
  unfold scope_nb, Journey2r.scope2r in Hsc. apply andb_true_iff in Hsc as [_ Hsc].
  destruct (Journey2.preempts cf); [|reflexivity]. apply andb_true_iff in Hsc as [_ Hsc]. rewrite Hd in Hsc. discriminate Hsc.
Qed.

(* one event: every entry of the matrix moves exactly as the calls say *)
Theorem event_step_class_counts2_candok cf s s' : scope_nb cf = true -> Inv2 cf s -> CandOK s -> event_step cf s = Ok (tt, s') ->
  Inv2 cf s' /\ forall c j, cntc c s' j - netc c j (calls_event_step cf s) = cntc c s j.
Proof.
  intros Hsc HI HC H. destruct (Inv2_facts cf s HI) as (HW & HN & _). split.
  - exact (proj1 (event_step_naive_blocking2 cf s s' Hsc HI H)).
  - intros c j. pose proof (scope_nb_int cf Hsc) as Hsi. pose proof (event_stepW_ok cf s s' H) as HE.
    refine (proj2 (proj2 (CP.hb_event_step cf (fun z => z =? c) Hsi s tt s' _ _ _ HW HN HE)) j).
    + intros j0 nd Hnd E0. exact (proj1 (HC j0 nd Hnd) E0).
    + intros j0 nd Hnd E3. split; [exact (proj2 (HC j0 nd Hnd) E3)|exact (Inv2_nopre3 cf s Hsc HI j0 nd Hnd E3)].
Qed.
Fixpoint CandOK_run (cf : config) (s : sim) (ds : list draws) : Prop :=
  match ds with
  | [] => True
  | d :: r => CandOK (s <| dr := d |>) /\ match event_step cf (s <| dr := d |>) with Ok (_, s1) => CandOK_run cf s1 r | _ => True end
  end.
Fixpoint candok_run_b (cf : config) (s : sim) (ds : list draws) : bool :=
  match ds with
  | [] => true
  | d :: r => candok_b (s <| dr := d |>) && match event_step cf (s <| dr := d |>) with Ok (_, s1) => candok_run_b cf s1 r | _ => true end
  end.
Theorem candok_run_b_sound cf : forall ds s, candok_run_b cf s ds = true -> CandOK_run cf s ds.
Proof.
  induction ds as [|d r IH]; intros s H; cbn [candok_run_b CandOK_run] in *; [exact I|].
  apply andb_true_iff in H as [H1 H2]. split; [apply candok_b_sound; exact H1|].
  destruct (event_step cf (s <| dr := d |>)) as [[u s1]| |]; [apply IH; exact H2|exact I|exact I].
Qed.
Lemma netc_app c j a b : netc c j (a ++ b) = netc c j a + netc c j b.
Proof. apply CP.netb_app. Qed.
Theorem run_many_class_counts2_candok cf : scope_nb cf = true -> forall ds s s', Inv2 cf s -> CandOK_run cf s ds -> run_many cf s ds = Ok s' ->
  Inv2 cf s' /\ forall c j, cntc c s' j - netc c j (calls_many cf s ds) = cntc c s j.
Proof.
  intros Hsc. induction ds as [|d r IH]; intros s s' HI HC H; cbn [run_many calls_many CandOK_run] in *.
  - injection H as <-. split; [exact HI|]. intros c j. unfold netc, CP.netb. cbn. lia.
  - destruct HC as [HC0 HCr]. destruct (event_step cf (s <| dr := d |>)) as [[[] s1]| |] eqn:E; try discriminate.
    destruct (event_step_class_counts2_candok cf _ _ Hsc (Inv2_dr cf s d HI) HC0 E) as (I1 & T1).
    destruct (IH _ _ I1 HCr H) as (I2 & T2'). split; [exact I2|].
    intros c j. rewrite netc_app. specialize (T1 c j). specialize (T2' c j). change (cntc c (s <| dr := d |>) j) with (cntc c s j) in T1. lia.
Qed.

(* ---------- B.3  from the counts to the NodeClassMatrix tracker (cm_step of TrackerInc2) ---------- *)
Definition entry (m : list (list Z)) (j c : Z) : Z :=
  match nthZ m (j - 1) with Some row => match nthZ row c with Some v => v | None => 0 end | None => 0 end.
Lemma inc1_entry v k d v' : inc1 v k d = Some v' ->
  forall c, match nthZ v' c with Some x => x | None => 0 end = match nthZ v c with Some x => x | None => 0 end + (if c =? k then d else 0).
Proof.
  unfold inc1. destruct (nthZ v k) as [a0|] eqn:E; [|discriminate]. intros H. injection H as <-. intros c.
  destruct (Z.eqb_spec c k) as [->|Hne].
  - rewrite (tk_nthZ_updZ_eq _ _ _ _ E), E. reflexivity.
  - rewrite tk_nthZ_updZ_neq by exact Hne. lia.
Qed.
Lemma inc2_entry m kk c d m' : inc2 m kk c d = Some m' ->
  forall j c', entry m' j c' = entry m j c' + (if (j - 1 =? kk) && (c' =? c) then d else 0).
Proof.
  unfold inc2. destruct (nthZ m kk) as [row|] eqn:E; [|discriminate]. destruct (inc1 row c d) as [row'|] eqn:E1; [|discriminate].
  intros H. injection H as <-. intros j c'. unfold entry. destruct (Z.eqb_spec (j - 1) kk) as [->|Hne]; cbn [andb].
  - rewrite (tk_nthZ_updZ_eq _ _ _ _ E), E. exact (inc1_entry _ _ _ _ E1 c').
  - rewrite tk_nthZ_updZ_neq by exact Hne. lia.
Qed.
Lemma cm_step_entry m cl m' : cm_step m cl = Some m' -> forall j c, entry m' j c = entry m j c + CP.catb (fun z => z =? c) j cl.
Proof.
  intros H j c. unfold CP.catb, CP.cdb, cnode. destruct cl as [j0 c0|j0 d0 i0 pc|j0 d0 i0 pc bb|j0 pc c0]; cbn [cm_step] in H.
  - rewrite (inc2_entry _ _ _ _ _ H j c). rewrite (Z.eqb_sym c0 c).
    destruct (Z.eqb_spec (j - 1) (j0 - 1)), (Z.eqb_spec j0 j), (c =? c0); cbn [andb bz]; lia.
  - injection H as <-. destruct (j0 =? j); lia.
  - rewrite (inc2_entry _ _ _ _ _ H j c). rewrite (Z.eqb_sym pc c).
    destruct (Z.eqb_spec (j - 1) (j0 - 1)), (Z.eqb_spec j0 j), (c =? pc); cbn [andb bz]; lia.
  - destruct (inc2 m (j0 - 1) pc (-1)) as [m1|] eqn:E1; [|discriminate].
    rewrite (inc2_entry _ _ _ _ _ H j c), (inc2_entry _ _ _ _ _ E1 j c). rewrite (Z.eqb_sym pc c), (Z.eqb_sym c0 c).
    destruct (Z.eqb_spec (j - 1) (j0 - 1)), (Z.eqb_spec j0 j), (c =? pc), (c =? c0); cbn [andb bz]; lia.
Qed.
Lemma cm_run_entry : forall cs m m', orun cm_step cs m = Some m' -> forall j c, entry m' j c = entry m j c + netc c j cs.
Proof.
  induction cs as [|cl r IH]; intros m m' H j c; cbn [orun] in H.
  - injection H as <-. unfold netc, CP.netb. cbn. lia.
  - destruct (cm_step m cl) as [m1|] eqn:E; [|discriminate]. rewrite (IH _ _ H j c), (cm_step_entry _ _ _ E j c).
    unfold netc, CP.netb. cbn [map]. change (zsum (?a :: ?l)) with (a + zsum l). lia.
Qed.
(* any run in scope: whenever the NodeClassMatrix tracker, started on a matrix m0, does not raise, every entry that was the
   true count before the run is the true count after the run *)
Theorem run_many_class_matrix2_candok cf ds s s' m0 m' : scope_nb cf = true -> Inv2 cf s -> CandOK_run cf s ds -> run_many cf s ds = Ok s' ->
  orun cm_step (calls_many cf s ds) m0 = Some m' ->
  forall j c, entry m0 j c = cntc c s j -> entry m' j c = cntc c s' j.
Proof.
  intros Hsc HI HC H Hm j c E0. rewrite (cm_run_entry _ _ _ Hm j c), E0.
  pose proof (proj2 (run_many_class_counts2_candok cf Hsc ds s s' HI HC H) c j). lia.
Qed.

(* the true matrix of TrackerInc2 (customers counted under customer_class, blocked ones under previous_class) has these entries
   when every customer that is not blocked has previous_class = customer_class *)
Definition TInvS (s : sim) : Prop := forall i x, find_ind i (inds s) = Some x -> i_blocked x = false -> i_pcls x = i_cls x.
Definition tinvs_b (s : sim) : bool := forallb (fun x => i_blocked x || (i_pcls x =? i_cls x)) (inds s).
Lemma find_ind_In_l i l x : find_ind i l = Some x -> In x l.
Proof. induction l as [|y r IH]; cbn; [discriminate|]. destruct (i_id y =? i); [intros H; injection H as <-; left; reflexivity|intros H; right; auto]. Qed.
Theorem tinvs_b_sound s : tinvs_b s = true -> TInvS s.
Proof.
  unfold tinvs_b. rewrite forallb_forall. intros H i x Hx Hb. specialize (H x (find_ind_In_l _ _ _ Hx)). rewrite Hb in H. apply Z.eqb_eq. exact H.
Qed.
Lemma nth_zseq : forall n s k, (k < n)%nat -> nth_error (zseq s n) k = Some (s + Z.of_nat k).
Proof.
  induction n as [|n IH]; intros s k Hk; [lia|]. destruct k as [|k]; cbn [zseq nth_error]; [f_equal; lia|].
  rewrite IH by lia. f_equal. lia.
Qed.
Lemma cm_true_entry k s j c : TInvS s -> 0 <= c < Z.of_nat k -> nthZ (nodes s) (j - 1) <> None -> entry (cm_true k s) j c = cntc c s j.
Proof.
  intros HT Hc Hj. unfold entry, cm_true, cntc, CP.cntb, nsh. rewrite !nthZ_map.
  destruct (nthZ (nodes s) (j - 1)) as [nd|]; [|congruence]. cbn [option_map].
  replace c with (Z.of_nat (Z.to_nat c)) at 1 by lia. rewrite nthZ_of_nat, nth_error_map, nth_zseq by lia. cbn [option_map].
  replace (0 + Z.of_nat (Z.to_nat c)) with c by lia. unfold qof, nshape. cbn [snd]. unfold zlen. do 2 f_equal.
  apply filter_ext. intros i. unfold class_of, CP.pz, CP.pcl. destruct (find_ind i (inds s)) as [x|] eqn:Ex; cbn [option_map].
  - destruct (i_blocked x) eqn:Eb; [reflexivity|]. rewrite (HT i x Ex Eb). reflexivity.
  - destruct (Z.eqb_spec (-1) c); [lia|reflexivity].
Qed.

(* ---------- example: two classes; node 1 swaps the class at the end of a service (class-change matrix) and its waiting
   customers change class after 1 tick (class_change_time); node 2 has room for one customer (blocking); node 3 has its own
   arrivals and reneging ---------- *)
Definition cm_cf : config :=
  mkCfg 2
    [ mkNcfg None (Some [[0; 8]; [8; 0]]) 0 SFixed 0 false [false; false] 0;
      mkNcfg (Some 1) None 0 SFixed 0 false [false; false] 0;
      mkNcfg None None 0 SFixed 0 true [true; true] 0 ]
    [0; 0] 1 None [ RtNR [RDirect 2; RLeave; RLeave]; RtNR [RDirect 2; RLeave; RLeave] ]
    [ [None; None; None]; [None; None; None] ] true [ [false; true]; [true; false] ].
Definition cm_s0 : sim :=
  mkSim 1 0 (mkArr 0 0 [[Some 1; None]; [None; None]; [Some 1; None]] 1 0 (Some 1))
        [x_node 1 1 [x_srv 1] 1; x_node 2 1 [x_srv 1] 1; x_node 3 1 [x_srv 1] 1] [] 0 0 [] x_nd [] [[0; 0; 0]; [0; 0; 0]].
Definition cm_d : draws := mkDraws [2] [1] [3; 3] [0; 0; 0] [1; 1] [1; 1; 1].
Example cm_hyps : scope_nb cm_cf = true /\ inv2_b cm_cf nb_an0 [] cm_s0 = true /\ candok_run_b cm_cf cm_s0 (repeat cm_d 60) = true /\ tinvs_b cm_s0 = true.
Proof. vm_compute. repeat split; reflexivity. Qed.
(* 24 events: class changes while waiting at nodes 1 and 3 (Chg), customer 6 reneges at node 3 after its class change (Rel 3 0 6 1),
   customers 3 and 5 are blocked at node 1 after the class-change matrix has given them class 1 (they still count under class 0) *)
Example cm_calls24 : calls_many cm_cf cm_s0 (repeat cm_d 24) =
  [Acc 1 0; Acc 3 0; Acc 1 0; Acc 3 0; Rel 1 2 1 0 false; Acc 2 1; Rel 3 0 2 0 false; Acc 1 0; Acc 3 0; Chg 1 0 1; Chg 3 0 1;
   Rel 3 0 6 1 false; Acc 1 0; Acc 3 0; Blk 1 2 3 0; Chg 1 1 0; Rel 2 0 1 1 false; Rel 1 2 3 0 true; Acc 2 1; Rel 3 0 4 0 false;
   Chg 1 0 1; Acc 1 0; Acc 3 0; Chg 1 1 0; Blk 1 2 5 0; Chg 1 0 1; Chg 1 0 1].
Proof. vm_compute. reflexivity. Qed.
Example cm_fold24 : exists s', run_many cm_cf cm_s0 (repeat cm_d 24) = Ok s' /\ cm_true 2 s' = [[1; 2]; [0; 1]; [2; 0]] /\ tinvs_b s' = true /\
  orun cm_step (calls_many cm_cf cm_s0 (repeat cm_d 24)) (cm_true 2 cm_s0) = Some [[1; 2]; [0; 1]; [2; 0]].
Proof. eexists. split; [vm_compute; reflexivity|]. vm_compute. repeat split; reflexivity. Qed.
(* 60 events by the theorem: the tracker does not raise (computed) and every entry of its matrix is the true count *)
Example cm_run60 : exists s' m', run_many cm_cf cm_s0 (repeat cm_d 60) = Ok s' /\
  orun cm_step (calls_many cm_cf cm_s0 (repeat cm_d 60)) (cm_true 2 cm_s0) = Some m' /\
  forall j c, 1 <= j <= 3 -> 0 <= c < 2 -> entry m' j c = cntc c s' j.
Proof.
  destruct (run_many cm_cf cm_s0 (repeat cm_d 60)) as [s'| |] eqn:E; [|vm_compute in E; discriminate|vm_compute in E; discriminate].
  destruct (orun cm_step (calls_many cm_cf cm_s0 (repeat cm_d 60)) (cm_true 2 cm_s0)) as [m'|] eqn:Em; [|vm_compute in Em; discriminate].
  exists s', m'. split; [reflexivity|]. split; [reflexivity|]. intros j c Hj Hc.
  destruct cm_hyps as (H1 & H2 & H3 & H4).
  apply (run_many_class_matrix2_candok cm_cf _ _ _ _ _ H1 (inv2_b_sound _ _ _ _ H2) (candok_run_b_sound _ _ _ H3) E Em).
  apply (cm_true_entry 2 cm_s0 j c (tinvs_b_sound _ H4)); [lia|].
  assert (Hj' : j = 1 \/ j = 2 \/ j = 3) by lia. destruct Hj' as [-> |[-> | ->]]; discriminate.
Qed.

(* ====================================================================================================================
   B.4  TInvS is an invariant: the same logic once more, now for the attribute (customer_class, previous_class, is_blocked) and
   with <= instead of = (no tracker calls are counted): cntb bad s j = number of customers of node j that are NOT blocked and have
   previous_class <> customer_class; no event increases it.
   ==================================================================================================================== *)
Module CT.
Definition tr3 (x : ind) : Z * Z * bool := (i_cls x, i_pcls x, i_blocked x).
Definition at3 (s : sim) (i : Z) : option (Z * Z * bool) := option_map tr3 (find_ind i (inds s)).
Definition pz3 (p : Z * Z * bool -> bool) (o : option (Z * Z * bool)) : bool := match o with Some b => p b | None => false end.
Definition bad (t : Z * Z * bool) : bool := negb (snd t) && negb (snd (fst t) =? fst (fst t)).
Definition calmN {A} (m : M A) : Prop :=
  forall s a s', NoInt s -> m s = Ok (a, s') -> NoInt s' /\ forall i, at3 s' i = at3 s i.
Definition calmB {A} (i0 : Z) (b0 : Z * Z * bool) (m : M A) : Prop :=
  forall s a s', at3 s i0 = Some b0 -> NoInt s -> m s = Ok (a, s') -> NoInt s' /\ forall i, at3 s' i = at3 s i.

Lemma calmB_of_calmN {A} i0 b0 (m : M A) : calmN m -> calmB i0 b0 m.
Proof. intros H s a s' _ HN E. eapply H; eauto. Qed.
Lemma cn_same {A} (m : M A) : (forall s a s', m s = Ok (a, s') -> inds s' = inds s /\ nodes s' = nodes s) -> calmN m.
Proof. intros H s a s' HN E. destruct (H _ _ _ E) as [Ei En]. unfold NoInt, at3. rewrite Ei, En. auto. Qed.
Lemma cn_ret {A} (x : A) : calmN (ret x). Proof. apply cn_same. intros s a s' H. inversion H. auto. Qed.
Lemma cn_fail {A} e : calmN (@fail A e). Proof. intros s a s' _ H. discriminate. Qed.
Lemma cn_oof {A} : calmN (@oof A). Proof. intros s a s' _ H. discriminate. Qed.
Lemma cn_gets {A} (f : sim -> A) : calmN (gets f). Proof. apply cn_same. intros s a s' H. inversion H. auto. Qed.
Lemma cn_lift {A} e (o : option A) : calmN (lift e o). Proof. destruct o; [apply cn_ret|apply cn_fail]. Qed.
Lemma cn_modify (f : sim -> sim) : (forall s, inds (f s) = inds s /\ nodes (f s) = nodes s) -> calmN (modify f).
Proof. intros Hf. apply cn_same. intros s a s' H. inversion H. apply Hf. Qed.
Lemma cn_get_node j : calmN (get_node j). Proof. apply cn_same. intros s a s' H. apply get_node_spec in H as (-> & _). auto. Qed.
Lemma cn_get_ind i : calmN (get_ind i). Proof. apply cn_same. intros s a s' H. apply get_ind_spec in H as (-> & _). auto. Qed.
Lemma cn_draw_arr : calmN draw_arr. Proof. apply cn_same. intros s a s' H. unfold draw_arr in H. destruct (d_arr (dr s)); inversion H. auto. Qed.
Lemma cn_draw_batch : calmN draw_batch. Proof. apply cn_same. intros s a s' H. unfold draw_batch in H. destruct (d_batch (dr s)); inversion H. auto. Qed.
Lemma cn_draw_svc : calmN draw_svc. Proof. apply cn_same. intros s a s' H. unfold draw_svc in H. destruct (d_svc (dr s)); inversion H. auto. Qed.
Lemma cn_draw_unif : calmN draw_unif. Proof. apply cn_same. intros s a s' H. unfold draw_unif in H. destruct (d_unif (dr s)); inversion H. auto. Qed.
Lemma cn_draw_ren : calmN draw_ren. Proof. apply cn_same. intros s a s' H. unfold draw_ren in H. destruct (d_ren (dr s)); inversion H. auto. Qed.
Lemma cn_draw_cct : calmN draw_cct. Proof. apply cn_same. intros s a s' H. unfold draw_cct in H. destruct (d_cct (dr s)); inversion H. auto. Qed.
Lemma cn_bind {A B} (m : M A) (f : A -> M B) : calmN m -> (forall a, calmN (f a)) -> calmN (bind m f).
Proof.
  intros Hm Hf s b s' HN H. unfold bind in H. destruct (m s) as [[a s1]| |] eqn:E; try discriminate.
  destruct (Hm _ _ _ HN E) as [N1 B1]. destruct (Hf a _ _ _ N1 H) as [N2 B2]. split; [exact N2|]. intros i. rewrite B2. apply B1.
Qed.
Lemma cb_bind {A B} i0 b0 (m : M A) (f : A -> M B) : calmB i0 b0 m -> (forall a, calmB i0 b0 (f a)) -> calmB i0 b0 (bind m f).
Proof.
  intros Hm Hf s b s' Hk HN H. unfold bind in H. destruct (m s) as [[a s1]| |] eqn:E; try discriminate.
  destruct (Hm _ _ _ Hk HN E) as [N1 B1]. assert (Hk1 : at3 s1 i0 = Some b0) by (rewrite B1; exact Hk).
  destruct (Hf a _ _ _ Hk1 N1 H) as [N2 B2]. split; [exact N2|]. intros i. rewrite B2. apply B1.
Qed.
Lemma cn_get_node_bind {B} j (f : node -> M B) : (forall nd, n_nint nd <= 0 -> calmN (f nd)) -> calmN (bind (get_node j) f).
Proof.
  intros Hf s b s' HN H. unfold bind in H. destruct (get_node j s) as [[nd s1]| |] eqn:E; try discriminate.
  apply get_node_spec in E as (-> & _ & Hn). exact (Hf nd (NoInt_nth _ _ _ HN Hn) _ _ _ HN H).
Qed.
Lemma cb_get_node_bind {B} i0 b0 j (f : node -> M B) : (forall nd, n_nint nd <= 0 -> calmB i0 b0 (f nd)) -> calmB i0 b0 (bind (get_node j) f).
Proof.
  intros Hf s b s' Hk HN H. unfold bind in H. destruct (get_node j s) as [[nd s1]| |] eqn:E; try discriminate.
  apply get_node_spec in E as (-> & _ & Hn). exact (Hf nd (NoInt_nth _ _ _ HN Hn) _ _ _ Hk HN H).
Qed.
Lemma cn_put_node nd : n_nint nd <= 0 -> calmN (put_node nd).
Proof.
  intros Hn s a s' HN H. unfold put_node, modify in H. inversion H. split; [|reflexivity].
  unfold NoInt. cbn. unfold updZ. destruct (n_id nd - 1 <? 0); [exact HN|]. apply Forall_upd; assumption.
Qed.
Lemma cb_put_ind i0 b0 x' : i_id x' = i0 -> tr3 x' = b0 -> calmB i0 b0 (put_ind x').
Proof.
  intros Hid Hb s a s' Hk HN H. unfold put_ind, modify in H. inversion H. split; [exact HN|].
  intros i. unfold at3. cbn. rewrite find_put_l. destruct (Z.eqb_spec (i_id x') i) as [<-|Hne]; [|reflexivity].
  cbn. rewrite Hb. rewrite Hid. symmetry. exact Hk.
Qed.
Lemma cn_get_ind_then {B} i (F : ind -> M B) : (forall x, i_id x = i -> calmB i (tr3 x) (F x)) -> calmN (bind (get_ind i) F).
Proof.
  intros HF s b s' HN H. unfold bind in H. destruct (get_ind i s) as [[x s1]| |] eqn:E; try discriminate.
  unfold get_ind in E. destruct (find_ind i (inds s)) as [x0|] eqn:Ef; inversion E. subst x0 s1.
  apply (HF x (find_ind_id _ _ _ Ef) s b s'); [unfold at3; rewrite Ef; reflexivity|exact HN|exact H].
Qed.
Lemma cn_upd_ind i f : (forall x, i_id (f x) = i_id x) -> (forall x, tr3 (f x) = tr3 x) -> calmN (upd_ind i f).
Proof. intros H1 H2. unfold upd_ind. apply cn_get_ind_then. intros x Hx. apply cb_put_ind; [rewrite H1; exact Hx|apply H2]. Qed.
Lemma cn_upd_node j f : (forall nd, n_nint (f nd) <= n_nint nd) -> calmN (upd_node j f).
Proof. intros Hf. unfold upd_node. apply cn_get_node_bind. intros nd Hn. apply cn_put_node. specialize (Hf nd). lia. Qed.
Lemma cn_mapM {A B} (f : A -> M B) l : (forall a, calmN (f a)) -> calmN (mapM f l).
Proof. intros Hf. induction l as [|a r IH]; cbn [mapM]; [apply cn_ret|]. apply cn_bind; [apply Hf|]. intros b. apply cn_bind; [exact IH|]. intros bs. apply cn_ret. Qed.
Lemma cn_forM {A} (f : A -> M unit) l : (forall a, calmN (f a)) -> calmN (forM_ l f).
Proof. intros Hf. induction l as [|a r IH]; cbn [forM_]; [apply cn_ret|]. apply cn_bind; [apply Hf|]. intros _. exact IH. Qed.

Ltac cn_prim :=
  first [ apply cn_ret | apply cn_fail | apply cn_oof | apply cn_gets | apply cn_lift | apply cn_get_node | apply cn_get_ind
        | apply cn_draw_arr | apply cn_draw_batch | apply cn_draw_svc | apply cn_draw_unif | apply cn_draw_ren | apply cn_draw_cct
        | (apply cn_upd_ind; intros ?; reflexivity)
        | (apply cn_upd_node; intros ?; cbn; lia)
        | (apply cn_put_node; cbn; lia)
        | (apply cn_modify; intros ?; split; reflexivity) ].
Ltac cn_struct :=
  match goal with
  | |- calmN (bind (get_ind _) _) => apply cn_get_ind_then; intros ? ?
  | |- calmB _ _ (bind (get_ind _) _) => apply calmB_of_calmN, cn_get_ind_then; intros ? ?
  | |- calmN (bind (get_node _) _) => apply cn_get_node_bind; intros ? ?
  | |- calmB _ _ (bind (get_node _) _) => apply cb_get_node_bind; intros ? ?
  | |- calmN (bind _ _) => apply cn_bind; [|intros ?]
  | |- calmB _ _ (bind _ _) => apply cb_bind; [|intros ?]
  | |- calmN (mapM _ _) => apply cn_mapM; intros ?
  | |- calmN (forM_ _ _) => apply cn_forM; intros ?
  | |- calmN (if ?b then _ else _) => destruct b
  | |- calmN (match ?x with _ => _ end) => destruct x
  | |- calmB _ _ (if ?b then _ else _) => destruct b
  | |- calmB _ _ (match ?x with _ => _ end) => destruct x
  | |- calmB _ _ (put_ind _) => apply cb_put_ind; [cbn; assumption|reflexivity]
  | |- calmB _ _ _ => apply calmB_of_calmN
  end.
Tactic Notation "cn" "using" tactic(t) := repeat first [ t | cn_struct | cn_prim ].
Ltac cn0 := repeat first [ cn_struct | cn_prim ].

Section CalmWalk.
  Variable cf : config.
  Lemma cn_ncfg_of j : calmN (ncfg_of cf j). Proof. apply cn_lift. Qed.
  Lemma cn_tnow : calmN tnow. Proof. apply cn_gets. Qed.
  Lemma cn_log_rec r : calmN (log_rec r). Proof. apply cn_modify. intros s. split; reflexivity. Qed.
  Lemma cn_choice_uniform {X} (l : list X) : calmN (choice_uniform l). Proof. unfold choice_uniform. cn0. Qed.
  Lemma cn_choice_weighted den P : calmN (choice_weighted den P). Proof. unfold choice_weighted. cn0. Qed.
  Lemma cn_choose_next_customer j : calmN (choose_next_customer cf j).
  Proof. unfold choose_next_customer. cn using first [apply cn_ncfg_of | apply cn_choice_uniform]. Qed.
  Lemma cn_upd_server j sid f : calmN (upd_server j sid f). Proof. unfold upd_server. cn0. Qed.
  Lemma cn_find_next_class_change j : calmN (find_next_class_change j). Proof. unfold find_next_class_change. cn0. Qed.
  Lemma cn_cct_loop row : forall b best bc, calmN (cct_loop row b best bc).
  Proof. induction row as [|h r IH]; intros b best bc; cbn [cct_loop]; [apply cn_ret|]. cn using (apply IH). Qed.
  Lemma cn_decide_class_change j i : calmN (decide_class_change cf j i).
  Proof. unfold decide_class_change. cn using first [apply cn_cct_loop | apply cn_find_next_class_change | apply cn_tnow]. Qed.
  Lemma cn_reset_class_change j i : calmN (reset_class_change cf j i).
  Proof. unfold reset_class_change. cn using (apply cn_find_next_class_change). Qed.
  Lemma cn_stime_num x : calmN (stime_num x). Proof. unfold stime_num. cn0. Qed.
  Lemma cn_give_service_time_after_preemption i : calmN (give_service_time_after_preemption i).
  Proof. unfold give_service_time_after_preemption. cn0. Qed.
  Lemma cn_give_individual_a_service_time i : calmN (give_individual_a_service_time i).
  Proof. unfold give_individual_a_service_time. cn using (apply cn_give_service_time_after_preemption). Qed.
  Lemma cn_attach_server j sid i : calmN (attach_server j sid i). Proof. unfold attach_server. cn using (apply cn_upd_server). Qed.
  Lemma cn_set_next_end j sid d : calmN (set_next_end j sid d). Proof. unfold set_next_end. apply cn_upd_server. Qed.
  Lemma cn_kill_server j sid : calmN (kill_server j sid). Proof. unfold kill_server. cn using (apply cn_tnow). Qed.
  Lemma cn_detatch_server j sid i : calmN (detatch_server j sid i). Proof. unfold detatch_server. cn using first [apply cn_kill_server | apply cn_tnow]. Qed.
  Lemma cn_bump_rec i : calmN (bump_rec i). Proof. unfold bump_rec. cn0. Qed.
  Lemma cn_write_individual_record j i : calmN (write_individual_record cf j i).
  Proof. unfold write_individual_record. cn using first [apply cn_ncfg_of | apply cn_bump_rec | apply cn_log_rec]. Qed.
  Lemma cn_write_interruption_record j i d : calmN (write_interruption_record cf j i d).
  Proof. unfold write_interruption_record. cn using first [apply cn_ncfg_of | apply cn_bump_rec | apply cn_log_rec | apply cn_tnow]. Qed.
  Lemma cn_write_reneging_record j i : calmN (write_reneging_record j i).
  Proof. unfold write_reneging_record. cn using first [apply cn_bump_rec | apply cn_log_rec]. Qed.
  Lemma cn_write_br_record j i ty : calmN (write_br_record j i ty).
  Proof. unfold write_br_record. cn using first [apply cn_bump_rec | apply cn_log_rec | apply cn_tnow]. Qed.
  Lemma cn_reset_individual_attributes i : calmN (reset_individual_attributes i). Proof. unfold reset_individual_attributes. cn0. Qed.
End CalmWalk.

Section CalmWalk2.
  Variable cf : config.
  Lemma cn_valid_dest d : calmN (valid_dest d). Proof. unfold valid_dest. cn0. Qed.
  Lemma cn_jsq_loop lb ds : forall best acc, calmN (jsq_loop lb ds best acc).
  Proof. induction ds as [|d r IH]; intros best acc; cbn [jsq_loop]; [apply cn_ret|]. cn using (apply IH). Qed.
  Lemma cn_jsq_next lb ds order : calmN (jsq_next lb ds order).
  Proof. unfold jsq_next. cn using first [apply cn_jsq_loop | apply cn_choice_uniform]. Qed.
  Lemma cn_get_cyc c j : calmN (get_cyc c j). Proof. unfold get_cyc. cn0. Qed.
  Lemma cn_bump_cyc c j : calmN (bump_cyc c j).
  Proof.
    unfold bump_cyc. apply cn_modify. intros s. destruct (nthZ (cyc s) c) as [row|]; [|split; reflexivity].
    destruct (nthZ row (j - 1)); split; reflexivity.
  Qed.
  Lemma cn_node_router_next r c j : calmN (node_router_next r c j).
  Proof. unfold node_router_next. cn using first [apply cn_choice_weighted | apply cn_jsq_next | apply cn_get_cyc | apply cn_bump_cyc]. Qed.
  Lemma cn_next_node_for mode j i : calmN (next_node_for cf mode j i).
  Proof.
    unfold next_node_for.
    cn using first [apply cn_node_router_next | apply cn_valid_dest | apply cn_choice_uniform | apply cn_jsq_next].
  Qed.
  Lemma cn_start_fresh j i osid count : calmN (start_fresh cf j i osid count).
  Proof. unfold start_fresh. cn using first [apply cn_attach_server | apply cn_reset_class_change | apply cn_set_next_end | apply cn_tnow]. Qed.
  Lemma cn_start_give j i sid : calmN (start_give cf j i sid).
  Proof.
    unfold start_give.
    cn using first [apply cn_attach_server | apply cn_give_individual_a_service_time | apply cn_stime_num | apply cn_reset_class_change | apply cn_set_next_end | apply cn_tnow].
  Qed.
  Lemma cn_start_preemptor j i sid : calmN (start_preemptor cf j i sid).
  Proof.
    unfold start_preemptor.
    cn using first [apply cn_attach_server | apply cn_give_individual_a_service_time | apply cn_stime_num | apply cn_reset_class_change | apply cn_set_next_end | apply cn_tnow].
  Qed.
  (* with NoInt nobody is waiting to be resumed: begin_interrupted_individuals_service (which clears a blocked flag, F-02b) is not reached *)
  Lemma cn_serve_with j sid : calmN (serve_with cf j sid).
  Proof.
    unfold serve_with. apply cn_get_node_bind. intros nd Hn.
    destruct (0 <? n_nint nd) eqn:E; [apply Z.ltb_lt in E; lia|].
    cn using first [apply cn_choose_next_customer | apply cn_start_give].
  Qed.
  Lemma cn_begin_service_if_possible_release j freed : calmN (begin_service_if_possible_release cf j freed).
  Proof. unfold begin_service_if_possible_release. cn using (apply cn_serve_with). Qed.
  Lemma cn_get_reneging_date j i : calmN (get_reneging_date cf j i).
  Proof. unfold get_reneging_date. cn using first [apply cn_ncfg_of | apply cn_tnow]. Qed.
  Lemma cn_preempt_victim j i : calmN (preempt_victim cf j i).
  Proof. unfold preempt_victim. cn using (apply cn_ncfg_of). Qed.
  Lemma cn_decide_between l : calmN (decide_between l).
  Proof. unfold decide_between. destruct l as [|a [|b r]]; [apply cn_fail|apply cn_ret|apply cn_choice_uniform]. Qed.
  Lemma cn_has_space d : calmN (has_space cf d). Proof. unfold has_space. cn using (apply cn_ncfg_of). Qed.
  Lemma cn_keyed l : calmN (keyed l). Proof. unfold keyed. cn0. Qed.
  Lemma cn_sort_interrupted_individuals j : calmN (sort_interrupted_individuals j).
  Proof. unfold sort_interrupted_individuals. cn using (apply cn_keyed). Qed.
  Lemma cn_add_new_servers k j : calmN (add_new_servers k j).
  Proof. induction k as [|k IH]; cbn [add_new_servers]; [apply cn_ret|]. cn using first [apply IH | apply cn_tnow]. Qed.
  Lemma cn_begin_service_if_possible_change_shift j : calmN (begin_service_if_possible_change_shift cf j).
  Proof. unfold begin_service_if_possible_change_shift. cn using (apply cn_serve_with). Qed.
  Lemma cn_slot_loop k j : calmN (slot_loop cf k j).
  Proof.
    induction k as [|k IH]; cbn [slot_loop]; [apply cn_ret|].
    cn using first [apply IH | apply cn_choose_next_customer | apply cn_give_individual_a_service_time | apply cn_stime_num | apply cn_reset_class_change | apply cn_tnow].
  Qed.
  Lemma cn_update_next_event_date j : calmN (update_next_event_date cf j).
  Proof. unfold update_next_event_date. cn using first [apply cn_ncfg_of | apply cn_tnow]. Qed.
  Lemma cn_update_all js : calmN (update_all cf js).
  Proof. induction js as [|j r IH]; cbn [update_all]; [apply cn_ret|]. cn using first [apply IH | apply cn_update_next_event_date]. Qed.
  Lemma cn_find_next_event_date : calmN find_next_event_date.
  Proof. apply cn_modify. intros s. destruct (find_min_dates 1 (a_dates (arr s)) (None, 0, 0)) as [[d j] c]. split; reflexivity. Qed.
  Lemma cn_sys_population : calmN sys_population. Proof. unfold sys_population. cn0. Qed.
  Lemma cn_route_of i c : calmN (route_of cf i c). Proof. unfold route_of. cn0. Qed.
  Lemma cn_find_next_active_node : calmN find_next_active_node.
  Proof. unfold find_next_active_node. cn using (apply cn_choice_uniform). Qed.
End CalmWalk2.

Ltac cn_lem :=
  first [ apply cn_ncfg_of | apply cn_tnow | apply cn_log_rec | apply cn_choice_uniform | apply cn_choice_weighted | apply cn_choose_next_customer
        | apply cn_upd_server | apply cn_find_next_class_change | apply cn_cct_loop | apply cn_decide_class_change
        | apply cn_reset_class_change | apply cn_stime_num | apply cn_give_service_time_after_preemption
        | apply cn_give_individual_a_service_time | apply cn_attach_server | apply cn_set_next_end | apply cn_kill_server
        | apply cn_detatch_server | apply cn_bump_rec | apply cn_write_individual_record | apply cn_write_interruption_record
        | apply cn_write_reneging_record | apply cn_write_br_record | apply cn_reset_individual_attributes | apply cn_valid_dest
        | apply cn_jsq_loop | apply cn_jsq_next | apply cn_get_cyc | apply cn_bump_cyc | apply cn_node_router_next
        | apply cn_next_node_for | apply cn_start_fresh | apply cn_start_give | apply cn_start_preemptor
        | apply cn_serve_with | apply cn_begin_service_if_possible_release | apply cn_get_reneging_date
        | apply cn_preempt_victim | apply cn_decide_between | apply cn_has_space | apply cn_keyed
        | apply cn_sort_interrupted_individuals | apply cn_add_new_servers | apply cn_begin_service_if_possible_change_shift
        | apply cn_slot_loop | apply cn_update_next_event_date | apply cn_update_all | apply cn_find_next_event_date
        | apply cn_sys_population | apply cn_route_of | apply cn_find_next_active_node ].
Ltac cna := cn using cn_lem.
(* ---------- the measures: customers of node j whose blocked flag satisfies p ---------- *)
Definition cntb (p : Z * Z * bool -> bool) (s : sim) (j : Z) : Z :=
  match nthZ (nsh s) (j - 1) with Some t => zlen (filter (fun i => pz3 p (at3 s i)) (qof t)) | None => 0 end.
Definition cdb (p : Z * Z * bool -> bool) (c : call) : Z := 0.
Definition catb (p : Z * Z * bool -> bool) (j : Z) (c : call) : Z := if cnode c =? j then cdb p c else 0.
Definition netb (p : Z * Z * bool -> bool) (j : Z) (cs : list call) : Z := zsum (map (catb p j) cs).
Lemma netb_app p j a b : netb p j (a ++ b) = netb p j a + netb p j b.
Proof. unfold netb. rewrite map_app. apply zsum_app. Qed.
(* a step that changes neither the shape nor the flags changes no count *)
Lemma cntb_frame p s s' : nsh s' = nsh s -> (forall i, at3 s' i = at3 s i) -> forall j, cntb p s' j = cntb p s j.
Proof. intros E B j. unfold cntb. rewrite E. destruct (nthZ (nsh s) (j - 1)); [|reflexivity]. unfold zlen. do 2 f_equal. apply filter_ext. intros i. rewrite B. reflexivity. Qed.
(* flags of customers that are in no queue do not count *)
Lemma cntb_flags p s s' : nsh s' = nsh s -> (forall i k t, nth_error (nsh s) k = Some t -> In i (qof t) -> at3 s' i = at3 s i) -> forall j, cntb p s' j = cntb p s j.
Proof.
  intros E B j. unfold cntb. rewrite E. destruct (nthZ (nsh s) (j - 1)) as [t|] eqn:Et; [|reflexivity]. unfold zlen. do 2 f_equal.
  destruct (nthZ_nat _ _ _ Et) as (k & _ & Hk). apply filter_ext_in. intros i Hi. rewrite (B i k t Hk Hi). reflexivity.
Qed.
(* a node is written back: only its count changes *)
Lemma cntb_put_node p s nd nd0 : okn (shp s) nd0 -> n_id nd = n_id nd0 ->
  forall j, cntb p (s <| nodes := updZ (nodes s) (n_id nd - 1) nd |>) j =
            if j =? n_id nd0 then zlen (filter (fun i => pz3 p (at3 s i)) (concat (n_queues nd))) else cntb p s j.
Proof.
  intros Hok Hid j. unfold cntb.
  assert (E : nsh (s <| nodes := updZ (nodes s) (n_id nd - 1) nd |>) = updZ (nsh s) (n_id nd - 1) (nshape nd)) by (unfold nsh; cbn; apply tk_updZ_map).
  rewrite E, Hid. unfold okn in Hok. cbn [shp sh_ns] in Hok. fold (nsh s) in Hok.
  destruct (j =? n_id nd0) eqn:Ej.
  - apply Z.eqb_eq in Ej. rewrite Ej, (tk_nthZ_updZ_eq _ _ _ _ Hok). reflexivity.
  - apply Z.eqb_neq in Ej. rewrite tk_nthZ_updZ_neq by lia. reflexivity.
Qed.
(* ---------- the Hoare logic over W for these measures ---------- *)
Definition Lok (L : list (Z * (Z * Z * bool))) (s : sim) : Prop := forall i b, In (i, b) L -> at3 s i = Some b.
Definition hoB (p : Z * Z * bool -> bool) (K : shape -> Prop) (L : list (Z * (Z * Z * bool))) (fl fl' : list Z) (dl : Z -> Z) {X} (m : W X) : Prop :=
  forall s a s' cs, K (shp s) -> Lok L s -> WFx2 fl s -> NoInt s -> m s = Ok (a, s', cs) ->
    WFx2 fl' s' /\ NoInt s' /\ forall j, cntb p s' j - netb p j cs <= cntb p s j + dl j.

Section BLogic.
  Variable p : Z * Z * bool -> bool.
  Lemma B_ext K L fl fl' dl dl' {X} (m : W X) : hoB p K L fl fl' dl m -> (forall j, dl' j = dl j) -> hoB p K L fl fl' dl' m.
  Proof. intros H E s a s' cs HK HL HW HN Hm. destruct (H _ _ _ _ HK HL HW HN Hm) as (A & B & D). split; [auto|split; [auto|]]. intros j. rewrite E. apply D. Qed.
  Lemma B_weak (K : shape -> Prop) L fl fl' dl {X} (m : W X) : hoB p KT [] fl fl' dl m -> hoB p K L fl fl' dl m.
  Proof. intros H s a s' cs _ _ HW HN Hm. eapply H; [exact I| |exact HW|exact HN|exact Hm]. intros i b []. Qed.
  Lemma B_wret K L fl {X} (a : X) : hoB p K L fl fl z0 (wret a).
  Proof. intros s a0 s' cs _ _ HW HN H. unfold wret in H. injection H as <- <- <-. split; [auto|split; [auto|]]. intros j. unfold netb, z0. cbn. lia. Qed.
  Lemma B_up K L fl {X} (m : M X) : presK K m -> calmN m -> hoB p K L fl fl z0 (up m).
  Proof.
    intros Hp Hc s a s' cs HK _ HW HN H. unfold up in H. destruct (m s) as [[a1 s1]| |] eqn:E; try discriminate. injection H as <- <- <-.
    pose proof (Hp _ _ _ (WFx2_idx _ _ HW) HK E) as E1. destruct (Hc _ _ _ HN E) as [N1 B1].
    split; [eapply WFx2_shape; eauto|]. split; [exact N1|]. intros j. rewrite (cntb_frame p s s1 (f_equal sh_ns E1) B1). unfold netb, z0. cbn. lia.
  Qed.
  Lemma B_bind_pres K L fl fl' dl {X Y} (m : M X) (f : X -> W Y) : presK K m -> calmN m -> (forall a, hoB p K L fl fl' dl (f a)) ->
    hoB p K L fl fl' dl (wbind (up m) f).
  Proof.
    intros Hp Hc Hf s b s' cs HK HL HW HN H. unfold wbind, up in H. destruct (m s) as [[a s1]| |] eqn:E; try discriminate.
    destruct (f a s1) as [[[b1 s2] c2]| |] eqn:E2; try discriminate. injection H as <- <- <-. cbn [app].
    pose proof (Hp _ _ _ (WFx2_idx _ _ HW) HK E) as E1. destruct (Hc _ _ _ HN E) as [N1 B1].
    assert (HK1 : K (shp s1)) by (rewrite E1; exact HK).
    assert (HL1 : Lok L s1) by (intros i b0 Hi; rewrite B1; apply HL; exact Hi).
    destruct (Hf a _ _ _ _ HK1 HL1 (WFx2_shape _ _ _ E1 HW) N1 E2) as (A & B & D). split; [exact A|split; [exact B|]].
    intros j. specialize (D j). rewrite (cntb_frame p s s1 (f_equal sh_ns E1) B1) in D. exact D.
  Qed.
  Lemma B_bind K L fl1 fl2 fl3 d1 d2 {X Y} (m : W X) (f : X -> W Y) :
    hoB p K L fl1 fl2 d1 m -> (forall a, hoB p KT [] fl2 fl3 d2 (f a)) -> hoB p K L fl1 fl3 (fun j => d1 j + d2 j) (wbind m f).
  Proof.
    intros Hm Hf s b s' cs HK HL HW HN H. unfold wbind in H. destruct (m s) as [[[a s1] c1]| |] eqn:E; try discriminate.
    destruct (f a s1) as [[[b1 s2] c2]| |] eqn:E2; try discriminate. injection H as <- <- <-.
    destruct (Hm _ _ _ _ HK HL HW HN E) as (A1 & B1 & D1).
    destruct (Hf a _ _ _ _ I (fun i b0 (H0 : In (i, b0) []) => match H0 with end) A1 B1 E2) as (A2 & B2 & D2).
    split; [exact A2|split; [exact B2|]]. intros j. rewrite netb_app. specialize (D1 j). specialize (D2 j). lia.
  Qed.
  Lemma B_bind_z K L fl1 fl2 fl3 dl {X Y} (m : W X) (f : X -> W Y) :
    hoB p K L fl1 fl2 z0 m -> (forall a, hoB p KT [] fl2 fl3 dl (f a)) -> hoB p K L fl1 fl3 dl (wbind m f).
  Proof. intros Hm Hf. eapply B_ext; [eapply B_bind; eauto|]. intros j. unfold z0. lia. Qed.
  Lemma B_get_node_bind K L fl fl' dl {Y} j (f : node -> W Y) :
    (forall nd, n_id nd = j -> n_nint nd <= 0 -> hoB p (fun sh => K sh /\ okn sh nd) L fl fl' dl (f nd)) -> hoB p K L fl fl' dl (wbind (up (get_node j)) f).
  Proof.
    intros Hf s b s' cs HK HL HW HN H. unfold wbind, up in H. destruct (get_node j s) as [[nd s1]| |] eqn:E; try discriminate.
    apply get_node_spec in E as (-> & Hj & Hnd).
    destruct (f nd s) as [[[b1 s2] c2]| |] eqn:E2; try discriminate. injection H as <- <- <-. cbn [app].
    destruct (get_node_okn j s nd (WFx2_idx _ _ HW) Hnd) as [Hid Hok].
    exact (Hf nd Hid (NoInt_nth _ _ _ HN Hnd) _ _ _ _ (conj HK Hok) HL HW HN E2).
  Qed.
  Lemma B_get_ind_bind K L fl fl' dl {Y} i (f : ind -> W Y) :
    (forall x, i_id x = i -> hoB p (fun sh => K sh /\ oki sh x) ((i, tr3 x) :: L) fl fl' dl (f x)) -> hoB p K L fl fl' dl (wbind (up (get_ind i)) f).
  Proof.
    intros Hf s b s' cs HK HL HW HN H. unfold wbind, up in H. destruct (get_ind i s) as [[x s1]| |] eqn:E; try discriminate.
    assert (Hb : at3 s i = Some (tr3 x)).
    { unfold get_ind in E. unfold at3. destruct (find_ind i (inds s)); inversion E. reflexivity. }
    apply get_ind_spec in E as (-> & Hi & Hx).
    destruct (f x s) as [[[b1 s2] c2]| |] eqn:E2; try discriminate. injection H as <- <- <-. cbn [app].
    eapply (Hf x Hi); [exact (conj HK Hx)| |exact HW|exact HN|exact E2]. intros i0 b0 [Hq|Hq]; [injection Hq as <- <-; exact Hb|apply HL; exact Hq].
  Qed.
  Lemma B_lift_bind K L fl fl' dl {X Y} e (o : option X) (f : X -> W Y) :
    (forall a, o = Some a -> hoB p K L fl fl' dl (f a)) -> hoB p K L fl fl' dl (wbind (up (lift e o)) f).
  Proof.
    intros Hf s b s' cs HK HL HW HN H. destruct o as [a|]; [|discriminate]. unfold wbind, up in H. cbn in H.
    destruct (f a s) as [[[b1 s2] c2]| |] eqn:E2; try discriminate. injection H as <- <- <-. cbn [app]. exact (Hf a eq_refl _ _ _ _ HK HL HW HN E2).
  Qed.
  Lemma B_emit_bind K L fl fl' d2 {Y} c (f : W Y) : hoB p K L fl fl' d2 f -> hoB p K L fl fl' (fun j => d2 j - catb p j c) (wbind (emit c) (fun _ => f)).
  Proof.
    intros Hf s b s' cs HK HL HW HN H. unfold wbind, emit in H.
    destruct (f s) as [[[b1 s2] c2]| |] eqn:E2; try discriminate. injection H as <- <- <-.
    destruct (Hf _ _ _ _ HK HL HW HN E2) as (A & B & D). split; [exact A|split; [exact B|]].
    intros j. specialize (D j). unfold netb in *. cbn [app map]. change (zsum (catb p j c :: map (catb p j) c2)) with (catb p j c + zsum (map (catb p j) c2)). lia.
  Qed.
  Lemma B_bind_emit K L fl fl' d1 c (m : W unit) : hoB p K L fl fl' d1 m -> hoB p K L fl fl' (fun j => d1 j - catb p j c) (wbind m (fun _ => emit c)).
  Proof.
    intros Hm s b s' cs HK HL HW HN H. unfold wbind, emit in H.
    destruct (m s) as [[[a s1] c1]| |] eqn:E; try discriminate. injection H as <- <- <-.
    destruct (Hm _ _ _ _ HK HL HW HN E) as (A & B & D). split; [exact A|split; [exact B|]].
    intros j. specialize (D j). rewrite netb_app. unfold netb at 2. cbn [map]. change (zsum [catb p j c]) with (catb p j c + 0). lia.
  Qed.
End BLogic.
Section BMoves.
  Variable p : Z * Z * bool -> bool.
  (* customer i (flag b) is taken out of a queue of node j *)
  Lemma B_put_rm (K : shape -> Prop) L fl i b nd j :
    n_id nd = j -> n_nint nd <= 0 -> In (i, b) L ->
    (forall sh, K sh -> exists nd0 p0 q q', okn sh nd0 /\ nthZ (n_queues nd0) p0 = Some q /\ remove_first i q = Some q' /\
                        n_id nd = n_id nd0 /\ n_pop nd = n_pop nd0 - 1 /\ n_queues nd = updZ (n_queues nd0) p0 q') ->
    hoB p K L fl (i :: fl) (fun j0 => if j0 =? j then - bz (p b) else 0) (up (put_node nd)).
  Proof.
    intros Hj Hn Hib HS s a s' cs HK HL HW HN H.
    destruct (HS _ HK) as (nd0 & p0 & q & q' & Hok & Hq & Hr & Hid & Hpop & Hqs).
    assert (E : put_node nd s = Ok (tt, s <| nodes := updZ (nodes s) (n_id nd - 1) nd |>)) by reflexivity.
    destruct (trK_put_node_rm K fl i nd HS s tt _ HK HW E) as [W1 _].
    unfold up in H. rewrite E in H. injection H as <- <- <-.
    split; [exact W1|]. split; [apply NoInt_put; assumption|].
    intros j0. rewrite (cntb_put_node p s nd nd0 Hok Hid). unfold netb. cbn [map zsum fold_right]. rewrite <- Hj, Hid.
    destruct (j0 =? n_id nd0) eqn:Ej; [|lia]. apply Z.eqb_eq in Ej. rewrite Ej.
    unfold cntb. unfold okn in Hok. cbn [shp sh_ns] in Hok. fold (nsh s) in Hok. rewrite Hok. unfold qof, nshape. cbn [snd].
    assert (P : Permutation (concat (n_queues nd0)) (i :: concat (n_queues nd))).
    { rewrite Hqs. destruct (nthZ_nat _ _ _ Hq) as (kp & -> & Hqk). rewrite updZ_nat. symmetry.
      eapply concat_upd_rm; [exact Hqk|]. apply remove_first_perm. exact Hr. }
    unfold zlen at 2. rewrite (tk_filter_len_perm _ _ _ P). fold (zlen (filter (fun i0 : Z => pz3 p (at3 s i0)) (i :: concat (n_queues nd)))).
    rewrite zlen_filter_cons, (HL i b Hib). cbn [pz3]. lia.
  Qed.
  (* customer i (flag b), in flight, is appended to a queue of node j *)
  Lemma B_put_add (K : shape -> Prop) L fl i b nd j :
    n_id nd = j -> n_nint nd <= 0 -> In (i, b) L ->
    (forall sh, K sh -> exists nd0 p0 q, okn sh nd0 /\ nthZ (n_queues nd0) p0 = Some q /\
                        n_id nd = n_id nd0 /\ n_pop nd = n_pop nd0 + 1 /\ n_queues nd = updZ (n_queues nd0) p0 (q ++ [i])) ->
    hoB p K L (i :: fl) fl (fun j0 => if j0 =? j then bz (p b) else 0) (up (put_node nd)).
  Proof.
    intros Hj Hn Hib HS s a s' cs HK HL HW HN H.
    destruct (HS _ HK) as (nd0 & p0 & q & Hok & Hq & Hid & Hpop & Hqs).
    assert (E : put_node nd s = Ok (tt, s <| nodes := updZ (nodes s) (n_id nd - 1) nd |>)) by reflexivity.
    destruct (trK_put_node_add K fl i nd HS s tt _ HK HW E) as [W1 _].
    unfold up in H. rewrite E in H. injection H as <- <- <-.
    split; [exact W1|]. split; [apply NoInt_put; assumption|].
    intros j0. rewrite (cntb_put_node p s nd nd0 Hok Hid). unfold netb. cbn [map zsum fold_right]. rewrite <- Hj, Hid.
    destruct (j0 =? n_id nd0) eqn:Ej; [|lia]. apply Z.eqb_eq in Ej. rewrite Ej.
    unfold cntb. unfold okn in Hok. cbn [shp sh_ns] in Hok. fold (nsh s) in Hok. rewrite Hok. unfold qof, nshape. cbn [snd].
    assert (P : Permutation (concat (n_queues nd)) (i :: concat (n_queues nd0))).
    { rewrite Hqs. destruct (nthZ_nat _ _ _ Hq) as (kp & -> & Hqk). rewrite updZ_nat.
      eapply concat_upd_add; [exact Hqk|]. rewrite Permutation_app_comm. reflexivity. }
    unfold zlen at 1. rewrite (tk_filter_len_perm _ _ _ P). fold (zlen (filter (fun i0 : Z => pz3 p (at3 s i0)) (i :: concat (n_queues nd0)))).
    rewrite zlen_filter_cons, (HL i b Hib). cbn [pz3]. lia.
  Qed.
  (* the queues of a node are rearranged *)
  Lemma B_put_mv (K : shape -> Prop) L fl nd :
    n_nint nd <= 0 ->
    (forall sh, K sh -> exists nd0, okn sh nd0 /\ n_id nd = n_id nd0 /\ n_pop nd = n_pop nd0 /\
                        Permutation (concat (n_queues nd)) (concat (n_queues nd0))) ->
    hoB p K L fl fl z0 (up (put_node nd)).
  Proof.
    intros Hn HS s a s' cs HK HL HW HN H.
    destruct (HS _ HK) as (nd0 & Hok & Hid & Hpop & P).
    assert (E : put_node nd s = Ok (tt, s <| nodes := updZ (nodes s) (n_id nd - 1) nd |>)) by reflexivity.
    destruct (trK_put_node_mv K fl nd HS s tt _ HK HW E) as [W1 _].
    unfold up in H. rewrite E in H. injection H as <- <- <-.
    split; [exact W1|]. split; [apply NoInt_put; assumption|].
    intros j0. rewrite (cntb_put_node p s nd nd0 Hok Hid). unfold netb, z0. cbn [map zsum fold_right].
    destruct (j0 =? n_id nd0) eqn:Ej; [|lia]. apply Z.eqb_eq in Ej. rewrite Ej.
    unfold cntb. unfold okn in Hok. cbn [shp sh_ns] in Hok. fold (nsh s) in Hok. rewrite Hok. unfold qof, nshape. cbn [snd].
    unfold zlen. rewrite (tk_filter_len_perm _ _ _ P). lia.
  Qed.
  (* the record of a customer in flight is rewritten *)
  Lemma B_put_ind_fl_bind (K : shape -> Prop) L fl fl' dl {Y} x (f : W Y) :
    In (i_id x) fl -> hoB p K [(i_id x, tr3 x)] fl fl' dl f -> hoB p K L fl fl' dl (wbind (up (put_ind x)) (fun _ => f)).
  Proof.
    intros Hi Hf s b s' cs HK HL HW HN H. unfold wbind, up, put_ind, modify in H.
    set (s1 := s <| inds := put_ind_l x (inds s) |>) in *.
    destruct (f s1) as [[[b1 s2] c2]| |] eqn:E2; try discriminate. injection H as <- <- <-. cbn [app].
    assert (Es : shp s1 = shp s).
    { unfold shp, s1. cbn. f_equal. apply put_ind_l_ids_in. apply (WFx2_fl_in _ _ _ HW Hi). }
    assert (Hbl : forall i, at3 s1 i = if i_id x =? i then Some (tr3 x) else at3 s i).
    { intros i. unfold at3, s1. cbn. rewrite find_put_l. destruct (i_id x =? i); reflexivity. }
    assert (HL1 : Lok [(i_id x, tr3 x)] s1).
    { intros i0 b0 [Hq|[]]. injection Hq as <- <-. rewrite Hbl, Z.eqb_refl. reflexivity. }
    assert (HK1 : K (shp s1)) by (rewrite Es; exact HK).
    destruct (Hf _ _ _ _ HK1 HL1 (WFx2_shape _ _ _ Es HW) HN E2) as (A & B & D). split; [exact A|split; [exact B|]].
    intros j. specialize (D j). rewrite (cntb_flags p s s1 (f_equal sh_ns Es)) in D; [exact D|].
    intros i k t Hk Hin. rewrite Hbl. destruct (Z.eqb_spec (i_id x) i) as [<-|]; [|reflexivity].
    exfalso. exact (WFx2_fl_notin _ _ _ _ _ HW Hi Hk Hin).
  Qed.
  (* the blocked flag of a customer waiting in node j is rewritten *)
  Lemma B_put_ind_q_bind (K : shape -> Prop) L fl fl' d2 {Y} x b0 j (f : W Y) :
    In (i_id x, b0) L ->
    (forall sh, K sh -> oki sh x /\ exists t, nthZ (sh_ns sh) (j - 1) = Some t /\ In (i_id x) (qof t)) ->
    hoB p K [(i_id x, tr3 x)] fl fl' d2 f ->
    hoB p K L fl fl' (fun j0 => d2 j0 + (if j0 =? j then bz (p (tr3 x)) - bz (p b0) else 0)) (wbind (up (put_ind x)) (fun _ => f)).
  Proof.
    intros Hib HS Hf s b s' cs HK HL HW HN H. unfold wbind, up, put_ind, modify in H.
    set (s1 := s <| inds := put_ind_l x (inds s) |>) in *.
    destruct (f s1) as [[[b1 s2] c2]| |] eqn:E2; try discriminate. injection H as <- <- <-. cbn [app].
    destruct (HS _ HK) as (Hoki & t & Ht & Hin).
    assert (Es : shp s1 = shp s) by (unfold shp, s1; cbn; f_equal; apply put_ind_l_ids_in; exact Hoki).
    assert (Hbl : forall i, at3 s1 i = if i_id x =? i then Some (tr3 x) else at3 s i).
    { intros i. unfold at3, s1. cbn. rewrite find_put_l. destruct (i_id x =? i); reflexivity. }
    assert (HL1 : Lok [(i_id x, tr3 x)] s1).
    { intros i0 b1' [Hq|[]]. injection Hq as <- <-. rewrite Hbl, Z.eqb_refl. reflexivity. }
    assert (HK1 : K (shp s1)) by (rewrite Es; exact HK).
    destruct (Hf _ _ _ _ HK1 HL1 (WFx2_shape _ _ _ Es HW) HN E2) as (A & B & D). split; [exact A|split; [exact B|]].
    intros j0. specialize (D j0).
    assert (C : cntb p s1 j0 = cntb p s j0 + (if j0 =? j then bz (p (tr3 x)) - bz (p b0) else 0)); [|lia].
    pose proof (WFx2_nodup _ _ HW) as Hnd. apply NoDup_app_left in Hnd.
    cbn [shp sh_ns] in Ht. fold (nsh s) in Ht. destruct (nthZ_nat _ _ _ Ht) as (k & Hk & Hkt).
    unfold cntb. rewrite (f_equal sh_ns Es : nsh s1 = nsh s).
    destruct (j0 =? j) eqn:Ej.
    - apply Z.eqb_eq in Ej. rewrite Ej, Ht.
      rewrite (tk_filter_change (fun i => pz3 p (at3 s i)) (fun i => pz3 p (at3 s1 i)) (qof t) (i_id x)).
      + rewrite Hbl, Z.eqb_refl, (HL _ _ Hib). cbn [pz3]. reflexivity.
      + eapply (tk_NoDup_concat_nth (map qof (nsh s)) k); [exact Hnd|]. rewrite nth_error_map, Hkt. reflexivity.
      + exact Hin.
      + intros i' Hne. rewrite Hbl. destruct (Z.eqb_spec (i_id x) i'); [congruence|reflexivity].
    - apply Z.eqb_neq in Ej. destruct (nthZ (nsh s) (j0 - 1)) as [t0|] eqn:Et0; [|lia].
      destruct (nthZ_nat _ _ _ Et0) as (k0 & Hk0 & Hkt0).
      assert (E : filter (fun i => pz3 p (at3 s1 i)) (qof t0) = filter (fun i => pz3 p (at3 s i)) (qof t0)); [|rewrite E; lia].
      apply filter_ext_in. intros i' Hi'. rewrite Hbl. destruct (Z.eqb_spec (i_id x) i') as [<-|]; [|reflexivity]. exfalso.
      apply (tk_NoDup_concat_disj (map qof (nsh s)) k k0 (qof t) (qof t0) (i_id x) Hnd); try assumption.
      + rewrite nth_error_map, Hkt. reflexivity.
      + rewrite nth_error_map, Hkt0. reflexivity.
      + lia.
  Qed.
  (* the customer in flight reaches the exit *)
  Lemma B_exit_accept (K : shape -> Prop) L fl i c : hoB p K L (i :: fl) fl z0 (up (exit_accept i c)).
  Proof.
    intros s a s' cs HK HL HW HN H. unfold up in H. destruct (exit_accept i c s) as [[a1 s1]| |] eqn:E; try discriminate. injection H as <- <- <-.
    destruct (tr_exit_accept i c fl s a1 s1 I HW E) as [W1 _]. unfold exit_accept, bind, del_ind, modify in E. injection E as <- <-.
    split; [exact W1|]. split; [exact HN|].
    intros j. unfold netb, z0. cbn [map zsum fold_right].
    match goal with |- cntb p ?st j - 0 <= _ => rewrite (cntb_flags p s st eq_refl) end; [lia|].
    intros i' k t Hk Hin. unfold at3. cbn. rewrite find_del_l; [reflexivity|]. intros ->.
    exact (WFx2_fl_notin _ _ _ _ _ HW (or_introl eq_refl) Hk Hin).
  Qed.
End BMoves.

Section BLogic2.
  Variable p : Z * Z * bool -> bool.
  (* a frame step that writes back the record of a customer whose flag is remembered in L *)
  Lemma B_bind_presB K L fl fl' dl {X Y} i0 b0 (m : M X) (f : X -> W Y) : presK K m -> In (i0, b0) L -> calmB i0 b0 m ->
    (forall a, hoB p K L fl fl' dl (f a)) -> hoB p K L fl fl' dl (wbind (up m) f).
  Proof.
    intros Hp Hin Hc Hf s b s' cs HK HL HW HN H. unfold wbind, up in H. destruct (m s) as [[a s1]| |] eqn:E; try discriminate.
    destruct (f a s1) as [[[b1 s2] c2]| |] eqn:E2; try discriminate. injection H as <- <- <-. cbn [app].
    pose proof (Hp _ _ _ (WFx2_idx _ _ HW) HK E) as E1. destruct (Hc _ _ _ (HL _ _ Hin) HN E) as [N1 B1].
    assert (HK1 : K (shp s1)) by (rewrite E1; exact HK).
    assert (HL1 : Lok L s1) by (intros i b' Hi; rewrite B1; apply HL; exact Hi).
    destruct (Hf a _ _ _ _ HK1 HL1 (WFx2_shape _ _ _ E1 HW) N1 E2) as (A & B & D). split; [exact A|split; [exact B|]].
    intros j. specialize (D j). rewrite (cntb_frame p s s1 (f_equal sh_ns E1) B1) in D. exact D.
  Qed.
  Lemma B_oof K L fl fl' dl {X} : hoB p K L fl fl' dl (up (@oof X)).
  Proof. intros s a s' cs _ _ _ _ H. discriminate. Qed.
End BLogic2.

Ltac hb_struct :=
  match goal with
  | |- hoB _ _ _ _ _ _ (wbind (up (get_node _)) _) => apply B_get_node_bind; intros ? ? ?
  | |- hoB _ _ _ _ _ _ (wbind (up (get_ind _)) _) => apply B_get_ind_bind; intros ? ?
  | |- hoB _ _ _ _ _ _ (wbind (up (lift _ _)) _) => apply B_lift_bind; intros ? ?
  | |- hoB _ _ _ _ _ _ (wbind (up _) _) =>
      first [ (apply B_bind_pres; [solve [pka]|solve [cna]|intros ?])
            | (eapply B_bind_presB; [solve [pka]|left; reflexivity|solve [cna]|intros ?]) ]
  | |- hoB _ _ _ _ _ _ (if ?b then _ else _) => destruct b
  | |- hoB _ _ _ _ _ _ (match ?x with _ => _ end) => destruct x
  | |- hoB _ _ _ _ _ _ (up _) => apply B_up; [solve [pka]|solve [cna]]
  | |- hoB _ _ _ _ _ _ (wret _) => apply B_wret
  end.
Tactic Notation "hb" "using" tactic(t) :=
  repeat first [ progress cbv zeta | (apply B_weak; t) | t | hb_struct | (eapply B_bind_z; [|intros ?]) ].
Lemma hoB_eq p K L fl fl' dl {X} (m m' : W X) : (forall s, m s = m' s) -> hoB p K L fl fl' dl m -> hoB p K L fl fl' dl m'.
Proof. intros E H s a s' cs HK HL HW HN Hm. rewrite <- E in Hm. eapply H; eauto. Qed.

Lemma B_le p K L fl fl' dl dl' {X} (m : W X) : hoB p K L fl fl' dl m -> (forall j, dl j <= dl' j) -> hoB p K L fl fl' dl' m.
Proof. intros H E s a s' cs HK HL HW HN Hm. destruct (H _ _ _ _ HK HL HW HN Hm) as (A & B & D). split; [auto|split; [auto|]]. intros j. specialize (D j). specialize (E j). lia. Qed.
Lemma B_consK p (K K' : shape -> Prop) L fl fl' dl {X} (m : W X) : (forall sh, K' sh -> K sh) -> hoB p K L fl fl' dl m -> hoB p K' L fl fl' dl m.
Proof. intros HKK H s a s' cs HK HL HW HN Hm. eapply H; [apply HKK; exact HK|exact HL|exact HW|exact HN|exact Hm]. Qed.
Lemma B_get_ind_bind2 p K L fl fl' dl {Y} i (f : ind -> W Y) :
  (forall x, i_id x = i -> (forall b, In (i, b) L -> tr3 x = b) -> hoB p (fun sh => K sh /\ oki sh x) ((i, tr3 x) :: L) fl fl' dl (f x)) ->
  hoB p K L fl fl' dl (wbind (up (get_ind i)) f).
Proof.
  intros Hf s b s' cs HK HL HW HN H. unfold wbind, up in H. destruct (get_ind i s) as [[x s1]| |] eqn:E; try discriminate.
  assert (Hb : at3 s i = Some (tr3 x)).
  { unfold get_ind in E. unfold at3. destruct (find_ind i (inds s)); inversion E. reflexivity. }
  apply get_ind_spec in E as (-> & Hi & Hx).
  destruct (f x s) as [[[b1 s2] c2]| |] eqn:E2; try discriminate. injection H as <- <- <-. cbn [app].
  eapply (Hf x Hi); [|exact (conj HK Hx)| |exact HW|exact HN|exact E2].
  - intros b0 Hin. pose proof (HL _ _ Hin) as Hq. rewrite Hb in Hq. injection Hq as Hq. exact Hq.
  - intros i0 b0 [Hq|Hq]; [injection Hq as <- <-; exact Hb|apply HL; exact Hq].
Qed.
Definition rmv (j : Z) (a : Z * Z * bool) : Z -> Z := fun j0 => if j0 =? j then - bz (bad a) else 0.
Lemma rmv_le j a j0 : rmv j a j0 <= z0 j0.
Proof. unfold rmv, z0, bz. destruct (j0 =? j), (bad a); lia. Qed.

Ltac ifs := repeat match goal with |- context [if ?b then _ else _] => destruct b end.
Section BWalk.
  Variable cf : config.
  Notation B0 fl fl' m := (hoB bad KT [] fl fl' z0 m).

  Lemma hb_core : forall f,
    (forall j i d rr fl a, hoB bad KT [(i, a)] fl fl (rmv j a) (releaseW cf f j i d rr)) /\
    (forall j i d rr fl, B0 fl fl (releaseW cf f j i d rr)) /\
    (forall j fl, B0 fl fl (release_blocked_individualW cf f j)) /\
    (forall j i fl, B0 (i :: fl) fl (acceptW cf f j i)) /\
    (forall j v i fl, B0 fl fl (preemptW cf f j v i)).
  Proof.
    induction f as [|f (IHr1 & IHr0 & IHb & IHa & IHp)].
    - split; [|split; [|split; [|split]]]; intros; simpl; apply B_oof.
    - split; [|split; [|split; [|split]]].
      + intros j i d rr fl a. simpl releaseW.
        apply B_bind_pres; [solve [pka]|solve [cna]|intros t].
        apply B_get_ind_bind; intros x Hx.
        apply B_get_node_bind; intros nd Hid Hn.
        apply B_bind_pres; [solve [pka]|solve [cna]|intros nc].
        apply B_lift_bind; intros q Hq. apply B_lift_bind; intros q' Hq'.
        cbv zeta.
        eapply B_ext; [eapply B_bind; [apply B_put_rm with (i := i) (b := a) (j := j); [exact Hid|cbn; lia|right; left; reflexivity|]|intros _]|].
        * intros sh ((_ & _) & Hok). exists nd, (i_pprio x), q, q'. repeat split; assumption || reflexivity.
        * apply B_put_ind_fl_bind; [left; symmetry; exact Hx|].
          do 4 hb_struct.
          eapply B_emit_bind.
          hb using first [apply B_exit_accept | apply IHa | apply IHb].
        * intros j0. unfold rmv, catb, z0, cdb. ifs; lia.
      + intros j i d rr fl. simpl releaseW.
        apply B_bind_pres; [solve [pka]|solve [cna]|intros t].
        apply B_get_ind_bind; intros x Hx.
        eapply B_le; [|intros j0; apply (rmv_le j (tr3 x))].
        apply B_get_node_bind; intros nd Hid Hn.
        apply B_bind_pres; [solve [pka]|solve [cna]|intros nc].
        apply B_lift_bind; intros q Hq. apply B_lift_bind; intros q' Hq'.
        cbv zeta.
        eapply B_ext; [eapply B_bind; [apply B_put_rm with (i := i) (b := tr3 x) (j := j); [exact Hid|cbn; lia|left; reflexivity|]|intros _]|].
        * intros sh ((_ & _) & Hok). exists nd, (i_pprio x), q, q'. repeat split; assumption || reflexivity.
        * apply B_put_ind_fl_bind; [left; symmetry; exact Hx|].
          do 4 hb_struct.
          eapply B_emit_bind.
          hb using first [apply B_exit_accept | apply IHa | apply IHb].
        * intros j0. unfold rmv, catb, z0, cdb. ifs; lia.
      + intros j fl. simpl release_blocked_individualW. hb using (apply IHr0).
      + intros j i fl. simpl acceptW.
        apply B_get_ind_bind; intros x Hx.
        apply B_get_node_bind; intros nd Hid Hn.
        eapply B_ext; [eapply B_bind_emit|].
        * apply B_put_ind_fl_bind; [left; symmetry; exact Hx|].
          apply B_lift_bind; intros qs Hqs.
          eapply B_bind; [apply B_put_add with (i := i) (b := (i_cls x, i_cls x, false)) (j := j); [exact Hid|cbn; lia|left; f_equal; exact Hx|]|intros _].
          -- intros sh ((_ & _) & Hok). destruct (nthZ (n_queues nd) (i_prio x)) as [q|] eqn:Eq; [|discriminate].
             injection Hqs as <-. exists nd, (i_prio x), q. repeat split; assumption || reflexivity.
          -- hb using (apply IHp).
        * intros j0. unfold catb, z0, cdb, bad. cbn [fst snd negb andb]. rewrite Z.eqb_refl. cbn [negb bz]. ifs; lia.
      + intros j v i fl. simpl preemptW. hb using (apply IHr0).
  Qed.
End BWalk.

Definition fs_tail2W (cf : config) (j : Z) (nd : node) (i : Z) : W unit :=
  nc <~ up (ncfg_of cf j) ;; x <~ up (get_ind i) ;;
  match nc_ccm nc with
  | None => CP.fs_restW cf j nd i
  | Some m =>
    row <~ up (lift E_Config (nthZ m (i_cls x))) ;;
    k <~ up (choice_weighted 8 row) ;;
    p' <~ up (lift E_Config (nthZ (cf_prio cf) (Z.of_nat k))) ;;
    up (put_ind (x <| i_pcls := i_cls x |> <| i_cls := Z.of_nat k |> <| i_pprio := i_prio x |> <| i_prio := p' |>)) ;;~
    CP.fs_restW cf j nd i
  end.
Lemma fs_ccc_split cf j nd i s : fs_tailW cf j nd i s = fs_tail2W cf j nd i s.
Proof.
  rewrite CP.fs_tail_split. unfold fs_tail2W, change_customer_class, wbind, up, bind.
  destruct (ncfg_of cf j s) as [[nc s1]| |]; [|reflexivity|reflexivity].
  destruct (get_ind i s1) as [[x s2]| |]; [|reflexivity|reflexivity].
  destruct (nc_ccm nc) as [m|].
  - destruct (lift E_Config (nthZ m (i_cls x)) s2) as [[row s3]| |]; [|reflexivity|reflexivity].
    destruct (choice_weighted 8 row s3) as [[k s4]| |]; [|reflexivity|reflexivity].
    destruct (lift E_Config (nthZ (cf_prio cf) (Z.of_nat k)) s4) as [[p' s5]| |]; [|reflexivity|reflexivity].
    unfold put_ind, modify. destruct (CP.fs_restW cf j nd i _) as [[[b s6] c6]| |]; reflexivity.
  - unfold ret. destruct (CP.fs_restW cf j nd i s2) as [[[b s6] c6]| |]; reflexivity.
Qed.

Section BWalk2.
  Variable cf : config.
  Hypothesis Hscope : scope_int cf = true.
  Notation B0 fl fl' m := (hoB bad KT [] fl fl' z0 m).
  Notation p := bad (only parsing).

  Lemma hb_release1 f j i d rr fl a : hoB bad KT [(i, a)] fl fl (rmv j a) (releaseW cf f j i d rr). Proof. apply hb_core. Qed.
  Lemma hb_release0 f j i d rr fl : B0 fl fl (releaseW cf f j i d rr). Proof. apply hb_core. Qed.
  Lemma hb_rbi f j fl : B0 fl fl (release_blocked_individualW cf f j). Proof. apply hb_core. Qed.
  Lemma hb_accept f j i fl : B0 (i :: fl) fl (acceptW cf f j i). Proof. apply hb_core. Qed.
  Lemma hb_preempt f j v i fl : B0 fl fl (preemptW cf f j v i). Proof. apply hb_core. Qed.

  Lemma B_forMW K L fl {X} (l : list X) (f : X -> W unit) : (forall a, B0 fl fl (f a)) -> hoB bad K L fl fl z0 (forMW l f).
  Proof. intros Hf. apply B_weak. induction l as [|a r IH]; cbn [forMW]; [apply B_wret|]. eapply B_bind_z; [apply Hf|intros _; exact IH]. Qed.

  (* finish_service after change_customer_class: customer i (attribute a) of node j leaves or becomes blocked *)
  Lemma hb_fs_rest j nd i fl a : hoB bad (inq i j) [(i, a)] fl fl (rmv j a) (CP.fs_restW cf j nd i).
  Proof.
    unfold CP.fs_restW.
    do 6 hb_struct.
    - hb_struct. apply (B_consK bad KT); [intros; exact I|]. apply hb_release1.
    - apply B_get_ind_bind; intros x Hx.
      eapply B_ext; [eapply B_put_ind_q_bind with (b0 := a) (j := j)|].
      + right. left. f_equal. symmetry. exact Hx.
      + intros sh [Hq Hoki]. split; [exact Hoki|]. destruct Hq as (t & Ht & Hin). exists t. split; [exact Ht|]. cbn. rewrite Hx. exact Hin.
      + eapply B_emit_bind. apply B_up; [solve [pka]|solve [cna]].
      + intros j0. unfold rmv, catb, z0, cdb, bad. cbn [tr3 fst snd negb andb bz]. cbn. ifs; lia.
  Qed.
  (* finish_service after its candidate i, a customer of node j, has been chosen *)
  Lemma hb_fs_tail j nd i fl : hoB bad (inq i j) [] fl fl z0 (fs_tailW cf j nd i).
  Proof.
    apply (hoB_eq bad (inq i j) [] fl fl z0 (fs_tail2W cf j nd i) (fs_tailW cf j nd i)); [intros s; symmetry; apply fs_ccc_split|]. unfold fs_tail2W.
    hb_struct.
    apply B_get_ind_bind; intros x Hx.
    eapply B_le; [|intros j0; apply (rmv_le j (tr3 x))].
    match goal with |- context [nc_ccm ?n] => destruct (nc_ccm n) as [m|] end.
    - apply B_lift_bind; intros row Hrow. hb_struct. apply B_lift_bind; intros p' Hp'.
      rewrite <- Hx.
      eapply B_ext; [eapply B_put_ind_q_bind with (b0 := tr3 x) (j := j)|].
      + left. reflexivity.
      + intros sh [Hq Hoki]. split; [exact Hoki|]. destruct Hq as (t & Ht & Hin). exists t. split; [exact Ht|]. exact Hin.
      + apply (B_consK bad (inq (i_id x) j)); [intros sh [Hq _]; exact Hq|]. apply hb_fs_rest.
      + intros j0. unfold rmv, z0, bz. ifs; lia.
    - apply (B_consK bad (inq i j)); [intros sh [Hq _]; exact Hq|]. apply hb_fs_rest.
  Qed.

  Lemma hb_ren_tail j t i fl : B0 fl fl (ren_tailW cf j t i).
  Proof.
    unfold ren_tailW.
    apply B_bind_pres; [solve [pka]|solve [cna]|intros _].
    apply B_bind_pres; [solve [pka]|solve [cna]|intros d].
    apply B_get_ind_bind; intros x Hx.
    eapply B_le; [|intros j0; apply (rmv_le j (tr3 x))].
    apply B_get_node_bind; intros nd1 Hid1 Hn1.
    apply B_lift_bind; intros q Hq. apply B_lift_bind; intros q' Hq'.
    cbv zeta.
    eapply B_ext; [eapply B_bind; [apply B_put_rm with (i := i) (b := tr3 x) (j := j); [exact Hid1|cbn; lia|left; reflexivity|]|intros _]|].
    - intros sh ((_ & _) & Hok). exists nd1, (i_pprio x), q, q'. repeat split; assumption || reflexivity.
    - do 4 hb_struct.
      eapply B_emit_bind.
      hb using first [apply B_exit_accept | apply hb_accept | apply hb_rbi].
    - intros j0. unfold rmv, catb, z0, cdb. ifs; lia.
  Qed.

  Lemma hb_interrupt_service f j i fl : B0 fl fl (interrupt_serviceW cf f j i 4).
  Proof. unfold interrupt_serviceW. change (4 =? 4) with true. cbv iota. hb using (apply hb_release0). Qed.
  Lemma hb_off_duty_loop k f j se fl : forall idx, B0 fl fl (off_duty_loopW cf k f j idx 4 se).
  Proof. induction k as [|k IH]; intros idx; cbn [off_duty_loopW]; [apply B_wret|]. hb using first [apply hb_interrupt_service | apply IH]. Qed.
  Lemma hb_take_servers_off_duty f j pre fl : pre = 0 \/ pre = 4 -> B0 fl fl (take_servers_off_dutyW cf f j pre).
  Proof.
    intros [-> | ->]; unfold take_servers_off_dutyW.
    - change (0 =? 0) with true. cbv iota. hb using fail.
    - change (4 =? 0) with false. cbv iota. hb using (apply hb_off_duty_loop).
  Qed.
  Lemma scope_nc j nc : nthZ (cf_nodes cf) (j - 1) = Some nc -> scope_int_nc nc = true.
  Proof.
    intros H. unfold scope_int in Hscope. rewrite forallb_forall in Hscope. apply Hscope.
    destruct (nthZ_nat _ _ _ H) as (k & _ & Hk). eapply nth_error_In; eauto.
  Qed.
  Lemma hb_change_shift j fl : B0 fl fl (change_shiftW cf j).
  Proof.
    unfold change_shiftW, ncfg_of. apply B_lift_bind; intros nc Hnc. pose proof (scope_nc j nc Hnc) as Hs. unfold scope_int_nc in Hs.
    destruct (nc_srv nc) as [|sc|sl]; try (apply B_up; [solve [pka]|solve [cna]]).
    assert (Hpre : sc_pre sc = 0 \/ sc_pre sc = 4).
    { apply orb_true_iff in Hs as [Hs|Hs]; apply Z.eqb_eq in Hs; auto. }
    hb using (apply hb_take_servers_off_duty; exact Hpre).
  Qed.
  Lemma hb_slotted_service j fl : B0 fl fl (slotted_serviceW cf j).
  Proof.
    unfold slotted_serviceW, ncfg_of. apply B_lift_bind; intros nc Hnc. pose proof (scope_nc j nc Hnc) as Hs. unfold scope_int_nc in Hs.
    destruct (nc_srv nc) as [|sc|sl]; try (apply B_up; [solve [pka]|solve [cna]]).
    apply B_get_node_bind; intros nd Hid Hn.
    apply B_bind_pres; [solve [pka]|solve [cna]|intros _]. cbv zeta.
    eapply B_bind_z; [|intros _; hb using fail].
    destruct (sl_cap sl) eqn:Ec; cbn [andb negb orb] in *; [|apply B_wret].
    destruct (sl_pre sl =? 0) eqn:E0; cbn [negb orb] in *; [apply B_wret|]. apply Z.eqb_eq in Hs. rewrite Hs.
    hb using first [apply B_forMW; intros ? | apply hb_interrupt_service].
  Qed.
  Lemma hb_send_individual j i fl : B0 (i :: fl) fl (send_individualW cf j i).
  Proof. unfold send_individualW. hb using (apply hb_accept). Qed.
  Lemma B_up_exit K L fl i c (m : M unit) : presK K m -> calmN m -> hoB bad K L (i :: fl) fl z0 (up (m ;;; exit_accept i c)).
  Proof. intros Hp Hc. eapply hoB_eq; [intros s; apply up_bind_eq|]. apply B_bind_pres; [exact Hp|exact Hc|intros _; apply B_exit_accept]. Qed.
  Lemma hb_release_individual j i fl : B0 (i :: fl) fl (release_individualW cf j i).
  Proof. unfold release_individualW. hb using first [apply hb_send_individual | (apply B_up_exit; [solve [pka]|solve [cna]])]. Qed.
End BWalk2.

Lemma frame_step {X} (m : M X) fl s a s1 : presK KT m -> calmN m -> WFx2 fl s -> NoInt s -> m s = Ok (a, s1) ->
  shp s1 = shp s /\ WFx2 fl s1 /\ NoInt s1 /\ forall i, at3 s1 i = at3 s i.
Proof.
  intros Hp Hc HW HN E. pose proof (Hp _ _ _ (WFx2_idx _ _ HW) I E) as E1. destruct (Hc _ _ _ HN E) as [N1 B1].
  split; [exact E1|]. split; [eapply WFx2_shape; eauto|]. auto.
Qed.

Section BWalk3.
  Variable cf : config.
  Hypothesis Hscope : scope_int cf = true.
  Notation B0 fl fl' m := (hoB bad KT [] fl fl' z0 m).

  Lemma hb_batch_loop : forall n j c p0, B0 [] [] (batch_loopW cf n j c p0).
  Proof.
    induction n as [|n IH]; intros j c p0; cbn [batch_loopW]; [apply B_wret|].
    intros s a s' cs _ _ HW HN H.
    apply wbind_inv in H as (a1 & s1 & c1 & cs1 & E1 & H & ->). apply up_inv in E1 as [E1 ->].
    unfold modify in E1. injection E1 as <- <-.
    set (s1 := s <| arr := arr s <| a_created := a_created (arr s) + 1 |> |>) in *.
    apply wbind_inv in H as (i & s2 & c2 & cs2 & E2 & H & ->). apply up_inv in E2 as [E2 ->].
    unfold gets in E2. injection E2 as <- <-. change (a_created (arr s1)) with (a_created (arr s) + 1) in H.
    set (i := a_created (arr s) + 1) in *.
    apply wbind_inv in H as (a3 & s3 & c3 & cs3 & E3 & H & ->). apply up_inv in E3 as [E3 ->].
    destruct (1 <=? j); [|discriminate E3]. unfold ret in E3. injection E3 as _ <-.
    apply wbind_inv in H as (a4 & s4 & c4 & cs4 & E4 & H & ->). apply up_inv in E4 as [E4 ->].
    apply get_node_spec in E4 as (-> & _ & _).
    apply wbind_inv in H as (r & s5 & c5 & cs5 & E5 & H & ->). apply up_inv in E5 as [E5 ->].
    assert (HI1 : sh_idx (shp s1)) by (exact (WFx2_idx _ _ HW)).
    pose proof (pk_route_of cf i c s1 r s5 HI1 I E5) as Hs5.
    assert (HN1 : NoInt s1) by exact HN.
    destruct (cn_route_of cf i c s1 r s5 HN1 E5) as [N5 B5].
    apply wbind_inv in H as (a6 & s6 & c6 & cs6 & E6 & H & ->). apply up_inv in E6 as [E6 ->].
    unfold put_ind, modify in E6. injection E6 as <- <-.
    destruct (spawn_spec s s5 (new_ind i c p0 r) HW) as [W6 _]; [rewrite Hs5; reflexivity|reflexivity|].
    change (i_id (new_ind i c p0 r)) with i in W6.
    set (s6 := s5 <| inds := put_ind_l (new_ind i c p0 r) (inds s5) |>) in *.
    assert (T : hoB bad KT [] [i] [] z0 (release_individualW cf j i ;;~ batch_loopW cf n j c p0))
      by (eapply B_bind_z; [apply hb_release_individual|intros _; apply IH]).
    destruct (T s6 a s' cs6 I (fun i0 b0 (H0 : In (i0, b0) []) => match H0 with end) W6 N5 H) as (A & B & D).
    split; [exact A|]. split; [exact B|]. intros j0. cbn [app]. specialize (D j0).
    assert (En : nsh s6 = nsh s) by (apply (f_equal sh_ns) in Hs5; exact Hs5).
    rewrite (cntb_flags bad s s6 En) in D; [exact D|]. intros i' k t Hk Hin.
    unfold at3, s6. cbn. rewrite find_put_l. change (i_id (new_ind i c p0 r)) with i.
    destruct (Z.eqb_spec i i') as [<-|Hne]; [|exact (B5 i')].
    exfalso. apply (WFsh_fresh _ HW). destruct HW as (_ & _ & _ & _ & HQ). eapply Permutation_in; [symmetry; exact HQ|].
    apply in_or_app. left. unfold qids. apply in_concat. exists (qof t). split; [|exact Hin].
    change (fun t0 : Z * Z * list (list Z) => concat (snd t0)) with qof. apply in_map. eapply nth_error_In. exact Hk.
  Qed.
  Lemma hb_arrival_have_event : B0 [] [] (arrival_have_eventW cf).
  Proof. unfold arrival_have_eventW. hb using (apply hb_batch_loop). Qed.
  (* ---------- class change while waiting ---------- *)
  Lemma hb_cc_tail j i nc' pc0 b0 fl : hoB bad (inq i j) [(i, (nc', pc0, b0))] fl fl (rmv j (nc', pc0, b0))
    (emit (Chg j pc0 nc') ;;~ up (upd_ind i (fun y => y <| i_pcls := nc' |> <| i_pprio := i_prio y |>) ;;; decide_class_change cf j i)).
  Proof.
    eapply B_ext; [eapply B_emit_bind with (d2 := rmv j (nc', pc0, b0))|].
    - eapply hoB_eq; [intros s; symmetry; apply CP.up_seq_upd_ind|].
      apply B_get_ind_bind2; intros y Hy Heq.
      assert (Ht : tr3 y = (nc', pc0, b0)) by (apply Heq; left; reflexivity).
      eapply B_ext; [eapply B_put_ind_q_bind with (b0 := (nc', pc0, b0)) (j := j)|].
      + right. left. f_equal. cbn. symmetry. exact Hy.
      + intros sh [Hq Hoki]. split; [exact Hoki|]. destruct Hq as (t & Ht' & Hin). exists t. split; [exact Ht'|]. cbn. rewrite Hy. exact Hin.
      + apply B_up; [solve [pka]|solve [cna]].
      + intros j0. unfold tr3 in Ht. injection Ht as Hc Hp Hb. unfold rmv, z0, bad. cbn. rewrite Hc, Z.eqb_refl, andb_false_r. cbn [bz]. ifs; lia.
    - intros j0. unfold catb, cdb. ifs; lia.
  Qed.
  Lemma hb_ccww_ev j s nd a s' cs : WFx2 [] s -> NoInt s -> nthZ (nodes s) (j - 1) = Some nd ->
    (forall i, hd_error (n_next_inds nd) = Some i -> In i (all_individuals nd)) ->
    (forall nc, nthZ (cf_nodes cf) (j - 1) = Some nc -> nc_preempt nc = 0) ->
    change_customer_class_while_waitingW cf j s = Ok (a, s', cs) ->
    WFx2 [] s' /\ NoInt s' /\ forall j0, cntb bad s' j0 - netb bad j0 cs <= cntb bad s j0.
  Proof.
    intros HW HN Hnd HQ Hnp H. unfold change_customer_class_while_waitingW in H.
    apply wbind_inv in H as (nd' & s1 & c1 & cs1 & E1 & H & ->). apply up_inv in E1 as [E1 ->].
    apply get_node_spec in E1 as (-> & _ & Hnd'). rewrite Hnd in Hnd'. injection Hnd' as <-. cbn [app].
    apply wbind_inv in H as (i & s2 & c2 & cs2 & E2 & H & ->). apply up_inv in E2 as [E2 ->]. cbn [app].
    assert (Hi : hd_error (n_next_inds nd) = Some i).
    { destruct (hd_error (n_next_inds nd)); [unfold lift, ret in E2; injection E2 as -> _; reflexivity|discriminate E2]. }
    apply CP.lift_state in E2. rewrite E2 in H. clear E2 s2.
    apply wbind_inv in H as (x & s3 & c3 & cs3 & E3 & H & ->). apply up_inv in E3 as [E3 ->]. cbn [app].
    apply get_ind_some in E3 as [Es3 Hx]. rewrite Es3 in H. clear Es3 s3.
    apply wbind_inv in H as (nc' & s4 & c4 & cs4 & E4 & H & ->). apply up_inv in E4 as [E4 ->]. cbn [app].
    apply CP.lift_state in E4. rewrite E4 in H. clear E4 s4.
    apply wbind_inv in H as (p' & s4b & c4b & cs4b & E4 & H & ->). apply up_inv in E4 as [E4 ->]. cbn [app].
    apply CP.lift_state in E4. rewrite E4 in H. clear E4 s4b.
    apply wbind_inv in H as (u5 & s5 & c5 & cs5 & E5 & H & ->). apply up_inv in E5 as [E5 ->]. cbn [app].
    unfold put_ind, modify in E5. injection E5 as _ <-.
    set (x1 := x <| i_cls := nc' |> <| i_prio := p' |>) in *.
    set (s5 := s <| inds := put_ind_l x1 (inds s) |>) in *.
    pose proof (Conserve2.find_ind_id _ _ _ Hx) as Hxi.
    assert (Es5 : shp s5 = shp s).
    { unfold shp, s5. cbn. f_equal. apply put_ind_l_ids_in. change (i_id x1) with (i_id x). rewrite Hxi. exact (Conserve2.find_ind_In _ _ _ Hx). }
    assert (A5 : forall i', at3 s5 i' = if i =? i' then Some (tr3 x1) else at3 s i').
    { intros i'. unfold at3, s5. cbn. rewrite find_put_l. change (i_id x1) with (i_id x). rewrite Hxi. destruct (i =? i'); reflexivity. }
    assert (W5 : WFx2 [] s5) by (eapply WFx2_shape; [exact Es5|exact HW]).
    assert (N5 : NoInt s5) by exact HN.
    assert (Hq00 : inq i j (shp s)).
    { exists (nshape nd). split; [cbn [shp sh_ns]; rewrite nthZ_map, Hnd; reflexivity|exact (HQ i Hi)]. }
    assert (D5 : forall j0, cntb bad s5 j0 <= cntb bad s j0 + (if j0 =? j then bz (bad (tr3 x1)) - bz (bad (tr3 x)) else 0)).
    { assert (Hrun : (wbind (up (put_ind x1)) (fun _ => wret tt)) s = Ok (tt, s5, [])) by reflexivity.
      assert (T : hoB bad (fun sh => oki sh x1 /\ inq i j sh) [(i_id x1, tr3 x)] [] []
                    (fun j0 => z0 j0 + (if j0 =? j then bz (bad (tr3 x1)) - bz (bad (tr3 x)) else 0)) (wbind (up (put_ind x1)) (fun _ => wret tt))).
      { eapply B_put_ind_q_bind with (b0 := tr3 x) (j := j); [left; reflexivity| |apply B_wret].
        intros sh [Ho Hq]. split; [exact Ho|]. destruct Hq as (t & Ht & Hin). exists t. split; [exact Ht|]. change (i_id x1) with (i_id x). rewrite Hxi. exact Hin. }
      assert (Hoki : oki (shp s) x1).
      { unfold oki. cbn [shp sh_is]. change (i_id x1) with (i_id x). rewrite Hxi. exact (Conserve2.find_ind_In _ _ _ Hx). }
      assert (HL0 : Lok [(i_id x1, tr3 x)] s).
      { intros i0 b0 [Hq|[]]. injection Hq as <- <-. change (i_id x1) with (i_id x). rewrite Hxi. unfold at3. rewrite Hx. reflexivity. }
      destruct (T s tt s5 [] (conj Hoki Hq00) HL0 HW HN Hrun) as (_ & _ & D).
      intros j0. specialize (D j0). unfold netb, z0 in D. cbn in D. lia. }
    destruct (get_node_okn j s nd (WFx2_idx _ _ HW) Hnd) as [Hidn Hokn].
    assert (Hq0 : inq i j (shp s5)).
    { rewrite Es5. exists (nshape nd). split; [cbn [shp sh_ns]; rewrite nthZ_map, Hnd; reflexivity|exact (HQ i Hi)]. }
    apply wbind_inv in H as (u6 & s6 & c6 & cs6 & E6 & H & ->).
    assert (M6 : WFx2 [] s6 /\ NoInt s6 /\ (forall j0, cntb bad s6 j0 - netb bad j0 c6 <= cntb bad s5 j0) /\ (forall i', at3 s6 i' = at3 s5 i') /\ inq i j (shp s6)).
    { destruct (negb (p' =? i_pprio x)).
      2:{ unfold wret in E6. injection E6 as _ <- <-. split; [exact W5|]. split; [exact N5|]. split; [intros j0; unfold netb; cbn; lia|]. split; [reflexivity|exact Hq0]. }
      apply wbind_inv in E6 as (q & s7 & c7 & cs7 & E7 & E6 & ->). apply up_inv in E7 as [E7 ->]. cbn [app] in *.
      pose proof E7 as Hq. apply CP.lift_state in E7. rewrite E7 in E6, Hq. clear E7 s7.
      apply wbind_inv in E6 as (q' & s7b & c7b & cs7b & E7 & E6 & ->). apply up_inv in E7 as [E7 ->]. cbn [app] in *.
      pose proof E7 as Hq'. apply CP.lift_state in E7. rewrite E7 in E6, Hq'. clear E7 s7b.
      cbv zeta in E6.
      apply wbind_inv in E6 as (qn & s7c & c7c & cs7c & E7 & E6 & ->). apply up_inv in E7 as [E7 ->]. cbn [app] in *.
      pose proof E7 as Hqn. apply CP.lift_state in E7. rewrite E7 in E6, Hqn. clear E7 s7c.
      assert (Lq : nthZ (n_queues nd) (i_pprio x) = Some q) by (destruct (nthZ (n_queues nd) (i_pprio x)); [unfold lift, ret in Hq; injection Hq as -> ; reflexivity|discriminate Hq]).
      assert (Lq' : remove_first i q = Some q') by (destruct (remove_first i q); [unfold lift, ret in Hq'; injection Hq' as -> ; reflexivity|discriminate Hq']).
      assert (Lqn : nthZ (updZ (n_queues nd) (i_pprio x) q') p' = Some qn).
      { destruct (nthZ (updZ (n_queues nd) (i_pprio x) q') p'); [unfold lift, ret in Hqn; injection Hqn as -> ; reflexivity|discriminate Hqn]. }
      clear Hq Hq' Hqn.
      apply wbind_inv in E6 as (u8 & s8 & c8 & cs8 & E8 & E6 & ->).
      set (nd2 := nd <| n_queues := updZ (updZ (n_queues nd) (i_pprio x) q') p' (qn ++ [i]) |>) in *.
      assert (HS : forall sh, okn sh nd -> exists nd0, okn sh nd0 /\ n_id nd2 = n_id nd0 /\ n_pop nd2 = n_pop nd0 /\
                                Permutation (concat (n_queues nd2)) (concat (n_queues nd0))).
      { intros sh Hok. exists nd. split; [exact Hok|]. split; [reflexivity|]. split; [reflexivity|]. cbn.
        destruct (nthZ_nat _ _ _ Lq) as (kp & Hkp & Hqk). rewrite Hkp, updZ_nat in *.
        destruct (nthZ_nat _ _ _ Lqn) as (kn & Hkn & Hqnk). rewrite Hkn, updZ_nat.
        rewrite (concat_upd_add _ _ _ (qn ++ [i]) i Hqnk); [|rewrite Permutation_app_comm; reflexivity].
        eapply concat_upd_rm; [exact Hqk|]. apply remove_first_perm. exact Lq'. }
      assert (Hok5 : okn (shp s5) nd) by (rewrite Es5; exact Hokn).
      destruct (B_put_mv bad (fun sh => okn sh nd) [] [] nd2 (NoInt_nth _ _ _ HN Hnd) HS s5 u8 s8 c8 Hok5
                  (fun i0 b0 (H0 : In (i0, b0) []) => match H0 with end) W5 N5 E8) as (W8 & N8 & D8).
      apply up_inv in E8 as [E8 ->]. unfold put_node, modify in E8. injection E8 as _ Es8.
      assert (Hq8 : inq i j (shp s8)).
      { rewrite <- Es8. exists (nshape nd2). split.
        - change (nthZ (map nshape (updZ (nodes s) (n_id nd - 1) nd2)) (j - 1) = Some (nshape nd2)).
          rewrite tk_updZ_map, Hidn. eapply tk_nthZ_updZ_eq. rewrite nthZ_map, Hnd. reflexivity.
        - change (In i (concat (updZ (updZ (n_queues nd) (i_pprio x) q') p' (qn ++ [i])))).
          apply in_concat. exists (qn ++ [i]). split; [|apply in_or_app; right; left; reflexivity].
          eapply tk_nthZ_In. eapply tk_nthZ_updZ_eq. exact Lqn. }
      assert (B8 : forall i', at3 s8 i' = at3 s5 i') by (intros i'; rewrite <- Es8; reflexivity).
      assert (D8' : forall j0, cntb bad s8 j0 - netb bad j0 [] <= cntb bad s5 j0) by (intros j0; specialize (D8 j0); unfold z0 in D8; lia).
      destruct (negb (nd_inf nd) && (0 <? numo (n_c nd))).
      2:{ unfold wret in E6. injection E6 as _ <- <-. split; [exact W8|]. split; [exact N8|]. split; [intros j0; cbn [app]; apply D8'|]. split; [exact B8|exact Hq8]. }
      apply wbind_inv in E6 as (v & s9 & c9 & cs9 & E9 & E6 & ->). apply up_inv in E9 as [E9 ->]. cbn [app] in *.
      destruct (CP.preempt_victim_none cf j i s8 v s9 Hnp E9) as [-> ->].
      unfold wret in E6. injection E6 as _ <- <-. split; [exact W8|]. split; [exact N8|]. split; [intros j0; cbn [app]; apply D8'|]. split; [exact B8|exact Hq8]. }
    destruct M6 as (W6 & N6 & D6 & B6 & Hq6).
    assert (HL6 : Lok [(i, (nc', i_pcls x, i_blocked x))] s6).
    { intros i0 b0 [Hq|[]]. injection Hq as <- <-. rewrite B6, A5, Z.eqb_refl. reflexivity. }
    destruct (hb_cc_tail j i nc' (i_pcls x) (i_blocked x) [] s6 a s' cs6 Hq6 HL6 W6 N6 H) as (A & B & D).
    split; [exact A|split; [exact B|]]. intros j0. rewrite netb_app. specialize (D j0). specialize (D6 j0). specialize (D5 j0).
    change (tr3 x1) with (nc', i_pcls x, i_blocked x) in D5. unfold rmv in D.
    destruct (j0 =? j); [|lia]. unfold bz in *. destruct (bad (nc', i_pcls x, i_blocked x)); destruct (bad (tr3 x)); lia.
  Qed.


  (* the candidates of an end of service that have a record are customers of the node *)
  Definition NextQ (s : sim) : Prop :=
    forall j nd, nthZ (nodes s) (j - 1) = Some nd -> n_next_type nd = 0 -> forall i x, In i (n_next_inds nd) -> find_ind i (inds s) = Some x -> In i (all_individuals nd).

  Lemma hb_node_have_event j s a s' cs : NextQ s -> CP.CandQ cf s -> WFx2 [] s -> NoInt s -> node_have_eventW cf j s = Ok (a, s', cs) ->
    WFx2 [] s' /\ NoInt s' /\ forall j0, cntb bad s' j0 - netb bad j0 cs <= cntb bad s j0.
  Proof.
    intros HX HN3 HW HN H. unfold node_have_eventW in H.
    apply wbind_inv in H as (nd & s1 & c1 & cs1 & E1 & H & ->). apply up_inv in E1 as [E1 ->].
    apply get_node_spec in E1 as (-> & Hj & Hnd). cbv zeta in H. cbn [app].
    assert (Fin : forall (m : W unit), hoB bad KT [] [] [] z0 m -> m s = Ok (a, s', cs1) ->
                  WFx2 [] s' /\ NoInt s' /\ forall j0, cntb bad s' j0 - netb bad j0 cs1 <= cntb bad s j0).
    { intros m Hm E. destruct (Hm s a s' cs1 I (fun i0 b0 (H0 : In (i0, b0) []) => match H0 with end) HW HN E) as (A & B & D).
      split; [exact A|split; [exact B|]]. intros j0. specialize (D j0). unfold z0 in D. lia. }
    destruct (n_next_type nd =? 0) eqn:E0.
    { apply Z.eqb_eq in E0. unfold finish_serviceW in H.
      apply wbind_inv in H as (nd' & s2 & c2 & cs2 & E2 & H & ->). apply up_inv in E2 as [E2 ->].
      apply get_node_spec in E2 as (-> & _ & Hnd'). rewrite Hnd in Hnd'. injection Hnd' as <-.
      apply wbind_inv in H as (i & s3 & c3 & cs3 & E3 & H & ->). apply up_inv in E3 as [E3 ->]. cbn [app].
      pose proof (decide_between_In _ _ _ _ E3) as Hin.
      destruct (frame_step _ [] s i s3 (pk_decide_between _) (cn_decide_between _) HW HN E3) as (Es & W3 & N3 & B3).
      destruct (fs_tail_rec _ _ _ _ _ _ _ _ H) as [x3 Hx3]. rewrite (CP.decide_between_inds _ _ _ _ E3) in Hx3.
      assert (HK : inq i j (shp s3)).
      { rewrite Es. exists (nshape nd). split; [cbn [shp sh_ns]; rewrite nthZ_map, Hnd; reflexivity|exact (HX j nd Hnd E0 i x3 Hin Hx3)]. }
      destruct (hb_fs_tail cf j nd i [] s3 a s' cs3 HK (fun i0 b0 (H0 : In (i0, b0) []) => match H0 with end) W3 N3 H) as (A & B & D).
      split; [exact A|split; [exact B|]]. intros j0. specialize (D j0). unfold z0 in D.
      rewrite (cntb_frame bad s s3 (f_equal sh_ns Es) B3) in D. lia. }
    destruct (n_next_type nd =? 1) eqn:E1; [exact (Fin _ (hb_change_shift cf Hscope j []) H)|].
    destruct (n_next_type nd =? 2) eqn:E2.
    { unfold renegeW in H.
      apply wbind_inv in H as (t & s2 & c2 & cs2 & E2' & H & ->). apply up_inv in E2' as [E2' ->].
      unfold tnow, gets in E2'. injection E2' as <- <-.
      apply wbind_inv in H as (nd' & s2b & c2b & cs2b & E2b & H & ->). apply up_inv in E2b as [E2b ->].
      apply get_node_spec in E2b as (-> & _ & Hnd'). rewrite Hnd in Hnd'. injection Hnd' as <-.
      apply wbind_inv in H as (i & s3 & c3 & cs3 & E3 & H & ->). apply up_inv in E3 as [E3 ->]. cbn [app].
      destruct (frame_step _ [] s i s3 (pk_decide_between _) (cn_decide_between _) HW HN E3) as (Es & W3 & N3 & B3).
      destruct (hb_ren_tail cf j (now s) i [] s3 a s' cs3 I (fun i0 b0 (H0 : In (i0, b0) []) => match H0 with end) W3 N3 H) as (A & B & D).
      split; [exact A|split; [exact B|]]. intros j0. specialize (D j0). unfold z0 in D.
      rewrite (cntb_frame bad s s3 (f_equal sh_ns Es) B3) in D. lia. }
    destruct (n_next_type nd =? 3) eqn:E3; [apply Z.eqb_eq in E3; destruct (HN3 j nd Hnd E3) as [Q1 Q2]; exact (hb_ccww_ev j s nd a s' cs1 HW HN Hnd Q1 Q2 H)|].
    destruct (n_next_type nd =? 4) eqn:E4; [exact (Fin _ (hb_slotted_service cf Hscope j []) H)|].
    exact (Fin _ (B_wret bad KT [] [] tt) H).
  Qed.

  Lemma hb_event_step s a s' cs : NextQ s -> CP.CandQ cf s -> WFx2 [] s -> NoInt s -> event_stepW cf s = Ok (a, s', cs) ->
    WFx2 [] s' /\ NoInt s' /\ forall j0, cntb bad s' j0 - netb bad j0 cs <= cntb bad s j0.
  Proof.
    intros HX HN3 HW HN H. unfold event_stepW in H.
    apply wbind_inv in H as (a1 & s1 & c1 & cs1 & E1 & H & ->). apply up_inv in E1 as [E1 ->].
    unfold modify in E1. injection E1 as <- <-. set (s1 := s <| log := [] |>) in *.
    apply wbind_inv in H as (k & s2 & c2 & cs2 & E2 & H & ->). apply up_inv in E2 as [E2 ->].
    unfold gets in E2. injection E2 as <- <-. cbn [app].
    apply wbind_inv in H as (a3 & s3 & c3 & cs3 & E3 & H & ->).
    assert (M3 : WFx2 [] s3 /\ NoInt s3 /\ forall j0, cntb bad s3 j0 - netb bad j0 c3 <= cntb bad s j0).
    { change (next_active s1) with (next_active s) in *. destruct (next_active s =? 0).
      - destruct (hb_arrival_have_event s1 a3 s3 c3 I (fun i0 b0 (H0 : In (i0, b0) []) => match H0 with end) HW HN E3) as (A & B & D).
        split; [exact A|split; [exact B|]]. intros j0. specialize (D j0). unfold z0 in D. change (cntb bad s1 j0) with (cntb bad s j0) in D. lia.
      - exact (hb_node_have_event (next_active s) s1 a3 s3 c3 HX HN3 HW HN E3). }
    destruct M3 as (W3 & N3 & D3).
    apply up_inv in H as [H ->]. rewrite app_nil_r.
    assert (Hp : presK KT (ns <- gets nodes ;; update_all cf (map n_id ns) ;;; find_next_active_node)) by pka.
    assert (Hc : calmN (ns <- gets nodes ;; update_all cf (map n_id ns) ;;; find_next_active_node)) by cna.
    destruct (frame_step _ [] s3 a s' Hp Hc W3 N3 H) as (Es & W4 & N4 & B4).
    split; [exact W4|split; [exact N4|]]. intros j0. rewrite (cntb_frame bad s3 s' (f_equal sh_ns Es) B4). apply D3.
  Qed.
End BWalk3.
End CT.

(* ---------- B.5  TInvS is kept by every event; the theorems for NodeClassMatrix ---------- *)
(* what remains assumed when the configuration has class-change times: the candidate of a class change while waiting is a
   customer of the node (vacuous when cf_dyn cf = false) *)
Definition CandQ1 (s : sim) : Prop :=
  forall j nd, nthZ (nodes s) (j - 1) = Some nd -> n_next_type nd = 3 -> forall i, hd_error (n_next_inds nd) = Some i -> In i (all_individuals nd).
Definition candq1_b (s : sim) : bool :=
  forallb (fun nd => negb (n_next_type nd =? 3) || match hd_error (n_next_inds nd) with Some i => memZ i (all_individuals nd) | None => true end) (nodes s).
Theorem candq1_b_sound s : candq1_b s = true -> CandQ1 s.
Proof.
  unfold candq1_b. rewrite forallb_forall. intros H j nd Hnd E3 i Hi. specialize (H nd (tk_nthZ_In _ _ _ Hnd)).
  rewrite E3 in H. cbn in H. rewrite Hi in H. apply memZ_In. exact H.
Qed.
Lemma Inv2_nodyn_candq1 cf s : Inv2 cf s -> cf_dyn cf = false -> CandQ1 s.
Proof.
  intros (an & h & (_ & _ & _ & _ & _ & HP)) Hd j nd Hnd E3. destruct (HP j nd Hnd) as [_ H3]. specialize (H3 E3). congruence.
Qed.
Lemma CandOK_of s : NextUnblW s -> TInvS s -> CandQ1 s -> CandOK s.
Proof.
  intros HX HT HQ j nd Hnd. split; [|exact (HQ j nd Hnd)].
  intros E0 i x Hi Hx. destruct (proj1 (HX j nd Hnd i x Hi Hx) E0) as [Hb _]. symmetry. exact (HT i x Hx Hb).
Qed.
Lemma tinvs_cnt0 s : TInvS s -> forall j, CT.cntb CT.bad s j = 0.
Proof.
  intros HT j. unfold CT.cntb. destruct (nthZ (nsh s) (j - 1)) as [t|]; [|reflexivity].
  assert (E : filter (fun i => CT.pz3 CT.bad (CT.at3 s i)) (qof t) = []); [|rewrite E; reflexivity].
  assert (G : forall l, filter (fun i => CT.pz3 CT.bad (CT.at3 s i)) l = []); [|apply G].
  induction l as [|i l IH]; [reflexivity|]. cbn [filter]. rewrite IH.
  unfold CT.pz3, CT.at3. destruct (find_ind i (inds s)) as [x|] eqn:Ex; cbn [option_map]; [|reflexivity].
  unfold CT.bad, CT.tr3. cbn [fst snd]. destruct (i_blocked x) eqn:Eb; [reflexivity|]. rewrite (HT i x Ex Eb), Z.eqb_refl. reflexivity.
Qed.
Lemma cnt0_tinvs s : WFx2 [] s -> (forall j, CT.cntb CT.bad s j <= 0) -> TInvS s.
Proof.
  intros HW H i x Hx Hb. destruct (in_some_queue s i x HW Hx) as (k & nd & Hk & Hin).
  specialize (H k). unfold CT.cntb, nsh in H. rewrite nthZ_map, Hk in H. cbn [option_map] in H. unfold qof, nshape in H. cbn [snd] in H.
  fold (all_individuals nd) in H.
  destruct (CT.pz3 CT.bad (CT.at3 s i)) eqn:Ef.
  - exfalso. assert (Hf : In i (filter (fun i0 => CT.pz3 CT.bad (CT.at3 s i0)) (all_individuals nd))) by (apply filter_In; auto).
    destruct (filter (fun i0 => CT.pz3 CT.bad (CT.at3 s i0)) (all_individuals nd)) as [|h t]; [destruct Hf|]. unfold zlen in H. cbn [length] in H. lia.
  - unfold CT.pz3, CT.at3 in Ef. rewrite Hx in Ef. cbn [option_map] in Ef. unfold CT.bad, CT.tr3 in Ef. cbn [fst snd] in Ef. rewrite Hb in Ef.
    cbn [negb andb] in Ef. apply negb_false_iff in Ef. apply Z.eqb_eq. exact Ef.
Qed.
Lemma CT_netb0 j cs : CT.netb CT.bad j cs = 0.
Proof.
  unfold CT.netb. induction cs as [|c r IH]; [reflexivity|]. cbn [map]. rewrite zsum_cons, IH. unfold CT.catb, CT.cdb. destruct (cnode c =? j); reflexivity.
Qed.
(* TInvS (a customer that is not blocked has previous_class = customer_class) is kept by every event in scope *)
Theorem event_step_tinvs2 cf s s' : scope_nb cf = true -> Inv2 cf s -> CandQ1 s -> TInvS s -> event_step cf s = Ok (tt, s') -> TInvS s'.
Proof.
  intros Hsc HI HQ HT H. destruct (Inv2_facts cf s HI) as (HW & HN & HX).
  pose proof (scope_nb_int cf Hsc) as Hsi. pose proof (event_stepW_ok cf s s' H) as HE.
  assert (HXq : CT.NextQ s) by (intros j nd Hnd E0 i x Hi Hx; exact (proj2 (proj1 (HX j nd Hnd i x Hi Hx) E0))).
  assert (HQ2 : CP.CandQ cf s) by (intros j nd Hnd E3; split; [exact (HQ j nd Hnd E3)|exact (Inv2_nopre3 cf s Hsc HI j nd Hnd E3)]).
  destruct (CT.hb_event_step cf Hsi s tt s' _ HXq HQ2 HW HN HE) as (W1 & _ & D).
  apply (cnt0_tinvs s' W1). intros j. specialize (D j). rewrite CT_netb0, (tinvs_cnt0 s HT j) in D. lia.
Qed.

(* the invariant for NodeClassMatrix *)
Definition InvB (cf : config) (s : sim) : Prop := Inv2 cf s /\ TInvS s.
Definition invb_b (cf : config) (an : Z -> option Z) (h : list rec) (s : sim) : bool := inv2_b cf an h s && tinvs_b s.
Theorem invb_b_sound cf an h s : invb_b cf an h s = true -> InvB cf s.
Proof. unfold invb_b. intros H. apply andb_true_iff in H as [H1 H2]. split; [eapply inv2_b_sound; eauto|apply tinvs_b_sound; exact H2]. Qed.

(* one event.  _partial: CandQ1 (the candidate of a class change while waiting is a customer of its node) is assumed, not shown
   invariant; it is vacuous without class-change times (event_step_class_matrix2 below) *)
Theorem event_step_class_matrix2_partial cf s s' : scope_nb cf = true -> InvB cf s -> CandQ1 s -> event_step cf s = Ok (tt, s') ->
  InvB cf s' /\ forall c j, cntc c s' j - netc c j (calls_event_step cf s) = cntc c s j.
Proof.
  intros Hsc [HI HT] HQ H. destruct (Inv2_facts cf s HI) as (_ & _ & HX).
  destruct (event_step_class_counts2_candok cf s s' Hsc HI (CandOK_of s HX HT HQ) H) as [I1 D].
  split; [split; [exact I1|exact (event_step_tinvs2 cf s s' Hsc HI HQ HT H)]|exact D].
Qed.
Theorem event_step_class_matrix2 cf s s' : scope_nb cf = true -> cf_dyn cf = false -> InvB cf s -> event_step cf s = Ok (tt, s') ->
  InvB cf s' /\ forall c j, cntc c s' j - netc c j (calls_event_step cf s) = cntc c s j.
Proof. intros Hsc Hd HI H. exact (event_step_class_matrix2_partial cf s s' Hsc HI (Inv2_nodyn_candq1 cf s (proj1 HI) Hd) H). Qed.

Fixpoint CandQ1_run (cf : config) (s : sim) (ds : list draws) : Prop :=
  match ds with
  | [] => True
  | d :: r => CandQ1 (s <| dr := d |>) /\ match event_step cf (s <| dr := d |>) with Ok (_, s1) => CandQ1_run cf s1 r | _ => True end
  end.
Fixpoint candq1_run_b (cf : config) (s : sim) (ds : list draws) : bool :=
  match ds with
  | [] => true
  | d :: r => candq1_b (s <| dr := d |>) && match event_step cf (s <| dr := d |>) with Ok (_, s1) => candq1_run_b cf s1 r | _ => true end
  end.
Theorem candq1_run_b_sound cf : forall ds s, candq1_run_b cf s ds = true -> CandQ1_run cf s ds.
Proof.
  induction ds as [|d r IH]; intros s H; cbn [candq1_run_b CandQ1_run] in *; [exact I|].
  apply andb_true_iff in H as [H1 H2]. split; [apply candq1_b_sound; exact H1|].
  destruct (event_step cf (s <| dr := d |>)) as [[u s1]| |]; [apply IH; exact H2|exact I|exact I].
Qed.
Lemma InvB_dr cf s d : InvB cf s -> InvB cf (s <| dr := d |>).
Proof. intros [HI HT]. split; [apply Inv2_dr; exact HI|exact HT]. Qed.
(* any number of events: every entry of the matrix moves exactly as the calls say; whenever the tracker, started on a matrix m0,
   does not raise, every entry that was the true count before the run is the true count after the run *)
Theorem run_many_class_matrix2_partial cf : scope_nb cf = true -> forall ds s s', InvB cf s -> CandQ1_run cf s ds -> run_many cf s ds = Ok s' ->
  InvB cf s' /\ (forall c j, cntc c s' j - netc c j (calls_many cf s ds) = cntc c s j) /\
  forall m0 m', orun cm_step (calls_many cf s ds) m0 = Some m' -> forall j c, entry m0 j c = cntc c s j -> entry m' j c = cntc c s' j.
Proof.
  intros Hsc.
  assert (G : forall ds s s', InvB cf s -> CandQ1_run cf s ds -> run_many cf s ds = Ok s' ->
              InvB cf s' /\ forall c j, cntc c s' j - netc c j (calls_many cf s ds) = cntc c s j).
  { induction ds as [|d r IH]; intros s s' HI HC H; cbn [run_many calls_many CandQ1_run] in *.
    - injection H as <-. split; [exact HI|]. intros c j. unfold netc, CP.netb. cbn. lia.
    - destruct HC as [HC0 HCr]. destruct (event_step cf (s <| dr := d |>)) as [[[] s1]| |] eqn:E; try discriminate.
      destruct (event_step_class_matrix2_partial cf _ _ Hsc (InvB_dr cf s d HI) HC0 E) as (I1 & T1).
      destruct (IH _ _ I1 HCr H) as (I2 & T2'). split; [exact I2|].
      intros c j. rewrite netc_app. specialize (T1 c j). specialize (T2' c j). change (cntc c (s <| dr := d |>) j) with (cntc c s j) in T1. lia. }
  intros ds s s' HI HC H. destruct (G ds s s' HI HC H) as [I1 D]. split; [exact I1|]. split; [exact D|].
  intros m0 m' Hm j c E0. rewrite (cm_run_entry _ _ _ Hm j c), E0. specialize (D c j). lia.
Qed.
Lemma nodyn_candq1_run cf : scope_nb cf = true -> cf_dyn cf = false -> forall ds s, InvB cf s -> CandQ1_run cf s ds.
Proof.
  intros Hsc Hd. induction ds as [|d r IH]; intros s HI; cbn [CandQ1_run]; [exact I|].
  pose proof (InvB_dr cf s d HI) as HI0. pose proof (Inv2_nodyn_candq1 cf _ (proj1 HI0) Hd) as HQ. split; [exact HQ|].
  destruct (event_step cf (s <| dr := d |>)) as [[[] s1]| |] eqn:E; [|exact I|exact I].
  apply IH. exact (proj1 (event_step_class_matrix2_partial cf _ _ Hsc HI0 HQ E)).
Qed.
(* without class-change times: no hypothesis along the run *)
Theorem run_many_class_matrix2 cf ds s s' : scope_nb cf = true -> cf_dyn cf = false -> InvB cf s -> run_many cf s ds = Ok s' ->
  InvB cf s' /\ (forall c j, cntc c s' j - netc c j (calls_many cf s ds) = cntc c s j) /\
  forall m0 m', orun cm_step (calls_many cf s ds) m0 = Some m' -> forall j c, entry m0 j c = cntc c s j -> entry m' j c = cntc c s' j.
Proof. intros Hsc Hd HI H. exact (run_many_class_matrix2_partial cf Hsc ds s s' HI (nodyn_candq1_run cf Hsc Hd ds s HI) H). Qed.
(* in the words of TrackerInc2.cm_true: under the invariant its entries are these counts *)
Theorem class_matrix_means cf k s j c : InvB cf s -> 0 <= c < Z.of_nat k -> nthZ (nodes s) (j - 1) <> None -> entry (cm_true k s) j c = cntc c s j.
Proof. intros [_ HT]. apply cm_true_entry. exact HT. Qed.

(* ---------- examples for the final theorems ---------- *)
(* the network cm_cf above (class-change matrix, class change while waiting, blocking, reneging): 60 events by the theorem;
   CandQ1 is checked along the run by computation *)
Example cm_run60_inv : exists s', run_many cm_cf cm_s0 (repeat cm_d 60) = Ok s' /\ InvB cm_cf s' /\
  forall c j, cntc c s' j - netc c j (calls_many cm_cf cm_s0 (repeat cm_d 60)) = cntc c cm_s0 j.
Proof.
  destruct (run_many cm_cf cm_s0 (repeat cm_d 60)) as [s'| |] eqn:E; [|vm_compute in E; discriminate|vm_compute in E; discriminate].
  exists s'. split; [reflexivity|].
  assert (H1 : scope_nb cm_cf = true) by (vm_compute; reflexivity).
  assert (H2 : invb_b cm_cf nb_an0 [] cm_s0 = true) by (vm_compute; reflexivity).
  assert (H3 : candq1_run_b cm_cf cm_s0 (repeat cm_d 60) = true) by (vm_compute; reflexivity).
  destruct (run_many_class_matrix2_partial cm_cf H1 _ _ _ (invb_b_sound _ _ _ _ H2) (candq1_run_b_sound _ _ _ H3) E) as (A & B & _). auto.
Qed.
(* the same network without class-change times: the full theorem, no hypothesis along the run *)
Definition cm2_cf : config :=
  mkCfg 2 (cf_nodes cm_cf) [0; 0] 1 None (cf_routing cm_cf) (cf_baulk cm_cf) false [ [false; false]; [false; false] ].
Example cm2_run60 : exists s' m', run_many cm2_cf cm_s0 (repeat cm_d 60) = Ok s' /\ InvB cm2_cf s' /\
  orun cm_step (calls_many cm2_cf cm_s0 (repeat cm_d 60)) (cm_true 2 cm_s0) = Some m' /\
  forall j c, 1 <= j <= 3 -> 0 <= c < 2 -> entry m' j c = entry (cm_true 2 s') j c.
Proof.
  destruct (run_many cm2_cf cm_s0 (repeat cm_d 60)) as [s'| |] eqn:E; [|vm_compute in E; discriminate|vm_compute in E; discriminate].
  destruct (orun cm_step (calls_many cm2_cf cm_s0 (repeat cm_d 60)) (cm_true 2 cm_s0)) as [m'|] eqn:Em; [|vm_compute in Em; discriminate].
  exists s', m'. split; [reflexivity|].
  assert (H1 : scope_nb cm2_cf = true) by (vm_compute; reflexivity).
  assert (H2 : invb_b cm2_cf nb_an0 [] cm_s0 = true) by (vm_compute; reflexivity).
  pose proof (invb_b_sound _ _ _ _ H2) as HI.
  destruct (run_many_class_matrix2 cm2_cf _ _ _ H1 eq_refl HI E) as (A & _ & C).
  split; [exact A|]. split; [reflexivity|]. intros j c Hj Hc.
  assert (Hn : forall s0 : sim, length (nodes s0) = 3%nat -> nthZ (nodes s0) (j - 1) <> None).
  { intros s0 Hl. destruct (tk_nthZ_some (nodes s0) (j - 1)) as [nd Hnd]; [rewrite Hl; lia|congruence]. }
  assert (Hl' : length (nodes s') = 3%nat) by (clear -E; vm_compute in E; injection E as <-; reflexivity).
  rewrite (class_matrix_means cm2_cf 2 s' j c A); [|lia|exact (Hn s' Hl')].
  apply (C _ _ Em). apply (class_matrix_means cm2_cf 2 cm_s0 j c HI); [lia|exact (Hn cm_s0 eq_refl)].
Qed.

(* ---------- outside the scope: NodeClassMatrix in the region of F-02b (new as a tracker finding; TrackerInc2 has the F-02a one).
   The F-02b network of TrackerInc2 (pre-emptive `resume` schedule at node 1, node 2 has room for one customer) with two classes
   and a class-change matrix at node 1 (class 0 becomes class 1 at the end of a service).  Customers 2 and 3 (accepted under class 0)
   finish, get customer_class 1 and are blocked; the shift change interrupts them; begin_interrupted_individuals_service clears
   is_blocked of customer 2 WITHOUT a tracker call (node.py): it now counts under its customer_class 1, the tracker still has it
   under class 0; it finishes again, change_customer_class overwrites previous_class with 1 (the calls Blk 1 2 2 1): whenever it is
   released, change_state_release will subtract at class 1.  After 12 events the truth is (0, 2) and the tracker holds (2, 0). ---------- *)
Definition b4_cf : config :=
  mkCfg 2
    [ mkNcfg None (Some [[0; 8]; [0; 8]]) 0 (SSched (mkSched [10; 20] [2; 1] 0 1)) 0 false [false; false] 0;
      mkNcfg (Some 1) None 0 SFixed 0 false [false; false] 0 ]
    [0; 0] 1 None [ RtNR [RDirect 2; RLeave]; RtNR [RDirect 2; RLeave] ] [ [None; None]; [None; None] ] false [ [false; false]; [false; false] ].
Definition b4_s0 : sim :=
  mkSim 0 1 (mkArr 0 0 [[Some 1; None]; [None; None]] 1 0 (Some 1)) [r4_n1; x_node 2 1 [x_srv 1] 1] [] 0 0 [] x_nd [] [[0; 0]; [0; 0]].
Definition b4_ds : list draws := r4_ds ++ repeat (mkDraws [100] [1] [100; 100] [0; 0; 0] [] []) 3.
Theorem class_matrix_refuted_F02b :
  exists cf s0 ds s10,
    wfx2_b s0 = true /\ tinvs_b s0 = true /\ scope_int cf = false /\ run_many cf s0 ds = Ok s10 /\
    calls_many cf s0 ds = [Acc 1 0; Acc 1 0; Rel 1 2 1 0 false; Acc 2 1; Acc 1 0; Blk 1 2 3 0; Blk 1 2 2 0; Blk 1 2 2 1; Blk 1 2 2 1; Blk 1 2 3 1] /\
    cm_true 2 s10 = [[0; 2]; [0; 1]] /\ orun cm_step (calls_many cf s0 ds) (cm_true 2 s0) = Some [[2; 0]; [0; 1]] /\
    Tracked1 (calls_many cf s0 ds) s0 s10.
Proof.
  exists b4_cf, b4_s0, b4_ds.
  destruct (run_many b4_cf b4_s0 b4_ds) as [s10| |] eqn:E; [|vm_compute in E; discriminate|vm_compute in E; discriminate].
  exists s10. split; [vm_compute; reflexivity|]. split; [vm_compute; reflexivity|]. split; [vm_compute; reflexivity|]. split; [reflexivity|].
  split; [vm_compute; reflexivity|].
  assert (I0 : Idx b4_s0) by (apply idx2_b_sound; vm_compute; reflexivity).
  split; [|split; [|exact (proj2 (run_many_trackers2 b4_cf _ _ _ I0 E))]].
  - vm_compute in E. injection E as <-. vm_compute. reflexivity.
  - vm_compute. reflexivity.
Qed.

Print Assumptions event_step_naive_blocking2.
Print Assumptions run_many_naive_blocking2.
Print Assumptions naive_blocking_never_negative.
Print Assumptions inv2_b_sound.
Print Assumptions nb_run60.
Print Assumptions nb_inv12.
Print Assumptions event_step_tinvs2.
Print Assumptions event_step_class_matrix2_partial.
Print Assumptions event_step_class_matrix2.
Print Assumptions run_many_class_matrix2_partial.
Print Assumptions run_many_class_matrix2.
Print Assumptions run_many_class_matrix2_candok.
Print Assumptions class_matrix_means.
Print Assumptions invb_b_sound.
Print Assumptions candq1_run_b_sound.
Print Assumptions cm_run60.
Print Assumptions cm_run60_inv.
Print Assumptions cm2_run60.
Print Assumptions class_matrix_refuted_F02b.

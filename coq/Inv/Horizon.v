(* Horizon.v -- T2 for C14 (first half) on the engine model: simulate_until_max_time(T) executes every event scheduled
   strictly before T and none scheduled at or after T, and leaves the unfinished customers in place.

   The Python loop is
       next_active_node = find_next_active_node(); current_time = next_active_node.next_event_date
       while current_time < T:  next_active_node = event_and_return_nextnode(next_active_node)
                                current_time = next_active_node.next_event_date
   In the model find_next_active_node is the last action of event_step, so between two events the state already carries
   the chosen node (next_active) and the loop is "while next_date s < T do event_step", where next_date s is the date
   stored at the active node (None = float('inf'): the comparison inf < T is false and the loop stops).  run_until is that
   loop, driven like Codec.run_many by one record of draws per event; it returns the unused draws.
   (wrap_up_servers(T), which the real method calls after the loop, only touches the servers' busy/total times and is
   Engine.wrap_up_servers; it is not part of this file.  The real method also calls find_next_active_node once on entry:
   in the model the state between events is already "picked", see run_until_split below.)

   Invariant: Clock.Clk (nothing is scheduled before the clock, the active node's date is the clock) together with Frs:
   every node's next date is a lower bound of what the node has pending (its servers' end dates for a node with finitely
   many servers; for an infinite-server node the end dates, not in the past, of its unblocked customers).  event_step
   re-establishes Frs from Clk alone because every node recomputes its date at the end of every event. *)
From Coq Require Import ZArith List Bool Lia.
From RecordUpdate Require Import RecordUpdate.
From CiwV Require Import Sx Prelude Routing.
From CiwV Require Loop.
From CiwV.Engine Require Import State Engine Codec.
From CiwV.Inv Require Import Frame Conserve ConserveRun Clock.
Import ListNotations.
Open Scope Z_scope.

(* ---------- the loop ---------- *)
(* next_active_node.next_event_date *)
Definition next_date (s : sim) : option Z :=
  if next_active s =? 0 then a_next_date (arr s)
  else match nthZ (nodes s) (next_active s - 1) with Some nd => n_next_date nd | None => None end.
(* current_time < max_simulation_time *)
Definition before (T : Z) (s : sim) : bool := match next_date s with Some d => d <? T | None => false end.

Fixpoint run_until (cf : config) (T : Z) (s : sim) (ds : list draws) : res (sim * list draws) :=
  match ds with
  | [] => Ok (s, [])
  | d :: r =>
    if before T s then
      match event_step cf (s <| dr := d |>) with
      | Ok (_, s') => run_until cf T s' r
      | Err e => Err e
      | OutOfFuel => OutOfFuel
      end
    else Ok (s, ds)
  end.

(* the same loop, also returning the states from which an event was executed, in order *)
Fixpoint run_until_tr (cf : config) (T : Z) (s : sim) (ds : list draws) : res (list sim * sim * list draws) :=
  match ds with
  | [] => Ok ([], s, [])
  | d :: r =>
    if before T s then
      match event_step cf (s <| dr := d |>) with
      | Ok (_, s') =>
        match run_until_tr cf T s' r with
        | Ok (tr, s'', rest) => Ok (s :: tr, s'', rest)
        | Err e => Err e
        | OutOfFuel => OutOfFuel
        end
      | Err e => Err e
      | OutOfFuel => OutOfFuel
      end
    else Ok ([], s, ds)
  end.

Lemma run_until_forget cf T : forall ds s,
  run_until cf T s ds = match run_until_tr cf T s ds with Ok (_, s', r) => Ok (s', r) | Err e => Err e | OutOfFuel => OutOfFuel end.
Proof.
  induction ds as [|d r IH]; intros s; cbn [run_until run_until_tr]; [reflexivity|].
  destruct (before T s); [|reflexivity].
  destruct (event_step cf (s <| dr := d |>)) as [[u s1]| |]; try reflexivity.
  rewrite IH. destruct (run_until_tr cf T s1 r) as [[[tr s2] rest]| |]; reflexivity.
Qed.
Lemma run_until_has_trace cf T ds s s' rest : run_until cf T s ds = Ok (s', rest) -> exists tr, run_until_tr cf T s ds = Ok (tr, s', rest).
Proof.
  rewrite run_until_forget. destruct (run_until_tr cf T s ds) as [[[tr s2] rest2]| |]; intros H; try discriminate.
  inversion H. subst. exists tr. reflexivity.
Qed.

Lemma before_true T s : before T s = true -> exists d, next_date s = Some d /\ d < T.
Proof. unfold before. destruct (next_date s) as [d|]; [|discriminate]. intros H. apply Z.ltb_lt in H. exists d. auto. Qed.
Lemma before_mono T1 T s : T1 <= T -> before T1 s = true -> before T s = true.
Proof.
  intros HT H. destruct (before_true _ _ H) as (d & Hd & Hlt). unfold before. rewrite Hd. apply Z.ltb_lt. lia.
Qed.

(* (3) and the skeleton of (1), with no hypothesis at all: the loop consumed a prefix `used` of the draws, its result is
   Codec.run_many on that prefix, every state from which an event was executed is run_many of a shorter prefix and passed
   the test `before T`, and when draws are left over the loop stopped because the test failed *)
Lemma run_until_tr_spec cf T : forall ds s tr s' rest, run_until_tr cf T s ds = Ok (tr, s', rest) ->
  exists used, ds = used ++ rest /\ length used = length tr /\ run_many cf s used = Ok s' /\
    Forall (fun x => before T x = true) tr /\ (rest <> [] -> before T s' = false) /\
    (forall k x, nth_error tr k = Some x -> run_many cf s (firstn k used) = Ok x).
Proof.
  induction ds as [|d r IH]; intros s tr s' rest H; cbn [run_until_tr] in H.
  - inversion H. subst. exists []. split; [reflexivity|]. split; [reflexivity|]. split; [reflexivity|]. split; [constructor|].
    split; [intros Hne; exfalso; apply Hne; reflexivity|]. intros k x Hk. destruct k; discriminate.
  - destruct (before T s) eqn:Eb.
    + destruct (event_step cf (s <| dr := d |>)) as [[u s1]| |] eqn:Ee; try discriminate.
      destruct (run_until_tr cf T s1 r) as [[[tr1 s2] rest1]| |] eqn:Er; try discriminate.
      inversion H. subst tr s' rest. clear H.
      destruct (IH _ _ _ _ Er) as (used & E1 & E2 & E3 & E4 & E5 & E6).
      exists (d :: used). split; [cbn [app]; f_equal; exact E1|]. split; [cbn [length]; f_equal; exact E2|].
      split; [cbn [run_many]; rewrite Ee; exact E3|]. split; [constructor; [exact Eb|exact E4]|]. split; [exact E5|].
      intros k x Hk. destruct k as [|k]; cbn [nth_error] in Hk.
      * injection Hk as <-. reflexivity.
      * cbn [firstn run_many]. rewrite Ee. apply E6. exact Hk.
    + inversion H. subst tr s' rest. exists []. split; [reflexivity|]. split; [reflexivity|]. split; [reflexivity|]. split; [constructor|].
      split; [intros _; exact Eb|]. intros k x Hk. destruct k; discriminate.
Qed.

(* (3) run_until agrees with Codec.run_many on the draws it consumed *)
Theorem run_until_run_many cf T ds s s' rest : run_until cf T s ds = Ok (s', rest) ->
  exists used, ds = used ++ rest /\ run_many cf s used = Ok s' /\ (rest <> [] -> before T s' = false).
Proof.
  intros H. destruct (run_until_has_trace _ _ _ _ _ _ H) as [tr Htr].
  destruct (run_until_tr_spec _ _ _ _ _ _ _ Htr) as (used & E1 & _ & E3 & _ & E5 & _). exists used. auto.
Qed.

(* (4) pause / resume: a call to T1 followed by a call to T >= T1 on the remaining draws is one call to T.  No hypothesis
   on the state is needed: between events the state is already "picked" (C16's proviso pick r1 = r1 holds by construction). *)
Theorem run_until_split_eq cf T1 T : T1 <= T -> forall ds s,
  run_until cf T s ds =
  match run_until cf T1 s ds with Ok (s1, r1) => run_until cf T s1 r1 | Err e => Err e | OutOfFuel => OutOfFuel end.
Proof.
  intros HT. induction ds as [|d r IH]; intros s; cbn [run_until]; [reflexivity|].
  destruct (before T1 s) eqn:Eb; [|reflexivity].
  rewrite (before_mono _ _ _ HT Eb). destruct (event_step cf (s <| dr := d |>)) as [[u s2]| |]; try reflexivity. apply IH.
Qed.
Theorem run_until_split cf T1 T : T1 <= T -> forall ds s s1 r1, run_until cf T1 s ds = Ok (s1, r1) ->
  run_until cf T s1 r1 = run_until cf T s ds.
Proof. intros HT ds s s1 r1 H. rewrite (run_until_split_eq cf T1 T HT ds s), H. reflexivity. Qed.
Theorem run_until_tr_split cf T1 T : T1 <= T -> forall ds s tr1 s1 r1, run_until_tr cf T1 s ds = Ok (tr1, s1, r1) ->
  run_until_tr cf T s ds =
  match run_until_tr cf T s1 r1 with Ok (tr2, s2, r2) => Ok (tr1 ++ tr2, s2, r2) | Err e => Err e | OutOfFuel => OutOfFuel end.
Proof.
  intros HT. induction ds as [|d r IH]; intros s tr1 s1 r1 H; cbn [run_until_tr] in H.
  - inversion H. subst. cbn [run_until_tr]. reflexivity.
  - destruct (before T1 s) eqn:Eb.
    + destruct (event_step cf (s <| dr := d |>)) as [[u s2]| |] eqn:Ee; try discriminate.
      destruct (run_until_tr cf T1 s2 r) as [[[tr0 s3] rest0]| |] eqn:Er; try discriminate.
      inversion H. subst tr1 s1 r1. clear H.
      cbn [run_until_tr]. rewrite (before_mono _ _ _ HT Eb), Ee, (IH _ _ _ _ Er).
      destruct (run_until_tr cf T s3 rest0) as [[[tr2 s4] r2]| |]; reflexivity.
    + inversion H. subst tr1 s1 r1. clear H. cbn [app].
      destruct (run_until_tr cf T s (d :: r)) as [[[tr2 s4] r2]| |]; reflexivity.
Qed.

(* ---------- nondecreasing lists of dates ---------- *)
Fixpoint chain (a : Z) (l : list Z) : Prop := match l with [] => True | x :: r => a <= x /\ chain x r end.
Lemma chain_le a b l : a <= b -> chain b l -> chain a l.
Proof. destruct l as [|x r]; cbn; [auto|]. intros H [H1 H2]. split; [lia|exact H2]. Qed.

(* ---------- the minimum over the customers of an infinite-server node is a lower bound of every candidate ---------- *)
Lemma scan_inds_lb : forall q t il best acc d cs, scan_inds t q il best acc = (d, cs) ->
  dle d best /\
  forall i x e, In i q -> find_ind i il = Some x -> i_send x = Some e -> i_blocked x = false -> t <= e -> dle d (Some e).
Proof.
  induction q as [|i r IH]; intros t il best acc d cs H; cbn [scan_inds] in H.
  - inversion H. subst. split; [apply dle_refl|]. intros i x e [].
  - assert (G : forall best' acc', scan_inds t r il best' acc' = (d, cs) -> dle best' best ->
                (forall x e, find_ind i il = Some x -> i_send x = Some e -> i_blocked x = false -> t <= e -> dle best' (Some e)) ->
                dle d best /\
                forall i0 x e, In i0 (i :: r) -> find_ind i0 il = Some x -> i_send x = Some e -> i_blocked x = false -> t <= e -> dle d (Some e)).
    { intros best' acc' H' Hb Hc. destruct (IH _ _ _ _ _ _ H') as [A B]. split; [eapply dle_trans; eauto|].
      intros i0 x e [<-|Hin] Hf He Hbl Ht; [eapply dle_trans; [exact A|eapply Hc; eauto]|eapply B; eauto]. }
    destruct (find_ind i il) as [x|] eqn:Ef; [|eapply G; [exact H|apply dle_refl|intros x e Hx; discriminate]].
    destruct (i_send x) as [e|] eqn:Ee; [|eapply G; [exact H|apply dle_refl|intros x0 e0 Hx He; injection Hx as <-; congruence]].
    destruct (negb (i_blocked x) && (t <=? e)) eqn:Eg.
    + destruct (date_lt (Some e) best) eqn:E1.
      * eapply G; [exact H|apply date_lt_dle; exact E1|]. intros x0 e0 Hx He _ _. injection Hx as <-. rewrite Ee in He. injection He as <-. apply dle_refl.
      * assert (Hb : dle best (Some e)) by (apply date_nlt_dle; exact E1).
        assert (Hc : forall x0 e0, Some x = Some x0 -> i_send x0 = Some e0 -> i_blocked x0 = false -> t <= e0 -> dle best (Some e0)).
        { intros x0 e0 Hx He _ _. injection Hx as <-. rewrite Ee in He. injection He as <-. exact Hb. }
        destruct (date_eqb (Some e) best); (eapply G; [exact H|apply dle_refl|exact Hc]).
    + eapply G; [exact H|apply dle_refl|]. intros x0 e0 Hx He Hbl Ht. injection Hx as <-. rewrite Ee in He. injection He as <-.
      rewrite Hbl in Eg. cbn in Eg. apply Z.leb_gt in Eg. lia.
Qed.

Section Horizon.
  Variable cf : config.

  (* ---------- the extra invariant: a node's next date is a lower bound of what it has pending ---------- *)
  Definition FreshS (nd : node) : Prop :=
    fin cf (n_id nd) = true -> Forall (fun sv => dle (n_next_date nd) (sv_next_end sv)) (n_servers nd).
  Definition FreshI (t : Z) (il : list ind) (nd : node) : Prop :=
    fin cf (n_id nd) = false ->
    forall i x e, In i (all_individuals nd) -> find_ind i il = Some x -> i_send x = Some e -> i_blocked x = false -> t <= e ->
                  dle (n_next_date nd) (Some e).
  Definition Frs (s : sim) : Prop := forall nd, In nd (nodes s) -> FreshS nd /\ FreshI (now s) (inds s) nd.
  Definition Hzn (s : sim) : Prop := Clk cf s /\ Frs s.

  Definition UI (t : Z) (P : Z -> Prop) (s : sim) : Prop := forall nd, In nd (nodes s) -> P (n_id nd) -> FreshI t (inds s) nd.

  Lemma une_inf t j P s s' : Idx s -> now s = t -> UI t P s -> update_next_event_date cf j s = Ok (tt, s') ->
    UI t (fun x => x = j \/ P x) s' /\ inds s' = inds s /\ now s' = now s.
  Proof.
    intros HI Hnow HU H. unfold update_next_event_date in H.
    minvn H nd s1 E. apply get_node_spec in E as [-> Hn].
    minvn H inf s1 E. apply is_inf_spec in E as [-> Hfin].
    minvn H t0 s1 E. apply gets_spec in E as [-> ->].
    minvn H il s1 E. apply gets_spec in E as [-> ->].
    destruct (if inf then scan_inds (now s) (all_individuals nd) (inds s) None [] else scan_servers (n_servers nd) None []) as [d l] eqn:Es.
    pose proof (Idx_get _ _ _ HI Hn) as Hid.
    set (nd' := nd <| n_next_date := d |> <| n_next_inds := l |>) in *.
    unfold put_node, modify in H. inversion H. subst s'. clear H. cbn [nodes inds now set].
    split; [|split; reflexivity].
    destruct (nthZ_nat _ _ _ Hn) as (k0 & Hk0 & Hnk).
    unfold UI. cbn [nodes inds set]. change (n_id nd') with (n_id nd). rewrite Hid, Hk0, updZ_nat.
    intros x Hx Hp. apply In_nth_error in Hx as [k Hk].
    destruct (nth_error_upd_cases _ _ _ _ _ Hk) as [[_ ->]|[Hne Hk']].
    - intros Hf i y e Hin Hy He Hbl Ht. change (n_id nd') with (n_id nd) in Hf. rewrite Hid, Hfin in Hf.
      destruct inf; [|discriminate Hf].
      change (n_next_date nd') with d. change (all_individuals nd') with (all_individuals nd) in Hin.
      destruct (scan_inds_lb _ _ _ _ _ _ _ Es) as [_ B]. eapply B; eauto. lia.
    - apply (HU x (nth_error_In _ _ Hk')). destruct Hp as [Hp|Hp]; [|exact Hp].
      specialize (HI _ _ Hk'). lia.
  Qed.

  Lemma update_all_fresh t : forall js P s s', K cf t s -> U cf t P s -> UI t P s -> update_all cf js s = Ok (tt, s') ->
    K cf t s' /\ U cf t (fun x => In x js \/ P x) s' /\ UI t (fun x => In x js \/ P x) s' /\ map n_id (nodes s') = map n_id (nodes s).
  Proof.
    induction js as [|j r IH]; intros P s s' HK HU HV H; cbn [update_all] in H.
    - inversion H. subst. split; [exact HK|]. split; [|split; [|reflexivity]].
      + intros nd Hin [[]|Hp]. apply HU; assumption.
      + intros nd Hin [[]|Hp]. apply HV; assumption.
    - minvn H u s1 E. destruct u. destruct (une_spec cf t j P s s1 HK HU E) as (K1 & U1 & M1).
      pose proof HK as (Hnow & HI & _).
      destruct (une_inf t j P s s1 HI Hnow HV E) as (V1 & _ & _).
      destruct (IH _ _ _ K1 U1 V1 H) as (K2 & U2 & V2 & M2). split; [exact K2|]. split; [|split; [|congruence]].
      + intros nd Hin Hp. apply U2; [exact Hin|]. destruct Hp as [[<-|Hp]|Hp]; auto.
      + intros nd Hin Hp. apply V2; [exact Hin|]. destruct Hp as [[<-|Hp]|Hp]; auto.
  Qed.

  Lemma fnan_frame s s' : find_next_active_node s = Ok (tt, s') -> nodes s' = nodes s /\ inds s' = inds s.
  Proof.
    intros H. unfold find_next_active_node in H.
    minvn H sg s1 E. apply gets_spec in E as [-> ->].
    destruct (scan_active 0 (a_next_date (arr s) :: map n_next_date (nodes s)) None [] true) as [d cands].
    minvn H k s0 E.
    assert (G : nodes s0 = nodes s /\ inds s0 = inds s).
    { destruct cands as [|a [|b r]]; [discriminate E|inversion E; subst; auto|].
      unfold choice_uniform, bind, draw_unif in E. destruct (d_unif (dr s)) as [|u r0]; [discriminate|].
      destruct (nth_error (a :: b :: r) (rc_uniform (length (a :: b :: r)) u)) as [x|]; cbn in E; inversion E. subst. auto. }
    unfold modify in H. inversion H. subst s'. cbn [nodes inds set]. exact G.
  Qed.

  (* one event establishes Frs from Clk alone *)
  Lemma event_step_fresh s s' : Clk cf s -> DrawsOK (dr s) -> event_step cf s = Ok (tt, s') -> Frs s'.
  Proof.
    intros HC HD H. pose proof (Clk_K cf s HC HD) as HK. set (t := now s) in *. clearbody t. clear HC HD.
    unfold event_step in H.
    minvn H u0 s0 E.
    assert (K0 : K cf t s0) by (unfold modify in E; inversion E; eapply K_same; [..|exact HK]; reflexivity). clear E HK.
    minvn H k sk E. apply gets_spec in E as [-> ->].
    minvn H u1 s1 E.
    assert (K1 : K cf t s1).
    { destruct (next_active s0 =? 0); [exact (proj1 (k_arrival_have_event cf t _ _ _ K0 E))|exact (proj1 (k_finish_service cf t _ _ _ _ K0 E))]. }
    clear E K0.
    minvn H ns sn E. apply gets_spec in E as [-> ->].
    minvn H u2 s2 E. destruct u2.
    destruct (update_all_fresh t _ (fun _ => False) _ _ K1 ltac:(intros nd _ []) ltac:(intros nd _ []) E) as (K2 & U2 & V2 & M2).
    assert (Hall : forall nd, In nd (nodes s2) -> In (n_id nd) (map n_id (nodes s1)) \/ False).
    { intros nd Hin. left. rewrite <- M2. apply in_map. exact Hin. }
    assert (HF : forall nd, In nd (nodes s2) -> Fresh cf t nd) by (intros nd Hin; apply (U2 nd Hin); apply Hall; exact Hin).
    destruct (fnan_spec cf t s2 s' K2 HF H) as [_ Hle].
    destruct (fnan_frame _ _ H) as [En Ei].
    intros nd Hin. rewrite En in Hin. split.
    - exact (proj2 (HF nd Hin)).
    - rewrite Ei. intros Hf i x e Hi Hx He Hbl Ht. eapply (V2 nd Hin (Hall nd Hin) Hf); eauto. lia.
  Qed.

  (* ---------- T2: one event ---------- *)
  Theorem event_step_hzn s s' : Hzn s -> DrawsOK (dr s) -> event_step cf s = Ok (tt, s') -> Hzn s' /\ now s <= now s'.
  Proof.
    intros [HC _] HD H. destruct (event_step_clk cf s s' HC HD H) as [C1 L1].
    split; [split; [exact C1|exact (event_step_fresh s s' HC HD H)]|exact L1].
  Qed.

  (* ---------- any number of events ---------- *)
  Theorem run_many_hzn : forall ds s s', Hzn s -> Forall DrawsOK ds -> run_many cf s ds = Ok s' -> Hzn s' /\ now s <= now s'.
  Proof.
    induction ds as [|d r IH]; intros s s' HZ HD H; cbn [run_many] in H; [inversion H; subst; split; [exact HZ|lia]|].
    destruct (event_step cf (s <| dr := d |>)) as [[u s1]| |] eqn:E; try discriminate. destruct u.
    inversion HD as [|? ? Hd Hr]; subst.
    assert (HZ' : Hzn (s <| dr := d |>)) by exact HZ.
    destruct (event_step_hzn _ _ HZ' Hd E) as [Z1 L1]. cbn in L1.
    destruct (IH _ _ Z1 Hr H) as [Z2 L2]. split; [exact Z2|lia].
  Qed.

  (* ---------- what the loop test reads, under the invariant ---------- *)
  Lemma Clk_next_date s : Clk cf s -> next_date s = Some (now s) \/ (next_date s = None /\ nothing_scheduled s).
  Proof.
    intros HC. pose proof (Clk_means cf s HC) as (_ & _ & _ & _ & _ & M0 & M1).
    destruct HC as (_ & _ & _ & _ & (Hpos & _)).
    unfold next_date. destruct (next_active s =? 0) eqn:E0.
    - apply Z.eqb_eq in E0. destruct (M0 E0) as [Hd|Hn]; [left; exact Hd|right; split; [apply Hn|exact Hn]].
    - apply Z.eqb_neq in E0. destruct (M1 E0) as (nd & Hnth & _ & Hd).
      unfold nthZ. destruct (next_active s - 1 <? 0) eqn:El; [apply Z.ltb_lt in El; lia|]. rewrite Hnth.
      destruct Hd as [Hd|Hn]; [left; exact Hd|right; split; [|exact Hn]]. apply Hn. eapply nth_error_In; exact Hnth.
  Qed.

  Lemma Clk_before_true T s : Clk cf s -> before T s = true -> next_date s = Some (now s) /\ now s < T.
  Proof.
    intros HC H. destruct (before_true _ _ H) as (d & Hd & Hlt).
    destruct (Clk_next_date s HC) as [E|[E _]]; rewrite E in Hd; [|discriminate]. injection Hd as <-. auto.
  Qed.
  Lemma Clk_before_false T s : Clk cf s -> before T s = false -> T <= now s \/ nothing_scheduled s.
  Proof.
    intros HC H. unfold before in H. destruct (Clk_next_date s HC) as [E|[E Hn]]; [|right; exact Hn].
    rewrite E in H. apply Z.ltb_ge in H. left. exact H.
  Qed.

  (* nothing is pending before T *)
  Definition NothingBefore (T : Z) (s : sim) : Prop :=
    (* no arrival *)
    (forall row e, In row (a_dates (arr s)) -> In (Some e) row -> T <= e) /\
    (forall e, a_next_date (arr s) = Some e -> T <= e) /\
    (* no node event *)
    (forall nd e, In nd (nodes s) -> n_next_date nd = Some e -> T <= e) /\
    (* no end of service at a node with finitely many servers *)
    (forall nd sv e, In nd (nodes s) -> fin cf (n_id nd) = true -> In sv (n_servers nd) -> sv_next_end sv = Some e -> T <= e) /\
    (* no end of service, not in the past, of an unblocked customer of an infinite-server node *)
    (forall nd i x e, In nd (nodes s) -> fin cf (n_id nd) = false -> In i (all_individuals nd) -> find_ind i (inds s) = Some x ->
                      i_blocked x = false -> i_send x = Some e -> now s <= e -> T <= e).

  (* (2) when the loop test fails, nothing is scheduled before T *)
  Theorem Hzn_means T s : Hzn s -> before T s = false -> (T <= now s \/ nothing_scheduled s) /\ NothingBefore T s.
  Proof.
    intros [HC HF] Hb. pose proof (Clk_before_false T s HC Hb) as Hcase. split; [exact Hcase|].
    pose proof (Clk_means cf s HC) as (M1 & M2 & _ & M4 & M5 & _).
    destruct Hcase as [HT|[Ha Hn]].
    - unfold NothingBefore. split; [|split; [|split; [|split]]].
      + intros row e Hr He. specialize (M1 row e Hr He). lia.
      + intros e He. destruct HC as (_ & HA & _). pose proof (ArrOK_next _ _ HA) as Hd. rewrite He in Hd. cbn in Hd. lia.
      + intros nd e Hin He. specialize (M4 nd e Hin He). lia.
      + intros nd sv e Hin Hf Hsv He. specialize (M5 nd sv e Hin Hf Hsv He). lia.
      + intros nd i x e _ _ _ _ _ _ Hle. lia.
    - unfold NothingBefore. split; [|split; [|split; [|split]]].
      + intros row e Hr He. specialize (M2 row (Some e) Hr He). rewrite Ha in M2. destruct M2.
      + intros e He. rewrite Ha in He. discriminate.
      + intros nd e Hin He. rewrite (Hn nd Hin) in He. discriminate.
      + intros nd sv e Hin Hf Hsv He. destruct (HF nd Hin) as [FS _]. specialize (FS Hf). rewrite Forall_forall in FS.
        specialize (FS sv Hsv). rewrite (Hn nd Hin), He in FS. destruct FS.
      + intros nd i x e Hin Hf Hi Hx Hbl He Hle. destruct (HF nd Hin) as [_ FI].
        specialize (FI Hf i x e Hi Hx He Hbl Hle). rewrite (Hn nd Hin) in FI. destruct FI.
  Qed.

  (* ---------- the loop under the invariant ---------- *)
  (* (1) every executed event was the one scheduled at the clock, strictly before T; the clock never went back *)
  Theorem run_until_tr_hzn T : forall ds s tr s' rest, Hzn s -> Forall DrawsOK ds -> run_until_tr cf T s ds = Ok (tr, s', rest) ->
    Forall (fun x => Hzn x /\ next_date x = Some (now x) /\ now x < T) tr /\
    chain (now s) (map now tr ++ [now s']) /\ Hzn s'.
  Proof.
    induction ds as [|d r IH]; intros s tr s' rest HZ HD H; cbn [run_until_tr] in H.
    - inversion H. subst. split; [constructor|]. split; [cbn; lia|exact HZ].
    - destruct (before T s) eqn:Eb.
      + destruct (event_step cf (s <| dr := d |>)) as [[u s1]| |] eqn:Ee; try discriminate. destruct u.
        destruct (run_until_tr cf T s1 r) as [[[tr1 s2] rest1]| |] eqn:Er; try discriminate.
        inversion H. subst tr s' rest. clear H.
        inversion HD as [|? ? Hd Hr]; subst.
        assert (HZ' : Hzn (s <| dr := d |>)) by exact HZ.
        destruct (event_step_hzn _ _ HZ' Hd Ee) as [Z1 L1]. cbn in L1.
        destruct (IH _ _ _ _ Z1 Hr Er) as (A & B & C).
        split; [constructor; [split; [exact HZ|exact (Clk_before_true T s (proj1 HZ) Eb)]|exact A]|]. split; [|exact C].
        cbn [map app chain]. split; [lia|]. eapply chain_le; [exact L1|exact B].
      + inversion H. subst tr s' rest. split; [constructor|]. split; [cbn; lia|exact HZ].
  Qed.

  (* the hypothesis on the draws is only needed for the draws that were consumed *)
  Lemma run_until_tr_used T : forall ds s tr s' rest used, run_until_tr cf T s ds = Ok (tr, s', rest) -> ds = used ++ rest ->
    run_until_tr cf T s used = Ok (tr, s', []).
  Proof.
    induction ds as [|d r IH]; intros s tr s' rest used H Hu; cbn [run_until_tr] in H.
    - inversion H. subst. destruct used; [reflexivity|discriminate].
    - destruct (before T s) eqn:Eb.
      + destruct (event_step cf (s <| dr := d |>)) as [[u s1]| |] eqn:Ee; try discriminate.
        destruct (run_until_tr cf T s1 r) as [[[tr1 s2] rest1]| |] eqn:Er; try discriminate.
        inversion H. subst tr s' rest. clear H.
        destruct used as [|d0 used0].
        * exfalso. cbn [app] in Hu. destruct (run_until_tr_spec _ _ _ _ _ _ _ Er) as (u1 & E1 & _).
          assert (Hl : length (d :: r) = length rest1) by (rewrite Hu; reflexivity). rewrite E1 in Hl. cbn [length] in Hl. rewrite app_length in Hl. lia.
        * cbn [app] in Hu. injection Hu as <- Hu. cbn [run_until_tr]. rewrite Eb, Ee, (IH _ _ _ _ _ Er Hu). reflexivity.
      + inversion H. subst tr s' rest. clear H.
        assert (used = []).
        { destruct used as [|d0 used0]; [reflexivity|]. exfalso.
          assert (Hl : length (d :: r) = length ((d0 :: used0) ++ d :: r)) by (rewrite <- Hu; reflexivity).
          rewrite app_length in Hl. cbn [length] in Hl. lia. }
        subst used. reflexivity.
  Qed.

  Theorem run_until_hzn T ds s s' rest : Hzn s -> Forall DrawsOK ds -> run_until cf T s ds = Ok (s', rest) -> Hzn s' /\ now s <= now s'.
  Proof.
    intros HZ HD H. destruct (run_until_run_many _ _ _ _ _ _ H) as (used & E1 & E2 & _).
    eapply run_many_hzn; [exact HZ| |exact E2]. rewrite E1 in HD. apply Forall_app in HD. apply HD.
  Qed.

  (* ---------- C14, first half, in the words of the property ---------- *)
  Theorem engine_horizon T ds s s' rest : WFx [] s -> Hzn s -> run_until cf T s ds = Ok (s', rest) ->
    exists used tr,
      (* the loop consumed a prefix of the draws and its result is the engine run on that prefix *)
      ds = used ++ rest /\ length tr = length used /\ run_many cf s used = Ok s' /\
      (* tr lists the states from which an event was executed *)
      (forall k x, nth_error tr k = Some x -> run_many cf s (firstn k used) = Ok x) /\
      (* with draws to spare, the loop stopped because its test failed *)
      (rest <> [] -> before T s' = false) /\
      (Forall DrawsOK used ->
       (* none scheduled at or after T was executed: every executed event was the one due at the clock, and that was before T *)
       Forall (fun x => next_date x = Some (now x) /\ now x < T) tr /\
       chain (now s) (map now tr ++ [now s']) /\
       (* the invariants hold at return: unfinished customers are left in place *)
       WFx [] s' /\ Hzn s' /\
       (* every event scheduled before T was executed: once the loop test fails, nothing is left before T *)
       (before T s' = false -> (T <= now s' \/ nothing_scheduled s') /\ NothingBefore T s')).
  Proof.
    intros HW HZ H. destruct (run_until_has_trace _ _ _ _ _ _ H) as [tr Htr].
    destruct (run_until_tr_spec _ _ _ _ _ _ _ Htr) as (used & E1 & E2 & E3 & E4 & E5 & E6).
    exists used, tr. split; [exact E1|]. split; [symmetry; exact E2|]. split; [exact E3|]. split; [exact E6|]. split; [exact E5|].
    intros HD. pose proof (run_until_tr_used T _ _ _ _ _ _ Htr E1) as Hu.
    destruct (run_until_tr_hzn T _ _ _ _ _ HZ HD Hu) as (A & B & C).
    split; [eapply Forall_impl; [|exact A]; intros x Hx; apply Hx|]. split; [exact B|].
    split; [eapply run_many_conserves; eauto|]. split; [exact C|].
    intros Hb. apply Hzn_means; [exact C|exact Hb].
  Qed.

  (* ---------- an executable test of the invariant ---------- *)
  Definition frs_b (s : sim) : bool :=
    forallb (fun nd =>
      if fin cf (n_id nd) then forallb (fun sv => dleb (n_next_date nd) (sv_next_end sv)) (n_servers nd)
      else forallb (fun i => match find_ind i (inds s) with
                             | Some x => match i_send x with
                                         | Some e => i_blocked x || (e <? now s) || dleb (n_next_date nd) (Some e)
                                         | None => true end
                             | None => true end) (all_individuals nd)) (nodes s).
  Definition hzn_b (s : sim) : bool := clk_b cf s && frs_b s.

  Theorem hzn_b_sound s : hzn_b s = true -> Hzn s.
  Proof.
    unfold hzn_b. intros H. apply andb_true_iff in H as [H1 H2]. split; [apply clk_b_sound; exact H1|].
    unfold frs_b in H2. rewrite forallb_forall in H2. intros nd Hin. specialize (H2 nd Hin). split.
    - intros Hf. rewrite Hf in H2. apply Forall_forall. intros sv Hsv. rewrite forallb_forall in H2. apply dleb_dle. apply (H2 sv Hsv).
    - intros Hf i x e Hi Hx He Hbl Ht. rewrite Hf in H2. rewrite forallb_forall in H2. specialize (H2 i Hi).
      rewrite Hx, He, Hbl in H2. cbn [orb] in H2. destruct (e <? now s) eqn:El; [apply Z.ltb_lt in El; lia|].
      cbn [orb] in H2. apply dleb_dle. exact H2.
  Qed.
End Horizon.

(* ---------- run_until is an instance of the abstract loop of Sub/Loop.v (the loop of C14's and C16's abstract theorems) ----------
   state = (result so far, draws left); pick = identity (the model's states are already "picked"); event = one
   event_step with the next record of draws; date = next_date, read as infinite once the run has failed or the draws
   have run out; fuel = number of records of draws. *)
Definition LS : Type := (res sim * list draws)%type.
Definition l_event (cf : config) (x : LS) : LS :=
  match x with
  | (Ok s, d :: r) => (match event_step cf (s <| dr := d |>) with Ok (_, s') => Ok s' | Err e => Err e | OutOfFuel => OutOfFuel end, r)
  | _ => x
  end.
Definition l_date (x : LS) : option Z := match x with (Ok s, _ :: _) => next_date s | _ => None end.
Definition l_out (x : LS) : res (sim * list draws) :=
  match fst x with Ok s => Ok (s, snd x) | Err e => Err e | OutOfFuel => OutOfFuel end.
Definition l_loop (cf : config) (T : Z) (fuel : nat) (x : LS) : option (list Z * LS) :=
  Loop.loop_time LS (fun x => x) (l_event cf) l_date T fuel x.

Lemma l_loop_stopped cf T fuel x : Loop.before LS l_date T x = false -> l_loop cf T fuel x = Some ([], x).
Proof. intros H. unfold l_loop. destruct fuel; cbn [Loop.loop_time]; rewrite H; reflexivity. Qed.

Theorem run_until_is_loop cf T : forall ds s, exists dates r,
  l_loop cf T (length ds) (Ok s, ds) = Some (dates, r) /\ l_out r = run_until cf T s ds /\
  (forall tr s' rest, run_until_tr cf T s ds = Ok (tr, s', rest) -> map Some dates = map next_date tr).
Proof.
  induction ds as [|d r IH]; intros s.
  - exists [], (Ok s, []). split; [apply l_loop_stopped; reflexivity|]. split; [reflexivity|].
    intros tr s' rest H. cbn [run_until_tr] in H. inversion H. reflexivity.
  - assert (Eb : Loop.before LS l_date T (Ok s, d :: r) = before T s) by reflexivity.
    destruct (before T s) eqn:Eb'.
    + unfold l_loop. cbn [length Loop.loop_time]. rewrite Eb. cbv beta. cbn [l_event].
      destruct (before_true _ _ Eb') as (x & Hx & _).
      cbn [run_until run_until_tr]. rewrite Eb'.
      destruct (event_step cf (s <| dr := d |>)) as [[u s1]| |] eqn:Ee.
      * destruct (IH s1) as (dates & r0 & El & Eo & Etr). unfold l_loop in El. rewrite El.
        exists (x :: dates), r0. cbn [l_date]. rewrite Hx. split; [reflexivity|]. split; [exact Eo|].
        intros tr s' rest H. destruct (run_until_tr cf T s1 r) as [[[tr1 s2] rest1]| |] eqn:Er; try discriminate.
        inversion H. subst tr s' rest. cbn [map]. rewrite Hx. f_equal. eapply Etr. reflexivity.
      * fold (l_loop cf T (length r) (Err site, r)). rewrite l_loop_stopped by reflexivity.
        exists [x], (Err site, r). cbn [l_date]. rewrite Hx. split; [reflexivity|]. split; [reflexivity|]. intros tr s' rest H. discriminate.
      * fold (l_loop cf T (length r) (OutOfFuel, r)). rewrite l_loop_stopped by reflexivity.
        exists [x], (OutOfFuel, r). cbn [l_date]. rewrite Hx. split; [reflexivity|]. split; [reflexivity|]. intros tr s' rest H. discriminate.
    + exists [], (Ok s, d :: r). split; [apply l_loop_stopped; rewrite Eb; reflexivity|].
      cbn [run_until run_until_tr]. rewrite Eb'. split; [reflexivity|]. intros tr s' rest H. inversion H. reflexivity.
Qed.

(* what the abstract C14 theorem Loop.loop_time_post says of run_until *)
Corollary run_until_loop_post cf T ds s s' rest : run_until cf T s ds = Ok (s', rest) ->
  exists dates, l_loop cf T (length ds) (Ok s, ds) = Some (dates, (Ok s', rest)) /\
                Forall (fun d => d < T) dates /\ Loop.before LS l_date T (Ok s', rest) = false.
Proof.
  intros H. destruct (run_until_is_loop cf T ds s) as (dates & r & El & Eo & _).
  rewrite H in Eo. destruct r as [[s0| |] rest0]; cbn in Eo; try discriminate. inversion Eo. subst s0 rest0.
  exists dates. split; [exact El|]. exact (Loop.loop_time_post LS (fun x => x) (l_event cf) l_date T _ _ _ _ El).
Qed.

(* ---------- non-vacuity and an executable run ---------- *)
(* Clock.ex_sim: one single-server node, customer 1 in service until 5, next arrival at 7, clock at 5 *)
Example ex_hzn : Hzn ex_cf ex_sim.
Proof. apply hzn_b_sound. vm_compute. reflexivity. Qed.

Definition ex_draws : list draws := [mkDraws [] [] [] []; mkDraws [3] [1] [4] []; mkDraws [3] [1] [4] []; mkDraws [3] [1] [4] []].
(* horizon 9: the service end at 5 and the arrival at 7 are executed; the next event (arrival at 10) is not: the loop stops
   with two records of draws unused, the clock on 10, and customer 2 still in service (until 11) at the node *)
Example ex_run_until :
  match run_until ex_cf 9 ex_sim ex_draws with
  | Ok (s', rest) => Some (now s', next_active s', length rest, map n_pop (nodes s'), map (fun nd => map sv_next_end (n_servers nd)) (nodes s'),
                           exit_ids s', hzn_b ex_cf s')
  | _ => None
  end = Some (10, 0, 2%nat, [1], [[Some 11]], [1], true).
Proof. vm_compute. reflexivity. Qed.
Example ex_run_until_dates :
  match run_until_tr ex_cf 9 ex_sim ex_draws with Ok (tr, _, _) => Some (map now tr) | _ => None end = Some [5; 7].
Proof. vm_compute. reflexivity. Qed.
(* an infinite-server node: arrivals at 2 and 5 are executed; the service end due exactly at the horizon 6 is not; both
   customers are still in service (until 6 and 14) *)
Definition ex_cf_inf : config := mkCfg 1 [mkNcfg None None None 0] [0] 1 None [[[0]]] [[None]].
Definition ex_sim_inf : sim :=
  mkSim 2 0 (mkArr 0 0 [[Some 2]] 1 0 (Some 2)) [mkNode 1 0 0 [[]] [] [] 0 None []] [] 0 0 [] (mkDraws [] [] [] []) [].
Definition ex_draws_inf : list draws := [mkDraws [3] [1] [4] []; mkDraws [3] [1] [9] []; mkDraws [3] [1] [4] []; mkDraws [] [] [] []].
Example ex_hzn_inf : Hzn ex_cf_inf ex_sim_inf.
Proof. apply hzn_b_sound. vm_compute. reflexivity. Qed.
Example ex_run_until_inf :
  match run_until_tr ex_cf_inf 6 ex_sim_inf ex_draws_inf with
  | Ok (tr, s', rest) => Some (map now tr, now s', next_active s', length rest, map n_pop (nodes s'), map n_next_date (nodes s'),
                               map i_send (inds s'), a_next_date (arr s'), hzn_b ex_cf_inf s', wfx_b s')
  | _ => None
  end = Some ([2; 5], 6, 1, 2%nat, [2], [Some 6], [Some 6; Some 14], Some 8, true, true).
Proof. vm_compute. reflexivity. Qed.
(* pausing at 6 and resuming to 9 *)
Example ex_split :
  match run_until ex_cf 6 ex_sim ex_draws with
  | Ok (s1, r1) =>
    match run_until ex_cf 9 s1 r1 with Ok (s2, r2) => Some (now s1, length r1, now s2, length r2, map n_pop (nodes s2)) | _ => None end
  | _ => None end = Some (7, 3%nat, 10, 2%nat, [1]).
Proof. vm_compute. reflexivity. Qed.

Print Assumptions event_step_hzn.
Print Assumptions run_many_hzn.
Print Assumptions run_until_run_many.
Print Assumptions run_until_tr_hzn.
Print Assumptions run_until_hzn.
Print Assumptions Hzn_means.
Print Assumptions engine_horizon.
Print Assumptions run_until_split_eq.
Print Assumptions run_until_split.
Print Assumptions run_until_tr_split.
Print Assumptions run_until_is_loop.
Print Assumptions run_until_loop_post.
Print Assumptions hzn_b_sound.
Print Assumptions ex_hzn.
Print Assumptions ex_run_until.
Print Assumptions ex_run_until_inf.

(* Slot2.v -- T2 for the second half of C12 (slotted services) on the STAGE-2 engine model (Engine2 / State2 / Codec2).
   "With slotted services, services start only at slot instants, at most the slot size starts per slot, and under capacitated
   slots at most the slot size is in service right after the slot."  Partial correctness throughout (nothing is said about
   runs that return Err / OutOfFuel).  Builds on Sched2 (date lemmas), Order2 (who is started), Clock2 (slotdate), Conserve2.

   (a) EVERY configuration, every oracle, any number of events (no scope restriction, no hypothesis on the draws):
       SlotInv (run_many_slotinv; twin slot_inv_b, slot_inv_b_sound; SlotInv_means): node identities are positions; a slotted node
         has no servers, c = 0 and a position n_spos >= 0 (the index k = 1, 2, ... of its NEXT slot); a `quiet` node (no
         pre-emptive Schedule, no pre-emptive capacitated slots) has an empty list of interrupted customers.
       SlotNext (run_many_slotnext, established afresh by every event: event_step_slotnext; twin slot_next_b): the clock has not
         passed slotdate k of any slotted node; a node whose next event is a slot is slotted; the node about to run its slot does so
         with the clock exactly at slotdate k.
       slots_follow_timetable puts them together over runs: the position moves (to k + 1: event_step_slot) exactly at the node's own
         slot event and at no other event (event_step_other), and that event runs at slotdate k.  slot_table / slotdate_increasing:
         for a well-formed table (wf_slot, executable) slot k is at the (k-1)-th date of the cyclic generator, has size
         sizes[(k-1) mod n] >= 0, and the dates increase strictly.
   (c) the slot event, function level, every configuration with sl_pre <> 4 (Slotted.__init__ rejects 'reroute'):
       slot_event_starts (on Order2.slotted_service_starts): the customers started are a list l, one place after the other (head of
         the interrupted list, else the discipline's choice), nobody else's record changes in the loop, length l <= slot size
         (non-capacitated, or counter >= 0), and under capacitated slots length l <= max (size - number_in_service) 0.
       slotted_service_counts: the counter n_insvc (number_in_service) after the event = before - (number interrupted) + (number
         started); number interrupted = min (n_insvc - size, customers of the node carrying a service start date) and only under
         pre-emptive capacitated slots with n_insvc > size; position + 1; queues and population untouched.
       capacitated_after_slot: capacitated, size >= 0: counter after <= size PROVIDED (non-pre-emptive) counter before <= size,
         (pre-emptive) at least (counter - size) customers of the node carry a service start date -- i.e. the counter does not
         over-count, which can fail where number_in_service drifts (F-09b / F-02b).  uncapacitated_slot: starts <= size.
       The count used is the COUNTER n_insvc; in_service s nd is the true list (what interrupt_slotted_services reads).
       capacity_after_nonpreemptive_slot_refuted: closed witness that without pre-emption the literal property is false when the
         size decreases (2 then 1, long services: 2 in service after the slot of size 1); by design, not a defect; new.
   (b) services at the slotted node J start ONLY in J's slot event.  starts_only_in_slot: over any event that is not J's slot
       event (slot_due_b J s = false), every customer that is in a queue of J with service start date t afterwards was in a queue
       of J with the SAME date t before (nothing started or restarted at J), and J keeps its position; in_service_does_not_grow:
       the list in_service does not grow; run_between_slots: the same over any run during which J's slot event does not come up.
       Hypotheses: customer conservation WFx2 [] (Conserve2; kept by every event) and SlotInv.  SCOPE scope_b cf J (executable):
       J is slotted; no node has priority_preempt = 'reroute' (the cascade of a rerouted victim can move the pre-emptor, which
       the proof does not follow); no node OTHER than J interrupts services (pre-emptive Schedule / pre-emptive capacitated slots):
       the head of another node's interrupted list is not known to be a customer of that node (regions F-02b, F-12a).  J itself may
       have any slot table, capacities and blocking are allowed everywhere: a blocked customer of J interrupted by a slot gets its
       old start date back in release_blocked_individual and leaves in the same call (rbi_body_OK, Qrel).  Not refuted outside
       the scope: proof economy.  Without any scope: accept_at_slotted_starts_nothing (arrival path at a slotted node starts
       nothing: no server, c = 0, no pre-emption attempt), release_at_slotted_frees_no_server.
   (d) slot_example: pre-emptive capacitated table, 8 events, 5 slots, all booleans true at every boundary.

   Method: (a) a node-local invariant and the walk kp (as Sched2) with one frozen position; (c) cnt: the counter of one node
   through slot_loop / interrupt_service; (b) St0/iro/ss: which functions write a service start date (ss K tracks records
   known current), R / Qrel / StepOK over the recursive core (core_OK) using Conserve2's tr/pk lemmas for the place of every
   customer (queues disjoint, in flight = in no queue) and Order2's chg specifications of the start blocks. *)
From Coq Require Import ZArith List Bool Lia Permutation.
From RecordUpdate Require Import RecordUpdate.
From CiwV Require Import Sx Prelude Routing Sched.
From CiwV.Engine Require Import State2 Engine2 Codec2.
From CiwV.Inv Require Conserve2 Sched2 Order2 Clock2.
Import ListNotations.
Open Scope Z_scope.

Local Arguments Z.mul : simpl never.
Local Arguments Z.add : simpl never.
Local Arguments Z.sub : simpl never.
Local Arguments Z.max : simpl never.
Local Arguments Z.min : simpl never.
Local Arguments Z.of_nat : simpl never.
Local Arguments Z.to_nat : simpl never.
Local Arguments Nat.modulo : simpl never.
Local Arguments Nat.div : simpl never.
Local Arguments gen_date : simpl never.

(* ================================================================================================================ *)
(* Part 0: the monad                                                                                                 *)
(* ================================================================================================================ *)
Ltac minv H a s1 E :=
  match type of H with
  | bind ?m ?f ?s = Ok _ => unfold bind in H at 1; destruct (m s) as [[a s1]| |] eqn:E; [|discriminate H|discriminate H]
  end.

Lemma ret_inv {A} (a b : A) s s' : ret a s = Ok (b, s') -> b = a /\ s' = s.
Proof. unfold ret. intros H. injection H as <- <-. auto. Qed.
Lemma gets_inv {A} (f : sim -> A) b s s' : gets f s = Ok (b, s') -> b = f s /\ s' = s.
Proof. unfold gets. intros H. injection H as <- <-. auto. Qed.
Lemma modify_inv f u s s' : modify f s = Ok (u, s') -> s' = f s.
Proof. unfold modify. intros H. injection H as <- <-. auto. Qed.
Lemma lift_inv {A} e (o : option A) a s s' : lift e o s = Ok (a, s') -> o = Some a /\ s' = s.
Proof. destruct o as [x|]; cbn; unfold ret, fail; intros H; [injection H as <- <-; auto|discriminate]. Qed.
Lemma get_node_inv j nd s s' : get_node j s = Ok (nd, s') -> s' = s /\ 1 <= j /\ nthZ (nodes s) (j - 1) = Some nd.
Proof.
  unfold get_node. destruct (j <? 1) eqn:E; [discriminate|]. apply Z.ltb_ge in E.
  destruct (nthZ (nodes s) (j - 1)) as [x|]; [|discriminate]. intros H. injection H as <- <-. auto.
Qed.
Lemma get_ind_inv i x s s' : get_ind i s = Ok (x, s') -> s' = s /\ find_ind i (inds s) = Some x.
Proof. unfold get_ind. destruct (find_ind i (inds s)) as [y|]; [|discriminate]. intros H. injection H as <- <-. auto. Qed.
Lemma ncfg_of_inv cf j nc s s' : ncfg_of cf j s = Ok (nc, s') -> s' = s /\ nthZ (cf_nodes cf) (j - 1) = Some nc.
Proof. unfold ncfg_of. intros H. apply lift_inv in H as [H ->]. auto. Qed.

Lemma nthZ_nat {A} (l : list A) k x : nthZ l k = Some x -> 0 <= k /\ nth_error l (Z.to_nat k) = Some x.
Proof. unfold nthZ. destruct (k <? 0) eqn:E; [discriminate|]. apply Z.ltb_ge in E. auto. Qed.
Lemma nthZ_of_pos {A} (l : list A) k : nthZ l (Z.of_nat k + 1 - 1) = nth_error l k.
Proof.
  unfold nthZ. destruct (Z.of_nat k + 1 - 1 <? 0) eqn:E; [apply Z.ltb_lt in E; lia|].
  replace (Z.to_nat (Z.of_nat k + 1 - 1)) with k by lia. reflexivity.
Qed.
Lemma nth_error_upd {A} (l : list A) k x k' y : nth_error (upd l k x) k' = Some y ->
  (k' = k /\ y = x) \/ (k' <> k /\ nth_error l k' = Some y).
Proof.
  revert k k'; induction l as [|a l IH]; intros [|k] [|k'] H; cbn in *; try discriminate.
  - injection H as <-. auto.
  - right. split; [lia|exact H].
  - right. split; [lia|exact H].
  - destruct (IH _ _ H) as [[E1 E2] | [E1 E2]]; [left; split; congruence|right; split; [lia|exact E2]].
Qed.
Lemma nth_error_upd_same {A} (l : list A) k x y : nth_error l k = Some y -> nth_error (upd l k x) k = Some x.
Proof. revert k; induction l as [|a l IH]; intros [|k] H; cbn in *; try discriminate; eauto. Qed.

(* ================================================================================================================ *)
(* Part 1: the slot configuration of a node, the node-local invariant and its walk over the engine                   *)
(* ================================================================================================================ *)
Definition slot_of (cf : config) (j : Z) : option slotcfg :=
  match nthZ (cf_nodes cf) (j - 1) with
  | Some nc => match nc_srv nc with SSlot sl => Some sl | _ => None end
  | None => None
  end.
(* a node that never interrupts a service of its own accord: no pre-emptive Schedule, no pre-emptive capacitated slots *)
Definition quiet (cf : config) (j : Z) : bool :=
  match nthZ (cf_nodes cf) (j - 1) with
  | Some nc => match nc_srv nc with
               | SFixed => true
               | SSched sc => sc_pre sc =? 0
               | SSlot sl => negb (sl_cap sl && negb (sl_pre sl =? 0))
               end
  | None => true
  end.
(* slot k (k = 1, 2, ...): date and size; the position n_spos of a slotted node is the index of its NEXT slot *)
Definition slotdate := Clock2.slotdate.
Definition slotsize (sl : slotcfg) (k : nat) : Z := fst (slot_values sl k).

Section Inv.
  Variable cf : config.
  (* node fzJ (0 = none; otherwise a slotted node) is known to be at position fzp *)
  Variable fzJ fzp : Z.
  Hypothesis Hfz : fzJ = 0 \/ exists sl, slot_of cf fzJ = Some sl.

  Definition okn (nd : node) : Prop :=
    (forall sl, slot_of cf (n_id nd) = Some sl -> n_servers nd = [] /\ n_c nd = Some 0 /\ 0 <= n_spos nd) /\
    (quiet cf (n_id nd) = true -> n_interrupted nd = []) /\
    (n_id nd = fzJ -> n_spos nd = fzp).
  Definition Inv (s : sim) : Prop :=
    forall k nd, nth_error (nodes s) k = Some nd -> n_id nd = Z.of_nat k + 1 /\ okn nd.

  Lemma okn_same nd nd' : okn nd -> n_id nd' = n_id nd -> n_servers nd' = n_servers nd -> n_c nd' = n_c nd ->
    n_spos nd' = n_spos nd -> n_interrupted nd' = n_interrupted nd -> okn nd'.
  Proof. intros (A & B & C) E1 E2 E3 E4 E5. unfold okn. rewrite E1, E2, E3, E4, E5. auto. Qed.
  Lemma okn_servers nd l' : okn nd -> (n_servers nd = [] -> l' = []) -> okn (nd <| n_servers := l' |>).
  Proof.
    intros (A & B & C) Hl. split; [|split; [exact B|exact C]]. cbn. intros sl Hsl. destruct (A sl Hsl) as (A1 & A2 & A3). auto.
  Qed.
  Lemma okn_interrupted nd l' : okn nd -> (n_interrupted nd = [] -> l' = []) -> forall m, okn (nd <| n_interrupted := l' |> <| n_nint := m |>).
  Proof. intros (A & B & C) Hl m. split; [exact A|split; [|exact C]]. cbn. intros Hq. auto. Qed.

  Lemma Inv_put s nd : Inv s -> okn nd -> Inv (s <| nodes := updZ (nodes s) (n_id nd - 1) nd |>).
  Proof.
    intros HI Hok k nd' Hk. cbn in Hk. unfold updZ in Hk. destruct (n_id nd - 1 <? 0) eqn:E; [apply HI; exact Hk|].
    apply Z.ltb_ge in E. destruct (nth_error_upd _ _ _ _ _ Hk) as [[-> ->] | [_ H']]; [|apply HI; exact H'].
    split; [lia|exact Hok].
  Qed.
  Lemma Inv_nodes s s' : nodes s' = nodes s -> Inv s -> Inv s'.
  Proof. intros E H k nd Hk. rewrite E in Hk. apply H, Hk. Qed.
  Lemma Inv_get s j nd : Inv s -> nthZ (nodes s) (j - 1) = Some nd -> n_id nd = j /\ 1 <= j /\ okn nd.
  Proof.
    intros HI H. apply nthZ_nat in H as [H0 H]. destruct (HI _ _ H) as [A B]. split; [lia|]. split; [lia|exact B].
  Qed.

  (* ---------- the Hoare judgement: the invariant is kept and the result satisfies R ---------- *)
  Definition kp {A} (m : M A) (R : A -> Prop) : Prop :=
    forall s a s', Inv s -> m s = Ok (a, s') -> Inv s' /\ R a.
  Definition T {A} : A -> Prop := fun _ => True.

  Lemma kp_ret {A} (a : A) : kp (ret a) T.
  Proof. intros s a0 s' HI H. injection H as _ <-. split; [assumption|exact I]. Qed.
  Lemma kp_fail {A} e : kp (@fail A e) T.
  Proof. intros s a s' _ H. discriminate. Qed.
  Lemma kp_oof {A} : kp (@oof A) T.
  Proof. intros s a s' _ H. discriminate. Qed.
  Lemma kp_weaken {A} (m : M A) R : kp m R -> kp m T.
  Proof. intros H s a s' HI E. destruct (H _ _ _ HI E). split; [assumption|exact I]. Qed.
  Lemma kp_bind {A B} (m : M A) (f : A -> M B) R1 R : kp m R1 -> (forall a, R1 a -> kp (f a) R) -> kp (bind m f) R.
  Proof.
    intros Hm Hf s b s' HI H. unfold bind in H. destruct (m s) as [[a s1]| |] eqn:E; try discriminate.
    destruct (Hm _ _ _ HI E) as [HI1 HR]. eapply Hf; eauto.
  Qed.
  Lemma kp_bind_T {A B} (m : M A) (f : A -> M B) R : kp m T -> (forall a, kp (f a) R) -> kp (bind m f) R.
  Proof. intros Hm Hf. eapply kp_bind; [exact Hm|intros a _; apply Hf]. Qed.
  Lemma kp_gets {A} (f : sim -> A) : kp (gets f) T.
  Proof. intros s a s' HI H. injection H as _ <-. split; [assumption|exact I]. Qed.
  Lemma kp_lift_eq {A} e (o : option A) : kp (lift e o) (fun a => o = Some a).
  Proof. destruct o; intros s a0 s' HI H; [|discriminate H]. injection H as <- <-. auto. Qed.
  Lemma kp_lift {A} e (o : option A) : kp (lift e o) T.
  Proof. eapply kp_weaken, kp_lift_eq. Qed.
  Lemma kp_bind_lift {A B} e (o : option A) (f : A -> M B) R : (forall a, o = Some a -> kp (f a) R) -> kp (bind (lift e o) f) R.
  Proof. intros Hf. eapply kp_bind; [apply kp_lift_eq|exact Hf]. Qed.
  Lemma kp_modify (f : sim -> sim) : (forall s, nodes (f s) = nodes s) -> kp (modify f) T.
  Proof. intros Hf s a s' HI H. inversion H. split; [eapply Inv_nodes; [apply Hf|exact HI]|exact I]. Qed.
  Lemma kp_get_node_eq j : kp (get_node j) (fun nd => n_id nd = j /\ 1 <= j /\ okn nd).
  Proof. intros s nd s' HI H. apply get_node_inv in H as (-> & _ & Hn). split; [exact HI|]. eapply Inv_get; eauto. Qed.
  Lemma kp_get_node j : kp (get_node j) T.
  Proof. eapply kp_weaken, kp_get_node_eq. Qed.
  Lemma kp_bind_node {B} j (f : node -> M B) R : (forall nd, n_id nd = j -> 1 <= j -> okn nd -> kp (f nd) R) -> kp (bind (get_node j) f) R.
  Proof. intros Hf. eapply kp_bind; [apply kp_get_node_eq|]. intros nd (H1 & H2 & H3). apply Hf; assumption. Qed.
  Lemma kp_put_node nd : okn nd -> kp (put_node nd) T.
  Proof. intros Hok s a s' HI H. inversion H. split; [apply Inv_put; assumption|exact I]. Qed.
  Lemma kp_get_ind i : kp (get_ind i) T.
  Proof. intros s a s' HI H. unfold get_ind in H. destruct (find_ind i (inds s)); [|discriminate H]. injection H as _ <-. split; [assumption|exact I]. Qed.
  Lemma kp_put_ind x : kp (put_ind x) T. Proof. apply kp_modify. reflexivity. Qed.
  Lemma kp_del_ind i : kp (del_ind i) T. Proof. apply kp_modify. reflexivity. Qed.
  Lemma kp_log_rec r : kp (log_rec r) T. Proof. apply kp_modify. reflexivity. Qed.
  Lemma kp_draw_arr : kp draw_arr T.
  Proof. intros s a s' HI H. unfold draw_arr in H. destruct (d_arr (dr s)); [discriminate H|]. injection H as _ <-. split; [exact HI|exact I]. Qed.
  Lemma kp_draw_batch : kp draw_batch T.
  Proof. intros s a s' HI H. unfold draw_batch in H. destruct (d_batch (dr s)); [discriminate H|]. injection H as _ <-. split; [exact HI|exact I]. Qed.
  Lemma kp_draw_svc : kp draw_svc T.
  Proof. intros s a s' HI H. unfold draw_svc in H. destruct (d_svc (dr s)); [discriminate H|]. injection H as _ <-. split; [exact HI|exact I]. Qed.
  Lemma kp_draw_unif : kp draw_unif T.
  Proof. intros s a s' HI H. unfold draw_unif in H. destruct (d_unif (dr s)); [discriminate H|]. injection H as _ <-. split; [exact HI|exact I]. Qed.
  Lemma kp_draw_ren : kp draw_ren T.
  Proof. intros s a s' HI H. unfold draw_ren in H. destruct (d_ren (dr s)); [discriminate H|]. injection H as _ <-. split; [exact HI|exact I]. Qed.
  Lemma kp_draw_cct : kp draw_cct T.
  Proof. intros s a s' HI H. unfold draw_cct in H. destruct (d_cct (dr s)); [discriminate H|]. injection H as _ <-. split; [exact HI|exact I]. Qed.
  Lemma kp_tnow : kp tnow T. Proof. apply kp_gets. Qed.

  Ltac oksolve :=
    match goal with
    | H : okn ?nd |- okn _ => solve [ eapply (okn_same nd); [exact H|reflexivity..] ]
    end.
  Ltac kprim :=
    first [ simple apply kp_ret | simple apply kp_fail | simple apply kp_oof | simple apply kp_gets | simple apply kp_tnow | simple apply kp_lift
          | simple apply kp_get_node | simple apply kp_get_ind
          | simple apply kp_put_ind | simple apply kp_del_ind | simple apply kp_log_rec | simple apply kp_draw_arr | simple apply kp_draw_batch
          | simple apply kp_draw_svc | simple apply kp_draw_unif | simple apply kp_draw_ren | simple apply kp_draw_cct
          | (simple apply kp_modify; intros ?; reflexivity)
          | (simple apply kp_put_node; oksolve) ].
  Ltac kstruct :=
    first [ (simple apply kp_bind_node; intros ? ? ? ?)
          | (simple apply kp_bind_lift; intros ? ?)
          | (simple apply kp_bind_T; [|intros ?])
          | match goal with
            | |- kp (if ?b then _ else _) _ => destruct b eqn:?
            | |- kp (match ?x with _ => _ end) _ => destruct x eqn:?
            | |- kp (let '(_, _) := ?x in _) _ => destruct x eqn:?
            end ].
  Ltac kgo tac := repeat first [ kprim | tac | kstruct ].
  Ltac kauto := kgo fail.

  Lemma kp_ncfg_of j : kp (ncfg_of cf j) T. Proof. apply kp_lift. Qed.
  Lemma kp_upd_ind i f : kp (upd_ind i f) T. Proof. unfold upd_ind. kauto. Qed.
  Lemma kp_choice_uniform {A} (l : list A) : kp (choice_uniform l) T. Proof. unfold choice_uniform. kauto. Qed.
  Lemma kp_choice_weighted den P : kp (choice_weighted den P) T. Proof. unfold choice_weighted. kauto. Qed.
  Lemma kp_exit_accept i c : kp (exit_accept i c) T. Proof. unfold exit_accept. kauto. Qed.
  Lemma kp_choose_next_customer j : kp (choose_next_customer cf j) T.
  Proof. unfold choose_next_customer. kgo ltac:(first [simple apply kp_ncfg_of | simple apply kp_choice_uniform]). Qed.

  (* ---------- servers: a slotted node has none, and nothing gives it one ---------- *)
  Lemma put_server_l_nil sv l : l = [] -> put_server_l sv l = [].
  Proof. intros ->. reflexivity. Qed.
  Lemma del_server_l_nil sid l : l = [] -> del_server_l sid l = [].
  Proof. intros ->. reflexivity. Qed.
  Lemma kp_upd_server j sid f : kp (upd_server j sid f) T.
  Proof.
    unfold upd_server. apply kp_bind_node; intros nd Hid Hj Hok.
    destruct (find_server sid (n_servers nd)) as [sv|] eqn:E; [|apply kp_ret].
    apply kp_put_node. apply okn_servers; [exact Hok|]. apply put_server_l_nil.
  Qed.
  Lemma kp_attach_server j sid i : kp (attach_server j sid i) T.
  Proof. unfold attach_server. kgo ltac:(first [simple apply kp_upd_ind | simple apply kp_upd_server]). Qed.
  Lemma kp_set_next_end j sid d : kp (set_next_end j sid d) T.
  Proof. unfold set_next_end. apply kp_upd_server. Qed.
  Lemma kp_kill_server j sid : kp (kill_server j sid) T.
  Proof.
    unfold kill_server. apply kp_bind_T; [apply kp_tnow|intros t]. apply kp_bind_node; intros nd Hid Hj Hok.
    apply kp_bind_lift; intros sv Hsv. cbv zeta. apply kp_put_node.
    assert (H1 : okn (nd <| n_servers := del_server_l sid (n_servers nd) |>)) by (apply okn_servers; [exact Hok|apply del_server_l_nil]).
    eapply okn_same; [exact H1|reflexivity..].
  Qed.
  Lemma kp_detatch_server j sid i : kp (detatch_server j sid i) T.
  Proof.
    unfold detatch_server. apply kp_bind_T; [apply kp_tnow|intros t]. apply kp_bind_node; intros nd Hid Hj Hok.
    apply kp_bind_T; [apply kp_get_ind|intros x]. apply kp_bind_T; [apply kp_put_ind|intros _].
    destruct (find_server sid (n_servers nd)) as [sv|] eqn:E; [|apply kp_ret].
    apply kp_bind_T; [|intros _; destruct (sv_offduty sv); [apply kp_kill_server|apply kp_ret]].
    apply kp_put_node. apply okn_servers; [exact Hok|]. apply put_server_l_nil.
  Qed.

  Ltac kl := first [ simple apply kp_ncfg_of | simple apply kp_upd_ind | simple apply kp_choice_uniform | simple apply kp_choice_weighted | simple apply kp_exit_accept
                   | simple apply kp_choose_next_customer | simple apply kp_attach_server | simple apply kp_set_next_end | simple apply kp_detatch_server
                   | simple apply kp_kill_server | simple apply kp_upd_server ].
  Lemma kp_upd_node_same j f : (forall nd, n_id (f nd) = n_id nd /\ n_servers (f nd) = n_servers nd /\ n_c (f nd) = n_c nd /\
      n_spos (f nd) = n_spos nd /\ n_interrupted (f nd) = n_interrupted nd) -> kp (upd_node j f) T.
  Proof.
    intros Hf. unfold upd_node. apply kp_bind_node; intros nd Hid Hj Hok. apply kp_put_node.
    destruct (Hf nd) as (F1 & F2 & F3 & F4 & F5). eapply okn_same; eauto.
  Qed.
  Ltac kun := simple apply kp_upd_node_same; intros ?; cbn; repeat split; reflexivity.

  Lemma kp_find_next_class_change j : kp (find_next_class_change j) T.
  Proof. unfold find_next_class_change. kauto. Qed.
  Lemma kp_cct_loop row : forall b best bc, kp (cct_loop row b best bc) T.
  Proof. induction row as [|h r IH]; intros b best bc; cbn [cct_loop]; kgo ltac:(apply IH). Qed.
  Lemma kp_decide_class_change j i : kp (decide_class_change cf j i) T.
  Proof. unfold decide_class_change. kgo ltac:(first [simple apply kp_cct_loop | simple apply kp_find_next_class_change | kl]). Qed.
  Lemma kp_reset_class_change j i : kp (reset_class_change cf j i) T.
  Proof. unfold reset_class_change. kgo ltac:(first [simple apply kp_find_next_class_change | kl]). Qed.
  Lemma kp_stime_num x : kp (stime_num x) T.
  Proof. unfold stime_num. kauto. Qed.
  Lemma kp_give_after i : kp (give_service_time_after_preemption i) T.
  Proof. unfold give_service_time_after_preemption. kauto. Qed.
  Lemma kp_give_time i : kp (give_individual_a_service_time i) T.
  Proof. unfold give_individual_a_service_time. kgo ltac:(simple apply kp_give_after). Qed.
  Lemma kp_bump_rec i : kp (bump_rec i) T. Proof. unfold bump_rec. kgo kl. Qed.
  Lemma kp_write_individual_record j i : kp (write_individual_record cf j i) T.
  Proof. unfold write_individual_record. kgo ltac:(first [simple apply kp_bump_rec | kl]). Qed.
  Lemma kp_write_interruption_record j i d : kp (write_interruption_record cf j i d) T.
  Proof. unfold write_interruption_record. kgo ltac:(first [simple apply kp_bump_rec | kl]). Qed.
  Lemma kp_write_reneging_record j i : kp (write_reneging_record j i) T.
  Proof. unfold write_reneging_record. kgo ltac:(first [simple apply kp_bump_rec | kl]). Qed.
  Lemma kp_write_br_record j i ty : kp (write_br_record j i ty) T.
  Proof. unfold write_br_record. kgo ltac:(first [simple apply kp_bump_rec | kl]). Qed.
  Lemma kp_reset_individual_attributes i : kp (reset_individual_attributes i) T.
  Proof. unfold reset_individual_attributes. kgo kl. Qed.
  Lemma kp_valid_dest d : kp (valid_dest d) T. Proof. unfold valid_dest. kauto. Qed.
  Lemma kp_jsq_loop lb ds : forall best acc, kp (jsq_loop lb ds best acc) T.
  Proof. induction ds as [|d r IH]; intros best acc; cbn [jsq_loop]; kgo ltac:(apply IH). Qed.
  Lemma kp_jsq_next lb ds order : kp (jsq_next lb ds order) T.
  Proof. unfold jsq_next. kgo ltac:(first [simple apply kp_jsq_loop | kl]). Qed.
  Lemma kp_get_cyc c j : kp (get_cyc c j) T. Proof. unfold get_cyc. kauto. Qed.
  Lemma kp_bump_cyc c j : kp (bump_cyc c j) T.
  Proof. unfold bump_cyc. apply kp_modify. intros s. destruct (nthZ (cyc s) c) as [row|]; [|reflexivity]. destruct (nthZ row (j - 1)); reflexivity. Qed.
  Lemma kp_node_router_next r c j : kp (node_router_next r c j) T.
  Proof. unfold node_router_next. kgo ltac:(first [simple apply kp_jsq_next | simple apply kp_get_cyc | simple apply kp_bump_cyc | kl]). Qed.
  Lemma kp_next_node_for mode j i : kp (next_node_for cf mode j i) T.
  Proof. unfold next_node_for. kgo ltac:(first [simple apply kp_node_router_next | simple apply kp_valid_dest | simple apply kp_jsq_next | kl]). Qed.

  Ltac kl2 := first [ kl | simple apply kp_decide_class_change | simple apply kp_reset_class_change | simple apply kp_stime_num | simple apply kp_give_after | simple apply kp_give_time
                    | simple apply kp_write_individual_record | simple apply kp_write_interruption_record | simple apply kp_write_reneging_record | simple apply kp_write_br_record
                    | simple apply kp_reset_individual_attributes | simple apply kp_next_node_for | kun ].

  Lemma kp_start_fresh j i osid count : kp (start_fresh cf j i osid count) T.
  Proof. unfold start_fresh. kgo kl2. Qed.
  Lemma kp_start_give j i sid : kp (start_give cf j i sid) T.
  Proof. unfold start_give. kgo kl2. Qed.
  Lemma kp_start_preemptor j i sid : kp (start_preemptor cf j i sid) T.
  Proof. unfold start_preemptor. kgo kl2. Qed.

  (* taking the head off the list of interrupted customers *)
  Lemma remove_first_keeps_nil i (l l' : list Z) : remove_first i l = Some l' -> l = [] -> l' = [].
  Proof. intros H ->. discriminate H. Qed.
  Lemma kp_begin_interrupted j sid : kp (begin_interrupted_individuals_service j sid) T.
  Proof.
    unfold begin_interrupted_individuals_service.
    apply kp_bind_T; [apply kp_get_node|intros nd]. apply kp_bind_T; [apply kp_lift|intros i]. apply kp_bind_T; [apply kp_get_ind|intros x].
    apply kp_bind_T; [kgo kl2|intros _]. apply kp_bind_T; [kl2|intros _]. apply kp_bind_T; [kl2|intros _].
    apply kp_bind_T; [apply kp_tnow|intros t]. apply kp_bind_T; [apply kp_get_ind|intros x1]. apply kp_bind_T; [kl2|intros st].
    apply kp_bind_T; [apply kp_put_ind|intros _]. apply kp_bind_T; [kl2|intros _]. apply kp_bind_T; [kl2|intros _].
    apply kp_bind_node; intros nd2 Hid Hj Hok. apply kp_bind_lift; intros l' Hl'.
    apply kp_put_node. apply okn_interrupted; [exact Hok|]. eapply remove_first_keeps_nil; eauto.
  Qed.
  Lemma kp_serve_with j sid : kp (serve_with cf j sid) T.
  Proof. unfold serve_with. kgo ltac:(first [simple apply kp_begin_interrupted | simple apply kp_start_give | kl2]). Qed.
  Lemma kp_bsip_release j freed : kp (begin_service_if_possible_release cf j freed) T.
  Proof. unfold begin_service_if_possible_release. kgo ltac:(first [simple apply kp_serve_with | kl2]). Qed.
  Lemma kp_get_reneging_date j i : kp (get_reneging_date cf j i) T.
  Proof. unfold get_reneging_date. kgo kl2. Qed.
  Lemma kp_block_individual j i d : kp (block_individual j i d) T.
  Proof. unfold block_individual. kgo kl2. Qed.
  Lemma kp_preempt_victim j i : kp (preempt_victim cf j i) T.
  Proof. unfold preempt_victim. kgo kl2. Qed.

  Ltac kl3 := first [ kl2 | simple apply kp_start_fresh | simple apply kp_start_give | simple apply kp_start_preemptor | simple apply kp_begin_interrupted | simple apply kp_serve_with
                    | simple apply kp_bsip_release | simple apply kp_get_reneging_date | simple apply kp_block_individual | simple apply kp_preempt_victim ].

  (* ---------- the recursive core ---------- *)
  Lemma kp_rbi_body rel j : (forall a b c e, kp (rel a b c e) T) -> kp (Order2.rbi_body cf rel j) T.
  Proof.
    intros Hr. unfold Order2.rbi_body.
    apply kp_bind_node; intros nd Hid Hj Hok. apply kp_bind_T; [kl3|intros nc].
    destruct ((0 <? n_lenbq nd) && _); [|apply kp_ret]. destruct (n_bq nd) as [|[from y] rest]; [apply kp_fail|].
    apply kp_bind_T; [apply kp_get_node|intros fnd]. apply kp_bind_T; [destruct (memZ y (all_individuals fnd)); kauto|intros _].
    apply kp_bind_T; [apply kp_put_node; oksolve|intros _]. apply kp_bind_T; [apply kp_get_ind|intros yx].
    apply kp_bind_T; [|intros _; apply Hr].
    destruct (i_interrupted yx); [|apply kp_ret].
    apply kp_bind_lift; intros os Hos. apply kp_bind_lift; intros ot Hot. apply kp_bind_T; [apply kp_put_ind|intros _].
    apply kp_bind_node; intros fnd2 Hid2 Hj2 Hok2. apply kp_bind_lift; intros l' Hl'.
    apply kp_put_node. apply okn_interrupted; [exact Hok2|]. eapply remove_first_keeps_nil; eauto.
  Qed.
  Lemma kp_core : forall f,
    (forall j i d rr, kp (release cf f j i d rr) T) /\ (forall j, kp (release_blocked_individual cf f j) T) /\
    (forall j i, kp (accept cf f j i) T) /\ (forall j v i, kp (preempt cf f j v i) T).
  Proof.
    induction f as [|f (IHr & IHb & IHa & IHp)].
    - split; [|split; [|split]]; intros; cbn; apply kp_oof.
    - split; [|split; [|split]]; intros.
      + cbn [release]. kgo ltac:(first [simple apply IHa | simple apply IHb | kl3]).
      + rewrite Order2.rbi_S. apply kp_rbi_body. exact IHr.
      + cbn [accept]. kgo ltac:(first [simple apply IHp | kl3]).
      + cbn [preempt]. kgo ltac:(first [simple apply IHr | kl3]).
  Qed.
  Lemma kp_release f j i d rr : kp (release cf f j i d rr) T. Proof. apply kp_core. Qed.
  Lemma kp_rbi f j : kp (release_blocked_individual cf f j) T. Proof. apply kp_core. Qed.
  Lemma kp_accept f j i : kp (accept cf f j i) T. Proof. apply kp_core. Qed.
  Lemma kp_preempt f j v i : kp (preempt cf f j v i) T. Proof. apply kp_core. Qed.
  Ltac kl4 := first [ kl3 | simple apply kp_release | simple apply kp_rbi | simple apply kp_accept | simple apply kp_preempt ].

  Lemma kp_decide_between l : kp (decide_between l) T. Proof. unfold decide_between. kgo kl4. Qed.
  Lemma kp_change_customer_class j i : kp (change_customer_class cf j i) T. Proof. unfold change_customer_class. kgo kl4. Qed.
  Lemma kp_has_space d : kp (has_space cf d) T. Proof. unfold has_space. kgo kl4. Qed.
  Lemma kp_finish_service j : kp (finish_service cf j) T.
  Proof. unfold finish_service. kgo ltac:(first [simple apply kp_decide_between | simple apply kp_change_customer_class | simple apply kp_has_space | kl4]). Qed.
  Lemma kp_renege j : kp (renege cf j) T.
  Proof. unfold renege. kgo ltac:(first [simple apply kp_decide_between | kl4]). Qed.

  (* an interruption (without rerouting) puts the customer on the node's list: only a node that is not quiet does that *)
  Lemma kp_interrupt_service f j i pre : pre = 4 \/ quiet cf j = false -> kp (interrupt_service cf f j i pre) T.
  Proof.
    intros Hq. unfold interrupt_service. apply kp_bind_T; [apply kp_tnow|intros t]. apply kp_bind_T; [kl4|intros _].
    destruct (pre =? 4) eqn:E; [kgo kl4|]. apply Z.eqb_neq in E. destruct Hq as [Hq | Hq]; [contradiction|].
    apply kp_bind_T; [|intros _; kgo kl4].
    unfold upd_node. apply kp_bind_node; intros nd Hid Hj (A & B & C). apply kp_put_node.
    split; [exact A|split; [|exact C]]. cbn. rewrite Hid, Hq. discriminate.
  Qed.
  Lemma kp_mapM {A B} (f : A -> M B) l : (forall a, kp (f a) T) -> kp (mapM f l) T.
  Proof. intros Hf. induction l as [|a r IH]; cbn [mapM]; kgo ltac:(first [simple apply Hf | simple apply IH]). Qed.
  Lemma kp_forM_ {A} (f : A -> M unit) l : (forall a, kp (f a) T) -> kp (forM_ l f) T.
  Proof. intros Hf. induction l as [|a r IH]; cbn [forM_]; kgo ltac:(first [simple apply Hf | simple apply IH]). Qed.
  Lemma kp_keyed l : kp (keyed l) T.
  Proof. unfold keyed. apply kp_mapM. intros i. kauto. Qed.
  Lemma kp_sort_interrupted j : kp (sort_interrupted_individuals j) T.
  Proof.
    unfold sort_interrupted_individuals. apply kp_bind_node; intros nd Hid Hj (A & B & C).
    destruct (n_interrupted nd) as [|a l] eqn:El.
    - cbn. unfold bind at 1, ret at 1. intros s u s' HI H. cbn in H. revert s u s' HI H. apply kp_put_node.
      split; [exact A|split; [|exact C]]. intros _. reflexivity.
    - apply kp_bind_T; [apply kp_keyed|intros kl]. apply kp_put_node.
      split; [exact A|split; [|exact C]]. cbn. intros Hq. specialize (B Hq). discriminate B.
  Qed.

  Lemma kp_off_duty_loop k : forall f j idx pre se, pre = 4 \/ quiet cf j = false -> kp (off_duty_loop cf k f j idx pre se) T.
  Proof.
    induction k as [|k IH]; intros f j idx pre se Hq; cbn [off_duty_loop]; [apply kp_ret|].
    apply kp_bind_node; intros nd Hid Hj Hok. destruct (nth_error (n_servers nd) idx) as [sv|] eqn:En; [|apply kp_ret].
    apply kp_bind_T; [apply kp_put_node; apply okn_servers; [exact Hok|apply put_server_l_nil]|]. intros _.
    apply kp_bind_T; [destruct (sv_cust sv); [apply kp_interrupt_service; exact Hq|apply kp_ret]|intros _]. apply IH. exact Hq.
  Qed.
  Lemma map_nil_inv {A B} (g : A -> B) (l : list A) : l = [] -> map g l = [].
  Proof. intros ->. reflexivity. Qed.
  Lemma kp_take_servers_off_duty f j pre : pre = 0 \/ pre = 4 \/ quiet cf j = false -> kp (take_servers_off_duty cf f j pre) T.
  Proof.
    intros Hq. unfold take_servers_off_duty. apply kp_bind_node; intros nd Hid Hj Hok.
    apply kp_bind_T; [destruct (n_next_date nd); kauto|intros se].
    destruct (pre =? 0) eqn:E.
    - apply kp_bind_T; [apply kp_put_node; apply okn_servers; [exact Hok|apply map_nil_inv]|intros _].
      apply kp_forM_. intros sid. apply kp_kill_server.
    - apply Z.eqb_neq in E. assert (Hq' : pre = 4 \/ quiet cf j = false) by (destruct Hq as [Hq | Hq]; [contradiction|exact Hq]).
      apply kp_bind_T; [apply kp_off_duty_loop; exact Hq'|intros _]. apply kp_bind_T; [apply kp_sort_interrupted|intros _].
      apply kp_forM_. intros sid. apply kp_kill_server.
  Qed.
  Lemma kp_add_new_servers k : forall j, slot_of cf j = None -> kp (add_new_servers k j) T.
  Proof.
    induction k as [|k IH]; intros j Hs; cbn [add_new_servers]; [apply kp_ret|].
    apply kp_bind_T; [apply kp_tnow|intros t]. apply kp_bind_T; [|intros _; apply IH; exact Hs].
    unfold upd_node. apply kp_bind_node; intros nd Hid Hj (A & B & C). apply kp_put_node.
    split; [|split; [exact B|exact C]]. cbn. rewrite Hid, Hs. discriminate.
  Qed.
  Lemma kp_bsip_change_shift j : kp (begin_service_if_possible_change_shift cf j) T.
  Proof. unfold begin_service_if_possible_change_shift. kgo ltac:(first [simple apply kp_forM_; intros ? | kl4]). Qed.

  Lemma slot_of_sched j nc sc : nthZ (cf_nodes cf) (j - 1) = Some nc -> nc_srv nc = SSched sc -> slot_of cf j = None.
  Proof. intros H1 H2. unfold slot_of. rewrite H1, H2. reflexivity. Qed.
  Lemma quiet_sched j nc sc : nthZ (cf_nodes cf) (j - 1) = Some nc -> nc_srv nc = SSched sc -> quiet cf j = (sc_pre sc =? 0).
  Proof. intros H1 H2. unfold quiet. rewrite H1, H2. reflexivity. Qed.
  Lemma quiet_slot j nc sl : nthZ (cf_nodes cf) (j - 1) = Some nc -> nc_srv nc = SSlot sl -> quiet cf j = negb (sl_cap sl && negb (sl_pre sl =? 0)).
  Proof. intros H1 H2. unfold quiet. rewrite H1, H2. reflexivity. Qed.
  Lemma not_frozen j : 1 <= j -> slot_of cf j = None -> j <> fzJ.
  Proof. intros Hj Hs ->. destruct Hfz as [E | [sl E]]; [lia|congruence]. Qed.

  Lemma kp_change_shift j : kp (change_shift cf j) T.
  Proof.
    unfold change_shift. apply kp_bind_lift; intros nc Hnc. destruct (nc_srv nc) as [|sc|sl] eqn:Es; try apply kp_fail.
    pose proof (slot_of_sched _ _ _ Hnc Es) as Hno.
    apply kp_bind_node; intros nd Hid Hj (A & B & C). apply kp_bind_T; [destruct (sc_b sc); kauto|intros _]. cbv zeta.
    apply kp_bind_T; [|intros _].
    { apply kp_put_node. split; [|split; [exact B|]]; cbn.
      - rewrite Hid, Hno. discriminate.
      - intros E. exfalso. rewrite Hid in E. exact (not_frozen j Hj Hno E). }
    apply kp_bind_T; [apply kp_gets|intros fl].
    apply kp_bind_T; [|intros _].
    { apply kp_take_servers_off_duty. rewrite (quiet_sched _ _ _ Hnc Es). destruct (sc_pre sc =? 0) eqn:E; [left; apply Z.eqb_eq; exact E|right; right; reflexivity]. }
    apply kp_bind_T; [apply kp_add_new_servers; exact Hno|intros _]. apply kp_bsip_change_shift.
  Qed.

  (* slotted_service without its last step (the position moves in that step) *)
  Lemma kp_slot_interrupt j nc sl nd size : nthZ (cf_nodes cf) (j - 1) = Some nc -> nc_srv nc = SSlot sl ->
    kp (Order2.slot_interrupt cf j sl nd size) T.
  Proof.
    intros Hnc Es. unfold Order2.slot_interrupt. destruct (sl_cap sl && negb (sl_pre sl =? 0)) eqn:Ec; [|apply kp_ret].
    destruct (0 <? n_insvc nd - size); [|apply kp_ret].
    apply kp_bind_T; [apply kp_gets|intros il]. apply kp_bind_T; [apply kp_keyed|intros kl]. apply kp_bind_T; [apply kp_gets|intros fl].
    apply kp_forM_. intros i. apply kp_interrupt_service. right. rewrite (quiet_slot _ _ _ Hnc Es), Ec. reflexivity.
  Qed.
  Lemma kp_slot_loop k j : kp (slot_loop cf k j) T.
  Proof.
    induction k as [|k IH]; cbn [slot_loop]; [apply kp_ret|].
    apply kp_bind_T; [apply kp_tnow|intros t]. apply kp_bind_node; intros nd Hid Hj Hok.
    apply kp_bind_T; [|intros cand; apply kp_bind_T; [kgo kl4|intros _; exact IH]].
    destruct (0 <? n_nint nd); [|kl4].
    apply kp_bind_lift; intros i Hi. apply kp_bind_lift; intros l' Hl'.
    apply kp_bind_T; [|intros _; kgo kl4].
    apply kp_put_node. apply okn_interrupted; [exact Hok|]. eapply remove_first_keeps_nil; eauto.
  Qed.
  Lemma kp_slot_start j t i : kp (Order2.slot_start cf j t i) T.
  Proof. unfold Order2.slot_start. kgo kl4. Qed.
  Lemma kp_slot_pick j nd : okn nd -> kp (Order2.slot_pick cf j nd) T.
  Proof.
    intros Hok. unfold Order2.slot_pick. destruct (0 <? n_nint nd); [|kl4].
    apply kp_bind_lift; intros i Hi. apply kp_bind_lift; intros l' Hl'.
    apply kp_bind_T; [|intros _; kgo kl4].
    apply kp_put_node. apply okn_interrupted; [exact Hok|]. eapply remove_first_keeps_nil; eauto.
  Qed.
  Lemma kp_take_off_nonpre f j : kp (take_servers_off_duty cf f j 0) T.
  Proof. apply kp_take_servers_off_duty. left. reflexivity. Qed.
  Lemma kp_upd_node_spos j : j <> fzJ -> kp (upd_node j (fun n' => n' <| n_spos := n_spos n' + 1 |>)) T.
  Proof.
    intros Hne. unfold upd_node. apply kp_bind_node; intros nd' Hid' Hj' (A & B & C). apply kp_put_node.
    split; [|split; [exact B|]]; cbn.
    - intros sl' Hsl'. destruct (A sl' Hsl') as (A1 & A2 & A3). repeat split; try assumption. lia.
    - intros E. exfalso. apply Hne. congruence.
  Qed.
  Lemma okn_sched_put nd a b c : 1 <= n_id nd -> fzJ = 0 -> slot_of cf (n_id nd) = None -> okn nd ->
    okn (nd <| n_spos := a |> <| n_next_shift := b |> <| n_c := c |>).
  Proof.
    intros H1 H0 Hs (A & B & C). split; [|split; [exact B|]]; cbn.
    - intros sl Hsl. congruence.
    - intros E. lia.
  Qed.
  Lemma kp_slotted_service j : j <> fzJ -> kp (slotted_service cf j) T.
  Proof.
    intros Hne. rewrite Order2.slotted_unfold. apply kp_bind_lift; intros nc Hnc. destruct (nc_srv nc) as [|sc|sl] eqn:Es; try apply kp_fail.
    apply kp_bind_node; intros nd Hid Hj Hok. apply kp_bind_T; [destruct (sl_b sl); kauto|intros _].
    apply kp_bind_T; [eapply kp_slot_interrupt; eauto|intros _]. apply kp_bind_T; [apply kp_slot_loop|intros _].
    unfold upd_node. apply kp_bind_node; intros nd' Hid' Hj' (A & B & C). apply kp_put_node.
    split; [|split; [exact B|]]; cbn.
    - intros sl' Hsl'. destruct (A sl' Hsl') as (A1 & A2 & A3). repeat split; try assumption. lia.
    - intros E. exfalso. apply Hne. congruence.
  Qed.
  Lemma kp_ccww j : kp (change_customer_class_while_waiting cf j) T.
  Proof. unfold change_customer_class_while_waiting. kgo kl4. Qed.
  Lemma kp_update_next_event_date j : kp (update_next_event_date cf j) T.
  Proof. unfold update_next_event_date. kgo kl4. Qed.
  Lemma kp_find_next_event_date : kp find_next_event_date T.
  Proof. unfold find_next_event_date. apply kp_modify. intros s. destruct (find_min_dates 1 (a_dates (arr s)) (None, 0, 0)) as [[d j] c]. reflexivity. Qed.
  Lemma kp_sys_population : kp sys_population T. Proof. unfold sys_population. kauto. Qed.
  Lemma kp_route_of i c : kp (route_of cf i c) T. Proof. unfold route_of. kauto. Qed.
  Lemma kp_send_individual j i : kp (send_individual cf j i) T. Proof. unfold send_individual. kgo kl4. Qed.
  Lemma kp_release_individual j i : kp (release_individual cf j i) T.
  Proof. unfold release_individual. kgo ltac:(first [simple apply kp_sys_population | simple apply kp_send_individual | kl4]). Qed.
  Lemma kp_batch_loop n : forall j c p, kp (batch_loop cf n j c p) T.
  Proof. induction n as [|n IH]; intros j c p; cbn [batch_loop]; kgo ltac:(first [simple apply IH | simple apply kp_route_of | simple apply kp_release_individual | kl4]). Qed.
  Lemma kp_arrival_have_event : kp (arrival_have_event cf) T.
  Proof. unfold arrival_have_event. kgo ltac:(first [simple apply kp_batch_loop | simple apply kp_find_next_event_date | kl4]). Qed.
  Lemma kp_update_all js : kp (update_all cf js) T.
  Proof. induction js as [|j r IH]; cbn [update_all]; kgo ltac:(first [simple apply IH | simple apply kp_update_next_event_date]). Qed.
  Lemma kp_find_next_active_node : kp find_next_active_node T.
  Proof. unfold find_next_active_node. kgo kl4. Qed.

  (* any event of a node other than the slot event of the frozen node *)
  Lemma kp_node_have_event_other j s a s' : Inv s -> (j = fzJ -> forall nd, nthZ (nodes s) (j - 1) = Some nd -> n_next_type nd <> 4) ->
    node_have_event cf j s = Ok (a, s') -> Inv s'.
  Proof.
    intros HI Hty H. unfold node_have_event in H. minv H nd s1 E. apply get_node_inv in E as (-> & Hj & Hn).
    destruct (n_next_type nd =? 0); [eapply kp_finish_service; eauto|].
    destruct (n_next_type nd =? 1); [eapply kp_change_shift; eauto|].
    destruct (n_next_type nd =? 2); [eapply kp_renege; eauto|].
    destruct (n_next_type nd =? 3); [eapply kp_ccww; eauto|].
    destruct (n_next_type nd =? 4) eqn:E4; [|apply ret_inv in H as [_ ->]; exact HI].
    apply Z.eqb_eq in E4. eapply kp_slotted_service; [|exact HI|exact H]. intros ->. exact (Hty eq_refl nd Hn E4).
  Qed.
End Inv.

(* ================================================================================================================ *)
(* Part 1b: the invariant over events and runs; the position moves exactly at the node's slot event                  *)
(* ================================================================================================================ *)
Definition at_node (j : Z) (P : node -> Prop) (s : sim) : Prop := forall nd, nthZ (nodes s) (j - 1) = Some nd -> P nd.

Section Run.
  Variable cf : config.

  (* (a) first half: every slotted node has no servers, c = 0 and a position >= 0; quiet nodes have nobody interrupted;
     node identities are positions *)
  Definition SlotInv (s : sim) : Prop := Inv cf 0 0 s.
  Lemma Hfz0 : 0 = 0 \/ exists sl, slot_of cf 0 = Some sl. Proof. left. reflexivity. Qed.
  Lemma HfzJ J sl : slot_of cf J = Some sl -> J = 0 \/ exists sl, slot_of cf J = Some sl. Proof. intros H. right. eauto. Qed.

  Lemma Inv_weaken J p s : Inv cf J p s -> SlotInv s.
  Proof.
    intros H k nd Hk. destruct (H k nd Hk) as (A & B & C & _). split; [exact A|]. split; [exact B|]. split; [exact C|]. intros E. lia.
  Qed.
  Lemma Inv_freeze J s nd : SlotInv s -> nthZ (nodes s) (J - 1) = Some nd -> Inv cf J (n_spos nd) s.
  Proof.
    intros H Hn k nd' Hk. destruct (H k nd' Hk) as (A & B & C & _). split; [exact A|]. split; [exact B|]. split; [exact C|]. intros E.
    apply nthZ_nat in Hn as [H0 Hn]. assert (k = Z.to_nat (J - 1)) by lia. subst k. congruence.
  Qed.
  Lemma Inv_pos J p s nd : Inv cf J p s -> nthZ (nodes s) (J - 1) = Some nd -> n_spos nd = p.
  Proof. intros H Hn. destruct (Inv_get _ _ _ _ _ _ H Hn) as (Hid & _ & _ & _ & C). apply C, Hid. Qed.

  Lemma kp_event_tail J p : (J = 0 \/ exists sl, slot_of cf J = Some sl) -> forall s u s',
    Inv cf J p s -> (ns <- gets nodes ;; update_all cf (map n_id ns) ;;; find_next_active_node) s = Ok (u, s') -> Inv cf J p s'.
  Proof.
    intros HJ s u s' HI H. minv H ns s1 E. apply gets_inv in E as [-> ->]. minv H u1 s1 E.
    destruct (kp_update_all cf J p _ _ _ _ HI E) as [HI1 _]. eapply kp_find_next_active_node; eauto.
  Qed.

  (* one event that is not the slot event of node J: the invariant is kept WITH the position of J *)
  Lemma event_step_other J p s u s' : (J = 0 \/ exists sl, slot_of cf J = Some sl) -> Inv cf J p s ->
    (next_active s = J -> forall nd, nthZ (nodes s) (J - 1) = Some nd -> n_next_type nd <> 4) ->
    event_step cf s = Ok (u, s') -> Inv cf J p s'.
  Proof.
    intros HJ HI Hty H. unfold event_step in H. minv H u0 s1 E. apply modify_inv in E as ->.
    assert (HI1 : Inv cf J p (s <| log := [] |>)) by (eapply Inv_nodes; [|exact HI]; reflexivity).
    minv H k s2 E. apply gets_inv in E as [-> ->]. minv H u1 s2 E. eapply (kp_event_tail J p HJ); [|exact H].
    cbn in E. destruct (next_active s =? 0) eqn:E0.
    - eapply kp_arrival_have_event; eauto.
    - eapply kp_node_have_event_other; [exact HJ|exact HI1| |exact E]. cbn. intros Ea. rewrite Ea. exact (Hty Ea).
  Qed.

  Theorem event_step_slotinv s u s' : SlotInv s -> event_step cf s = Ok (u, s') -> SlotInv s'.
  Proof.
    intros HI H. eapply (event_step_other 0 0); [left; reflexivity|exact HI| |exact H].
    intros E nd Hn. apply nthZ_nat in Hn as [Hn _]. lia.
  Qed.
  Theorem run_many_slotinv : forall ds s s', SlotInv s -> run_many cf s ds = Ok s' -> SlotInv s'.
  Proof.
    induction ds as [|d r IH]; intros s s' HI H; cbn [run_many] in H; [injection H as <-; exact HI|].
    destruct (event_step cf (s <| dr := d |>)) as [[u s1]| |] eqn:E; try discriminate.
    eapply IH; [|exact H]. eapply event_step_slotinv; [|exact E]. eapply Inv_nodes; [|exact HI]. reflexivity.
  Qed.

  (* the slot event itself: the position of the node advances by exactly one *)
  Lemma okn_other J p p' nd : n_id nd <> J -> okn cf J p nd -> okn cf J p' nd.
  Proof. intros Hne (A & B & C). split; [exact A|split; [exact B|]]. intros E. contradiction. Qed.
  Lemma slotted_service_moves J p sl s u s' : slot_of cf J = Some sl -> Inv cf J p s -> slotted_service cf J s = Ok (u, s') -> Inv cf J (p + 1) s'.
  Proof.
    intros HJ HI H. rewrite Order2.slotted_unfold in H. minv H nc s1 E. apply ncfg_of_inv in E as [-> Hnc].
    destruct (nc_srv nc) as [|sc|sl'] eqn:Es; try discriminate H.
    minv H nd s1 E. apply get_node_inv in E as (-> & Hj & Hn).
    minv H u0 s1 E. assert (s1 = s) as -> by (destruct (sl_b sl'); [discriminate E|apply ret_inv in E as [_ ->]; reflexivity]). clear E.
    minv H u1 s1 E. destruct (kp_slot_interrupt cf J p _ _ _ _ _ Hnc Es _ _ _ HI E) as [HI1 _]. clear E.
    minv H u2 s2 E. destruct (kp_slot_loop cf J p _ _ _ _ _ HI1 E) as [HI2 _]. clear E.
    unfold upd_node in H. minv H nd' s3 E. apply get_node_inv in E as (-> & _ & Hn'). apply modify_inv in H. subst s'.
    destruct (Inv_get _ _ _ _ _ _ HI2 Hn') as (Hid' & _ & A & B & C).
    intros k x Hk. cbn in Hk. rewrite Hid' in Hk. unfold updZ in Hk. destruct (J - 1 <? 0) eqn:E; [apply Z.ltb_lt in E; lia|].
    destruct (nth_error_upd _ _ _ _ _ Hk) as [[-> ->] | [Hne Hk']].
    - cbn. split; [lia|]. split; [|split; [exact B|]]; cbn.
      + intros sl0 Hsl0. destruct (A sl0 Hsl0) as (A1 & A2 & A3). repeat split; try assumption. lia.
      + intros _. rewrite (C Hid'). reflexivity.
    - destruct (HI2 _ _ Hk') as [Hidx Hokx]. split; [exact Hidx|]. eapply okn_other; [|exact Hokx]. lia.
  Qed.
  Lemma event_step_slot J p sl s u s' nd : slot_of cf J = Some sl -> Inv cf J p s -> next_active s = J ->
    nthZ (nodes s) (J - 1) = Some nd -> n_next_type nd = 4 -> event_step cf s = Ok (u, s') -> Inv cf J (p + 1) s'.
  Proof.
    intros HJ HI Ha Hn Hty H. unfold event_step in H. minv H u0 s1 E. apply modify_inv in E as ->.
    assert (HI1 : Inv cf J p (s <| log := [] |>)) by (eapply Inv_nodes; [|exact HI]; reflexivity).
    minv H k s2 E. apply gets_inv in E as [-> ->]. minv H u1 s2 E. eapply (kp_event_tail J (p + 1) (HfzJ _ _ HJ)); [|exact H].
    cbn in E. rewrite Ha in E. assert (HJ1 : 1 <= J) by (apply nthZ_nat in Hn as [Hn _]; lia).
    destruct (J =? 0) eqn:E0; [apply Z.eqb_eq in E0; lia|].
    unfold node_have_event in E. minv E nd0 s3 E1. apply get_node_inv in E1 as (-> & _ & Hn0). cbn in Hn0. rewrite Hn in Hn0. injection Hn0 as <-.
    rewrite Hty in E. cbn in E. eapply slotted_service_moves; eauto.
  Qed.
End Run.

(* ================================================================================================================ *)
(* Part 1c: the clock and the next slot (established afresh by the tail of every event)                              *)
(* ================================================================================================================ *)
Local Notation dle := Sched2.dle.

Section Next.
  Variable cf : config.

  Definition Idx (s : sim) : Prop := forall k nd, nth_error (nodes s) k = Some nd -> n_id nd = Z.of_nat k + 1.
  Lemma SlotInv_Idx s : SlotInv cf s -> Idx s.
  Proof. intros H k nd Hk. apply (H k nd Hk). Qed.
  Lemma Idx_Order2 s : Idx s -> Order2.Idx s.
  Proof. intros H k nd Hk. apply (H k nd Hk). Qed.

  (* what update_next_event_date leaves behind at its node *)
  Definition NN (nc : ncfg) (nd : node) : Prop :=
    (forall sl, nc_srv nc = SSlot sl -> dle (n_next_date nd) (Some (slotdate sl (Z.to_nat (n_spos nd))))) /\
    (n_next_type nd = 4 -> exists sl, nc_srv nc = SSlot sl /\ n_next_date nd = Some (slotdate sl (Z.to_nat (n_spos nd)))).
  Definition NNdone (done : list Z) (s : sim) : Prop :=
    forall k nd nc, nth_error (nodes s) k = Some nd -> nthZ (cf_nodes cf) (n_id nd - 1) = Some nc -> In (n_id nd) done -> NN nc nd.

  Lemma update_next_event_date_next j done s u s' : Idx s -> NNdone done s -> update_next_event_date cf j s = Ok (u, s') ->
    Idx s' /\ NNdone (j :: done) s' /\ map n_id (nodes s') = map n_id (nodes s).
  Proof.
    intros HI HN H. unfold update_next_event_date in H.
    minv H nd s1 E. apply get_node_inv in E as (-> & Hj1 & Hn).
    minv H nc s1 E. apply ncfg_of_inv in E as [-> Hnc].
    minv H t s1 E. apply gets_inv in E as [-> ->].
    minv H il s1 E. apply gets_inv in E as [-> ->].
    minv H rn s1 E.
    assert (s1 = s) as ->.
    { destruct (negb (nd_inf nd) && nc_reneging nc); [apply lift_inv in E as [_ ->]|apply ret_inv in E as [_ ->]]; reflexivity. }
    clear E.
    assert (Hj : n_id nd = j /\ 0 <= j - 1 /\ nth_error (nodes s) (Z.to_nat (j - 1)) = Some nd).
    { apply nthZ_nat in Hn as [Ej Hn]. specialize (HI _ _ Hn). split; [lia|]. split; [exact Ej|exact Hn]. }
    destruct Hj as (Hid & Hj0 & Hnth).
    assert (Hgen : forall nd', n_id nd' = j -> NN nc nd' -> s' = s <| nodes := updZ (nodes s) (n_id nd' - 1) nd' |> ->
              Idx s' /\ NNdone (j :: done) s' /\ map n_id (nodes s') = map n_id (nodes s)).
    { intros nd' Hid' HNN ->. cbn. rewrite Hid'. unfold updZ. destruct (j - 1 <? 0) eqn:Ej; [apply Z.ltb_lt in Ej; lia|].
      split; [|split].
      - intros k x Hk. destruct (nth_error_upd _ _ _ _ _ Hk) as [[-> ->] | [_ Hk']]; [lia|apply HI, Hk'].
      - intros k x nc' Hk Hnc' Hin. destruct (nth_error_upd _ _ _ _ _ Hk) as [[-> ->] | [Hne Hk']].
        + rewrite Hid' in Hnc'. rewrite Hnc in Hnc'. injection Hnc' as <-. exact HNN.
        + destruct Hin as [Hin | Hin]; [specialize (HI _ _ Hk'); lia|]. eapply HN; eauto.
      - eapply Sched2.upd_map_same; [exact Hnth|congruence]. }
    destruct (nc_reneging nc || cf_dyn cf || nc_sched nc) eqn:Eb.
    - match type of H with context [decide_next_event ?c ?b] => set (cands := c) in *; set (best := b) in * end.
      pose proof (Sched2.dne_le cands best) as [_ Hle]. pose proof (Sched2.dne_in cands best) as Hin.
      destruct (decide_next_event cands best) as [ty [d l]] eqn:Ed.
      apply modify_inv in H. eapply Hgen; [| |exact H]; [exact Hid|]. split; cbn.
      + intros sl Hs. apply (Hle (4, (Some (snd (slot_values sl (Z.to_nat (n_spos nd)))), []))). unfold cands. rewrite Hs. left. reflexivity.
      + intros Hty. rewrite Hty in *. destruct Hin as [Hin | Hin]; [unfold best in Hin; discriminate Hin|].
        unfold cands in Hin. apply in_app_or in Hin as [Hin | Hin].
        * destruct (nc_srv nc) as [|sc|sl]; cbn in Hin; [destruct Hin|destruct Hin as [Hin | []]; discriminate Hin|].
          destruct Hin as [Hin | []]. exists sl. split; [reflexivity|]. injection Hin as <- _. reflexivity.
        * cbn in Hin. destruct Hin as [Hin | [Hin | [Hin | []]]]; discriminate Hin.
    - apply modify_inv in H. eapply Hgen; [| |exact H]; [exact Hid|]. split; cbn.
      + intros sl Hs. apply orb_false_iff in Eb as [_ Eb]. unfold nc_sched in Eb. rewrite Hs in Eb. discriminate Eb.
      + intros F. discriminate F.
  Qed.

  Lemma update_all_next js : forall done s u s', Idx s -> NNdone done s -> update_all cf js s = Ok (u, s') ->
    Idx s' /\ NNdone (js ++ done) s' /\ map n_id (nodes s') = map n_id (nodes s).
  Proof.
    induction js as [|j r IH]; intros done s u s' HI HN H; cbn [update_all] in H.
    - apply ret_inv in H as [_ ->]. auto.
    - minv H u1 s1 E. destruct (update_next_event_date_next _ _ _ _ _ HI HN E) as (HI1 & HN1 & Em1).
      destruct (IH _ _ _ _ HI1 HN1 H) as (HI2 & HN2 & Em2). split; [exact HI2|]. split; [|congruence].
      intros k nd nc Hk Hnc Hin. eapply HN2; eauto. cbn in Hin. apply in_or_app. destruct Hin as [<- | Hin]; [right; left; reflexivity|].
      apply in_app_or in Hin as [Hin | Hin]; [left; exact Hin|right; right; exact Hin].
  Qed.

  (* (a) second half, the boundary invariant: the clock has not passed the next slot of any slotted node; a node whose next
     event is a slot is slotted; and the node that is about to run its slot does so at exactly the slot's date *)
  Definition SlotNext (s : sim) : Prop :=
    forall j nd nc, nthZ (nodes s) (j - 1) = Some nd -> nthZ (cf_nodes cf) (j - 1) = Some nc ->
      (forall sl, nc_srv nc = SSlot sl -> now s <= slotdate sl (Z.to_nat (n_spos nd))) /\
      (n_next_type nd = 4 -> exists sl, nc_srv nc = SSlot sl /\ (next_active s = j -> now s = slotdate sl (Z.to_nat (n_spos nd)))).

  Lemma find_next_active_node_next s u s' : Idx s -> NNdone (map n_id (nodes s)) s -> find_next_active_node s = Ok (u, s') -> SlotNext s'.
  Proof.
    intros HI HN H. unfold find_next_active_node in H.
    minv H s0 s1 E. apply gets_inv in E as [-> ->].
    set (full := a_next_date (arr s) :: map n_next_date (nodes s)) in *.
    pose proof (Sched2.scan_active_spec full full [] 0 None [] eq_refl eq_refl ltac:(intros x []) ltac:(intros k [])) as [Hmin Hc].
    destruct (scan_active 0 full None []) as [dm cands] eqn:Es. cbn [fst snd] in Hmin, Hc.
    minv H ka s1 E.
    assert (Hka : nodes s1 = nodes s /\ In ka cands).
    { destruct cands as [|c0 [|c1 cr]]; [discriminate E|apply ret_inv in E as [-> ->]; split; [reflexivity|left; reflexivity]|].
      unfold choice_uniform in E. minv E uu s2 E1. apply lift_inv in E as [En ->].
      unfold draw_unif in E1. destruct (d_unif (dr s)) as [|x0 r0]; [discriminate E1|]. injection E1 as _ <-.
      split; [reflexivity|eapply nth_error_In; exact En]. }
    destruct Hka as [En1 Hin]. clear E. apply modify_inv in H.
    assert (Hnodes : nodes s' = nodes s) by (rewrite H; cbn; exact En1).
    assert (Hact : next_active s' = ka) by (rewrite H; reflexivity).
    assert (Hnow : forall t, dm = Some t -> now s' = t) by (intros t ->; rewrite H; reflexivity).
    clear H. intros j nd nc Hn Hnc. rewrite Hnodes in Hn.
    apply nthZ_nat in Hn as [Ej Hn].
    pose proof (HI _ _ Hn) as Hid.
    assert (HNN : NN nc nd).
    { eapply HN; [exact Hn| |apply in_map; eapply nth_error_In; exact Hn]. replace (n_id nd - 1) with (j - 1) by lia. exact Hnc. }
    destruct HNN as [N1 N2].
    assert (Hfull : In (n_next_date nd) full) by (right; apply in_map; eapply nth_error_In; exact Hn).
    assert (Hle : forall sl, nc_srv nc = SSlot sl -> exists t, dm = Some t /\ t <= slotdate sl (Z.to_nat (n_spos nd))).
    { intros sl Hs. pose proof (Sched2.dle_trans _ _ _ (Hmin _ Hfull) (N1 sl Hs)) as Hle.
      destruct dm as [t|]; [|discriminate Hle]. unfold Sched2.dle in Hle. cbn in Hle. apply Z.ltb_ge in Hle. exists t. auto. }
    split.
    - intros sl Hs. destruct (Hle sl Hs) as (t & Hd & Ht). rewrite (Hnow t Hd). exact Ht.
    - intros Hty. destruct (N2 Hty) as (sl & Hs & Hd). exists sl. split; [exact Hs|]. intros Hj.
      destruct (Hle sl Hs) as (t & Hdm & Ht). rewrite (Hnow t Hdm).
      rewrite Hact in Hj. rewrite Hj in Hin. destruct (Hc j Hin) as [_ Hnth].
      replace (Z.to_nat j) with (S (Z.to_nat (j - 1))) in Hnth by lia. unfold full in Hnth. cbn [nth_error] in Hnth.
      rewrite nth_error_map, Hn in Hnth. cbn in Hnth. injection Hnth as Hnd. congruence.
  Qed.

  (* every executed event re-establishes SlotNext *)
  Theorem event_step_slotnext s u s' : SlotInv cf s -> event_step cf s = Ok (u, s') -> SlotNext s'.
  Proof.
    intros HI H. unfold event_step in H.
    minv H u0 s1 E. apply modify_inv in E as ->.
    assert (HI1 : SlotInv cf (s <| log := [] |>)) by (eapply Inv_nodes; [|exact HI]; reflexivity).
    minv H k s2 E. apply gets_inv in E as [-> ->].
    minv H u1 s2 E.
    assert (HI2 : SlotInv cf s2).
    { cbn in E. destruct (next_active s =? 0) eqn:E0; [eapply kp_arrival_have_event; eauto; apply Hfz0|].
      eapply (kp_node_have_event_other cf 0 0); [apply Hfz0|exact HI1| |exact E]. intros Ea nd Hn. cbn in Hn. apply nthZ_nat in Hn as [Hn _]. lia. }
    clear E. minv H ns s3 E. apply gets_inv in E as [-> ->].
    minv H u2 s3 E.
    destruct (update_all_next _ [] _ _ _ (SlotInv_Idx _ HI2) ltac:(intros ? ? ? ? ? []) E) as (HI3 & HN3 & Em).
    eapply find_next_active_node_next; [exact HI3| |exact H]. rewrite Em. rewrite app_nil_r in HN3. exact HN3.
  Qed.
  Theorem run_many_slotnext : forall ds s s', SlotInv cf s -> SlotNext s -> run_many cf s ds = Ok s' -> SlotNext s'.
  Proof.
    induction ds as [|d r IH]; intros s s' HI HN H; cbn [run_many] in H; [injection H as <-; exact HN|].
    destruct (event_step cf (s <| dr := d |>)) as [[u s1]| |] eqn:E; try discriminate.
    assert (HI0 : SlotInv cf (s <| dr := d |>)) by (eapply Inv_nodes; [|exact HI]; reflexivity).
    eapply IH; [|eapply event_step_slotnext; eauto|exact H]. eapply event_step_slotinv; eauto.
  Qed.
End Next.

(* ================================================================================================================ *)
(* Part 2: (c) the slot event: how many services start, and the counter number_in_service                            *)
(* ================================================================================================================ *)
Lemma mapM_length {A B} (f : A -> M B) : forall l s r s', mapM f l s = Ok (r, s') -> length r = length l.
Proof.
  induction l as [|a l IH]; intros s r s' H; cbn [mapM] in H; [apply ret_inv in H as [-> _]; reflexivity|].
  minv H b s1 E. minv H bs s2 E2. apply ret_inv in H as [-> _]. cbn. f_equal. eapply IH; eauto.
Qed.
Lemma ins_key_desc_length k i l : length (ins_key_desc k i l) = S (length l).
Proof. induction l as [|[k' i'] r IH]; cbn; [reflexivity|]. destruct (key_ge k' k); cbn; [rewrite IH|]; reflexivity. Qed.
Lemma sort_by_key_desc_length l : length (sort_by_key_desc l) = length l.
Proof.
  unfold sort_by_key_desc. rewrite map_length.
  assert (H : forall l acc, length (fold_left (fun acc p => ins_key_desc (fst p) (snd p) acc) l acc) = (length l + length acc)%nat).
  { clear l. induction l as [|p l IH]; intros acc; cbn [fold_left]; [reflexivity|]. rewrite IH, ins_key_desc_length. cbn. lia. }
  rewrite H. cbn. lia.
Qed.

(* the customers of a node that carry a service start date (what interrupt_slotted_services looks at) *)
Definition has_sst (il : list ind) (i : Z) : bool :=
  match find_ind i il with Some x => match i_sst x with Some _ => true | None => false end | None => false end.
Definition in_service (s : sim) (nd : node) : list Z := filter (has_sst (inds s)) (all_individuals nd).

Section Count.
  Variable cf : config.
  Variable j : Z.
  Definition nodeJ (s : sim) : option node := nthZ (nodes s) (j - 1).
  (* number_in_service of node j moves by d; its position, population and queues stay *)
  Definition cnt (d : Z) (s s' : sim) : Prop :=
    Idx s' /\ forall nd, nodeJ s = Some nd -> exists nd', nodeJ s' = Some nd' /\ n_insvc nd' = n_insvc nd + d /\ n_spos nd' = n_spos nd /\
                                                       n_pop nd' = n_pop nd /\ n_queues nd' = n_queues nd.
  Lemma cnt_nodes s s' : Idx s -> nodes s' = nodes s -> cnt 0 s s'.
  Proof.
    intros HI E. split; [intros k nd Hk; rewrite E in Hk; apply HI, Hk|]. intros nd Hn. exists nd. unfold nodeJ in *. rewrite E.
    split; [exact Hn|]. repeat split; lia.
  Qed.
  Lemma cnt_trans a b s s1 s2 : cnt a s s1 -> cnt b s1 s2 -> cnt (a + b) s s2.
  Proof.
    intros [_ H1] [I2 H2]. split; [exact I2|]. intros nd Hn. destruct (H1 nd Hn) as (nd1 & Hn1 & A1 & B1 & C1 & D1).
    destruct (H2 nd1 Hn1) as (nd2 & Hn2 & A2 & B2 & C2 & D2). exists nd2. split; [exact Hn2|]. repeat split; try congruence. lia.
  Qed.
  Lemma cnt_Idx d s s' : cnt d s s' -> Idx s'. Proof. intros [H _]. exact H. Qed.
  Lemma cnt_eq d d' s s' : cnt d s s' -> d = d' -> cnt d' s s'. Proof. intros H <-. exact H. Qed.

  Lemma put_node_cnt d s nd0 nd' u s' : Idx s -> nodeJ s = Some nd0 -> n_id nd' = n_id nd0 -> n_insvc nd' = n_insvc nd0 + d ->
    n_spos nd' = n_spos nd0 -> n_pop nd' = n_pop nd0 -> n_queues nd' = n_queues nd0 -> put_node nd' s = Ok (u, s') -> cnt d s s'.
  Proof.
    intros HI Hn Hid Hd Hp Hpop Hq H. apply modify_inv in H. subst s'. unfold nodeJ in *.
    pose proof Hn as Hn0. apply nthZ_nat in Hn0 as [H0 Hk]. pose proof (HI _ _ Hk) as Hidx.
    assert (Eid : n_id nd' - 1 = j - 1) by lia. split.
    - intros k x Hx. cbn in Hx. rewrite Eid in Hx. unfold updZ in Hx. destruct (j - 1 <? 0); [apply HI, Hx|].
      destruct (nth_error_upd _ _ _ _ _ Hx) as [[-> ->] | [_ Hx']]; [lia|apply HI, Hx'].
    - intros nd Hnd. unfold nodeJ in Hnd. rewrite Hn in Hnd. injection Hnd as <-. exists nd'. unfold nodeJ. cbn. rewrite Eid. split; [eapply Order2.nthZ_updZ_eq; eauto|]. auto.
  Qed.
  Lemma upd_node_cnt d f s u s' : (forall nd, n_id (f nd) = n_id nd /\ n_insvc (f nd) = n_insvc nd + d /\ n_spos (f nd) = n_spos nd /\
      n_pop (f nd) = n_pop nd /\ n_queues (f nd) = n_queues nd) -> Idx s -> upd_node j f s = Ok (u, s') -> cnt d s s'.
  Proof.
    intros Hf HI H. unfold upd_node in H. minv H nd s1 E. apply get_node_inv in E as (-> & _ & Hn).
    destruct (Hf nd) as (F1 & F2 & F3 & F4 & F5). eapply put_node_cnt; eauto.
  Qed.
  Lemma ro_cnt {A} (m : M A) s a s' : Order2.ro m -> Idx s -> m s = Ok (a, s') -> cnt 0 s s'.
  Proof. intros Hm HI H. apply cnt_nodes; [exact HI|]. eapply Hm; eauto. Qed.

  Lemma find_next_class_change_cnt s u s' : Idx s -> find_next_class_change j s = Ok (u, s') -> cnt 0 s s'.
  Proof.
    intros HI H. unfold find_next_class_change in H. minv H nd s1 E. apply get_node_inv in E as (-> & _ & Hn).
    minv H il s1 E. apply gets_inv in E as [_ ->]. minv H r s1 E. apply lift_inv in E as [_ ->].
    eapply put_node_cnt; [exact HI|exact Hn|..|exact H]; try reflexivity. cbn. lia.
  Qed.
  Lemma reset_class_change_cnt i s u s' : Idx s -> reset_class_change cf j i s = Ok (u, s') -> cnt 0 s s'.
  Proof.
    intros HI H. unfold reset_class_change in H. destruct (cf_dyn cf); [|apply ret_inv in H as [_ ->]; apply cnt_nodes; auto].
    minv H u1 s1 E. pose proof (ro_cnt _ _ _ _ (Order2.ro_upd_ind _ _) HI E) as C1.
    minv H nd s2 E2. apply get_node_inv in E2 as (-> & _ & Hn).
    eapply (cnt_eq (0 + 0)); [|reflexivity]. eapply cnt_trans; [exact C1|].
    destruct (n_ncci nd) as [k|]; [destruct (k =? i)|]; first [ eapply find_next_class_change_cnt; [eapply cnt_Idx; eauto|exact H]
      | apply ret_inv in H as [_ ->]; apply cnt_nodes; [eapply cnt_Idx; eauto|reflexivity] ].
  Qed.

  (* one service start of a slot: the counter goes up by one *)
  Lemma slot_start_cnt t i s u s' : Idx s -> Order2.slot_start cf j t i s = Ok (u, s') -> cnt 1 s s'.
  Proof.
    intros HI H. unfold Order2.slot_start in H.
    minv H u1 s1 E1. pose proof (ro_cnt _ _ _ _ (Order2.ro_upd_ind _ _) HI E1) as C1.
    minv H u2 s2 E2. pose proof (ro_cnt _ _ _ _ (Order2.ro_giast _) (cnt_Idx _ _ _ C1) E2) as C2.
    minv H x s3 E3. apply get_ind_inv in E3 as [-> _]. minv H st s3 E3. apply Order2.stime_num_inv in E3 as (_ & _ & ->).
    minv H u4 s4 E4. pose proof (ro_cnt _ _ _ _ (Order2.ro_put_ind _) (cnt_Idx _ _ _ C2) E4) as C4.
    minv H u5 s5 E5. eapply upd_node_cnt in E5; [|intros nd; cbn; repeat split; reflexivity|eapply cnt_Idx; eauto].
    apply reset_class_change_cnt in H; [|eapply cnt_Idx; eauto].
    eapply (cnt_eq (0 + (0 + (0 + (1 + 0))))); [|reflexivity]. repeat (eapply cnt_trans; [eassumption|]). exact H.
  Qed.
  Lemma slot_pick_cnt nd cand s s' : Idx s -> nodeJ s = Some nd -> Order2.slot_pick cf j nd s = Ok (cand, s') -> cnt 0 s s'.
  Proof.
    intros HI Hn H. unfold Order2.slot_pick in H. destruct (0 <? n_nint nd).
    - minv H i s1 E. apply lift_inv in E as [_ ->]. minv H l' s1 E. apply lift_inv in E as [_ ->].
      minv H u1 s1 E1. eapply (put_node_cnt 0) in E1; [|exact HI|exact Hn|try reflexivity..]; [|cbn; lia].
      minv H u2 s2 E2. pose proof (ro_cnt _ _ _ _ (Order2.ro_upd_ind _ _) (cnt_Idx _ _ _ E1) E2) as C2. apply ret_inv in H as [_ ->].
      eapply (cnt_eq (0 + 0)); [|reflexivity]. eapply cnt_trans; eauto.
    - eapply ro_cnt; [apply Order2.ro_choose_next_customer|exact HI|exact H].
  Qed.
  (* the loop over the places of the slot: m services start, m <= the number of places *)
  Lemma slot_loop_cnt : forall k s u s', Idx s -> (exists nd, nodeJ s = Some nd) -> slot_loop cf k j s = Ok (u, s') ->
    exists m : nat, (m <= k)%nat /\ cnt (Z.of_nat m) s s'.
  Proof.
    induction k as [|k IH]; intros s u s' HI Hex H.
    - cbn [slot_loop] in H. apply ret_inv in H as [_ ->]. exists 0%nat. split; [lia|]. apply cnt_nodes; auto.
    - rewrite Order2.slot_loop_S in H. minv H t s0 E. apply gets_inv in E as [_ ->]. minv H nd s0 E. apply get_node_inv in E as (-> & _ & Hn).
      minv H cand s1 E1. pose proof (slot_pick_cnt _ _ _ _ HI Hn E1) as C1.
      minv H u2 s2 E2.
      assert (C2 : exists m2 : nat, (m2 <= 1)%nat /\ cnt (Z.of_nat m2) s1 s2).
      { destruct cand as [i|].
        - exists 1%nat. split; [lia|]. eapply slot_start_cnt; [eapply cnt_Idx; eauto|exact E2].
        - apply ret_inv in E2 as [_ ->]. exists 0%nat. split; [lia|]. apply cnt_nodes; [eapply cnt_Idx; eauto|reflexivity]. }
      destruct C2 as (m2 & Hm2 & C2).
      assert (Hex2 : exists nd2, nodeJ s2 = Some nd2).
      { destruct C1 as [_ C1]. destruct (C1 nd Hn) as (nd1 & Hn1 & _). destruct C2 as [_ C2]. destruct (C2 nd1 Hn1) as (nd2 & Hn2 & _). eauto. }
      destruct (IH _ _ _ (cnt_Idx _ _ _ C2) Hex2 H) as (m & Hm & C3). exists (m2 + m)%nat. split; [lia|].
      eapply (cnt_eq (0 + (Z.of_nat m2 + Z.of_nat m))); [|lia]. eapply cnt_trans; [exact C1|]. eapply cnt_trans; eauto.
  Qed.

  (* one interruption without rerouting: the counter goes down by one *)
  Lemma interrupt_service_cnt fl i pre s u s' : (pre =? 4) = false -> Idx s -> interrupt_service cf fl j i pre s = Ok (u, s') -> cnt (-1) s s'.
  Proof.
    intros Ep HI H. unfold interrupt_service in H. rewrite Ep in H.
    minv H t s0 E. apply gets_inv in E as [_ ->].
    minv H u1 s1 E1. pose proof (ro_cnt _ _ _ _ (Order2.ro_upd_ind _ _) HI E1) as C1.
    minv H u2 s2 E2. eapply (upd_node_cnt 0) in E2; [|intros nd; cbn; repeat split; try reflexivity; lia|eapply cnt_Idx; eauto].
    minv H u3 s3 E3. pose proof (ro_cnt _ _ _ _ (Order2.ro_upd_ind _ _) (cnt_Idx _ _ _ E2) E3) as C3.
    minv H u4 s4 E4. pose proof (ro_cnt _ _ _ _ (Order2.ro_write_interruption_record _ _ _ _) (cnt_Idx _ _ _ C3) E4) as C4.
    minv H u5 s5 E5. pose proof (ro_cnt _ _ _ _ (Order2.ro_upd_ind _ _) (cnt_Idx _ _ _ C4) E5) as C5.
    eapply (upd_node_cnt (-1)) in H; [|intros nd; cbn; repeat split; try reflexivity; lia|eapply cnt_Idx; eauto].
    eapply (cnt_eq (0 + (0 + (0 + (0 + (0 + -1)))))); [|reflexivity]. repeat (eapply cnt_trans; [eassumption|]). exact H.
  Qed.
  Lemma interrupt_all_cnt fl pre : (pre =? 4) = false -> forall l s u s', Idx s ->
    forM_ l (fun i => interrupt_service cf fl j i pre) s = Ok (u, s') -> cnt (- Z.of_nat (length l)) s s'.
  Proof.
    intros Ep. induction l as [|i l IH]; intros s u s' HI H; cbn [forM_] in H.
    - apply ret_inv in H as [_ ->]. apply cnt_nodes; auto.
    - minv H u1 s1 E. pose proof (interrupt_service_cnt _ _ _ _ _ _ Ep HI E) as C1.
      eapply (cnt_eq (-1 + - Z.of_nat (length l))); [|cbn [length]; lia]. eapply cnt_trans; [exact C1|]. eapply IH; [eapply cnt_Idx; eauto|exact H].
  Qed.
  (* interrupt_slotted_services: min (number_in_service - slot size, customers with a service start date) interruptions,
     and only under pre-emptive capacitated slots *)
  Definition n_interrupt (sl : slotcfg) (nd : node) (size : Z) (s : sim) : nat :=
    if sl_cap sl && negb (sl_pre sl =? 0) then
      if 0 <? n_insvc nd - size then Nat.min (Z.to_nat (n_insvc nd - size)) (length (in_service s nd)) else 0%nat
    else 0%nat.
  Lemma slot_interrupt_cnt sl nd size s u s' : (sl_pre sl =? 4) = false -> Idx s ->
    Order2.slot_interrupt cf j sl nd size s = Ok (u, s') -> cnt (- Z.of_nat (n_interrupt sl nd size s)) s s'.
  Proof.
    intros Ep HI H. unfold Order2.slot_interrupt in H. unfold n_interrupt.
    destruct (sl_cap sl && negb (sl_pre sl =? 0)); [|apply ret_inv in H as [_ ->]; apply cnt_nodes; auto].
    destruct (0 <? n_insvc nd - size); [|apply ret_inv in H as [_ ->]; apply cnt_nodes; auto].
    minv H il s0 E. apply gets_inv in E as [-> ->]. minv H kl s1 E1.
    pose proof (mapM_length _ _ _ _ _ E1) as Hlen. pose proof (Order2.ro_keyed _ _ _ _ E1) as En1.
    minv H fl s2 E2. apply gets_inv in E2 as [_ ->].
    apply (interrupt_all_cnt _ _ Ep) in H; [|intros k x Hk; rewrite En1 in Hk; apply HI, Hk].
    destruct H as [I2 H2]. split; [exact I2|]. intros nd0 Hn0. unfold nodeJ in *. rewrite <- En1 in Hn0.
    destruct (H2 nd0 Hn0) as (nd' & A & B & C). exists nd'. split; [exact A|]. rewrite firstn_length, sort_by_key_desc_length, Hlen in B.
    split; [|exact C]. unfold in_service, has_sst. exact B.
  Qed.

  (* the whole slot event of node j *)
  Theorem slotted_service_counts s u s' nd sl : Idx s -> nodeJ s = Some nd -> slot_of cf j = Some sl -> (sl_pre sl =? 4) = false ->
    slotted_service cf j s = Ok (u, s') ->
    let size := slotsize sl (Z.to_nat (n_spos nd)) in
    let cut := n_interrupt sl nd size s in
    exists (m : nat) nd', nodeJ s' = Some nd' /\ Idx s' /\
      n_spos nd' = n_spos nd + 1 /\ n_pop nd' = n_pop nd /\ n_queues nd' = n_queues nd /\
      n_insvc nd' = n_insvc nd - Z.of_nat cut + Z.of_nat m /\
      (m <= Z.to_nat (Order2.slot_num sl nd))%nat.
  Proof.
    intros HI Hn Hsl Ep H size cut. rewrite Order2.slotted_unfold in H. minv H nc s1 E. apply ncfg_of_inv in E as [-> Hnc].
    unfold slot_of in Hsl. rewrite Hnc in Hsl. destruct (nc_srv nc) as [|sc|sl'] eqn:Es; try discriminate Hsl. injection Hsl as ->.
    minv H nd0 s1 E. apply get_node_inv in E as (-> & _ & Hn0). unfold nodeJ in Hn. rewrite Hn in Hn0. injection Hn0 as <-.
    minv H u0 s1 E. assert (s1 = s) as -> by (destruct (sl_b sl); [discriminate E|apply ret_inv in E as [_ ->]; reflexivity]). clear E.
    minv H u1 s1 E1. pose proof (slot_interrupt_cnt _ _ _ _ _ _ Ep HI E1) as C1.
    minv H u2 s2 E2.
    assert (Hex1 : exists nd1, nodeJ s1 = Some nd1) by (destruct C1 as [_ C1]; destruct (C1 nd Hn) as (nd1 & Hn1 & _); eauto).
    destruct (slot_loop_cnt _ _ _ _ (cnt_Idx _ _ _ C1) Hex1 E2) as (m & Hm & C2).
    pose proof (cnt_trans _ _ _ _ _ C1 C2) as [I2 C12]. destruct (C12 nd Hn) as (nd2 & Hn2 & A2 & B2 & P2 & Q2).
    unfold upd_node in H. minv H nd3 s3 E3. apply get_node_inv in E3 as (-> & _ & Hn3). unfold nodeJ in Hn2. rewrite Hn2 in Hn3. injection Hn3 as <-.
    apply modify_inv in H. subst s'. pose proof Hn2 as Hn2'. apply nthZ_nat in Hn2' as [H0 Hk]. pose proof (I2 _ _ Hk) as Hidx.
    exists m, (nd2 <| n_spos := n_spos nd2 + 1 |>). cbn. replace (n_id nd2 - 1) with (j - 1) by lia. split; [|split].
    - unfold nodeJ. cbn. eapply Order2.nthZ_updZ_eq; eauto.
    - intros k x Hx. cbn in Hx. unfold updZ in Hx. destruct (j - 1 <? 0); [apply I2, Hx|].
      destruct (nth_error_upd _ _ _ _ _ Hx) as [[-> ->] | [_ Hx']]; [cbn; lia|apply I2, Hx'].
    - subst size cut. unfold Order2.slot_size, slotsize in *. repeat split; try congruence; lia.
  Qed.
End Count.

(* ---------- (c) in the words of the property ---------- *)
Lemma slot_num_le sl nd : (0 <= n_insvc nd \/ sl_cap sl = false -> (Z.to_nat (Order2.slot_num sl nd) <= Z.to_nat (Order2.slot_size sl nd))%nat) /\
  (sl_cap sl = true -> Z.to_nat (Order2.slot_num sl nd) <= Z.to_nat (Z.max (Order2.slot_size sl nd - n_insvc nd) 0))%nat.
Proof.
  unfold Order2.slot_num. destruct (sl_cap sl); split; intros H; try discriminate; try lia.
Qed.

Section Counts.
  Variable cf : config.

  (* the number of services started by the slot event at position k is at most the size of slot k; under capacitated slots at
     most (size - number_in_service) of them, number_in_service read BEFORE anybody is interrupted; who is started is
     Order2.SlotStarts: the head of the interrupted list or the discipline's choice, one place after the other *)
  Theorem slot_event_starts j s s' : Idx s -> slotted_service cf j s = Ok (tt, s') ->
    exists sl nd s0 s1 l, slot_of cf j = Some sl /\ 1 <= j /\ nthZ (nodes s) (j - 1) = Some nd /\
      Order2.slot_interrupt cf j sl nd (slotsize sl (Z.to_nat (n_spos nd))) s = Ok (tt, s0) /\
      Order2.SlotStarts cf j (Z.to_nat (Order2.slot_num sl nd)) s0 l s1 /\ Order2.same s1 s' /\
      (0 <= n_insvc nd \/ sl_cap sl = false -> (length l <= Z.to_nat (slotsize sl (Z.to_nat (n_spos nd))))%nat) /\
      (sl_cap sl = true -> (length l <= Z.to_nat (Z.max (slotsize sl (Z.to_nat (n_spos nd)) - n_insvc nd) 0))%nat) /\
      (forall i, ~ In i l -> find_ind i (inds s') = find_ind i (inds s0)).
  Proof.
    intros HI H. destruct (Order2.slotted_service_starts cf j s s' (Idx_Order2 _ HI) H) as (nc & sl & nd & s0 & s1 & l & Hnc & Es & [Hj Hn] & E0 & _ & Hl & Hs & _).
    exists sl, nd, s0, s1, l. split; [unfold slot_of; rewrite Hnc, Es; reflexivity|]. split; [exact Hj|]. split; [exact Hn|]. split; [exact E0|].
    split; [exact Hl|]. split; [exact Hs|]. destruct (Order2.SlotStarts_frame _ _ _ _ _ _ Hl) as (_ & Hlen & _ & Hfr). destruct (slot_num_le sl nd) as [B1 B2].
    split; [intros Hc; specialize (B1 Hc); unfold Order2.slot_size in B1; unfold slotsize; lia|]. split; [intros Hc; specialize (B2 Hc); unfold Order2.slot_size in B2; unfold slotsize; lia|].
    intros i Hi. destruct Hs as [_ Hs]. rewrite Hs. apply Hfr, Hi.
  Qed.

  (* the counter after the slot event.  Capacitated slots: if no more than the slot size are counted in service, at most the
     slot size are counted after it; pre-emptive capacitated slots cut the counter down to the slot size provided at least
     (number_in_service - size) customers of the node carry a service start date (the interruption takes them from that list) *)
  Theorem capacitated_after_slot j s u s' nd sl : Idx s -> 1 <= j -> nthZ (nodes s) (j - 1) = Some nd -> slot_of cf j = Some sl ->
    (sl_pre sl =? 4) = false -> sl_cap sl = true -> slotted_service cf j s = Ok (u, s') ->
    let size := slotsize sl (Z.to_nat (n_spos nd)) in
    0 <= size -> (sl_pre sl = 0 -> n_insvc nd <= size) -> n_insvc nd - size <= Z.of_nat (length (in_service s nd)) ->
    exists nd', nthZ (nodes s') (j - 1) = Some nd' /\ n_spos nd' = n_spos nd + 1 /\ n_insvc nd' <= size /\
      (n_insvc nd <= size -> n_insvc nd <= n_insvc nd') /\ (size < n_insvc nd -> n_insvc nd' = size).
  Proof.
    intros HI Hj Hn Hsl Ep Hcap H size Hs0 Hnon Htrue.
    destruct (slotted_service_counts cf j s u s' nd sl HI Hn Hsl Ep H) as (m & nd' & Hn' & _ & Hp & _ & _ & Hc & Hm).
    exists nd'. split; [exact Hn'|]. split; [exact Hp|]. destruct (slot_num_le sl nd) as [_ B2]. specialize (B2 Hcap).
    fold (slotsize sl (Z.to_nat (n_spos nd))) in *. unfold Order2.slot_size in B2. fold (slotsize sl (Z.to_nat (n_spos nd))) in B2. fold size in B2, Hc.
    unfold n_interrupt in Hc. rewrite Hcap in Hc. cbn [andb] in Hc.
    destruct (0 <? n_insvc nd - size) eqn:Ek.
    - apply Z.ltb_lt in Ek. destruct (sl_pre sl =? 0) eqn:E0; [apply Z.eqb_eq in E0; specialize (Hnon E0); lia|]. cbn [negb] in Hc. lia.
    - apply Z.ltb_ge in Ek. assert (Hc' : n_insvc nd' = n_insvc nd - 0 + Z.of_nat m) by (destruct (negb (sl_pre sl =? 0)); exact Hc). lia.
  Qed.
  (* without capacity: at most the slot size start, whoever is still in service *)
  Theorem uncapacitated_slot j s u s' nd sl : Idx s -> 1 <= j -> nthZ (nodes s) (j - 1) = Some nd -> slot_of cf j = Some sl ->
    (sl_pre sl =? 4) = false -> sl_cap sl = false -> slotted_service cf j s = Ok (u, s') ->
    exists (m : nat) nd', nthZ (nodes s') (j - 1) = Some nd' /\ n_spos nd' = n_spos nd + 1 /\ n_insvc nd' = n_insvc nd + Z.of_nat m /\
      (m <= Z.to_nat (slotsize sl (Z.to_nat (n_spos nd))))%nat.
  Proof.
    intros HI Hj Hn Hsl Ep Hcap H.
    destruct (slotted_service_counts cf j s u s' nd sl HI Hn Hsl Ep H) as (m & nd' & Hn' & _ & Hp & _ & _ & Hc & Hm).
    exists m, nd'. split; [exact Hn'|]. split; [exact Hp|]. unfold n_interrupt in Hc. rewrite Hcap in Hc. cbn [andb] in Hc.
    split; [lia|]. destruct (slot_num_le sl nd) as [B1 _]. specialize (B1 (or_intror Hcap)). unfold Order2.slot_size in B1. unfold slotsize. lia.
  Qed.
End Counts.

(* ---------- the slot table in closed form ---------- *)
Lemma last_nth0 (l : list Z) : last l 0 = nth (length l - 1) l 0.
Proof.
  induction l as [|x l IH]; [reflexivity|]. destruct l as [|y l']; [reflexivity|].
  change (last (x :: y :: l') 0) with (last (y :: l') 0). rewrite IH. cbn [length].
  replace (S (S (length l')) - 1)%nat with (S (S (length l') - 1))%nat by lia. reflexivity.
Qed.
Lemma nth_removelast (l : list Z) : forall r, (S r < length l)%nat -> nth r (removelast l) 0 = nth r l 0.
Proof.
  induction l as [|x l IH]; intros r Hr; [cbn in Hr; lia|]. destruct l as [|y l']; [cbn in Hr; lia|].
  change (removelast (x :: y :: l')) with (x :: removelast (y :: l')). destruct r as [|r]; [reflexivity|].
  cbn [nth]. apply IH. cbn [length] in *. lia.
Qed.
(* a well-formed slot table: dates positive and increasing, offset >= 0, as many sizes as dates, sizes >= 0, pre-emption option
   one of False / resume / restart / resample (what Slotted.__init__ accepts) *)
Definition wf_slot (sl : slotcfg) : bool :=
  Clock2.wf_tt (sl_b sl) (sl_off sl) && Nat.eqb (length (sl_b sl)) (length (sl_v sl)) && forallb (fun z => 0 <=? z) (sl_v sl) &&
  negb (sl_pre sl =? 4) && (sl_cap sl || (sl_pre sl =? 0)).
Definition wf_slots (cf : config) : bool :=
  forallb (fun nc => match nc_srv nc with SSlot sl => wf_slot sl | _ => true end) (cf_nodes cf).
Lemma wf_slots_at cf j sl : wf_slots cf = true -> slot_of cf j = Some sl -> wf_slot sl = true.
Proof.
  unfold wf_slots, slot_of. intros H Hs. destruct (nthZ (cf_nodes cf) (j - 1)) as [nc|] eqn:E; [|discriminate].
  apply nthZ_nat in E as [_ E]. apply nth_error_In in E. rewrite forallb_forall in H. specialize (H nc E).
  destruct (nc_srv nc); try discriminate. injection Hs as <-. exact H.
Qed.
Lemma wf_slot_parts sl : wf_slot sl = true ->
  Clock2.wf_tt (sl_b sl) (sl_off sl) = true /\ length (sl_b sl) = length (sl_v sl) /\ (0 < length (sl_b sl))%nat /\
  (forall z, In z (sl_v sl) -> 0 <= z) /\ (sl_pre sl =? 4) = false /\ (sl_cap sl = false -> sl_pre sl = 0).
Proof.
  unfold wf_slot. intros H. apply andb_prop in H as [H H5]. apply andb_prop in H as [H H4]. apply andb_prop in H as [H H3]. apply andb_prop in H as [H1 H2].
  split; [exact H1|]. split; [apply Nat.eqb_eq, H2|]. split.
  - unfold Clock2.wf_tt in H1. apply andb_prop in H1 as [H1 _]. apply andb_prop in H1 as [_ H1]. apply negb_true_iff, Nat.eqb_neq in H1. lia.
  - split; [intros z Hz; rewrite forallb_forall in H3; apply Z.leb_le, H3, Hz|]. split; [apply negb_true_iff, H4|].
    intros Hc. rewrite Hc in H5. cbn in H5. apply Z.eqb_eq, H5.
Qed.
(* slot k (k >= 1) is at the (k-1)-th date of the cyclic generator and has the size sizes[(k-1) mod n] *)
Theorem slot_table sl m : wf_slot sl = true ->
  slotdate sl (S m) = D (sl_b sl) (sl_off sl) (S m) /\ slotsize sl (S m) = nth (m mod length (sl_v sl)) (sl_v sl) 0 /\ 0 <= slotsize sl (S m).
Proof.
  intros H. destruct (wf_slot_parts _ H) as (_ & Hlen & Hpos & Hnn & _).
  split; [reflexivity|]. unfold slotsize, slot_values. cbn [fst]. set (n := length (sl_b sl)) in *. rewrite <- Hlen.
  assert (Hn : n <> 0%nat) by lia. pose proof (Nat.div_mod m n Hn) as Hm. pose proof (Nat.mod_upper_bound m n Hn) as Hr.
  assert (E : nth ((m + 1) mod n) (last (sl_v sl) 0 :: removelast (sl_v sl)) 0 = nth (m mod n) (sl_v sl) 0).
  { destruct (Nat.eq_dec (m mod n) (n - 1)) as [E|E].
    - assert (H1 : ((m + 1) mod n = 0)%nat).
      { assert (Hs : (m + 1 = (S (m / n)) * n + 0)%nat) by nia. rewrite Hs, Nat.add_0_r. apply Nat.mod_mul. lia. }
      rewrite H1, E. cbn [nth]. rewrite last_nth0, <- Hlen. reflexivity.
    - assert (H1 : ((m + 1) mod n = S (m mod n))%nat).
      { assert (Hs : (m + 1 = (m / n) * n + S (m mod n))%nat) by nia. rewrite Hs, Nat.add_comm, Nat.mod_add by lia. apply Nat.mod_small. lia. }
      rewrite H1. cbn [nth]. apply nth_removelast. lia. }
  rewrite E. split; [reflexivity|]. apply Hnn. apply nth_In. lia.
Qed.
(* the slots are in timetable order: dates increase strictly *)
Theorem slotdate_increasing sl : wf_slot sl = true -> forall a b, (1 <= a < b)%nat -> slotdate sl a < slotdate sl b.
Proof.
  intros H a b Hab. destruct (wf_slot_parts _ H) as (Hw & _). destruct a as [|a]; [lia|]. destruct b as [|b]; [lia|].
  destruct (slot_table sl a H) as [-> _]. destruct (slot_table sl b H) as [-> _]. apply (Clock2.wf_tt_mono _ _ Hw). lia.
Qed.

(* ================================================================================================================ *)
(* Part 4: (a) over runs; executable twins                                                                           *)
(* ================================================================================================================ *)
Section Main.
  Variable cf : config.

  Theorem SlotInv_means s j nd sl : SlotInv cf s -> nthZ (nodes s) (j - 1) = Some nd -> slot_of cf j = Some sl ->
    n_id nd = j /\ n_servers nd = [] /\ n_c nd = Some 0 /\ 0 <= n_spos nd.
  Proof.
    intros HI Hn Hsl. destruct (Inv_get _ _ _ _ _ _ HI Hn) as (Hid & _ & A & _). rewrite Hid in A. destruct (A sl Hsl) as (A1 & A2 & A3). auto.
  Qed.
  Theorem quiet_means s j nd : SlotInv cf s -> nthZ (nodes s) (j - 1) = Some nd -> quiet cf j = true -> n_interrupted nd = [].
  Proof. intros HI Hn Hq. destruct (Inv_get _ _ _ _ _ _ HI Hn) as (Hid & _ & _ & B & _). rewrite Hid in B. auto. Qed.

  (* (a) after any number of events every slotted node sits at some position k of its table: it has no servers, the clock has
     not passed the date of slot k; an event moves the position (to k + 1) exactly when it is this node's slot event, and then
     the clock IS the date of slot k.  So slot k runs at slotdate k, for k = the starting position, the next one, ... in
     turn, and (slotdate_increasing) these dates increase strictly when the table is well formed *)
  Theorem slots_follow_timetable ds s s1 : SlotInv cf s -> SlotNext cf s -> run_many cf s ds = Ok s1 ->
    SlotInv cf s1 /\ SlotNext cf s1 /\
    forall j nd sl, nthZ (nodes s1) (j - 1) = Some nd -> slot_of cf j = Some sl ->
      let k := Z.to_nat (n_spos nd) in
      n_servers nd = [] /\ n_c nd = Some 0 /\ now s1 <= slotdate sl k /\
      forall d u s2, event_step cf (s1 <| dr := d |>) = Ok (u, s2) ->
        (next_active s1 = j -> n_next_type nd = 4 ->
           now s1 = slotdate sl k /\ at_node j (fun nd2 => n_spos nd2 = n_spos nd + 1 /\ now s2 <= slotdate sl (S k)) s2) /\
        (~ (next_active s1 = j /\ n_next_type nd = 4) -> at_node j (fun nd2 => n_spos nd2 = n_spos nd /\ now s2 <= slotdate sl k) s2).
  Proof.
    intros HI HN H. pose proof (run_many_slotinv _ _ _ _ HI H) as HI1. pose proof (run_many_slotnext _ _ _ _ HI HN H) as HN1.
    split; [exact HI1|]. split; [exact HN1|]. intros j nd sl Hn Hsl k.
    destruct (SlotInv_means _ _ _ _ HI1 Hn Hsl) as (Hid & Hsv & Hc & Hp).
    assert (Hnc : exists nc, nthZ (cf_nodes cf) (j - 1) = Some nc /\ nc_srv nc = SSlot sl).
    { unfold slot_of in Hsl. destruct (nthZ (cf_nodes cf) (j - 1)) as [nc|]; [|discriminate]. exists nc. split; [reflexivity|].
      destruct (nc_srv nc); try discriminate. congruence. }
    destruct Hnc as (nc & Hnc & Es). destruct (HN1 j nd nc Hn Hnc) as [N1 N2].
    split; [exact Hsv|]. split; [exact Hc|]. split; [apply N1, Es|]. intros d u s2 Hstep.
    assert (HI0 : SlotInv cf (s1 <| dr := d |>)) by (eapply Inv_nodes; [|exact HI1]; reflexivity).
    pose proof (event_step_slotnext _ _ _ _ HI0 Hstep) as HN2.
    pose proof (Inv_freeze cf j (s1 <| dr := d |>) nd HI0 Hn) as HF.
    split.
    - intros Ha Hty. destruct (N2 Hty) as (sl' & Es' & Heq). assert (sl' = sl) by congruence. subst sl'. split; [apply Heq, Ha|].
      pose proof (event_step_slot cf j _ sl _ _ _ nd Hsl HF Ha Hn Hty Hstep) as HF2. intros nd2 Hn2. split; [exact (Inv_pos _ _ _ _ _ HF2 Hn2)|].
      destruct (HN2 j nd2 nc Hn2 Hnc) as [M1 _]. specialize (M1 sl Es). rewrite (Inv_pos _ _ _ _ _ HF2 Hn2) in M1.
      replace (Z.to_nat (n_spos nd + 1)) with (S k) in M1 by (unfold k; lia). exact M1.
    - intros Hno. assert (HF2 : Inv cf j (n_spos nd) s2).
      { eapply event_step_other; [eapply HfzJ; eauto|exact HF| |exact Hstep]. intros Ha nd0 Hn0 Hty. cbn in Hn0. rewrite Hn in Hn0. injection Hn0 as <-. apply Hno. auto. }
      intros nd2 Hn2. split; [exact (Inv_pos _ _ _ _ _ HF2 Hn2)|].
      destruct (HN2 j nd2 nc Hn2 Hnc) as [M1 _]. specialize (M1 sl Es). rewrite (Inv_pos _ _ _ _ _ HF2 Hn2) in M1. exact M1.
  Qed.

  (* a node whose next event is a slot executes slotted_service *)
  Lemma node_have_event_slot s j nd : nthZ (nodes s) (j - 1) = Some nd -> 1 <= j -> n_next_type nd = 4 ->
    node_have_event cf j s = slotted_service cf j s.
  Proof.
    intros Hn Hj Hty. unfold node_have_event, bind at 1. unfold get_node. destruct (j <? 1) eqn:E; [apply Z.ltb_lt in E; lia|].
    rewrite Hn, Hty. reflexivity.
  Qed.

  (* ---------- executable twins ---------- *)
  Definition is_nil {A} (l : list A) : bool := match l with [] => true | _ => false end.
  Definition node_b (nd : node) : bool :=
    (match slot_of cf (n_id nd) with
     | Some _ => is_nil (n_servers nd) && (match n_c nd with Some c => c =? 0 | None => false end) && (0 <=? n_spos nd)
     | None => true end) &&
    (negb (quiet cf (n_id nd)) || is_nil (n_interrupted nd)).
  Fixpoint nodes_b (k : Z) (l : list node) : bool :=
    match l with [] => true | nd :: r => (n_id nd =? k) && node_b nd && nodes_b (k + 1) r end.
  Definition slot_inv_b (s : sim) : bool := nodes_b 1 (nodes s).

  Lemma nodes_b_sound l : forall k0, nodes_b k0 l = true ->
    forall k nd, nth_error l k = Some nd -> n_id nd = k0 + Z.of_nat k /\ node_b nd = true.
  Proof.
    induction l as [|x r IH]; intros k0 H [|k] nd Hk; cbn in *; try discriminate.
    - injection Hk as ->. apply andb_prop in H as [H _]. apply andb_prop in H as [H1 H2]. apply Z.eqb_eq in H1. split; [lia|exact H2].
    - apply andb_prop in H as [_ H]. destruct (IH _ H _ _ Hk) as [A B]. split; [lia|exact B].
  Qed.
  Lemma is_nil_true {A} (l : list A) : is_nil l = true -> l = [].
  Proof. destruct l; [reflexivity|discriminate]. Qed.
  Theorem slot_inv_b_sound s : slot_inv_b s = true -> SlotInv cf s.
  Proof.
    intros H k nd Hk. destruct (nodes_b_sound _ _ H _ _ Hk) as [A B]. split; [lia|]. unfold node_b in B. apply andb_prop in B as [B1 B2].
    split; [|split].
    - intros sl Hsl. rewrite Hsl in B1. apply andb_prop in B1 as [B1 B3]. apply andb_prop in B1 as [B1 B4].
      split; [apply is_nil_true, B1|]. split; [destruct (n_c nd) as [c|]; [apply Z.eqb_eq in B4; congruence|discriminate]|apply Z.leb_le, B3].
    - intros Hq. rewrite Hq in B2. cbn in B2. apply is_nil_true, B2.
    - intros E. lia.
  Qed.

  Definition next_node_b (t act k : Z) (nd : node) : bool :=
    match nthZ (cf_nodes cf) (k - 1) with
    | None => true
    | Some nc =>
      match nc_srv nc with
      | SSlot sl => (t <=? slotdate sl (Z.to_nat (n_spos nd))) &&
                    (negb (n_next_type nd =? 4) || negb (act =? k) || (t =? slotdate sl (Z.to_nat (n_spos nd))))
      | _ => negb (n_next_type nd =? 4)
      end
    end.
  Fixpoint next_b (t act k : Z) (l : list node) : bool :=
    match l with [] => true | nd :: r => next_node_b t act k nd && next_b t act (k + 1) r end.
  Definition slot_next_b (s : sim) : bool := next_b (now s) (next_active s) 1 (nodes s).
  Lemma next_b_sound t act l : forall k0, next_b t act k0 l = true ->
    forall k nd, nth_error l k = Some nd -> next_node_b t act (k0 + Z.of_nat k) nd = true.
  Proof.
    induction l as [|x r IH]; intros k0 H [|k] nd Hk; cbn in Hk; try discriminate.
    - injection Hk as ->. cbn [next_b] in H. apply andb_prop in H as [H _]. replace (k0 + Z.of_nat 0) with k0 by lia. exact H.
    - cbn [next_b] in H. apply andb_prop in H as [_ H]. replace (k0 + Z.of_nat (S k)) with (k0 + 1 + Z.of_nat k) by lia. eapply IH; eauto.
  Qed.
  Theorem slot_next_b_sound s : slot_next_b s = true -> SlotNext cf s.
  Proof.
    intros H j nd nc Hn Hnc. apply nthZ_nat in Hn as [Ej Hn]. pose proof (next_b_sound _ _ _ _ H _ _ Hn) as B.
    replace (1 + Z.of_nat (Z.to_nat (j - 1))) with j in B by lia. unfold next_node_b in B. rewrite Hnc in B. split.
    - intros sl Es. rewrite Es in B. apply andb_prop in B as [B _]. apply Z.leb_le, B.
    - intros Hty. rewrite Hty in B. destruct (nc_srv nc) as [|sc|sl]; try discriminate B. exists sl. split; [reflexivity|]. intros Ha.
      apply andb_prop in B as [_ B]. rewrite Ha, !Z.eqb_refl in B. cbn in B. apply Z.eqb_eq, B.
  Qed.
End Main.

(* ================================================================================================================ *)
(* Part 3: (b) services at a slotted node start only inside its slot event                                           *)
(* ================================================================================================================ *)
(* ---------- 3.0  who writes a service start date: two small walks over the functions that move nobody ---------- *)
(* iro m: m leaves the customer records alone.  ss K m: every service start date found after m was there before, K being
   records known to be current (a record read by get_ind may be written back, updated, as long as nobody touched the
   records in between). *)
Definition St0 (s s' : sim) : Prop :=
  forall i x', find_ind i (inds s') = Some x' -> forall t, i_sst x' = Some t -> exists x, find_ind i (inds s) = Some x /\ i_sst x = Some t.
Definition cur (K : list ind) (s : sim) : Prop := forall x, In x K -> find_ind (i_id x) (inds s) = Some x.
Definition iro {A} (m : M A) : Prop := forall s a s', m s = Ok (a, s') -> inds s' = inds s.
Definition ss (K : list ind) {A} (m : M A) : Prop := forall s a s', cur K s -> m s = Ok (a, s') -> St0 s s'.

Lemma St0_refl s : St0 s s.
Proof. intros i x' H t Ht. eauto. Qed.
Lemma St0_trans a b c : St0 a b -> St0 b c -> St0 a c.
Proof. intros H1 H2 i x' Hx t Ht. destruct (H2 i x' Hx t Ht) as (x1 & Hx1 & Ht1). exact (H1 i x1 Hx1 t Ht1). Qed.
Lemma St0_inds s s' : inds s' = inds s -> St0 s s'.
Proof. intros E i x' H t Ht. rewrite E in H. eauto. Qed.

Create HintDb irodb.
Create HintDb ssdb.
Lemma iro_ret {A} (a : A) : iro (ret a). Proof. intros s b s' H. apply ret_inv in H as [_ ->]. reflexivity. Qed.
Lemma iro_fail {A} e : iro (@fail A e). Proof. intros s a s' H. discriminate. Qed.
Lemma iro_oof {A} : iro (@oof A). Proof. intros s a s' H. discriminate. Qed.
Lemma iro_bind {A B} (m : M A) (f : A -> M B) : iro m -> (forall a, iro (f a)) -> iro (bind m f).
Proof. intros Hm Hf s b s' H. minv H a s1 E. rewrite (Hf _ _ _ _ H). eapply Hm; eauto. Qed.
Lemma iro_gets {A} (f : sim -> A) : iro (gets f). Proof. intros s a s' H. apply gets_inv in H as [_ ->]. reflexivity. Qed.
Lemma iro_lift {A} e (o : option A) : iro (lift e o). Proof. destruct o; [apply iro_ret|apply iro_fail]. Qed.
Lemma iro_modify (f : sim -> sim) : (forall s, inds (f s) = inds s) -> iro (modify f).
Proof. intros Hf s a s' H. apply modify_inv in H. subst s'. apply Hf. Qed.
Lemma iro_get_node j : iro (get_node j). Proof. intros s a s' H. apply get_node_inv in H as [-> _]. reflexivity. Qed.
Lemma iro_get_ind i : iro (get_ind i). Proof. intros s a s' H. apply get_ind_inv in H as [-> _]. reflexivity. Qed.
Lemma iro_put_node nd : iro (put_node nd). Proof. apply iro_modify. reflexivity. Qed.
Lemma iro_log_rec r : iro (log_rec r). Proof. apply iro_modify. reflexivity. Qed.
Lemma iro_tnow : iro tnow. Proof. apply iro_gets. Qed.
Lemma iro_draw_arr : iro draw_arr. Proof. intros s a s' H. unfold draw_arr in H. destruct (d_arr (dr s)); inversion H. reflexivity. Qed.
Lemma iro_draw_batch : iro draw_batch. Proof. intros s a s' H. unfold draw_batch in H. destruct (d_batch (dr s)); inversion H. reflexivity. Qed.
Lemma iro_draw_svc : iro draw_svc. Proof. intros s a s' H. unfold draw_svc in H. destruct (d_svc (dr s)); inversion H. reflexivity. Qed.
Lemma iro_draw_unif : iro draw_unif. Proof. intros s a s' H. unfold draw_unif in H. destruct (d_unif (dr s)); inversion H. reflexivity. Qed.
Lemma iro_draw_ren : iro draw_ren. Proof. intros s a s' H. unfold draw_ren in H. destruct (d_ren (dr s)); inversion H. reflexivity. Qed.
Lemma iro_draw_cct : iro draw_cct. Proof. intros s a s' H. unfold draw_cct in H. destruct (d_cct (dr s)); inversion H. reflexivity. Qed.
Lemma iro_mapM {A B} (f : A -> M B) l : (forall a, iro (f a)) -> iro (mapM f l).
Proof. intros Hf. induction l as [|a r IH]; cbn [mapM]; [apply iro_ret|]. apply iro_bind; [apply Hf|]. intros b. apply iro_bind; [exact IH|]. intros bs. apply iro_ret. Qed.
Lemma iro_forM {A} (f : A -> M unit) l : (forall a, iro (f a)) -> iro (forM_ l f).
Proof. intros Hf. induction l as [|a r IH]; cbn [forM_]; [apply iro_ret|]. apply iro_bind; [apply Hf|]. intros _. exact IH. Qed.
#[local] Hint Resolve iro_ret iro_fail iro_oof iro_gets iro_lift iro_get_node iro_get_ind iro_put_node iro_log_rec iro_tnow
  iro_draw_arr iro_draw_batch iro_draw_svc iro_draw_unif iro_draw_ren iro_draw_cct : irodb.
Ltac irow :=
  first
    [ solve [auto 1 with irodb nocore]
    | match goal with
      | |- iro (modify _) => apply iro_modify; intros ?; reflexivity
      | |- iro (bind _ _) => apply iro_bind; [irow|intros; irow]
      | |- iro (mapM _ _) => apply iro_mapM; intros; irow
      | |- iro (forM_ _ _) => apply iro_forM; intros; irow
      | |- iro (let _ := _ in _) => cbv zeta; irow
      | |- iro (if ?b then _ else _) => destruct b; irow
      | |- iro (match ?x with _ => _ end) => destruct x; irow
      end ].

Section IRO.
  Variable cf : config.
  Lemma iro_ncfg_of j : iro (ncfg_of cf j). Proof. apply iro_lift. Qed.
  Lemma iro_upd_node j f : iro (upd_node j f). Proof. unfold upd_node. irow. Qed.
  #[local] Hint Resolve iro_ncfg_of iro_upd_node : irodb.
  Lemma iro_choice_uniform {A} (l : list A) : iro (choice_uniform l). Proof. unfold choice_uniform. irow. Qed.
  Lemma iro_choice_weighted den Pw : iro (choice_weighted den Pw). Proof. unfold choice_weighted. irow. Qed.
  #[local] Hint Resolve iro_choice_uniform iro_choice_weighted : irodb.
  Lemma iro_choose_next_customer j : iro (choose_next_customer cf j). Proof. unfold choose_next_customer. irow. Qed.
  Lemma iro_upd_server j sid f : iro (upd_server j sid f). Proof. unfold upd_server. irow. Qed.
  Lemma iro_find_next_class_change j : iro (find_next_class_change j). Proof. unfold find_next_class_change. irow. Qed.
  Lemma iro_cct_loop : forall row b best bc, iro (cct_loop row b best bc).
  Proof. induction row as [|h r IH]; intros b best bc; cbn [cct_loop]; [apply iro_ret|]. destruct h; [|apply IH]. apply iro_bind; [apply iro_draw_cct|]. intros t. destruct (date_lt (Some t) best); apply IH. Qed.
  Lemma iro_stime_num x : iro (stime_num x). Proof. unfold stime_num. irow. Qed.
  #[local] Hint Resolve iro_choose_next_customer iro_upd_server iro_find_next_class_change iro_cct_loop iro_stime_num : irodb.
  Lemma iro_set_next_end j sid d : iro (set_next_end j sid d). Proof. unfold set_next_end. irow. Qed.
  Lemma iro_kill_server j sid : iro (kill_server j sid). Proof. unfold kill_server. irow. Qed.
  Lemma iro_valid_dest d : iro (valid_dest d). Proof. unfold valid_dest. irow. Qed.
  Lemma iro_jsq_loop lb : forall ds best acc, iro (jsq_loop lb ds best acc).
  Proof. induction ds as [|d r IH]; intros best acc; cbn [jsq_loop]; [apply iro_ret|]. apply iro_bind; [apply iro_get_node|]. intros nd. cbv zeta. destruct (date_eqb _ _); [apply IH|]. destruct (date_lt _ _); apply IH. Qed.
  #[local] Hint Resolve iro_set_next_end iro_kill_server iro_valid_dest iro_jsq_loop : irodb.
  Lemma iro_jsq_next lb ds o : iro (jsq_next lb ds o). Proof. unfold jsq_next. irow. Qed.
  Lemma iro_get_cyc c j : iro (get_cyc c j). Proof. unfold get_cyc. irow. Qed.
  Lemma iro_bump_cyc c j : iro (bump_cyc c j).
  Proof. unfold bump_cyc. apply iro_modify. intros s. destruct (nthZ (cyc s) c) as [row|]; [|reflexivity]. destruct (nthZ row (j - 1)); reflexivity. Qed.
  #[local] Hint Resolve iro_jsq_next iro_get_cyc iro_bump_cyc : irodb.
  Lemma iro_node_router_next r c j : iro (node_router_next r c j). Proof. unfold node_router_next. irow. Qed.
  Lemma iro_get_reneging_date j i : iro (get_reneging_date cf j i). Proof. unfold get_reneging_date. irow. Qed.
  Lemma iro_preempt_victim j i : iro (preempt_victim cf j i). Proof. unfold preempt_victim. irow. Qed.
  Lemma iro_decide_between l : iro (decide_between l). Proof. unfold decide_between. irow. Qed.
  Lemma iro_has_space d : iro (has_space cf d). Proof. unfold has_space. irow. Qed.
  Lemma iro_keyed l : iro (keyed l). Proof. unfold keyed. irow. Qed.
  #[local] Hint Resolve iro_node_router_next iro_get_reneging_date iro_preempt_victim iro_decide_between iro_has_space iro_keyed : irodb.
  Lemma iro_sort_interrupted j : iro (sort_interrupted_individuals j). Proof. unfold sort_interrupted_individuals. irow. Qed.
  Lemma iro_add_new_servers : forall k j, iro (add_new_servers k j).
  Proof. induction k as [|k IH]; intros j; cbn [add_new_servers]; [apply iro_ret|]. apply iro_bind; [apply iro_tnow|intros t]. apply iro_bind; [apply iro_upd_node|intros _; apply IH]. Qed.
  Lemma iro_find_next_event_date : iro find_next_event_date.
  Proof. unfold find_next_event_date. apply iro_modify. intros s. destruct (find_min_dates 1 (a_dates (arr s)) (None, 0, 0)) as [[d j] c]. reflexivity. Qed.
  Lemma iro_sys_population : iro sys_population. Proof. unfold sys_population. irow. Qed.
  Lemma iro_route_of i c : iro (route_of cf i c). Proof. unfold route_of. irow. Qed.
  Lemma iro_find_next_active_node : iro find_next_active_node. Proof. unfold find_next_active_node. irow. Qed.
  Lemma iro_update_next_event_date j : iro (update_next_event_date cf j). Proof. unfold update_next_event_date. irow. Qed.
  Lemma iro_update_all : forall js, iro (update_all cf js).
  Proof. induction js as [|j r IH]; cbn [update_all]; [apply iro_ret|]. apply iro_bind; [apply iro_update_next_event_date|]. intros _. exact IH. Qed.
  #[local] Hint Resolve iro_sort_interrupted iro_add_new_servers iro_find_next_event_date iro_sys_population iro_route_of iro_find_next_active_node
    iro_update_next_event_date iro_update_all : irodb.

  (* ---- ss ---- *)
  Lemma ss_weak K {A} (m : M A) : ss [] m -> ss K m.
  Proof. intros H s a s' _ E. eapply H; [intros x []|exact E]. Qed.
  Lemma ss_iro K {A} (m : M A) : iro m -> ss K m.
  Proof. intros H s a s' _ E. apply St0_inds. eapply H; eauto. Qed.
  Lemma ss_bind_iro K {A B} (m : M A) (f : A -> M B) : iro m -> (forall a, ss K (f a)) -> ss K (bind m f).
  Proof. intros Hm Hf s b s' HK H. minv H a s1 E. pose proof (Hm _ _ _ E) as Ei. eapply St0_trans; [apply St0_inds; exact Ei|]. eapply Hf; [|exact H]. intros x Hx. rewrite Ei. apply HK, Hx. Qed.
  Lemma ss_bind_get K {B} i (f : ind -> M B) : (forall x, ss (x :: K) (f x)) -> ss K (bind (get_ind i) f).
  Proof.
    intros Hf s b s' HK H. minv H x s1 E. apply get_ind_inv in E as [-> Hx]. eapply Hf; [|exact H].
    intros y [<- | Hy]; [rewrite (Order2.find_ind_id _ _ _ Hx); exact Hx|apply HK, Hy].
  Qed.
  Lemma ss_bind K {A B} (m : M A) (f : A -> M B) : ss K m -> (forall a, ss [] (f a)) -> ss K (bind m f).
  Proof. intros Hm Hf s b s' HK H. minv H a s1 E. eapply St0_trans; [eapply Hm; eauto|]. eapply Hf; [intros x []|exact H]. Qed.
  Lemma ss_put_ind K x' : (i_sst x' = None \/ exists x, In x K /\ i_id x' = i_id x /\ i_sst x' = i_sst x) -> ss K (put_ind x').
  Proof.
    intros Hs s a s' HK H. apply modify_inv in H. subst s'. intros i y Hy t Ht. cbn in Hy. rewrite Order2.find_put_ind in Hy.
    destruct (i =? i_id x') eqn:E; [|eauto]. apply Z.eqb_eq in E. injection Hy as <-.
    destruct Hs as [Hn | (x & Hin & Hid & Hsst)]; [congruence|]. exists x. split; [rewrite E, Hid; apply HK, Hin|congruence].
  Qed.
  Lemma ss_upd_ind K i f : (forall x, i_id (f x) = i_id x /\ (i_sst (f x) = None \/ i_sst (f x) = i_sst x)) -> ss K (upd_ind i f).
  Proof.
    intros Hf. unfold upd_ind. apply ss_bind_get. intros x. destruct (Hf x) as [H1 H2]. apply ss_put_ind.
    destruct H2 as [H2 | H2]; [left; exact H2|right; exists x; split; [left; reflexivity|auto]].
  Qed.
  Lemma ss_mapM {A B} (f : A -> M B) l : (forall a, ss [] (f a)) -> ss [] (mapM f l).
  Proof. intros Hf. induction l as [|a r IH]; cbn [mapM]; [apply ss_iro, iro_ret|]. apply ss_bind; [apply Hf|]. intros b. apply ss_bind; [exact IH|]. intros bs. apply ss_iro, iro_ret. Qed.
  Lemma ss_forM {A} (f : A -> M unit) l : (forall a, ss [] (f a)) -> ss [] (forM_ l f).
  Proof. intros Hf. induction l as [|a r IH]; cbn [forM_]; [apply ss_iro, iro_ret|]. apply ss_bind; [apply Hf|]. intros _. exact IH. Qed.

  Ltac ssput :=
    first [ left; reflexivity
          | right; eexists; split; [first [left; reflexivity | right; left; reflexivity | right; right; left; reflexivity]|split; reflexivity] ].
  Ltac ss1 :=
    first
      [ solve [apply ss_weak; auto 1 with ssdb nocore]
      | solve [apply ss_iro; irow]
      | match goal with
        | |- ss _ (bind (get_ind _) _) => apply ss_bind_get; intros ?
        | |- ss _ (bind _ _) => first [apply ss_bind_iro; [solve [irow]|intros] | apply ss_bind; [|intros]]
        | |- ss _ (put_ind _) => solve [apply ss_put_ind; ssput]
        | |- ss _ (upd_ind _ _) => solve [apply ss_upd_ind; intros ?; cbn; split; [reflexivity|first [left; reflexivity|right; reflexivity]]]
        | |- ss _ (let _ := _ in _) => cbv zeta
        | |- ss _ (if ?b then _ else _) => destruct b
        | |- ss _ (match ?x with _ => _ end) => destruct x
        end ].
  Ltac ssw := repeat ss1.

  Lemma ss_decide_class_change j i : ss [] (decide_class_change cf j i). Proof. unfold decide_class_change. ssw. Qed.
  Lemma ss_reset_class_change j i : ss [] (reset_class_change cf j i). Proof. unfold reset_class_change. ssw. Qed.
  Lemma ss_gstap i : ss [] (give_service_time_after_preemption i). Proof. unfold give_service_time_after_preemption. ssw. Qed.
  #[local] Hint Resolve ss_decide_class_change ss_reset_class_change ss_gstap : ssdb.
  Lemma ss_giast i : ss [] (give_individual_a_service_time i). Proof. unfold give_individual_a_service_time. ssw. Qed.
  Lemma ss_attach_server j sid i : ss [] (attach_server j sid i). Proof. unfold attach_server. ssw. Qed.
  Lemma ss_detatch_server j sid i : ss [] (detatch_server j sid i). Proof. unfold detatch_server. ssw. Qed.
  Lemma ss_bump_rec i : ss [] (bump_rec i). Proof. unfold bump_rec. ssw. Qed.
  #[local] Hint Resolve ss_giast ss_attach_server ss_detatch_server ss_bump_rec : ssdb.
  Lemma ss_write_individual_record j i : ss [] (write_individual_record cf j i). Proof. unfold write_individual_record. ssw. Qed.
  Lemma ss_write_interruption_record j i d : ss [] (write_interruption_record cf j i d). Proof. unfold write_interruption_record. ssw. Qed.
  Lemma ss_write_reneging_record j i : ss [] (write_reneging_record j i). Proof. unfold write_reneging_record. ssw. Qed.
  Lemma ss_write_br_record j i ty : ss [] (write_br_record j i ty). Proof. unfold write_br_record. ssw. Qed.
  Lemma ss_reset_individual_attributes i : ss [] (reset_individual_attributes i). Proof. unfold reset_individual_attributes. ssw. Qed.
  Lemma ss_next_node_for mode j i : ss [] (next_node_for cf mode j i). Proof. unfold next_node_for. ssw. Qed.
  Lemma ss_block_individual j i d : ss [] (block_individual j i d). Proof. unfold block_individual. ssw. Qed.
  Lemma ss_change_customer_class j i : ss [] (change_customer_class cf j i). Proof. unfold change_customer_class. ssw. Qed.
End IRO.

(* ---------- 3.1  the customers in service at the slotted node J; the relation kept by everything but J's slot event ---------- *)
Lemma NoDup_concat_nth {A} (ls : list (list A)) : NoDup (concat ls) -> forall a b la lb x,
  nth_error ls a = Some la -> nth_error ls b = Some lb -> In x la -> In x lb -> a = b.
Proof.
  induction ls as [|l ls IH]; intros Hnd a b la lb x Ha Hb Hxa Hxb; [destruct a; discriminate|].
  cbn [concat] in Hnd. pose proof (Conserve2.NoDup_app_left _ _ Hnd) as Hl.
  assert (Hr : NoDup (concat ls)) by (clear -Hnd; induction l as [|y l IHl]; [exact Hnd|inversion Hnd; auto]).
  assert (Hsep : forall y, In y l -> In y (concat ls) -> False).
  { clear -Hnd. induction l as [|z l IHl]; intros y Hy Hc; [destruct Hy|]. cbn in Hnd. inversion Hnd as [|? ? Hn Hd]. destruct Hy as [<- | Hy].
    - apply Hn. apply in_or_app. right. exact Hc.
    - eapply IHl; eauto. }
  destruct a as [|a], b as [|b]; cbn in Ha, Hb.
  - reflexivity.
  - injection Ha as <-. exfalso. apply (Hsep x Hxa). apply in_concat. exists lb. split; [eapply nth_error_In; eauto|exact Hxb].
  - injection Hb as <-. exfalso. apply (Hsep x Hxb). apply in_concat. exists la. split; [eapply nth_error_In; eauto|exact Hxa].
  - f_equal. eapply IH; eauto.
Qed.
Lemma first_waiting_in qs il c : In c (first_waiting qs il) -> In c (concat qs).
Proof.
  induction qs as [|q r IH]; cbn [first_waiting concat]; [intros []|]. rewrite Order2.waiting_of_filter.
  destruct (filter (Order2.iswait il) q) as [|w0 wr] eqn:E; intros H; apply in_or_app.
  - right. apply IH, H.
  - left. rewrite <- E in H. apply filter_In in H as [H _]. exact H.
Qed.
Lemma remove_first_incl i (l l' : list Z) : remove_first i l = Some l' -> forall x, In x l' -> In x l.
Proof.
  revert l'. induction l as [|h t IH]; cbn; intros l' H x Hx; [discriminate|]. destruct (h =? i).
  - injection H as <-. right. exact Hx.
  - destruct (remove_first i t) as [t'|]; cbn in H; [|discriminate]. injection H as <-. destruct Hx as [<- | Hx]; [left; reflexivity|right; eapply IH; eauto].
Qed.
Lemma concat_upd_incl (qs : list (list Z)) k (q q' : list Z) : nth_error qs k = Some q -> (forall x, In x q' -> In x q) ->
  forall x, In x (concat (upd qs k q')) -> In x (concat qs).
Proof.
  revert k. induction qs as [|h t IH]; intros [|k] Hk Hs x Hx; cbn in *; try discriminate; try (destruct Hx; fail).
  - injection Hk as ->. apply in_app_or in Hx. apply in_or_app. destruct Hx; [left; auto|right; assumption].
  - apply in_app_or in Hx. apply in_or_app. destruct Hx as [Hx | Hx]; [left; exact Hx|right; eapply IH; eauto].
Qed.
Lemma concat_upd_app (qs : list (list Z)) k (q : list Z) i : nth_error qs k = Some q ->
  forall x, In x (concat (upd qs k (q ++ [i]))) -> x = i \/ In x (concat qs).
Proof.
  revert k. induction qs as [|h t IH]; intros [|k] Hk x Hx; cbn in *; try discriminate; try (destruct Hx; fail).
  - injection Hk as ->. apply in_app_or in Hx. destruct Hx as [Hx | Hx]; [|right; apply in_or_app; right; exact Hx].
    apply in_app_or in Hx. destruct Hx as [Hx | [<- | []]]; [right; apply in_or_app; left; exact Hx|left; reflexivity].
  - apply in_app_or in Hx. destruct Hx as [Hx | Hx]; [right; apply in_or_app; left; exact Hx|].
    destruct (IH _ Hk x Hx) as [-> | H]; [left; reflexivity|right; apply in_or_app; right; exact H].
Qed.
Lemma concat_upd_in (qs : list (list Z)) k (q' : list Z) x : (k < length qs)%nat -> In x q' -> In x (concat (upd qs k q')).
Proof.
  revert k. induction qs as [|h t IH]; intros [|k] Hk Hx; cbn in *; try lia.
  - apply in_or_app. left. exact Hx.
  - apply in_or_app. right. apply IH; [lia|exact Hx].
Qed.

Section B.
  Variable cf : config.
  Variable J : Z.

  (* the customers in the queues of node j *)
  Definition qof (s : sim) (j : Z) : list Z := match nthZ (nodes s) (j - 1) with Some nd => all_individuals nd | None => [] end.
  (* customer i is at node J with service start date t *)
  Definition svc (s : sim) (i t : Z) : Prop := In i (qof s J) /\ exists x, find_ind i (inds s) = Some x /\ i_sst x = Some t.
  (* nobody's service at J has started: whoever is in service at J afterwards was so before, since the same date *)
  Definition R (s s' : sim) : Prop := forall i t, svc s' i t -> svc s i t.
  Definition Qrel (i0 : Z) (s s' : sim) : Prop := forall i t, svc s' i t -> i <> i0 /\ svc s i t.
  Definition sstNone (i : Z) (s : sim) : Prop := forall x, find_ind i (inds s) = Some x -> i_sst x = None.
  Definition G (fl : list Z) (s : sim) : Prop := Conserve2.WFx2 fl s /\ SlotInv cf s.

  Lemma R_refl s : R s s. Proof. intros i t H. exact H. Qed.
  Lemma R_trans a b c : R a b -> R b c -> R a c. Proof. intros H1 H2 i t H. apply H1, H2, H. Qed.
  Lemma Qrel_R i0 s s' : Qrel i0 s s' -> R s s'. Proof. intros H i t Hs. apply (H i t Hs). Qed.

  Lemma qof_shp s s' : Conserve2.shp s' = Conserve2.shp s -> forall j, qof s' j = qof s j.
  Proof.
    intros E j. unfold Conserve2.shp in E. injection E as E _ _ _ _. unfold qof.
    assert (H : option_map Conserve2.nshape (nthZ (nodes s') (j - 1)) = option_map Conserve2.nshape (nthZ (nodes s) (j - 1))).
    { rewrite <- !Conserve2.nthZ_map, E. reflexivity. }
    destruct (nthZ (nodes s') (j - 1)) as [nd'|], (nthZ (nodes s) (j - 1)) as [nd|]; cbn in H; try discriminate; [|reflexivity].
    injection H as _ _ Hq. unfold all_individuals. rewrite Hq. reflexivity.
  Qed.
  Lemma qids_nodes s : Conserve2.qids (Conserve2.shp s) = concat (map all_individuals (nodes s)).
  Proof. unfold Conserve2.qids, Conserve2.shp. cbn. rewrite map_map. reflexivity. Qed.
  Lemma WFx2_nodup fl s : Conserve2.WFx2 fl s -> NoDup (concat (map all_individuals (nodes s)) ++ exit_ids s ++ fl).
  Proof.
    intros (_ & _ & _ & HP & _). rewrite qids_nodes in HP. cbn in HP. eapply Permutation_NoDup; [symmetry; exact HP|apply zseq_NoDup].
  Qed.
  (* a customer is in the queues of one node only, and a customer in flight in none *)
  Lemma queues_disjoint fl s i j j' : Conserve2.WFx2 fl s -> In i (qof s j) -> In i (qof s j') -> j = j'.
  Proof.
    intros HW H1 H2. unfold qof in *. destruct (nthZ (nodes s) (j - 1)) as [nd|] eqn:E1; [|destruct H1].
    destruct (nthZ (nodes s) (j' - 1)) as [nd'|] eqn:E2; [|destruct H2]. apply nthZ_nat in E1 as [A1 B1]. apply nthZ_nat in E2 as [A2 B2].
    pose proof (Conserve2.NoDup_app_left _ _ (WFx2_nodup _ _ HW)) as Hnd.
    assert (E : Z.to_nat (j - 1) = Z.to_nat (j' - 1)).
    { eapply (NoDup_concat_nth _ Hnd); [rewrite nth_error_map, B1; reflexivity|rewrite nth_error_map, B2; reflexivity|exact H1|exact H2]. }
    lia.
  Qed.
  Lemma flight_not_queued fl s i j : Conserve2.WFx2 fl s -> In i fl -> ~ In i (qof s j).
  Proof.
    intros HW Hf Hq. unfold qof in Hq. destruct (nthZ (nodes s) (j - 1)) as [nd|] eqn:E1; [|destruct Hq]. apply nthZ_nat in E1 as [A1 B1].
    pose proof (WFx2_nodup _ _ HW) as Hnd.
    assert (Hin : In i (concat (map all_individuals (nodes s)))).
    { apply in_concat. exists (all_individuals nd). split; [apply in_map; eapply nth_error_In; eauto|exact Hq]. }
    clear -Hnd Hin Hf. induction (concat (map all_individuals (nodes s))) as [|y l IH]; [destruct Hin|].
    cbn in Hnd. inversion Hnd as [|? ? Hn Hd]. destruct Hin as [<- | Hin]; [|apply IH; assumption].
    apply Hn. apply in_or_app. right. apply in_or_app. right. exact Hf.
  Qed.

  Lemma sstNone_St0 i s s' : St0 s s' -> sstNone i s -> sstNone i s'.
  Proof.
    intros HS Hn x' Hx'. destruct (i_sst x') as [t|] eqn:E; [|reflexivity]. destruct (HS i x' Hx' t E) as (x & Hx & Ht). rewrite (Hn x Hx) in Ht. discriminate.
  Qed.
  Lemma R_simple s s' : Conserve2.shp s' = Conserve2.shp s -> St0 s s' -> R s s'.
  Proof.
    intros E HS i t [Hin (x' & Hx' & Ht)]. split; [rewrite <- (qof_shp _ _ E); exact Hin|]. destruct (HS i x' Hx' t Ht) as (x & Hx & Hxt). eauto.
  Qed.
  (* a change of the record of one customer who is not at J *)
  Lemma R_chg s s' c (P : ind -> ind -> Prop) : Conserve2.shp s' = Conserve2.shp s -> Order2.chg c P s s' -> ~ In c (qof s J) -> R s s'.
  Proof.
    intros E (_ & Hfr & _) Hc i t [Hin (x' & Hx' & Ht)]. rewrite (qof_shp _ _ E) in Hin. split; [exact Hin|].
    assert (Hne : i <> c) by (intros ->; contradiction). rewrite (Hfr i Hne) in Hx'. eauto.
  Qed.
  Lemma sstNone_chg s s' c i (P : ind -> ind -> Prop) : Order2.chg c P s s' -> i <> c -> sstNone i s -> sstNone i s'.
  Proof. intros (_ & Hfr & _) Hne Hn x Hx. rewrite (Hfr i Hne) in Hx. apply Hn, Hx. Qed.

  Lemma G_idx fl s : G fl s -> Idx s. Proof. intros [_ H]. apply (SlotInv_Idx _ _ H). Qed.
  Lemma G_shape fl {A} (m : M A) s a s' : Conserve2.presK Conserve2.KT m -> kp cf 0 0 m T -> G fl s -> m s = Ok (a, s') ->
    G fl s' /\ Conserve2.shp s' = Conserve2.shp s.
  Proof.
    intros Hp Hk [HW HI] H. pose proof (Hp _ _ _ (Conserve2.WFx2_idx _ _ HW) I H) as E. destruct (Hk _ _ _ HI H) as [HI' _].
    split; [split; [eapply Conserve2.WFx2_shape; eauto|exact HI']|exact E].
  Qed.
  Lemma G_tr fl fl' {A} (m : M A) s a s' : Conserve2.trK Conserve2.KT fl fl' m -> kp cf 0 0 m T -> G fl s -> m s = Ok (a, s') -> G fl' s'.
  Proof. intros Ht Hk [HW HI] H. destruct (Ht _ _ _ I HW H) as [HW' _]. destruct (Hk _ _ _ HI H) as [HI' _]. split; assumption. Qed.

  (* a function that moves nobody and writes no service start date *)
  Lemma simple_step fl {A} (m : M A) s a s' : Conserve2.presK Conserve2.KT m -> kp cf 0 0 m T -> ss [] m -> G fl s -> m s = Ok (a, s') ->
    G fl s' /\ R s s' /\ Conserve2.shp s' = Conserve2.shp s /\ St0 s s'.
  Proof.
    intros Hp Hk Hs HG H. destruct (G_shape _ _ _ _ _ Hp Hk HG H) as [HG' E]. assert (HS : St0 s s') by (eapply Hs; [intros x []|exact H]).
    split; [exact HG'|]. split; [apply R_simple; assumption|]. split; assumption.
  Qed.
End B.

(* ---------- 3.2  the scope of (b), and the blocks that start a service ---------- *)
(* scope of (b) for the slotted node J: no 'reroute' priority pre-emption anywhere, and no OTHER node interrupts services of
   its own accord (no pre-emptive Schedule, no other pre-emptive capacitated slots).  J itself may have any slot table. *)
Fixpoint scope_from (cf : config) (J k : Z) (l : list ncfg) : bool :=
  match l with
  | [] => true
  | nc :: r => negb (nc_preempt nc =? 4) && ((k =? J) || quiet cf k) && scope_from cf J (k + 1) r
  end.
Definition scope_b (cf : config) (J : Z) : bool :=
  (match slot_of cf J with Some _ => true | None => false end) && scope_from cf J 1 (cf_nodes cf).
Lemma scope_from_sound cf J : forall l k0, scope_from cf J k0 l = true ->
  forall k nc, nth_error l k = Some nc -> (nc_preempt nc =? 4) = false /\ (k0 + Z.of_nat k <> J -> quiet cf (k0 + Z.of_nat k) = true).
Proof.
  induction l as [|x r IH]; intros k0 H [|k] nc Hk; cbn in Hk; try discriminate; cbn [scope_from] in H;
    apply andb_prop in H as [H H3]; apply andb_prop in H as [H1 H2].
  - injection Hk as <-. split; [apply negb_true_iff, H1|]. replace (k0 + Z.of_nat 0) with k0 by lia. intros Hne.
    apply orb_prop in H2 as [H2 | H2]; [apply Z.eqb_eq in H2; contradiction|exact H2].
  - replace (k0 + Z.of_nat (S k)) with (k0 + 1 + Z.of_nat k) by lia. eapply IH; eauto.
Qed.
Lemma scope_b_sound cf J : scope_b cf J = true ->
  (exists sl, slot_of cf J = Some sl) /\ (forall k, k <> J -> quiet cf k = true) /\
  (forall k nc, nthZ (cf_nodes cf) (k - 1) = Some nc -> (nc_preempt nc =? 4) = false).
Proof.
  unfold scope_b. intros H. apply andb_prop in H as [H1 H2]. split; [destruct (slot_of cf J) as [sl|]; [eauto|discriminate]|]. split.
  - intros k Hne. unfold quiet. destruct (nthZ (cf_nodes cf) (k - 1)) as [nc|] eqn:E; [|reflexivity]. apply nthZ_nat in E as [A B].
    destruct (scope_from_sound _ _ _ _ H2 _ _ B) as [_ Q]. replace (1 + Z.of_nat (Z.to_nat (k - 1))) with k in Q by lia.
    specialize (Q Hne). unfold quiet in Q. unfold nthZ in Q. destruct (k - 1 <? 0) eqn:E0; [apply Z.ltb_lt in E0; lia|]. rewrite B in Q. exact Q.
  - intros k nc E. apply nthZ_nat in E as [A B]. apply (scope_from_sound _ _ _ _ H2 _ _ B).
Qed.

Section C.
  Variable cf : config.
  Variable J : Z.
  Hypothesis HJ : exists sl, slot_of cf J = Some sl.
  Hypothesis Hq : forall k, k <> J -> quiet cf k = true.
  Hypothesis Hp4 : forall k nc, nthZ (cf_nodes cf) (k - 1) = Some nc -> (nc_preempt nc =? 4) = false.

  Notation G := (G cf).
  Notation R := (R J).
  Notation Qrel := (Qrel J).
  Notation KT := Conserve2.KT.

  Lemma in_qof s j nd c : nthZ (nodes s) (j - 1) = Some nd -> In c (concat (n_queues nd)) -> In c (qof s j).
  Proof. intros Hn Hc. unfold qof. rewrite Hn. exact Hc. Qed.
  Lemma not_at_J fl s j c : G fl s -> j <> J -> In c (qof s j) -> ~ In c (qof s J).
  Proof. intros [HW _] Hne Hc HcJ. apply Hne. eapply queues_disjoint; eauto. Qed.
  (* node J has no servers and c = 0 *)
  Lemma J_node fl s nd : G fl s -> nthZ (nodes s) (J - 1) = Some nd -> n_servers nd = [] /\ n_c nd = Some 0.
  Proof. intros [_ HI] Hn. destruct HJ as [sl Hsl]. destruct (SlotInv_means _ _ _ _ _ HI Hn Hsl) as (_ & A & B & _). auto. Qed.
  Lemma quiet_node fl s j nd : G fl s -> j <> J -> nthZ (nodes s) (j - 1) = Some nd -> n_interrupted nd = [].
  Proof. intros [_ HI] Hne Hn. eapply quiet_means; eauto. Qed.
  Lemma flight_other fl s i c j : G fl s -> In i fl -> In c (qof s j) -> i <> c.
  Proof. intros [HW _] Hi Hc ->. exact (flight_not_queued _ _ _ _ HW Hi Hc). Qed.

  (* what every start block gives: the invariants, R, and customers in flight keep an empty service start date *)
  Definition StepOK (fl : list Z) (s s' : sim) : Prop :=
    G fl s' /\ R s s' /\ Conserve2.shp s' = Conserve2.shp s /\ (forall i, In i fl -> sstNone i s -> sstNone i s').
  Lemma StepOK_refl fl s : G fl s -> StepOK fl s s.
  Proof. intros HG. split; [exact HG|]. split; [apply R_refl|]. split; [reflexivity|auto]. Qed.
  Lemma StepOK_trans fl a b c : StepOK fl a b -> StepOK fl b c -> StepOK fl a c.
  Proof.
    intros (_ & R1 & E1 & N1) (G2 & R2 & E2 & N2). split; [exact G2|]. split; [eapply R_trans; eauto|]. split; [congruence|]. intros i Hi Hn. apply N2, N1; assumption.
  Qed.
  Lemma StepOK_simple fl {A} (m : M A) s a s' : Conserve2.presK KT m -> kp cf 0 0 m T -> ss [] m -> G fl s -> m s = Ok (a, s') -> StepOK fl s s'.
  Proof.
    intros Hp Hk Hs HG H. destruct (simple_step cf J fl m s a s' Hp Hk Hs HG H) as (A1 & A2 & A3 & A4).
    split; [exact A1|]. split; [exact A2|]. split; [exact A3|]. intros i _. apply sstNone_St0, A4.
  Qed.
  (* the record of one customer c of another node changes *)
  Lemma StepOK_chg fl {A} (m : M A) s a s' c j (P : ind -> ind -> Prop) : Conserve2.presK KT m -> kp cf 0 0 m T -> G fl s -> m s = Ok (a, s') ->
    Order2.chg c P s s' -> j <> J -> In c (qof s j) -> StepOK fl s s'.
  Proof.
    intros Hp Hk HG H Hc Hne Hin. destruct (G_shape cf fl m s a s' Hp Hk HG H) as [HG' E].
    split; [exact HG'|]. split; [eapply R_chg; [exact E|exact Hc|eapply not_at_J; eauto]|]. split; [exact E|].
    intros i Hi. eapply sstNone_chg; [exact Hc|]. exact (flight_other fl s i c j HG Hi Hin).
  Qed.

  Lemma start_fresh_OK fl j c osid cnt s u s' : G fl s -> j <> J -> In c (qof s j) -> start_fresh cf j c osid cnt s = Ok (u, s') -> StepOK fl s s'.
  Proof.
    intros HG Hne Hin H. destruct u. eapply StepOK_chg; [apply Conserve2.pk_start_fresh|apply kp_start_fresh|exact HG|exact H| |exact Hne|exact Hin].
    eapply Order2.start_fresh_spec; eauto.
  Qed.
  Lemma chosen_in s j nd d c us : nthZ (nodes s) (j - 1) = Some nd -> Order2.Chosen d (first_waiting (n_queues nd) (inds s)) us c -> In c (qof s j).
  Proof. intros Hn (Hin & _). eapply in_qof; [exact Hn|]. eapply first_waiting_in; eauto. Qed.

  Lemma serve_with_OK fl j sid s u s' : G fl s -> j <> J -> serve_with cf j sid s = Ok (u, s') -> StepOK fl s s'.
  Proof.
    intros HG Hne H. destruct u. destruct (Order2.serve_with_starts _ _ _ _ _ H) as (nd & [Hj Hn] & [(Hni & i & Hi & _)|[(Hni & Hw & ->)|(Hni & d & c & Hd & Hch & Hc)]]).
    - rewrite (quiet_node _ _ _ _ HG Hne Hn) in Hi. discriminate Hi.
    - apply StepOK_refl, HG.
    - eapply StepOK_chg; [apply Conserve2.pk_serve_with|apply kp_serve_with|exact HG|exact H|exact Hc|exact Hne|eapply chosen_in; eauto].
  Qed.
  Lemma bsip_release_OK fl j freed s u s' : G fl s -> (freed <> None -> j <> J) -> begin_service_if_possible_release cf j freed s = Ok (u, s') -> StepOK fl s s'.
  Proof.
    intros HG Hne H. destruct u. destruct (Order2.bsip_release_starts _ _ _ _ _ H) as [-> | (sid & -> & Hs)]; [apply StepOK_refl, HG|].
    eapply serve_with_OK; [exact HG|apply Hne; discriminate|exact Hs].
  Qed.
  Lemma forM_serve_OK fl j : j <> J -> forall sids s u s', G fl s -> forM_ sids (serve_with cf j) s = Ok (u, s') -> StepOK fl s s'.
  Proof.
    intros Hne. induction sids as [|sid r IH]; intros s u s' HG H; cbn [forM_] in H.
    - apply ret_inv in H as [_ ->]. apply StepOK_refl, HG.
    - minv H u1 s1 E. pose proof (serve_with_OK _ _ _ _ _ _ HG Hne E) as S1. eapply StepOK_trans; [exact S1|]. eapply IH; [apply S1|exact H].
  Qed.
  Lemma bsip_change_shift_OK fl j s u s' : G fl s -> j <> J -> begin_service_if_possible_change_shift cf j s = Ok (u, s') -> StepOK fl s s'.
  Proof.
    intros HG Hne H. unfold begin_service_if_possible_change_shift in H. minv H nd s0 E. apply get_node_inv in E as (-> & _). eapply forM_serve_OK; eauto.
  Qed.

  (* the loop of a slot of ANOTHER slotted node: it starts customers of that node only *)
  Lemma slot_start_pres j t i : Conserve2.presK KT (Order2.slot_start cf j t i).
  Proof. unfold Order2.slot_start. Conserve2.pka. Qed.
  Lemma slot_loop_OK fl j : j <> J -> forall k s u s', G fl s -> slot_loop cf k j s = Ok (u, s') -> StepOK fl s s'.
  Proof.
    intros Hne. induction k as [|k IH]; intros s u s' HG H.
    - cbn [slot_loop] in H. apply ret_inv in H as [_ ->]. apply StepOK_refl, HG.
    - rewrite Order2.slot_loop_S in H. minv H t s0 E. apply gets_inv in E as [-> ->]. minv H nd s0 E. apply get_node_inv in E as (-> & Hj & Hn).
      minv H cand s1 E1. unfold Order2.slot_pick in E1. destruct (0 <? n_nint nd).
      { minv E1 i s2 E. apply lift_inv in E as [Hi _]. rewrite (quiet_node _ _ _ _ HG Hne Hn) in Hi. discriminate Hi. }
      destruct (Order2.choose_next_customer_spec _ _ _ _ _ E1) as (nd' & [_ Hn'] & Hr). rewrite Hn in Hn'. injection Hn' as <-. cbv zeta in Hr.
      assert (S1 : StepOK fl s s1).
      { eapply StepOK_simple; [apply Conserve2.pk_choose_next_customer|apply kp_choose_next_customer|apply ss_iro, iro_choose_next_customer|exact HG|exact E1]. }
      minv H u2 s2 E2. destruct cand as [c|].
      + destruct Hr as (d & Hd & Hch & Es1). pose proof (chosen_in _ _ _ _ _ _ Hn Hch) as Hin.
        assert (Hin1 : In c (qof s1 j)) by (destruct S1 as (_ & _ & E & _); rewrite (qof_shp _ _ E); exact Hin).
        assert (S2 : StepOK fl s1 s2).
        { destruct u2. eapply StepOK_chg; [apply slot_start_pres|apply kp_slot_start|apply S1|exact E2| |exact Hne|exact Hin1].
          eapply Order2.slot_start_spec; eauto. }
        eapply StepOK_trans; [exact S1|]. eapply StepOK_trans; [exact S2|]. eapply IH; [apply S2|exact H].
      + apply ret_inv in E2 as [_ ->]. eapply StepOK_trans; [exact S1|]. eapply IH; [apply S1|exact H].
  Qed.
  (* ---------- 3.3  single writes ---------- *)
  Lemma find_del_ind_ne k l : forall i, i <> k -> find_ind i (del_ind_l k l) = find_ind i l.
  Proof.
    induction l as [|y r IH]; intros i Hne; cbn; [reflexivity|]. destruct (i_id y =? k) eqn:E.
    - apply Z.eqb_eq in E. destruct (i_id y =? i) eqn:E2; [apply Z.eqb_eq in E2; lia|reflexivity].
    - cbn. destruct (i_id y =? i); [reflexivity|apply IH, Hne].
  Qed.
  (* writing back, updated, a record that is current; the service start date is kept or erased *)
  Lemma put_ind_OK fl x0 x' s u s' : find_ind (i_id x') (inds s) = Some x0 -> i_sst x' = None \/ i_sst x' = i_sst x0 ->
    G fl s -> put_ind x' s = Ok (u, s') -> StepOK fl s s'.
  Proof.
    intros Hx Hs HG H. pose proof (Order2.find_ind_id _ _ _ Hx) as Hid.
    assert (Hss : ss [x0] (put_ind x')).
    { apply ss_put_ind. destruct Hs as [Hs | Hs]; [left; exact Hs|right; exists x0; split; [left; reflexivity|split; [congruence|exact Hs]]]. }
    assert (HS : St0 s s') by (eapply Hss; [intros y [<- | []]; rewrite Hid; exact Hx|exact H]).
    apply modify_inv in H. subst s'.
    assert (E : Conserve2.shp (s <| inds := put_ind_l x' (inds s) |>) = Conserve2.shp s).
    { unfold Conserve2.shp. cbn. f_equal. apply Conserve2.put_ind_l_ids_in. eapply Conserve2.find_ind_In; eauto. }
    destruct HG as [HW HI]. split; [split; [eapply Conserve2.WFx2_shape; eauto|eapply Inv_nodes; [|exact HI]; reflexivity]|].
    split; [apply R_simple; assumption|]. split; [exact E|]. intros i _. apply sstNone_St0, HS.
  Qed.
  (* writing a node back: the queues of the other nodes *)
  Lemma put_node_qof s nd nd' j u s1 : Idx s -> nthZ (nodes s) (j - 1) = Some nd -> n_id nd' = n_id nd -> put_node nd' s = Ok (u, s1) ->
    inds s1 = inds s /\ qof s1 j = all_individuals nd' /\ forall k, k <> j -> qof s1 k = qof s k.
  Proof.
    intros HI Hn Hid H. apply modify_inv in H. subst s1. pose proof Hn as Hn0. apply nthZ_nat in Hn0 as [H0 Hk]. pose proof (HI _ _ Hk) as Hidx.
    assert (E : n_id nd' - 1 = j - 1) by lia. split; [reflexivity|]. unfold qof. cbn. rewrite E. split.
    - rewrite (Order2.nthZ_updZ_eq _ _ _ _ Hn). reflexivity.
    - intros k Hne. rewrite Order2.nthZ_updZ_ne by lia. reflexivity.
  Qed.
  (* a node is written back with its identity, population and queues as they were *)
  Lemma put_node_OK fl s nd nd' j u s' : G fl s -> nthZ (nodes s) (j - 1) = Some nd -> Conserve2.nshape nd' = Conserve2.nshape nd -> okn cf 0 0 nd' ->
    put_node nd' s = Ok (u, s') -> StepOK fl s s' /\ inds s' = inds s.
  Proof.
    intros [HW HI] Hn Hsh Hok H. pose proof (Conserve2.get_node_okn j s nd (Conserve2.WFx2_idx _ _ HW) Hn) as [Hid Hokn].
    assert (E : Conserve2.shp s' = Conserve2.shp s).
    { pose proof (modify_inv _ _ _ _ H) as ->. eapply Conserve2.put_node_shape; eauto. }
    destruct (kp_put_node cf 0 0 nd' Hok _ _ _ HI H) as [HI' _]. apply modify_inv in H. subst s'.
    split; [|reflexivity]. split; [split; [eapply Conserve2.WFx2_shape; eauto|exact HI']|]. split; [apply R_simple; [exact E|apply St0_inds; reflexivity]|].
    split; [exact E|]. intros i _ Hs. exact Hs.
  Qed.
  Lemma reset_sstNone i s u s' : reset_individual_attributes i s = Ok (u, s') -> sstNone i s'.
  Proof.
    unfold reset_individual_attributes, upd_ind. intros H. minv H x s1 E. apply get_ind_inv in E as [-> Hx]. apply modify_inv in H. subst s'.
    intros y Hy. cbn in Hy. rewrite Order2.find_put_ind in Hy. cbn in Hy. rewrite (Order2.find_ind_id _ _ _ Hx), Z.eqb_refl in Hy. injection Hy as <-. reflexivity.
  Qed.
  Lemma exit_accept_R fl i c s u s' : G (i :: fl) s -> exit_accept i c s = Ok (u, s') -> G fl s' /\ R s s'.
  Proof.
    intros HG H. split; [eapply G_tr; [apply Conserve2.tr_exit_accept|apply kp_exit_accept|exact HG|exact H]|].
    unfold exit_accept in H. minv H u1 s1 E. apply modify_inv in E. apply modify_inv in H. subst s' s1.
    intros i' t [Hin (x' & Hx' & Ht)]. unfold qof in *. cbn in Hin, Hx'. split; [exact Hin|].
    assert (Hne : i' <> i).
    { intros ->. destruct HG as [HW _]. exact (flight_not_queued _ _ _ J HW (or_introl eq_refl) Hin). }
    rewrite (find_del_ind_ne _ _ _ Hne) in Hx'. eauto.
  Qed.
  Lemma slotted_nc j nc : nthZ (cf_nodes cf) (j - 1) = Some nc -> nc_slotted nc = false -> j <> J.
  Proof. intros Hnc Hs ->. destruct HJ as [sl Hsl]. unfold slot_of in Hsl. rewrite Hnc in Hsl. unfold nc_slotted in Hs. destruct (nc_srv nc); discriminate. Qed.

  (* ---------- 3.4  the recursive core ---------- *)
  Definition AccOK (acc : Z -> Z -> M unit) : Prop :=
    forall j i fl s s', G (i :: fl) s -> sstNone i s -> acc j i s = Ok (tt, s') -> G fl s' /\ R s s'.
  Definition RbiOK (rbi : Z -> M unit) : Prop := forall j fl s s', G fl s -> rbi j s = Ok (tt, s') -> G fl s' /\ R s s'.
  Definition RelOK (rel : Z -> Z -> Z -> bool -> M unit) : Prop :=
    forall j i d rr fl s s', G fl s -> rel j i d rr s = Ok (tt, s') -> G fl s' /\ Qrel i s s'.
  Definition PreOK (pre : Z -> Z -> Z -> M unit) : Prop :=
    forall j v i fl s s', G fl s -> j <> J -> In i (qof s j) -> pre j v i s = Ok (tt, s') -> G fl s' /\ R s s'.

  Lemma release_body_OK acc rbi : AccOK acc -> RbiOK rbi -> RelOK (Order2.release_body cf acc rbi).
  Proof.
    intros IHa IHb j i d rr fl s s' HG H. unfold Order2.release_body in H.
    minv H t s0 E. apply gets_inv in E as [-> ->]. minv H x s0 E. apply get_ind_inv in E as [-> Hx]. pose proof (Order2.find_ind_id _ _ _ Hx) as Hxid.
    minv H nd s0 E. apply get_node_inv in E as (-> & Hj & Hn). minv H nc s0 E. apply ncfg_of_inv in E as [-> Hnc].
    minv H q s0 E. apply lift_inv in E as [Hqq ->]. minv H q' s0 E. apply lift_inv in E as [Hqq' ->]. cbv zeta in H.
    set (nd1 := nd <| n_queues := updZ (n_queues nd) (i_pprio x) q' |> <| n_pop := n_pop nd - 1 |> <| n_insvc := n_insvc nd - 1 |>) in *.
    destruct HG as [HW HI]. pose proof (Conserve2.get_node_okn j s nd (Conserve2.WFx2_idx _ _ HW) Hn) as [Hid Hokn].
    destruct (Inv_get _ _ _ _ _ _ HI Hn) as (_ & _ & Hok).
    minv H u1 s1 E1.
    (* the customer leaves its queue and is in flight *)
    assert (HG1 : G (i :: fl) s1).
    { split.
      - refine (proj1 (Conserve2.trK_put_node_rm (fun sh => Conserve2.okn sh nd) fl i nd1 _ s u1 s1 Hokn HW E1)).
        intros sh Hsh. exists nd, (i_pprio x), q, q'. repeat split; assumption || reflexivity.
      - refine (proj1 (kp_put_node cf 0 0 nd1 _ s u1 s1 HI E1)). eapply okn_same; [exact Hok|reflexivity..]. }
    destruct (put_node_qof s nd nd1 j u1 s1 (SlotInv_Idx _ _ HI) Hn eq_refl E1) as (Ei1 & Eq1 & Eo1).
    assert (R1 : R s s1).
    { intros i' t' [Hin (y & Hy & Ht)]. rewrite Ei1 in Hy. split; [|eauto]. destruct (Z.eq_dec J j) as [->|Hne]; [|rewrite <- (Eo1 J Hne); exact Hin].
      rewrite Eq1 in Hin. unfold qof. rewrite Hn. unfold all_individuals in *. cbn in Hin. apply nthZ_nat in Hqq as [Hp0 Hqq].
      unfold updZ in Hin. destruct (i_pprio x <? 0); [exact Hin|]. eapply concat_upd_incl; [exact Hqq|eapply remove_first_incl; exact Hqq'|exact Hin]. }
    assert (HnoJ : ~ In i (qof s1 J)) by (destruct HG1 as [HW1 _]; exact (flight_not_queued _ _ _ J HW1 (or_introl eq_refl))).
    (* its record is stamped, written out, its server given back, its attributes reset *)
    minv H u2 s2 E2. assert (S2 : StepOK (i :: fl) s1 s2).
    { match type of E2 with put_ind ?y _ = _ => eapply (put_ind_OK (i :: fl) x y) end; [cbn; rewrite Hxid, Ei1; exact Hx|right; reflexivity|exact HG1|exact E2]. }
    minv H u3 s3 E3. assert (S3 : StepOK (i :: fl) s2 s3).
    { destruct rr; [apply ret_inv in E3 as [_ ->]; apply StepOK_refl, S2|].
      eapply StepOK_simple; [apply Conserve2.pk_write_individual_record|apply kp_write_individual_record|apply ss_write_individual_record|apply S2|exact E3]. }
    minv H freed s4 E4. assert (S4 : StepOK (i :: fl) s3 s4 /\ (freed <> None -> j <> J)).
    { destruct (negb (nd_inf nd) && negb (nc_slotted nc)) eqn:Ec.
      - minv E4 x1 s0 E. apply get_ind_inv in E as [-> _]. minv E4 sid s0 E. apply lift_inv in E as [_ ->]. minv E4 u4 s0 E. apply ret_inv in E4 as [-> ->].
        split; [|intros _; apply andb_prop in Ec as [_ Ec]; apply negb_true_iff in Ec; eapply slotted_nc; eauto].
        eapply StepOK_simple; [apply Conserve2.pk_detatch_server|apply kp_detatch_server|apply ss_detatch_server|apply S3|exact E].
      - apply ret_inv in E4 as [-> ->]. split; [apply StepOK_refl, S3|intros F; congruence]. }
    destruct S4 as [S4 Hfreed].
    minv H u5 s5 E5. assert (S5 : StepOK (i :: fl) s4 s5).
    { destruct (nc_slotted nc); [|apply ret_inv in E5 as [_ ->]; apply StepOK_refl, S4].
      match type of E5 with ?m _ = _ => eapply (StepOK_simple (i :: fl) m) end; [apply Conserve2.pk_upd_ind; intros; reflexivity|apply kp_upd_ind| |apply S4|exact E5].
      apply ss_upd_ind. intros y. cbn. auto. }
    minv H u6 s6 E6. assert (S6 : StepOK (i :: fl) s5 s6).
    { eapply StepOK_simple; [apply Conserve2.pk_reset_individual_attributes|apply kp_reset_individual_attributes|apply ss_reset_individual_attributes|apply S5|exact E6]. }
    pose proof (reset_sstNone _ _ _ _ E6) as N6.
    (* the freed server takes its next customer (a customer of this node, not the one in flight) *)
    minv H u7 s7 E7. assert (S7 : StepOK (i :: fl) s6 s7).
    { destruct rr; [apply ret_inv in E7 as [_ ->]; apply StepOK_refl, S6|]. eapply bsip_release_OK; [apply S6|exact Hfreed|exact E7]. }
    assert (N7 : sstNone i s7) by (destruct S7 as (_ & _ & _ & N); apply N; [left; reflexivity|exact N6]).
    (* the customer goes on *)
    minv H u8 s8 E8. destruct u8. assert (S8 : G fl s8 /\ R s7 s8).
    { destruct (d =? -1); [eapply exit_accept_R; [apply S7|exact E8]|eapply IHa; [apply S7|exact N7|exact E8]]. }
    assert (S9 : G fl s' /\ R s8 s').
    { destruct rr; [apply ret_inv in H as [_ ->]; split; [apply S8|apply R_refl]|]. eapply IHb; [apply S8|exact H]. }
    split; [apply S9|]. intros i' t' Hs.
    assert (H1 : svc J s1 i' t').
    { destruct S2 as (_ & R2 & _), S3 as (_ & R3 & _), S4 as (_ & R4 & _), S5 as (_ & R5 & _), S6 as (_ & R6 & _), S7 as (_ & R7 & _), S8 as (_ & R8), S9 as (_ & R9).
      apply R2, R3, R4, R5, R6, R7, R8, R9, Hs. }
    split; [intros ->; apply HnoJ, H1|apply R1, H1].
  Qed.

  (* release_blocked_individual: the blocked customer may have been interrupted while blocked; its old service start date is
     written back and it leaves at once (Qrel of the release that follows forgets that customer) *)
  Lemma rbi_body_OK rel : RelOK rel -> RbiOK (Order2.rbi_body cf rel).
  Proof.
    intros IHr j fl s s' HG H. unfold Order2.rbi_body in H.
    minv H nd s0 E. apply get_node_inv in E as (-> & Hj & Hn). minv H nc s0 E. apply ncfg_of_inv in E as [-> Hnc].
    destruct ((0 <? n_lenbq nd) && _); [|apply ret_inv in H as [_ ->]; split; [exact HG|apply R_refl]].
    destruct (n_bq nd) as [|[from y] rest]; [discriminate H|].
    minv H fnd s0 E. apply get_node_inv in E as (-> & Hjf & Hnf).
    minv H u0 s0 E. assert (s0 = s) as -> by (destruct (memZ y (all_individuals fnd)); [apply ret_inv in E as [_ ->]; reflexivity|discriminate E]). clear E.
    destruct (Inv_get _ _ _ _ _ _ (proj2 HG) Hn) as (_ & _ & Hok).
    minv H u1 s1 E1.
    assert (S1' : StepOK fl s s1 /\ inds s1 = inds s).
    { match type of E1 with put_node ?n _ = _ => eapply (put_node_OK fl s nd n j) end; [exact HG|exact Hn|reflexivity|eapply okn_same; [exact Hok|reflexivity..]|exact E1]. }
    destruct S1' as [S1 Ei1].
    minv H yx s2 E. apply get_ind_inv in E as [-> Hyx]. pose proof (Order2.find_ind_id _ _ _ Hyx) as Hyid.
    minv H u2 s2 E2. destruct u2.
    (* the block that restores the interrupted blocked customer: only y's record changes *)
    assert (S2 : G fl s2 /\ Conserve2.shp s2 = Conserve2.shp s1 /\ forall i', i' <> y -> find_ind i' (inds s2) = find_ind i' (inds s1)).
    { destruct (i_interrupted yx); [|apply ret_inv in E2 as [_ ->]; split; [apply S1|split; reflexivity]].
      minv E2 os s0 E. apply lift_inv in E as [_ ->]. minv E2 ot s0 E. apply lift_inv in E as [_ ->].
      minv E2 u3 s3 E3. pose proof (modify_inv _ _ _ _ E3) as Es3.
      assert (E3s : Conserve2.shp s3 = Conserve2.shp s1).
      { rewrite Es3. unfold Conserve2.shp. cbn. f_equal. apply Conserve2.put_ind_l_ids_in. cbn. rewrite Hyid. eapply Conserve2.find_ind_In; eauto. }
      assert (HG3 : G fl s3).
      { destruct S1 as ([HW1 HI1] & _). split; [eapply Conserve2.WFx2_shape; eauto|rewrite Es3; eapply Inv_nodes; [|exact HI1]; reflexivity]. }
      minv E2 fnd2 s0 E. apply get_node_inv in E as (-> & _ & Hnf2). minv E2 l' s0 E. apply lift_inv in E as [Hl' ->].
      destruct (Inv_get _ _ _ _ _ _ (proj2 HG3) Hnf2) as (_ & _ & Hok2).
      assert (S4' : StepOK fl s3 s2 /\ inds s2 = inds s3).
      { match type of E2 with put_node ?n _ = _ => eapply (put_node_OK fl s3 fnd2 n from) end;
          [exact HG3|exact Hnf2|reflexivity|apply okn_interrupted; [exact Hok2|eapply remove_first_keeps_nil; eauto]|exact E2]. }
      destruct S4' as [S4 Ei4].
      split; [apply S4|]. split; [destruct S4 as (_ & _ & E4 & _); congruence|].
      intros i' Hne. rewrite Ei4, Es3. cbn. rewrite Order2.find_put_ind. cbn. rewrite Hyid. destruct (i' =? y) eqn:E; [apply Z.eqb_eq in E; contradiction|reflexivity]. }
    destruct S2 as (HG2 & E2s & Hfr). destruct (IHr _ _ _ _ _ _ _ HG2 H) as [HG' HQ]. split; [exact HG'|].
    eapply R_trans; [apply S1|]. intros i' t' Hs. destruct (HQ i' t' Hs) as [Hne [Hin (x' & Hx' & Ht')]].
    split; [rewrite <- (qof_shp _ _ E2s); exact Hin|]. rewrite (Hfr i' Hne) in Hx'. eauto.
  Qed.

  (* accept, from the choice on *)
  Lemma accept_tail_OK pre j i nc fl s s' : PreOK pre -> G fl s -> In i (qof s j) -> Order2.accept_tail cf pre j i nc s = Ok (tt, s') -> G fl s' /\ R s s'.
  Proof.
    intros IHp HG Hin H. unfold Order2.accept_tail in H. minv H nd1 s0 E. apply get_node_inv in E as (-> & Hj & Hn). cbv zeta in H.
    assert (HnJ : n_c nd1 <> Some 0 \/ n_servers nd1 <> [] -> j <> J).
    { intros Hc ->. destruct (J_node _ _ _ HG Hn) as [A B]. destruct Hc as [Hc | Hc]; contradiction. }
    minv H cand s1 E1. unfold nd_inf in *. destruct (n_c nd1) as [cc|] eqn:Ec.
    - (* finitely many servers: the discipline's choice *)
      destruct (Order2.choose_next_customer_spec _ _ _ _ _ E1) as (nd' & [_ Hn'] & Hr). rewrite Hn in Hn'. injection Hn' as <-. cbv zeta in Hr.
      assert (S1 : StepOK fl s s1).
      { eapply StepOK_simple; [apply Conserve2.pk_choose_next_customer|apply kp_choose_next_customer|apply ss_iro, iro_choose_next_customer|exact HG|exact E1]. }
      destruct cand as [c|]; [|apply ret_inv in H as [_ ->]; split; [apply S1|apply S1]].
      destruct Hr as (d & _ & Hch & _). pose proof (chosen_in _ _ _ _ _ _ Hn Hch) as Hc.
      assert (Hc1 : In c (qof s1 j)) by (destruct S1 as (_ & _ & E & _); rewrite (qof_shp _ _ E); exact Hc).
      minv H cx s2 E2. apply get_ind_inv in E2 as [-> _].
      destruct (find_free_server_for (nc_spf nc) (i_cls cx) (n_servers nd1)) as [sv|] eqn:Ef.
      + assert (Hne : j <> J).
        { apply HnJ. right. destruct (Sched2.find_free_server_for_spec _ _ _ _ Ef) as [Hsv _]. intros F. rewrite F in Hsv. destruct Hsv. }
        pose proof (start_fresh_OK fl j c _ _ _ _ _ (proj1 S1) Hne Hc1 H) as S2. split; [apply S2|]. eapply R_trans; [apply S1|apply S2].
      + cbn [numo] in H. destruct (0 <? cc) eqn:E0; [|apply ret_inv in H as [_ ->]; split; [apply S1|apply S1]].
        assert (Hne : j <> J) by (apply HnJ; left; intros F; injection F as ->; discriminate E0).
        minv H v s2 E2. pose proof (Order2.preempt_victim_pure _ _ _ _ _ _ E2) as ->.
        destruct v as [vi|]; [|apply ret_inv in H as [_ ->]; split; [apply S1|apply S1]].
        destruct (IHp _ _ _ _ _ _ (proj1 S1) Hne Hc1 H) as [HG' R2]. split; [exact HG'|]. eapply R_trans; [apply S1|exact R2].
    - (* infinitely many servers: the arriving customer itself *)
      apply ret_inv in E1 as [-> ->]. assert (Hne : j <> J) by (apply HnJ; left; discriminate).
      pose proof (start_fresh_OK fl j i _ _ _ _ _ HG Hne Hin H) as S2. split; apply S2.
  Qed.

  Lemma accept_body_OK pre : PreOK pre -> AccOK (Order2.accept_body cf pre).
  Proof.
    intros IHp j i fl s s' HG HN H. unfold Order2.accept_body in H.
    minv H x s0 E. apply get_ind_inv in E as [-> Hx]. pose proof (Order2.find_ind_id _ _ _ Hx) as Hxid.
    minv H nd s0 E. apply get_node_inv in E as (-> & Hj & Hn).
    minv H u1 s1 E1. assert (S1 : StepOK (i :: fl) s s1).
    { match type of E1 with put_ind ?y _ = _ => eapply (put_ind_OK (i :: fl) x y) end; [cbn; rewrite Hxid; exact Hx|right; reflexivity|exact HG|exact E1]. }
    pose proof (modify_inv _ _ _ _ E1) as Es1.
    assert (N1 : sstNone i s1) by (destruct S1 as (_ & _ & _ & N); apply N; [left; reflexivity|exact HN]).
    minv H qs s0 E. apply lift_inv in E as [Hqs ->]. destruct (nthZ (n_queues nd) (i_prio x)) as [q|] eqn:Eq; [|discriminate Hqs]. injection Hqs as <-.
    assert (Hn1 : nthZ (nodes s1) (j - 1) = Some nd) by (rewrite Es1; exact Hn).
    destruct S1 as ([HW1 HI1] & R1 & _ & _).
    pose proof (Conserve2.get_node_okn j s1 nd (Conserve2.WFx2_idx _ _ HW1) Hn1) as [Hid Hokn].
    destruct (Inv_get _ _ _ _ _ _ HI1 Hn1) as (_ & _ & Hok).
    set (nd2 := nd <| n_queues := updZ (n_queues nd) (i_prio x) (q ++ [i]) |> <| n_pop := n_pop nd + 1 |>) in *.
    minv H u2 s2 E2.
    (* the customer in flight joins the tail of its queue *)
    assert (HG2 : G fl s2).
    { split.
      - refine (proj1 (Conserve2.trK_put_node_add (fun sh => Conserve2.okn sh nd) fl i nd2 _ s1 u2 s2 Hokn HW1 E2)).
        intros sh Hsh. exists nd, (i_prio x), q. repeat split; assumption || reflexivity.
      - refine (proj1 (kp_put_node cf 0 0 nd2 _ s1 u2 s2 HI1 E2)). eapply okn_same; [exact Hok|reflexivity..]. }
    destruct (put_node_qof s1 nd nd2 j u2 s2 (SlotInv_Idx _ _ HI1) Hn1 eq_refl E2) as (Ei2 & Eq2 & Eo2).
    assert (Hq2 : forall z, In z (qof s2 j) -> z = i \/ In z (qof s1 j)).
    { intros z Hz. rewrite Eq2 in Hz. unfold qof. rewrite Hn1. unfold all_individuals in *. cbn in Hz. pose proof Eq as Eq'. apply nthZ_nat in Eq' as [Hp0 Eq'].
      unfold updZ in Hz. destruct (i_prio x <? 0) eqn:Ep; [apply Z.ltb_lt in Ep; lia|]. eapply concat_upd_app; eauto. }
    assert (Hi2 : In i (qof s2 j)).
    { rewrite Eq2. unfold all_individuals. cbn. pose proof Eq as Eq'. apply nthZ_nat in Eq' as [Hp0 Eq']. unfold updZ. destruct (i_prio x <? 0) eqn:Ep; [apply Z.ltb_lt in Ep; lia|].
      apply concat_upd_in; [apply nth_error_Some; congruence|apply in_or_app; right; left; reflexivity]. }
    assert (R2 : R s1 s2).
    { intros i' t' [Hin (y & Hy & Ht)]. rewrite Ei2 in Hy. destruct (Z.eq_dec J j) as [->|Hne]; [|split; [rewrite <- (Eo2 J Hne); exact Hin|eauto]].
      destruct (Hq2 i' Hin) as [-> | Hin1]; [rewrite (N1 y Hy) in Ht; discriminate Ht|]. split; [exact Hin1|eauto]. }
    (* stamps, reneging date, class-change clock *)
    minv H t s0 E. apply gets_inv in E as [-> ->].
    minv H u3 s3 E3. assert (S3 : StepOK fl s2 s3).
    { match type of E3 with ?m _ = _ => eapply (StepOK_simple fl m) end; [apply Conserve2.pk_upd_ind; intros; reflexivity|apply kp_upd_ind| |exact HG2|exact E3].
      apply ss_upd_ind. intros y. cbn. auto. }
    minv H nc s0 E. apply ncfg_of_inv in E as [-> Hnc].
    minv H u4 s4 E4. assert (S4 : StepOK fl s3 s4).
    { destruct (nc_reneging nc); [|apply ret_inv in E4 as [_ ->]; apply StepOK_refl, S3].
      minv E4 rd s0 E. assert (Sa : StepOK fl s3 s0).
      { eapply StepOK_simple; [apply Conserve2.pk_get_reneging_date|apply kp_get_reneging_date|apply ss_iro, iro_get_reneging_date|apply S3|exact E]. }
      eapply StepOK_trans; [exact Sa|].
      match type of E4 with ?m _ = _ => eapply (StepOK_simple fl m) end; [apply Conserve2.pk_upd_ind; intros; reflexivity|apply kp_upd_ind| |apply Sa|exact E4].
      apply ss_upd_ind. intros y. cbn. auto. }
    minv H u5 s5 E5. assert (S5 : StepOK fl s4 s5).
    { eapply StepOK_simple; [apply Conserve2.pk_decide_class_change|apply kp_decide_class_change|apply ss_decide_class_change|apply S4|exact E5]. }
    assert (Hi5 : In i (qof s5 j)).
    { destruct S3 as (_ & _ & E3s & _), S4 as (_ & _ & E4s & _), S5 as (_ & _ & E5s & _). rewrite (qof_shp _ _ E5s), (qof_shp _ _ E4s), (qof_shp _ _ E3s). exact Hi2. }
    destruct (accept_tail_OK pre j i nc fl s5 s' IHp (proj1 S5) Hi5 H) as [HG' R6]. split; [exact HG'|].
    destruct S3 as (_ & R3 & _), S4 as (_ & R4 & _), S5 as (_ & R5 & _).
    eapply R_trans; [exact R1|]. eapply R_trans; [exact R2|]. eapply R_trans; [exact R3|]. eapply R_trans; [exact R4|]. eapply R_trans; [exact R5|exact R6].
  Qed.

  (* pre-emption without rerouting: the victim loses its service start date, the pre-emptor (a customer of that node) starts *)
  Lemma victim_part_pres rel j v t vx nc : (nc_preempt nc =? 4) = false -> Conserve2.presK KT (Order2.preempt_victim_part cf rel j v t vx nc).
  Proof. intros E. unfold Order2.preempt_victim_part. rewrite E. Conserve2.pka. Qed.
  Lemma preempt_body_OK rel : PreOK (Order2.preempt_body cf rel).
  Proof.
    intros j v i fl s s' HG Hne Hin H. unfold Order2.preempt_body in H.
    minv H t s0 E. apply gets_inv in E as [-> ->]. minv H vx s0 E. apply get_ind_inv in E as [-> Hvx]. pose proof (Order2.find_ind_id _ _ _ Hvx) as Hvid.
    minv H nc s0 E. apply ncfg_of_inv in E as [-> Hnc]. pose proof (Hp4 _ _ Hnc) as E4.
    minv H u0 s0 E0. assert (S0 : StepOK fl s s0).
    { match type of E0 with put_ind ?y _ = _ => eapply (put_ind_OK fl vx y) end; [cbn; rewrite Hvid; exact Hvx|right; reflexivity|exact HG|exact E0]. }
    minv H u1 s1 E1. assert (S1 : StepOK fl s0 s1).
    { unfold Order2.preempt_victim_part in E1. rewrite E4 in E1.
      minv E1 a1 sa Ea. assert (Sa : StepOK fl s0 sa).
      { eapply StepOK_simple; [apply Conserve2.pk_write_interruption_record|apply kp_write_interruption_record|apply ss_write_interruption_record|apply S0|exact Ea]. }
      minv E1 a2 sb Eb. assert (Sb : StepOK fl sa sb).
      { match type of Eb with ?m _ = _ => eapply (StepOK_simple fl m) end; [apply Conserve2.pk_upd_ind; intros; reflexivity|apply kp_upd_ind| |apply Sa|exact Eb].
        apply ss_upd_ind. intros y. cbn. auto. }
      minv E1 sid sc E. apply lift_inv in E as [_ ->]. minv E1 a3 sc Ec. assert (Sc : StepOK fl sb sc).
      { eapply StepOK_simple; [apply Conserve2.pk_detatch_server|apply kp_detatch_server|apply ss_detatch_server|apply Sb|exact Ec]. }
      assert (Sd : StepOK fl sc s1).
      { eapply StepOK_simple; [apply Conserve2.pk_decide_class_change|apply kp_decide_class_change|apply ss_decide_class_change|apply Sc|exact E1]. }
      eapply StepOK_trans; [exact Sa|]. eapply StepOK_trans; [exact Sb|]. eapply StepOK_trans; [exact Sc|exact Sd]. }
    minv H sid s2 E. apply lift_inv in E as [_ ->].
    assert (Hin1 : In i (qof s1 j)).
    { destruct S0 as (_ & _ & Ea & _), S1 as (_ & _ & Eb & _). rewrite (qof_shp _ _ Eb), (qof_shp _ _ Ea). exact Hin. }
    assert (S2 : StepOK fl s1 s').
    { eapply StepOK_chg; [apply Conserve2.pk_start_preemptor|apply kp_start_preemptor|apply S1|exact H| |exact Hne|exact Hin1]. eapply Order2.start_preemptor_spec; eauto. }
    split; [apply S2|]. eapply R_trans; [apply S0|]. eapply R_trans; [apply S1|apply S2].
  Qed.

  Lemma core_OK : forall f, RelOK (release cf f) /\ RbiOK (release_blocked_individual cf f) /\ AccOK (accept cf f) /\ PreOK (preempt cf f).
  Proof.
    induction f as [|f (IHr & IHb & IHa & IHp)].
    - split; [|split; [|split]]; intros until s'; intros; discriminate.
    - split; [|split; [|split]].
      + intros j i d rr. rewrite Order2.release_S. apply release_body_OK; assumption.
      + intros j. rewrite Order2.rbi_S. apply rbi_body_OK; assumption.
      + intros j i. rewrite Order2.accept_S. apply accept_body_OK; assumption.
      + intros j v i. rewrite Order2.preempt_S. apply preempt_body_OK.
  Qed.
End C.

(* ---------- 3.5  the event functions ---------- *)
Section D.
  Variable cf : config.
  Variable J : Z.
  Hypothesis HJ : exists sl, slot_of cf J = Some sl.
  Hypothesis Hq : forall k, k <> J -> quiet cf k = true.
  Hypothesis Hp4 : forall k nc, nthZ (cf_nodes cf) (k - 1) = Some nc -> (nc_preempt nc =? 4) = false.

  Notation G := (G cf).
  Notation R := (R J).
  Notation StepOK := (StepOK cf J).
  Notation KT := Conserve2.KT.

  (* simple: moves nobody, keeps the node invariant, writes no service start date *)
  Definition sm {A} (m : M A) : Prop := Conserve2.presK KT m /\ kp cf 0 0 m T /\ ss [] m.
  Lemma bind_sm fl {A B} (m : M A) (f : A -> M B) s b s' : sm m -> G fl s -> bind m f s = Ok (b, s') ->
    exists a s1, m s = Ok (a, s1) /\ StepOK fl s s1 /\ f a s1 = Ok (b, s').
  Proof.
    intros (H1 & H2 & H3) HG H. minv H a s1 E. exists a, s1. split; [reflexivity|]. split; [|exact H].
    eapply StepOK_simple; eauto.
  Qed.
  Lemma sm_iro {A} (m : M A) : Conserve2.presK KT m -> kp cf 0 0 m T -> iro m -> sm m.
  Proof. intros H1 H2 H3. split; [exact H1|]. split; [exact H2|apply ss_iro, H3]. Qed.
  Lemma sm_ret {A} (a : A) : sm (ret a). Proof. apply sm_iro; [apply Conserve2.pk_ret|apply kp_ret|apply iro_ret]. Qed.
  Lemma sm_gets {A} (f : sim -> A) : sm (gets f). Proof. apply sm_iro; [apply Conserve2.pk_gets|apply kp_gets|apply iro_gets]. Qed.
  Lemma sm_lift {A} e (o : option A) : sm (lift e o). Proof. apply sm_iro; [apply Conserve2.pk_lift|apply kp_lift|apply iro_lift]. Qed.
  Lemma sm_get_node j : sm (get_node j). Proof. apply sm_iro; [apply Conserve2.pk_get_node|apply kp_get_node|apply iro_get_node]. Qed.
  Lemma sm_get_ind i : sm (get_ind i). Proof. apply sm_iro; [apply Conserve2.pk_get_ind|apply kp_get_ind|apply iro_get_ind]. Qed.
  Lemma sm_ncfg_of j : sm (ncfg_of cf j). Proof. apply sm_lift. Qed.
  Lemma sm_draw_batch : sm draw_batch. Proof. apply sm_iro; [apply Conserve2.pk_draw_batch|apply kp_draw_batch|apply iro_draw_batch]. Qed.
  Lemma sm_draw_arr : sm draw_arr. Proof. apply sm_iro; [apply Conserve2.pk_draw_arr|apply kp_draw_arr|apply iro_draw_arr]. Qed.
  Lemma sm_draw_unif : sm draw_unif. Proof. apply sm_iro; [apply Conserve2.pk_draw_unif|apply kp_draw_unif|apply iro_draw_unif]. Qed.
  Lemma sm_modify f : (forall s, Conserve2.shp (f s) = Conserve2.shp s) -> (forall s, nodes (f s) = nodes s) -> (forall s, inds (f s) = inds s) -> sm (modify f).
  Proof. intros H1 H2 H3. apply sm_iro; [apply Conserve2.pk_modify, H1|apply kp_modify, H2|apply iro_modify, H3]. Qed.
  Lemma sm_decide_between l : sm (decide_between l).
  Proof. apply sm_iro; [apply Conserve2.pk_decide_between|apply kp_decide_between|apply iro_decide_between]. Qed.
  Lemma sm_change_customer_class j i : sm (change_customer_class cf j i).
  Proof. split; [apply Conserve2.pk_change_customer_class|split; [apply kp_change_customer_class|apply ss_change_customer_class]]. Qed.
  Lemma sm_next_node_for mode j i : sm (next_node_for cf mode j i).
  Proof. split; [apply Conserve2.pk_next_node_for|split; [apply kp_next_node_for|apply ss_next_node_for]]. Qed.
  Lemma sm_upd_ind i f : (forall x, i_id (f x) = i_id x /\ (i_sst (f x) = None \/ i_sst (f x) = i_sst x)) -> sm (upd_ind i f).
  Proof. intros Hf. split; [apply Conserve2.pk_upd_ind; intros x; apply Hf|split; [apply kp_upd_ind|apply ss_upd_ind, Hf]]. Qed.
  Lemma sm_set_next_end j sid d : sm (set_next_end j sid d).
  Proof. apply sm_iro; [apply Conserve2.pk_set_next_end|apply kp_set_next_end|apply iro_set_next_end]. Qed.
  Lemma sm_has_space d : sm (has_space cf d). Proof. apply sm_iro; [apply Conserve2.pk_has_space|apply kp_has_space|apply iro_has_space]. Qed.
  Lemma sm_block_individual j i d : sm (block_individual j i d).
  Proof. split; [apply Conserve2.pk_block_individual|split; [apply kp_block_individual|apply ss_block_individual]]. Qed.
  Lemma sm_reset_class_change j i : sm (reset_class_change cf j i).
  Proof. split; [apply Conserve2.pk_reset_class_change|split; [apply kp_reset_class_change|apply ss_reset_class_change]]. Qed.
  Lemma sm_decide_class_change j i : sm (decide_class_change cf j i).
  Proof. split; [apply Conserve2.pk_decide_class_change|split; [apply kp_decide_class_change|apply ss_decide_class_change]]. Qed.
  Lemma sm_write_reneging_record j i : sm (write_reneging_record j i).
  Proof. split; [apply Conserve2.pk_write_reneging_record|split; [apply kp_write_reneging_record|apply ss_write_reneging_record]]. Qed.
  Lemma sm_write_br_record j i ty : sm (write_br_record j i ty).
  Proof. split; [apply Conserve2.pk_write_br_record|split; [apply kp_write_br_record|apply ss_write_br_record]]. Qed.
  Lemma sm_reset_individual_attributes i : sm (reset_individual_attributes i).
  Proof. split; [apply Conserve2.pk_reset_individual_attributes|split; [apply kp_reset_individual_attributes|apply ss_reset_individual_attributes]]. Qed.
  Lemma sm_sys_population : sm sys_population. Proof. apply sm_iro; [apply Conserve2.pk_sys_population|apply kp_sys_population|apply iro_sys_population]. Qed.
  Lemma sm_route_of i c : sm (route_of cf i c). Proof. apply sm_iro; [apply Conserve2.pk_route_of|apply kp_route_of|apply iro_route_of]. Qed.
  Lemma sm_find_next_event_date : sm find_next_event_date.
  Proof. apply sm_iro; [apply Conserve2.pk_find_next_event_date|apply kp_find_next_event_date|apply iro_find_next_event_date]. Qed.
  Lemma sm_update_all js : sm (update_all cf js). Proof. apply sm_iro; [apply Conserve2.pk_update_all|apply kp_update_all|apply iro_update_all]. Qed.
  Lemma sm_find_next_active_node : sm find_next_active_node.
  Proof. apply sm_iro; [apply Conserve2.pk_find_next_active_node|apply kp_find_next_active_node|apply iro_find_next_active_node]. Qed.
  Lemma sm_add_new_servers k j : slot_of cf j = None -> sm (add_new_servers k j).
  Proof. intros Hs. apply sm_iro; [apply Conserve2.pk_add_new_servers|apply kp_add_new_servers, Hs|apply iro_add_new_servers]. Qed.
  Lemma sm_take_off_nonpre f j : sm (take_servers_off_duty cf f j 0).
  Proof.
    apply sm_iro; [|apply kp_take_off_nonpre|]; unfold take_servers_off_duty; change (0 =? 0) with true; cbv iota.
    - Conserve2.pka.
    - apply iro_bind; [apply iro_get_node|intros nd]. apply iro_bind; [destruct (n_next_date nd); [apply iro_ret|apply iro_fail]|intros se].
      apply iro_bind; [apply iro_put_node|intros _]. apply iro_forM. intros sid. apply iro_kill_server.
  Qed.
  Lemma sm_upd_node_spos j : j <> 0 -> sm (upd_node j (fun n' => n' <| n_spos := n_spos n' + 1 |>)).
  Proof. intros Hj. apply sm_iro; [apply Conserve2.pk_upd_node; intros; reflexivity|apply kp_upd_node_spos, Hj|apply iro_upd_node]. Qed.

  Notation core := (core_OK cf J HJ Hq Hp4).
  Lemma release_OK f j i d rr fl s s' : G fl s -> release cf f j i d rr s = Ok (tt, s') -> G fl s' /\ R s s'.
  Proof. intros HG H. destruct (proj1 (core f) j i d rr fl s s' HG H) as [A B]. split; [exact A|eapply Qrel_R; eauto]. Qed.
  Lemma rbi_OK f j fl s s' : G fl s -> release_blocked_individual cf f j s = Ok (tt, s') -> G fl s' /\ R s s'.
  Proof. apply (proj1 (proj2 (core f))). Qed.
  Lemma accept_OK f j i fl s s' : G (i :: fl) s -> sstNone i s -> accept cf f j i s = Ok (tt, s') -> G fl s' /\ R s s'.
  Proof. apply (proj1 (proj2 (proj2 (core f)))). Qed.
  Lemma preempt_OK f j v i fl s s' : G fl s -> j <> J -> In i (qof s j) -> preempt cf f j v i s = Ok (tt, s') -> G fl s' /\ R s s'.
  Proof. apply (proj2 (proj2 (proj2 (core f)))). Qed.

  (* SA : StepOK fl s0 scur is the running summary; ssm peels one simple step off H : (m ;; f) scur = Ok _ *)
  Ltac ssm H lem a :=
    match goal with
    | SA : Slot2.StepOK _ _ ?fl ?s0 ?sc |- _ =>
      match type of H with
      | bind _ _ sc = Ok _ =>
        let H' := fresh "H" in let S1 := fresh "S" in let SA' := fresh "SA" in let s1 := fresh "s" in
        destruct (bind_sm fl _ _ _ _ _ lem (proj1 SA) H) as (a & s1 & _ & S1 & H');
        pose proof (StepOK_trans cf J _ _ _ _ SA S1) as SA'; clear SA S1 H; rename SA' into SA; rename H' into H
      end
    end.
  Ltac sstart HG := let SA := fresh "SA" in pose proof (StepOK_refl cf J _ _ HG) as SA.
  Lemma finish_OK fl fl' s sc s' : StepOK fl s sc -> G fl' s' /\ R sc s' -> G fl' s' /\ R s s'.
  Proof. intros (_ & R1 & _) [A B]. split; [exact A|eapply R_trans; eauto]. Qed.
  Lemma finish_OK0 fl s s' : StepOK fl s s' -> G fl s' /\ R s s'.
  Proof. intros (A & B & _). auto. Qed.

  Lemma finish_service_OK j s u s' : G [] s -> finish_service cf j s = Ok (u, s') -> G [] s' /\ R s s'.
  Proof.
    intros HG H. destruct u. unfold finish_service in H. sstart HG.
    ssm H (sm_get_node j) nd. ssm H (sm_decide_between (n_next_inds nd)) i. ssm H (sm_change_customer_class j i) u1. ssm H (sm_next_node_for 0 j i) d.
    ssm H (sm_upd_ind i (fun x => x <| i_dest := Some d |>) ltac:(intros x; cbn; auto)) u2. ssm H (sm_ncfg_of j) nc.
    match type of H with bind ?m _ _ = _ => assert (Hm : sm m) end.
    { destruct (negb (nd_inf nd) && negb (nc_slotted nc)); [|apply sm_ret].
      split; [Conserve2.pka|split; [|]].
      - apply kp_bind_T; [apply kp_get_ind|intros x]. apply kp_bind_T; [apply kp_lift|intros sid]. apply kp_set_next_end.
      - apply ss_bind_get. intros x. apply ss_bind_iro; [apply iro_lift|intros sid]. apply ss_iro, iro_set_next_end. }
    ssm H Hm u3. ssm H (sm_has_space d) space.
    destruct space.
    - ssm H (sm_gets fuel_of) fl. eapply finish_OK; [exact SA|]. eapply release_OK; [apply SA|exact H].
    - eapply finish_OK; [exact SA|]. apply finish_OK0. eapply StepOK_simple; [apply sm_block_individual..|apply SA|exact H].
  Qed.
  Ltac ssmE H lem a E :=
    match goal with
    | SA : Slot2.StepOK _ _ ?fl ?s0 ?sc |- _ =>
      match type of H with
      | bind _ _ sc = Ok _ =>
        let H' := fresh "H" in let S1 := fresh "S" in let SA' := fresh "SA" in let s1 := fresh "s" in
        destruct (bind_sm fl _ _ _ _ _ lem (proj1 SA) H) as (a & s1 & E & S1 & H');
        pose proof (StepOK_trans cf J _ _ _ _ SA S1) as SA'; clear SA S1 H; rename SA' into SA; rename H' into H
      end
    end.

  (* a customer is taken out of its queue: it is in flight, and no longer counted at J *)
  Lemma put_node_rm_OK fl s nd j i p q q' nd1 u s1 : G fl s -> nthZ (nodes s) (j - 1) = Some nd ->
    nthZ (n_queues nd) p = Some q -> remove_first i q = Some q' ->
    n_id nd1 = n_id nd -> n_pop nd1 = n_pop nd - 1 -> n_queues nd1 = updZ (n_queues nd) p q' -> okn cf 0 0 nd1 ->
    put_node nd1 s = Ok (u, s1) -> G (i :: fl) s1 /\ R s s1 /\ inds s1 = inds s /\ ~ In i (qof s1 J).
  Proof.
    intros [HW HI] Hn Hqq Hqq' Hid1 Hpop1 Hqs1 Hok1 E1.
    pose proof (Conserve2.get_node_okn j s nd (Conserve2.WFx2_idx _ _ HW) Hn) as [Hid Hokn].
    assert (HG1 : G (i :: fl) s1).
    { split.
      - refine (proj1 (Conserve2.trK_put_node_rm (fun sh => Conserve2.okn sh nd) fl i nd1 _ s u s1 Hokn HW E1)).
        intros sh Hsh. exists nd, p, q, q'. repeat split; assumption.
      - exact (proj1 (kp_put_node cf 0 0 nd1 Hok1 s u s1 HI E1)). }
    destruct (put_node_qof s nd nd1 j u s1 (SlotInv_Idx _ _ HI) Hn Hid1 E1) as (Ei1 & Eq1 & Eo1).
    split; [exact HG1|]. split; [|split; [exact Ei1|destruct HG1 as [HW1 _]; exact (flight_not_queued _ _ _ J HW1 (or_introl eq_refl))]].
    intros i' t' [Hin (y & Hy & Ht)]. rewrite Ei1 in Hy. split; [|eauto]. destruct (Z.eq_dec J j) as [->|Hne]; [|rewrite <- (Eo1 J Hne); exact Hin].
    rewrite Eq1 in Hin. unfold qof. rewrite Hn. unfold all_individuals in *. rewrite Hqs1 in Hin. apply nthZ_nat in Hqq as [Hp0 Hqq].
    unfold updZ in Hin. destruct (p <? 0); [exact Hin|]. eapply concat_upd_incl; [exact Hqq|eapply remove_first_incl; exact Hqq'|exact Hin].
  Qed.

  Lemma renege_OK j s u s' : G [] s -> renege cf j s = Ok (u, s') -> G [] s' /\ R s s'.
  Proof.
    intros HG H. destruct u. unfold renege in H. sstart HG.
    ssm H (sm_gets now) t. ssm H (sm_get_node j) nd. ssm H (sm_decide_between (n_next_inds nd)) i.
    ssm H (sm_upd_ind i (fun x => x <| i_ren := XI |>) ltac:(intros x; cbn; auto)) u1. ssm H (sm_next_node_for 2 j i) d.
    minv H x sq E. apply get_ind_inv in E as [-> Hx]. minv H nd1 sq E. apply get_node_inv in E as (-> & Hj & Hn1).
    minv H q sq E. apply lift_inv in E as [Hqq ->]. minv H q' sq E. apply lift_inv in E as [Hqq' ->]. cbv zeta in H.
    destruct (Inv_get _ _ _ _ _ _ (proj2 (proj1 SA)) Hn1) as (_ & _ & Hok).
    minv H u2 sp E1.
    match goal with SA : Slot2.StepOK _ _ _ _ ?sc |- _ =>
      assert (Hrm : G [i] sp /\ R sc sp /\ inds sp = inds sc /\ ~ In i (qof sp J));
      [ match type of E1 with put_node ?n _ = _ => eapply (put_node_rm_OK [] sc nd1 j i (i_pprio x) q q' n u2 sp) end;
        [apply SA|exact Hn1|exact Hqq|exact Hqq'|reflexivity|reflexivity|reflexivity|eapply okn_same; [exact Hok|reflexivity..]|exact E1] |]
    end.
    destruct Hrm as (HG1 & R1 & Ei1 & HnoJ).
    eapply finish_OK; [exact SA|]. clear SA. assert (SA := StepOK_refl cf J _ _ HG1).
    ssm H (sm_reset_class_change j i) u3.
    match type of H with bind (upd_ind _ ?f) _ _ = _ => ssm H (sm_upd_ind i f ltac:(intros y; cbn; auto)) u4 end.
    ssm H (sm_write_reneging_record j i) u5. ssmE H (sm_reset_individual_attributes i) u6 E6. pose proof (reset_sstNone _ _ _ _ E6) as N6.
    minv H fl0 sq E. apply gets_inv in E as [-> ->].
    minv H u8 sz E8. destruct u8.
    match goal with SA : Slot2.StepOK _ _ _ _ ?sc |- _ => assert (S8 : G [] sz /\ R sc sz) end.
    { destruct (d =? -1); [eapply exit_accept_R; [apply SA|exact E8]|eapply accept_OK; [apply SA|exact N6|exact E8]]. }
    destruct (rbi_OK _ _ _ _ _ (proj1 S8) H) as [HG' R9]. split; [exact HG'|].
    eapply R_trans; [exact R1|]. eapply R_trans; [apply SA|]. eapply R_trans; [apply S8|exact R9].
  Qed.

  (* class change while waiting: a move between the queues of one node, possibly a pre-emption (never at J: c = 0 there) *)
  Lemma ccww_OK j s u s' : G [] s -> change_customer_class_while_waiting cf j s = Ok (u, s') -> G [] s' /\ R s s'.
  Proof.
    intros HG H. destruct u. rewrite Order2.ccww_unfold in H.
    minv H nd sq E. apply get_node_inv in E as (-> & Hj & Hn). minv H i sq E. apply lift_inv in E as [_ ->].
    minv H x sq E. apply get_ind_inv in E as [-> Hx]. pose proof (Order2.find_ind_id _ _ _ Hx) as Hxid.
    minv H ncl sq E. apply lift_inv in E as [_ ->]. minv H p' sq E. apply lift_inv in E as [_ ->].
    minv H u1 s1 E1. assert (S1 : StepOK [] s s1).
    { match type of E1 with put_ind ?y _ = _ => eapply (put_ind_OK cf J [] x y) end; [cbn; rewrite Hxid; exact Hx|right; reflexivity|exact HG|exact E1]. }
    pose proof (modify_inv _ _ _ _ E1) as Es1. assert (Hn1 : nthZ (nodes s1) (j - 1) = Some nd) by (rewrite Es1; exact Hn).
    minv H u2 s2 E2. destruct u2.
    assert (S2 : G [] s2 /\ R s1 s2).
    { destruct (negb (p' =? i_pprio x)); [|apply ret_inv in E2 as [_ ->]; split; [apply S1|apply R_refl]]. unfold Order2.ccww_move in E2.
      minv E2 q sq E. apply lift_inv in E as [Hqq ->]. minv E2 q' sq E. apply lift_inv in E as [Hqq' ->]. cbv zeta in E2.
      minv E2 qn sq E. apply lift_inv in E as [Hqn ->]. minv E2 u3 s3 E3.
      destruct S1 as ([HW1 HI1] & _).
      pose proof (Conserve2.get_node_okn j s1 nd (Conserve2.WFx2_idx _ _ HW1) Hn1) as [Hid Hokn].
      destruct (Inv_get _ _ _ _ _ _ HI1 Hn1) as (_ & _ & Hok).
      set (qs2 := updZ (updZ (n_queues nd) (i_pprio x) q') p' (qn ++ [i])) in *.
      destruct (Conserve2.nthZ_nat _ _ _ Hqq) as (kp & Hkp & Hqk). destruct (Conserve2.nthZ_nat _ _ _ Hqn) as (kn & Hkn & Hqnk).
      assert (HG3 : G [] s3).
      { split.
        - refine (proj1 (Conserve2.trK_put_node_mv (fun sh => Conserve2.okn sh nd) [] (nd <| n_queues := qs2 |>) _ s1 u3 s3 Hokn HW1 E3)).
          intros sh Hsh. exists nd. split; [exact Hsh|]. split; [reflexivity|]. split; [reflexivity|]. cbn. unfold qs2.
          rewrite Hkp, Conserve2.updZ_nat in *. rewrite Hkn, Conserve2.updZ_nat in *.
          rewrite (Conserve2.concat_upd_add _ _ _ (qn ++ [i]) i Hqnk); [|rewrite Permutation_app_comm; reflexivity].
          eapply Conserve2.concat_upd_rm; [exact Hqk|]. apply Conserve2.remove_first_perm. exact Hqq'.
        - refine (proj1 (kp_put_node cf 0 0 _ _ s1 u3 s3 HI1 E3)). eapply okn_same; [exact Hok|reflexivity..]. }
      assert (Hidq : n_id (nd <| n_queues := qs2 |>) = n_id nd) by reflexivity.
      destruct (put_node_qof s1 nd (nd <| n_queues := qs2 |>) j u3 s3 (SlotInv_Idx _ _ HI1) Hn1 Hidq E3) as (Ei3 & Eq3 & Eo3).
      assert (Hmem : forall z, In z (qof s3 j) -> In z (qof s1 j)).
      { intros z Hz. rewrite Eq3 in Hz. unfold qof. rewrite Hn1. unfold all_individuals in *. cbn in Hz. unfold qs2 in Hz.
        rewrite Hkp, Conserve2.updZ_nat in *. rewrite Hkn, Conserve2.updZ_nat in *.
        destruct (concat_upd_app _ _ _ _ Hqnk z Hz) as [-> | Hz1].
        - apply in_concat. exists q. split; [eapply nth_error_In; eauto|]. clear -Hqq'. revert q' Hqq'. induction q as [|h t IH]; cbn; intros q' H; [discriminate|].
          destruct (h =? i) eqn:E; [apply Z.eqb_eq in E; left; exact E|]. destruct (remove_first i t) as [t'|]; cbn in H; [|discriminate]. right. eapply IH; eauto.
        - eapply concat_upd_incl; [exact Hqk|eapply remove_first_incl; exact Hqq'|exact Hz1]. }
      assert (R3 : R s1 s3).
      { intros i' t' [Hin (y & Hy & Ht)]. rewrite Ei3 in Hy. split; [|eauto]. destruct (Z.eq_dec J j) as [->|Hne]; [apply Hmem, Hin|rewrite <- (Eo3 J Hne); exact Hin]. }
      assert (Hi3 : In i (qof s3 j)).
      { rewrite Eq3. unfold all_individuals. cbn. unfold qs2. rewrite Hkn, Conserve2.updZ_nat. apply concat_upd_in; [apply nth_error_Some; congruence|apply in_or_app; right; left; reflexivity]. }
      unfold Order2.ccww_preempt in E2. destruct (negb (nd_inf nd) && (0 <? numo (n_c nd))) eqn:Ec; [|apply ret_inv in E2 as [_ ->]; split; [exact HG3|exact R3]].
      assert (Hne : j <> J).
      { intros ->. destruct (J_node cf J HJ [] s nd HG Hn) as [_ Hc]. rewrite Hc in Ec. cbn in Ec. rewrite andb_false_r in Ec. discriminate Ec. }
      minv E2 v sq E. pose proof (Order2.preempt_victim_pure _ _ _ _ _ _ E) as ->. destruct v as [vi|]; [|apply ret_inv in E2 as [_ ->]; split; [exact HG3|exact R3]].
      minv E2 fl sq E0. apply gets_inv in E0 as [-> ->].
      destruct (preempt_OK _ _ _ _ _ _ _ HG3 Hne Hi3 E2) as [HG4 R4]. split; [exact HG4|eapply R_trans; eauto]. }
    unfold Order2.ccww_finish in H. assert (SA := StepOK_refl cf J _ _ (proj1 S2)).
    match type of H with bind (upd_ind _ ?f) _ _ = _ => ssm H (sm_upd_ind i f ltac:(intros y; cbn; auto)) u4 end.
    match goal with SA : Slot2.StepOK _ _ _ _ ?sc |- _ => assert (S5 : StepOK [] sc s') by (eapply StepOK_simple; [apply sm_decide_class_change..|apply SA|exact H]) end.
    split; [apply S5|]. eapply R_trans; [apply S1|]. eapply R_trans; [apply S2|]. eapply R_trans; [apply SA|apply S5].
  Qed.

  (* a shift change at another node (non-pre-emptive by the scope): the servers that come on duty take waiting customers of that node *)
  Lemma change_shift_OK j s u s' : G [] s -> change_shift cf j s = Ok (u, s') -> G [] s' /\ R s s'.
  Proof.
    intros HG H. destruct u. unfold change_shift in H.
    minv H nc sq E. apply ncfg_of_inv in E as [-> Hnc]. destruct (nc_srv nc) as [|sc|sl] eqn:Es; try discriminate H.
    pose proof (slot_of_sched cf _ _ _ Hnc Es) as Hno.
    assert (Hne : j <> J) by (intros ->; destruct HJ as [sl Hsl]; congruence).
    assert (Hpre : sc_pre sc = 0) by (pose proof (Hq j Hne) as Q; rewrite (quiet_sched cf _ _ _ Hnc Es) in Q; apply Z.eqb_eq, Q).
    minv H nd sq E. apply get_node_inv in E as (-> & Hj & Hn).
    minv H u0 sq E. assert (sq = s) as -> by (destruct (sc_b sc); [discriminate E|apply ret_inv in E as [_ ->]; reflexivity]). clear E. cbv zeta in H.
    destruct (Inv_get _ _ _ _ _ _ (proj2 HG) Hn) as (Hid & _ & Hok).
    minv H u1 s1 E1.
    assert (S1' : StepOK [] s s1 /\ inds s1 = inds s).
    { match type of E1 with put_node ?n _ = _ => eapply (put_node_OK cf J [] s nd n j) end; [exact HG|exact Hn|reflexivity| |exact E1].
      apply okn_sched_put; [lia|reflexivity|rewrite Hid; exact Hno|exact Hok]. }
    destruct S1' as [SA _].
    ssm H (sm_gets fuel_of) fl. rewrite Hpre in H. ssm H (sm_take_off_nonpre fl j) u2. match type of H with bind (add_new_servers ?k _) _ _ = _ => ssm H (sm_add_new_servers k j Hno) u3 end.
    eapply finish_OK; [exact SA|]. apply finish_OK0. eapply bsip_change_shift_OK; eauto. apply SA.
  Qed.

  (* the slot event of ANOTHER slotted node *)
  Lemma slotted_other_OK j s u s' : j <> J -> G [] s -> slotted_service cf j s = Ok (u, s') -> G [] s' /\ R s s'.
  Proof.
    intros Hne HG H. destruct u. rewrite Order2.slotted_unfold in H.
    minv H nc sq E. apply ncfg_of_inv in E as [-> Hnc]. destruct (nc_srv nc) as [|sc|sl] eqn:Es; try discriminate H.
    minv H nd sq E. apply get_node_inv in E as (-> & Hj & Hn).
    minv H u0 sq E. assert (sq = s) as -> by (destruct (sl_b sl); [discriminate E|apply ret_inv in E as [_ ->]; reflexivity]). clear E.
    minv H u1 s1 E1. unfold Order2.slot_interrupt in E1.
    pose proof (Hq j Hne) as Q. rewrite (quiet_slot cf _ _ _ Hnc Es) in Q. apply negb_true_iff in Q. rewrite Q in E1. apply ret_inv in E1 as [_ ->].
    minv H u2 s2 E2. assert (SA : StepOK [] s s2) by (eapply slot_loop_OK; eauto).
    assert (Hm : sm (upd_node j (fun n' => n' <| n_spos := n_spos n' + 1 |>))) by (apply sm_upd_node_spos; lia).
    eapply finish_OK; [exact SA|]. apply finish_OK0. eapply StepOK_simple; [apply Hm..|apply SA|exact H].
  Qed.

  Lemma node_have_event_OK k s u s' : G [] s -> (k = J -> forall nd, nthZ (nodes s) (k - 1) = Some nd -> n_next_type nd <> 4) ->
    node_have_event cf k s = Ok (u, s') -> G [] s' /\ R s s'.
  Proof.
    intros HG Hty H. unfold node_have_event in H. minv H nd sq E. apply get_node_inv in E as (-> & Hj & Hn).
    destruct (n_next_type nd =? 0); [eapply finish_service_OK; eauto|].
    destruct (n_next_type nd =? 1); [eapply change_shift_OK; eauto|].
    destruct (n_next_type nd =? 2); [eapply renege_OK; eauto|].
    destruct (n_next_type nd =? 3); [eapply ccww_OK; eauto|].
    destruct (n_next_type nd =? 4) eqn:E4; [|apply ret_inv in H as [_ ->]; split; [exact HG|apply R_refl]].
    apply Z.eqb_eq in E4. eapply slotted_other_OK; [|exact HG|exact H]. intros ->. exact (Hty eq_refl nd Hn E4).
  Qed.

  (* ---- arrivals ---- *)
  Lemma send_individual_OK j i fl s u s' : G (i :: fl) s -> sstNone i s -> send_individual cf j i s = Ok (u, s') -> G fl s' /\ R s s'.
  Proof.
    intros HG HN H. destruct u. unfold send_individual in H. sstart HG.
    match type of H with bind (modify ?f) _ _ = _ => ssm H (sm_modify f ltac:(intros; reflexivity) ltac:(intros; reflexivity) ltac:(intros; reflexivity)) u1 end.
    ssm H (sm_gets fuel_of) fuel.
    eapply finish_OK; [exact SA|]. eapply accept_OK; [apply SA| |exact H]. destruct SA as (_ & _ & _ & N). apply N; [left; reflexivity|exact HN].
  Qed.
  Lemma reject_OK j i ty fl s u s' : G (i :: fl) s -> (write_br_record j i ty ;;; exit_accept i false) s = Ok (u, s') -> G fl s' /\ R s s'.
  Proof.
    intros HG H. sstart HG. ssm H (sm_write_br_record j i ty) u1. eapply finish_OK; [exact SA|]. eapply exit_accept_R; [apply SA|exact H].
  Qed.
  Lemma release_individual_OK j i fl s u s' : G (i :: fl) s -> sstNone i s -> release_individual cf j i s = Ok (u, s') -> G fl s' /\ R s s'.
  Proof.
    intros HG HN H. unfold release_individual in H. sstart HG.
    ssm H (sm_get_ind i) x. ssm H (sm_get_node j) nd. ssm H (sm_ncfg_of j) nc. ssm H sm_sys_population sp. cbv zeta in H.
    assert (HNc : forall sc, StepOK (i :: fl) s sc -> sstNone i sc) by (intros sc (_ & _ & _ & N); apply N; [left; reflexivity|exact HN]).
    match type of H with (if ?b then _ else _) _ = _ => destruct b end.
    - eapply finish_OK; [exact SA|]. eapply reject_OK; [apply SA|exact H].
    - ssm H (sm_lift E_Config (nthZ (cf_baulk cf) (i_cls x))) tabs. ssm H (sm_lift E_Config (nthZ tabs (j - 1))) tab.
      destruct tab as [tb|].
      + ssm H sm_draw_unif uu. cbv zeta in H. match type of H with (if ?b then _ else _) _ = _ => destruct b end.
        * eapply finish_OK; [exact SA|]. eapply reject_OK; [apply SA|exact H].
        * eapply finish_OK; [exact SA|]. eapply send_individual_OK; [apply SA|apply HNc, SA|exact H].
      + eapply finish_OK; [exact SA|]. eapply send_individual_OK; [apply SA|apply HNc, SA|exact H].
  Qed.

  Lemma batch_loop_OK : forall n j c p s u s', G [] s -> batch_loop cf n j c p s = Ok (u, s') -> G [] s' /\ R s s'.
  Proof.
    induction n as [|n IH]; intros j c p s u s' HG H; cbn [batch_loop] in H; [apply ret_inv in H as [_ ->]; split; [exact HG|apply R_refl]|].
    destruct HG as [HW HI].
    minv H u0 s1 E0. apply modify_inv in E0. minv H i sq E. apply gets_inv in E as [-> ->].
    minv H u1 sq E. assert (sq = s1) as -> by (destruct (1 <=? j); [apply ret_inv in E as [_ ->]; reflexivity|discriminate E]). clear E.
    minv H nd0 sq E. apply get_node_inv in E as (-> & _).
    minv H r s3 E3.
    assert (HI1 : Conserve2.sh_idx (Conserve2.shp s1)) by (subst s1; exact (Conserve2.WFx2_idx _ _ HW)).
    pose proof (Conserve2.pk_route_of cf _ c s1 r s3 HI1 I E3) as Hs3. pose proof (iro_route_of cf _ _ _ _ _ E3) as Hi3. pose proof (Order2.ro_route_of cf _ _ _ _ _ E3) as Hn3.
    minv H u2 s4 E4. apply modify_inv in E4.
    set (i := a_created (arr s1)) in *. set (x := new_ind i c p r) in *.
    assert (Ei : i = a_created (arr s) + 1) by (subst i s1; reflexivity).
    destruct (Conserve2.spawn_spec s s3 x HW) as [W4 _]; [rewrite Hs3; subst s1; reflexivity|subst x; cbn; rewrite Ei; reflexivity|].
    change (i_id x) with i in W4. rewrite <- E4 in W4.
    assert (HG4 : G [i] s4).
    { split; [exact W4|]. eapply Inv_nodes; [|exact HI]. rewrite E4. cbn. rewrite Hn3. subst s1. reflexivity. }
    assert (R4 : R s s4).
    { intros i' t' [Hin (y & Hy & Ht)]. unfold qof in *. rewrite E4 in Hin, Hy. cbn in Hin, Hy. rewrite Hn3 in Hin. rewrite Order2.find_put_ind in Hy.
      change (i_id x) with i in Hy. destruct (i' =? i); [injection Hy as <-; discriminate Ht|]. rewrite Hi3 in Hy. subst s1. cbn in Hin, Hy. split; [exact Hin|eauto]. }
    assert (N4 : sstNone i s4).
    { intros y Hy. rewrite E4 in Hy. cbn in Hy. rewrite Order2.find_put_ind in Hy. change (i_id x) with i in Hy. rewrite Z.eqb_refl in Hy. injection Hy as <-. reflexivity. }
    minv H u3 s5 E5. destruct (release_individual_OK _ _ _ _ _ _ HG4 N4 E5) as [HG5 R5].
    destruct (IH _ _ _ _ _ _ HG5 H) as [HG6 R6]. split; [exact HG6|]. eapply R_trans; [exact R4|]. eapply R_trans; eauto.
  Qed.

  Lemma arrival_OK s u s' : G [] s -> arrival_have_event cf s = Ok (u, s') -> G [] s' /\ R s s'.
  Proof.
    intros HG H. unfold arrival_have_event in H. sstart HG.
    ssm H (sm_gets arr) a. cbv zeta in H. ssm H sm_draw_batch b.
    match type of H with bind ?m _ _ = _ => assert (Hm : sm m) by (destruct (b <? 0); [apply sm_iro; [apply Conserve2.pk_fail|apply kp_fail|apply iro_fail]|apply sm_ret]) end.
    ssm H Hm u1. ssm H (sm_lift E_Config (nthZ (cf_prio cf) (a_next_cls a))) p.
    minv H u2 sb Eb. match goal with SA : Slot2.StepOK _ _ _ _ ?sc |- _ => destruct (batch_loop_OK _ _ _ _ _ _ _ (proj1 SA) Eb) as [HGb Rb] end.
    eapply finish_OK; [exact SA|]. clear SA. assert (SA := StepOK_refl cf J _ _ HGb).
    ssm H sm_draw_arr ia. ssm H (sm_gets arr) a'. ssm H (sm_lift E_Config (nthZ (a_dates a') (a_next_node a - 1))) row.
    ssm H (sm_lift E_Config (nthZ row (a_next_cls a))) old.
    match type of H with bind (modify ?f) _ _ = _ => ssm H (sm_modify f ltac:(intros; reflexivity) ltac:(intros; reflexivity) ltac:(intros; reflexivity)) u3 end.
    match goal with SA : Slot2.StepOK _ _ _ _ ?sc |- _ => assert (S9 : StepOK [] sc s') by (eapply StepOK_simple; [apply sm_find_next_event_date..|apply SA|exact H]) end.
    split; [apply S9|]. eapply R_trans; [exact Rb|]. eapply R_trans; [apply SA|apply S9].
  Qed.

  (* one event that is not the slot event of J *)
  Theorem event_step_R s u s' : G [] s -> (next_active s = J -> forall nd, nthZ (nodes s) (J - 1) = Some nd -> n_next_type nd <> 4) ->
    event_step cf s = Ok (u, s') -> G [] s' /\ R s s'.
  Proof.
    intros HG Hty H. unfold event_step in H. sstart HG.
    match type of H with bind (modify ?f) _ _ = _ => ssmE H (sm_modify f ltac:(intros; reflexivity) ltac:(intros; reflexivity) ltac:(intros; reflexivity)) u0 E0 end.
    apply modify_inv in E0. ssmE H (sm_gets next_active) k Ek. apply gets_inv in Ek as [Ek Es1].
    minv H u1 sm1 E1.
    match goal with SA : Slot2.StepOK _ _ _ _ ?sc |- _ => assert (S1 : G [] sm1 /\ R sc sm1) end.
    { destruct (k =? 0); [eapply arrival_OK; [apply SA|exact E1]|]. eapply node_have_event_OK; [apply SA| |exact E1].
      rewrite Es1, Ek, E0. cbn. intros Ea. rewrite Ea. exact (Hty Ea). }
    pose proof (proj1 (proj2 SA)) as R0. clear SA. assert (SA := StepOK_refl cf J _ _ (proj1 S1)).
    ssm H (sm_gets nodes) ns. ssm H (sm_update_all (map n_id ns)) u2.
    match goal with SA : Slot2.StepOK _ _ _ _ ?sc |- _ => assert (S9 : StepOK [] sc s') by (eapply StepOK_simple; [apply sm_find_next_active_node..|apply SA|exact H]) end.
    split; [apply S9|]. eapply R_trans; [exact R0|]. eapply R_trans; [apply S1|]. eapply R_trans; [apply SA|apply S9].
  Qed.
End D.

(* ---------- 3.6  (b) as theorems ---------- *)
(* the next event is the slot event of node J *)
Definition slot_due_b (J : Z) (s : sim) : bool :=
  (next_active s =? J) && match nthZ (nodes s) (J - 1) with Some nd => n_next_type nd =? 4 | None => false end.
(* a run during which the slot event of J never comes up *)
Fixpoint run_between (cf : config) (J : Z) (st : sim) (ds : list draws) : res sim :=
  match ds with
  | [] => Ok st
  | d :: r => if slot_due_b J st then Err 0
              else match event_step cf (st <| dr := d |>) with Ok (_, st') => run_between cf J st' r | Err e => Err e | OutOfFuel => OutOfFuel end
  end.

Section BThm.
  Variable cf : config.
  Variable J : Z.
  Hypothesis Hscope : scope_b cf J = true.

  Lemma slot_due_false s : slot_due_b J s = false -> next_active s = J -> forall nd, nthZ (nodes s) (J - 1) = Some nd -> n_next_type nd <> 4.
  Proof. unfold slot_due_b. intros H Ha nd Hn Hty. rewrite Ha, Z.eqb_refl, Hn, Hty in H. discriminate H. Qed.

  (* (b) over one event that is not the slot event of J: whoever is at J with a service start date afterwards was at J with
     the SAME service start date before: nobody's service at J has started or restarted; and J keeps its position *)
  Theorem starts_only_in_slot s u s' : Conserve2.WFx2 [] s -> SlotInv cf s -> slot_due_b J s = false -> event_step cf s = Ok (u, s') ->
    Conserve2.WFx2 [] s' /\ SlotInv cf s' /\
    (forall i t, svc J s' i t -> svc J s i t) /\
    (forall nd nd', nthZ (nodes s) (J - 1) = Some nd -> nthZ (nodes s') (J - 1) = Some nd' -> n_spos nd' = n_spos nd).
  Proof.
    intros HW HI Hd H. destruct (scope_b_sound _ _ Hscope) as (HJ & Hq & Hp4).
    destruct (event_step_R cf J HJ Hq Hp4 s u s' (conj HW HI) (slot_due_false _ Hd) H) as [[HW' HI'] HR].
    split; [exact HW'|]. split; [exact HI'|]. split; [exact HR|]. intros nd nd' Hn Hn'.
    pose proof (Inv_freeze cf J s nd HI Hn) as HF.
    assert (HF' : Inv cf J (n_spos nd) s') by (eapply event_step_other; [right; exact HJ|exact HF|exact (slot_due_false _ Hd)|exact H]).
    exact (Inv_pos _ _ _ _ _ HF' Hn').
  Qed.
  (* ... in terms of the list interrupt_slotted_services looks at: the customers of the node that carry a service start date *)
  Corollary in_service_does_not_grow s u s' nd nd' : Conserve2.WFx2 [] s -> SlotInv cf s -> slot_due_b J s = false -> event_step cf s = Ok (u, s') ->
    nthZ (nodes s) (J - 1) = Some nd -> nthZ (nodes s') (J - 1) = Some nd' -> incl (in_service s' nd') (in_service s nd).
  Proof.
    intros HW HI Hd H Hn Hn'. destruct (starts_only_in_slot _ _ _ HW HI Hd H) as (_ & _ & HR & _). intros i Hi.
    unfold in_service in *. apply filter_In in Hi as [Hin Hs]. unfold has_sst in Hs. destruct (find_ind i (inds s')) as [x'|] eqn:Ex; [|discriminate].
    destruct (i_sst x') as [t|] eqn:Et; [|discriminate].
    destruct (HR i t) as [Hin0 (x & Hx & Hxt)]; [split; [unfold qof; rewrite Hn'; exact Hin|eauto]|].
    unfold qof in Hin0. rewrite Hn in Hin0. apply filter_In. split; [exact Hin0|]. unfold has_sst. rewrite Hx, Hxt. reflexivity.
  Qed.
  (* ... and over any run during which the slot event of J does not come up (e.g. between two of its slots) *)
  Theorem run_between_slots : forall ds s s', Conserve2.WFx2 [] s -> SlotInv cf s -> run_between cf J s ds = Ok s' ->
    run_many cf s ds = Ok s' /\ Conserve2.WFx2 [] s' /\ SlotInv cf s' /\ (forall i t, svc J s' i t -> svc J s i t) /\
    (forall nd nd', nthZ (nodes s) (J - 1) = Some nd -> nthZ (nodes s') (J - 1) = Some nd' -> n_spos nd' = n_spos nd).
  Proof.
    induction ds as [|d r IH]; intros s s' HW HI H; cbn [run_between run_many] in *.
    - injection H as <-. split; [reflexivity|]. split; [exact HW|]. split; [exact HI|]. split; [auto|]. intros nd nd' A B. congruence.
    - destruct (slot_due_b J s) eqn:Ed; [discriminate H|]. destruct (event_step cf (s <| dr := d |>)) as [[u s1]| |] eqn:E; try discriminate H.
      assert (HW0 : Conserve2.WFx2 [] (s <| dr := d |>)) by exact HW.
      assert (HI0 : SlotInv cf (s <| dr := d |>)) by (eapply Inv_nodes; [|exact HI]; reflexivity).
      destruct (starts_only_in_slot (s <| dr := d |>) u s1 HW0 HI0 Ed E) as (HW1 & HI1 & R1 & P1).
      destruct (IH _ _ HW1 HI1 H) as (A & B & C & D & P). split; [exact A|]. split; [exact B|]. split; [exact C|]. split.
      + intros i t Hs. exact (R1 i t (D i t Hs)).
      + intros nd nd' Hn Hn'. destruct (nthZ (nodes s1) (J - 1)) as [nd1|] eqn:E1.
        * rewrite (P nd1 nd' eq_refl Hn'). apply (P1 nd nd1 Hn eq_refl).
        * exfalso. destruct u.
          destruct (Order2.event_step_queues cf (s <| dr := d |>) s1 (Idx_Order2 _ (SlotInv_Idx _ _ HI0)) E) as [_ [Hlen _]].
          apply nthZ_nat in Hn as [Hj0 Hn]. cbn in Hlen.
          assert (Hlt : (Z.to_nat (J - 1) < length (nodes s))%nat) by (apply nth_error_Some; congruence).
          unfold nthZ in E1. destruct (J - 1 <? 0) eqn:E0; [apply Z.ltb_lt in E0; lia|]. apply nth_error_None in E1. lia.
  Qed.
End BThm.

(* what needs no scope at all: at a slotted node the arrival path starts nothing (no server, c = 0, so no pre-emption either);
   the release path offers no freed server (release passes None for a slotted node) *)
Theorem accept_at_slotted_starts_nothing cf pre j i nc sl s nd s' : SlotInv cf s -> slot_of cf j = Some sl -> nthZ (nodes s) (j - 1) = Some nd ->
  Order2.accept_tail cf pre j i nc s = Ok (tt, s') -> inds s' = inds s /\ nodes s' = nodes s /\ now s' = now s.
Proof.
  intros HI Hsl Hn H. destruct (SlotInv_means _ _ _ _ _ HI Hn Hsl) as (_ & Hsv & Hc & _).
  unfold Order2.accept_tail in H. minv H nd1 sq E. apply get_node_inv in E as (-> & _ & Hn1). rewrite Hn in Hn1. injection Hn1 as <-.
  cbv zeta in H. unfold nd_inf in H. rewrite Hc in H. minv H cand s1 E1. destruct (Order2.choose_next_customer_frame _ _ _ _ _ E1) as (A & B & C).
  destruct cand as [c|]; [|apply ret_inv in H as [_ ->]; auto]. minv H cx sq E. apply get_ind_inv in E as [-> _].
  rewrite Hsv in H. rewrite Sched2.find_free_server_for_none in H by (intros sv []). cbn in H. apply ret_inv in H as [_ ->]. auto.
Qed.
Theorem release_at_slotted_frees_no_server cf j s : begin_service_if_possible_release cf j None s = Ok (tt, s).
Proof. reflexivity. Qed.

(* ================================================================================================================ *)
(* Part 5: closed examples                                                                                           *)
(* ================================================================================================================ *)
(* node 1: slots at 2, 5 (+5 each cycle) of sizes 2, 1, capacitated; node 2: one server; everybody goes 1 -> 2 -> exit *)
Definition ex_sl (pre : Z) : slotcfg := mkSlot [2; 5] [2; 1] 0 true pre.
Definition ex_nc1 (pre : Z) : ncfg := mkNcfg None None 0 (SSlot (ex_sl pre)) 0 false [false] 0.
Definition ex_nc2 : ncfg := mkNcfg None None 0 SFixed 0 false [false] 0.
Definition ex_cf (pre : Z) : config := mkCfg 1 [ex_nc1 pre; ex_nc2] [0] 1 None [RtNR [RDirect 2; RLeave]] [[None; None]] false [[false]].
Definition ex_srv : server := mkServer 1 None false None 0 None 0 false 0 None.
Definition ex_node1 : node := mkNode 1 0 0 [[]] [] [] 0 (Some 2) [] (Some 0) 0 [] 0 [] [] [] 4 None 1 None None.
Definition ex_node2 : node := mkNode 2 0 0 [[]] [ex_srv] [] 0 None [] (Some 1) 1 [] 0 [] [] [] 0 None 0 None None.
Definition no_draws : draws := mkDraws [] [] [] [] [] [].
Definition ex_s0 : sim := mkSim 1 0 (mkArr 0 0 [[Some 1]; [None]] 1 0 (Some 1)) [ex_node1; ex_node2] [] 0 0 [] no_draws [] [[0; 0]].
(* three customers arrive at 1; slot at 2 (size 2) starts two (service times 1 and 100); customer 1 ends at 3 and moves to node 2
   (service 6); slot at 5 (size 1, one in service): nobody starts; slot at 7 (size 2): customer 3 starts; customer 1 leaves at 9;
   slot at 10 (size 1, two in service): one service is interrupted ('resume'); slot at 12 (size 2): it is resumed *)
Definition ex_ds : list draws :=
  [ mkDraws [1000] [3] [] [] [] []; mkDraws [] [] [1; 100] [] [] []; mkDraws [] [] [6] [] [] []; no_draws; mkDraws [] [] [100] [] [] [];
    no_draws; no_draws; no_draws ].
Definition ex_view (pre : Z) (n : nat) :=
  match run_many (ex_cf pre) ex_s0 (firstn n ex_ds) with
  | Ok s => Some (now s, slot_due_b 1 s, map (fun nd => (n_spos nd, n_insvc nd, Z.of_nat (length (in_service s nd)), n_interrupted nd)) (firstn 1 (nodes s)),
                  slot_inv_b (ex_cf pre) s && slot_next_b (ex_cf pre) s && Conserve2.wfx2_b s)
  | _ => None
  end.

(* the hypotheses of all theorems are satisfiable, and along a run over six slots (pre-emptive capacitated slots, option 'resume')
   the invariants hold at every boundary (as the theorems say), the position advances by one at each slot event, at its
   date, and the counter after the slot of size z is <= z *)
Example slot_example :
  wf_slots (ex_cf 1) = true /\ scope_b (ex_cf 1) 1 = true /\
  slot_inv_b (ex_cf 1) ex_s0 = true /\ slot_next_b (ex_cf 1) ex_s0 = true /\ Conserve2.wfx2_b ex_s0 = true /\
  map (ex_view 1) [1; 2; 3; 4; 5; 6; 7; 8]%nat =
    [ Some (2, true, [(1, 0, 0, [])], true);      (* the arrival; next: slot 1 at 2 *)
      Some (3, false, [(2, 2, 2, [])], true);     (* slot 1 (size 2) ran at 2: two services started *)
      Some (5, true, [(2, 1, 1, [])], true);      (* end of service at 3: not a slot event, position and in-service set do not grow *)
      Some (7, true, [(3, 1, 1, [])], true);      (* slot 2 (size 1) ran at 5: one in service, nobody starts *)
      Some (9, false, [(4, 2, 2, [])], true);     (* slot 3 (size 2) ran at 7: one more starts *)
      Some (10, true, [(4, 2, 2, [])], true);     (* a departure from node 2 at 9 *)
      Some (12, true, [(5, 1, 1, [2])], true);    (* slot 4 (size 1) ran at 10: two in service, one is interrupted *)
      Some (15, true, [(6, 2, 2, [])], true) ] /\ (* slot 5 (size 2) ran at 12: the interrupted service is resumed *)
  map (slotdate (ex_sl 1)) [1; 2; 3; 4; 5; 6]%nat = [2; 5; 7; 10; 12; 15] /\ map (slotsize (ex_sl 1)) [1; 2; 3; 4; 5; 6]%nat = [2; 1; 2; 1; 2; 1] /\
  (* between slot events (here: the end of service at 3) run_between succeeds *)
  match run_many (ex_cf 1) ex_s0 (firstn 2 ex_ds) with
  | Ok s => match run_between (ex_cf 1) 1 s [mkDraws [] [] [6] [] [] []] with Ok _ => True | _ => False end
  | _ => False end.
Proof. vm_compute. repeat split; reflexivity. Qed.

(* "under capacitated slots at most the slot size is in service right after the slot" is FALSE of NON-pre-emptive
   capacitated slots when the size goes down (2, then 1) while services last: after slot 2 (size 1) two customers are in service
   (counter and true number agree).  Not a defect of the code: without pre-emption the slot only refrains from starting
   (capacitated_after_slot has the hypothesis n_insvc <= size for pre = 0).  New, by design. *)
Theorem capacity_after_nonpreemptive_slot_refuted :
  exists cf s ds s' nd sl, wf_slots cf = true /\ slot_inv_b cf s = true /\ slot_next_b cf s = true /\ Conserve2.wfx2_b s = true /\
    run_many cf s ds = Ok s' /\ nthZ (nodes s') 0 = Some nd /\ slot_of cf 1 = Some sl /\ sl_cap sl = true /\ sl_pre sl = 0 /\
    n_spos nd = 3 /\ slotsize sl 2 = 1 /\ n_insvc nd = 2 /\ length (in_service s' nd) = 2%nat.
Proof.
  exists (ex_cf 0), ex_s0, [ mkDraws [1000] [3] [] [] [] []; mkDraws [] [] [100; 100] [] [] []; no_draws ].
  eexists. eexists. eexists. vm_compute. repeat split; reflexivity.
Qed.

Print Assumptions run_many_slotinv.
Print Assumptions run_many_slotnext.
Print Assumptions slots_follow_timetable.
Print Assumptions event_step_slot.
Print Assumptions event_step_other.
Print Assumptions slot_table.
Print Assumptions slotdate_increasing.
Print Assumptions slot_event_starts.
Print Assumptions slotted_service_counts.
Print Assumptions capacitated_after_slot.
Print Assumptions uncapacitated_slot.
Print Assumptions starts_only_in_slot.
Print Assumptions in_service_does_not_grow.
Print Assumptions run_between_slots.
Print Assumptions accept_at_slotted_starts_nothing.
Print Assumptions slot_inv_b_sound.
Print Assumptions slot_next_b_sound.
Print Assumptions scope_b_sound.
Print Assumptions slot_example.
Print Assumptions capacity_after_nonpreemptive_slot_refuted.

(* Samples.v -- T2 for C10 on the engine model: the sampled inputs are honoured.
   - an arrival event creates exactly the sampled batch size of customers and moves its stream's next arrival date on by
     exactly the sampled inter-arrival time (so arrivals of a stream are at the partial sums of its samples); a negative
     batch size is an error;
   - a service start stamps start, sampled duration and end = start + duration on the customer and the same end date
     on its server; no other function of the engine touches those three fields except to clear them at release, so they
     stay consistent (invariant SvcInv) and the record written at release shows exactly the sampled duration. *)
From Coq Require Import ZArith List Bool Lia.
From RecordUpdate Require Import RecordUpdate.
From CiwV Require Import Sx Prelude Routing.
From CiwV.Engine Require Import State Engine Codec.
From CiwV.Inv Require Import Frame Conserve.
Import ListNotations.
Open Scope Z_scope.

(* ---------- "m leaves f alone" ---------- *)
Definition keeps {X A} (f : sim -> X) (m : M A) : Prop := forall s a s', m s = Ok (a, s') -> f s' = f s.
Lemma keeps_ret {X A} (f : sim -> X) (a : A) : keeps f (ret a). Proof. intros s a0 s' H; inversion H; reflexivity. Qed.
Lemma keeps_fail {X A} (f : sim -> X) e : keeps f (@fail A e). Proof. intros s a s' H; discriminate. Qed.
Lemma keeps_bind {X A B} (f : sim -> X) (m : M A) (k : A -> M B) : keeps f m -> (forall a, keeps f (k a)) -> keeps f (bind m k).
Proof.
  intros Hm Hk s b s' H. unfold bind in H. destruct (m s) as [[a s1]| |] eqn:E; try discriminate.
  rewrite (Hk a _ _ _ H). apply (Hm _ _ _ E).
Qed.
Lemma keeps_gets {X A} (f : sim -> X) (g : sim -> A) : keeps f (gets g). Proof. intros s a s' H; inversion H; reflexivity. Qed.
Lemma keeps_lift {X A} (f : sim -> X) e (o : option A) : keeps f (lift e o). Proof. destruct o; [apply keeps_ret|apply keeps_fail]. Qed.
Lemma keeps_modify {X} (f : sim -> X) (g : sim -> sim) : (forall s, f (g s) = f s) -> keeps f (modify g).
Proof. intros Hg s a s' H. inversion H. apply Hg. Qed.
Lemma keeps_get_node {X} (f : sim -> X) j : keeps f (get_node j).
Proof. intros s a s' H. apply get_node_spec in H as [-> _]. reflexivity. Qed.
Lemma keeps_get_ind {X} (f : sim -> X) i : keeps f (get_ind i).
Proof. intros s a s' H. apply get_ind_id in H as [-> _]. reflexivity. Qed.
Lemma keeps_comp {X Y A} (f : sim -> X) (g : X -> Y) (m : M A) : keeps f m -> keeps (fun s => g (f s)) m.
Proof. intros H s a s' E. rewrite (H _ _ _ E). reflexivity. Qed.

(* the arrival state is left alone by everything that only draws service times / uniforms or writes nodes, customers, records *)
Lemma ka_draw_svc : keeps arr draw_svc. Proof. intros s a s' H. unfold draw_svc in H. destruct (d_svc (dr s)); inversion H; reflexivity. Qed.
Lemma ka_draw_unif : keeps arr draw_unif. Proof. intros s a s' H. unfold draw_unif in H. destruct (d_unif (dr s)); inversion H; reflexivity. Qed.
Definition darr (s : sim) : list Z := d_arr (dr s).
Definition dbatch (s : sim) : list Z := d_batch (dr s).
Lemma kd_draw_svc : keeps darr draw_svc. Proof. intros s a s' H. unfold draw_svc in H. destruct (d_svc (dr s)); inversion H; reflexivity. Qed.
Lemma kd_draw_unif : keeps darr draw_unif. Proof. intros s a s' H. unfold draw_unif in H. destruct (d_unif (dr s)); inversion H; reflexivity. Qed.

Ltac k_step :=
  first
    [ apply keeps_ret | apply keeps_fail | apply keeps_gets | apply keeps_lift | apply keeps_get_node | apply keeps_get_ind
    | apply ka_draw_svc | apply ka_draw_unif | apply kd_draw_svc | apply kd_draw_unif
    | (apply keeps_modify; intros ?; reflexivity)
    | (apply keeps_bind; [|intros])
    | match goal with
      | |- keeps _ (if ?b then _ else _) => destruct b
      | |- keeps _ (match ?x with _ => _ end) => destruct x
      | |- keeps _ (let '(_, _) := ?x in _) => destruct x
      end ].

Section Samples.
  Variable cf : config.

  (* one generic walk, instantiated for f = arr (whole arrival state) and f = darr (the unread inter-arrival draws) *)
  Section Walk.
    Context {X : Type} (f : sim -> X).
    Hypothesis Hsvc : keeps f draw_svc.
    Hypothesis Hunif : keeps f draw_unif.
    Hypothesis Hmod_nodes : forall s v, f (s <| nodes := v |>) = f s.
    Hypothesis Hmod_inds : forall s v, f (s <| inds := v |>) = f s.
    Hypothesis Hmod_log : forall s v, f (s <| log := v |>) = f s.
    Hypothesis Hmod_exit : forall s a b c, f (s <| exit_ids := a |> <| exit_n := b |> <| exit_completed := c |>) = f s.

    Lemma w_put_node nd : keeps f (put_node nd). Proof. apply keeps_modify. intros s. apply Hmod_nodes. Qed.
    Lemma w_put_ind x : keeps f (put_ind x). Proof. apply keeps_modify. intros s. apply Hmod_inds. Qed.
    Lemma w_del_ind i : keeps f (del_ind i). Proof. apply keeps_modify. intros s. apply Hmod_inds. Qed.
    Lemma w_log_rec r : keeps f (log_rec r). Proof. apply keeps_modify. intros s. apply Hmod_log. Qed.
    Ltac w_step :=
      first [ apply w_put_node | apply w_put_ind | apply w_del_ind | apply w_log_rec | apply Hsvc | apply Hunif
            | apply keeps_ret | apply keeps_fail | apply keeps_gets | apply keeps_lift | apply keeps_get_node | apply keeps_get_ind
            | (apply keeps_bind; [|intros])
            | match goal with
              | |- keeps _ (if ?b then _ else _) => destruct b
              | |- keeps _ (match ?x with _ => _ end) => destruct x
              | |- keeps _ (let '(_, _) := ?x in _) => destruct x
              end ].
    Lemma w_ncfg_of j : keeps f (ncfg_of cf j). Proof. apply keeps_lift. Qed.
    Lemma w_is_inf j : keeps f (is_inf cf j). Proof. unfold is_inf. apply keeps_bind; [apply w_ncfg_of|intros; apply keeps_ret]. Qed.
    Lemma w_choice_uniform {A} (l : list A) : keeps f (choice_uniform l). Proof. unfold choice_uniform. repeat w_step. Qed.
    Lemma w_choice_weighted den P : keeps f (choice_weighted den P). Proof. unfold choice_weighted. repeat w_step. Qed.
    Lemma w_choose_next_customer nd : keeps f (choose_next_customer cf nd).
    Proof. unfold choose_next_customer. repeat first [apply w_ncfg_of | apply w_choice_uniform | w_step]. Qed.
    Lemma w_start_service j i srv : keeps f (start_service j i srv). Proof. unfold start_service. repeat w_step. Qed.
    Lemma w_bsip_accept j i : keeps f (begin_service_if_possible_accept cf j i).
    Proof. unfold begin_service_if_possible_accept. repeat first [apply w_is_inf | apply w_choose_next_customer | apply w_start_service | w_step]. Qed.
    Lemma w_accept j x : keeps f (accept cf j x). Proof. unfold accept. repeat first [apply w_bsip_accept | w_step]. Qed.
    Lemma w_exit_accept x c : keeps f (exit_accept x c).
    Proof. unfold exit_accept. apply keeps_bind; [apply w_del_ind|]. intros _. apply keeps_modify. intros s. apply Hmod_exit. Qed.
    Lemma w_write_individual_record j x : keeps f (write_individual_record cf j x).
    Proof. unfold write_individual_record. repeat first [apply w_is_inf | w_step]. Qed.
    Lemma w_write_br_record j x ty : keeps f (write_br_record j x ty). Proof. unfold write_br_record. repeat w_step. Qed.
    Lemma w_bsip_release j freed : keeps f (begin_service_if_possible_release cf j freed).
    Proof. unfold begin_service_if_possible_release. repeat first [apply w_choose_next_customer | apply w_start_service | w_step]. Qed.
    Lemma w_block_individual j i d : keeps f (block_individual j i d). Proof. unfold block_individual. repeat w_step. Qed.
    Lemma w_release : forall fu j i d, keeps f (release cf fu j i d).
    Proof.
      induction fu as [|fu IH]; intros j i d; cbn [release]; [intros s a s' H; discriminate|].
      repeat first [ apply IH | apply w_is_inf | apply w_ncfg_of | apply w_write_individual_record | apply w_bsip_release
                   | apply w_exit_accept | apply w_accept | w_step ].
    Qed.
    Lemma w_finish_service j : keeps f (finish_service cf j).
    Proof.
      unfold finish_service.
      repeat first [ apply w_release | apply w_block_individual | apply w_is_inf | apply w_ncfg_of | apply w_choice_uniform | apply w_choice_weighted | w_step ].
    Qed.
  End Walk.

  Lemma ka_accept j x : keeps arr (accept cf j x).
  Proof. apply w_accept; try (intros; reflexivity); [apply ka_draw_svc|apply ka_draw_unif]. Qed.
  Lemma ka_exit_accept x c : keeps arr (exit_accept x c). Proof. apply w_exit_accept; intros; reflexivity. Qed.
  Lemma ka_finish_service j : keeps arr (finish_service cf j).
  Proof. apply w_finish_service; try (intros; reflexivity); [apply ka_draw_svc|apply ka_draw_unif]. Qed.
  Lemma kd_accept j x : keeps darr (accept cf j x).
  Proof. apply w_accept; try (intros; reflexivity); [apply kd_draw_svc|apply kd_draw_unif]. Qed.
  Lemma kd_exit_accept x c : keeps darr (exit_accept x c). Proof. apply w_exit_accept; intros; reflexivity. Qed.

  (* a service completion never touches the arrival node's state: arrival dates depend on arrival events alone *)
  Theorem finish_service_keeps_arrivals j s s' : finish_service cf j s = Ok (tt, s') -> arr s' = arr s.
  Proof. apply ka_finish_service. Qed.

  (* ---------- release_individual: creation counter and date table untouched ---------- *)
  Definition cd (s : sim) := (a_created (arr s), a_dates (arr s)).
  Lemma kcd_release_individual j x : keeps cd (release_individual cf j x).
  Proof.
    unfold release_individual.
    assert (Ka : forall y, keeps cd (accept cf j y)) by (intros y; apply (keeps_comp arr (fun a => (a_created a, a_dates a))); apply ka_accept).
    assert (Ke : forall y c, keeps cd (exit_accept y c)) by (intros y c; apply (keeps_comp arr (fun a => (a_created a, a_dates a))); apply ka_exit_accept).
    assert (Ku : keeps cd draw_unif) by (apply (keeps_comp arr (fun a => (a_created a, a_dates a))); apply ka_draw_unif).
    unfold sys_population, write_br_record, put_ind, log_rec.
    repeat first [ apply Ka | apply Ke | apply Ku | k_step ].
  Qed.
  Lemma kd_release_individual j x : keeps darr (release_individual cf j x).
  Proof.
    unfold release_individual, sys_population, write_br_record, put_ind, log_rec.
    repeat first [ apply kd_accept | apply kd_exit_accept | k_step ].
  Qed.

  (* ---------- the batch loop creates exactly n customers ---------- *)
  Lemma batch_loop_spec : forall n j c p s s', batch_loop cf n j c p s = Ok (tt, s') ->
    a_created (arr s') = a_created (arr s) + Z.of_nat n /\ a_dates (arr s') = a_dates (arr s) /\ darr s' = darr s.
  Proof.
    induction n as [|n IH]; intros j c p s s' H; cbn [batch_loop] in H.
    - inversion H. subst. split; [cbn; lia|split; reflexivity].
    - unfold bind at 1 in H. unfold modify at 1 in H. unfold bind at 1 in H. unfold gets at 1 in H. unfold bind at 1 in H.
      match type of H with match release_individual cf j ?x ?s1 with _ => _ end = _ =>
        destruct (release_individual cf j x s1) as [[[] s2]| |] eqn:E; try discriminate;
        pose proof (kcd_release_individual _ _ _ _ _ E) as K; pose proof (kd_release_individual _ _ _ _ _ E) as Kd end.
      destruct (IH _ _ _ _ _ H) as (A & B & C). unfold cd in K. cbn in K. injection K as K1 K2.
      rewrite A, B, C, K1, K2, Kd. split; [lia|split; reflexivity].
  Qed.

  (* ---------- an arrival event: sampled batch size, sampled inter-arrival time ---------- *)
  Theorem arrival_have_event_spec s s' : arrival_have_event cf s = Ok (tt, s') ->
    exists b ia row old,
      (* the batch size is the next batch sample, it is a non-negative integer, and exactly that many customers are created *)
      hd_error (d_batch (dr s)) = Some b /\ 0 <= b /\ a_created (arr s') = a_created (arr s) + b /\
      (* the stream that fired moves on by exactly the next inter-arrival sample; every other stream keeps its date *)
      hd_error (d_arr (dr s)) = Some ia /\
      nthZ (a_dates (arr s)) (a_next_node (arr s) - 1) = Some row /\ nthZ row (a_next_cls (arr s)) = Some old /\
      a_dates (arr s') = updZ (a_dates (arr s)) (a_next_node (arr s) - 1)
                           (updZ row (a_next_cls (arr s)) (match old with Some o => Some (o + ia) | None => None end)).
  Proof.
    unfold arrival_have_event. intros H.
    unfold bind at 1 in H. unfold gets at 1 in H.
    unfold bind at 1 in H. unfold draw_batch at 1 in H. destruct (d_batch (dr s)) as [|b br] eqn:Eb; [discriminate H|].
    unfold bind at 1 in H. destruct (b <? 0) eqn:Eneg; [discriminate H|]. apply Z.ltb_ge in Eneg. cbn [ret] in H.
    unfold bind at 1 in H. destruct (nthZ (cf_prio cf) (a_next_cls (arr s))) as [p|]; [|discriminate H]. cbn [lift ret] in H.
    unfold bind at 1 in H.
    match type of H with match batch_loop cf ?n ?j ?c ?p0 ?s1 with _ => _ end = _ =>
      destruct (batch_loop cf n j c p0 s1) as [[[] s2]| |] eqn:E; try discriminate;
      destruct (batch_loop_spec _ _ _ _ _ _ E) as (C1 & C2 & C3) end.
    cbn in C1, C2. unfold darr in C3. cbn in C3.
    unfold bind at 1 in H. unfold draw_arr at 1 in H. destruct (d_arr (dr s2)) as [|ia ir] eqn:Ea; [discriminate H|].
    unfold bind at 1 in H. unfold gets at 1 in H.
    change (arr (s2 <| dr := dr s2 <| d_arr := ir |> |>)) with (arr s2) in H.
    unfold bind at 1 in H. rewrite C2 in H.
    destruct (nthZ (a_dates (arr s)) (a_next_node (arr s) - 1)) as [row|] eqn:Er; [|discriminate H]. cbn [lift ret] in H.
    unfold bind at 1 in H. destruct (nthZ row (a_next_cls (arr s))) as [old|] eqn:Eo; [|discriminate H]. cbn [lift ret] in H.
    unfold bind at 1 in H. unfold modify at 1 in H.
    unfold find_next_event_date, modify in H. inversion H as [Hs]. clear H.
    exists b, ia, row, old. split; [reflexivity|]. split; [exact Eneg|].
    cbn. destruct (find_min_dates _ _ _) as [[dd jj] cc]. cbn.
    split; [rewrite C1, Z2Nat.id by exact Eneg; reflexivity|].
    split; [rewrite <- C3; reflexivity|]. split; [reflexivity|]. split; [exact Eo|]. rewrite C2. reflexivity.
  Qed.

  (* a batch size that is not a non-negative integer is an error, not a silently corrupted run *)
  Theorem negative_batch_is_an_error s b r : d_batch (dr s) = b :: r -> b < 0 -> arrival_have_event cf s = Err E_Batch.
  Proof.
    intros Hb Hn. unfold arrival_have_event, bind, gets, draw_batch. rewrite Hb. cbn.
    destruct (b <? 0) eqn:E; [reflexivity|apply Z.ltb_ge in E; lia].
  Qed.

  (* ---------- a service start: the sampled duration is what is stamped ---------- *)
  Lemma find_put_ind x l i : find_ind i (put_ind_l x l) = if i =? i_id x then Some x else find_ind i l.
  Proof.
    induction l as [|y r IH]; cbn.
    - rewrite (Z.eqb_sym (i_id x) i). reflexivity.
    - destruct (i_id y =? i_id x) eqn:E; cbn.
      + apply Z.eqb_eq in E. rewrite (Z.eqb_sym (i_id x) i). destruct (i =? i_id x) eqn:E2; [reflexivity|].
        rewrite E. rewrite (Z.eqb_sym (i_id x) i), E2. reflexivity.
      + destruct (i_id y =? i) eqn:E2; [|exact IH].
        apply Z.eqb_eq in E2. apply Z.eqb_neq in E. destruct (i =? i_id x) eqn:E3; [apply Z.eqb_eq in E3; lia|reflexivity].
  Qed.
  Lemma find_put_server sv l k : find_server k (put_server_l sv l) = if k =? sv_id sv then (match find_server k l with Some _ => Some sv | None => None end) else find_server k l.
  Proof.
    induction l as [|y r IH]; cbn; [destruct (k =? sv_id sv); reflexivity|].
    destruct (sv_id y =? sv_id sv) eqn:E; cbn.
    - apply Z.eqb_eq in E. rewrite E. rewrite (Z.eqb_sym (sv_id sv) k). destruct (k =? sv_id sv); reflexivity.
    - destruct (sv_id y =? k) eqn:E2.
      + apply Z.eqb_eq in E2. apply Z.eqb_neq in E. destruct (k =? sv_id sv) eqn:E3; [apply Z.eqb_eq in E3; lia|reflexivity].
      + exact IH.
  Qed.

  Theorem start_service_spec j i srv s s' : Idx s -> start_service j i srv s = Ok (tt, s') ->
    exists st x,
      hd_error (d_svc (dr s)) = Some st /\
      find_ind i (inds s') = Some x /\ i_sst x = Some (now s) /\ i_stime x = Some st /\ i_send x = Some (now s + st) /\
      (forall sv, srv = Some sv -> i_server x = Some (sv_id sv) /\
         exists nd nd', nthZ (nodes s) (j - 1) = Some nd /\ nthZ (nodes s') (j - 1) = Some nd' /\
           (find_server (sv_id sv) (n_servers nd) <> None ->
            exists sv', find_server (sv_id sv) (n_servers nd') = Some sv' /\ sv_cust sv' = Some i /\ sv_busy sv' = true /\ sv_next_end sv' = Some (now s + st))).
  Proof.
    intros HI H. unfold start_service in H.
    unfold bind at 1 in H. unfold gets at 1 in H.
    unfold bind at 1 in H. destruct (get_ind i s) as [[x s1]| |] eqn:E1; try discriminate. apply get_ind_id in E1 as [-> Hid].
    unfold bind at 1 in H. unfold draw_svc at 1 in H. destruct (d_svc (dr s)) as [|st sr] eqn:Es; [discriminate H|].
    unfold bind at 1 in H. unfold put_ind at 1, modify at 1 in H.
    unfold bind at 1 in H.
    match type of H with match get_node j ?s3 with _ => _ end = _ => destruct (get_node j s3) as [[nd s4]| |] eqn:E4; try discriminate;
      apply get_node_spec in E4 as [-> Hn] end.
    cbn in Hn. unfold put_node, modify in H. injection H as <-.
    eexists st, _. split; [reflexivity|]. cbn. rewrite find_put_ind. cbn. rewrite Hid, Z.eqb_refl.
    split; [reflexivity|]. split; [reflexivity|]. split; [reflexivity|]. split; [reflexivity|].
    intros sv ->. split; [reflexivity|]. exists nd. eexists. split; [exact Hn|].
    pose proof (Idx_get _ _ _ HI Hn) as Hidn. cbn [n_id]. rewrite Hidn.
    destruct (nthZ_nat _ _ _ Hn) as (k & Hk & Hnk). split.
    - rewrite Hk, updZ_nat. unfold nthZ. destruct (Z.of_nat k <? 0) eqn:E; [apply Z.ltb_lt in E; lia|]. rewrite Nat2Z.id.
      cbn [nodes]. apply (nth_error_upd_eq _ _ _ _ Hnk).
    - intros Hf. cbn. rewrite find_put_server. cbn. rewrite Z.eqb_refl.
      destruct (find_server (sv_id sv) (n_servers nd)); [|contradiction]. eexists. split; [reflexivity|]. cbn. auto.
  Qed.

  (* ---------- the three service stamps stay consistent: end = start + sampled duration ---------- *)
  Definition svc_okb (x : ind) : bool :=
    match i_sst x, i_stime x, i_send x with
    | Some t0, Some st, Some e => e =? t0 + st
    | None, _, _ => true
    | _, _, _ => false
    end.
  Definition SvcInv (s : sim) : Prop := forallb svc_okb (inds s) = true.

  Lemma find_ind_In i l x : find_ind i l = Some x -> In x l.
  Proof. induction l as [|y r IH]; cbn; [discriminate|]. destruct (i_id y =? i); [intros H; injection H as ->; left; reflexivity|intros H; right; auto]. Qed.
  Lemma forallb_put x l : svc_okb x = true -> forallb svc_okb l = true -> forallb svc_okb (put_ind_l x l) = true.
  Proof.
    intros Hx. induction l as [|y r IH]; cbn; [rewrite Hx; reflexivity|]. intros H. apply andb_true_iff in H as [H1 H2].
    destruct (i_id y =? i_id x); cbn; [rewrite Hx, H2; reflexivity|rewrite H1, (IH H2); reflexivity].
  Qed.
  Lemma forallb_del i l : forallb svc_okb l = true -> forallb svc_okb (del_ind_l i l) = true.
  Proof.
    induction l as [|y r IH]; cbn; [reflexivity|]. intros H. apply andb_true_iff in H as [H1 H2].
    destruct (i_id y =? i); [exact H2|cbn; rewrite H1, (IH H2); reflexivity].
  Qed.

  (* m keeps SvcInv and its result satisfies phi *)
  Definition sp {A} (m : M A) (phi : A -> Prop) : Prop := forall s a s', SvcInv s -> m s = Ok (a, s') -> SvcInv s' /\ phi a.
  Definition top {A} : A -> Prop := fun _ => True.
  Lemma sp_weaken {A} (m : M A) (phi psi : A -> Prop) : sp m phi -> (forall a, phi a -> psi a) -> sp m psi.
  Proof. intros H W s a s' I E. destruct (H _ _ _ I E). auto. Qed.
  Lemma sp_bind {A B} (m : M A) (k : A -> M B) phi psi : sp m phi -> (forall a, phi a -> sp (k a) psi) -> sp (bind m k) psi.
  Proof.
    intros Hm Hk s b s' I H. unfold bind in H. destruct (m s) as [[a s1]| |] eqn:E; try discriminate.
    destruct (Hm _ _ _ I E) as [I1 P]. apply (Hk a P _ _ _ I1 H).
  Qed.
  Lemma sp_ret {A} (a : A) (phi : A -> Prop) : phi a -> sp (ret a) phi. Proof. intros P s a0 s' I H. inversion H. subst. auto. Qed.
  Lemma sp_fail {A} e (phi : A -> Prop) : sp (@fail A e) phi. Proof. intros s a s' I H. discriminate. Qed.
  Lemma sp_ro {A} (m : M A) : (forall s a s', m s = Ok (a, s') -> inds s' = inds s) -> sp m top.
  Proof. intros Hm s a s' I H. unfold SvcInv. rewrite (Hm _ _ _ H). split; [exact I|exact Logic.I]. Qed.
  Lemma sp_keeps {A} (m : M A) : keeps inds m -> sp m top. Proof. intros K. apply sp_ro. exact K. Qed.
  Lemma sp_get_ind i : sp (get_ind i) (fun x => svc_okb x = true).
  Proof.
    intros s x s' I H. unfold get_ind in H. destruct (find_ind i (inds s)) as [y|] eqn:E; inversion H. subst. split; [exact I|].
    unfold SvcInv in I. rewrite forallb_forall in I. apply I. eapply find_ind_In; eauto.
  Qed.
  Lemma sp_put_ind x : svc_okb x = true -> sp (put_ind x) top.
  Proof. intros Hx s a s' I H. unfold put_ind, modify in H. inversion H. split; [|exact Logic.I]. unfold SvcInv. cbn. apply forallb_put; assumption. Qed.
  Lemma sp_del_ind i : sp (del_ind i) top.
  Proof. intros s a s' I H. unfold del_ind, modify in H. inversion H. split; [|exact Logic.I]. unfold SvcInv. cbn. apply forallb_del; assumption. Qed.
  Lemma ki_draw_svc : keeps inds draw_svc. Proof. intros s a s' H. unfold draw_svc in H. destruct (d_svc (dr s)); inversion H; reflexivity. Qed.
  Lemma ki_draw_unif : keeps inds draw_unif. Proof. intros s a s' H. unfold draw_unif in H. destruct (d_unif (dr s)); inversion H; reflexivity. Qed.
  Lemma ki_draw_arr : keeps inds draw_arr. Proof. intros s a s' H. unfold draw_arr in H. destruct (d_arr (dr s)); inversion H; reflexivity. Qed.
  Lemma ki_draw_batch : keeps inds draw_batch. Proof. intros s a s' H. unfold draw_batch in H. destruct (d_batch (dr s)); inversion H; reflexivity. Qed.

  (* read-only / customer-free steps, discharged as [sp _ top] *)
  Ltac sp_easy :=
    first [ apply sp_del_ind
          | (apply sp_keeps; first [ apply keeps_gets | apply keeps_lift | apply keeps_get_node | apply ki_draw_svc | apply ki_draw_unif
                                   | apply ki_draw_arr | apply ki_draw_batch | apply keeps_ret | apply keeps_fail
                                   | (apply keeps_modify; intros ?; reflexivity) ]) ].
  (* bind whose first action is customer-free *)
  Ltac sp_b := eapply sp_bind; [sp_easy|intros ? _].

  Lemma sp_top_of {A} (m : M A) phi : sp m phi -> sp m top. Proof. intros H. eapply sp_weaken; [exact H|intros; exact Logic.I]. Qed.
  Lemma sp_ncfg_of j : sp (ncfg_of cf j) top. Proof. apply sp_keeps. apply keeps_lift. Qed.
  Lemma sp_is_inf j : sp (is_inf cf j) top. Proof. apply sp_keeps. unfold is_inf. apply keeps_bind; [apply keeps_lift|intros; apply keeps_ret]. Qed.
  Lemma ki_choice_uniform {A} (l : list A) : keeps inds (choice_uniform l).
  Proof. unfold choice_uniform. apply keeps_bind; [apply ki_draw_unif|intros; apply keeps_lift]. Qed.
  Lemma ki_choice_weighted den P : keeps inds (choice_weighted den P).
  Proof. unfold choice_weighted. destruct P as [|p0 rest]; [apply keeps_fail|]. destruct (_ && _); [apply keeps_ret|]. apply keeps_bind; [apply ki_draw_unif|]. intros u. destruct (rc_loop _ _ _ _ _); [apply keeps_ret|apply keeps_fail]. Qed.
  Lemma ki_choose_next_customer nd : keeps inds (choose_next_customer cf nd).
  Proof.
    unfold choose_next_customer. apply keeps_bind; [apply keeps_gets|]. intros il. destruct (first_waiting _ _); [apply keeps_ret|].
    apply keeps_bind; [apply keeps_lift|]. intros nc. destruct (_ =? 0); [apply keeps_ret|]. destruct (_ =? 1); [apply keeps_ret|].
    apply keeps_bind; [apply ki_choice_uniform|intros; apply keeps_ret].
  Qed.
  Lemma ki_put_node nd : keeps inds (put_node nd). Proof. apply keeps_modify. intros; reflexivity. Qed.
  Lemma ki_log_rec r : keeps inds (log_rec r). Proof. apply keeps_modify. intros; reflexivity. Qed.

  Lemma sp_start_service j i srv : sp (start_service j i srv) top.
  Proof.
    unfold start_service. sp_b. eapply sp_bind; [apply sp_get_ind|]. intros x Hx. sp_b.
    eapply sp_bind; [apply sp_put_ind|intros ? _].
    { unfold svc_okb. cbn. apply Z.eqb_refl. }
    sp_b. apply sp_keeps. apply ki_put_node.
  Qed.
  Lemma sp_bsip_accept j i : sp (begin_service_if_possible_accept cf j i) top.
  Proof.
    unfold begin_service_if_possible_accept. sp_b. eapply sp_bind; [apply sp_get_ind|]. intros x Hx.
    eapply sp_bind; [apply sp_put_ind; exact Hx|intros ? _].
    eapply sp_bind; [apply sp_is_inf|intros inf _]. sp_b.
    eapply sp_bind with (phi := top); [destruct inf; [apply sp_keeps, keeps_ret|apply sp_keeps, ki_choose_next_customer]|intros cand _].
    destruct cand as [c|]; [|apply sp_keeps, keeps_ret]. destruct inf; [apply sp_start_service|].
    destruct (find_free_server _); [apply sp_start_service|apply sp_keeps, keeps_ret].
  Qed.
  Lemma sp_accept j x : svc_okb x = true -> sp (accept cf j x) top.
  Proof.
    intros Hx. unfold accept. sp_b. eapply sp_bind; [apply sp_put_ind; exact Hx|intros ? _]. sp_b.
    eapply sp_bind; [apply sp_keeps, ki_put_node|intros ? _]. apply sp_bsip_accept.
  Qed.
  Lemma sp_exit_accept x c : sp (exit_accept x c) top.
  Proof. unfold exit_accept. eapply sp_bind; [apply sp_del_ind|intros ? _]. apply sp_keeps. apply keeps_modify. intros; reflexivity. Qed.
  Lemma sp_write_individual_record j x : svc_okb x = true -> sp (write_individual_record cf j x) top.
  Proof.
    intros Hx. unfold write_individual_record. eapply sp_bind; [apply sp_is_inf|intros inf _].
    eapply sp_bind; [apply sp_keeps, ki_log_rec|intros ? _]. apply sp_put_ind. exact Hx.
  Qed.
  Lemma sp_bsip_release j freed : sp (begin_service_if_possible_release cf j freed) top.
  Proof.
    unfold begin_service_if_possible_release. destruct freed as [sid|]; [|apply sp_keeps, keeps_ret]. sp_b.
    destruct (find_server _ _); [|apply sp_keeps, keeps_ret].
    eapply sp_bind; [apply sp_keeps, ki_choose_next_customer|intros cand _]. destruct cand; [apply sp_start_service|apply sp_keeps, keeps_ret].
  Qed.
  Lemma sp_block_individual j i d : sp (block_individual j i d) top.
  Proof.
    unfold block_individual. eapply sp_bind; [apply sp_get_ind|]. intros x Hx. eapply sp_bind; [apply sp_put_ind; exact Hx|intros ? _].
    sp_b. apply sp_keeps, ki_put_node.
  Qed.
  Lemma sp_release : forall fu j i d, sp (release cf fu j i d) top.
  Proof.
    induction fu as [|fu IH]; intros j i d; cbn [release]; [intros s a s' I H; discriminate|].
    sp_b. eapply sp_bind; [apply sp_get_ind|]. intros x Hx. sp_b. sp_b. sp_b.
    eapply sp_bind; [apply sp_keeps, ki_put_node|intros ? _].
    eapply sp_bind; [apply sp_put_ind; exact Hx|intros ? _].
    eapply sp_bind; [apply sp_write_individual_record; exact Hx|intros ? _].
    eapply sp_bind; [apply sp_is_inf|intros inf _].
    eapply sp_bind with (phi := top).
    { destruct inf; [apply sp_keeps, keeps_ret|]. sp_b. sp_b. sp_b. sp_b. eapply sp_bind; [apply sp_keeps, ki_put_node|intros ? _]. apply sp_keeps, keeps_ret. }
    intros freed _. eapply sp_bind; [apply sp_get_ind|]. intros x2 Hx2.
    eapply sp_bind; [apply sp_put_ind; reflexivity|intros ? _].
    eapply sp_bind; [apply sp_bsip_release|intros ? _].
    eapply sp_bind with (phi := top); [destruct (d =? 0); [apply sp_exit_accept|apply sp_accept; reflexivity]|intros ? _].
    sp_b. eapply sp_bind; [apply sp_ncfg_of|intros nc _].
    destruct (_ && _); [|apply sp_keeps, keeps_ret]. destruct (n_bq _) as [|[from y] rest]; [apply sp_fail|].
    sp_b. eapply sp_bind with (phi := top); [destruct (memZ _ _); [apply sp_keeps, keeps_ret|apply sp_fail]|intros ? _].
    eapply sp_bind; [apply sp_keeps, ki_put_node|intros ? _]. apply IH.
  Qed.
  Lemma sp_finish_service j : sp (finish_service cf j) top.
  Proof.
    unfold finish_service. sp_b.
    eapply sp_bind with (phi := top).
    { destruct (n_next_inds _) as [|a0 [|b0 r0]]; [apply sp_fail|apply sp_keeps, keeps_ret|apply sp_keeps, ki_choice_uniform]. }
    intros i _. eapply sp_bind; [apply sp_get_ind|]. intros x Hx. eapply sp_bind; [apply sp_ncfg_of|intros nc _].
    eapply sp_bind with (phi := fun y => svc_okb y = true).
    { destruct (nc_ccm nc) as [m|]; [|apply sp_ret; exact Hx].
      eapply sp_bind; [apply sp_keeps, keeps_lift|intros row _]. eapply sp_bind; [apply sp_keeps, ki_choice_weighted|intros k _].
      eapply sp_bind; [apply sp_keeps, keeps_lift|intros p' _]. apply sp_ret. exact Hx. }
    intros x1 Hx1. sp_b. sp_b. eapply sp_bind; [apply sp_keeps, ki_choice_weighted|intros k _].
    eapply sp_bind; [apply sp_put_ind; exact Hx1|intros ? _].
    eapply sp_bind; [apply sp_is_inf|intros inf _].
    eapply sp_bind with (phi := top).
    { destruct inf; [apply sp_keeps, keeps_ret|]. sp_b. sp_b. sp_b. apply sp_keeps, ki_put_node. }
    intros ? _. eapply sp_bind with (phi := top).
    { destruct (_ =? 0); [apply sp_keeps, keeps_ret|]. sp_b. eapply sp_bind; [apply sp_ncfg_of|intros dc _]. apply sp_keeps, keeps_ret. }
    intros space _. destruct space; [sp_b; apply sp_release|apply sp_block_individual].
  Qed.
  Lemma sp_release_individual j x : svc_okb x = true -> sp (release_individual cf j x) top.
  Proof.
    intros Hx. unfold release_individual. sp_b. eapply sp_bind; [apply sp_ncfg_of|intros nc _].
    eapply sp_bind with (phi := top); [apply sp_keeps; unfold sys_population; apply keeps_bind; [apply keeps_gets|intros; apply keeps_ret]|intros sp0 _].
    eapply sp_bind; [apply sp_put_ind; exact Hx|intros ? _].
    assert (Hbr : forall ty, sp (write_br_record j x ty) top).
    { intros ty. apply sp_keeps. unfold write_br_record. apply keeps_bind; [apply keeps_gets|intros]. apply keeps_bind; [apply keeps_get_node|intros]. apply ki_log_rec. }
    destruct (_ || _); [eapply sp_bind; [apply Hbr|intros ? _]; apply sp_exit_accept|].
    eapply sp_bind; [sp_easy|intros tabs _]. eapply sp_bind; [sp_easy|intros tab _]. destruct tab as [tb|].
    - sp_b. destruct (_ <? _); [eapply sp_bind; [apply Hbr|intros ? _]; apply sp_exit_accept|]. sp_b. apply sp_accept. exact Hx.
    - sp_b. apply sp_accept. exact Hx.
  Qed.
  Lemma sp_batch_loop : forall n j c p, sp (batch_loop cf n j c p) top.
  Proof.
    induction n as [|n IH]; intros j c p; cbn [batch_loop]; [apply sp_keeps, keeps_ret|].
    sp_b. sp_b. eapply sp_bind; [apply sp_release_individual; reflexivity|intros ? _]. apply IH.
  Qed.
  Lemma sp_arrival_have_event : sp (arrival_have_event cf) top.
  Proof.
    unfold arrival_have_event. sp_b. sp_b.
    eapply sp_bind with (phi := top); [destruct (_ <? 0); [apply sp_fail|apply sp_keeps, keeps_ret]|intros ? _].
    sp_b. eapply sp_bind; [apply sp_batch_loop|intros ? _]. sp_b. sp_b. sp_b. sp_b. sp_b.
    apply sp_keeps. unfold find_next_event_date. apply keeps_modify. intros s. destruct (find_min_dates _ _ _) as [[? ?] ?]. reflexivity.
  Qed.
  Lemma ki_update_next_event_date j : keeps inds (update_next_event_date cf j).
  Proof.
    unfold update_next_event_date. apply keeps_bind; [apply keeps_get_node|intros nd]. apply keeps_bind; [|intros inf].
    { unfold is_inf. apply keeps_bind; [apply keeps_lift|intros; apply keeps_ret]. }
    apply keeps_bind; [apply keeps_gets|intros t]. apply keeps_bind; [apply keeps_gets|intros il].
    destruct (if inf then _ else _) as [d l]. apply ki_put_node.
  Qed.
  Lemma ki_update_all js : keeps inds (update_all cf js).
  Proof. induction js as [|j r IH]; cbn [update_all]; [apply keeps_ret|]. apply keeps_bind; [apply ki_update_next_event_date|intros; exact IH]. Qed.
  Lemma ki_find_next_active_node : keeps inds find_next_active_node.
  Proof.
    unfold find_next_active_node. apply keeps_bind; [apply keeps_gets|intros s0].
    destruct (scan_active _ _ _ _ _) as [d cands].
    apply keeps_bind; [destruct cands as [|a0 [|b0 r0]]; [apply keeps_fail|apply keeps_ret|apply ki_choice_uniform]|intros k].
    apply keeps_modify. intros; reflexivity.
  Qed.

  Theorem event_step_svc s s' : SvcInv s -> event_step cf s = Ok (tt, s') -> SvcInv s'.
  Proof.
    intros I H. assert (Hsp : sp (event_step cf) top).
    { unfold event_step. sp_b. sp_b.
      eapply sp_bind with (phi := top); [destruct (_ =? 0); [apply sp_arrival_have_event|apply sp_finish_service]|intros ? _].
      sp_b. eapply sp_bind; [apply sp_keeps, ki_update_all|intros ? _]. apply sp_keeps, ki_find_next_active_node. }
    apply (Hsp _ _ _ I H).
  Qed.
  Theorem run_many_svc : forall ds s s', SvcInv s -> run_many cf s ds = Ok s' -> SvcInv s'.
  Proof.
    induction ds as [|d r IH]; intros s s' I H; cbn [run_many] in H; [inversion H; subst; exact I|].
    destruct (event_step cf (s <| dr := d |>)) as [[[] s1]| |] eqn:E; try discriminate.
    eapply IH; [|exact H]. eapply event_step_svc; [|exact E]. exact I.
  Qed.

  (* in the words of the property: whoever is in service ends exactly at start + the duration stamped at its start
     (start_service_spec: that duration is the sample drawn at that start) *)
  Theorem SvcInv_means s x t0 : SvcInv s -> In x (inds s) -> i_sst x = Some t0 ->
    exists st, i_stime x = Some st /\ i_send x = Some (t0 + st).
  Proof.
    intros I Hin Hs. unfold SvcInv in I. rewrite forallb_forall in I. specialize (I x Hin). unfold svc_okb in I. rewrite Hs in I.
    destruct (i_stime x) as [st|]; [|discriminate]. destruct (i_send x) as [e|]; [|discriminate]. apply Z.eqb_eq in I. subst e. eauto.
  Qed.

  (* the record written at release shows exactly that duration *)
  Theorem record_shows_sampled_time j x s s' t0 : svc_okb x = true -> i_sst x = Some t0 -> write_individual_record cf j x s = Ok (tt, s') ->
    exists r pre, log s' = pre ++ [r] /\ r_id r = i_id x /\ r_type r = 0 /\ r_stime r = i_stime x /\ r_sst r = Some t0 /\ r_send r = i_send x.
  Proof.
    intros Hx Hs H. unfold write_individual_record in H. unfold bind at 1 in H.
    destruct (is_inf cf j s) as [[inf s0]| |] eqn:E0; try discriminate. apply ro_is_inf in E0. subst s0.
    unfold bind, log_rec, put_ind, modify in H. injection H as <-. eexists _, (log s). split; [reflexivity|]. cbn.
    split; [reflexivity|]. split; [reflexivity|]. unfold svc_okb in Hx. rewrite Hs in *.
    destruct (i_stime x) as [st|]; [|discriminate]. destruct (i_send x) as [e|]; [|discriminate]. apply Z.eqb_eq in Hx. subst e. cbn.
    split; [f_equal; lia|]. split; reflexivity.
  Qed.

End Samples.

Print Assumptions arrival_have_event_spec.
Print Assumptions negative_batch_is_an_error.
Print Assumptions start_service_spec.
Print Assumptions finish_service_keeps_arrivals.
Print Assumptions event_step_svc.
Print Assumptions run_many_svc.
Print Assumptions SvcInv_means.
Print Assumptions record_shows_sampled_time.

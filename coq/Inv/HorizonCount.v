(* HorizonCount.v -- T2 for C14 (second half) on the engine model: simulate_until_max_customers(n, method) stops after the
   first event at which the method's count reaches n.

   The Python loop is
       next_active_node = find_next_active_node(); current_time = next_active_node.next_event_date
       while check() < max_customers:  next_active_node = event_and_return_nextnode(next_active_node)
                                       current_time = next_active_node.next_event_date
   where check() reads, according to the method,
       'Complete' (0)  nodes[-1].number_of_completed_individuals   = exit_completed s
       'Finish'   (1)  nodes[-1].number_of_individuals             = exit_n s          (incl. baulked / rejected)
       'Arrive'   (2)  nodes[0].number_of_individuals              = a_created (arr s)
       'Accept'   (3)  nodes[0].number_accepted_individuals        = a_accepted (arr s)
   (any other method string raises ValueError before the loop: count_of is only meant for m = 0..3).
   As in Horizon.v, find_next_active_node is the last action of event_step, so the loop of the model is
   "while count_of m s < n do event_step", driven like Codec.run_many by one record of draws per event; run_count is that
   loop and returns the unused draws.

   Contents
     crel k / cg k    a relation between the state before and after an engine function: the four counters never go down,
                      the completed counter never grows by more than the exit counter, and the quantity
                      gap = (exit_n - exit_completed) - (a_created - a_accepted) changes by exactly k.
                      Every engine function has k = 0 except the creation of a customer (k = -1) and
                      ArrivalNode.release_individual (k = +1: the new customer is either accepted, or sent to the exit
                      without completing); one iteration of the batch loop does both, so event_step has k = 0.
     Cnt, CInv        the invariant: 0 <= completed <= finished, 0 <= accepted, gap = 0; with Conserve.WFx [] it gives
                      completed <= finished <= arrived, accepted <= arrived and
                      finished - completed = arrived - accepted   (count_means).
     run_count ...    the loop; agreement with run_many; the count was < n before every executed event and is >= n at
                      return when draws are left; the loop stopped after the FIRST event at which the count reached n;
                      every count is monotone along the run; pause / resume; instance of Sub/Loop.v's loop_count. *)
From Coq Require Import ZArith List Bool Lia Permutation.
From RecordUpdate Require Import RecordUpdate.
From CiwV Require Import Sx Prelude Routing.
From CiwV Require Loop.
From CiwV.Engine Require Import State Engine Codec.
From CiwV.Inv Require Import Frame Conserve ConserveRun Clock Horizon.
Import ListNotations.
Open Scope Z_scope.

(* ================= the four counts ================= *)
Definition count_of (m : Z) (s : sim) : Z :=
  if m =? 0 then exit_completed s
  else if m =? 1 then exit_n s
  else if m =? 2 then a_created (arr s)
  else a_accepted (arr s).

(* those who reached the exit without completing, minus those who arrived without being accepted *)
Definition gap (s : sim) : Z := (exit_n s - exit_completed s) - (a_created (arr s) - a_accepted (arr s)).

(* ================= the relation between pre- and post-state ================= *)
Definition crel (k : Z) (s s' : sim) : Prop :=
  exit_completed s <= exit_completed s' /\ exit_n s <= exit_n s' /\
  a_created (arr s) <= a_created (arr s') /\ a_accepted (arr s) <= a_accepted (arr s') /\
  exit_completed s' - exit_completed s <= exit_n s' - exit_n s /\
  gap s' = gap s + k.

Lemma crel_refl s : crel 0 s s.
Proof. unfold crel. lia. Qed.
Lemma crel_trans k1 k2 a b c : crel k1 a b -> crel k2 b c -> crel (k1 + k2) a c.
Proof. unfold crel. intros (A1 & A2 & A3 & A4 & A5 & A6) (B1 & B2 & B3 & B4 & B5 & B6). repeat split; lia. Qed.
Lemma crel_same s s' : exit_completed s' = exit_completed s -> exit_n s' = exit_n s -> arr s' = arr s -> crel 0 s s'.
Proof. intros A B C. unfold crel, gap. rewrite A, B, C. lia. Qed.

(* (3) each count is monotone *)
Lemma crel_count k m s s' : crel k s s' -> count_of m s <= count_of m s'.
Proof.
  intros (A1 & A2 & A3 & A4 & _). unfold count_of.
  destruct (m =? 0); [exact A1|]. destruct (m =? 1); [exact A2|]. destruct (m =? 2); [exact A3|exact A4].
Qed.

Definition cg {A} (k : Z) (m : M A) : Prop := forall s a s', m s = Ok (a, s') -> crel k s s'.

Lemma cg_ret {A} (a : A) : cg 0 (ret a).
Proof. intros s a0 s' H. inversion H. apply crel_refl. Qed.
Lemma cg_fail {A} k e : cg k (@fail A e).
Proof. intros s a s' H. discriminate. Qed.
Lemma cg_bind_gen {A B} k1 k2 k (m : M A) (f : A -> M B) : k = k1 + k2 -> cg k1 m -> (forall a, cg k2 (f a)) -> cg k (bind m f).
Proof.
  intros -> Hm Hf s b s' H. unfold bind in H. destruct (m s) as [[a s1]| |] eqn:E; try discriminate.
  eapply crel_trans; [eapply Hm; eauto|eapply Hf; eauto].
Qed.
Lemma cg_bind {A B} (m : M A) (f : A -> M B) : cg 0 m -> (forall a, cg 0 (f a)) -> cg 0 (bind m f).
Proof. apply cg_bind_gen. reflexivity. Qed.
Lemma cg_bind01 {A B} (m : M A) (f : A -> M B) : cg 0 m -> (forall a, cg 1 (f a)) -> cg 1 (bind m f).
Proof. apply cg_bind_gen. reflexivity. Qed.
Lemma cg_bind10 {A B} (m : M A) (f : A -> M B) : cg 1 m -> (forall a, cg 0 (f a)) -> cg 1 (bind m f).
Proof. apply cg_bind_gen. reflexivity. Qed.
Lemma cg_gets {A} (f : sim -> A) : cg 0 (gets f).
Proof. intros s a s' H. inversion H. apply crel_refl. Qed.
Lemma cg_lift {A} e (o : option A) : cg 0 (lift e o).
Proof. destruct o; [apply cg_ret|apply cg_fail]. Qed.
Lemma cg_modify k (f : sim -> sim) : (forall s, crel k s (f s)) -> cg k (modify f).
Proof. intros Hf s a s' H. inversion H. apply Hf. Qed.
Lemma cg_same (f : sim -> sim) :
  (forall s, exit_completed (f s) = exit_completed s /\ exit_n (f s) = exit_n s /\ arr (f s) = arr s) -> cg 0 (modify f).
Proof. intros Hf. apply cg_modify. intros s. destruct (Hf s) as (A & B & C). apply crel_same; assumption. Qed.
Lemma cg_get_node j : cg 0 (get_node j).
Proof. intros s a s' H. unfold get_node in H. destruct (nthZ (nodes s) (j - 1)); inversion H; apply crel_refl. Qed.
Lemma cg_get_ind i : cg 0 (get_ind i).
Proof. intros s a s' H. unfold get_ind in H. destruct (find_ind i (inds s)); inversion H; apply crel_refl. Qed.
Lemma cg_put_node nd : cg 0 (put_node nd). Proof. apply cg_same. intros s. repeat split; reflexivity. Qed.
Lemma cg_put_ind x : cg 0 (put_ind x). Proof. apply cg_same. intros s. repeat split; reflexivity. Qed.
Lemma cg_del_ind i : cg 0 (del_ind i). Proof. apply cg_same. intros s. repeat split; reflexivity. Qed.
Lemma cg_log_rec r : cg 0 (log_rec r). Proof. apply cg_same. intros s. repeat split; reflexivity. Qed.
Lemma cg_draw_arr : cg 0 draw_arr.
Proof. intros s a s' H. unfold draw_arr in H. destruct (d_arr (dr s)); inversion H. apply crel_same; reflexivity. Qed.
Lemma cg_draw_batch : cg 0 draw_batch.
Proof. intros s a s' H. unfold draw_batch in H. destruct (d_batch (dr s)); inversion H. apply crel_same; reflexivity. Qed.
Lemma cg_draw_svc : cg 0 draw_svc.
Proof. intros s a s' H. unfold draw_svc in H. destruct (d_svc (dr s)); inversion H. apply crel_same; reflexivity. Qed.
Lemma cg_draw_unif : cg 0 draw_unif.
Proof. intros s a s' H. unfold draw_unif in H. destruct (d_unif (dr s)); inversion H. apply crel_same; reflexivity. Qed.

Ltac c_step :=
  first
    [ apply cg_ret | apply cg_fail | apply cg_gets | apply cg_lift | apply cg_get_node | apply cg_get_ind
    | apply cg_put_node | apply cg_put_ind | apply cg_del_ind | apply cg_log_rec
    | apply cg_draw_arr | apply cg_draw_batch | apply cg_draw_svc | apply cg_draw_unif
    | (apply cg_bind; [|intros])
    | match goal with
      | |- cg _ (if ?b then _ else _) => destruct b
      | |- cg _ (match ?x with _ => _ end) => destruct x
      | |- cg _ (let '(_, _) := ?x in _) => destruct x
      end ].
Ltac c_same := apply cg_same; intros ?; repeat split; reflexivity.

(* ================= the invariant, and an executable test of it ================= *)
Definition Cnt (s : sim) : Prop :=
  0 <= exit_completed s <= exit_n s /\ 0 <= a_accepted (arr s) /\ gap s = 0.
(* the configuration plays no role in the invariant; the argument is there for uniformity with the other invariants *)
Definition CInv (cf : config) (s : sim) : Prop := WFx [] s /\ Cnt s.

Definition cnt_b (s : sim) : bool :=
  (0 <=? exit_completed s) && (exit_completed s <=? exit_n s) && (0 <=? a_accepted (arr s)) && (gap s =? 0).
Definition cinv_b (cf : config) (s : sim) : bool := wfx_b s && cnt_b s.
Theorem cnt_b_sound s : cnt_b s = true -> Cnt s.
Proof.
  unfold cnt_b. intros H. apply andb_true_iff in H as [H H4]. apply andb_true_iff in H as [H H3]. apply andb_true_iff in H as [H1 H2].
  apply Z.leb_le in H1. apply Z.leb_le in H2. apply Z.leb_le in H3. apply Z.eqb_eq in H4. unfold Cnt. lia.
Qed.
Theorem cinv_b_sound cf s : cinv_b cf s = true -> CInv cf s.
Proof. unfold cinv_b. intros H. apply andb_true_iff in H as [H1 H2]. split; [apply wfx_b_sound; exact H1|apply cnt_b_sound; exact H2]. Qed.

Section Counts.
  Variable cf : config.

  Lemma c_ncfg_of j : cg 0 (ncfg_of cf j). Proof. apply cg_lift. Qed.
  Lemma c_is_inf j : cg 0 (is_inf cf j). Proof. unfold is_inf. apply cg_bind; [apply c_ncfg_of|intros; apply cg_ret]. Qed.
  Lemma c_choice_uniform {A} (l : list A) : cg 0 (choice_uniform l). Proof. unfold choice_uniform. repeat c_step. Qed.
  Lemma c_choice_weighted den P : cg 0 (choice_weighted den P). Proof. unfold choice_weighted. repeat c_step. Qed.
  Lemma c_choose_next_customer nd : cg 0 (choose_next_customer cf nd).
  Proof. unfold choose_next_customer. repeat first [apply c_ncfg_of | apply c_choice_uniform | c_step]. Qed.
  Lemma c_start_service j i srv : cg 0 (start_service j i srv). Proof. unfold start_service. repeat c_step. Qed.
  Lemma c_bsip_accept j i : cg 0 (begin_service_if_possible_accept cf j i).
  Proof. unfold begin_service_if_possible_accept. repeat first [apply c_is_inf | apply c_choose_next_customer | apply c_start_service | c_step]. Qed.
  Lemma c_accept j x : cg 0 (accept cf j x). Proof. unfold accept. repeat first [apply c_bsip_accept | c_step]. Qed.

  (* ExitNode.accept: a completed journey counts in both exit counters, an uncompleted one only in the first *)
  Lemma c_exit_accept_true x : cg 0 (exit_accept x true).
  Proof.
    unfold exit_accept. apply cg_bind; [apply cg_del_ind|]. intros _. apply cg_modify. intros s.
    unfold crel, gap. cbn. lia.
  Qed.
  Lemma c_exit_accept_false x : cg 1 (exit_accept x false).
  Proof.
    unfold exit_accept. apply cg_bind01; [apply cg_del_ind|]. intros _. apply cg_modify. intros s.
    unfold crel, gap. cbn. lia.
  Qed.

  Lemma c_write_individual_record j x : cg 0 (write_individual_record cf j x).
  Proof. unfold write_individual_record. repeat first [apply c_is_inf | c_step]. Qed.
  Lemma c_write_br_record j x ty : cg 0 (write_br_record j x ty). Proof. unfold write_br_record. repeat c_step. Qed.
  Lemma c_bsip_release j freed : cg 0 (begin_service_if_possible_release cf j freed).
  Proof. unfold begin_service_if_possible_release. repeat first [apply c_choose_next_customer | apply c_start_service | c_step]. Qed.
  Lemma c_block_individual j i d : cg 0 (block_individual j i d). Proof. unfold block_individual. repeat c_step. Qed.
  Lemma c_release : forall f j i d, cg 0 (release cf f j i d).
  Proof.
    induction f as [|f IH]; intros j i d; cbn [release]; [intros s a s' H; discriminate|].
    repeat first [ apply IH | apply c_is_inf | apply c_ncfg_of | apply c_write_individual_record | apply c_bsip_release
                 | apply c_exit_accept_true | apply c_accept | c_step ].
  Qed.
  Lemma c_finish_service j : cg 0 (finish_service cf j).
  Proof.
    unfold finish_service.
    repeat first [ apply c_release | apply c_block_individual | apply c_is_inf | apply c_ncfg_of | apply c_choice_uniform | apply c_choice_weighted | c_step ].
  Qed.
  Lemma c_sys_population : cg 0 sys_population. Proof. unfold sys_population. repeat c_step. Qed.

  (* number_accepted_individuals += 1 *)
  Lemma c_count_accepted : cg 1 (modify (fun s => s <| arr := arr s <| a_accepted := a_accepted (arr s) + 1 |> |>)).
  Proof. apply cg_modify. intros s. unfold crel, gap. cbn. lia. Qed.
  (* number_of_individuals += 1 *)
  Lemma c_count_created : cg (-1) (modify (fun s => s <| arr := arr s <| a_created := a_created (arr s) + 1 |> |>)).
  Proof. apply cg_modify. intros s. unfold crel, gap. cbn. lia. Qed.

  (* ArrivalNode.release_individual: the new customer is rejected (exit, not completed), baulks (the same) or is accepted *)
  Lemma c_release_individual j x : cg 1 (release_individual cf j x).
  Proof.
    unfold release_individual.
    apply cg_bind01; [apply cg_get_node|]. intros nd.
    apply cg_bind01; [apply c_ncfg_of|]. intros nc.
    apply cg_bind01; [apply c_sys_population|]. intros sp.
    apply cg_bind01; [apply cg_put_ind|]. intros _.
    cbv zeta.
    match goal with |- cg 1 (if ?b then _ else _) => destruct b end.
    - apply cg_bind01; [apply c_write_br_record|]. intros _. apply c_exit_accept_false.
    - apply cg_bind01; [apply cg_lift|]. intros tabs.
      apply cg_bind01; [apply cg_lift|]. intros tab.
      destruct tab as [tb|].
      + apply cg_bind01; [apply cg_draw_unif|]. intros u. cbv zeta.
        match goal with |- cg 1 (if ?b then _ else _) => destruct b end.
        * apply cg_bind01; [apply c_write_br_record|]. intros _. apply c_exit_accept_false.
        * apply cg_bind10; [apply c_count_accepted|]. intros _. apply c_accept.
      + apply cg_bind10; [apply c_count_accepted|]. intros _. apply c_accept.
  Qed.

  Lemma c_batch_loop : forall n j c p, cg 0 (batch_loop cf n j c p).
  Proof.
    induction n as [|n IH]; intros j c p; cbn [batch_loop]; [apply cg_ret|].
    apply (cg_bind_gen (-1) 1 0); [reflexivity|apply c_count_created|]. intros _.
    apply (cg_bind_gen 0 1 1); [reflexivity|apply cg_gets|]. intros i.
    apply cg_bind10; [apply c_release_individual|]. intros _. apply IH.
  Qed.
  Lemma c_find_next_event_date : cg 0 find_next_event_date.
  Proof.
    apply cg_modify. intros s. destruct (find_min_dates 1 (a_dates (arr s)) (None, 0, 0)) as [[d j] c].
    unfold crel, gap. cbn. lia.
  Qed.
  Lemma c_set_dates (f : sim -> list (list (option Z))) : cg 0 (modify (fun s => s <| arr := arr s <| a_dates := f s |> |>)).
  Proof. apply cg_modify. intros s. unfold crel, gap. cbn. lia. Qed.
  Lemma c_arrival_have_event : cg 0 (arrival_have_event cf).
  Proof.
    unfold arrival_have_event.
    repeat first [ apply c_batch_loop | apply c_find_next_event_date
                 | match goal with |- cg 0 (modify (fun s => s <| arr := arr s <| a_dates := @?f s |> |>)) => apply (c_set_dates f) end
                 | c_step ].
  Qed.
  Lemma c_update_next_event_date j : cg 0 (update_next_event_date cf j).
  Proof. unfold update_next_event_date. repeat first [apply c_is_inf | c_step]. Qed.
  Lemma c_update_all js : cg 0 (update_all cf js).
  Proof. induction js as [|j r IH]; cbn [update_all]; [apply cg_ret|]. apply cg_bind; [apply c_update_next_event_date|intros; exact IH]. Qed.
  Lemma c_find_next_active_node : cg 0 find_next_active_node.
  Proof.
    unfold find_next_active_node. apply cg_bind; [apply cg_gets|]. intros s0.
    destruct (scan_active 0 (a_next_date (arr s0) :: map n_next_date (nodes s0)) None [] true) as [d cands].
    apply cg_bind; [destruct cands as [|a [|b r]]; [apply cg_fail|apply cg_ret|apply c_choice_uniform]|].
    intros k. c_same.
  Qed.

  (* ---------- one event ---------- *)
  Theorem event_step_crel : cg 0 (event_step cf).
  Proof.
    unfold event_step.
    repeat first [ apply c_arrival_have_event | apply c_finish_service | apply c_update_all | apply c_find_next_active_node
                 | c_same | c_step ].
  Qed.

  (* ---------- any number of events ---------- *)
  Theorem run_many_crel : forall ds s s', run_many cf s ds = Ok s' -> crel 0 s s'.
  Proof.
    induction ds as [|d r IH]; intros s s' H; cbn [run_many] in H; [inversion H; apply crel_refl|].
    destruct (event_step cf (s <| dr := d |>)) as [[u s1]| |] eqn:E; try discriminate.
    change 0 with (0 + 0). eapply crel_trans; [|eapply IH; exact H].
    pose proof (event_step_crel _ _ _ E) as G. exact G.
  Qed.

  (* (3) every count is monotone over an event and over a run; hence once reached it stays reached *)
  Theorem event_step_count_mono m s s' : event_step cf s = Ok (tt, s') -> count_of m s <= count_of m s'.
  Proof. intros H. eapply crel_count. eapply event_step_crel. exact H. Qed.
  Theorem run_many_count_mono m ds s s' : run_many cf s ds = Ok s' -> count_of m s <= count_of m s'.
  Proof. intros H. eapply crel_count. eapply run_many_crel. exact H. Qed.
  Corollary count_stays_reached m n ds s s' : run_many cf s ds = Ok s' -> n <= count_of m s -> n <= count_of m s'.
  Proof. intros H Hn. pose proof (run_many_count_mono m _ _ _ H). lia. Qed.

  Lemma crel_Cnt s s' : crel 0 s s' -> Cnt s -> Cnt s'.
  Proof. unfold crel, Cnt. intros (A1 & A2 & A3 & A4 & A5 & A6) (B1 & B2 & B3). repeat split; lia. Qed.

  Theorem event_step_cnt s s' : Cnt s -> event_step cf s = Ok (tt, s') -> Cnt s'.
  Proof. intros HC H. eapply crel_Cnt; [eapply event_step_crel; exact H|exact HC]. Qed.
  Theorem run_many_cnt ds s s' : Cnt s -> run_many cf s ds = Ok s' -> Cnt s'.
  Proof. intros HC H. eapply crel_Cnt; [eapply run_many_crel; exact H|exact HC]. Qed.

  (* T2: one event, any number of events (no hypothesis on the draws) *)
  Theorem event_step_count s s' : CInv cf s -> event_step cf s = Ok (tt, s') -> CInv cf s'.
  Proof. intros [HW HC] H. split; [eapply event_step_conserves; eauto|eapply event_step_cnt; eauto]. Qed.
  Theorem run_many_count ds s s' : CInv cf s -> run_many cf s ds = Ok s' -> CInv cf s'.
  Proof. intros [HW HC] H. split; [eapply run_many_conserves; eauto|eapply run_many_cnt; eauto]. Qed.

  Lemma zsum_nonneg l : (forall x, In x l -> 0 <= x) -> 0 <= zsum l.
  Proof.
    induction l as [|a r IH]; intros H; unfold zsum in *; cbn [fold_right]; [lia|].
    pose proof (H a (or_introl eq_refl)). assert (0 <= fold_right Z.add 0 r) by (apply IH; intros x Hx; apply H; right; exact Hx). lia.
  Qed.

  (* (4) the invariant in the words of the property:
         0 <= completed <= finished <= arrived,  0 <= accepted <= arrived,
         finished - completed (baulked or rejected) = arrived - accepted,
         and those arrived and not yet finished are the customers in the nodes *)
  Theorem count_means s : CInv cf s ->
    0 <= count_of 0 s /\ count_of 0 s <= count_of 1 s /\ count_of 1 s <= count_of 2 s /\
    0 <= count_of 3 s /\ count_of 3 s <= count_of 2 s /\
    count_of 1 s - count_of 0 s = count_of 2 s - count_of 3 s /\
    count_of 2 s - count_of 1 s = zsum (map n_pop (nodes s)).
  Proof.
    intros [HW (B1 & B2 & B3)]. destruct (WFx_means s HW) as (_ & _ & Hpop & _ & Hsum).
    assert (Hz : 0 <= zsum (map n_pop (nodes s))).
    { apply zsum_nonneg. intros x Hx. apply in_map_iff in Hx. destruct Hx as (nd & <- & Hnd). rewrite (Hpop nd Hnd). unfold zlen. lia. }
    unfold gap in B3. change (count_of 0 s) with (exit_completed s). change (count_of 1 s) with (exit_n s).
    change (count_of 2 s) with (a_created (arr s)). change (count_of 3 s) with (a_accepted (arr s)).
    repeat split; lia.
  Qed.


  (* ================= the loop ================= *)
  Fixpoint run_count (m n : Z) (s : sim) (ds : list draws) : res (sim * list draws) :=
    match ds with
    | [] => Ok (s, [])
    | d :: r =>
      if count_of m s <? n then
        match event_step cf (s <| dr := d |>) with
        | Ok (_, s') => run_count m n s' r
        | Err e => Err e
        | OutOfFuel => OutOfFuel
        end
      else Ok (s, ds)
    end.

  (* the same loop, also returning the states from which an event was executed, in order *)
  Fixpoint run_count_tr (m n : Z) (s : sim) (ds : list draws) : res (list sim * sim * list draws) :=
    match ds with
    | [] => Ok ([], s, [])
    | d :: r =>
      if count_of m s <? n then
        match event_step cf (s <| dr := d |>) with
        | Ok (_, s') =>
          match run_count_tr m n s' r with
          | Ok (tr, s'', rest) => Ok (s :: tr, s'', rest)
          | Err e => Err e
          | OutOfFuel => OutOfFuel
          end
        | Err e => Err e
        | OutOfFuel => OutOfFuel
        end
      else Ok ([], s, ds)
    end.

  Lemma run_count_forget m n : forall ds s,
    run_count m n s ds = match run_count_tr m n s ds with Ok (_, s', r) => Ok (s', r) | Err e => Err e | OutOfFuel => OutOfFuel end.
  Proof.
    induction ds as [|d r IH]; intros s; cbn [run_count run_count_tr]; [reflexivity|].
    destruct (count_of m s <? n); [|reflexivity].
    destruct (event_step cf (s <| dr := d |>)) as [[u s1]| |]; try reflexivity.
    rewrite IH. destruct (run_count_tr m n s1 r) as [[[tr s2] rest]| |]; reflexivity.
  Qed.
  Lemma run_count_has_trace m n ds s s' rest : run_count m n s ds = Ok (s', rest) -> exists tr, run_count_tr m n s ds = Ok (tr, s', rest).
  Proof.
    rewrite run_count_forget. destruct (run_count_tr m n s ds) as [[[tr s2] rest2]| |]; intros H; try discriminate.
    inversion H. subst s2 rest2. exists tr. reflexivity.
  Qed.

  (* (1), (2) with no hypothesis at all: the loop consumed a prefix `used` of the draws, its result is Codec.run_many on
     that prefix, every state from which an event was executed is run_many of a shorter prefix and had count < n, and when
     draws are left over the loop stopped because the count had reached n *)
  Lemma run_count_tr_spec m n : forall ds s tr s' rest, run_count_tr m n s ds = Ok (tr, s', rest) ->
    exists used, ds = used ++ rest /\ length used = length tr /\ run_many cf s used = Ok s' /\
      Forall (fun x => count_of m x < n) tr /\ (rest <> [] -> n <= count_of m s') /\
      (forall k x, nth_error tr k = Some x -> run_many cf s (firstn k used) = Ok x).
  Proof.
    induction ds as [|d r IH]; intros s tr s' rest H; cbn [run_count_tr] in H.
    - inversion H. subst tr s' rest. exists []. split; [reflexivity|]. split; [reflexivity|]. split; [reflexivity|]. split; [constructor|].
      split; [intros Hne; exfalso; apply Hne; reflexivity|]. intros k x Hk. destruct k; discriminate.
    - destruct (count_of m s <? n) eqn:Eb.
      + destruct (event_step cf (s <| dr := d |>)) as [[u s1]| |] eqn:Ee; try discriminate.
        destruct (run_count_tr m n s1 r) as [[[tr1 s2] rest1]| |] eqn:Er; try discriminate.
        inversion H. subst tr s' rest. clear H.
        destruct (IH _ _ _ _ Er) as (used & E1 & E2 & E3 & E4 & E5 & E6).
        exists (d :: used). split; [cbn [app]; f_equal; exact E1|]. split; [cbn [length]; f_equal; exact E2|].
        split; [cbn [run_many]; rewrite Ee; exact E3|]. split; [constructor; [apply Z.ltb_lt; exact Eb|exact E4]|]. split; [exact E5|].
        intros k x Hk. destruct k as [|k]; cbn [nth_error] in Hk.
        * injection Hk as <-. reflexivity.
        * cbn [firstn run_many]. rewrite Ee. apply E6. exact Hk.
      + inversion H. subst tr s' rest. exists []. split; [reflexivity|]. split; [reflexivity|]. split; [reflexivity|]. split; [constructor|].
        split; [intros _; apply Z.ltb_ge; exact Eb|]. intros k x Hk. destruct k; discriminate.
  Qed.

  (* (1) run_count agrees with Codec.run_many on the draws it consumed; (2) with draws to spare the count has reached n *)
  Theorem run_count_run_many m n ds s s' rest : run_count m n s ds = Ok (s', rest) ->
    exists used, ds = used ++ rest /\ run_many cf s used = Ok s' /\ (rest <> [] -> n <= count_of m s').
  Proof.
    intros H. destruct (run_count_has_trace _ _ _ _ _ _ H) as [tr Htr].
    destruct (run_count_tr_spec _ _ _ _ _ _ _ Htr) as (used & E1 & _ & E3 & _ & E5 & _). exists used. auto.
  Qed.

  (* (2) the loop stopped after the FIRST event at which the count reached n: the state reached after each shorter
     prefix of the consumed draws had count < n *)
  Theorem run_count_first m n ds s s' rest : run_count m n s ds = Ok (s', rest) ->
    exists used, ds = used ++ rest /\ run_many cf s used = Ok s' /\ (rest <> [] -> n <= count_of m s') /\
      forall k, (k < length used)%nat -> exists x, run_many cf s (firstn k used) = Ok x /\ count_of m x < n.
  Proof.
    intros H. destruct (run_count_has_trace _ _ _ _ _ _ H) as [tr Htr].
    destruct (run_count_tr_spec _ _ _ _ _ _ _ Htr) as (used & E1 & E2 & E3 & E4 & E5 & E6). exists used.
    split; [exact E1|]. split; [exact E3|]. split; [exact E5|].
    intros k Hk. rewrite E2 in Hk. apply nth_error_Some in Hk.
    destruct (nth_error tr k) as [x|] eqn:Ex; [|exfalso; apply Hk; reflexivity].
    exists x. split; [apply E6; exact Ex|]. rewrite Forall_forall in E4. apply E4. eapply nth_error_In; exact Ex.
  Qed.

  Lemma run_many_app : forall a b s,
    run_many cf s (a ++ b) = match run_many cf s a with Ok x => run_many cf x b | Err e => Err e | OutOfFuel => OutOfFuel end.
  Proof.
    induction a as [|d r IH]; intros b s; cbn [app run_many]; [reflexivity|].
    destruct (event_step cf (s <| dr := d |>)) as [[u s1]| |]; try reflexivity. apply IH.
  Qed.

  (* (2) said of the last executed event: it took the count from below n to n or above *)
  Theorem run_count_last m n ds s s' rest u0 d : run_count m n s ds = Ok (s', rest) -> rest <> [] -> ds = (u0 ++ [d]) ++ rest ->
    exists x, run_many cf s u0 = Ok x /\ count_of m x < n /\ event_step cf (x <| dr := d |>) = Ok (tt, s') /\ n <= count_of m s'.
  Proof.
    intros H Hne Hds. destruct (run_count_first _ _ _ _ _ _ H) as (used & E1 & E3 & E5 & E6).
    assert (Hu : used = u0 ++ [d]) by (rewrite E1 in Hds; apply app_inv_tail in Hds; exact Hds).
    rewrite Hu in E3, E6. clear Hu E1.
    destruct (E6 (length u0)) as (x & Hx & Hlt); [rewrite app_length; cbn [length]; lia|].
    rewrite firstn_app, firstn_all, Nat.sub_diag in Hx. cbn [firstn] in Hx. rewrite app_nil_r in Hx.
    exists x. split; [exact Hx|]. split; [exact Hlt|]. split; [|exact (E5 Hne)].
    rewrite run_many_app, Hx in E3. cbn [run_many] in E3.
    destruct (event_step cf (x <| dr := d |>)) as [[u s1]| |]; try discriminate. destruct u. inversion E3. reflexivity.
  Qed.

  (* (3) along the loop every one of the four counts (not only the watched one) is nondecreasing *)
  Theorem run_count_tr_mono m n m' : forall ds s tr s' rest, run_count_tr m n s ds = Ok (tr, s', rest) ->
    chain (count_of m' s) (map (count_of m') tr ++ [count_of m' s']).
  Proof.
    induction ds as [|d r IH]; intros s tr s' rest H; cbn [run_count_tr] in H.
    - inversion H. subst tr s' rest. cbn. lia.
    - destruct (count_of m s <? n) eqn:Eb.
      + destruct (event_step cf (s <| dr := d |>)) as [[u s1]| |] eqn:Ee; try discriminate. destruct u.
        destruct (run_count_tr m n s1 r) as [[[tr1 s2] rest1]| |] eqn:Er; try discriminate.
        inversion H. subst tr s' rest. clear H.
        pose proof (event_step_count_mono m' _ _ Ee) as L1. change (count_of m' (s <| dr := d |>)) with (count_of m' s) in L1.
        cbn [map app chain]. split; [lia|]. eapply chain_le; [exact L1|]. eapply IH. exact Er.
      + inversion H. subst tr s' rest. cbn. lia.
  Qed.

  (* the invariant holds at every state from which an event was executed and at return *)
  Theorem run_count_tr_inv m n : forall ds s tr s' rest, CInv cf s -> run_count_tr m n s ds = Ok (tr, s', rest) ->
    Forall (CInv cf) tr /\ CInv cf s'.
  Proof.
    induction ds as [|d r IH]; intros s tr s' rest HZ H; cbn [run_count_tr] in H.
    - inversion H. subst tr s' rest. split; [constructor|exact HZ].
    - destruct (count_of m s <? n) eqn:Eb.
      + destruct (event_step cf (s <| dr := d |>)) as [[u s1]| |] eqn:Ee; try discriminate. destruct u.
        destruct (run_count_tr m n s1 r) as [[[tr1 s2] rest1]| |] eqn:Er; try discriminate.
        inversion H. subst tr s' rest. clear H.
        assert (HZ' : CInv cf (s <| dr := d |>)) by exact HZ.
        destruct (IH _ _ _ _ (event_step_count _ _ HZ' Ee) Er) as [A B]. split; [constructor; [exact HZ|exact A]|exact B].
      + inversion H. subst tr s' rest. split; [constructor|exact HZ].
  Qed.
  Theorem run_count_inv m n ds s s' rest : CInv cf s -> run_count m n s ds = Ok (s', rest) -> CInv cf s' /\ count_of m s <= count_of m s'.
  Proof.
    intros HZ H. destruct (run_count_run_many _ _ _ _ _ _ H) as (used & _ & E2 & _).
    split; [eapply run_many_count; eauto|eapply run_many_count_mono; eauto].
  Qed.

  (* pause / resume: a call to n1 followed by a call to n >= n1 on the remaining draws is one call to n (any method);
     in particular calling again with the same n does nothing *)
  Theorem run_count_split_eq m n1 n : n1 <= n -> forall ds s,
    run_count m n s ds =
    match run_count m n1 s ds with Ok (s1, r1) => run_count m n s1 r1 | Err e => Err e | OutOfFuel => OutOfFuel end.
  Proof.
    intros Hn. induction ds as [|d r IH]; intros s; cbn [run_count]; [reflexivity|].
    destruct (count_of m s <? n1) eqn:Eb; [|reflexivity].
    assert (Eb' : count_of m s <? n = true) by (apply Z.ltb_lt in Eb; apply Z.ltb_lt; lia). rewrite Eb'.
    destruct (event_step cf (s <| dr := d |>)) as [[u s2]| |]; try reflexivity. apply IH.
  Qed.
  Theorem run_count_split m n1 n : n1 <= n -> forall ds s s1 r1, run_count m n1 s ds = Ok (s1, r1) ->
    run_count m n s1 r1 = run_count m n s ds.
  Proof. intros Hn ds s s1 r1 H. rewrite (run_count_split_eq m n1 n Hn ds s), H. reflexivity. Qed.
  Corollary run_count_again m n ds s s' rest : run_count m n s ds = Ok (s', rest) -> run_count m n s' rest = Ok (s', rest).
  Proof. intros H. rewrite (run_count_split m n n (Z.le_refl n) _ _ _ _ H). exact H. Qed.

  (* ---------- C14, second half, in the words of the property ---------- *)
  Theorem engine_count m n ds s s' rest : CInv cf s -> run_count m n s ds = Ok (s', rest) ->
    exists used tr,
      (* the loop consumed a prefix of the draws and its result is the engine run on that prefix *)
      ds = used ++ rest /\ length tr = length used /\ run_many cf s used = Ok s' /\
      (* tr lists the states from which an event was executed *)
      (forall k x, nth_error tr k = Some x -> run_many cf s (firstn k used) = Ok x) /\
      (* before every executed event the count was below n *)
      Forall (fun x => count_of m x < n) tr /\
      (* with draws to spare, the loop stopped because the count had reached n: after the first such event *)
      (rest <> [] -> n <= count_of m s') /\
      (* all four counts are nondecreasing along the run *)
      (forall m', chain (count_of m' s) (map (count_of m') tr ++ [count_of m' s'])) /\
      (* the invariants hold throughout and at return: unfinished customers are left in place, and
         completed <= finished <= arrived, accepted <= arrived, finished - completed = arrived - accepted *)
      Forall (CInv cf) tr /\ CInv cf s'.
  Proof.
    intros HZ H. destruct (run_count_has_trace _ _ _ _ _ _ H) as [tr Htr].
    destruct (run_count_tr_spec _ _ _ _ _ _ _ Htr) as (used & E1 & E2 & E3 & E4 & E5 & E6).
    exists used, tr. split; [exact E1|]. split; [symmetry; exact E2|]. split; [exact E3|]. split; [exact E6|]. split; [exact E4|].
    split; [exact E5|]. split; [intros m'; eapply run_count_tr_mono; exact Htr|]. eapply run_count_tr_inv; eauto.
  Qed.
End Counts.

(* ================= (5) run_count is an instance of the abstract count loop of Sub/Loop.v =================
   It fits, with the same encoding as Horizon.run_until_is_loop: state = (result so far, draws left) = Horizon.LS;
   pick = identity; event = Horizon.l_event (one event_step with the next record of draws); fuel = number of records.
   Loop.v's count has type S -> Z (no "infinity"), so the count of a state from which the loop cannot continue (the run
   has failed, or the draws have run out) is read as n, i.e. "reached": that is the only adaptation. *)
Definition l_count (m n : Z) (x : LS) : Z := match x with (Ok s, _ :: _) => count_of m s | _ => n end.
Definition l_cloop (cf : config) (m n : Z) (fuel : nat) (x : LS) : option (list Z * LS) :=
  Loop.loop_count LS (fun x => x) (l_event cf) (l_count m n) n fuel x.

Lemma l_cloop_stopped cf m n fuel x : (l_count m n x <? n) = false -> l_cloop cf m n fuel x = Some ([], x).
Proof. intros H. unfold l_cloop. destruct fuel; cbn [Loop.loop_count]; rewrite H; reflexivity. Qed.

Theorem run_count_is_loop cf m n : forall ds s, exists cs r,
  l_cloop cf m n (length ds) (Ok s, ds) = Some (cs, r) /\ l_out r = run_count cf m n s ds /\
  (forall tr s' rest, run_count_tr cf m n s ds = Ok (tr, s', rest) -> cs = map (count_of m) tr).
Proof.
  induction ds as [|d r IH]; intros s.
  - exists [], (Ok s, []). split; [apply l_cloop_stopped; cbn [l_count]; apply Z.ltb_irrefl|]. split; [reflexivity|].
    intros tr s' rest H. cbn [run_count_tr] in H. inversion H. reflexivity.
  - assert (Eb : (l_count m n (Ok s, d :: r) <? n) = (count_of m s <? n)) by reflexivity.
    destruct (count_of m s <? n) eqn:Eb'.
    + unfold l_cloop. cbn [length Loop.loop_count]. rewrite Eb. cbv beta. cbn [l_event].
      cbn [run_count run_count_tr]. rewrite Eb'.
      destruct (event_step cf (s <| dr := d |>)) as [[u s1]| |] eqn:Ee.
      * destruct (IH s1) as (cs & r0 & El & Eo & Etr). unfold l_cloop in El. rewrite El.
        exists (count_of m s :: cs), r0. split; [reflexivity|]. split; [exact Eo|].
        intros tr s' rest H. destruct (run_count_tr cf m n s1 r) as [[[tr1 s2] rest1]| |] eqn:Er; try discriminate.
        inversion H. subst tr s' rest. cbn [map]. f_equal. eapply Etr. reflexivity.
      * fold (l_cloop cf m n (length r) (Err site, r)). rewrite l_cloop_stopped by (cbn [l_count]; apply Z.ltb_irrefl).
        exists [count_of m s], (Err site, r). split; [reflexivity|]. split; [reflexivity|]. intros tr s' rest H. discriminate.
      * fold (l_cloop cf m n (length r) (OutOfFuel, r)). rewrite l_cloop_stopped by (cbn [l_count]; apply Z.ltb_irrefl).
        exists [count_of m s], (OutOfFuel, r). split; [reflexivity|]. split; [reflexivity|]. intros tr s' rest H. discriminate.
    + exists [], (Ok s, d :: r). split; [apply l_cloop_stopped; rewrite Eb; reflexivity|].
      cbn [run_count run_count_tr]. rewrite Eb'. split; [reflexivity|]. intros tr s' rest H. inversion H. reflexivity.
Qed.

(* what the abstract C14 theorem Loop.loop_count_post says of run_count *)
Corollary run_count_loop_post cf m n ds s s' rest : run_count cf m n s ds = Ok (s', rest) ->
  exists cs, l_cloop cf m n (length ds) (Ok s, ds) = Some (cs, (Ok s', rest)) /\
             Forall (fun c => c < n) cs /\ n <= l_count m n (Ok s', rest).
Proof.
  intros H. destruct (run_count_is_loop cf m n ds s) as (cs & r & El & Eo & _).
  rewrite H in Eo. destruct r as [[s0| |] rest0]; cbn in Eo; try discriminate. inversion Eo. subst s0 rest0.
  exists cs. split; [exact El|]. exact (Loop.loop_count_post LS (fun x => x) (l_event cf) (l_count m n) n _ _ _ _ El).
Qed.

(* ================= non-vacuity and executable runs ================= *)
(* Clock.ex_sim: one single-server node, customer 1 (created and accepted) in service until 5, next arrival at 7, clock at 5 *)
Example ex_cinv : CInv ex_cf ex_sim.
Proof. apply cinv_b_sound. vm_compute. reflexivity. Qed.

(* (6) the queue of Clock.ex_sim with unlimited waiting room, method Complete (0), n = 2.
   Events: 5 service end of customer 1 (completed 1); 7 arrival of 2 (served until 11); 10 arrival of 3 (waits);
   11 service end of 2 (completed 2; customer 3 starts service until 17).  The loop stops there, exactly when the 2nd
   customer completes: the count before each executed event was 0, 1, 1, 1; three records of draws are unused; the clock
   is on the next event (arrival at 13); customer 3 is still at the node. *)
Definition exc_draws : list draws :=
  [mkDraws [] [] [] []; mkDraws [3] [1] [4] []; mkDraws [3] [1] [] []; mkDraws [] [] [6] [];
   mkDraws [3] [1] [] []; mkDraws [3] [1] [] []; mkDraws [] [] [2] []].
Example ex_run_count_complete2 :
  match run_count_tr ex_cf 0 2 ex_sim exc_draws with
  | Ok (tr, s', rest) => Some (map now tr, map (count_of 0) tr, count_of 0 s', length rest, now s', map n_pop (nodes s'), exit_ids s',
                               cinv_b ex_cf s')
  | _ => None
  end = Some ([5; 7; 10; 11], [0; 1; 1; 1], 2, 3%nat, 13, [1], [1; 2], true).
Proof. vm_compute. reflexivity. Qed.
(* and run_count returns the same state as run_many on the four consumed records *)
Example ex_run_count_is_run_many :
  match run_count ex_cf 0 2 ex_sim exc_draws, run_many ex_cf ex_sim (firstn 4 exc_draws) with
  | Ok (s', rest), Ok s'' => Some (shp s' , exit_completed s', rest) = Some (shp s'', exit_completed s'', skipn 4 exc_draws)
  | _, _ => False
  end.
Proof. vm_compute. reflexivity. Qed.

(* the same queue with no waiting room (node capacity 1): the arrival at 10 is rejected (customer 3 goes to the exit
   without completing), so the four methods stop at different events.
   counts at return are (completed, finished, arrived, accepted). *)
Definition ex_cf_cap : config := mkCfg 1 [mkNcfg (Some 1) (Some 1) None 0] [0] 1 None [[[0]]] [[None]].
Definition exc_draws_cap : list draws :=
  [mkDraws [] [] [] []; mkDraws [3] [1] [4] []; mkDraws [3] [1] [] []; mkDraws [] [] [] [];
   mkDraws [3] [1] [5] []; mkDraws [3] [1] [] []; mkDraws [] [] [] []].
Definition exc_show (m n : Z) :=
  match run_count_tr ex_cf_cap m n ex_sim exc_draws_cap with
  | Ok (tr, s', rest) => Some (map now tr, map (count_of m) tr, length rest, exit_ids s',
                               (count_of 0 s', count_of 1 s', count_of 2 s', count_of 3 s'), cinv_b ex_cf_cap s')
  | _ => None
  end.
Example ex_run_count_methods :
  (* Complete, n = 2: stops after the service end at 11 *)
  exc_show 0 2 = Some ([5; 7; 10; 11], [0; 1; 1; 1], 3%nat, [1; 3; 2], (2, 3, 3, 2), true) /\
  (* Finish, n = 2: stops already after the rejection at 10 *)
  exc_show 1 2 = Some ([5; 7; 10], [0; 1; 1], 4%nat, [1; 3], (1, 2, 3, 2), true) /\
  (* Arrive, n = 3: stops after the (rejected) arrival at 10 *)
  exc_show 2 3 = Some ([5; 7; 10], [1; 1; 2], 4%nat, [1; 3], (1, 2, 3, 2), true) /\
  (* Accept, n = 3: the rejected customer does not count; stops after the arrival at 13 *)
  exc_show 3 3 = Some ([5; 7; 10; 11; 13], [1; 1; 2; 2; 2], 2%nat, [1; 3; 2], (2, 3, 4, 3), true) /\
  (* Complete, n = 5: the draws run out first (3 completed) *)
  exc_show 0 5 = Some ([5; 7; 10; 11; 13; 16; 18], [0; 1; 1; 1; 2; 2; 2], 0%nat, [1; 3; 2; 5; 4], (3, 5, 5, 3), true) /\
  (* n already reached: nothing is executed *)
  exc_show 1 0 = Some ([], [], 7%nat, [], (0, 0, 1, 1), true).
Proof. vm_compute. repeat split. Qed.
(* the abstract loop of Sub/Loop.v on the same run returns the counts before each executed event *)
Example ex_l_cloop :
  option_map fst (l_cloop ex_cf_cap 0 2 (length exc_draws_cap) (Ok ex_sim, exc_draws_cap)) = Some [0; 1; 1; 1].
Proof. vm_compute. reflexivity. Qed.

Print Assumptions event_step_crel.
Print Assumptions run_many_crel.
Print Assumptions event_step_count_mono.
Print Assumptions run_many_count_mono.
Print Assumptions count_stays_reached.
Print Assumptions event_step_cnt.
Print Assumptions event_step_count.
Print Assumptions run_many_count.
Print Assumptions count_means.
Print Assumptions cinv_b_sound.
Print Assumptions run_count_run_many.
Print Assumptions run_count_first.
Print Assumptions run_count_last.
Print Assumptions run_count_tr_mono.
Print Assumptions run_count_tr_inv.
Print Assumptions run_count_inv.
Print Assumptions run_count_split_eq.
Print Assumptions run_count_split.
Print Assumptions run_count_again.
Print Assumptions engine_count.
Print Assumptions run_count_is_loop.
Print Assumptions run_count_loop_post.
Print Assumptions ex_cinv.
Print Assumptions ex_run_count_complete2.
Print Assumptions ex_run_count_methods.

(* Knot2.v -- T2 for C18 on the STAGE-2 engine model (Engine2.v): is a structural deadlock genuine (permanent) when routers,
   reneging, pre-emption, Schedules and slots are present, and which stage-2 features can DISSOLVE one?

   Knot2 cf s K: K is non-empty and every node j of K has finitely many servers (n_c = Some _), every server object present at the
   node (on duty or in overtime) being busy with a customer that is flagged blocked with a destination in K.

   Decisions.  Each "DISSOLVES" is a closed witness (vm_compute): a run FROM AN EMPTY SYSTEM that reaches a knot K = [1; 2] in a state
   satisfying the stage-2 invariants proved elsewhere (C01, C04, C06/C07, C12) and then loses it:
     (a) priority pre-emption at a node of K      DISSOLVES  knot2_refuted_priority_preempt     F-02a: the blocked customer is pre-empted, it
                                                  stays flagged blocked without a server; the pre-emptor is served on the knot's server
     (b) pre-emptive Schedule at a node of K      DISSOLVES  knot2_refuted_preemptive_schedule  F-02b: the blocked customer is interrupted at
                                                  the shift change and restarted, unblocked, with an end date in the past (clock goes back)
     (c) NON-pre-emptive Schedule at a node of K  DISSOLVES  knot2_refuted_schedule   NEW: the next shift's servers are free server objects
                                                  (Knot2 as defined is lost at once, the blocked customers still hold their overtime servers);
                                                  they serve the waiting customers, whose departure frees a place: the blocked customers
                                                  MOVE.  No weakening of the definition saves permanence: the deadlock itself is gone
     (d) reneging at a node of K                  DISSOLVES  knot2_refuted_reneging   NEW: Node.renege (node.py) ends with
                                                  self.release_blocked_individual(): a waiting customer of a full node of K reneges and the place
                                                  goes to the head of the node's blocked queue, a customer of the knot; the cascade empties the knot
     (e) jockeying and reroute (ignoring capacities), every router, class change while waiting (also AT nodes of K), and pre-emption,
         Schedules, slots, reneging at nodes OUTSIDE K    HARMLESS: inside the scope of the theorem (kx_run: reneging customers jockey
                                                  into a node of K beyond its capacity)
   Theorem (event_step_knot2, run_many_knot2, knot2_is_permanent, knot2_is_permanent_in_scope).  Scope knot_scope cf K (executable, on
   the configuration): every node of K has a fixed number of servers (no Schedule, no slots), no priority pre-emption and no reneging --
   exactly the complement of (a)-(d) at the nodes of K; NOTHING is asked of the other nodes, of the routing or of class changes.  For every
   state satisfying KnotInv2 = Knot2 + KAux (bookkeeping facts, spelt out in KAux_means, executable: kaux_b; stage 1 took them from
   Servers / Blocking, stage 2 has no "who is in the blocked queues" invariant, F-02a/b leave stale entries), every oracle of draws and
   any number of events: every node of K keeps exactly its server objects, the records of their customers are untouched, KnotInv2 holds
   again.  No hypothesis on the draws.  Partial correctness (nothing about runs that return Err / OutOfFuel).
   deadlocked2_b: the decision procedure of Sub/Deadlock.v on the wait-for graph of the nodes finds a knot iff there is one
   (deadlocked2_b_iff), and inside the scope its answer is permanent (deadlock_is_permanent2).
   Method: as Knot.v (stage 1): an invariant G relative to a reference state s0 (server objects of K frozen, records of their customers
   frozen, no list of a node outside K mentions them, blocked-queue entries from K sit in K, K-nodes never schedule an end of service or a
   renege) and a Hoare-style walk `spec` over every engine function; the recursive core by induction on the fuel (bodies of Renege2.v). *)
From Coq Require Import ZArith List Bool Lia.
From RecordUpdate Require Import RecordUpdate.
From CiwV Require Import Sx Prelude Routing Sched.
From CiwV.Engine Require Import State2 Engine2 Codec2.
From CiwV.Inv Require Import Renege2.
Import ListNotations.
Open Scope Z_scope.

Local Arguments Z.mul : simpl never.
Local Arguments Z.add : simpl never.
Local Arguments Z.sub : simpl never.
Local Arguments Z.ltb : simpl never.
Local Arguments Z.leb : simpl never.
Local Arguments Z.eqb : simpl never.
Local Arguments Z.to_nat : simpl never.
Local Arguments Z.of_nat : simpl never.
Local Arguments nth_error : simpl never.

(* ====================================================================================================================
   Definitions
   ==================================================================================================================== *)
Definition nodeZ (s : sim) (j : Z) : option node := if j <? 1 then None else nthZ (nodes s) (j - 1).
Definition custs_of (nd : node) : list Z :=
  flat_map (fun sv => match sv_cust sv with Some i => [i] | None => [] end) (n_servers nd).
Definition knot_custs (s : sim) (K : list Z) : list Z :=
  flat_map (fun j => match nodeZ s j with Some nd => custs_of nd | None => [] end) K.

Definition KnotSv (s : sim) (K : list Z) (sv : server) : Prop :=
  sv_busy sv = true /\
  exists i x d, sv_cust sv = Some i /\ find_ind i (inds s) = Some x /\ i_blocked x = true /\ i_dest x = Some d /\ In d K.
Definition KnotNode (cf : config) (s : sim) (K : list Z) (j : Z) : Prop :=
  exists nd nc c, nodeZ s j = Some nd /\ nthZ (cf_nodes cf) (j - 1) = Some nc /\ n_c nd = Some c /\
                  forall sv, In sv (n_servers nd) -> KnotSv s K sv.
Definition Knot2 (cf : config) (s : sim) (K : list Z) : Prop := K <> [] /\ forall j, In j K -> KnotNode cf s K j.

(* the scope: what is asked of the configuration of the nodes of K (nothing is asked of the others) *)
Definition knode_ok (nc : ncfg) : bool :=
  (match nc_srv nc with SFixed => true | _ => false end) && (nc_preempt nc =? 0) && negb (nc_reneging nc).
Definition knot_scope (cf : config) (K : list Z) : bool :=
  forallb (fun j => match nthZ (cf_nodes cf) (j - 1) with Some nc => knode_ok nc | None => false end) K.

Definition Same (K : list Z) (s s' : sim) : Prop :=
  forall j nd, In j K -> nodeZ s j = Some nd ->
    exists nd', nodeZ s' j = Some nd' /\ n_servers nd' = n_servers nd /\
                forall i, In i (custs_of nd) -> find_ind i (inds s') = find_ind i (inds s).

Lemma custs_of_In nd i : In i (custs_of nd) <-> exists sv, In sv (n_servers nd) /\ sv_cust sv = Some i.
Proof.
  unfold custs_of. rewrite in_flat_map. split.
  - intros (sv & Hsv & Hi). exists sv. split; [exact Hsv|]. destruct (sv_cust sv) as [c|]; [destruct Hi as [->|[]]; reflexivity|destruct Hi].
  - intros (sv & Hsv & Hc). exists sv. split; [exact Hsv|]. rewrite Hc. left. reflexivity.
Qed.
Lemma knot_custs_In s K i : In i (knot_custs s K) <-> exists j nd, In j K /\ nodeZ s j = Some nd /\ In i (custs_of nd).
Proof.
  unfold knot_custs. rewrite in_flat_map. split.
  - intros (j & Hj & Hi). destruct (nodeZ s j) as [nd|] eqn:En; [|destruct Hi]. exists j, nd. auto.
  - intros (j & nd & Hj & Hn & Hi). exists j. split; [exact Hj|]. rewrite Hn. exact Hi.
Qed.
Lemma Same_refl K s : Same K s s.
Proof. intros j nd _ Hn. exists nd. auto. Qed.
Lemma Same_trans K a b c : Same K a b -> Same K b c -> Same K a c.
Proof.
  intros H1 H2 j nd Hj Hn. destruct (H1 j nd Hj Hn) as (nd1 & Hn1 & Hs1 & Hf1). destruct (H2 j nd1 Hj Hn1) as (nd2 & Hn2 & Hs2 & Hf2).
  exists nd2. split; [exact Hn2|]. split; [congruence|]. intros i Hi. rewrite <- (Hf1 i Hi). apply Hf2.
  unfold custs_of in *. rewrite Hs1. exact Hi.
Qed.
Lemma Same_custs K s s' : Same K s s' -> (forall j, In j K -> nodeZ s j <> None) -> knot_custs s' K = knot_custs s K.
Proof.
  intros HS Hex. unfold knot_custs. induction K as [|j r IH]; [reflexivity|]. cbn [flat_map]. f_equal.
  - destruct (nodeZ s j) as [nd|] eqn:En; [|exfalso; apply (Hex j (or_introl eq_refl)); exact En].
    destruct (HS j nd (or_introl eq_refl) En) as (nd' & -> & Hs & _). unfold custs_of. rewrite Hs. reflexivity.
  - apply IH; [intros j' nd' Hj'; apply HS; right; exact Hj'|intros j' Hj'; apply Hex; right; exact Hj'].
Qed.

(* ---------- list facts ---------- *)
Lemma in_concat_updZ (qs : list (list Z)) p q' i : In i (concat (updZ qs p q')) -> In i q' \/ In i (concat qs).
Proof.
  intros H. apply in_concat in H as (l & Hl & Hi). apply In_updZ in Hl as [->|Hl]; [left; exact Hi|right; apply in_concat; eauto].
Qed.
Lemma nthZ_concat (qs : list (list Z)) p q i : nthZ qs p = Some q -> In i q -> In i (concat qs).
Proof. intros H Hi. apply in_concat. exists q. split; [eapply nthZ_In; eauto|exact Hi]. Qed.
Lemma remove_first_In i q q' : remove_first i q = Some q' -> In i q /\ forall x, In x q' -> In x q.
Proof.
  revert q'; induction q as [|h t IH]; cbn; intros q' H; [discriminate|]. destruct (h =? i) eqn:E.
  - apply Z.eqb_eq in E. injection H as <-. split; [left; exact E|intros x Hx; right; exact Hx].
  - destruct (remove_first i t) as [t'|]; cbn in H; [|discriminate]. injection H as <-. destruct (IH _ eq_refl) as [A B].
    split; [right; exact A|]. intros x [->|Hx]; [left; reflexivity|right; auto].
Qed.
Lemma remove_pair_In p l l' : remove_pair p l = Some l' -> forall x, In x l' -> In x l.
Proof.
  revert l'; induction l as [|h t IH]; cbn; intros l' H; [discriminate|]. destruct ((fst h =? fst p) && (snd h =? snd p)).
  - injection H as <-. intros x Hx. right. exact Hx.
  - destruct (remove_pair p t) as [t'|]; cbn in H; [|discriminate]. injection H as <-. intros x [->|Hx]; [left; reflexivity|right; eapply IH; eauto].
Qed.
Lemma put_server_l_In x l sv : In sv (put_server_l x l) -> sv = x \/ In sv l.
Proof.
  induction l as [|y r IH]; cbn; [intros []|]. destruct (sv_id y =? sv_id x); cbn; intros [H|H]; auto. destruct (IH H); auto.
Qed.
Lemma del_server_l_In i l sv : In sv (del_server_l i l) -> In sv l.
Proof. induction l as [|y r IH]; cbn; [auto|]. destruct (sv_id y =? i); cbn; [auto|]. intros [H|H]; auto. Qed.
Lemma find_server_In i l sv : find_server i l = Some sv -> In sv l.
Proof. induction l as [|y r IH]; cbn; [discriminate|]. destruct (sv_id y =? i); [intros H; injection H as ->; left; reflexivity|auto]. Qed.
Lemma find_free_server_busy l : (forall sv, In sv l -> sv_busy sv = true) -> find_free_server l = None.
Proof.
  induction l as [|sv r IH]; intros H; cbn; [reflexivity|]. rewrite (H sv (or_introl eq_refl)). apply IH. intros x Hx. apply H. right. exact Hx.
Qed.
Lemma first_min_free_busy key l best : (forall sv, In sv l -> sv_busy sv = true) -> first_min_free key l best = best.
Proof.
  revert best; induction l as [|sv r IH]; intros best H; cbn; [reflexivity|]. rewrite (H sv (or_introl eq_refl)). apply IH. intros x Hx. apply H. right. exact Hx.
Qed.
Lemma find_free_server_for_busy spf cls l : (forall sv, In sv l -> sv_busy sv = true) -> find_free_server_for spf cls l = None.
Proof. intros H. unfold find_free_server_for. destruct (spf =? 0); [apply find_free_server_busy|apply first_min_free_busy]; exact H. Qed.
Lemma waiting_of_In q il c : In c (waiting_of q il) -> In c q.
Proof.
  induction q as [|i r IH]; cbn; [auto|]. destruct (find_ind i il) as [x|]; [|auto]. destruct (i_server x); [auto|]. intros [H|H]; auto.
Qed.
Lemma first_waiting_In qs il c : In c (first_waiting qs il) -> In c (concat qs).
Proof.
  induction qs as [|q r IH]; cbn; [auto|]. destruct (waiting_of q il) as [|w0 wr] eqn:E.
  - intros H. apply in_or_app. right. auto.
  - intros H. apply in_or_app. left. apply (waiting_of_In q il). rewrite E. exact H.
Qed.
Lemma find_del_ind i l i' : i' <> i -> find_ind i' (del_ind_l i l) = find_ind i' l.
Proof.
  intros Hne. induction l as [|y r IH]; cbn; [reflexivity|]. destruct (i_id y =? i) eqn:E.
  - apply Z.eqb_eq in E. destruct (i_id y =? i') eqn:E2; [apply Z.eqb_eq in E2; congruence|reflexivity].
  - cbn. destruct (i_id y =? i'); [reflexivity|exact IH].
Qed.
Lemma last_In {A} (l : list A) d : In (last l d) (d :: l).
Proof. induction l as [|a r IH]; cbn; [auto|]. destruct r as [|b r']; [auto|]. destruct IH as [H|H]; [left; exact H|right; right; exact H]. Qed.

(* ====================================================================================================================
   The invariant during and between events, relative to a reference state s0 in which K is a knot
   ==================================================================================================================== *)
Definition quiet {A} (m : M A) : Prop :=
  forall s a s', m s = Ok (a, s') -> nodes s' = nodes s /\ inds s' = inds s /\ a_created (arr s') = a_created (arr s).

Section Frozen.
  Variable cf : config.
  Variable K : list Z.
  Variable s0 : sim.
  Local Notation C := (knot_custs s0 K).

  (* what the walk uses of s0: the nodes of K exist, are in the scope, all their servers are busy without an end-of-service date;
     the customers on these servers record a server *)
  Definition Base : Prop :=
    (forall j, In j K -> exists nd0 nc, nodeZ s0 j = Some nd0 /\ nthZ (cf_nodes cf) (j - 1) = Some nc /\ knode_ok nc = true /\
                                        forall sv, In sv (n_servers nd0) -> sv_busy sv = true /\ sv_next_end sv = None) /\
    (forall i, In i C -> exists x, find_ind i (inds s0) = Some x /\ i_server x <> None).
  Hypothesis H0 : Base.

  (* a node of K: the server objects it has in s0, finitely many servers, its next event is not a renege and not an end of service *)
  Definition KN (nd : node) : Prop :=
    option_map n_servers (nodeZ s0 (n_id nd)) = Some (n_servers nd) /\ n_c nd <> None /\ n_next_type nd <> 2 /\
    (n_next_type nd = 0 -> n_next_inds nd = []).
  (* a node outside K: none of its lists mentions a customer of the knot *)
  Definition ON (nd : node) : Prop :=
    (forall i, In i (all_individuals nd) -> ~ In i C) /\
    (forall sv c, In sv (n_servers nd) -> sv_cust sv = Some c -> ~ In c C) /\
    (forall i, In i (n_interrupted nd) -> ~ In i C).
  Definition NOK (nd : node) : Prop :=
    (In (n_id nd) K -> KN nd) /\ (~ In (n_id nd) K -> ON nd) /\
    (forall from y, In (from, y) (n_bq nd) -> In from K -> In (n_id nd) K) /\
    (forall i, In i (n_next_inds nd) -> ~ In i C) /\
    (forall i, n_ncci nd = Some i -> ~ In i C).

  Definition G (s : sim) : Prop :=
    Idx s /\ length (nodes s) = length (nodes s0) /\ (forall nd, In nd (nodes s) -> NOK nd) /\
    (forall i, In i C -> find_ind i (inds s) = find_ind i (inds s0)) /\
    (forall i, In i C -> i <= a_created (arr s)).

  Lemma G_same s s' : nodes s' = nodes s -> inds s' = inds s -> a_created (arr s') = a_created (arr s) -> G s -> G s'.
  Proof. intros E1 E2 E3 (A & B & D & E & F). unfold G, Idx. rewrite E1, E2, E3. auto. Qed.

  Lemma NOK_upd nd nd' : NOK nd -> n_id nd' = n_id nd ->
    (In (n_id nd) K -> n_servers nd' = n_servers nd /\ n_c nd' = n_c nd /\ n_next_type nd' = n_next_type nd /\ n_next_inds nd' = n_next_inds nd) ->
    (~ In (n_id nd) K ->
       (forall i, In i (all_individuals nd') -> In i (all_individuals nd) \/ ~ In i C) /\
       (forall sv c, In sv (n_servers nd') -> sv_cust sv = Some c -> (exists sv1, In sv1 (n_servers nd) /\ sv_cust sv1 = Some c) \/ ~ In c C) /\
       (forall i, In i (n_interrupted nd') -> In i (n_interrupted nd) \/ ~ In i C)) ->
    (~ In (n_id nd) K -> forall from y, In (from, y) (n_bq nd') -> In (from, y) (n_bq nd) \/ ~ In from K) ->
    (forall i, In i (n_next_inds nd') -> In i (n_next_inds nd) \/ ~ In i C) ->
    (forall i, n_ncci nd' = Some i -> n_ncci nd = Some i \/ ~ In i C) ->
    NOK nd'.
  Proof.
    intros (A & B & D & E & F) Hid Hk Ho Hb Hn Hc. unfold NOK. rewrite Hid. split; [|split; [|split; [|split]]].
    - intros HK. destruct (Hk HK) as (E1 & E2 & E3 & E4). destruct (A HK) as (A1 & A2 & A3 & A4). unfold KN. rewrite Hid, E1, E2, E3, E4. auto.
    - intros HK. destruct (Ho HK) as (O1 & O2 & O3). destruct (B HK) as (B1 & B2 & B3). split; [|split].
      + intros i Hi. destruct (O1 i Hi) as [Hi'|Hi']; [apply (B1 i Hi')|exact Hi'].
      + intros sv c Hsv Hcu. destruct (O2 sv c Hsv Hcu) as [(sv1 & Hsv1 & Hcu1)|Hi']; [apply (B2 sv1 c Hsv1 Hcu1)|exact Hi'].
      + intros i Hi. destruct (O3 i Hi) as [Hi'|Hi']; [apply (B3 i Hi')|exact Hi'].
    - intros from y Hin Hf. destruct (in_dec Z.eq_dec (n_id nd) K) as [HK|HK]; [exact HK|].
      destruct (Hb HK from y Hin) as [Hin'|Hn']; [apply (D from y Hin' Hf)|contradiction].
    - intros i Hi. destruct (Hn i Hi) as [Hi'|Hi']; [apply (E i Hi')|exact Hi'].
    - intros i Hi. destruct (Hc i Hi) as [Hi'|Hi']; [apply (F i Hi')|exact Hi'].
  Qed.

  (* the configuration and the servers of a node of K *)
  Lemma K_cfg j nc : In j K -> nthZ (cf_nodes cf) (j - 1) = Some nc -> nc_srv nc = SFixed /\ nc_preempt nc = 0 /\ nc_reneging nc = false.
  Proof.
    intros HK Hc. destruct (proj1 H0 j HK) as (nd0 & nc' & _ & Hc' & Hok & _). rewrite Hc in Hc'. injection Hc' as <-.
    unfold knode_ok in Hok. apply andb_true_iff in Hok as [Hok H3]. apply andb_true_iff in Hok as [H1 H2].
    split; [destruct (nc_srv nc); [reflexivity|discriminate|discriminate]|]. split; [apply Z.eqb_eq; exact H2|]. destruct (nc_reneging nc); [discriminate|reflexivity].
  Qed.
  Lemma K_servers nd : NOK nd -> In (n_id nd) K -> forall sv, In sv (n_servers nd) -> sv_busy sv = true /\ sv_next_end sv = None.
  Proof.
    intros (A & _) HK. destruct (proj1 H0 _ HK) as (nd0 & nc & Hn & _ & _ & Hb). destruct (A HK) as (A1 & _). rewrite Hn in A1. cbn in A1.
    injection A1 as A1. rewrite <- A1. exact Hb.
  Qed.
  Lemma K_fin nd : NOK nd -> In (n_id nd) K -> nd_inf nd = false.
  Proof. intros (A & _) HK. destruct (A HK) as (_ & A2 & _). unfold nd_inf. destruct (n_c nd); [reflexivity|congruence]. Qed.

  (* ---------- specifications: the action keeps G and its result satisfies phi ---------- *)
  Definition spec {A} (m : M A) (phi : A -> Prop) : Prop := forall s a s', G s -> m s = Ok (a, s') -> G s' /\ phi a.

  Lemma spec_bind {A B} (m : M A) (f : A -> M B) phi psi : spec m phi -> (forall a, phi a -> spec (f a) psi) -> spec (bind m f) psi.
  Proof.
    intros Hm Hf s b s' HG H. unfold bind in H. destruct (m s) as [[a s1]| |] eqn:E; try discriminate.
    destruct (Hm _ _ _ HG E) as [HG1 Hp]. eapply Hf; eauto.
  Qed.
  Lemma spec_bind_keeps {A B} (m : M A) (f : A -> M B) psi : spec m (fun _ => True) -> (forall a, spec (f a) psi) -> spec (bind m f) psi.
  Proof. intros Hm Hf. eapply spec_bind; [exact Hm|]. intros a _. apply Hf. Qed.
  Lemma spec_conseq {A} (m : M A) (phi psi : A -> Prop) : spec m phi -> (forall a, phi a -> psi a) -> spec m psi.
  Proof. intros H Hi s a s' HG E. destruct (H _ _ _ HG E). auto. Qed.
  Lemma spec_weakenI {A} (m : M A) phi : spec m phi -> spec m (fun _ => True).
  Proof. intros H. eapply spec_conseq; [exact H|auto]. Qed.
  Lemma spec_quiet {A} (m : M A) : quiet m -> spec m (fun _ => True).
  Proof. intros Hq s a s' HG H. destruct (Hq _ _ _ H) as (A1 & A2 & A3). split; [eapply G_same; eauto|exact I]. Qed.
  Lemma spec_ret {A} (x : A) : spec (ret x) (fun a => a = x).
  Proof. intros s a s' HG H. apply ret_inv in H as [-> ->]. auto. Qed.
  Lemma spec_retI {A} (x : A) : spec (ret x) (fun _ => True).
  Proof. eapply spec_weakenI, spec_ret. Qed.
  Lemma spec_fail {A} e phi : spec (@fail A e) phi.
  Proof. intros s a s' _ H. discriminate. Qed.
  Lemma spec_oof {A} phi : spec (@oof A) phi.
  Proof. intros s a s' _ H. discriminate. Qed.
  Lemma spec_gets {A} (f : sim -> A) : spec (gets f) (fun _ => True).
  Proof. intros s a s' HG H. apply gets_inv in H as [_ ->]. auto. Qed.
  Lemma spec_gets_inds : spec (gets inds) (fun il => forall i, In i C -> find_ind i il = find_ind i (inds s0)).
  Proof. intros s a s' HG H. apply gets_inv in H as [-> ->]. split; [exact HG|apply HG]. Qed.
  Lemma spec_lift {A} e (o : option A) : spec (lift e o) (fun a => o = Some a).
  Proof. intros s a s' HG H. apply lift_inv in H as [-> ->]. auto. Qed.
  Lemma spec_ncfg_of j : spec (ncfg_of cf j) (fun nc => nthZ (cf_nodes cf) (j - 1) = Some nc).
  Proof. apply spec_lift. Qed.
  Lemma spec_get_node j : spec (get_node j) (fun nd => NOK nd /\ n_id nd = j).
  Proof.
    intros s nd s' HG H. apply get_node_inv in H as (-> & Hj & Hn). split; [exact HG|].
    destruct HG as (HI & _ & HN & _). split; [apply HN; eapply nthZ_In; eauto|eapply Idx_get; eauto].
  Qed.
  Lemma spec_get_ind i : spec (get_ind i) (fun x => i_id x = i).
  Proof. intros s x s' HG H. apply get_ind_inv in H as [-> Hx]. split; [exact HG|eapply find_ind_id; eauto]. Qed.
  Lemma spec_modify_same (f : sim -> sim) :
    (forall s, nodes (f s) = nodes s /\ inds (f s) = inds s /\ a_created (arr (f s)) = a_created (arr s)) -> spec (modify f) (fun _ => True).
  Proof. intros Hf s a s' HG H. apply modify_inv in H. rewrite H. split; [|exact I]. destruct (Hf s) as (E1 & E2 & E3). eapply G_same; eauto. Qed.
  Lemma spec_log_rec r : spec (log_rec r) (fun _ => True).
  Proof. apply spec_modify_same. intros s. auto. Qed.
  Lemma spec_put_ind x : ~ In (i_id x) C -> spec (put_ind x) (fun _ => True).
  Proof.
    intros Hx s a s' (A & B & D & E & F) H. unfold put_ind in H. apply modify_inv in H. rewrite H. split; [|exact I].
    unfold G, Idx. cbn. split; [exact A|]. split; [exact B|]. split; [exact D|]. split; [|exact F].
    intros i Hi. rewrite find_put_ind. destruct (i =? i_id x) eqn:Ei; [apply Z.eqb_eq in Ei; rewrite Ei in Hi; contradiction|apply E; exact Hi].
  Qed.
  Lemma spec_del_ind i : ~ In i C -> spec (del_ind i) (fun _ => True).
  Proof.
    intros Hx s a s' (A & B & D & E & F) H. unfold del_ind in H. apply modify_inv in H. rewrite H. split; [|exact I].
    unfold G, Idx. cbn. split; [exact A|]. split; [exact B|]. split; [exact D|]. split; [|exact F].
    intros i' Hi. rewrite find_del_ind; [apply E; exact Hi|]. intros ->. contradiction.
  Qed.
  Lemma spec_put_node nd : NOK nd -> spec (put_node nd) (fun _ => True).
  Proof.
    intros Hnd s a s' (A & B & D & E & F) H. unfold put_node in H. apply modify_inv in H. rewrite H. split; [|exact I].
    unfold G, Idx. cbn. split; [apply Idx_updZ; exact A|]. split; [rewrite length_updZ; exact B|]. split; [|split; [exact E|exact F]].
    intros x Hx. apply In_updZ in Hx as [->|Hx]; [exact Hnd|apply D; exact Hx].
  Qed.
  Lemma q_draw_arr : quiet draw_arr. Proof. intros s a s' H. unfold draw_arr in H. destruct (d_arr (dr s)); inversion H. auto. Qed.
  Lemma q_draw_batch : quiet draw_batch. Proof. intros s a s' H. unfold draw_batch in H. destruct (d_batch (dr s)); inversion H. auto. Qed.
  Lemma q_draw_svc : quiet draw_svc. Proof. intros s a s' H. unfold draw_svc in H. destruct (d_svc (dr s)); inversion H. auto. Qed.
  Lemma q_draw_unif : quiet draw_unif. Proof. intros s a s' H. unfold draw_unif in H. destruct (d_unif (dr s)); inversion H. auto. Qed.
  Lemma q_draw_ren : quiet draw_ren. Proof. intros s a s' H. unfold draw_ren in H. destruct (d_ren (dr s)); inversion H. auto. Qed.
  Lemma q_draw_cct : quiet draw_cct. Proof. intros s a s' H. unfold draw_cct in H. destruct (d_cct (dr s)); inversion H. auto. Qed.
  Lemma spec_draw_arr : spec draw_arr (fun _ => True). Proof. apply spec_quiet, q_draw_arr. Qed.
  Lemma spec_draw_batch : spec draw_batch (fun _ => True). Proof. apply spec_quiet, q_draw_batch. Qed.
  Lemma spec_draw_svc : spec draw_svc (fun _ => True). Proof. apply spec_quiet, q_draw_svc. Qed.
  Lemma spec_draw_unif : spec draw_unif (fun _ => True). Proof. apply spec_quiet, q_draw_unif. Qed.
  Lemma spec_draw_ren : spec draw_ren (fun _ => True). Proof. apply spec_quiet, q_draw_ren. Qed.
  Lemma spec_draw_cct : spec draw_cct (fun _ => True). Proof. apply spec_quiet, q_draw_cct. Qed.

  (* ---------- tactics ---------- *)
  Ltac notinC := solve [ cbn; first [ assumption | congruence ] ].
  Ltac nok_in :=
    unfold all_individuals; cbn; intros;
    first [ solve [left; eauto] | solve [right; assumption] | solve [right; congruence] ].
  Ltac nok :=
    match goal with
    | H : NOK ?nd |- NOK _ =>
      solve [ apply (NOK_upd nd _ H);
              [ reflexivity
              | first [ (intros _; repeat split; reflexivity) | (let HK := fresh in intros HK; exfalso; congruence) ]
              | intros _; split; [|split]; nok_in
              | intros _; nok_in | nok_in | nok_in ] ]
    end.
  Ltac sp_prim :=
    first [ apply spec_get_node | apply spec_get_ind | apply spec_lift | apply spec_ncfg_of | apply spec_gets_inds ].
  Ltac sp_intro :=
    let a := fresh "v" in let H := fresh "F" in
    intros a H; cbv beta in H;
    try match type of H with _ /\ _ => let H1 := fresh "F" in let H2 := fresh "F" in destruct H as [H1 H2] end.
  Create HintDb kdb.
  Ltac sp1 :=
    first
      [ apply spec_retI | apply spec_fail | apply spec_oof | apply spec_gets | apply spec_log_rec
      | apply spec_draw_svc | apply spec_draw_arr | apply spec_draw_batch | apply spec_draw_unif | apply spec_draw_ren | apply spec_draw_cct
      | solve [auto 2 with kdb nocore]
      | (apply spec_put_ind; notinC) | (apply spec_del_ind; notinC)
      | (apply spec_put_node; nok)
      | (apply spec_modify_same; intros ?; repeat split; reflexivity)
      | (eapply spec_bind; [sp_prim|sp_intro])
      | (eapply spec_bind_keeps; [|intros ?])
      | (eapply spec_weakenI; sp_prim)
      | match goal with
        | |- spec (if ?b then _ else _) _ => destruct b
        | |- spec (match ?x with _ => _ end) _ => destruct x
        end ].

  (* ---------- the engine functions ---------- *)
  Lemma k_choice_uniform {A} (l : list A) : spec (choice_uniform l) (fun a => In a l).
  Proof.
    unfold choice_uniform. eapply spec_bind_keeps; [apply spec_draw_unif|intros u]. eapply spec_conseq; [apply spec_lift|].
    intros a Ha. cbv beta in Ha. eapply nth_error_In. exact Ha.
  Qed.
  Lemma k_choice_uniformI {A} (l : list A) : spec (choice_uniform l) (fun _ => True).
  Proof. eapply spec_weakenI, k_choice_uniform. Qed.
  Lemma k_choice_weighted den P : spec (choice_weighted den P) (fun _ => True).
  Proof. unfold choice_weighted. repeat sp1. Qed.
  #[local] Hint Resolve k_choice_uniformI k_choice_weighted : kdb.

  Lemma k_exit_accept i c : ~ In i C -> spec (exit_accept i c) (fun _ => True).
  Proof. intros Hi. unfold exit_accept. repeat sp1. Qed.
  Lemma k_upd_ind i f : ~ In i C -> (forall x, i_id (f x) = i_id x) -> spec (upd_ind i f) (fun _ => True).
  Proof.
    intros Hi Hf. unfold upd_ind. eapply spec_bind; [apply spec_get_ind|intros x Hx]. cbv beta in Hx. apply spec_put_ind. rewrite Hf, Hx. exact Hi.
  Qed.

  Lemma k_choose_next_customer j : spec (choose_next_customer cf j) (fun cand => forall c, cand = Some c -> ~ In j K -> ~ In c C).
  Proof.
    unfold choose_next_customer. eapply spec_bind; [apply spec_get_node|intros nd [Hnd Hid]]. eapply spec_bind_keeps; [apply spec_gets|intros il].
    destruct (first_waiting (n_queues nd) il) as [|w0 wr] eqn:Ew.
    - eapply spec_conseq; [apply spec_ret|]. intros a -> c Hc. discriminate.
    - assert (HW : forall c, In c (w0 :: wr) -> ~ In j K -> ~ In c C).
      { intros c Hc Hj. destruct Hnd as (_ & B & _). rewrite <- Hid in Hj. apply (proj1 (B Hj)). apply (first_waiting_In _ il). rewrite Ew. exact Hc. }
      eapply spec_bind_keeps; [eapply spec_weakenI; apply spec_ncfg_of|intros nc].
      destruct (nc_disc nc =? 0); [eapply spec_conseq; [apply spec_ret|]; intros a -> c Hc; injection Hc as <-; apply HW; left; reflexivity|].
      destruct (nc_disc nc =? 1); [eapply spec_conseq; [apply spec_ret|]; intros a -> c Hc; injection Hc as <-; apply HW; apply last_In|].
      eapply spec_bind; [apply k_choice_uniform|intros x Hx]. eapply spec_conseq; [apply spec_ret|]. intros a -> c Hc. injection Hc as <-. apply HW. exact Hx.
  Qed.

  Lemma k_upd_server j sid f : ~ In j K -> (forall sv c, sv_cust (f sv) = Some c -> sv_cust sv = Some c \/ ~ In c C) -> spec (upd_server j sid f) (fun _ => True).
  Proof.
    intros Hj Hf. unfold upd_server. eapply spec_bind; [apply spec_get_node|intros nd [Hnd Hid]].
    destruct (find_server sid (n_servers nd)) as [sv|] eqn:Ef; [|apply spec_retI]. apply spec_put_node.
    apply (NOK_upd nd _ Hnd); [reflexivity|intros HK; exfalso; congruence|intros _; split; [|split]|intros _; nok_in|nok_in|nok_in].
    - nok_in.
    - cbn. intros sv' c Hin Hcu. apply put_server_l_In in Hin as [->|Hin]; [|left; eauto].
      destruct (Hf sv c Hcu) as [H|H]; [left; exists sv; split; [eapply find_server_In; eauto|exact H]|right; exact H].
    - nok_in.
  Qed.

  Lemma scan_cc_spec : forall q il best bi r, scan_cc q il best bi = Some r ->
    snd r = bi \/ exists i x, snd r = Some i /\ find_ind i il = Some x /\ i_server x = None.
  Proof.
    induction q as [|i q IH]; intros il best bi r H; cbn [scan_cc] in H; [injection H as <-; left; reflexivity|].
    destruct (find_ind i il) as [x|] eqn:Ex; [|discriminate]. destruct (i_ccd x) as [| |z]; [discriminate|eauto|].
    destruct (date_lt (Some z) best && match i_server x with None => true | Some _ => false end) eqn:Eb; [|eauto].
    apply andb_true_iff in Eb as [_ Eb]. destruct (i_server x) eqn:Es; [discriminate|].
    destruct (IH _ _ _ _ H) as [Hr|Hr]; [|right; exact Hr]. right. exists i, x. auto.
  Qed.
  Lemma k_find_next_class_change j : spec (find_next_class_change j) (fun _ => True).
  Proof.
    unfold find_next_class_change. eapply spec_bind; [apply spec_get_node|intros nd [Hnd Hid]].
    eapply spec_bind; [apply spec_gets_inds|intros il Hil]. cbv beta in Hil.
    eapply spec_bind; [apply spec_lift|intros r Hr]. cbv beta in Hr. apply spec_put_node.
    apply (NOK_upd nd _ Hnd); [reflexivity|intros _; repeat split; reflexivity|intros _; split; [|split]; nok_in|intros _; nok_in|nok_in|].
    cbn. intros i Hi. right. intros HiC. destruct (scan_cc_spec _ _ _ _ _ Hr) as [Hn|(i' & x & Hs & Hx & Hsv)]; [congruence|].
    assert (i' = i) by congruence. subst i'. destruct (proj2 H0 i HiC) as (x0 & Hx0 & Hs0). rewrite (Hil i HiC), Hx0 in Hx. injection Hx as <-. contradiction.
  Qed.
  #[local] Hint Resolve k_find_next_class_change : kdb.
  Lemma k_cct_loop : forall row b best bc, spec (cct_loop row b best bc) (fun _ => True).
  Proof. induction row as [|h r IH]; intros b best bc; cbn [cct_loop]; repeat sp1; apply IH. Qed.
  #[local] Hint Resolve k_cct_loop : kdb.
  Lemma k_decide_class_change j i : ~ In i C -> spec (decide_class_change cf j i) (fun _ => True).
  Proof. intros Hi. unfold decide_class_change. repeat sp1. Qed.
  Lemma k_reset_class_change j i : ~ In i C -> spec (reset_class_change cf j i) (fun _ => True).
  Proof. intros Hi. unfold reset_class_change, upd_ind. repeat sp1. Qed.
  #[local] Hint Resolve k_exit_accept k_decide_class_change k_reset_class_change : kdb.

  Ltac nok_split nd H :=
    apply (NOK_upd nd _ H);
    [ reflexivity
    | first [ (intros _; repeat split; reflexivity) | (let HK := fresh in intros HK; exfalso; congruence) ]
    | intros _; split; [|split] | intros _ | | ]; try nok_in.
  Ltac sp2 := first [ sp1 | progress cbv zeta ].

  Lemma k_stime_num x : spec (stime_num x) (fun _ => True).
  Proof. unfold stime_num. repeat sp1. Qed.
  #[local] Hint Resolve k_stime_num : kdb.
  Lemma k_gstap i : ~ In i C -> spec (give_service_time_after_preemption i) (fun _ => True).
  Proof. intros Hi. unfold give_service_time_after_preemption. repeat sp1. Qed.
  #[local] Hint Resolve k_gstap : kdb.
  Lemma k_giast i : ~ In i C -> spec (give_individual_a_service_time i) (fun _ => True).
  Proof. intros Hi. unfold give_individual_a_service_time. repeat sp1. Qed.
  #[local] Hint Resolve k_giast : kdb.

  Lemma k_attach_server j sid i : ~ In j K -> ~ In i C -> spec (attach_server j sid i) (fun _ => True).
  Proof.
    intros Hj Hi. unfold attach_server. eapply spec_bind_keeps; [apply k_upd_server; [exact Hj|]|intros _; apply k_upd_ind; [exact Hi|reflexivity]].
    cbn. intros sv c Hc. injection Hc as <-. right. exact Hi.
  Qed.
  Lemma k_set_next_end j sid d : ~ In j K -> spec (set_next_end j sid d) (fun _ => True).
  Proof. intros Hj. apply k_upd_server; [exact Hj|]. cbn. intros sv c Hc. left. exact Hc. Qed.
  Lemma k_kill_server j sid : ~ In j K -> spec (kill_server j sid) (fun _ => True).
  Proof.
    intros Hj. unfold kill_server. eapply spec_bind_keeps; [apply spec_gets|intros t]. eapply spec_bind; [apply spec_get_node|intros nd [Hnd Hid]].
    eapply spec_bind_keeps; [eapply spec_weakenI; apply spec_lift|intros sv]. cbv zeta. apply spec_put_node. nok_split nd Hnd.
    cbn. intros sv' c Hin Hcu. apply del_server_l_In in Hin. left; eauto.
  Qed.
  Lemma k_detatch_server j sid i : ~ In j K -> ~ In i C -> spec (detatch_server j sid i) (fun _ => True).
  Proof.
    intros Hj Hi. unfold detatch_server. eapply spec_bind_keeps; [apply spec_gets|intros t]. eapply spec_bind; [apply spec_get_node|intros nd [Hnd Hid]].
    eapply spec_bind; [apply spec_get_ind|intros x Hx]; cbv beta in Hx. eapply spec_bind_keeps; [apply spec_put_ind; notinC|intros _].
    destruct (find_server sid (n_servers nd)) as [sv|] eqn:Ef; [|apply spec_retI].
    eapply spec_bind_keeps; [|intros _; destruct (sv_offduty sv); [apply k_kill_server; exact Hj|apply spec_retI]].
    apply spec_put_node. nok_split nd Hnd.
    cbn. intros sv' c Hin Hcu. apply put_server_l_In in Hin as [->|Hin]; [cbn in Hcu; discriminate|left; eauto].
  Qed.
  #[local] Hint Resolve k_attach_server k_set_next_end k_kill_server k_detatch_server : kdb.

  Lemma k_bump_rec i : ~ In i C -> spec (bump_rec i) (fun _ => True).
  Proof. intros Hi. apply k_upd_ind; [exact Hi|reflexivity]. Qed.
  #[local] Hint Resolve k_bump_rec : kdb.
  Lemma k_write_individual_record j i : ~ In i C -> spec (write_individual_record cf j i) (fun _ => True).
  Proof. intros Hi. unfold write_individual_record. repeat sp1. Qed.
  Lemma k_write_interruption_record j i d : ~ In i C -> spec (write_interruption_record cf j i d) (fun _ => True).
  Proof. intros Hi. unfold write_interruption_record. repeat sp1. Qed.
  Lemma k_write_reneging_record j i : ~ In i C -> spec (write_reneging_record j i) (fun _ => True).
  Proof. intros Hi. unfold write_reneging_record. repeat sp1. Qed.
  Lemma k_write_br_record j i ty : ~ In i C -> spec (write_br_record j i ty) (fun _ => True).
  Proof. intros Hi. unfold write_br_record. repeat sp1. Qed.
  Lemma k_reset_individual_attributes i : ~ In i C -> spec (reset_individual_attributes i) (fun _ => True).
  Proof. intros Hi. apply k_upd_ind; [exact Hi|reflexivity]. Qed.
  #[local] Hint Resolve k_write_individual_record k_write_interruption_record k_write_reneging_record k_write_br_record k_reset_individual_attributes : kdb.

  Lemma k_valid_dest d : spec (valid_dest d) (fun _ => True).
  Proof. unfold valid_dest. repeat sp1. Qed.
  Lemma k_jsq_loop lb : forall ds best acc, spec (jsq_loop lb ds best acc) (fun _ => True).
  Proof. induction ds as [|d r IH]; intros best acc; cbn [jsq_loop]; repeat sp2; apply IH. Qed.
  #[local] Hint Resolve k_valid_dest k_jsq_loop : kdb.
  Lemma k_jsq_next lb ds o : spec (jsq_next lb ds o) (fun _ => True).
  Proof. unfold jsq_next. repeat sp1. Qed.
  Lemma k_get_cyc c j : spec (get_cyc c j) (fun _ => True).
  Proof. unfold get_cyc. repeat sp1. Qed.
  Lemma k_bump_cyc c j : spec (bump_cyc c j) (fun _ => True).
  Proof. unfold bump_cyc. apply spec_modify_same. intros s. destruct (nthZ (cyc s) c) as [row|]; [destruct (nthZ row (j - 1))|]; auto. Qed.
  #[local] Hint Resolve k_jsq_next k_get_cyc k_bump_cyc : kdb.
  Lemma k_node_router_next r c j : spec (node_router_next r c j) (fun _ => True).
  Proof. unfold node_router_next. repeat sp1. Qed.
  #[local] Hint Resolve k_node_router_next : kdb.
  Lemma k_next_node_for mode j i : ~ In i C -> spec (next_node_for cf mode j i) (fun _ => True).
  Proof. intros Hi. unfold next_node_for. repeat sp1. Qed.
  #[local] Hint Resolve k_next_node_for : kdb.

  Lemma k_start_fresh j i osid count : ~ In j K -> ~ In i C -> spec (start_fresh cf j i osid count) (fun _ => True).
  Proof. intros Hj Hi. unfold start_fresh, upd_ind, upd_node. repeat sp1. Qed.
  Lemma k_start_give j i sid : ~ In j K -> ~ In i C -> spec (start_give cf j i sid) (fun _ => True).
  Proof. intros Hj Hi. unfold start_give, upd_ind, upd_node. repeat sp1. Qed.
  Lemma k_start_preemptor j i sid : ~ In j K -> ~ In i C -> spec (start_preemptor cf j i sid) (fun _ => True).
  Proof. intros Hj Hi. unfold start_preemptor, upd_ind, upd_node. repeat sp1. Qed.
  #[local] Hint Resolve k_start_fresh k_start_give k_start_preemptor : kdb.

  Lemma hd_error_In {A} (l : list A) a : hd_error l = Some a -> In a l.
  Proof. destruct l; cbn; [discriminate|intros H; injection H as ->; left; reflexivity]. Qed.

  Lemma k_biis j sid : ~ In j K -> spec (begin_interrupted_individuals_service j sid) (fun _ => True).
  Proof.
    intros Hj. unfold begin_interrupted_individuals_service.
    eapply spec_bind; [apply spec_get_node|intros nd [Hnd Hid]].
    eapply spec_bind; [apply spec_lift|intros i Hhd]. cbv beta in Hhd.
    assert (Hi : ~ In i C).
    { destruct Hnd as (_ & B & _). rewrite <- Hid in Hj. apply (proj2 (proj2 (B Hj))). apply hd_error_In. exact Hhd. }
    eapply spec_bind; [apply spec_get_ind|intros x Hx]. cbv beta in Hx.
    eapply spec_bind_keeps.
    { destruct (i_blocked x); [|apply spec_retI].
      eapply spec_bind_keeps; [eapply spec_weakenI; apply spec_lift|intros d].
      eapply spec_bind; [apply spec_get_node|intros dn [Hdn Hdid]].
      eapply spec_bind; [apply spec_lift|intros bq' Hbq]. cbv beta in Hbq.
      eapply spec_bind_keeps; [|intros _; apply spec_put_ind; notinC].
      apply spec_put_node. nok_split dn Hdn. cbn. intros from y Hin. left. eapply remove_pair_In; eauto. }
    intros _. unfold upd_node.
    eapply spec_bind_keeps; [apply k_attach_server; assumption|intros _].
    eapply spec_bind_keeps; [apply k_gstap; assumption|intros _].
    eapply spec_bind_keeps; [apply spec_gets|intros t].
    eapply spec_bind; [apply spec_get_ind|intros x1 Hx1]. cbv beta in Hx1.
    eapply spec_bind_keeps; [apply k_stime_num|intros st].
    eapply spec_bind_keeps; [apply spec_put_ind; notinC|intros _].
    eapply spec_bind_keeps; [repeat sp1|intros _].
    eapply spec_bind_keeps; [apply k_set_next_end; assumption|intros _].
    eapply spec_bind; [apply spec_get_node|intros nd2 [Hnd2 Hid2]].
    eapply spec_bind; [apply spec_lift|intros l' Hl']. cbv beta in Hl'.
    apply spec_put_node. nok_split nd2 Hnd2. cbn. intros i' Hi'. left. eapply (proj2 (remove_first_In _ _ _ Hl')); eauto.
  Qed.
  Lemma k_serve_with j sid : ~ In j K -> spec (serve_with cf j sid) (fun _ => True).
  Proof.
    intros Hj. unfold serve_with. eapply spec_bind_keeps; [eapply spec_weakenI; apply spec_get_node|intros nd].
    destruct (0 <? n_nint nd); [apply k_biis; exact Hj|].
    eapply spec_bind; [apply k_choose_next_customer|intros cand Hc]. cbv beta in Hc.
    destruct cand as [c|]; [|apply spec_retI]. apply k_start_give; [exact Hj|apply Hc; [reflexivity|exact Hj]].
  Qed.
  Lemma k_bsip_release j freed : ~ In j K -> spec (begin_service_if_possible_release cf j freed) (fun _ => True).
  Proof.
    intros Hj. unfold begin_service_if_possible_release. destruct freed as [sid|]; [|apply spec_retI].
    eapply spec_bind_keeps; [eapply spec_weakenI; apply spec_get_node|intros nd].
    destruct (find_server sid (n_servers nd)); [apply k_serve_with; exact Hj|apply spec_retI].
  Qed.
  Lemma k_get_reneging_date j i : spec (get_reneging_date cf j i) (fun _ => True).
  Proof. unfold get_reneging_date. repeat sp1. Qed.
  #[local] Hint Resolve k_biis k_serve_with k_bsip_release k_get_reneging_date : kdb.

  Lemma k_block_individual j i d : ~ In j K -> ~ In i C -> spec (block_individual j i d) (fun _ => True).
  Proof.
    intros Hj Hi. unfold block_individual, upd_node. eapply spec_bind_keeps; [apply k_upd_ind; [exact Hi|reflexivity]|intros _].
    eapply spec_bind; [apply spec_get_node|intros dn [Hdn Hid]]. apply spec_put_node. nok_split dn Hdn.
    cbn. intros from y Hin. apply in_app_or in Hin as [Hin|[Hin|[]]]; [left; exact Hin|]. injection Hin as <- <-. right. exact Hj.
  Qed.

  Lemma first_max_In {A} (key : A -> Z) : forall l best, In (first_max key l best) (best :: l).
  Proof.
    induction l as [|a r IH]; intros best; cbn [first_max]; [left; reflexivity|].
    destruct (key best <? key a); [right; apply IH|destruct (IH best) as [H|H]; [left; exact H|right; right; exact H]].
  Qed.
  Lemma omap_In {X Y} (f : X -> option Y) : forall l ys y, omap f l = Some ys -> In y ys -> exists x, In x l /\ f x = Some y.
  Proof.
    induction l as [|x r IH]; intros ys y H Hy; cbn in H; [injection H as <-; destruct Hy|].
    destruct (f x) as [y0|] eqn:Ef; cbn in H; [|discriminate]. destruct (omap f r) as [ys0|] eqn:Er; cbn in H; [|discriminate].
    injection H as <-. destruct Hy as [<-|Hy]; [exists x; split; [left; reflexivity|exact Ef]|].
    destruct (IH _ _ eq_refl Hy) as (x' & Hx' & Hf'). exists x'. split; [right; exact Hx'|exact Hf'].
  Qed.
  Lemma k_preempt_victim j i : spec (preempt_victim cf j i) (fun a => forall v, a = Some v -> ~ In j K /\ ~ In v C).
  Proof.
    unfold preempt_victim. eapply spec_bind; [apply spec_ncfg_of|intros nc Hc]. cbv beta in Hc.
    destruct (nc_preempt nc =? 0) eqn:Ep; [eapply spec_conseq; [apply spec_ret|]; intros a -> v Hv; discriminate|].
    assert (Hj : ~ In j K). { intros HK. destruct (K_cfg j nc HK Hc) as (_ & Hp & _). rewrite Hp in Ep. discriminate. }
    eapply spec_bind; [apply spec_get_node|intros nd [Hnd Hid]]. eapply spec_bind_keeps; [apply spec_gets|intros il].
    eapply spec_bind; [apply spec_lift|intros ps Hps]. cbv beta in Hps.
    destruct ps as [|p0 pr]; [apply spec_fail|]. cbv zeta.
    eapply spec_bind_keeps; [eapply spec_weakenI; apply spec_get_ind|intros x].
    match goal with |- spec (if ?b then _ else _) _ => destruct b end; [|eapply spec_conseq; [apply spec_ret|]; intros a -> v Hv; discriminate].
    match goal with |- spec (match ?l with _ => _ end) _ => destruct l as [|c0 cr] eqn:Efl end; [apply spec_fail|].
    eapply spec_conseq; [apply spec_ret|]. intros a -> v Hv. injection Hv as <-. split; [exact Hj|].
    match goal with |- ~ In (fst (first_max ?key cr c0)) _ => pose proof (first_max_In key cr c0) as Hin end.
    rewrite <- Efl in Hin. apply filter_In in Hin as [Hin _].
    destruct (omap_In _ _ _ _ Hps Hin) as (sv & Hsv & Hf).
    destruct (sv_cust sv) as [c|] eqn:Ecu; [|discriminate]. destruct (find_ind c il); cbn in Hf; [|discriminate]. injection Hf as Hf.
    rewrite <- Hf. cbn. destruct Hnd as (_ & B & _). rewrite <- Hid in Hj. exact (proj1 (proj2 (B Hj)) sv c Hsv Ecu).
  Qed.

  (* ---------- the recursive core ---------- *)
  Lemma k_release_body acc rbi j i d rr : ~ In j K ->
    (forall d' i', ~ In i' C -> spec (acc d' i') (fun _ => True)) -> (forall j', ~ In j' K -> spec (rbi j') (fun _ => True)) ->
    spec (release_body cf acc rbi j i d rr) (fun _ => True).
  Proof.
    intros Hj Ha Hr. unfold release_body.
    eapply spec_bind_keeps; [apply spec_gets|intros t].
    eapply spec_bind; [apply spec_get_ind|intros x Hx]. cbv beta in Hx.
    eapply spec_bind; [apply spec_get_node|intros nd [Hnd Hid]].
    eapply spec_bind_keeps; [eapply spec_weakenI; apply spec_ncfg_of|intros nc].
    eapply spec_bind; [apply spec_lift|intros q Hq]. cbv beta in Hq.
    eapply spec_bind; [apply spec_lift|intros q' Hq']. cbv beta in Hq'.
    destruct (remove_first_In _ _ _ Hq') as [Hiq Hsub].
    assert (Hi : ~ In i C).
    { destruct Hnd as (_ & B & _). rewrite <- Hid in Hj. apply (proj1 (B Hj)). eapply nthZ_concat; eauto. }
    cbv zeta. eapply spec_bind_keeps.
    { apply spec_put_node. nok_split nd Hnd. cbn. intros i' Hi'. left. apply in_concat_updZ in Hi' as [Hi'|Hi']; [eapply nthZ_concat; eauto|exact Hi']. }
    intros _. unfold upd_ind.
    eapply spec_bind_keeps; [apply spec_put_ind; notinC|intros _].
    eapply spec_bind_keeps; [repeat sp1|intros _].
    eapply spec_bind_keeps; [repeat sp1|intros freed].
    eapply spec_bind_keeps; [repeat sp1|intros _].
    eapply spec_bind_keeps; [repeat sp1|intros _].
    eapply spec_bind_keeps; [repeat sp1|intros _].
    eapply spec_bind_keeps; [destruct (d =? -1); [apply k_exit_accept; exact Hi|apply Ha; exact Hi]|intros _].
    destruct rr; [apply spec_retI|apply Hr; exact Hj].
  Qed.

  Lemma k_rbi_body rel j : ~ In j K -> (forall a b c e, ~ In a K -> spec (rel a b c e) (fun _ => True)) -> spec (rbi_body cf rel j) (fun _ => True).
  Proof.
    intros Hj Hrel. unfold rbi_body.
    eapply spec_bind; [apply spec_get_node|intros nd [Hnd Hid]].
    eapply spec_bind_keeps; [eapply spec_weakenI; apply spec_ncfg_of|intros nc].
    match goal with |- spec (if ?b then _ else _) _ => destruct b end; [|apply spec_retI].
    destruct (n_bq nd) as [|[from y] rest] eqn:Ebq; [apply spec_fail|].
    assert (Hfrom : ~ In from K).
    { intros HF. apply Hj. rewrite <- Hid. destruct Hnd as (_ & _ & D & _). apply (D from y); [rewrite Ebq; left; reflexivity|exact HF]. }
    eapply spec_bind; [apply spec_get_node|intros fnd [Hfnd Hfid]].
    destruct (memZ y (all_individuals fnd)) eqn:Em; [|eapply (spec_bind _ _ (fun _ => False)); [apply spec_fail|intros ? []]].
    assert (Hy : ~ In y C).
    { destruct Hfnd as (_ & B & _). rewrite <- Hfid in Hfrom. apply (proj1 (B Hfrom)). apply memZ_In. exact Em. }
    eapply spec_bind_keeps; [apply spec_retI|intros _].
    eapply spec_bind_keeps.
    { apply spec_put_node. nok_split nd Hnd. cbn. intros f' y' Hb. left. rewrite Ebq. right. exact Hb. }
    intros _.
    eapply spec_bind; [apply spec_get_ind|intros yx Hyx]. cbv beta in Hyx.
    eapply spec_bind_keeps; [|intros _; apply Hrel; exact Hfrom].
    destruct (i_interrupted yx); [|apply spec_retI].
    eapply spec_bind_keeps; [eapply spec_weakenI; apply spec_lift|intros os].
    eapply spec_bind_keeps; [eapply spec_weakenI; apply spec_lift|intros ot].
    eapply spec_bind_keeps; [apply spec_put_ind; notinC|intros _].
    eapply spec_bind; [apply spec_get_node|intros fnd2 [Hfnd2 Hfid2]].
    eapply spec_bind; [apply spec_lift|intros l' Hl']. cbv beta in Hl'.
    apply spec_put_node. nok_split fnd2 Hfnd2. cbn. intros i' Hi'. left. eapply (proj2 (remove_first_In _ _ _ Hl')); eauto.
  Qed.

  Lemma k_accept_body pre j i : ~ In i C ->
    (forall a b c, ~ In a K -> ~ In b C -> ~ In c C -> spec (pre a b c) (fun _ => True)) -> spec (accept_body cf pre j i) (fun _ => True).
  Proof.
    intros Hi Hpre. unfold accept_body, upd_ind.
    eapply spec_bind; [apply spec_get_ind|intros x Hx]. cbv beta in Hx.
    eapply spec_bind; [apply spec_get_node|intros nd [Hnd Hid]].
    eapply spec_bind_keeps; [apply spec_put_ind; notinC|intros _].
    eapply spec_bind; [apply spec_lift|intros qs Hqs]. cbv beta in Hqs.
    eapply spec_bind_keeps.
    { apply spec_put_node. nok_split nd Hnd. cbn. intros i' Hi'.
      destruct (nthZ (n_queues nd) (i_prio x)) as [q|] eqn:Eq; [|discriminate]. injection Hqs as <-.
      apply in_concat_updZ in Hi' as [Hi'|Hi']; [|left; exact Hi'].
      apply in_app_or in Hi' as [Hi'|[<-|[]]]; [left; eapply nthZ_concat; eauto|right; exact Hi]. }
    intros _.
    eapply spec_bind_keeps; [apply spec_gets|intros t].
    eapply spec_bind_keeps; [repeat sp1|intros _].
    eapply spec_bind; [apply spec_ncfg_of|intros nc Hc]. cbv beta in Hc.
    eapply spec_bind_keeps; [repeat sp1|intros _].
    unfold accept_rest.
    eapply spec_bind_keeps; [apply k_decide_class_change; exact Hi|intros _].
    eapply spec_bind; [apply spec_get_node|intros nd1 [Hnd1 Hid1]]. cbv zeta.
    eapply (spec_bind _ _ (fun cand => forall c, cand = Some c -> (nd_inf nd1 = true /\ c = i) \/ (nd_inf nd1 = false /\ (~ In j K -> ~ In c C)))).
    { destruct (nd_inf nd1).
      - eapply spec_conseq; [apply spec_ret|]. intros a -> c Hcc. injection Hcc as <-. left. auto.
      - eapply spec_conseq; [apply k_choose_next_customer|]. intros a Ha c Hcc. right. split; [reflexivity|apply Ha; exact Hcc]. }
    intros cand Hcand. destruct cand as [c|]; [|apply spec_retI].
    destruct (Hcand c eq_refl) as [[Einf ->]|[Einf Hcc]]; rewrite Einf.
    - apply k_start_fresh; [|exact Hi]. intros HK. rewrite <- Hid1 in HK. rewrite (K_fin nd1 Hnd1 HK) in Einf. discriminate.
    - eapply spec_bind_keeps; [eapply spec_weakenI; apply spec_get_ind|intros cx].
      destruct (find_free_server_for (nc_spf nc) (i_cls cx) (n_servers nd1)) as [sv|] eqn:Eff.
      + assert (HjK : ~ In j K).
        { intros HK. rewrite <- Hid1 in HK. rewrite find_free_server_for_busy in Eff; [discriminate|]. intros sv' Hsv'. apply (K_servers nd1 Hnd1 HK sv' Hsv'). }
        apply k_start_fresh; [exact HjK|apply Hcc; exact HjK].
      + match goal with |- spec (if ?b then _ else _) _ => destruct b end; [|apply spec_retI].
        eapply spec_bind; [apply k_preempt_victim|intros v Hv]. cbv beta in Hv.
        destruct v as [vi|]; [|apply spec_retI]. destruct (Hv vi eq_refl) as [HjK Hvi]. apply Hpre; [exact HjK|exact Hvi|apply Hcc; exact HjK].
  Qed.

  Lemma k_preempt_body rel j v i : ~ In j K -> ~ In v C -> ~ In i C ->
    (forall a b c e, ~ In a K -> spec (rel a b c e) (fun _ => True)) -> spec (preempt_body cf rel j v i) (fun _ => True).
  Proof.
    intros Hj Hv Hi Hrel. unfold preempt_body, upd_ind.
    eapply spec_bind_keeps; [apply spec_gets|intros t].
    eapply spec_bind; [apply spec_get_ind|intros vx Hvx]. cbv beta in Hvx.
    eapply spec_bind_keeps; [eapply spec_weakenI; apply spec_ncfg_of|intros nc].
    eapply spec_bind_keeps; [apply spec_put_ind; notinC|intros _].
    eapply spec_bind_keeps; [|intros _; repeat sp1].
    destruct (nc_preempt nc =? 4); [|repeat sp1].
    eapply spec_bind_keeps; [apply k_next_node_for; exact Hv|intros d].
    eapply spec_bind_keeps; [apply k_write_interruption_record; exact Hv|intros _]. apply Hrel. exact Hj.
  Qed.

  Lemma k_core : forall f,
    (forall j i d rr, ~ In j K -> spec (release cf f j i d rr) (fun _ => True)) /\
    (forall j, ~ In j K -> spec (release_blocked_individual cf f j) (fun _ => True)) /\
    (forall j i, ~ In i C -> spec (accept cf f j i) (fun _ => True)) /\
    (forall j v i, ~ In j K -> ~ In v C -> ~ In i C -> spec (preempt cf f j v i) (fun _ => True)).
  Proof.
    induction f as [|f (IH1 & IH2 & IH3 & IH4)]; [repeat split; intros; match goal with HH : _ = Ok _ |- _ => cbn in HH; discriminate HH end|].
    split; [|split; [|split]]; intros.
    - rewrite release_S. apply k_release_body; [assumption|intros; apply IH3; assumption|assumption].
    - rewrite rbi_S. apply k_rbi_body; [assumption|intros; apply IH1; assumption].
    - rewrite accept_S. apply k_accept_body; [assumption|intros; apply IH4; assumption].
    - rewrite preempt_S. apply k_preempt_body; [assumption|assumption|assumption|intros; apply IH1; assumption].
  Qed.
  Lemma k_release f j i d rr : ~ In j K -> spec (release cf f j i d rr) (fun _ => True). Proof. apply k_core. Qed.
  Lemma k_rbi f j : ~ In j K -> spec (release_blocked_individual cf f j) (fun _ => True). Proof. apply k_core. Qed.
  Lemma k_accept f j i : ~ In i C -> spec (accept cf f j i) (fun _ => True). Proof. apply k_core. Qed.
  Lemma k_preempt f j v i : ~ In j K -> ~ In v C -> ~ In i C -> spec (preempt cf f j v i) (fun _ => True). Proof. apply k_core. Qed.
  #[local] Hint Resolve k_release k_rbi k_accept k_preempt k_block_individual : kdb.

  (* ---------- the events of a node ---------- *)
  Ltac nok_in ::=
    unfold all_individuals; cbn; intros;
    first [ solve [left; eauto] | solve [right; assumption] | solve [right; congruence]
          | match goal with H : In _ (_ ++ [_]) |- _ => apply in_app_or in H as [H|[<-|[]]]; [left; exact H|right; assumption] end ].

  Lemma k_decide_between l : spec (decide_between l) (fun a => In a l).
  Proof.
    unfold decide_between. destruct l as [|a [|b r]]; [apply spec_fail|eapply spec_conseq; [apply spec_ret|intros x ->; left; reflexivity]|apply k_choice_uniform].
  Qed.
  Lemma k_change_customer_class j i : ~ In i C -> spec (change_customer_class cf j i) (fun _ => True).
  Proof. intros Hi. unfold change_customer_class. repeat sp2. Qed.
  Lemma k_has_space d : spec (has_space cf d) (fun _ => True).
  Proof. unfold has_space. repeat sp1. Qed.
  #[local] Hint Resolve k_change_customer_class k_has_space : kdb.

  Lemma k_finish_service j : ~ In j K -> spec (finish_service cf j) (fun _ => True).
  Proof.
    intros Hj. unfold finish_service, upd_ind. eapply spec_bind; [apply spec_get_node|intros nd [Hnd Hid]].
    eapply spec_bind; [apply k_decide_between|intros i Hin]. cbv beta in Hin.
    assert (Hi : ~ In i C) by (destruct Hnd as (_ & _ & _ & E & _); apply E; exact Hin).
    repeat sp1.
  Qed.

  Lemma k_renege j : ~ In j K -> spec (renege cf j) (fun _ => True).
  Proof.
    intros Hj. unfold renege, upd_ind. eapply spec_bind_keeps; [apply spec_gets|intros t].
    eapply spec_bind; [apply spec_get_node|intros nd [Hnd Hid]].
    eapply spec_bind; [apply k_decide_between|intros i Hin]. cbv beta in Hin.
    assert (Hi : ~ In i C) by (destruct Hnd as (_ & _ & _ & E & _); apply E; exact Hin).
    eapply spec_bind_keeps; [repeat sp1|intros _].
    eapply spec_bind_keeps; [apply k_next_node_for; exact Hi|intros d].
    eapply spec_bind; [apply spec_get_ind|intros x Hx]. cbv beta in Hx.
    eapply spec_bind; [apply spec_get_node|intros nd1 [Hnd1 Hid1]].
    eapply spec_bind; [apply spec_lift|intros q Hq]. cbv beta in Hq.
    eapply spec_bind; [apply spec_lift|intros q' Hq']. cbv beta in Hq'.
    destruct (remove_first_In _ _ _ Hq') as [Hiq Hsub]. cbv zeta.
    eapply spec_bind_keeps.
    { apply spec_put_node. nok_split nd1 Hnd1. cbn. intros i' Hi'. left. apply in_concat_updZ in Hi' as [Hi'|Hi']; [eapply nthZ_concat; eauto|exact Hi']. }
    intros _. repeat sp1.
  Qed.

  Lemma k_interrupt_service fuel j i pre : ~ In j K -> ~ In i C -> spec (interrupt_service cf fuel j i pre) (fun _ => True).
  Proof. intros Hj Hi. unfold interrupt_service, upd_ind, upd_node. repeat sp1. Qed.
  #[local] Hint Resolve k_interrupt_service : kdb.

  Lemma keyed_inv : forall l s kl s', keyed l s = Ok (kl, s') -> s' = s /\ map snd kl = l.
  Proof.
    unfold keyed. induction l as [|i r IH]; intros s kl s' H; cbn [mapM] in H; [apply ret_inv in H as [-> ->]; auto|].
    minv H b s1 E1. minv E1 x s2 E2. apply get_ind_inv in E2 as [-> _]. apply ret_inv in E1 as [-> ->].
    minv H bs s3 E3. apply IH in E3 as [-> Hm]. apply ret_inv in H as [-> ->]. cbn. rewrite Hm. auto.
  Qed.
  Lemma k_keyed l : spec (keyed l) (fun kl => map snd kl = l).
  Proof. intros s a s' HG H. apply keyed_inv in H as [-> Hm]. auto. Qed.
  Lemma ins_key_In k i l x : In x (map snd (ins_key k i l)) -> x = i \/ In x (map snd l).
  Proof.
    induction l as [|[k' i'] r IH]; cbn; [intros [H|[]]; auto|]. destruct (key_le k' k); cbn; [|intros [H|H]; auto].
    intros [H|H]; [auto|]. destruct (IH H); auto.
  Qed.
  Lemma sort_by_key_In l x : In x (sort_by_key l) -> In x (map snd l).
  Proof.
    unfold sort_by_key. assert (Hg : forall l acc, In x (map snd (fold_left (fun acc p => ins_key (fst p) (snd p) acc) l acc)) -> In x (map snd l) \/ In x (map snd acc)).
    { induction l0 as [|p r IH]; intros acc H; cbn in *; [auto|]. destruct (IH _ H) as [H1|H1]; [auto|]. apply ins_key_In in H1 as [->|H1]; auto. }
    intros H. destruct (Hg _ _ H) as [H1|[]]. exact H1.
  Qed.
  Lemma ins_key_desc_In k i l x : In x (map snd (ins_key_desc k i l)) -> x = i \/ In x (map snd l).
  Proof.
    induction l as [|[k' i'] r IH]; cbn; [intros [H|[]]; auto|]. destruct (key_ge k' k); cbn; [|intros [H|H]; auto].
    intros [H|H]; [auto|]. destruct (IH H); auto.
  Qed.
  Lemma sort_by_key_desc_In l x : In x (sort_by_key_desc l) -> In x (map snd l).
  Proof.
    unfold sort_by_key_desc. assert (Hg : forall l acc, In x (map snd (fold_left (fun acc p => ins_key_desc (fst p) (snd p) acc) l acc)) -> In x (map snd l) \/ In x (map snd acc)).
    { induction l0 as [|p r IH]; intros acc H; cbn in *; [auto|]. destruct (IH _ H) as [H1|H1]; [auto|]. apply ins_key_desc_In in H1 as [->|H1]; auto. }
    intros H. destruct (Hg _ _ H) as [H1|[]]. exact H1.
  Qed.
  Lemma spec_forM {A} (l : list A) (f : A -> M unit) : (forall a, In a l -> spec (f a) (fun _ => True)) -> spec (forM_ l f) (fun _ => True).
  Proof.
    induction l as [|a r IH]; intros Hf; cbn [forM_]; [apply spec_retI|].
    eapply spec_bind_keeps; [apply Hf; left; reflexivity|intros _; apply IH; intros a' Ha'; apply Hf; right; exact Ha'].
  Qed.

  Lemma k_sort_interrupted_individuals j : ~ In j K -> spec (sort_interrupted_individuals j) (fun _ => True).
  Proof.
    intros Hj. unfold sort_interrupted_individuals. eapply spec_bind; [apply spec_get_node|intros nd [Hnd Hid]].
    eapply spec_bind; [apply k_keyed|intros kl Hkl]. cbv beta in Hkl. apply spec_put_node. nok_split nd Hnd.
    cbn. intros i Hi. left. rewrite <- Hkl. apply sort_by_key_In. exact Hi.
  Qed.
  Lemma k_off_duty_loop : forall k fuel j idx pre se, ~ In j K -> spec (off_duty_loop cf k fuel j idx pre se) (fun _ => True).
  Proof.
    induction k as [|k IH]; intros fuel j idx pre se Hj; cbn [off_duty_loop]; [apply spec_retI|].
    eapply spec_bind; [apply spec_get_node|intros nd [Hnd Hid]].
    destruct (nth_error (n_servers nd) idx) as [sv|] eqn:En; [|apply spec_retI].
    eapply spec_bind_keeps.
    { apply spec_put_node. nok_split nd Hnd. cbn. intros sv' c Hin Hcu. apply put_server_l_In in Hin as [->|Hin]; [|left; eauto].
      cbn in Hcu. left. exists sv. split; [eapply nth_error_In; eauto|exact Hcu]. }
    intros _. eapply spec_bind_keeps; [|intros _; apply IH; exact Hj].
    destruct (sv_cust sv) as [c|] eqn:Ec; [|apply spec_retI]. apply k_interrupt_service; [exact Hj|].
    destruct Hnd as (_ & B & _). rewrite <- Hid in Hj. apply (proj1 (proj2 (B Hj)) sv c); [eapply nth_error_In; eauto|exact Ec].
  Qed.
  Lemma k_take_servers_off_duty fuel j pre : ~ In j K -> spec (take_servers_off_duty cf fuel j pre) (fun _ => True).
  Proof.
    intros Hj. unfold take_servers_off_duty. eapply spec_bind; [apply spec_get_node|intros nd [Hnd Hid]].
    eapply spec_bind_keeps; [repeat sp1|intros se].
    destruct (pre =? 0).
    - eapply spec_bind_keeps; [|intros _; apply spec_forM; intros a _; apply k_kill_server; exact Hj].
      apply spec_put_node. nok_split nd Hnd. cbn. intros sv' c Hin Hcu. apply in_map_iff in Hin as (sv & <- & Hsv). cbn in Hcu. left; eauto.
    - eapply spec_bind_keeps; [apply k_off_duty_loop; exact Hj|intros _].
      eapply spec_bind_keeps; [apply k_sort_interrupted_individuals; exact Hj|intros _].
      apply spec_forM; intros a _; apply k_kill_server; exact Hj.
  Qed.
  Lemma k_add_new_servers : forall k j, ~ In j K -> spec (add_new_servers k j) (fun _ => True).
  Proof.
    induction k as [|k IH]; intros j Hj; cbn [add_new_servers]; [apply spec_retI|]. unfold upd_node.
    eapply spec_bind_keeps; [apply spec_gets|intros t].
    eapply spec_bind_keeps; [|intros _; apply IH; exact Hj].
    eapply spec_bind; [apply spec_get_node|intros nd [Hnd Hid]]. apply spec_put_node. nok_split nd Hnd.
    cbn. intros sv' c Hin Hcu. apply in_app_or in Hin as [Hin|[<-|[]]]; [left; eauto|cbn in Hcu; discriminate].
  Qed.
  Lemma k_bsip_change_shift j : ~ In j K -> spec (begin_service_if_possible_change_shift cf j) (fun _ => True).
  Proof.
    intros Hj. unfold begin_service_if_possible_change_shift. eapply spec_bind_keeps; [eapply spec_weakenI; apply spec_get_node|intros nd].
    apply spec_forM. intros a _. apply k_serve_with. exact Hj.
  Qed.
  Lemma k_change_shift j : spec (change_shift cf j) (fun _ => True).
  Proof.
    unfold change_shift. eapply spec_bind; [apply spec_ncfg_of|intros nc Hc]. cbv beta in Hc.
    destruct (nc_srv nc) as [|sc|sl] eqn:Es; [apply spec_fail| |apply spec_fail].
    assert (Hj : ~ In j K). { intros HK. destruct (K_cfg j nc HK Hc) as (Hs & _). congruence. }
    eapply spec_bind; [apply spec_get_node|intros nd [Hnd Hid]].
    eapply spec_bind_keeps; [repeat sp1|intros _]. cbv zeta.
    eapply spec_bind_keeps; [apply spec_put_node; nok|intros _].
    eapply spec_bind_keeps; [apply spec_gets|intros fl].
    eapply spec_bind_keeps; [apply k_take_servers_off_duty; exact Hj|intros _].
    eapply spec_bind_keeps; [apply k_add_new_servers; exact Hj|intros _]. apply k_bsip_change_shift. exact Hj.
  Qed.

  Lemma k_slot_loop : forall k j, ~ In j K -> spec (slot_loop cf k j) (fun _ => True).
  Proof.
    induction k as [|k IH]; intros j Hj; cbn [slot_loop]; [apply spec_retI|]. unfold upd_ind, upd_node.
    eapply spec_bind_keeps; [apply spec_gets|intros t].
    eapply spec_bind; [apply spec_get_node|intros nd [Hnd Hid]].
    eapply (spec_bind _ _ (fun cand => forall c, cand = Some c -> ~ In c C)).
    { destruct (0 <? n_nint nd).
      - eapply spec_bind; [apply spec_lift|intros i Hhd]. cbv beta in Hhd.
        assert (Hi : ~ In i C).
        { destruct Hnd as (_ & B & _). rewrite <- Hid in Hj. apply (proj2 (proj2 (B Hj))). apply hd_error_In. exact Hhd. }
        eapply spec_bind; [apply spec_lift|intros l' Hl']. cbv beta in Hl'.
        eapply spec_bind_keeps.
        { apply spec_put_node. nok_split nd Hnd. cbn. intros i' Hi'. left. eapply (proj2 (remove_first_In _ _ _ Hl')); eauto. }
        intros _. eapply spec_bind_keeps; [repeat sp1|intros _]. eapply spec_conseq; [apply spec_ret|]. intros a -> c Hc. injection Hc as <-. exact Hi.
      - eapply spec_conseq; [apply k_choose_next_customer|]. intros a Ha c Hc. apply (Ha c Hc Hj). }
    intros cand Hcand. eapply spec_bind_keeps; [|intros _; apply IH; exact Hj].
    destruct cand as [i|]; [|apply spec_retI]. pose proof (Hcand i eq_refl) as Hi. repeat sp1.
  Qed.
  Lemma firstn_In {A} (l : list A) n x : In x (firstn n l) -> In x l.
  Proof.
    revert l; induction n as [|n IH]; intros l H; [destruct H|]. destruct l as [|a r]; [destruct H|]. cbn in H.
    destruct H as [H|H]; [left; exact H|right; apply IH; exact H].
  Qed.
  Lemma k_slotted_service j : spec (slotted_service cf j) (fun _ => True).
  Proof.
    unfold slotted_service. eapply spec_bind; [apply spec_ncfg_of|intros nc Hc]. cbv beta in Hc.
    destruct (nc_srv nc) as [|sc|sl] eqn:Es; [apply spec_fail|apply spec_fail|].
    assert (Hj : ~ In j K). { intros HK. destruct (K_cfg j nc HK Hc) as (Hs & _). congruence. }
    eapply spec_bind; [apply spec_get_node|intros nd [Hnd Hid]].
    eapply spec_bind_keeps; [repeat sp1|intros _]. cbv zeta.
    eapply spec_bind_keeps; [|intros _; eapply spec_bind_keeps; [apply k_slot_loop; exact Hj|intros _; unfold upd_node; repeat sp1]].
    match goal with |- spec (if ?b then _ else _) _ => destruct b end; [|apply spec_retI].
    match goal with |- spec (if ?b then _ else _) _ => destruct b end; [|apply spec_retI].
    eapply spec_bind_keeps; [apply spec_gets|intros il].
    eapply spec_bind; [apply k_keyed|intros kl Hkl]. cbv beta in Hkl.
    eapply spec_bind_keeps; [apply spec_gets|intros fl].
    apply spec_forM. intros i Hi. apply k_interrupt_service; [exact Hj|].
    apply firstn_In in Hi. apply sort_by_key_desc_In in Hi. rewrite Hkl in Hi. apply filter_In in Hi as [Hi _].
    destruct Hnd as (_ & B & _). rewrite <- Hid in Hj. apply (proj1 (B Hj)). exact Hi.
  Qed.

  Lemma k_ccww j : spec (change_customer_class_while_waiting cf j) (fun _ => True).
  Proof.
    unfold change_customer_class_while_waiting, upd_ind. eapply spec_bind; [apply spec_get_node|intros nd [Hnd Hid]].
    eapply spec_bind; [apply spec_lift|intros i Hhd]. cbv beta in Hhd.
    assert (Hi : ~ In i C) by (destruct Hnd as (_ & _ & _ & E & _); apply E; apply hd_error_In; exact Hhd).
    eapply spec_bind; [apply spec_get_ind|intros x Hx]. cbv beta in Hx.
    eapply spec_bind_keeps; [eapply spec_weakenI; apply spec_lift|intros nc'].
    eapply spec_bind_keeps; [eapply spec_weakenI; apply spec_lift|intros p'].
    eapply spec_bind_keeps; [apply spec_put_ind; notinC|intros _].
    eapply spec_bind_keeps; [|intros _; repeat sp1].
    match goal with |- spec (if ?b then _ else _) _ => destruct b end; [|apply spec_retI].
    eapply spec_bind; [apply spec_lift|intros q Hq]. cbv beta in Hq.
    eapply spec_bind; [apply spec_lift|intros q' Hq']. cbv beta in Hq'. cbv zeta.
    eapply spec_bind; [apply spec_lift|intros qn Hqn]. cbv beta in Hqn.
    eapply spec_bind_keeps.
    { apply spec_put_node. nok_split nd Hnd. cbn. intros i' Hi'.
      apply in_concat_updZ in Hi' as [Hi'|Hi'].
      - apply in_app_or in Hi' as [Hi'|[<-|[]]]; [|right; exact Hi]. apply (nthZ_concat _ _ _ _ Hqn) in Hi'.
        apply in_concat_updZ in Hi' as [Hi'|Hi']; [|left; exact Hi']. left. eapply nthZ_concat; [exact Hq|]. eapply (proj2 (remove_first_In _ _ _ Hq')); eauto.
      - apply in_concat_updZ in Hi' as [Hi'|Hi']; [|left; exact Hi']. left. eapply nthZ_concat; [exact Hq|]. eapply (proj2 (remove_first_In _ _ _ Hq')); eauto. }
    intros _. match goal with |- spec (if ?b then _ else _) _ => destruct b end; [|apply spec_retI].
    eapply spec_bind; [apply k_preempt_victim|intros v Hv]. cbv beta in Hv.
    destruct v as [vi|]; [|apply spec_retI]. destruct (Hv vi eq_refl) as [HjK Hvi].
    eapply spec_bind_keeps; [apply spec_gets|intros fl]. apply k_preempt; assumption.
  Qed.

  (* ---------- update_next_event_date ---------- *)
  Lemma NOK_next nd ty d l : NOK nd -> (forall i, In i l -> ~ In i C) -> (In (n_id nd) K -> ty <> 2 /\ (ty = 0 -> l = [])) ->
    NOK (nd <| n_next_date := d |> <| n_next_inds := l |> <| n_next_type := ty |>).
  Proof.
    intros (A & B & D & E & F) Hl Hk. unfold NOK, KN, ON, all_individuals. cbn. split; [|split; [|split; [|split]]]; auto.
    intros HK. destruct (A HK) as (A1 & A2 & _). destruct (Hk HK) as [K1 K2]. auto.
  Qed.
  Lemma scan_servers_none l : (forall sv, In sv l -> sv_next_end sv = None) -> scan_servers l None [] = (None, []).
  Proof.
    induction l as [|sv r IH]; intros H; cbn [scan_servers]; [reflexivity|]. rewrite (H sv (or_introl eq_refl)). cbn.
    apply IH. intros x Hx. apply H. right. exact Hx.
  Qed.
  Lemma scan_servers_In : forall l best acc i, In i (snd (scan_servers l best acc)) -> In i acc \/ exists sv, In sv l /\ sv_cust sv = Some i.
  Proof.
    induction l as [|sv r IH]; intros best acc i H; cbn [scan_servers] in H; [left; exact H|].
    assert (Hc : forall i', In i' (match sv_cust sv with Some c => [c] | None => [] end) -> sv_cust sv = Some i').
    { intros i'. destruct (sv_cust sv); [intros [->|[]]; reflexivity|intros []]. }
    destruct (date_lt (sv_next_end sv) best).
    - destruct (IH _ _ _ H) as [Hi|(sv' & Hs & Hcu)]; [right; exists sv; split; [left; reflexivity|apply Hc; exact Hi]|right; exists sv'; split; [right; exact Hs|exact Hcu]].
    - destruct (date_eqb (sv_next_end sv) best && match best with Some _ => true | None => false end).
      + destruct (IH _ _ _ H) as [Hi|(sv' & Hs & Hcu)]; [|right; exists sv'; split; [right; exact Hs|exact Hcu]].
        apply in_app_or in Hi as [Hi|Hi]; [left; exact Hi|right; exists sv; split; [left; reflexivity|apply Hc; exact Hi]].
      + destruct (IH _ _ _ H) as [Hi|(sv' & Hs & Hcu)]; [left; exact Hi|right; exists sv'; split; [right; exact Hs|exact Hcu]].
  Qed.
  Lemma scan_inds_In t il : forall q best acc i, In i (snd (scan_inds t q il best acc)) -> In i acc \/ In i q.
  Proof.
    induction q as [|a r IH]; intros best acc i H; cbn [scan_inds] in H; [left; exact H|].
    assert (Hr : forall best' acc', In i (snd (scan_inds t r il best' acc')) -> (In i acc' -> In i acc \/ a = i) -> In i acc \/ In i (a :: r)).
    { intros best' acc' H1 H2. destruct (IH _ _ _ H1) as [H3|H3]; [destruct (H2 H3); [left; assumption|right; left; assumption]|right; right; exact H3]. }
    destruct (find_ind a il) as [x|]; [|apply (Hr _ _ H); auto]. destruct (i_send x) as [e|]; [|apply (Hr _ _ H); auto].
    destruct (negb (i_blocked x) && (t <=? e)); [|apply (Hr _ _ H); auto].
    destruct (date_lt (Some e) best); [apply (Hr _ _ H); intros [<-|[]]; auto|].
    destruct (date_eqb (Some e) best); [apply (Hr _ _ H); intros Hi; apply in_app_or in Hi as [Hi|[<-|[]]]; auto|apply (Hr _ _ H); auto].
  Qed.
  Lemma dne_spec : forall cands best, decide_next_event cands best = best \/
    (In (decide_next_event cands best) cands /\ fst (snd (decide_next_event cands best)) <> None).
  Proof.
    induction cands as [|c r IH]; intros best; cbn [decide_next_event]; [left; reflexivity|].
    destruct (date_lt (fst (snd c)) (fst (snd best))) eqn:El.
    - destruct (IH c) as [E|[E1 E2]]; [|right; split; [right; exact E1|exact E2]]. right. rewrite E. split; [left; reflexivity|].
      destruct (fst (snd c)); [discriminate|destruct (fst (snd best)); discriminate].
    - destruct (IH best) as [E|[E1 E2]]; [left; exact E|right; split; [right; exact E1|exact E2]].
  Qed.

  Lemma k_update_next_event_date j : spec (update_next_event_date cf j) (fun _ => True).
  Proof.
    unfold update_next_event_date.
    eapply spec_bind; [apply spec_get_node|intros nd [Hnd Hid]].
    eapply spec_bind; [apply spec_ncfg_of|intros nc Hc]. cbv beta in Hc.
    eapply spec_bind_keeps; [apply spec_gets|intros t].
    eapply spec_bind_keeps; [apply spec_gets|intros il]. cbv zeta.
    set (es := if nc_slotted nc || nd_inf nd then scan_inds t (all_individuals nd) il None [] else scan_servers (n_servers nd) None []).
    assert (HK : In j K -> nd_inf nd = false /\ nc_slotted nc = false /\ nc_reneging nc = false /\ nc_srv nc = SFixed /\ es = (None, [])).
    { intros HjK. destruct (K_cfg j nc HjK Hc) as (Hs & _ & Hr). rewrite <- Hid in HjK. pose proof (K_fin nd Hnd HjK) as Hf.
      assert (Hsl : nc_slotted nc = false) by (unfold nc_slotted; rewrite Hs; reflexivity).
      repeat (split; [assumption|]). unfold es. rewrite Hsl, Hf. cbn. apply scan_servers_none. intros sv Hsv. apply (K_servers nd Hnd HjK sv Hsv). }
    assert (Hes : forall i, In i (snd es) -> ~ In i C).
    { intros i Hi. destruct (in_dec Z.eq_dec j K) as [HjK|HjK]; [destruct (HK HjK) as (_ & _ & _ & _ & E); rewrite E in Hi; destruct Hi|].
      destruct Hnd as (_ & B & _). rewrite <- Hid in HjK. destruct (B HjK) as (B1 & B2 & _). unfold es in Hi.
      destruct (nc_slotted nc || nd_inf nd).
      - apply scan_inds_In in Hi as [[]|Hi]. apply B1. exact Hi.
      - apply scan_servers_In in Hi as [[]|(sv & Hsv & Hcu)]. apply (B2 sv i Hsv Hcu). }
    eapply (spec_bind _ _ (fun rn => (forall i, In i (snd rn) -> ~ In i C) /\ (In j K -> rn = (None, [])))).
    { destruct (negb (nd_inf nd) && nc_reneging nc) eqn:Eb.
      - assert (HjK : ~ In j K). { intros HjK. destruct (HK HjK) as (_ & _ & Hr & _). rewrite Hr, andb_false_r in Eb. discriminate. }
        eapply spec_conseq; [apply spec_lift|]. intros rn Hrn. cbv beta in Hrn. split; [|intros HjK'; contradiction].
        intros i Hi. destruct rn as [d l]. destruct (scan_ren_spec _ _ _ _ _ _ Hrn) as (_ & _ & _ & G4 & _). destruct (G4 i Hi) as [[[] _]|[Hq _]].
        destruct Hnd as (_ & B & _). rewrite <- Hid in HjK. apply (proj1 (B HjK)). exact Hq.
      - eapply spec_conseq; [apply spec_ret|]. intros rn ->. split; [intros i []|reflexivity]. }
    intros rn [Hrn1 Hrn2].
    set (cc := if cf_dyn cf && negb (nd_inf nd) then (n_nccd nd, match n_ncci nd with Some i => [i] | None => [] end) else (None, [])).
    assert (Hcc : forall i, In i (snd cc) -> ~ In i C).
    { intros i Hi. unfold cc in Hi. destruct (cf_dyn cf && negb (nd_inf nd)); [|destruct Hi]. cbn in Hi. destruct (n_ncci nd) as [i0|] eqn:En; [|destruct Hi].
      destruct Hi as [<-|[]]. destruct Hnd as (_ & _ & _ & _ & F). apply F. exact En. }
    match goal with |- context [decide_next_event (?shx ++ _) _] => set (sh := shx) end.
    assert (Hsh : forall c, In c sh -> snd (snd c) = []).
    { unfold sh. destruct (nc_srv nc); [intros c []|intros c [<-|[]]; reflexivity|intros c [<-|[]]; reflexivity]. }
    assert (HshK : In j K -> sh = []).
    { intros HjK. destruct (HK HjK) as (_ & _ & _ & Hs & _). unfold sh. rewrite Hs. reflexivity. }
    destruct (nc_reneging nc || cf_dyn cf || nc_sched nc).
    - pose proof (dne_spec (sh ++ [(0, es); (3, cc); (2, rn)]) (5, (None, []))) as Hd.
      destruct (decide_next_event (sh ++ [(0, es); (3, cc); (2, rn)]) (5, (None, []))) as [ty [d l]] eqn:Ed. cbv beta iota.
      apply spec_put_node. apply NOK_next; [exact Hnd| |].
      + destruct Hd as [E|[E1 _]]; [injection E as _ _ ->; intros i []|].
        apply in_app_or in E1 as [E1|[E1|[E1|[E1|[]]]]].
        * pose proof (Hsh _ E1) as E. cbn in E. rewrite E. intros i [].
        * injection E1 as _ E1. rewrite E1 in Hes. exact Hes.
        * injection E1 as _ E1. rewrite E1 in Hcc. exact Hcc.
        * injection E1 as _ E1. rewrite E1 in Hrn1. exact Hrn1.
      + intros HjK. rewrite Hid in HjK. destruct (HK HjK) as (_ & _ & _ & _ & Ees). rewrite (HshK HjK), Ees, (Hrn2 HjK) in Hd. cbn [app] in Hd.
        destruct Hd as [E|[E1 E2]]; [injection E as -> _ _; split; [discriminate|intros; discriminate]|].
        destruct E1 as [E1|[E1|[E1|[]]]]; [injection E1 as _ <- _; cbn in E2; congruence|injection E1 as <- _; split; [discriminate|intros; discriminate]|injection E1 as _ <- _; cbn in E2; congruence].
    - apply spec_put_node. apply NOK_next; [exact Hnd|exact Hes|]. intros HjK. split; [discriminate|]. intros _. rewrite Hid in HjK.
      destruct (HK HjK) as (_ & _ & _ & _ & E). rewrite E. reflexivity.
  Qed.
  Lemma k_update_all js : spec (update_all cf js) (fun _ => True).
  Proof.
    induction js as [|j r IH]; cbn [update_all]; [apply spec_retI|].
    eapply spec_bind_keeps; [apply k_update_next_event_date|intros _; exact IH].
  Qed.
  Lemma k_find_next_active_node : spec find_next_active_node (fun _ => True).
  Proof.
    unfold find_next_active_node. eapply spec_bind_keeps; [apply spec_gets|intros s]. cbv zeta.
    destruct (scan_active 0 (a_next_date (arr s) :: map n_next_date (nodes s)) None []) as [d cands]. repeat sp1.
  Qed.

  (* ---------- the arrival node ---------- *)
  Lemma k_find_next_event_date : spec find_next_event_date (fun _ => True).
  Proof. unfold find_next_event_date. apply spec_modify_same. intros s. destruct (find_min_dates 1 (a_dates (arr s)) (None, 0, 0)) as [[d j] c]. auto. Qed.
  Lemma k_sys_population : spec sys_population (fun _ => True).
  Proof. unfold sys_population. repeat sp1. Qed.
  Lemma k_route_of i c : spec (route_of cf i c) (fun _ => True).
  Proof. unfold route_of. repeat sp1. Qed.
  #[local] Hint Resolve k_find_next_event_date k_sys_population k_route_of : kdb.
  Lemma k_send_individual j i : ~ In i C -> spec (send_individual cf j i) (fun _ => True).
  Proof. intros Hi. unfold send_individual. repeat sp1. Qed.
  #[local] Hint Resolve k_send_individual : kdb.
  Lemma k_release_individual j i : ~ In i C -> spec (release_individual cf j i) (fun _ => True).
  Proof. intros Hi. unfold release_individual. repeat sp2. Qed.
  #[local] Hint Resolve k_release_individual : kdb.
  Lemma k_batch_loop : forall n j c p, spec (batch_loop cf n j c p) (fun _ => True).
  Proof.
    induction n as [|n IH]; intros j c p; cbn [batch_loop]; [apply spec_retI|].
    intros s a s' HG H.
    unfold bind at 1 in H. unfold modify at 1 in H. unfold bind at 1 in H. unfold gets at 1 in H.
    set (s1 := s <| arr := arr s <| a_created := a_created (arr s) + 1 |> |>) in H.
    assert (G1 : G s1).
    { destruct HG as (A & B & D & E & F). unfold G, Idx. cbn. split; [exact A|]. split; [exact B|]. split; [exact D|]. split; [exact E|].
      intros i Hi. specialize (F i Hi). lia. }
    assert (Hnew : ~ In (a_created (arr s1)) C).
    { cbn. intros Hin. destruct HG as (_ & _ & _ & _ & F). specialize (F _ Hin). lia. }
    revert H. generalize (a_created (arr s1)) Hnew. intros i Hi H.
    refine (_ (spec_bind_keeps _ _ (fun _ => True) _ _ _ _ _ G1 H)); [intros X; exact X| |intros _].
    - repeat sp1.
    - repeat sp1; apply IH.
  Qed.
  #[local] Hint Resolve k_batch_loop : kdb.
  Lemma k_arrival_have_event : spec (arrival_have_event cf) (fun _ => True).
  Proof. unfold arrival_have_event. repeat sp2. Qed.

  (* ---------- one event ---------- *)
  (* the active node: at a node of K an end of service raises (nobody is listed to finish) and a renege is never scheduled *)
  Lemma k_node_have_event j : spec (node_have_event cf j) (fun _ => True).
  Proof.
    intros s a s' HG H. unfold node_have_event in H.
    minv H nd s1 En. apply get_node_inv in En as (-> & Hj1 & Hn). cbv zeta in H.
    assert (Hnd : NOK nd) by (apply HG; eapply nthZ_In; eauto).
    assert (Hid : n_id nd = j) by (eapply Idx_get; [apply HG|exact Hj1|exact Hn]).
    destruct (n_next_type nd =? 0) eqn:E0.
    - apply Z.eqb_eq in E0. destruct (in_dec Z.eq_dec j K) as [HK|HK]; [|exact (k_finish_service j HK _ _ _ HG H)].
      exfalso. rewrite <- Hid in HK. destruct Hnd as (A & _). destruct (A HK) as (_ & _ & _ & A4). specialize (A4 E0).
      unfold finish_service in H. minv H nd' s2 En'. apply get_node_inv in En' as (-> & _ & Hn'). rewrite Hn in Hn'. injection Hn' as <-.
      rewrite A4 in H. minv H i s3 Ei. cbn in Ei. discriminate Ei.
    - destruct (n_next_type nd =? 1); [exact (k_change_shift j _ _ _ HG H)|].
      destruct (n_next_type nd =? 2) eqn:E2.
      + apply Z.eqb_eq in E2. destruct (in_dec Z.eq_dec j K) as [HK|HK]; [|exact (k_renege j HK _ _ _ HG H)].
        exfalso. rewrite <- Hid in HK. destruct Hnd as (A & _). destruct (A HK) as (_ & _ & A3 & _). contradiction.
      + destruct (n_next_type nd =? 3); [exact (k_ccww j _ _ _ HG H)|].
        destruct (n_next_type nd =? 4); [exact (k_slotted_service j _ _ _ HG H)|]. apply ret_inv in H as [_ ->]. auto.
  Qed.
  #[local] Hint Resolve k_arrival_have_event k_node_have_event k_update_all k_find_next_active_node : kdb.
  Lemma k_event_step : spec (event_step cf) (fun _ => True).
  Proof. unfold event_step. repeat sp1. Qed.
  Lemma event_step_G s s' : G s -> event_step cf s = Ok (tt, s') -> G s'.
  Proof. intros HG H. exact (proj1 (k_event_step _ _ _ HG H)). Qed.
End Frozen.

(* ====================================================================================================================
   The invariant, one event, any number of events
   ==================================================================================================================== *)
Lemma nthZ_length {A} (l l' : list A) k x : length l' = length l -> nthZ l k = Some x -> exists x', nthZ l' k = Some x'.
Proof.
  unfold nthZ. destruct (k <? 0); [discriminate|]. intros HL H.
  assert (Hlt : (Z.to_nat k < length l)%nat) by (apply nth_error_Some; congruence).
  destruct (nth_error l' (Z.to_nat k)) as [x'|] eqn:E; [eauto|]. apply nth_error_None in E. lia.
Qed.
Lemma Idx_nodeZ s nd : Idx s -> In nd (nodes s) -> nodeZ s (n_id nd) = Some nd.
Proof.
  intros HI Hin. apply In_nth_error in Hin as [k Hk]. rewrite (HI k nd Hk). unfold nodeZ.
  destruct (Z.of_nat k + 1 <? 1) eqn:E; [apply Z.ltb_lt in E; lia|]. replace (Z.of_nat k + 1 - 1) with (Z.of_nat k) by lia. rewrite nthZ_of_nat. exact Hk.
Qed.

(* G relative to s0 says that the nodes of K and their customers are as in s0 *)
Lemma G_Same K s0 s' : G K s0 s' -> Same K s0 s'.
Proof.
  intros (HI & HL & HN & HF & _) j nd Hj Hn. unfold nodeZ in *. destruct (j <? 1) eqn:Ej; [discriminate|].
  destruct (nthZ_length (nodes s0) (nodes s') (j - 1) nd HL Hn) as [nd' Hn'].
  exists nd'. split; [exact Hn'|].
  assert (Hid : n_id nd' = j) by (eapply Idx_get; [exact HI|apply Z.ltb_ge in Ej; exact Ej|exact Hn']).
  destruct (HN nd' (nthZ_In _ _ _ Hn')) as (A & _). rewrite Hid in A. destruct (A Hj) as (A1 & _).
  rewrite Hid in A1. unfold nodeZ in A1. rewrite Ej, Hn in A1. cbn in A1. injection A1 as A1. split; [symmetry; exact A1|].
  intros i Hi. apply HF. apply knot_custs_In. exists j, nd. unfold nodeZ. rewrite Ej. auto.
Qed.
(* ... and the invariant can be re-based on the new state *)
Lemma G_rebase K s0 s' : G K s0 s' -> knot_custs s' K = knot_custs s0 K -> G K s' s'.
Proof.
  intros (HI & HL & HN & HF & HC) E. unfold G. split; [exact HI|]. split; [reflexivity|]. split; [|split; [reflexivity|rewrite E; exact HC]].
  intros nd Hin. destruct (HN nd Hin) as (A & B & D & E1 & F). unfold NOK, KN, ON. rewrite E. split; [|auto].
  intros HK. destruct (A HK) as (_ & A2 & A3 & A4). rewrite (Idx_nodeZ s' nd HI Hin). cbn. auto.
Qed.

Lemma Knot2_Same cf K s s' : Knot2 cf s K -> Same K s s' -> (forall j nd', In j K -> nodeZ s' j = Some nd' -> n_c nd' <> None) -> Knot2 cf s' K.
Proof.
  intros [Hne H] HS Hc. split; [exact Hne|]. intros j Hj. destruct (H j Hj) as (nd & nc & c & Hn & Hcf & Hcc & Hsv).
  destruct (HS j nd Hj Hn) as (nd' & Hn' & Hs' & Hf). destruct (n_c nd') as [c'|] eqn:Ec'; [|exfalso; exact (Hc j nd' Hj Hn' Ec')].
  exists nd', nc, c'. split; [exact Hn'|]. split; [exact Hcf|]. split; [exact Ec'|].
  intros sv Hin. rewrite Hs' in Hin. destruct (Hsv sv Hin) as (Hb & i & x & d & A & B & D). split; [exact Hb|].
  exists i, x, d. split; [exact A|]. split; [|exact D]. rewrite Hf; [exact B|]. apply custs_of_In. eauto.
Qed.

(* the invariant: K is a knot, in the scope, with the bookkeeping facts about the rest of the state (KAux, spelt out in KAux_means) *)
Definition KAux (cf : config) (K : list Z) (s : sim) : Prop := Base cf K s /\ G K s s.
Definition KnotInv2 (cf : config) (K : list Z) (s : sim) : Prop := Knot2 cf s K /\ KAux cf K s.

Lemma Base_Same cf K s s' : Base cf K s -> Same K s s' -> knot_custs s' K = knot_custs s K -> Base cf K s'.
Proof.
  intros [B1 B2] HS E. split.
  - intros j Hj. destruct (B1 j Hj) as (nd0 & nc & Hn & Hc & Hok & Hsv). destruct (HS j nd0 Hj Hn) as (nd' & Hn' & Hs' & _).
    exists nd', nc. rewrite Hs'. auto.
  - rewrite E. intros i Hi. destruct (B2 i Hi) as (x & Hx & Hs). exists x. split; [|exact Hs].
    apply knot_custs_In in Hi as (j & nd & Hj & Hn & Hic). destruct (HS j nd Hj Hn) as (_ & _ & _ & Hf). rewrite (Hf i Hic). exact Hx.
Qed.

Theorem event_step_knot2 cf K s s' : KnotInv2 cf K s -> event_step cf s = Ok (tt, s') -> KnotInv2 cf K s' /\ Same K s s'.
Proof.
  intros (HK & HB & HG) H. pose proof (event_step_G cf K s HB s s' HG H) as HG'. pose proof (G_Same K s s' HG') as HS.
  assert (HE : knot_custs s' K = knot_custs s K).
  { apply Same_custs; [exact HS|]. intros j Hj. destruct (proj1 HB j Hj) as (nd0 & _ & Hn & _). congruence. }
  split; [|exact HS]. split; [|split; [eapply Base_Same; eauto|apply (G_rebase K s s'); assumption]].
  eapply Knot2_Same; [exact HK|exact HS|]. intros j nd' Hj Hn'. destruct HG' as (HI & _ & HN & _).
  unfold nodeZ in Hn'. destruct (j <? 1) eqn:Ej; [discriminate|]. apply Z.ltb_ge in Ej.
  destruct (HN nd' (nthZ_In _ _ _ Hn')) as (A & _). rewrite (Idx_get _ _ _ HI Ej Hn') in A. apply (A Hj).
Qed.

Lemma KnotInv2_dr cf K s d : KnotInv2 cf K s -> KnotInv2 cf K (s <| dr := d |>).
Proof. intros H. exact H. Qed.

(* any number of events, each with its own draws; no hypothesis on the draws is needed *)
Theorem run_many_knot2 cf K : forall ds s s', KnotInv2 cf K s -> run_many cf s ds = Ok s' -> KnotInv2 cf K s' /\ Same K s s'.
Proof.
  induction ds as [|d r IH]; intros s s' HI H; cbn [run_many] in H; [injection H as <-; split; [exact HI|apply Same_refl]|].
  destruct (event_step cf (s <| dr := d |>)) as [[u s1]| |] eqn:E; try discriminate. destruct u.
  destruct (event_step_knot2 cf K _ _ (KnotInv2_dr cf K s d HI) E) as [HI1 HS1].
  destruct (IH _ _ HI1 H) as [HI2 HS2]. split; [exact HI2|]. eapply Same_trans; [|exact HS2]. exact HS1.
Qed.

(* C18 on the stage-2 model, in the words of the property: inside the scope, a knot is there for ever, with the SAME customers on
   the same server objects; these customers are still customers of those nodes and their records are untouched (still blocked, same
   destination, same server, same dates) -- nobody of the knot has moved, finished service, been pre-empted or been unblocked *)
Theorem knot2_is_permanent cf K ds s s' : Knot2 cf s K -> KAux cf K s -> run_many cf s ds = Ok s' ->
  Knot2 cf s' K /\ KAux cf K s' /\
  forall j nd, In j K -> nodeZ s j = Some nd ->
    exists nd', nodeZ s' j = Some nd' /\ n_servers nd' = n_servers nd /\
      forall sv i, In sv (n_servers nd) -> sv_cust sv = Some i -> find_ind i (inds s') = find_ind i (inds s).
Proof.
  intros HK HA H. destruct (run_many_knot2 cf K ds s s' (conj HK HA) H) as [[HK' HA'] HS]. split; [exact HK'|]. split; [exact HA'|].
  intros j nd Hj Hn. destruct (HS j nd Hj Hn) as (nd' & Hn' & Hs' & Hf). exists nd'. split; [exact Hn'|]. split; [exact Hs'|].
  intros sv i Hsv Hcu. apply Hf. apply custs_of_In. eauto.
Qed.

(* what KAux says (C = the customers on the servers of K) *)
Theorem KAux_means cf K s : KAux cf K s ->
  knot_scope cf K = true /\ Idx s /\
  (forall j nd, In j K -> nodeZ s j = Some nd ->
     (forall sv, In sv (n_servers nd) -> sv_busy sv = true /\ sv_next_end sv = None) /\
     n_next_type nd <> 2 /\ (n_next_type nd = 0 -> n_next_inds nd = [])) /\
  (forall i, In i (knot_custs s K) -> i <= a_created (arr s) /\ exists x, find_ind i (inds s) = Some x /\ i_server x <> None) /\
  (forall nd, In nd (nodes s) -> ~ In (n_id nd) K ->
     (forall i, In i (all_individuals nd) -> ~ In i (knot_custs s K)) /\
     (forall sv c, In sv (n_servers nd) -> sv_cust sv = Some c -> ~ In c (knot_custs s K)) /\
     (forall i, In i (n_interrupted nd) -> ~ In i (knot_custs s K))) /\
  (forall nd from y, In nd (nodes s) -> In (from, y) (n_bq nd) -> In from K -> In (n_id nd) K) /\
  (forall nd i, In nd (nodes s) -> In i (n_next_inds nd) \/ n_ncci nd = Some i -> ~ In i (knot_custs s K)).
Proof.
  intros [[B1 B2] (HI & _ & HN & _ & HC)]. split; [|split; [exact HI|split; [|split; [|split; [|split]]]]].
  - unfold knot_scope. apply forallb_forall. intros j Hj. destruct (B1 j Hj) as (nd0 & nc & _ & Hc & Hok & _). rewrite Hc. exact Hok.
  - intros j nd Hj Hn. destruct (B1 j Hj) as (nd0 & nc & Hn0 & _ & _ & Hsv). rewrite Hn in Hn0. injection Hn0 as <-. split; [exact Hsv|].
    assert (Hin : In nd (nodes s)) by (unfold nodeZ in Hn; destruct (j <? 1); [discriminate|eapply nthZ_In; eauto]).
    assert (Hid : n_id nd = j).
    { unfold nodeZ in Hn. destruct (j <? 1) eqn:Ej; [discriminate|]. apply Z.ltb_ge in Ej. eapply Idx_get; eauto. }
    destruct (HN nd Hin) as (A & _). rewrite Hid in A. destruct (A Hj) as (_ & _ & A3 & A4). auto.
  - intros i Hi. split; [apply HC; exact Hi|apply B2; exact Hi].
  - intros nd Hin HK. destruct (HN nd Hin) as (_ & B & _). exact (B HK).
  - intros nd from y Hin Hb Hf. destruct (HN nd Hin) as (_ & _ & D & _). exact (D from y Hb Hf).
  - intros nd i Hin [Hi|Hi]; destruct (HN nd Hin) as (_ & _ & _ & E & F); auto.
Qed.

(* ====================================================================================================================
   Executable tests
   ==================================================================================================================== *)
Definition knot_sv_b (s : sim) (K : list Z) (sv : server) : bool :=
  sv_busy sv &&
  match sv_cust sv with
  | Some i => match find_ind i (inds s) with
              | Some x => i_blocked x && match i_dest x with Some d => memZ d K | None => false end
              | None => false
              end
  | None => false
  end.
Definition knot_node_b (cf : config) (s : sim) (K : list Z) (j : Z) : bool :=
  match nodeZ s j, nthZ (cf_nodes cf) (j - 1) with
  | Some nd, Some nc => match n_c nd with Some _ => forallb (knot_sv_b s K) (n_servers nd) | None => false end
  | _, _ => false
  end.
Definition knot2_b (cf : config) (s : sim) (K : list Z) : bool :=
  negb (match K with [] => true | _ => false end) && forallb (knot_node_b cf s K) K.

Definition base_gen_b (ok : ncfg -> bool) (cf : config) (K : list Z) (s : sim) : bool :=
  forallb (fun j => match nodeZ s j, nthZ (cf_nodes cf) (j - 1) with
                    | Some nd, Some nc => ok nc && forallb (fun sv => sv_busy sv && match sv_next_end sv with None => true | Some _ => false end) (n_servers nd)
                    | _, _ => false end) K
  && forallb (fun i => match find_ind i (inds s) with Some x => match i_server x with Some _ => true | None => false end | None => false end) (knot_custs s K).
Definition base_b : config -> list Z -> sim -> bool := base_gen_b knode_ok.
Fixpoint idx_from (k : Z) (l : list node) : bool :=
  match l with [] => true | nd :: r => (n_id nd =? k) && idx_from (k + 1) r end.
Definition notin (C : list Z) (i : Z) : bool := negb (memZ i C).
Definition nok_b (C K : list Z) (nd : node) : bool :=
  (if memZ (n_id nd) K
   then (match n_c nd with Some _ => true | None => false end) && negb (n_next_type nd =? 2)
        && (negb (n_next_type nd =? 0) || match n_next_inds nd with [] => true | _ => false end)
   else forallb (notin C) (all_individuals nd)
        && forallb (fun sv => match sv_cust sv with Some c => notin C c | None => true end) (n_servers nd)
        && forallb (notin C) (n_interrupted nd))
  && forallb (fun p => negb (memZ (fst p) K) || memZ (n_id nd) K) (n_bq nd)
  && forallb (notin C) (n_next_inds nd)
  && match n_ncci nd with Some i => notin C i | None => true end.
Definition g_b (K : list Z) (s : sim) : bool :=
  idx_from 1 (nodes s) && forallb (nok_b (knot_custs s K) K) (nodes s) && forallb (fun i => i <=? a_created (arr s)) (knot_custs s K).
Definition kaux_b (cf : config) (K : list Z) (s : sim) : bool := base_b cf K s && g_b K s.
Definition knotinv2_b (cf : config) (K : list Z) (s : sim) : bool := knot2_b cf s K && kaux_b cf K s.

Theorem knot2_b_sound cf s K : knot2_b cf s K = true -> Knot2 cf s K.
Proof.
  unfold knot2_b. intros H. apply andb_true_iff in H as [H1 H2]. split; [intros ->; discriminate|].
  rewrite forallb_forall in H2. intros j Hj. specialize (H2 j Hj). unfold knot_node_b in H2.
  destruct (nodeZ s j) as [nd|] eqn:En; [|discriminate]. destruct (nthZ (cf_nodes cf) (j - 1)) as [nc|] eqn:Ec; [|discriminate].
  destruct (n_c nd) as [c|] eqn:Ecc; [|discriminate]. exists nd, nc, c. split; [first [exact En|reflexivity]|]. split; [first [exact Ec|reflexivity]|]. split; [exact Ecc|].
  rewrite forallb_forall in H2. intros sv Hsv. specialize (H2 sv Hsv). unfold knot_sv_b in H2.
  apply andb_true_iff in H2 as [Hb H2]. split; [exact Hb|].
  destruct (sv_cust sv) as [i|] eqn:Ecu; [|discriminate]. destruct (find_ind i (inds s)) as [x|] eqn:Ex; [|discriminate].
  apply andb_true_iff in H2 as [Hbl H2]. destruct (i_dest x) as [d|] eqn:Ed; [|discriminate].
  exists i, x, d. split; [first [exact Ecu|reflexivity]|]. split; [first [exact Ex|reflexivity]|]. split; [exact Hbl|]. split; [first [exact Ed|reflexivity]|apply memZ_In; exact H2].
Qed.
Lemma notin_sound C i : notin C i = true -> ~ In i C.
Proof. unfold notin. intros H Hin. apply memZ_In in Hin. rewrite Hin in H. discriminate. Qed.
Lemma idx_from_sound : forall l k, idx_from k l = true -> forall n nd, nth_error l n = Some nd -> n_id nd = k + Z.of_nat n.
Proof.
  induction l as [|x r IH]; intros k H n nd Hn; [destruct n; discriminate|]. cbn in H. apply andb_true_iff in H as [H1 H2].
  destruct n as [|n]; [injection Hn as <-; apply Z.eqb_eq in H1; lia|]. change (nth_error (x :: r) (S n)) with (nth_error r n) in Hn.
  rewrite (IH _ H2 n nd Hn). lia.
Qed.
Lemma base_b_sound cf K s : base_b cf K s = true -> Base cf K s.
Proof.
  unfold base_b, base_gen_b. intros H. apply andb_true_iff in H as [H1 H2]. rewrite forallb_forall in H1, H2. split.
  - intros j Hj. specialize (H1 j Hj). destruct (nodeZ s j) as [nd|] eqn:En; [|discriminate]. destruct (nthZ (cf_nodes cf) (j - 1)) as [nc|] eqn:Ec; [|discriminate].
    apply andb_true_iff in H1 as [Hok Hsv]. exists nd, nc. split; [first [exact En|reflexivity]|]. split; [first [exact Ec|reflexivity]|]. split; [exact Hok|].
    rewrite forallb_forall in Hsv. intros sv Hin. specialize (Hsv sv Hin). apply andb_true_iff in Hsv as [Hb He]. split; [exact Hb|].
    destruct (sv_next_end sv); [discriminate|reflexivity].
  - intros i Hi. specialize (H2 i Hi). destruct (find_ind i (inds s)) as [x|] eqn:Ex; [|discriminate]. exists x. split; [first [exact Ex|reflexivity]|].
    destruct (i_server x); [discriminate|discriminate].
Qed.
Lemma nok_b_sound K s nd : Idx s -> In nd (nodes s) -> nok_b (knot_custs s K) K nd = true -> NOK K s nd.
Proof.
  intros HI Hin H. unfold nok_b in H. apply andb_true_iff in H as [H H4]. apply andb_true_iff in H as [H H3]. apply andb_true_iff in H as [H1 H2].
  rewrite forallb_forall in H2, H3. unfold NOK. split; [|split; [|split; [|split]]].
  - intros HK. apply memZ_In in HK. rewrite HK in H1. apply andb_true_iff in H1 as [H1 Hc]. apply andb_true_iff in H1 as [Ha Hb].
    unfold KN. rewrite (Idx_nodeZ s nd HI Hin). split; [reflexivity|]. split; [destruct (n_c nd); [discriminate|discriminate]|].
    split; [intros E; rewrite E in Hb; discriminate|]. intros E. rewrite E in Hc. cbn in Hc. destruct (n_next_inds nd); [reflexivity|discriminate].
  - intros HK. destruct (memZ (n_id nd) K) eqn:E; [apply memZ_In in E; contradiction|].
    apply andb_true_iff in H1 as [H1 Hc]. apply andb_true_iff in H1 as [Ha Hb]. rewrite forallb_forall in Ha, Hb, Hc. unfold ON. split; [|split].
    + intros i Hi. apply notin_sound. apply Ha. exact Hi.
    + intros sv c Hsv Hcu. specialize (Hb sv Hsv). rewrite Hcu in Hb. apply notin_sound. exact Hb.
    + intros i Hi. apply notin_sound. apply Hc. exact Hi.
  - intros from y Hb Hf. specialize (H2 (from, y) Hb). cbn in H2. apply memZ_In in Hf. rewrite Hf in H2. cbn in H2. apply memZ_In. exact H2.
  - intros i Hi. apply notin_sound. apply H3. exact Hi.
  - intros i Hi. rewrite Hi in H4. apply notin_sound. exact H4.
Qed.
Lemma g_b_sound K s : g_b K s = true -> G K s s.
Proof.
  unfold g_b. intros H. apply andb_true_iff in H as [H H3]. apply andb_true_iff in H as [H1 H2]. rewrite forallb_forall in H2, H3.
  assert (HI : Idx s) by (intros k nd Hk; rewrite (idx_from_sound _ _ H1 k nd Hk); lia).
  split; [exact HI|]. split; [reflexivity|]. split; [|split; [reflexivity|]].
  - intros nd Hin. apply nok_b_sound; [exact HI|exact Hin|apply H2; exact Hin].
  - intros i Hi. apply Z.leb_le. apply H3. exact Hi.
Qed.
Theorem kaux_b_sound cf K s : kaux_b cf K s = true -> KAux cf K s.
Proof. unfold kaux_b. intros H. apply andb_true_iff in H as [H1 H2]. split; [apply base_b_sound; exact H1|apply g_b_sound; exact H2]. Qed.
Theorem knotinv2_b_sound cf K s : knotinv2_b cf K s = true -> KnotInv2 cf K s.
Proof. unfold knotinv2_b. intros H. apply andb_true_iff in H as [H1 H2]. split; [apply knot2_b_sound; exact H1|apply kaux_b_sound; exact H2]. Qed.

Theorem knot2_b_complete cf s K : Knot2 cf s K -> knot2_b cf s K = true.
Proof.
  intros [Hne H]. unfold knot2_b. apply andb_true_iff. split; [destruct K; [congruence|reflexivity]|].
  apply forallb_forall. intros j Hj. destruct (H j Hj) as (nd & nc & c & Hn & Hc & Hcc & Hsv). unfold knot_node_b. rewrite Hn, Hc, Hcc.
  apply forallb_forall. intros sv Hin. destruct (Hsv sv Hin) as (Hb & i & x & d & A & B & D & E & F). unfold knot_sv_b. rewrite Hb, A, B, D, E. cbn.
  apply memZ_In. exact F.
Qed.

(* closed computations: b holds of the state reached after the events ds *)
Definition after (cf : config) (s : sim) (ds : list draws) (b : sim -> bool) : bool :=
  match run_many cf s ds with Ok s' => b s' | _ => false end.
Lemma after_sound cf s ds b : after cf s ds b = true -> exists s', run_many cf s ds = Ok s' /\ b s' = true.
Proof. unfold after. destruct (run_many cf s ds) as [s'| |]; [eauto|discriminate|discriminate]. Qed.
(* customer i is at node j, not blocked, and holds a server there *)
Definition serving_at (s : sim) (i j : Z) : bool :=
  match find_ind i (inds s) with
  | Some x => negb (i_blocked x) && match i_node x with Some n => n =? j | None => false end && match i_server x with Some _ => true | None => false end
  | None => false
  end.

(* ====================================================================================================================
   Non-vacuity: two single-server nodes without waiting room that feed each other through Direct routers, both customers
   blocked; a third node outside K with reneging whose reneging customers JOCKEY INTO node 1 of K (ignoring its capacity)
   ==================================================================================================================== *)
From CiwV.Inv Require Conserve2 Servers2 Blocking2 Sched2.
(* the state also satisfies the stage-2 invariants proved elsewhere (C01, C04, C07/C06) *)
Definition sane_b (cf : config) (s : sim) : bool :=
  Conserve2.wfx2_b s && Servers2.srvinv2_b cf s && Blocking2.len2_b s && Blocking2.blk2_b cf s && Blocking2.cap2_b cf s.

Definition kx_sv (c : Z) : server := mkServer 1 (Some c) true None 0 None 0 false 0 None.
Definition kx_cf : config :=
  mkCfg 1 [mkNcfg (Some 1) None 0 SFixed 0 false [false] 0; mkNcfg (Some 1) None 0 SFixed 0 false [false] 0; mkNcfg None None 0 SFixed 0 true [true] 0]
        [0] 1 None [RtNR [RDirect 2; RDirect 1; RJockey (-1) 1]] [[None; None; None]] false [[false]].
(* customer 1 finished at node 1 at time 3 and wants node 2; customer 2 finished at node 2 at time 5 and wants node 1 *)
Definition kx_i1 : ind := mkInd 1 0 0 0 0 0 (Some 1) (Some 0) (Some 0) (Some 3) (Some 3) None true (Some 1) (Some 2) (Some 0) None 0 0 false XU XU None None None None None.
Definition kx_i2 : ind := mkInd 2 0 0 0 0 0 (Some 2) (Some 1) (Some 1) (Some 4) (Some 5) None true (Some 1) (Some 1) (Some 0) None 0 0 false XU XU None None None None None.
Definition kx_n1 : node := mkNode 1 1 1 [[1]] [kx_sv 1] [(2, 2)] 1 None [] (Some 1) 1 [] 0 [] [] [] 0 None 0 None None.
Definition kx_n2 : node := mkNode 2 1 1 [[2]] [kx_sv 2] [(1, 1)] 1 None [] (Some 1) 1 [] 0 [] [] [] 0 None 0 None None.
Definition kx_n3 : node := mkNode 3 0 0 [[]] [mkServer 1 None false None 0 None 0 false 0 None] [] 0 None [] (Some 1) 1 [] 0 [] [] [] 5 None 0 None None.
Definition kx_s : sim :=
  mkSim 7 0 (mkArr 2 2 [[None]; [None]; [Some 7]] 3 0 (Some 7)) [kx_n1; kx_n2; kx_n3] [] 0 0 [kx_i1; kx_i2] (mkDraws [] [] [] [] [] []) [] [[0; 0; 0]].
(* draws offered to every event: next inter-arrival 3, batch 1, service time 10, patience 2 *)
Definition kx_d : draws := mkDraws [3] [1] [10] [] [2] [].

Example kx_hyps : knot_scope kx_cf [1; 2] = true /\ knot2_b kx_cf kx_s [1; 2] = true /\ kaux_b kx_cf [1; 2] kx_s = true /\ sane_b kx_cf kx_s = true.
Proof. vm_compute. auto. Qed.
Example kx_KnotInv2 : KnotInv2 kx_cf [1; 2] kx_s.
Proof. apply knotinv2_b_sound. vm_compute. reflexivity. Qed.
(* five events: customer 3 arrives at node 3 and is served; customers 4 and 5 arrive, wait, renege (t = 12, 15) and jockey into node 1, which
   then holds 3 customers for a capacity of 1; the two servers of the knot and the two blocked customers are as they were *)
Example kx_run : after kx_cf kx_s [kx_d; kx_d; kx_d; kx_d; kx_d] (fun s5 =>
  (now s5 =? 16) && (match map all_individuals (nodes s5) with [[1; 4; 5]; [2]; [3]] => true | _ => false end) &&
  (match map n_pop (nodes s5) with [3; 1; 1] => true | _ => false end) && knotinv2_b kx_cf [1; 2] s5) = true.
Proof. vm_compute. reflexivity. Qed.
(* ... and after any number of events, whatever the draws, by the theorem *)
Example kx_forever : forall ds s', run_many kx_cf kx_s ds = Ok s' ->
  Knot2 kx_cf s' [1; 2] /\
  (exists nd1, nodeZ s' 1 = Some nd1 /\ n_servers nd1 = [kx_sv 1]) /\ (exists nd2, nodeZ s' 2 = Some nd2 /\ n_servers nd2 = [kx_sv 2]) /\
  find_ind 1 (inds s') = Some kx_i1 /\ find_ind 2 (inds s') = Some kx_i2.
Proof.
  intros ds s' H. destruct kx_KnotInv2 as (HK & HA).
  destruct (knot2_is_permanent kx_cf [1; 2] ds kx_s s' HK HA H) as (HK' & _ & HP). split; [exact HK'|].
  destruct (HP 1 kx_n1 ltac:(left; reflexivity) eq_refl) as (nd1 & Hn1 & Hs1 & Hf1).
  destruct (HP 2 kx_n2 ltac:(right; left; reflexivity) eq_refl) as (nd2 & Hn2 & Hs2 & Hf2).
  split; [exists nd1; auto|]. split; [exists nd2; auto|].
  split; [exact (Hf1 _ 1 ltac:(left; reflexivity) eq_refl)|exact (Hf2 _ 2 ltac:(left; reflexivity) eq_refl)].
Qed.
Example kx_not_knot : knot2_b kx_cf kx_s [1] = false /\ knot2_b kx_cf kx_s [] = false /\ knot2_b kx_cf kx_s [1; 2; 3] = false.
Proof. vm_compute. auto. Qed.

(* ====================================================================================================================
   Which features dissolve a knot: closed witnesses.  Each is a run FROM AN EMPTY SYSTEM that first reaches a state in which K = [1; 2]
   is a knot -- a state that satisfies the stage-2 invariants proved elsewhere (sane_b) and every clause of KAux that is not about
   the feature in question (noscope_b) -- and then, one or two events later, a state in which the customers of the knot have moved.
   ==================================================================================================================== *)
Lemma dissolved cf s K ds b : after cf s ds (fun s' => negb (knot2_b cf s' K) && b s') = true ->
  exists s', run_many cf s ds = Ok s' /\ ~ Knot2 cf s' K /\ b s' = true.
Proof.
  intros H. apply after_sound in H as (s' & Hr & Hb). apply andb_true_iff in Hb as [H1 H2]. exists s'. split; [exact Hr|]. split; [|exact H2].
  intros HK. rewrite (knot2_b_complete _ _ _ HK) in H1. discriminate.
Qed.
(* customer i is still flagged blocked but holds no server any more / still holds one *)
Definition stranded (s : sim) (i : Z) : bool :=
  match find_ind i (inds s) with Some x => i_blocked x && match i_server x with None => true | Some _ => false end | None => false end.
Definition blocked_holding (s : sim) (i : Z) : bool :=
  match find_ind i (inds s) with Some x => i_blocked x && match i_server x with None => false | Some _ => true end | None => false end.
Definition noscope_b (cf : config) (K : list Z) (s : sim) : bool := base_gen_b (fun _ => true) cf K s && g_b K s.

Lemma formed cf s K ds b : after cf s ds (fun s' => knot2_b cf s' K && b s') = true ->
  exists s', run_many cf s ds = Ok s' /\ Knot2 cf s' K /\ b s' = true.
Proof.
  intros H. apply after_sound in H as (s' & Hr & Hb). apply andb_true_iff in Hb as [H1 H2]. exists s'. split; [exact Hr|]. split; [|exact H2].
  apply knot2_b_sound. exact H1.
Qed.
(* every witness is a run from an EMPTY system *)
Definition nod : draws := mkDraws [] [] [] [] [] [].
Definition free_sv : server := mkServer 1 None false None 0 None 0 false 0 None.
Definition fixed_node (j : Z) (nq : nat) : node := mkNode j 0 0 (repeat [] nq) [free_sv] [] 0 None [] (Some 1) 1 [] 0 [] [] [] 0 None 0 None None.
Definition sched_node (j : Z) (nq : nat) : node := mkNode j 0 0 (repeat [] nq) [] [] 0 (Some 0) [] (Some 0) 0 [] 0 [] [] [] 1 (Some 0) 0 None None.

(* the dichotomy: the state facts that do not mention the scope (noscope_b) + the scope give the hypotheses of the theorem; the witnesses
   (a) (b) (c) below satisfy noscope_b and violate the scope in exactly one flag *)
Lemma scope_base_b cf K s : knot_scope cf K = true -> base_gen_b (fun _ => true) cf K s = true -> base_b cf K s = true.
Proof.
  unfold base_b, base_gen_b, knot_scope. intros Hs H. apply andb_true_iff in H as [H1 H2]. apply andb_true_iff. split; [|exact H2].
  rewrite forallb_forall in *. intros j Hj. specialize (Hs j Hj). specialize (H1 j Hj).
  destruct (nodeZ s j); [|discriminate]. destruct (nthZ (cf_nodes cf) (j - 1)); [|discriminate]. rewrite Hs. exact H1.
Qed.
Theorem knot2_is_permanent_in_scope cf K ds s s' :
  knot_scope cf K = true -> knot2_b cf s K = true -> noscope_b cf K s = true -> run_many cf s ds = Ok s' ->
  Knot2 cf s' K /\ KAux cf K s' /\ Same K s s'.
Proof.
  intros Hs Hk Hn H. unfold noscope_b in Hn. apply andb_true_iff in Hn as [Hb Hg].
  assert (HA : KAux cf K s) by (split; [apply base_b_sound, scope_base_b; assumption|apply g_b_sound; exact Hg]).
  destruct (run_many_knot2 cf K ds s s' (conj (knot2_b_sound _ _ _ Hk) HA) H) as [[HK' HA'] HS]. auto.
Qed.

(* (a) priority pre-emption ('resume') at node 1 of K (no capacity limit); node 2 (one place) routes to itself.  Customer 1 fills node 2
   (t = 1), customer 2 is served at node 1 and blocked towards node 2 (t = 3), customer 1 is blocked towards its own node (t = 5): a knot.
   At t = 7 a customer of the more important class arrives at node 1 and pre-empts the BLOCKED customer 2 (F-02a): it is served on the
   server of the knot; customer 2 stays flagged blocked, without a server, with a stale entry in the blocked queue of node 2 *)
Definition ka_cf : config :=
  mkCfg 2 [mkNcfg None None 0 SFixed 1 false [false; false] 0; mkNcfg (Some 1) None 0 SFixed 0 false [false; false] 0]
        [0; 1] 2 None [RtNR [RDirect 2; RDirect 2]; RtNR [RDirect 2; RDirect 2]] [[None; None]; [None; None]] false [[false; false]; [false; false]].
Definition ka_0 : sim := mkSim 1 0 (mkArr 0 0 [[Some 7; Some 2]; [None; Some 1]] 2 1 (Some 1)) [fixed_node 1 2; fixed_node 2 2] [] 0 0 [] nod [] [[0; 0]; [0; 0]].
Definition ka_ds : list draws := [mkDraws [99] [1] [4] [] [] []; mkDraws [98] [1] [1] [] [] []; nod; nod].
Definition ka_d : draws := mkDraws [93] [1] [10] [] [] [].
Theorem knot2_refuted_priority_preempt :
  (exists s, run_many ka_cf ka_0 ka_ds = Ok s /\ Knot2 ka_cf s [1; 2] /\ (sane_b ka_cf s && noscope_b ka_cf [1; 2] s) = true) /\
  knot_scope ka_cf [1; 2] = false /\
  (exists s', run_many ka_cf ka_0 (ka_ds ++ [ka_d]) = Ok s' /\ ~ Knot2 ka_cf s' [1; 2] /\ (serving_at s' 3 1 && stranded s' 2) = true).
Proof. split; [apply formed; vm_compute; reflexivity|]. split; [vm_compute; reflexivity|]. apply dissolved. vm_compute. reflexivity. Qed.

(* (b) pre-emptive Schedule ('resume', one server, shifts [10; 20]) at node 1 of K; otherwise as (a).  Knot at t = 5.  At the shift change of
   t = 10 the blocked customer 2 is interrupted and restarted on the new server (F-02b): it is not blocked any more, its service ends at
   t = 3 and the clock goes back *)
Definition kb_cf (pre : Z) : config :=
  mkCfg 1 [mkNcfg None None 0 (SSched (mkSched [10; 20] [1; 1] 0 pre)) 0 false [false] 0; mkNcfg (Some 1) None 0 SFixed 0 false [false] 0]
        [0] 1 None [RtNR [RDirect 2; RDirect 2]] [[None; None]] false [[false]].
Definition kb_0 : sim := mkSim 0 1 (mkArr 0 0 [[Some 2]; [Some 1]] 2 0 (Some 1)) [sched_node 1 1; fixed_node 2 1] [] 0 0 [] nod [] [[0; 0]].
Definition kb_ds : list draws := [nod; mkDraws [99] [1] [4] [] [] []; mkDraws [98] [1] [1] [] [] []; nod; nod].
Theorem knot2_refuted_preemptive_schedule :
  (exists s, run_many (kb_cf 1) kb_0 kb_ds = Ok s /\ Knot2 (kb_cf 1) s [1; 2] /\
             (sane_b (kb_cf 1) s && Sched2.sched_inv_b (kb_cf 1) s && noscope_b (kb_cf 1) [1; 2] s && (now s =? 10)) = true) /\
  knot_scope (kb_cf 1) [1; 2] = false /\
  (exists s', run_many (kb_cf 1) kb_0 (kb_ds ++ [nod]) = Ok s' /\ ~ Knot2 (kb_cf 1) s' [1; 2] /\ (serving_at s' 2 1 && (now s' =? 3)) = true).
Proof. split; [apply formed; vm_compute; reflexivity|]. split; [vm_compute; reflexivity|]. apply dissolved. vm_compute. reflexivity. Qed.

(* (c) NON-pre-emptive Schedule at node 1 of K (one server per shift, room for 2 customers), node 2 has one place.  Customer 1 is served at
   node 1 and blocked towards node 2 (t = 3); customer 3, of a class that leaves after node 1, arrives and waits at node 1 (t = 4); customer 2
   is blocked at node 2 towards node 1, which is full (t = 5): a knot.  Shift change at t = 10: the server with the blocked customer 1 goes
   into overtime and a NEW server comes on duty -- a server object of node 1 that is not blocked, so Knot2 as defined is lost at once,
   although customers 1 and 2 still are blocked on their servers -- and serves customer 3.  When 3 leaves (t = 14) a place is free at
   node 1: customer 2 moves in, its server is free for customer 1: both customers of the knot are in service again.  With Schedules
   "all servers hold blocked customers" is not a genuine deadlock: the next shift brings servers that are not part of it. *)
Definition kc_cf : config :=
  mkCfg 2 [mkNcfg (Some 2) None 0 (SSched (mkSched [10; 20] [1; 1] 0 0)) 0 false [false; false] 0; mkNcfg (Some 1) None 0 SFixed 0 false [false; false] 0]
        [0; 0] 1 None [RtNR [RDirect 2; RDirect 1]; RtNR [RLeave; RDirect 1]] [[None; None]; [None; None]] false [[false; false]; [false; false]].
Definition kc_0 : sim := mkSim 0 1 (mkArr 0 0 [[Some 1; Some 4]; [Some 2; None]] 1 0 (Some 1)) [sched_node 1 1; fixed_node 2 1] [] 0 0 [] nod [] [[0; 0]; [0; 0]].
Definition kc_ds : list draws := [nod; mkDraws [99] [1] [2] [] [] []; mkDraws [98] [1] [3] [] [] []; nod; mkDraws [96] [1] [] [] [] []; nod].
Definition kc_d1 : draws := mkDraws [] [] [4] [] [] [].
Definition kc_d2 : draws := mkDraws [] [] [5; 6] [] [] [].
Theorem knot2_refuted_schedule :
  (exists s, run_many kc_cf kc_0 kc_ds = Ok s /\ Knot2 kc_cf s [1; 2] /\ (sane_b kc_cf s && Sched2.sched_inv_b kc_cf s && noscope_b kc_cf [1; 2] s) = true) /\
  knot_scope kc_cf [1; 2] = false /\
  (exists s1, run_many kc_cf kc_0 (kc_ds ++ [kc_d1]) = Ok s1 /\ ~ Knot2 kc_cf s1 [1; 2] /\
              (blocked_holding s1 1 && blocked_holding s1 2 && serving_at s1 3 1) = true) /\
  (exists s2, run_many kc_cf kc_0 (kc_ds ++ [kc_d1; kc_d2]) = Ok s2 /\ ~ Knot2 kc_cf s2 [1; 2] /\ (serving_at s2 1 2 && serving_at s2 2 1) = true).
Proof.
  split; [apply formed; vm_compute; reflexivity|]. split; [vm_compute; reflexivity|]. split; apply dissolved; vm_compute; reflexivity.
Qed.

(* (d) reneging at node 1 of K (one server, room for 2 customers), node 2 has one place.  Customer 1 is blocked at node 1 (t = 4), customer 3
   arrives and waits at node 1 with reneging date 10 (t = 5), customer 2 is blocked at node 2 towards node 1, which is full (t = 6): a knot.
   At t = 10 customer 3 reneges; Node.renege (node.py) ends with self.release_blocked_individual(), which gives the free place to the head
   of the blocked queue of node 1: customer 2 of the knot moves in, and in the same cascade customer 1 moves to node 2.  NEW for C18:
   with reneging a structural knot is not a genuine deadlock as long as a customer with a finite reneging date waits at one of its
   nodes.  (Here KAux's clause "the next event of a node of K is not a renege" fails, with the scope; the others hold.) *)
Definition kd_cf : config :=
  mkCfg 1 [mkNcfg (Some 2) None 0 SFixed 0 true [true] 0; mkNcfg (Some 1) None 0 SFixed 0 false [false] 0]
        [0] 1 None [RtNR [RDirect 2; RDirect 1]] [[None; None]] false [[false]].
Definition kd_0 : sim := mkSim 1 0 (mkArr 0 0 [[Some 1]; [Some 2]] 1 0 (Some 1)) [fixed_node 1 1; fixed_node 2 1] [] 0 0 [] nod [] [[0; 0]].
Definition kd_ds : list draws := [mkDraws [4] [1] [3] [] [50] []; mkDraws [98] [1] [4] [] [] []; nod; mkDraws [95] [1] [] [] [5] []; nod].
Definition kd_d : draws := mkDraws [] [] [5; 6] [] [7] [].
Theorem knot2_refuted_reneging :
  (exists s, run_many kd_cf kd_0 kd_ds = Ok s /\ Knot2 kd_cf s [1; 2] /\ (sane_b kd_cf s && base_gen_b (fun _ => true) kd_cf [1; 2] s) = true) /\
  knot_scope kd_cf [1; 2] = false /\
  (exists s', run_many kd_cf kd_0 (kd_ds ++ [kd_d]) = Ok s' /\ ~ Knot2 kd_cf s' [1; 2] /\
              (serving_at s' 1 2 && serving_at s' 2 1 && (match exit_ids s' with [3] => true | _ => false end)) = true).
Proof. split; [apply formed; vm_compute; reflexivity|]. split; [vm_compute; reflexivity|]. apply dissolved. vm_compute. reflexivity. Qed.

(* ====================================================================================================================
   Does the state contain a knot?  The decision procedure of Sub/Deadlock.v on the wait-for graph of the NODES, as in stage 1:
   an edge (j, d) for every server object of node j whose customer is blocked towards d, an edge (j, 0) for every other server
   object (0 is no node); vertices = the nodes with finitely many servers.
   ==================================================================================================================== *)
From CiwV Require Deadlock.
Definition sv_target (s : sim) (sv : server) : Z :=
  match sv_cust sv with
  | Some i => match find_ind i (inds s) with
              | Some x => if sv_busy sv && i_blocked x then match i_dest x with Some d => d | None => 0 end else 0
              | None => 0
              end
  | None => 0
  end.
Definition knot_graph (s : sim) : Deadlock.graph :=
  flat_map (fun nd => map (fun sv => (n_id nd, sv_target s sv)) (n_servers nd)) (nodes s).
Definition fin_nd_b (cf : config) (nd : node) : bool :=
  match n_c nd, nthZ (cf_nodes cf) (n_id nd - 1) with Some _, Some _ => true | _, _ => false end.
Definition knot_V (cf : config) (s : sim) : list Z := map n_id (filter (fin_nd_b cf) (nodes s)).
(* the state contains a knot all of whose nodes have at least one server object *)
Definition deadlocked2_b (cf : config) (s : sim) : bool := Deadlock.deadlocked (knot_graph s) (knot_V cf s).

Lemma nodeZ_In s j nd : nodeZ s j = Some nd -> In nd (nodes s).
Proof. unfold nodeZ. destruct (j <? 1); [discriminate|]. apply nthZ_In. Qed.
Lemma nodeZ_id s j nd : Idx s -> nodeZ s j = Some nd -> n_id nd = j.
Proof. unfold nodeZ. intros HI H. destruct (j <? 1) eqn:Ej; [discriminate|]. apply Z.ltb_ge in Ej. eapply Idx_get; eauto. Qed.
Lemma succs_knot_graph s j w : In w (Deadlock.succs (knot_graph s) j) <->
  exists nd sv, In nd (nodes s) /\ n_id nd = j /\ In sv (n_servers nd) /\ w = sv_target s sv.
Proof.
  unfold Deadlock.succs, knot_graph. rewrite in_map_iff. split.
  - intros ([a b] & Hw & Hf). apply filter_In in Hf as [Hin Heq]. cbn in Hw, Heq. apply Z.eqb_eq in Heq.
    apply in_flat_map in Hin as (nd & Hnd & He). apply in_map_iff in He as (sv & E & Hsv). injection E as E1 E2.
    exists nd, sv. split; [exact Hnd|]. split; [congruence|]. split; [exact Hsv|congruence].
  - intros (nd & sv & Hnd & Hid & Hsv & Hw). exists (j, w). split; [reflexivity|]. apply filter_In. split; [|cbn; apply Z.eqb_refl].
    apply in_flat_map. exists nd. split; [exact Hnd|]. apply in_map_iff. exists sv. split; [congruence|exact Hsv].
Qed.
Lemma knot_V_In cf s j : In j (knot_V cf s) <-> exists nd, In nd (nodes s) /\ n_id nd = j /\ fin_nd_b cf nd = true.
Proof.
  unfold knot_V. rewrite in_map_iff. split.
  - intros (nd & Hid & Hf). apply filter_In in Hf as [Hin Hf]. eauto.
  - intros (nd & Hin & Hid & Hf). exists nd. split; [exact Hid|]. apply filter_In. auto.
Qed.
Lemma sv_target_knot s K sv : KnotSv s K sv -> In (sv_target s sv) K.
Proof. intros (Hb & i & x & d & Hcu & Hx & Hbl & Hd & HdK). unfold sv_target. rewrite Hcu, Hx, Hb, Hbl, Hd. exact HdK. Qed.
Lemma sv_target_inv s K sv : In (sv_target s sv) K -> ~ In 0 K -> KnotSv s K sv.
Proof.
  unfold sv_target, KnotSv. intros H H0K.
  destruct (sv_cust sv) as [i|]; [|contradiction]. destruct (find_ind i (inds s)) as [x|] eqn:Ex; [|contradiction].
  destruct (sv_busy sv) eqn:Eb; [|contradiction]. destruct (i_blocked x) eqn:Ebl; [|contradiction]. cbn in H.
  destruct (i_dest x) as [d|] eqn:Ed; [|contradiction]. split; [reflexivity|]. exists i, x, d. auto.
Qed.
(* a non-empty closed set of the graph is a knot ... *)
Theorem closed_knot2 cf s K : Idx s -> K <> [] -> incl K (knot_V cf s) -> Deadlock.closed (knot_graph s) K -> Knot2 cf s K.
Proof.
  intros HI Hne Hincl Hcl.
  assert (H0K : ~ In 0 K).
  { intros H0. apply Hincl, knot_V_In in H0 as (nd & Hin & Hid & _). apply In_nth_error in Hin as [k Hk]. specialize (HI k nd Hk). lia. }
  split; [exact Hne|]. intros j Hj. destruct (proj1 (knot_V_In cf s j) (Hincl j Hj)) as (nd & Hin & Hid & Hf).
  unfold fin_nd_b in Hf. rewrite Hid in Hf. destruct (n_c nd) as [c|] eqn:Ec; [|discriminate]. destruct (nthZ (cf_nodes cf) (j - 1)) as [nc|] eqn:Enc; [|discriminate].
  exists nd, nc, c. split; [rewrite <- Hid; apply Idx_nodeZ; assumption|]. split; [first [exact Enc|reflexivity]|]. split; [exact Ec|].
  intros sv Hsv. apply sv_target_inv; [|exact H0K]. apply (proj2 (Hcl j Hj)). apply succs_knot_graph. exists nd, sv. auto.
Qed.
(* ... and a knot whose nodes have server objects is a non-empty closed set *)
Theorem knot2_closed cf s K : Idx s -> Knot2 cf s K -> (forall j nd, In j K -> nodeZ s j = Some nd -> n_servers nd <> []) ->
  incl K (knot_V cf s) /\ Deadlock.closed (knot_graph s) K.
Proof.
  intros HI [_ HK] Hsv. split.
  - intros j Hj. destruct (HK j Hj) as (nd & nc & c & Hn & Hc & Hcc & _). apply knot_V_In. exists nd.
    pose proof (nodeZ_id s j nd HI Hn) as Hid. split; [eapply nodeZ_In; eauto|]. split; [exact Hid|]. unfold fin_nd_b. rewrite Hcc, Hid, Hc. reflexivity.
  - intros j Hj. destruct (HK j Hj) as (nd & nc & c & Hn & Hc & Hcc & Hsvs). split.
    + destruct (n_servers nd) as [|sv r] eqn:Es; [exfalso; exact (Hsv j nd Hj Hn Es)|].
      intros E. assert (Hin : In (sv_target s sv) (Deadlock.succs (knot_graph s) j)); [|rewrite E in Hin; destruct Hin].
      apply succs_knot_graph. exists nd, sv. split; [eapply nodeZ_In; eauto|]. split; [eapply nodeZ_id; eauto|]. split; [rewrite Es; left; reflexivity|reflexivity].
    + intros w Hw. apply succs_knot_graph in Hw as (nd' & sv & Hin' & Hid' & Hsv' & ->).
      pose proof (Idx_nodeZ s nd' HI Hin') as Hn'. rewrite Hid', Hn in Hn'. injection Hn' as <-.
      apply sv_target_knot. apply (Hsvs sv Hsv').
Qed.
Theorem deadlocked2_b_iff cf s : Idx s ->
  (deadlocked2_b cf s = true <-> exists K, Knot2 cf s K /\ forall j nd, In j K -> nodeZ s j = Some nd -> n_servers nd <> []).
Proof.
  intros HI. unfold deadlocked2_b. rewrite Deadlock.deadlocked_iff_D. split.
  - intros (K & Hne & Hincl & Hcl). exists K. split; [apply closed_knot2; assumption|].
    intros j nd Hj Hn Es. destruct (Hcl j Hj) as [Hs _]. apply Hs.
    destruct (Deadlock.succs (knot_graph s) j) as [|w r] eqn:E; [reflexivity|exfalso].
    assert (Hw : In w (Deadlock.succs (knot_graph s) j)) by (rewrite E; left; reflexivity).
    apply succs_knot_graph in Hw as (nd' & sv & Hin' & Hid' & Hsv' & _).
    pose proof (Idx_nodeZ s nd' HI Hin') as Hn'. rewrite Hid', Hn in Hn'. injection Hn' as <-. rewrite Es in Hsv'. destruct Hsv'.
  - intros (K & HK & Hsv). destruct (knot2_closed cf s K HI HK Hsv) as [Hincl Hcl]. exists K. split; [exact (proj1 HK)|]. split; assumption.
Qed.

(* C18, soundness of stopping, stage 2: when the structural computation says "deadlock", there is a knot K; if K is in the scope (and the
   bookkeeping facts KAux hold for it), none of its customers ever moves again and the computation says "deadlock" after any number of
   further events, whatever the draws.  Outside the scope this is false: knot2_refuted_* above *)
Theorem deadlock_is_permanent2 cf s : Idx s -> deadlocked2_b cf s = true ->
  exists K, Knot2 cf s K /\
    (KAux cf K s -> forall ds s', run_many cf s ds = Ok s' -> Knot2 cf s' K /\ Same K s s' /\ deadlocked2_b cf s' = true).
Proof.
  intros HI Hd. apply (deadlocked2_b_iff cf s HI) in Hd as (K & HK & Hsv). exists K. split; [exact HK|].
  intros HA ds s' H. destruct (run_many_knot2 cf K ds s s' (conj HK HA) H) as [(HK' & _ & HG') HSame].
  split; [exact HK'|]. split; [exact HSame|].
  apply (deadlocked2_b_iff cf s' (proj1 HG')). exists K. split; [exact HK'|].
  intros j nd' Hj Hn' Es. destruct (proj2 HK j Hj) as (nd & _ & _ & Hn & _).
  destruct (HSame j nd Hj Hn) as (nd2 & Hn2 & Hs2 & _). rewrite Hn' in Hn2. injection Hn2 as <-.
  apply (Hsv j nd Hj Hn). rewrite <- Hs2. exact Es.
Qed.
(* in (a) and (b) node 2 alone (its customer is blocked towards its own node) is a knot in the scope: it stays, while the customer of node 1 is
   pre-empted / restarted; in (c) and (d) nothing is left of the deadlock *)
Example kx_deadlocked : deadlocked2_b kx_cf kx_s = true /\ after kx_cf kx_s [kx_d; kx_d; kx_d; kx_d; kx_d] (deadlocked2_b kx_cf) = true /\
  after ka_cf ka_0 ka_ds (deadlocked2_b ka_cf) = true /\ after ka_cf ka_0 (ka_ds ++ [ka_d]) (fun s => deadlocked2_b ka_cf s && knot2_b ka_cf s [2] && negb (knot2_b ka_cf s [1; 2])) = true /\
  after kd_cf kd_0 kd_ds (deadlocked2_b kd_cf) = true /\ after kd_cf kd_0 (kd_ds ++ [kd_d]) (fun s => negb (deadlocked2_b kd_cf s)) = true /\
  after kc_cf kc_0 kc_ds (deadlocked2_b kc_cf) = true /\ after kc_cf kc_0 (kc_ds ++ [kc_d1]) (fun s => negb (deadlocked2_b kc_cf s)) = true.
Proof. vm_compute. auto 10. Qed.

Print Assumptions event_step_knot2.
Print Assumptions run_many_knot2.
Print Assumptions knot2_is_permanent.
Print Assumptions knot2_is_permanent_in_scope.
Print Assumptions KAux_means.
Print Assumptions knot2_b_sound.
Print Assumptions knot2_b_complete.
Print Assumptions knotinv2_b_sound.
Print Assumptions kx_run.
Print Assumptions kx_forever.
Print Assumptions knot2_refuted_priority_preempt.
Print Assumptions knot2_refuted_preemptive_schedule.
Print Assumptions knot2_refuted_schedule.
Print Assumptions knot2_refuted_reneging.
Print Assumptions deadlocked2_b_iff.
Print Assumptions deadlock_is_permanent2.

(* Preempt2r.v -- T2 for C11 on the STAGE-2 engine model, the fourth option of priority pre-emption: "... or is sent on (reroute)".
   Function level (no run invariant).  Preempt2.v specifies `preempt` for resume / restart / resample (nc_preempt <> 4); this file
   specifies the path nc_preempt = 4 of Engine2.preempt:  original service time stored, d <- next_node_for 1 j v (the routing object's
   answer for REROUTING), interruption record WITH the destination, release f j v d true (no service record, nobody is started on the
   freed server, no blocked customer is released, the destination's capacity is not tested), then start_preemptor on the victim's server.

   Part 1  release_reroute_ok: `release ... true` (the victim holds an on-duty server of the node's list), exactly: queue, population,
           number_in_service, server detached with the busy time credited, attributes reset, then exit_accept / accept at d.
   Part 2  preempt_reroute_spec (main theorem): the decomposition  routing (sr, d) -> s1 (EXPLICIT state) -> accept / exit (s2) ->
           start_preemptor (s'), with (1) the record, (2) the victim and node j in s1, (3) the pre-emptor started on the victim's server
           with the service time Preempt2.given prescribes.  preempt_reroute_record: the interruption record is the FIRST record that
           the call appends.  preempt_reroute_dest: what d can be (Route2.allowed; scope Route2.routing_ok, hypothesis Route2.upos).
   Part 3  a frame logic `fr d A` (only node d and the customers in A are written; node identities kept) with one line per engine
           function, accept_local (an accept at a node d WITHOUT reroute pre-emption writes node d, the arriving customer, customers
           queued at d and customers of d's servers only) and exit_accept_local.
   Part 4  (4) preempt_reroute_to_exit / preempt_reroute_to_other_node: when the victim goes to the exit, or to ANOTHER node d that has
           no reroute pre-emption of its own, node j ends as `departed` with the server handed over, the pre-emptor is `started` from
           its record in s, no node other than j and d changes and no customer that is not at node d.  preempt_reroute_preemptor_after:
           (3) field by field, any destination.  (An accept at a node d WITH reroute pre-emption can send ITS victim on, even back to
           j: that cascade is why the restriction is there; the decomposition of Part 2 holds without it.)
   Part 5  closed examples: reroute_same_node_refuted (finding F-11a, known: d = j, the victim's re-acceptance starts the pre-emptor
           on the freed server and preempt() starts it again) and Order2.preemptor_started_twice_refuted re-exported;
           a three-node network in which the victim is rerouted from node 1 to node 3 (good case: hypotheses and conclusions checked). *)
From Coq Require Import ZArith List Bool Lia.
From RecordUpdate Require Import RecordUpdate.
From CiwV Require Import Sx Prelude Routing Sched.
From CiwV.Engine Require Import State2 Engine2 Codec2.
From CiwV.Inv Require Route2 Samples2 Renege2 Order2.
From CiwV.Inv Require Import Preempt2.
Import ListNotations.
Open Scope Z_scope.

Local Arguments Z.mul : simpl never.
Local Arguments Z.add : simpl never.
Local Arguments Z.sub : simpl never.
Local Arguments Z.ltb : simpl never.
Local Arguments Z.eqb : simpl never.
Local Arguments Z.leb : simpl never.
Local Arguments Z.to_nat : simpl never.
Local Arguments Z.of_nat : simpl never.
Local Arguments nth_error : simpl never.

(* ================= Part 0: lists and states ================= *)
Lemma put_put_ind a b : i_id a = i_id b -> forall l, put_ind_l a (put_ind_l b l) = put_ind_l a l.
Proof.
  intros H. induction l as [|y r IH]; cbn.
  - rewrite H, Z.eqb_refl. reflexivity.
  - destruct (i_id y =? i_id b) eqn:E; cbn.
    + rewrite H, Z.eqb_refl, E. reflexivity.
    + rewrite H, E. f_equal. exact IH.
Qed.
Lemma upd_upd {X} : forall (l : list X) n a b, upd (upd l n a) n b = upd l n b.
Proof. induction l as [|h t IH]; intros [|n] a b; cbn; try reflexivity. f_equal. apply IH. Qed.
Lemma updZ_updZ {X} (l : list X) i a b : updZ (updZ l i a) i b = updZ l i b.
Proof. unfold updZ. destruct (i <? 0); [reflexivity|apply upd_upd]. Qed.
Lemma nth_error_upd_cases {X} : forall (l : list X) n m b x, nth_error (upd l n b) m = Some x -> (m = n /\ x = b) \/ nth_error l m = Some x.
Proof.
  induction l as [|h t IH]; intros [|n] [|m] b x H; cbn in *; try (right; exact H); try discriminate.
  - left. split; [reflexivity|]. change (Some b = Some x) in H. injection H as <-. reflexivity.
  - change (nth_error (upd t n b) m = Some x) in H. destruct (IH _ _ _ _ H) as [[-> ->]|H']; [left; split; reflexivity|right; exact H'].
Qed.

Lemma set_node_set_ind nd y s : set_node nd (set_ind y s) = set_ind y (set_node nd s).
Proof. reflexivity. Qed.
Lemma set_ind_twice a b s : i_id a = i_id b -> set_ind a (set_ind b s) = set_ind a s.
Proof. intros H. unfold set_ind. cbn. rewrite (put_put_ind a b H). reflexivity. Qed.
Lemma set_node_twice a b s : n_id a = n_id b -> set_node a (set_node b s) = set_node a s.
Proof. intros H. unfold set_node. cbn. rewrite H, updZ_updZ. reflexivity. Qed.

(* node identities are positions: an unconditional version of Preempt2.Idx_set_node, and the bridge to Renege2.Idx *)
Lemma node_at_set_node_ne nd s k : k <> n_id nd -> node_at (set_node nd s) k = node_at s k.
Proof. intros H. unfold node_at, set_node. cbn. destruct (k <? 1); [reflexivity|]. apply nthZ_updZ_neq. lia. Qed.
Lemma node_at_set_node_cases nd s k x : node_at (set_node nd s) k = Some x -> (k = n_id nd /\ x = nd) \/ node_at s k = Some x.
Proof.
  unfold node_at, set_node. cbn. destruct (k <? 1) eqn:E; [discriminate|]. apply Z.ltb_ge in E.
  unfold nthZ, updZ. destruct (k - 1 <? 0) eqn:E1; [discriminate|]. destruct (n_id nd - 1 <? 0) eqn:E2; [right; assumption|].
  apply Z.ltb_ge in E1, E2. intros H. destruct (nth_error_upd_cases _ _ _ _ _ H) as [[Hk ->]|H']; [left|right; exact H'].
  split; [|reflexivity]. apply Z2Nat.inj in Hk; lia.
Qed.
Lemma Idx_set_node' nd s : Idx s -> Idx (set_node nd s).
Proof. intros HI k x H. destruct (node_at_set_node_cases _ _ _ _ H) as [[-> ->]|H']; [reflexivity|apply HI; exact H']. Qed.
Lemma Idx_of_list s : (forall k nd, nth_error (nodes s) k = Some nd -> n_id nd = Z.of_nat k + 1) -> Idx s.
Proof.
  intros H j nd Hn. unfold node_at in Hn. destruct (j <? 1) eqn:E; [discriminate|]. apply Z.ltb_ge in E.
  unfold nthZ in Hn. destruct (j - 1 <? 0); [discriminate|]. rewrite (H _ _ Hn). rewrite Z2Nat.id by lia. lia.
Qed.
Lemma Idx_to_list s : Idx s -> forall k nd, nth_error (nodes s) k = Some nd -> n_id nd = Z.of_nat k + 1.
Proof.
  intros HI k nd Hn. apply (HI (Z.of_nat k + 1) nd). unfold node_at. destruct (Z.of_nat k + 1 <? 1) eqn:E; [apply Z.ltb_lt in E; lia|].
  unfold nthZ. destruct (Z.of_nat k + 1 - 1 <? 0) eqn:E1; [apply Z.ltb_lt in E1; lia|].
  replace (Z.of_nat k + 1 - 1) with (Z.of_nat k) by lia. rewrite Nat2Z.id. exact Hn.
Qed.

(* ================= Part 1: release with reroute = true ================= *)
(* the customer as Node.release hands it to the next node: no server, every attribute of the visit reset *)
Definition left_ind (x : ind) : ind :=
  x <| i_server := None |> <| i_arr := None |> <| i_stime := None |> <| i_smark := 0 |> <| i_sst := None |> <| i_send := None |>
    <| i_exit := None |> <| i_qa := None |> <| i_qd := None |> <| i_dest := None |>.
(* node j once the customer has left queue p (q' = that queue without it) and its server has become sv' *)
Definition departed (nd : node) (p : Z) (q' : list Z) (sv' : server) : node :=
  nd <| n_queues := updZ (n_queues nd) p q' |> <| n_pop := n_pop nd - 1 |> <| n_insvc := n_insvc nd - 1 |>
     <| n_servers := put_server_l sv' (n_servers nd) |>.

Lemma left_ind_id x : i_id (left_ind x) = i_id x. Proof. destruct x. reflexivity. Qed.
Lemma left_ind_chain x a b : left_ind x = (x <| i_qd := a |> <| i_exit := b |> <| i_server := None |>)
    <| i_arr := None |> <| i_stime := None |> <| i_smark := 0 |> <| i_sst := None |> <| i_send := None |>
    <| i_exit := None |> <| i_qa := None |> <| i_qd := None |> <| i_dest := None |>.
Proof. destruct x. reflexivity. Qed.
Lemma detached_exit t x a sv : detached t (x <| i_qd := a |> <| i_exit := Some t |>) sv = detached t (x <| i_exit := Some t |>) sv.
Proof. destruct x, sv. reflexivity. Qed.
(* the stint is credited to the server's busy time: exit date (= now) - service start date *)
Lemma detached_busy_time t x sv :
  sv_busy_time (detached t (x <| i_exit := Some t |>) sv) = sv_busy_time sv - sv_wrapped sv + (t - numo (i_sst x)) /\
  sv_cust (detached t (x <| i_exit := Some t |>) sv) = None /\ sv_busy (detached t (x <| i_exit := Some t |>) sv) = false /\
  sv_id (detached t (x <| i_exit := Some t |>) sv) = sv_id sv.
Proof. destruct x, sv. repeat split. Qed.

Section Reroute.
  Variable cf : config.

  Theorem release_reroute_ok f j v d s u s' nc x nd sid sv :
    release cf (S f) j v d true s = Ok (u, s') -> Idx s ->
    cfg_at cf j = Some nc -> nc_slotted nc = false ->
    find_ind v (inds s) = Some x -> node_at s j = Some nd -> nd_inf nd = false ->
    i_server x = Some sid -> find_server sid (n_servers nd) = Some sv -> sv_offduty sv = false ->
    exists q q', nthZ (n_queues nd) (i_pprio x) = Some q /\ remove_first v q = Some q' /\
      (if d =? -1 then exit_accept v true else accept cf f d v)
        (set_ind (left_ind x) (set_node (departed nd (i_pprio x) q' (detached (now s) (x <| i_exit := Some (now s) |>) sv)) s)) = Ok (u, s').
  Proof.
    intros H HI Hnc Hsl Hx Hn Hinf Hsid Hsv Hoff. pose proof (find_ind_id _ _ _ Hx) as Hid. pose proof (HI _ _ Hn) as Hnid.
    rewrite Route2.release_S in H. unfold Route2.release_body in H.
    apply bind_ok in H as (t & s0 & E & H). apply tnow_ok in E as [-> ->].
    apply bind_ok in H as (x0 & s0 & E & H). apply get_ind_ok in E as [-> Hx0]. rewrite Hx in Hx0. injection Hx0 as <-.
    apply bind_ok in H as (nd0 & s0 & E & H). apply get_node_ok in E as [-> Hn0]. rewrite Hn in Hn0. injection Hn0 as <-.
    apply bind_ok in H as (nc0 & s0 & E & H). apply ncfg_of_ok in E as [-> Hnc0]. rewrite Hnc in Hnc0. injection Hnc0 as <-.
    apply bind_ok in H as (q & s0 & E & H). apply lift_ok in E as [Hq ->].
    apply bind_ok in H as (q' & s0 & E & H). apply lift_ok in E as [Hq' ->]. cbv zeta in H.
    exists q, q'. split; [exact Hq|]. split; [exact Hq'|].
    set (nd1 := nd <| n_queues := updZ (n_queues nd) (i_pprio x) q' |> <| n_pop := n_pop nd - 1 |> <| n_insvc := n_insvc nd - 1 |>) in *.
    apply bind_ok in H as (u1 & sa & E & H). apply put_node_ok in E. subst sa.
    apply bind_ok in H as (u2 & sb & E & H). apply put_ind_ok in E. subst sb.
    set (xb := x <| i_qd := Some (n_pop nd1) |> <| i_exit := Some (now s) |>) in *.
    apply bind_ok in H as (u3 & s0 & E & H). apply ret_ok in E as [_ ->].
    rewrite Hinf, Hsl in H. cbn [negb andb] in H.
    apply bind_ok in H as (freed & sc & E & H).
    apply bind_ok in E as (x1 & s0 & E1 & E). apply get_ind_ok in E1 as [-> Hx1].
    rewrite (find_set_ind_id xb _ v v Hid), Z.eqb_refl in Hx1. injection Hx1 as <-.
    apply bind_ok in E as (sid0 & s0 & E1 & E). apply lift_ok in E1 as [E1 ->]. change (i_server xb) with (i_server x) in E1.
    rewrite Hsid in E1. injection E1 as <-.
    apply bind_ok in E as (u4 & sc0 & E1 & E). apply ret_ok in E as [_ ->].
    assert (Hne : node_at s (n_id nd1) <> None) by (change (node_at s (n_id nd) <> None); rewrite Hnid, Hn; discriminate).
    assert (Hnb : node_at (set_ind xb (set_node nd1 s)) j = Some nd1).
    { rewrite node_at_set_ind, (node_at_set_node _ _ _ Hne). change (n_id nd1) with (n_id nd). rewrite Hnid, Z.eqb_refl. reflexivity. }
    assert (Hxb : find_ind v (inds (set_ind xb (set_node nd1 s))) = Some xb) by (rewrite (find_set_ind_id xb _ v v Hid), Z.eqb_refl; reflexivity).
    pose proof (detatch_server_ok _ _ _ _ _ _ _ _ _ E1 Hnb Hxb Hsv Hoff) as Esc. clear E1 Hnb Hxb.
    change (now (set_ind xb (set_node nd1 s))) with (now s) in Esc.
    apply bind_ok in H as (u5 & s0 & E & H). apply ret_ok in E as [_ ->].
    apply bind_ok in H as (u6 & sd & E & H). unfold reset_individual_attributes in E. apply upd_ind_ok in E as (x2 & Hx2 & ->).
    rewrite Esc in Hx2. change (find_ind v (inds (set_ind (xb <| i_server := None |>) (set_ind xb (set_node nd1 s)))) = Some x2) in Hx2.
    rewrite find_set_ind in Hx2. change (i_id (xb <| i_server := None |>)) with (i_id x) in Hx2. rewrite Hid, Z.eqb_refl in Hx2. injection Hx2 as <-.
    apply bind_ok in H as (u7 & s0 & E & H). apply ret_ok in E as [_ ->].
    apply bind_ok in H as (u8 & se & E & H). destruct u8. apply ret_ok in H as [-> ->].
    rewrite <- E. f_equal. rewrite Esc. subst xb. rewrite <- left_ind_chain, detached_exit.
    rewrite set_node_set_ind, set_node_set_ind. rewrite set_ind_twice by (rewrite left_ind_id; reflexivity).
    rewrite set_ind_twice by (rewrite left_ind_id; reflexivity). rewrite set_node_twice by reflexivity.
    reflexivity.
  Qed.

  (* ================= Part 2: preempt with the option reroute ================= *)
  (* ---- what the generic walks of Samples2 / Renege2 give for the calls that the decomposition leaves opaque ---- *)
  Definition RelSvc (s s' : sim) : Prop := d_svc (dr s') = d_svc (dr s).
  Ltac relsolve := first [ (intros; reflexivity) | (intros ? ? ? Ha Hb; unfold RelSvc, Samples2.RelT in *; congruence) ].
  Lemma next_node_for_svc mode j i s d s' : next_node_for cf mode j i s = Ok (d, s') -> d_svc (dr s') = d_svc (dr s).
  Proof. apply (Samples2.kr_next_node_for RelSvc); relsolve. Qed.
  Lemma accept_now f d v s u s' : accept cf f d v s = Ok (u, s') -> now s' = now s.
  Proof. apply (Samples2.kr_accept Samples2.RelT); relsolve. Qed.
  Lemma exit_accept_now v c s u s' : exit_accept v c s = Ok (u, s') -> now s' = now s.
  Proof. apply (Samples2.kr_exit_accept Samples2.RelT); relsolve. Qed.
  Lemma accept_log f d v s u s' : accept cf f d v s = Ok (u, s') -> exists rest, log s' = log s ++ rest.
  Proof. apply (Samples2.kr_accept Samples2.RelLog); Samples2.rel_log. Qed.
  Lemma exit_accept_log v c s u s' : exit_accept v c s = Ok (u, s') -> exists rest, log s' = log s ++ rest.
  Proof. apply (Samples2.kr_exit_accept Samples2.RelLog); Samples2.rel_log. Qed.

  Definition IdxLst (ns : list node) : Prop := forall k nd, nth_error ns k = Some nd -> n_id nd = Z.of_nat k + 1.
  Lemma accept_Idx f d v s u s' : Idx s -> accept cf f d v s = Ok (u, s') -> Idx s'.
  Proof. intros HI H. apply Idx_of_list. exact (Renege2.kp_accept IdxLst (fun ns nd => Renege2.Idx_updZ ns nd) cf f d v s u s' (Idx_to_list s HI) H). Qed.
  Lemma exit_accept_Idx v c s u s' : Idx s -> exit_accept v c s = Ok (u, s') -> Idx s'.
  Proof. intros HI H. apply Idx_of_list. exact (Renege2.kp_exit_accept IdxLst v c s u s' (Idx_to_list s HI) H). Qed.
  Lemma Idx_nodes a b : nodes a = nodes b -> Idx b -> Idx a.
  Proof. intros E HI k nd H. apply HI. unfold node_at in *. rewrite <- E. exact H. Qed.

  Lemma ind_eta_route x : x <| i_route := i_route x |> = x. Proof. destruct x. reflexivity. Qed.

  (* a routing call: no node, clock, record or service draw is touched; of the customers only the one routed, and of it only the route *)
  Lemma next_node_for_frame mode j v s d sr x : next_node_for cf mode j v s = Ok (d, sr) -> find_ind v (inds s) = Some x ->
    nodes sr = nodes s /\ now sr = now s /\ log sr = log s /\ d_svc (dr sr) = d_svc (dr s) /\
    (exists ro, find_ind v (inds sr) = Some (x <| i_route := ro |>)) /\ (forall k, k <> v -> find_ind k (inds sr) = find_ind k (inds s)).
  Proof.
    intros H Hx. pose proof (next_node_for_svc _ _ _ _ _ _ H) as Hd. pose proof (find_ind_id _ _ _ Hx) as Hid.
    apply Route2.next_node_for_spec in H as (x0 & rt & raw & Hx0 & _ & Hs & _). rewrite Hx in Hx0. injection Hx0 as <-.
    apply Route2.route_step_frame in Hs as (A & B & C & [E|(ro & E)]).
    - split; [exact A|]. split; [exact B|]. split; [exact C|]. split; [exact Hd|]. rewrite E. split; [|intros; reflexivity].
      exists (i_route x). rewrite ind_eta_route. exact Hx.
    - split; [exact A|]. split; [exact B|]. split; [exact C|]. split; [exact Hd|]. rewrite E. split.
      + exists ro. rewrite find_put_ind. change (i_id (x <| i_route := ro |>)) with (i_id x). rewrite Hid, Z.eqb_refl. reflexivity.
      + intros k Hk. rewrite find_put_ind. change (i_id (x <| i_route := ro |>)) with (i_id x). rewrite Hid.
        apply Z.eqb_neq in Hk. rewrite Hk. reflexivity.
  Qed.

  Lemma start_preemptor_needs j i sid s u s' : start_preemptor cf j i sid s = Ok (u, s') ->
    exists xi nd2, find_ind i (inds s) = Some xi /\ node_at s j = Some nd2.
  Proof.
    unfold start_preemptor, attach_server. intros H. apply bind_ok in H as (u0 & sb & E & _).
    apply bind_ok in E as (u1 & sa & Ea & E). pose proof (upd_server_frame _ _ _ _ _ _ Ea) as (Ia & _).
    apply upd_server_ok in Ea as (nd2 & Hn & _). apply upd_ind_ok in E as (xi & Hxi & _). rewrite Ia in Hxi.
    exists xi, nd2. split; assumption.
  Qed.

  Lemma detached_nrec t x a b sv : detached t (x <| i_nrec := a |> <| i_exit := b |>) sv = detached t (x <| i_exit := b |>) sv.
  Proof. destruct x, sv. reflexivity. Qed.

  (* the state in which the victim is handed to the destination: sr = the state the routing call left, R = the record, vr = the
     victim's record when it is released *)
  Definition handed_state (sr : sim) (lg : list rec) (R : rec) (vr : ind) (ndj : node) : sim :=
    set_ind (left_ind (vr <| i_nrec := i_nrec vr + 1 |>)) (set_node ndj (sr <| log := lg ++ [R] |>)).

  (* C11, "... or is sent on (reroute)".  Priority pre-emption with option reroute at a node with a fixed or scheduled number of
     servers; the victim v holds server sv of the node's list, on duty.  If the call answers at all:
     routing   the victim's original_service_time := its service time; the routing object of the victim's class is asked ONCE for a
               rerouting destination d (mode 1; Route2.next_node_for_spec / preempt_reroute_dest say what d can be); that call touches
               no node, clock, record or service draw, and of the customers only the victim's remaining route (vr);
     (1) s1    exactly one record has been appended: the victim's interruption record -- type 1, exit date = now, start date and
               service time of the interrupted stint, destination Some d, server sid;
     (2) s1    the victim has left its queue (q' = q without v), population and number_in_service of node j are one less, its
               server is detached with busy time credited (detached_busy_time: + now - service start), free again; the victim
               carries no server and none of the attributes of the visit (left_ind); nothing else differs from sr.  It is then
               handed to accept at node d -- whether d has room or not -- or to the exit when d = -1 (counted as completed): s2;
     (3) s'    the pre-emptor i, as it is in s2 (xi), is started on the victim's server sid of node j as it is in s2 (nd2): start = now,
               service time st = what Preempt2.given prescribes from xi and the unread service draws of s2, end = now + st. *)
  Theorem preempt_reroute_spec fu j v i s s' nc vx nd sid sv :
    preempt cf (S (S fu)) j v i s = Ok (tt, s') -> Idx s ->
    cfg_at cf j = Some nc -> nc_preempt nc = 4 -> nc_slotted nc = false ->
    find_ind v (inds s) = Some vx -> node_at s j = Some nd -> nd_inf nd = false ->
    i_server vx = Some sid -> find_server sid (n_servers nd) = Some sv -> sv_offduty sv = false ->
    exists d sr ro q q' s1 s2 xi nd2 st,
      let vr := vx <| i_ost := i_stime vx |> <| i_route := ro |> in
      next_node_for cf 1 j v (set_ind (vx <| i_ost := i_stime vx |>) s) = Ok (d, sr) /\
      nodes sr = nodes s /\ now sr = now s /\ log sr = log s /\ d_svc (dr sr) = d_svc (dr s) /\
      find_ind v (inds sr) = Some vr /\ (forall k, k <> v -> find_ind k (inds sr) = find_ind k (inds s)) /\
      nthZ (n_queues nd) (i_pprio vx) = Some q /\ remove_first v q = Some q' /\
      s1 = handed_state sr (log s) (int_rec j (now s) vr (Some d) (Some sid)) vr
             (departed nd (i_pprio vx) q' (detached (now s) (vr <| i_exit := Some (now s) |>) sv)) /\
      (if d =? -1 then exit_accept v true else accept cf fu d v) s1 = Ok (tt, s2) /\
      start_preemptor cf j i sid s2 = Ok (tt, s') /\
      Idx s1 /\ Idx s2 /\ now s2 = now s /\ find_ind i (inds s2) = Some xi /\ node_at s2 j = Some nd2 /\
      given xi (d_svc (dr s2)) = Some (st, d_svc (dr s')) /\ now s' = now s /\ log s' = log s2 /\ Idx s' /\
      (forall k, oind s' k = if k =? i then Some (ecc_ind (started sid (now s) st xi)) else oind s2 k) /\
      (forall k, onode s' k = if k =? j
         then Some (ecc_node (nd2 <| n_servers := srv_upd sid (serving i (now s) st) (n_servers nd2) |> <| n_insvc := n_insvc nd2 |>))
         else onode s2 k).
  Proof.
    intros H HI Hnc Hp4 Hsl Hvx Hn Hinf Hsid Hsv Hoff. pose proof (find_ind_id _ _ _ Hvx) as Hvid.
    rewrite Route2.preempt_S in H. unfold Route2.preempt_body in H.
    apply bind_ok in H as (t & s0 & E & H). apply tnow_ok in E as [-> ->].
    apply bind_ok in H as (vx0 & s0 & E & H). apply get_ind_ok in E as [-> Hvx0]. rewrite Hvx in Hvx0. injection Hvx0 as <-.
    apply bind_ok in H as (nc0 & s0 & E & H). apply ncfg_of_ok in E as [-> Hnc0]. rewrite Hnc in Hnc0. injection Hnc0 as <-.
    apply bind_ok in H as (u1 & sa & E & H). apply put_ind_ok in E. subst sa.
    set (vx1 := vx <| i_ost := i_stime vx |>) in *.
    apply bind_ok in H as (u2 & s2 & E & H). destruct u2.
    rewrite Hp4 in E. change (4 =? 4) with true in E. cbv iota in E.
    apply bind_ok in E as (d & sr & En & E).
    assert (Hv1 : find_ind v (inds (set_ind vx1 s)) = Some vx1).
    { rewrite find_set_ind. change (i_id vx1) with (i_id vx). rewrite Hvid, Z.eqb_refl. reflexivity. }
    destruct (next_node_for_frame _ _ _ _ _ _ _ En Hv1) as (Nr & Tr & Lr & Dr & (ro & Hvr) & Fr).
    set (vr := vx1 <| i_route := ro |>) in *.
    change (nodes sr = nodes s) in Nr. change (now sr = now s) in Tr. change (log sr = log s) in Lr. change (d_svc (dr sr) = d_svc (dr s)) in Dr.
    apply bind_ok in E as (u3 & sw & Ew & E).
    apply write_interruption_record_ok in Ew as (vr0 & nc1 & Hvr0 & Hnc1 & ->). rewrite Hvr in Hvr0. injection Hvr0 as <-.
    rewrite Hnc in Hnc1. injection Hnc1 as <-. rewrite Hsl in E. change (i_server vr) with (i_server vx) in E. rewrite Hsid, Tr, Lr in E.
    set (R := int_rec j (now s) vr (Some d) (Some sid)) in *.
    set (vw := vr <| i_nrec := i_nrec vr + 1 |>) in *.
    assert (HIr : Idx (sr <| log := log s ++ [R] |>)) by (apply (Idx_nodes _ s); [exact Nr|exact HI]).
    assert (Hnw : node_at (set_ind vw (sr <| log := log s ++ [R] |>)) j = Some nd) by (unfold node_at in *; cbn; rewrite Nr; exact Hn).
    assert (Hvw : find_ind v (inds (set_ind vw (sr <| log := log s ++ [R] |>))) = Some vw).
    { rewrite find_set_ind. change (i_id vw) with (i_id vx). rewrite Hvid, Z.eqb_refl. reflexivity. }
    destruct (release_reroute_ok _ _ _ _ _ _ _ _ _ _ _ _ E HIr Hnc Hsl Hvw Hnw Hinf Hsid Hsv Hoff) as (q & q' & Hq & Hq' & Hacc).
    change (i_pprio vw) with (i_pprio vx) in Hq, Hacc. change (now (set_ind vw (sr <| log := log s ++ [R] |>))) with (now sr) in Hacc.
    rewrite Tr in Hacc. unfold vw at 2 in Hacc. rewrite detached_nrec in Hacc.
    rewrite set_node_set_ind in Hacc. rewrite set_ind_twice in Hacc by (rewrite left_ind_id; reflexivity).
    set (s1 := handed_state sr (log s) R vr (departed nd (i_pprio vx) q' (detached (now s) (vr <| i_exit := Some (now s) |>) sv))).
    change ((if d =? -1 then exit_accept v true else accept cf fu d v) s1 = Ok (tt, s2)) in Hacc.
    apply bind_ok in H as (sid0 & s0 & E0 & H). apply lift_ok in E0 as [E0 ->]. rewrite Hsid in E0. injection E0 as <-.
    assert (HI1 : Idx s1) by (unfold s1, handed_state; apply Idx_set_ind, Idx_set_node'; exact HIr).
    assert (T1 : now s1 = now s) by exact Tr.
    assert (HI2 : Idx s2) by (destruct (d =? -1); [eapply exit_accept_Idx|eapply accept_Idx]; eassumption).
    assert (T2 : now s2 = now s).
    { rewrite <- T1. destruct (d =? -1); [eapply exit_accept_now|eapply accept_now]; eassumption. }
    destruct (start_preemptor_needs _ _ _ _ _ _ H) as (xi & nd2 & Hxi & Hn2).
    destruct (start_preemptor_spec _ _ _ _ _ _ _ _ _ H HI2 Hxi Hn2) as (st & Hg & T3 & L3 & HI3 & O3 & N3).
    rewrite T2 in O3, N3.
    exists d, sr, ro, q, q', s1, s2, xi, nd2, st. cbv zeta. fold vx1. fold vr.
    split; [exact En|]. split; [exact Nr|]. split; [exact Tr|]. split; [exact Lr|]. split; [exact Dr|]. split; [exact Hvr|].
    split. { intros k Hk. rewrite (Fr k Hk). rewrite find_set_ind. change (i_id vx1) with (i_id vx). rewrite Hvid. apply Z.eqb_neq in Hk. rewrite Hk. reflexivity. }
    split; [exact Hq|]. split; [exact Hq'|]. split; [reflexivity|]. split; [exact Hacc|]. split; [exact H|].
    split; [exact HI1|]. split; [exact HI2|]. split; [exact T2|]. split; [exact Hxi|]. split; [exact Hn2|]. split; [exact Hg|].
    split; [congruence|]. split; [exact L3|]. split; [exact HI3|]. split; [exact O3|exact N3].
  Qed.

  (* (1) read on the whole call: the FIRST record that preempt appends is the victim's interruption record, with the destination;
     whatever the destination's accept and the pre-emptor's start write comes after it *)
  Corollary preempt_reroute_record fu j v i s s' nc vx nd sid sv :
    preempt cf (S (S fu)) j v i s = Ok (tt, s') -> Idx s ->
    cfg_at cf j = Some nc -> nc_preempt nc = 4 -> nc_slotted nc = false ->
    find_ind v (inds s) = Some vx -> node_at s j = Some nd -> nd_inf nd = false ->
    i_server vx = Some sid -> find_server sid (n_servers nd) = Some sv -> sv_offduty sv = false ->
    exists d sr R rest, next_node_for cf 1 j v (set_ind (vx <| i_ost := i_stime vx |>) s) = Ok (d, sr) /\
      log s' = log s ++ R :: rest /\
      r_type R = 1 /\ r_id R = v /\ r_node R = j /\ r_dest R = Some d /\ r_exit R = Some (now s) /\
      r_arr R = i_arr vx /\ r_sst R = i_sst vx /\ r_stime R = i_stime vx /\ r_send R = None /\ r_server R = Some sid /\
      r_cls R = i_pcls vx /\ r_ocls R = i_ocls vx.
  Proof.
    intros H HI Hnc Hp4 Hsl Hvx Hn Hinf Hsid Hsv Hoff.
    destruct (preempt_reroute_spec _ _ _ _ _ _ _ _ _ _ _ H HI Hnc Hp4 Hsl Hvx Hn Hinf Hsid Hsv Hoff)
      as (d & sr & ro & q & q' & s1 & s2 & xi & nd2 & st & En & _ & _ & _ & _ & _ & _ & _ & _ & E1 & Hacc & _ & _ & _ & _ & _ & _ & _ & _ & L3 & _).
    cbv zeta in E1.
    assert (L2 : exists rest, log s2 = log s1 ++ rest) by (destruct (d =? -1); [eapply exit_accept_log|eapply accept_log]; eassumption).
    destruct L2 as (rest & L2).
    exists d, sr, (int_rec j (now s) (vx <| i_ost := i_stime vx |> <| i_route := ro |>) (Some d) (Some sid)), rest.
    split; [exact En|]. split.
    { rewrite L3, L2, E1. unfold handed_state. cbn [log set_ind set_node]. change (log (set_ind ?a ?b)) with (log b).
      cbn. rewrite <- app_assoc. reflexivity. }
    pose proof (find_ind_id _ _ _ Hvx) as Hvid. destruct vx. cbn in *. repeat split; try reflexivity. exact Hvid.
  Qed.

  (* what the destination can be: an answer that the routing specification allows to the routing object of the victim's class at
     node j, read from the nodes and Cycle counters of the state in which preempt is called (Route2.allowed, mode 1: the rerouting
     answer of every routing object is its next_node answer); scope: Probabilistic rows >= 0 summing to <= 1; uniform draws > 0 *)
  Corollary preempt_reroute_dest fu j v i s s' nc vx nd sid sv :
    Route2.routing_ok cf -> Route2.upos s ->
    preempt cf (S (S fu)) j v i s = Ok (tt, s') -> Idx s ->
    cfg_at cf j = Some nc -> nc_preempt nc = 4 -> nc_slotted nc = false ->
    find_ind v (inds s) = Some vx -> node_at s j = Some nd -> nd_inf nd = false ->
    i_server vx = Some sid -> find_server sid (n_servers nd) = Some sv -> sv_offduty sv = false ->
    exists d sr rt raw, next_node_for cf 1 j v (set_ind (vx <| i_ost := i_stime vx |>) s) = Ok (d, sr) /\
      nthZ (cf_routing cf) (i_cls vx) = Some rt /\
      Route2.allowed 1 j (vx <| i_ost := i_stime vx |>) rt (nodes s) (cyc s) raw /\ Route2.vdest (zlen (nodes s)) raw = Some d /\
      (d = -1 \/ 1 <= d <= zlen (nodes s)).
  Proof.
    intros Hok Hu H HI Hnc Hp4 Hsl Hvx Hn Hinf Hsid Hsv Hoff.
    destruct (preempt_reroute_spec _ _ _ _ _ _ _ _ _ _ _ H HI Hnc Hp4 Hsl Hvx Hn Hinf Hsid Hsv Hoff) as (d & sr & ro & q & q' & s1 & s2 & xi & nd2 & st & En & _).
    pose proof (find_ind_id _ _ _ Hvx) as Hvid.
    assert (Hu' : Route2.upos (set_ind (vx <| i_ost := i_stime vx |>) s)) by exact Hu.
    destruct (Route2.next_node_for_allowed cf 1 j v _ _ _ Hok Hu' En) as (x & rt & raw & Hx & Hrt & Hal & Hv & _).
    change (nodes (set_ind (vx <| i_ost := i_stime vx |>) s)) with (nodes s) in Hal, Hv.
    change (cyc (set_ind (vx <| i_ost := i_stime vx |>) s)) with (cyc s) in Hal.
    rewrite find_set_ind in Hx.
    change (i_id (vx <| i_ost := i_stime vx |>)) with (i_id vx) in Hx. rewrite Hvid, Z.eqb_refl in Hx. injection Hx as <-.
    exists d, sr, rt, raw. split; [exact En|]. split; [exact Hrt|]. split; [exact Hal|]. split; [exact Hv|].
    eapply Route2.vdest_range; [|exact Hv]. unfold zlen. lia.
  Qed.
End Reroute.

(* ================= Part 3: a frame logic -- only node d and the customers in A are written ================= *)
Create HintDb frdb.
Section Frame.
  Variable cf : config.
  Variable d : Z.
  Variable A : Z -> Prop.

  Definition FRel (s s' : sim) : Prop :=
    Idx s' /\ (forall k, k <> d -> node_at s' k = node_at s k) /\ (forall k, ~ A k -> find_ind k (inds s') = find_ind k (inds s)).
  Definition fr {X} (m : M X) : Prop := forall s a s', Idx s -> m s = Ok (a, s') -> FRel s s'.

  Lemma FRel_same s s' : nodes s' = nodes s -> inds s' = inds s -> Idx s -> FRel s s'.
  Proof.
    intros En Ei HI. split; [apply (Idx_nodes _ s); assumption|]. split; [intros k _; unfold node_at; rewrite En; reflexivity|].
    intros k _. rewrite Ei. reflexivity.
  Qed.
  Lemma FRel_trans a b c : FRel a b -> FRel b c -> FRel a c.
  Proof.
    intros (A1 & A2 & A3) (B1 & B2 & B3). split; [exact B1|]. split; [intros k Hk; rewrite (B2 k Hk); apply A2; exact Hk|].
    intros k Hk. rewrite (B3 k Hk). apply A3. exact Hk.
  Qed.

  Lemma fr_ret {X} (a : X) : fr (ret a). Proof. intros s b s' HI H. apply ret_ok in H as [_ ->]. apply FRel_same; auto. Qed.
  Lemma fr_fail {X} e : fr (@fail X e). Proof. intros s a s' _ H. discriminate. Qed.
  Lemma fr_oof {X} : fr (@oof X). Proof. intros s a s' _ H. discriminate. Qed.
  Lemma fr_bind {X Y} (m : M X) (k : X -> M Y) : fr m -> (forall a, fr (k a)) -> fr (bind m k).
  Proof.
    intros Hm Hk s b s' HI H. apply bind_ok in H as (a & s1 & E & H). pose proof (Hm _ _ _ HI E) as F1.
    eapply FRel_trans; [exact F1|]. eapply Hk; [exact (proj1 F1)|exact H].
  Qed.
  Lemma fr_gets {X} (f : sim -> X) : fr (gets f). Proof. intros s a s' HI H. apply gets_ok in H as [_ ->]. apply FRel_same; auto. Qed.
  Lemma fr_lift {X} e (o : option X) : fr (lift e o). Proof. destruct o; [apply fr_ret|apply fr_fail]. Qed.
  Lemma fr_tnow : fr tnow. Proof. apply fr_gets. Qed.
  Lemma fr_ncfg_of j : fr (ncfg_of cf j). Proof. apply fr_lift. Qed.
  Lemma fr_same (g : sim -> sim) : (forall s, nodes (g s) = nodes s) -> (forall s, inds (g s) = inds s) -> fr (modify g).
  Proof. intros Hn Hi s a s' HI H. apply modify_ok in H. subst s'. apply FRel_same; auto. Qed.
  Lemma fr_get_node j : fr (get_node j). Proof. intros s a s' HI H. apply get_node_ok in H as [-> _]. apply FRel_same; auto. Qed.
  Lemma fr_get_ind i : fr (get_ind i). Proof. intros s a s' HI H. apply get_ind_ok in H as [-> _]. apply FRel_same; auto. Qed.
  Lemma fr_get_node_bind {Y} j (k : node -> M Y) : (forall nd, n_id nd = j -> fr (k nd)) -> fr (bind (get_node j) k).
  Proof.
    intros Hk s b s' HI H. apply bind_ok in H as (nd & s1 & E & H). apply get_node_ok in E as [-> Hn].
    eapply Hk; [exact (HI _ _ Hn)|exact HI|exact H].
  Qed.
  Lemma fr_get_ind_bind {Y} i (k : ind -> M Y) : (forall x, i_id x = i -> fr (k x)) -> fr (bind (get_ind i) k).
  Proof.
    intros Hk s b s' HI H. apply bind_ok in H as (x & s1 & E & H). apply get_ind_ok in E as [-> Hx].
    eapply Hk; [exact (find_ind_id _ _ _ Hx)|exact HI|exact H].
  Qed.
  Lemma fr_ncfg_of_bind {Y} j (k : ncfg -> M Y) : (forall nc, cfg_at cf j = Some nc -> fr (k nc)) -> fr (bind (ncfg_of cf j) k).
  Proof.
    intros Hk s b s' HI H. apply bind_ok in H as (nc & s1 & E & H). apply ncfg_of_ok in E as [-> Hnc].
    eapply Hk; [exact Hnc|exact HI|exact H].
  Qed.
  Lemma fr_put_node nd : n_id nd = d -> fr (put_node nd).
  Proof.
    intros Hd s a s' HI H. apply put_node_ok in H. subst s'. split; [apply Idx_set_node'; exact HI|].
    split; [intros k Hk; apply node_at_set_node_ne; congruence|intros; reflexivity].
  Qed.
  Lemma fr_put_ind x : A (i_id x) -> fr (put_ind x).
  Proof.
    intros HA s a s' HI H. apply put_ind_ok in H. subst s'. split; [exact HI|]. split; [intros; reflexivity|].
    intros k Hk. rewrite find_set_ind. destruct (k =? i_id x) eqn:E; [|reflexivity]. apply Z.eqb_eq in E. subst k. contradiction.
  Qed.
  Lemma fr_upd_ind i f : A i -> (forall x, i_id (f x) = i_id x) -> fr (upd_ind i f).
  Proof. intros HA Hf. unfold upd_ind. apply fr_get_ind_bind. intros x Hx. apply fr_put_ind. rewrite Hf, Hx. exact HA. Qed.
  Lemma fr_upd_node f : (forall nd, n_id (f nd) = n_id nd) -> fr (upd_node d f).
  Proof. intros Hf. unfold upd_node. apply fr_get_node_bind. intros nd Hn. apply fr_put_node. rewrite Hf. exact Hn. Qed.
  Lemma fr_log_rec r : fr (log_rec r). Proof. apply fr_same; reflexivity. Qed.
  Lemma fr_draw_svc : fr draw_svc. Proof. intros s a s' HI H. unfold draw_svc in H. destruct (d_svc (dr s)); inversion H. apply FRel_same; auto. Qed.
  Lemma fr_draw_unif : fr draw_unif. Proof. intros s a s' HI H. unfold draw_unif in H. destruct (d_unif (dr s)); inversion H. apply FRel_same; auto. Qed.
  Lemma fr_draw_ren : fr draw_ren. Proof. intros s a s' HI H. unfold draw_ren in H. destruct (d_ren (dr s)); inversion H. apply FRel_same; auto. Qed.
  Lemma fr_draw_cct : fr draw_cct. Proof. intros s a s' HI H. unfold draw_cct in H. destruct (d_cct (dr s)); inversion H. apply FRel_same; auto. Qed.

  #[local] Hint Resolve fr_ret fr_fail fr_oof fr_gets fr_lift fr_tnow fr_ncfg_of fr_get_node fr_get_ind fr_log_rec
    fr_draw_svc fr_draw_unif fr_draw_ren fr_draw_cct : frdb.

  Ltac fr_side :=
    first [ assumption
          | match goal with
            | Hx : i_id ?x = ?i |- A (i_id _) => change (A (i_id x)); rewrite Hx; assumption
            | Hn : n_id ?nd = d |- n_id _ = d => exact Hn
            | |- forall _, i_id _ = i_id _ => intros; reflexivity
            | |- forall _, n_id _ = n_id _ => intros; reflexivity
            end ].
  Ltac fr1 :=
    first
      [ solve [auto 2 with frdb nocore]
      | (apply fr_get_ind_bind; intros ? ?)
      | (apply fr_get_node_bind; intros ? ?)
      | (apply fr_bind; [|intros])
      | (apply fr_put_ind; fr_side)
      | (apply fr_put_node; fr_side)
      | (apply fr_upd_ind; fr_side)
      | (apply fr_upd_node; fr_side)
      | match goal with
        | |- fr (let _ := _ in _) => cbv zeta
        | |- fr (if ?b then _ else _) => destruct b
        | |- fr (match ?x with _ => _ end) => destruct x
        end ].
  Ltac frw := repeat fr1.

  Lemma fr_upd_server sid f : fr (upd_server d sid f). Proof. unfold upd_server. frw. Qed.
  #[local] Hint Resolve fr_upd_server : frdb.
  Lemma fr_attach_server sid i : A i -> fr (attach_server d sid i). Proof. intros HA. unfold attach_server. frw. Qed.
  Lemma fr_set_next_end sid e : fr (set_next_end d sid e). Proof. unfold set_next_end. frw. Qed.
  Lemma fr_kill_server sid : fr (kill_server d sid). Proof. unfold kill_server. frw. Qed.
  #[local] Hint Resolve fr_attach_server fr_set_next_end fr_kill_server : frdb.
  Lemma fr_detatch_server sid i : A i -> fr (detatch_server d sid i). Proof. intros HA. unfold detatch_server. frw. Qed.
  Lemma fr_bump_rec i : A i -> fr (bump_rec i). Proof. intros HA. unfold bump_rec. frw. Qed.
  #[local] Hint Resolve fr_detatch_server fr_bump_rec : frdb.
  Lemma fr_write_interruption_record i dest : A i -> fr (write_interruption_record cf d i dest).
  Proof. intros HA. unfold write_interruption_record. frw. Qed.
  Lemma fr_find_next_class_change : fr (find_next_class_change d). Proof. unfold find_next_class_change. frw. Qed.
  #[local] Hint Resolve fr_write_interruption_record fr_find_next_class_change : frdb.
  Lemma fr_cct_loop : forall row b best bc, fr (cct_loop row b best bc).
  Proof.
    induction row as [|h r IH]; intros b best bc; cbn [cct_loop]; [apply fr_ret|]. destruct h; [|apply IH].
    apply fr_bind; [apply fr_draw_cct|]. intros t. destruct (date_lt (Some t) best); apply IH.
  Qed.
  #[local] Hint Resolve fr_cct_loop : frdb.
  Lemma fr_decide_class_change i : A i -> fr (decide_class_change cf d i). Proof. intros HA. unfold decide_class_change. frw. Qed.
  Lemma fr_reset_class_change i : A i -> fr (reset_class_change cf d i). Proof. intros HA. unfold reset_class_change. frw. Qed.
  Lemma fr_stime_num x : fr (stime_num x). Proof. unfold stime_num. frw. Qed.
  Lemma fr_gstap i : A i -> fr (give_service_time_after_preemption i). Proof. intros HA. unfold give_service_time_after_preemption. frw. Qed.
  #[local] Hint Resolve fr_decide_class_change fr_reset_class_change fr_stime_num fr_gstap : frdb.
  Lemma fr_giast i : A i -> fr (give_individual_a_service_time i). Proof. intros HA. unfold give_individual_a_service_time. frw. Qed.
  #[local] Hint Resolve fr_giast : frdb.
  Lemma fr_start_fresh i osid c : A i -> fr (start_fresh cf d i osid c). Proof. intros HA. unfold start_fresh. frw. Qed.
  Lemma fr_start_preemptor i sid : A i -> fr (start_preemptor cf d i sid). Proof. intros HA. unfold start_preemptor. frw. Qed.
  Lemma fr_get_reneging_date j i : fr (get_reneging_date cf j i). Proof. unfold get_reneging_date. frw. Qed.
  Lemma fr_choice_uniform {X} (l : list X) : fr (choice_uniform l). Proof. unfold choice_uniform. frw. Qed.
  #[local] Hint Resolve fr_start_fresh fr_start_preemptor fr_get_reneging_date fr_choice_uniform : frdb.
  Lemma fr_choose_next_customer j : fr (choose_next_customer cf j). Proof. unfold choose_next_customer. frw. Qed.
  Lemma fr_preempt_victim j i : fr (preempt_victim cf j i). Proof. unfold preempt_victim. frw. Qed.
  #[local] Hint Resolve fr_choose_next_customer fr_preempt_victim : frdb.

  (* priority pre-emption WITHOUT rerouting stays at its node: the victim's and the pre-emptor's records, node d *)
  Lemma fr_preempt_stay f vi c ncd : cfg_at cf d = Some ncd -> nc_preempt ncd <> 4 -> A vi -> A c -> fr (preempt cf (S f) d vi c).
  Proof.
    intros Hnc H4 Hvi Hc. rewrite Route2.preempt_S. unfold Route2.preempt_body.
    apply fr_bind; [apply fr_tnow|]. intros t. apply fr_get_ind_bind. intros vx Hvx. apply fr_ncfg_of_bind. intros nc Hnc'.
    rewrite Hnc in Hnc'. injection Hnc' as <-. apply Z.eqb_neq in H4. rewrite H4. frw.
  Qed.
  Lemma fr_renege_step i nc : A i ->
    fr (if nc_reneging nc then rd <- get_reneging_date cf d i ;; upd_ind i (fun y => y <| i_ren := rd |>) else ret tt).
  Proof. intros HA. frw. Qed.
  Lemma fr_cand i (inf : bool) : fr (if inf then ret (Some i) else choose_next_customer cf d).
  Proof. frw. Qed.
End Frame.

(* ---- who can be chosen / pre-empted at a node: a member of its queues / the customer of one of its servers ---- *)
Lemma last_In {X} : forall (l : list X) a, In (last l a) (a :: l).
Proof.
  induction l as [|b r IH]; intros a; [left; reflexivity|]. destruct r as [|c r']; [right; left; reflexivity|].
  change (In (last (c :: r') a) (a :: b :: c :: r')). destruct (IH a) as [H|H]; [left; exact H|right; right; exact H].
Qed.
Lemma waiting_of_In il : forall q c, In c (waiting_of q il) -> In c q.
Proof.
  induction q as [|i r IH]; intros c H; [destruct H|]. cbn [waiting_of] in H. destruct (find_ind i il) as [x|]; [|right; apply IH; exact H].
  destruct (i_server x); [right; apply IH; exact H|]. destruct H as [<-|H]; [left; reflexivity|right; apply IH; exact H].
Qed.
Lemma first_waiting_In il : forall qs c, In c (first_waiting qs il) -> In c (concat qs).
Proof.
  induction qs as [|q r IH]; intros c H; [destruct H|]. cbn [first_waiting] in H. cbn [concat]. apply in_or_app.
  destruct (waiting_of q il) as [|w ws] eqn:E; [right; apply IH; exact H|]. left. apply (waiting_of_In il). rewrite E. exact H.
Qed.
Lemma In_concat_updZ_app (v : Z) : forall (qs : list (list Z)) p q c, nthZ qs p = Some q -> In c (concat (updZ qs p (q ++ [v]))) -> c = v \/ In c (concat qs).
Proof.
  intros qs p q c. unfold nthZ, updZ. destruct (p <? 0); [discriminate|]. generalize (Z.to_nat p). clear p.
  induction qs as [|h t IH]; intros [|n] Hq H; cbn in *; try discriminate.
  - change (Some h = Some q) in Hq. injection Hq as ->. apply in_app_or in H as [H|H]; [|right; apply in_or_app; right; exact H].
    apply in_app_or in H as [H|[<-|[]]]; [right; apply in_or_app; left; exact H|left; reflexivity].
  - change (nth_error t n = Some q) in Hq. apply in_app_or in H as [H|H]; [right; apply in_or_app; left; exact H|].
    destruct (IH _ Hq H) as [->|H']; [left; reflexivity|right; apply in_or_app; right; exact H'].
Qed.

Section Local.
  Variable cf : config.

  Lemma choose_in j s c s' : choose_next_customer cf j s = Ok (Some c, s') ->
    nodes s' = nodes s /\ exists nd, node_at s j = Some nd /\ In c (all_individuals nd).
  Proof.
    unfold choose_next_customer. intros H. apply bind_ok in H as (nd & s0 & E & H). apply get_node_ok in E as [-> Hn].
    apply bind_ok in H as (il & s0 & E & H). apply gets_ok in E as [-> ->].
    destruct (first_waiting (n_queues nd) (inds s)) as [|w0 wr] eqn:Ew; [apply ret_ok in H as [H _]; discriminate H|].
    assert (Hin : forall c0, In c0 (w0 :: wr) -> In c0 (all_individuals nd)) by (intros c0 Hc; apply (first_waiting_In (inds s)); rewrite Ew; exact Hc).
    apply bind_ok in H as (nc & s0 & E & H). apply ncfg_of_ok in E as [-> _].
    destruct (nc_disc nc =? 0); [|destruct (nc_disc nc =? 1)].
    - apply ret_ok in H as [H ->]. injection H as ->. split; [reflexivity|]. exists nd. split; [exact Hn|]. apply Hin. left. reflexivity.
    - apply ret_ok in H as [H ->]. injection H as ->. split; [reflexivity|]. exists nd. split; [exact Hn|]. apply Hin. apply last_In.
    - apply bind_ok in H as (x & s1 & E & H). apply ret_ok in H as [H ->]. injection H as ->. unfold choice_uniform in E.
      apply bind_ok in E as (uu & s2 & E1 & E). apply lift_ok in E as [E ->]. unfold draw_unif in E1.
      destruct (d_unif (dr s)); inversion E1. split; [reflexivity|]. exists nd. split; [exact Hn|]. apply Hin. eapply nth_error_In. exact E.
  Qed.

  Lemma renege_step_nodes j i nc s u s' :
    (if nc_reneging nc then rd <- get_reneging_date cf j i ;; upd_ind i (fun y => y <| i_ren := rd |>) else ret tt) s = Ok (u, s') -> nodes s' = nodes s.
  Proof.
    destruct (nc_reneging nc); [|intros H; apply ret_ok in H as [_ ->]; reflexivity].
    intros H. apply bind_ok in H as (rd & s1 & E & H). apply upd_ind_ok in H as (x & _ & ->). cbn.
    unfold get_reneging_date in E. apply bind_ok in E as (x0 & s0 & E0 & E). apply get_ind_ok in E0 as [-> _].
    apply bind_ok in E as (nc0 & s0 & E0 & E). apply ncfg_of_ok in E0 as [-> _].
    apply bind_ok in E as (t & s0 & E0 & E). apply tnow_ok in E0 as [-> ->].
    apply bind_ok in E as (has & s0 & E0 & E). apply lift_ok in E0 as [_ ->].
    destruct has; [|apply ret_ok in E as [_ ->]; reflexivity].
    apply bind_ok in E as (sm & s0 & E0 & E). apply ret_ok in E as [_ ->]. unfold draw_ren in E0. destruct (d_ren (dr s)); inversion E0. reflexivity.
  Qed.

  (* customer k is at node nd: in one of its queues, or the customer of one of its servers *)
  Definition at_node (nd : node) (k : Z) : Prop := In k (all_individuals nd) \/ exists sv, In sv (n_servers nd) /\ sv_cust sv = Some k.

  (* Node.accept at a node d that has NO reroute pre-emption (any other option, or none): node identities are kept, no other node is
     written, and the only customer records written are the arriving customer's, those of customers queued at d and those of
     customers of d's servers (ndd = node d when accept is called).  Every configuration otherwise. *)
  Theorem accept_local f d v s u s' ncd ndd : Idx s -> cfg_at cf d = Some ncd -> nc_preempt ncd <> 4 -> node_at s d = Some ndd ->
    accept cf f d v s = Ok (u, s') -> FRel d (fun k => k = v \/ at_node ndd k) s s'.
  Proof.
    intros HI Hnc H4 Hn H. destruct f as [|f]; [discriminate H|].
    set (A := fun k => k = v \/ at_node ndd k).
    assert (Av : A v) by (left; reflexivity).
    pose proof (HI _ _ Hn) as Hnid.
    rewrite Route2.accept_S in H. unfold Route2.accept_body in H.
    apply bind_ok in H as (x & s0 & E & H). apply get_ind_ok in E as [-> Hx]. pose proof (find_ind_id _ _ _ Hx) as Hid.
    apply bind_ok in H as (nd0 & s0 & E & H). apply get_node_ok in E as [-> Hn0]. rewrite Hn in Hn0. injection Hn0 as <-.
    apply bind_ok in H as (u1 & s1 & E1 & H).
    assert (F1 : FRel d A s s1) by (eapply (fr_put_ind d A); [|exact HI|exact E1]; change (A (i_id x)); rewrite Hid; exact Av).
    apply put_ind_ok in E1.
    apply bind_ok in H as (qs & s0 & E & H). apply lift_ok in E as [Hqs ->].
    destruct (nthZ (n_queues ndd) (i_prio x)) as [q|] eqn:Eq; [|discriminate Hqs]. injection Hqs as <-.
    set (N1 := ndd <| n_queues := updZ (n_queues ndd) (i_prio x) (q ++ [v]) |> <| n_pop := n_pop ndd + 1 |>) in *.
    apply bind_ok in H as (u2 & s2 & E2 & H).
    assert (F2 : FRel d A s1 s2) by (eapply (fr_put_node d A N1); [exact Hnid|exact (proj1 F1)|exact E2]).
    apply put_node_ok in E2.
    assert (Hn2 : node_at s2 d = Some N1).
    { rewrite E2, E1. rewrite node_at_set_node by (change (n_id N1) with (n_id ndd); rewrite Hnid, node_at_set_ind, Hn; discriminate).
      change (n_id N1) with (n_id ndd). rewrite Hnid, Z.eqb_refl. reflexivity. }
    apply bind_ok in H as (t & s0 & E & H). apply tnow_ok in E as [-> ->].
    apply bind_ok in H as (u3 & s3 & E3 & H).
    assert (F3 : FRel d A s2 s3) by (eapply (fr_upd_ind d A v); [exact Av| |exact (proj1 F2)|exact E3]; intros; reflexivity).
    apply upd_ind_ok in E3 as (x3 & _ & E3).
    assert (Hn3 : node_at s3 d = Some N1) by (rewrite E3; exact Hn2).
    apply bind_ok in H as (nc & s0 & E & H). apply ncfg_of_ok in E as [-> Hnc']. rewrite Hnc in Hnc'. injection Hnc' as <-.
    apply bind_ok in H as (u4 & s4 & E4 & H).
    assert (F4 : FRel d A s3 s4) by (eapply (fr_renege_step cf d A v ncd Av); [exact (proj1 F3)|exact E4]).
    apply renege_step_nodes in E4.
    assert (Hn4 : node_at s4 d = Some N1) by (unfold node_at in *; rewrite E4; exact Hn3).
    apply bind_ok in H as (u5 & s5 & E5 & H).
    assert (F5 : FRel d A s4 s5) by (eapply (fr_decide_class_change cf d A v Av); [exact (proj1 F4)|exact E5]).
    apply (decide_class_change_cc _ _ _ _ _ _ (proj1 F4)) in E5. destruct E5 as (_ & _ & _ & _ & O5 & _).
    specialize (O5 d). unfold onode in O5. rewrite Hn4 in O5.
    apply bind_ok in H as (nd1 & s0 & E & H). apply get_node_ok in E as [-> Hn5]. rewrite Hn5 in O5. cbn [option_map] in O5. apply Some_inj in O5.
    assert (Hsrv : n_servers nd1 = n_servers ndd) by (change (n_servers (ecc_node nd1) = n_servers (ecc_node N1)); rewrite O5; reflexivity).
    assert (Hqs : n_queues nd1 = updZ (n_queues ndd) (i_prio x) (q ++ [v])) by (change (n_queues (ecc_node nd1) = n_queues (ecc_node N1)); rewrite O5; reflexivity).
    cbv zeta in H.
    apply bind_ok in H as (cand & s6 & E6 & H).
    assert (F6 : FRel d A s5 s6) by (eapply (fr_cand cf d A v (nd_inf nd1)); [exact (proj1 F5)|exact E6]).
    assert (Hc : forall c, cand = Some c -> A c /\ nodes s6 = nodes s5).
    { intros c ->. destruct (nd_inf nd1).
      - apply ret_ok in E6 as [E6 ->]. injection E6 as ->. split; [exact Av|reflexivity].
      - apply choose_in in E6 as (Nn & nd' & Hn' & Hin). rewrite Hn5 in Hn'. injection Hn' as <-. split; [|exact Nn].
        unfold all_individuals in Hin. rewrite Hqs in Hin. destruct (In_concat_updZ_app _ _ _ _ _ Eq Hin) as [->|Hin']; [exact Av|].
        right. left. exact Hin'. }
    assert (F06 : FRel d A s s6).
    { eapply FRel_trans; [exact F1|]. eapply FRel_trans; [exact F2|]. eapply FRel_trans; [exact F3|]. eapply FRel_trans; [exact F4|].
      eapply FRel_trans; [exact F5|exact F6]. }
    pose proof (proj1 F06) as HI6. clear F1 F2 F3 F4 F5 F6.
    destruct cand as [c|]; [|apply ret_ok in H as [_ ->]; exact F06].
    destruct (Hc c eq_refl) as [Ac N6]. eapply FRel_trans; [exact F06|].
    destruct (nd_inf nd1).
    { eapply (fr_start_fresh cf d A c None true Ac); [exact HI6|exact H]. }
    apply bind_ok in H as (cx & s0 & E & H). apply get_ind_ok in E as [-> _].
    destruct (find_free_server_for (nc_spf ncd) (i_cls cx) (n_servers nd1)) as [svf|].
    { eapply (fr_start_fresh cf d A c _ true Ac); [exact HI6|exact H]. }
    destruct (0 <? numo (n_c nd1)); [|apply ret_ok in H as [_ ->]; apply FRel_same; auto].
    apply bind_ok in H as (vo & s7 & E7 & H).
    apply preempt_victim_spec in E7 as [-> (nc' & Hnc' & P0 & P1)]. rewrite Hnc in Hnc'. injection Hnc' as <-.
    destruct vo as [vi|]; [|apply ret_ok in H as [_ ->]; apply FRel_same; auto].
    destruct (Z.eq_dec (nc_preempt ncd) 0) as [Z0|Z0]; [specialize (P0 Z0); discriminate P0|].
    destruct (P1 Z0) as (nd6 & xc & Hn6 & _ & _ & _ & (spre & svv & spost & vx & Esv & Hcust & _)).
    assert (nd6 = nd1) as -> by (unfold node_at in Hn6, Hn5; rewrite N6, Hn5 in Hn6; injection Hn6 as <-; reflexivity).
    assert (Avi : A vi).
    { right. right. exists svv. split; [rewrite <- Hsrv, Esv; apply in_or_app; right; left; reflexivity|exact Hcust]. }
    destruct f as [|f']; [discriminate H|]. eapply (fr_preempt_stay cf d A f' vi c ncd Hnc H4 Avi Ac); [exact HI6|exact H].
  Qed.

  (* the exit: the customer's record is deleted, the exit counters move, nothing else *)
  Lemma find_del_ind i : forall l k, k <> i -> find_ind k (del_ind_l i l) = find_ind k l.
  Proof.
    induction l as [|y r IH]; intros k Hk; cbn; [reflexivity|]. destruct (i_id y =? i) eqn:E; cbn.
    - apply Z.eqb_eq in E. destruct (i_id y =? k) eqn:E2; [apply Z.eqb_eq in E2; congruence|reflexivity].
    - destruct (i_id y =? k); [reflexivity|apply IH; exact Hk].
  Qed.
  Lemma exit_accept_local v c s u s' : exit_accept v c s = Ok (u, s') ->
    nodes s' = nodes s /\ now s' = now s /\ log s' = log s /\ dr s' = dr s /\ (forall k, k <> v -> find_ind k (inds s') = find_ind k (inds s)) /\
    exit_ids s' = exit_ids s ++ [v] /\ exit_n s' = exit_n s + 1 /\ exit_completed s' = exit_completed s + (if c then 1 else 0).
  Proof.
    unfold exit_accept, del_ind. intros H. apply bind_ok in H as (u1 & s1 & E & H). apply modify_ok in E. apply modify_ok in H. subst s' s1.
    cbn. repeat split. intros k Hk. apply find_del_ind. exact Hk.
  Qed.
End Local.

(* ================= Part 4: the victim goes to the exit or to another node ================= *)
Section Elsewhere.
  Variable cf : config.

  Lemma handed_state_facts sr lg R vr ndj j v : Idx sr -> node_at sr j <> None -> n_id ndj = j -> i_id vr = v ->
    let s1 := handed_state sr lg R vr ndj in
    (forall k, node_at s1 k = if k =? j then Some ndj else node_at sr k) /\
    (forall k, find_ind k (inds s1) = if k =? v then Some (left_ind (vr <| i_nrec := i_nrec vr + 1 |>)) else find_ind k (inds sr)) /\
    now s1 = now sr /\ log s1 = lg ++ [R] /\ dr s1 = dr sr /\ exit_ids s1 = exit_ids sr /\ exit_n s1 = exit_n sr /\ exit_completed s1 = exit_completed sr.
  Proof.
    intros HI Hne Hj Hv. cbv zeta. unfold handed_state. split.
    { intros k. rewrite node_at_set_ind. rewrite node_at_set_node by (rewrite Hj; exact Hne). rewrite Hj. reflexivity. }
    split; [|repeat split].
    intros k. rewrite find_set_ind. rewrite left_ind_id. change (i_id (vr <| i_nrec := i_nrec vr + 1 |>)) with (i_id vr). rewrite Hv. reflexivity.
  Qed.

  Lemma srv_upd_put sid f l sv b : find_server sid l = Some sv -> sv_id b = sid -> sv_id (f b) = sv_id b ->
    srv_upd sid f (put_server_l b l) = put_server_l (f b) l.
  Proof. intros Hs Hb Hf. unfold srv_upd. rewrite (find_put_server sid l sv b Hs Hb). apply put_put_server. exact Hf. Qed.

  Lemma departed_started nd p q' sid i t st x sv : find_server sid (n_servers nd) = Some sv ->
    let ndD := departed nd p q' (detached t x sv) in
    ecc_node (ndD <| n_servers := srv_upd sid (serving i t st) (n_servers ndD) |> <| n_insvc := n_insvc ndD |>) =
    ecc_node (departed nd p q' (serving i t st (detached t x sv))).
  Proof.
    intros Hs. cbv zeta. change (n_servers (departed nd p q' (detached t x sv))) with (put_server_l (detached t x sv) (n_servers nd)).
    rewrite (srv_upd_put sid _ _ sv _ Hs) by (first [exact (find_server_id _ _ _ Hs)|reflexivity]).
    unfold departed. destruct nd. reflexivity.
  Qed.

  Definition RelExit (s s' : sim) : Prop := exit_ids s' = exit_ids s /\ exit_n s' = exit_n s /\ exit_completed s' = exit_completed s.
  Lemma start_preemptor_exit j i sid s u s' : start_preemptor cf j i sid s = Ok (u, s') -> RelExit s s'.
  Proof.
    apply (Samples2.kr_start_preemptor RelExit); first [ (intros; repeat split; reflexivity) | idtac ].
    intros a b c (A1 & A2 & A3) (B1 & B2 & B3). repeat split; congruence.
  Qed.

  Lemma next_node_for_exit mode j i s d s' : next_node_for cf mode j i s = Ok (d, s') -> RelExit s s'.
  Proof.
    apply (Samples2.kr_next_node_for RelExit); first [ (intros; repeat split; reflexivity) | idtac ].
    intros a b c (A1 & A2 & A3) (B1 & B2 & B3). repeat split; congruence.
  Qed.

  (* (4), the victim is sent to the EXIT.  Everything is explicit: one record; the victim is handed to the exit node (counted as
     completed); node j has lost it and its server now serves the pre-emptor; the pre-emptor is started from its record in s with the
     service time `given` prescribes from the unread service draws of s; no other node and no other customer changes. *)
  Theorem preempt_reroute_to_exit fu j v i s s' nc vx x nd sid sv sr :
    preempt cf (S (S fu)) j v i s = Ok (tt, s') -> Idx s -> v <> i ->
    cfg_at cf j = Some nc -> nc_preempt nc = 4 -> nc_slotted nc = false ->
    find_ind v (inds s) = Some vx -> find_ind i (inds s) = Some x -> node_at s j = Some nd -> nd_inf nd = false ->
    i_server vx = Some sid -> find_server sid (n_servers nd) = Some sv -> sv_offduty sv = false ->
    next_node_for cf 1 j v (set_ind (vx <| i_ost := i_stime vx |>) s) = Ok (-1, sr) ->
    exists ro q q' st,
      let vr := vx <| i_ost := i_stime vx |> <| i_route := ro |> in
      nthZ (n_queues nd) (i_pprio vx) = Some q /\ remove_first v q = Some q' /\
      given x (d_svc (dr s)) = Some (st, d_svc (dr s')) /\ now s' = now s /\ Idx s' /\
      log s' = log s ++ [int_rec j (now s) vr (Some (-1)) (Some sid)] /\
      exit_ids s' = exit_ids s ++ [v] /\ exit_n s' = exit_n s + 1 /\ exit_completed s' = exit_completed s + 1 /\
      oind s' i = Some (ecc_ind (started sid (now s) st x)) /\
      (forall k, k <> v -> k <> i -> oind s' k = oind s k) /\
      onode s' j = Some (ecc_node (departed nd (i_pprio vx) q' (serving i (now s) st (detached (now s) (vr <| i_exit := Some (now s) |>) sv)))) /\
      (forall k, k <> j -> onode s' k = onode s k).
  Proof.
    intros H HI Hvi Hnc Hp4 Hsl Hvx Hx Hn Hinf Hsid Hsv Hoff En'.
    destruct (preempt_reroute_spec _ _ _ _ _ _ _ _ _ _ _ _ H HI Hnc Hp4 Hsl Hvx Hn Hinf Hsid Hsv Hoff)
      as (d & sr0 & ro & q & q' & s1 & s2 & xi & nd2 & st & En & Nr & Tr & Lr & Dr & Hvr & Fr & Hq & Hq' & E1 & Hacc & Hst & HI1 & HI2 & T2 & Hxi & Hn2 & Hg & T3 & L3 & HI3 & O3 & N3).
    cbv zeta in *. rewrite En' in En. injection En as <- <-. change (-1 =? -1) with true in Hacc. cbv iota in Hacc.
    set (vr := vx <| i_ost := i_stime vx |> <| i_route := ro |>) in *.
    set (D := detached (now s) (vr <| i_exit := Some (now s) |>) sv) in *.
    pose proof (find_ind_id _ _ _ Hvx) as Hvid. pose proof (HI _ _ Hn) as Hnid.
    assert (HIr : Idx sr) by (apply (Idx_nodes _ s); assumption).
    assert (Hner : node_at sr j <> None) by (unfold node_at in *; rewrite Nr, Hn; discriminate).
    destruct (handed_state_facts sr (log s) (int_rec j (now s) vr (Some (-1)) (Some sid)) vr (departed nd (i_pprio vx) q' D) j v HIr Hner Hnid Hvid)
      as (N1 & F1 & T1 & L1 & D1 & X1 & X2 & X3). cbv zeta in N1, F1, T1, L1, D1, X1, X2, X3. rewrite <- E1 in N1, F1, T1, L1, D1, X1, X2, X3.
    destruct (exit_accept_local _ _ _ _ _ Hacc) as (Ne & Te & Le & De & Fe & Y1 & Y2 & Y3).
    destruct (start_preemptor_exit _ _ _ _ _ _ Hst) as (Z1 & Z2 & Z3).
    assert (Eiv : (i =? v) = false) by (apply Z.eqb_neq; congruence).
    assert (Hxi' : xi = x).
    { rewrite Fe in Hxi by congruence. rewrite F1, Eiv, Fr in Hxi by congruence. rewrite Hx in Hxi. injection Hxi as <-. reflexivity. }
    subst xi.
    assert (Hnd2 : nd2 = departed nd (i_pprio vx) q' D).
    { unfold node_at in Hn2, N1. rewrite Ne in Hn2. specialize (N1 j). rewrite Z.eqb_refl in N1. rewrite N1 in Hn2. injection Hn2 as <-. reflexivity. }
    subst nd2.
    exists ro, q, q', st. cbv zeta. fold vr. fold D.
    split; [exact Hq|]. split; [exact Hq'|]. split; [rewrite <- Dr, <- D1, <- De; exact Hg|]. split; [exact T3|]. split; [exact HI3|].
    split; [rewrite L3, Le, L1; reflexivity|].
    destruct (next_node_for_exit _ _ _ _ _ _ En') as (W1 & W2 & W3).
    change (exit_ids sr = exit_ids s) in W1. change (exit_n sr = exit_n s) in W2. change (exit_completed sr = exit_completed s) in W3.
    split; [rewrite Z1, Y1, X1, W1; reflexivity|]. split; [rewrite Z2, Y2, X2, W2; reflexivity|]. split; [rewrite Z3, Y3, X3, W3; reflexivity|].
    split; [rewrite O3, Z.eqb_refl; reflexivity|].
    split.
    { intros k Hkv Hki. rewrite O3. apply Z.eqb_neq in Hki. rewrite Hki. unfold oind. rewrite (Fe k Hkv), F1. apply Z.eqb_neq in Hkv. rewrite Hkv.
      apply Z.eqb_neq in Hkv. rewrite (Fr k Hkv). reflexivity. }
    split.
    { rewrite N3, Z.eqb_refl. f_equal. apply departed_started. exact Hsv. }
    intros k Hk. rewrite N3. apply Z.eqb_neq in Hk. rewrite Hk. unfold onode, node_at. rewrite Ne. fold (node_at s1 k). rewrite N1, Hk.
    unfold node_at. rewrite Nr. reflexivity.
  Qed.

  (* (4), the victim is sent to ANOTHER node d which has no reroute pre-emption of its own (any other option, or none).  Capacity of d is
     not looked at.  Node j after the call is `departed` with the victim's server handed to the pre-emptor; no node other than j and d
     changes; apart from the victim and the pre-emptor, no customer changes unless it is at node d (queued there or in service there,
     ndd = node d when preempt is called); the pre-emptor, unless it is itself at node d, is started from its record in s. *)
  Theorem preempt_reroute_to_other_node fu j v i s s' nc vx x nd sid sv d sr ncd ndd :
    preempt cf (S (S fu)) j v i s = Ok (tt, s') -> Idx s -> v <> i ->
    cfg_at cf j = Some nc -> nc_preempt nc = 4 -> nc_slotted nc = false ->
    find_ind v (inds s) = Some vx -> find_ind i (inds s) = Some x -> node_at s j = Some nd -> nd_inf nd = false ->
    i_server vx = Some sid -> find_server sid (n_servers nd) = Some sv -> sv_offduty sv = false ->
    next_node_for cf 1 j v (set_ind (vx <| i_ost := i_stime vx |>) s) = Ok (d, sr) ->
    d <> j -> cfg_at cf d = Some ncd -> nc_preempt ncd <> 4 -> node_at s d = Some ndd ->
    exists ro q q' s1 s2 xi st,
      let vr := vx <| i_ost := i_stime vx |> <| i_route := ro |> in
      let D := detached (now s) (vr <| i_exit := Some (now s) |>) sv in
      nthZ (n_queues nd) (i_pprio vx) = Some q /\ remove_first v q = Some q' /\
      s1 = handed_state sr (log s) (int_rec j (now s) vr (Some d) (Some sid)) vr (departed nd (i_pprio vx) q' D) /\
      node_at s1 d = Some ndd /\ accept cf fu d v s1 = Ok (tt, s2) /\
      node_at s2 j = Some (departed nd (i_pprio vx) q' D) /\
      (forall k, k <> d -> k <> j -> node_at s2 k = node_at s k) /\
      (forall k, k <> v -> ~ at_node ndd k -> find_ind k (inds s2) = find_ind k (inds s)) /\
      find_ind i (inds s2) = Some xi /\ (~ at_node ndd i -> xi = x) /\
      given xi (d_svc (dr s2)) = Some (st, d_svc (dr s')) /\ now s' = now s /\ Idx s' /\ log s' = log s2 /\
      oind s' i = Some (ecc_ind (started sid (now s) st xi)) /\
      (forall k, k <> i -> oind s' k = oind s2 k) /\
      (forall k, k <> v -> k <> i -> ~ at_node ndd k -> oind s' k = oind s k) /\
      onode s' j = Some (ecc_node (departed nd (i_pprio vx) q' (serving i (now s) st D))) /\
      (forall k, k <> j -> onode s' k = onode s2 k) /\
      (forall k, k <> j -> k <> d -> onode s' k = onode s k).
  Proof.
    intros H HI Hvi Hnc Hp4 Hsl Hvx Hx Hn Hinf Hsid Hsv Hoff En' Hdj Hncd Hd4 Hnd.
    destruct (preempt_reroute_spec _ _ _ _ _ _ _ _ _ _ _ _ H HI Hnc Hp4 Hsl Hvx Hn Hinf Hsid Hsv Hoff)
      as (d0 & sr0 & ro & q & q' & s1 & s2 & xi & nd2 & st & En & Nr & Tr & Lr & Dr & Hvr & Fr & Hq & Hq' & E1 & Hacc & Hst & HI1 & HI2 & T2 & Hxi & Hn2 & Hg & T3 & L3 & HI3 & O3 & N3).
    cbv zeta in *. rewrite En' in En. injection En as <- <-.
    assert (Hd1 : (d =? -1) = false).
    { apply Z.eqb_neq. intros ->. unfold node_at in Hnd. change (-1 <? 1) with true in Hnd. discriminate Hnd. }
    rewrite Hd1 in Hacc.
    set (vr := vx <| i_ost := i_stime vx |> <| i_route := ro |>) in *.
    set (D := detached (now s) (vr <| i_exit := Some (now s) |>) sv) in *.
    pose proof (find_ind_id _ _ _ Hvx) as Hvid. pose proof (HI _ _ Hn) as Hnid.
    assert (HIr : Idx sr) by (apply (Idx_nodes _ s); assumption).
    assert (Hner : node_at sr j <> None) by (unfold node_at in *; rewrite Nr, Hn; discriminate).
    destruct (handed_state_facts sr (log s) (int_rec j (now s) vr (Some d) (Some sid)) vr (departed nd (i_pprio vx) q' D) j v HIr Hner Hnid Hvid)
      as (N1 & F1 & T1 & L1 & D1 & _). cbv zeta in N1, F1, T1, L1, D1. rewrite <- E1 in N1, F1, T1, L1, D1.
    assert (Ejd : (d =? j) = false) by (apply Z.eqb_neq; exact Hdj).
    assert (Hnd1 : node_at s1 d = Some ndd) by (rewrite N1, Ejd; unfold node_at in *; rewrite Nr; exact Hnd).
    destruct (accept_local cf _ _ _ _ _ _ _ _ HI1 Hncd Hd4 Hnd1 Hacc) as (_ & Na & Fa).
    assert (Hjd : j <> d) by congruence.
    assert (Hnd2 : nd2 = departed nd (i_pprio vx) q' D).
    { rewrite (Na j Hjd), N1, Z.eqb_refl in Hn2. injection Hn2 as <-. reflexivity. }
    subst nd2.
    assert (Fs : forall k, k <> v -> ~ at_node ndd k -> find_ind k (inds s2) = find_ind k (inds s)).
    { intros k Hkv Hka. rewrite Fa by (intros [Hk|Hk]; contradiction). rewrite F1. pose proof Hkv as Hkv'. apply Z.eqb_neq in Hkv'. rewrite Hkv'.
      apply Fr. exact Hkv. }
    exists ro, q, q', s1, s2, xi, st. cbv zeta. fold vr. fold D.
    split; [exact Hq|]. split; [exact Hq'|]. split; [exact E1|]. split; [exact Hnd1|]. split; [exact Hacc|]. split; [exact Hn2|].
    split. { intros k Hkd Hkj. rewrite (Na k Hkd), N1. apply Z.eqb_neq in Hkj. rewrite Hkj. unfold node_at. rewrite Nr. reflexivity. }
    split; [exact Fs|]. split; [exact Hxi|].
    split. { intros Hni. rewrite Fs in Hxi by congruence. rewrite Hx in Hxi. injection Hxi as <-. reflexivity. }
    split; [exact Hg|]. split; [exact T3|]. split; [exact HI3|]. split; [exact L3|].
    split; [rewrite O3, Z.eqb_refl; reflexivity|].
    split. { intros k Hk. rewrite O3. apply Z.eqb_neq in Hk. rewrite Hk. reflexivity. }
    split. { intros k Hkv Hki Hka. rewrite O3. apply Z.eqb_neq in Hki. rewrite Hki. unfold oind. rewrite (Fs k Hkv Hka). reflexivity. }
    split. { rewrite N3, Z.eqb_refl. f_equal. apply departed_started. exact Hsv. }
    split. { intros k Hk. rewrite N3. apply Z.eqb_neq in Hk. rewrite Hk. reflexivity. }
    intros k Hkj Hkd. rewrite N3. pose proof Hkj as Hkj'. apply Z.eqb_neq in Hkj'. rewrite Hkj'. unfold onode. rewrite (Na k Hkd), N1, Hkj'.
    unfold node_at. rewrite Nr. reflexivity.
  Qed.
End Elsewhere.

(* (3) field by field: whatever the destination does with the victim, after the call the pre-emptor holds the victim's server, started now *)
Lemma started_fields sid t st x :
  i_id (started sid t st x) = i_id x /\ i_server (started sid t st x) = Some sid /\ i_sst (started sid t st x) = Some t /\
  i_stime (started sid t st x) = Some st /\ i_send (started sid t st x) = Some (t + st) /\ i_smark (started sid t st x) = 0 /\
  i_node (started sid t st x) = i_node x.
Proof. destruct x. repeat split. Qed.
Corollary preempt_reroute_preemptor_after cf fu j v i s s' nc vx nd sid sv :
  preempt cf (S (S fu)) j v i s = Ok (tt, s') -> Idx s ->
  cfg_at cf j = Some nc -> nc_preempt nc = 4 -> nc_slotted nc = false ->
  find_ind v (inds s) = Some vx -> node_at s j = Some nd -> nd_inf nd = false ->
  i_server vx = Some sid -> find_server sid (n_servers nd) = Some sv -> sv_offduty sv = false ->
  exists st xi', find_ind i (inds s') = Some xi' /\ i_server xi' = Some sid /\ i_sst xi' = Some (now s) /\ i_stime xi' = Some st /\
    i_smark xi' = 0 /\ i_send xi' = Some (now s + st) /\ now s' = now s.
Proof.
  intros H HI Hnc Hp4 Hsl Hvx Hn Hinf Hsid Hsv Hoff.
  destruct (preempt_reroute_spec _ _ _ _ _ _ _ _ _ _ _ _ H HI Hnc Hp4 Hsl Hvx Hn Hinf Hsid Hsv Hoff)
    as (d & sr & ro & q & q' & s1 & s2 & xi & nd2 & st & _ & _ & _ & _ & _ & _ & _ & _ & _ & _ & _ & _ & _ & _ & _ & _ & _ & _ & T3 & _ & _ & O3 & _).
  specialize (O3 i). rewrite Z.eqb_refl in O3. apply oind_some in O3 as (xi' & Hf & E). apply ecc_fields in E.
  destruct E as (_ & E2 & E3 & E4 & E5 & E6 & _). destruct (started_fields sid (now s) st xi) as (_ & S2 & S3 & S4 & S5 & S6 & _).
  exists st, xi'. split; [exact Hf|]. repeat split; congruence.
Qed.

(* ================= Part 5: closed examples ================= *)
Definition dflt_ind : ind := new_ind 0 0 0 None.
Definition the_ind (i : Z) (s : sim) : ind := match find_ind i (inds s) with Some x => x | None => dflt_ind end.
Definition the_node (j : Z) (s : sim) : node := match node_at s j with Some nd => nd | None => ex_node 0 end.
Definition the_srv (sid : Z) (nd : node) : server := match find_server sid (n_servers nd) with Some sv => sv | None => mkServer 0 None false None 0 None 0 false 0 None end.
Definition st_of {X} (r : res (X * sim)) (dflt : sim) : sim := match r with Ok (_, s) => s | _ => dflt end.

(* ---- (5) REFUTED for d = j (finding F-11a, known).  Order2's one-node network: node 1, one server, reroute pre-emption, every class
   routed 1 -> 1; customer 1 (priority 1) in service since t = 1, customer 2 (priority 0) arrives at t = 2 and pre-empts.  The
   rerouting answer is node 1 itself: the victim's release frees the server, its re-acceptance at node 1 makes the discipline's choice
   -- the pre-emptor -- and starts it on that server (first service draw), and preempt() then starts the pre-emptor again.  So the
   conclusions of preempt_reroute_to_other_node fail when d = j: in s2 the pre-emptor is not its record of s any more (it is in
   service), node j is not `departed` (the victim is back in its queue, population 2, the server is busy). ---- *)
Definition r_cf : config := Order2.f11_cf.
Definition r_s : sim := Order2.f11_sp.
Definition r_vx : ind := Eval vm_compute in the_ind 1 r_s.
Definition r_x : ind := Eval vm_compute in the_ind 2 r_s.
Definition r_nd : node := Eval vm_compute in the_node 1 r_s.
Definition r_sv : server := Eval vm_compute in the_srv 1 r_nd.
Definition r_sr : sim := Eval vm_compute in st_of (next_node_for r_cf 1 1 1 (set_ind (r_vx <| i_ost := i_stime r_vx |>) r_s)) r_s.
Definition r_vr : ind := r_vx <| i_ost := i_stime r_vx |> <| i_route := None |>.
Definition r_s1 : sim := Eval vm_compute in
  handed_state r_sr (log r_s) (int_rec 1 (now r_s) r_vr (Some 1) (Some 1)) r_vr
    (departed r_nd (i_pprio r_vx) [] (detached (now r_s) (r_vr <| i_exit := Some (now r_s) |>) r_sv)).
Definition r_s2 : sim := Eval vm_compute in st_of (accept r_cf 50 1 1 r_s1) r_s1.
Definition r_s' : sim := Eval vm_compute in st_of (start_preemptor r_cf 1 2 1 r_s2) r_s2.
Definition r_xi : ind := Eval vm_compute in the_ind 2 r_s2.
Definition r_nd2 : node := Eval vm_compute in the_node 1 r_s2.
Definition r_sv2 : server := Eval vm_compute in the_srv 1 r_nd2.

Theorem reroute_same_node_refuted :
  exists cf fu j v i s s' nc vx x nd sid sv sr s1 s2 xi nd2 sv2,
    (* the hypotheses of preempt_reroute_spec / preempt_reroute_to_other_node, except d <> j *)
    preempt cf (S (S fu)) j v i s = Ok (tt, s') /\ Idx_b s = true /\ v <> i /\
    cfg_at cf j = Some nc /\ nc_preempt nc = 4 /\ nc_slotted nc = false /\
    find_ind v (inds s) = Some vx /\ find_ind i (inds s) = Some x /\ node_at s j = Some nd /\ nd_inf nd = false /\
    i_server vx = Some sid /\ find_server sid (n_servers nd) = Some sv /\ sv_offduty sv = false /\
    (* the rerouting answer is the node itself *)
    next_node_for cf 1 j v (set_ind (vx <| i_ost := i_stime vx |>) s) = Ok (j, sr) /\
    (* the decomposition of preempt_reroute_spec *)
    (let vr := vx <| i_ost := i_stime vx |> <| i_route := None |> in
     s1 = handed_state sr (log s) (int_rec j (now s) vr (Some j) (Some sid)) vr
            (departed nd (i_pprio vx) [] (detached (now s) (vr <| i_exit := Some (now s) |>) sv))) /\
    accept cf fu j v s1 = Ok (tt, s2) /\ start_preemptor cf j i sid s2 = Ok (tt, s') /\
    (* the pre-emptor waited when preempt was called ... *)
    i_server x = None /\ i_sst x = None /\
    (* ... and is in service already, on the victim's server, when preempt comes to start it; the victim is back at node j *)
    find_ind i (inds s2) = Some xi /\ i_server xi = Some sid /\ i_sst xi = Some (now s) /\ xi <> x /\
    node_at s2 j = Some nd2 /\ find_server sid (n_servers nd2) = Some sv2 /\ sv_cust sv2 = Some i /\ sv_busy sv2 = true /\
    In v (all_individuals nd2) /\ (forall q' D, nd2 <> departed nd (i_pprio vx) q' D).
Proof.
  exists r_cf, 50%nat, 1, 1, 2, r_s, r_s', Order2.f11_nc, r_vx, r_x, r_nd, 1, r_sv, r_sr, r_s1, r_s2, r_xi, r_nd2, r_sv2.
  split; [vm_compute; reflexivity|]. split; [vm_compute; reflexivity|]. split; [lia|].
  split; [vm_compute; reflexivity|]. split; [reflexivity|]. split; [reflexivity|].
  split; [vm_compute; reflexivity|]. split; [vm_compute; reflexivity|]. split; [vm_compute; reflexivity|]. split; [reflexivity|].
  split; [reflexivity|]. split; [vm_compute; reflexivity|]. split; [reflexivity|].
  split; [vm_compute; reflexivity|]. split; [vm_compute; reflexivity|].
  split; [vm_compute; reflexivity|]. split; [vm_compute; reflexivity|].
  split; [reflexivity|]. split; [reflexivity|].
  split; [vm_compute; reflexivity|]. split; [reflexivity|]. split; [reflexivity|].
  split; [intros E; apply (f_equal i_server) in E; discriminate E|].
  split; [vm_compute; reflexivity|]. split; [vm_compute; reflexivity|]. split; [reflexivity|]. split; [reflexivity|].
  split; [vm_compute; right; left; reflexivity|].
  intros q' D E. apply (f_equal n_pop) in E. vm_compute in E. discriminate E.
Qed.
(* Order2's formulation of the same finding ("a customer whose service starts was waiting" fails), re-exported *)
Definition preemptor_started_twice_refuted := Order2.preemptor_started_twice_refuted.

(* ---- the good case: three nodes, one server each; node 1 has reroute pre-emption, nodes 2 and 3 none; class 0 (priority 0) is routed
   1 -> 2 -> exit, class 1 (priority 1) is routed 1 -> 3 -> exit.  Customer 1 (class 1) arrives at node 1 at t = 1 and starts a
   service of 100; customer 2 (class 0) arrives at node 1 at t = 2 and pre-empts it: customer 1 is rerouted to node 3, where a
   server is free and it starts a service of 30 (first draw); customer 2 starts on server 1 of node 1 with 40 (second draw). ---- *)
Definition ncG (p : Z) : ncfg := mkNcfg None None 0 SFixed p false [false; false] 0.
Definition cfG : config :=
  mkCfg 2 [ncG 4; ncG 0; ncG 0] [0; 1] 2 None [RtNR [RDirect 2; RLeave; RLeave]; RtNR [RDirect 3; RLeave; RLeave]]
    [[None; None; None]; [None; None; None]] false [[false; false]; [false; false]].
Definition sG0 : sim :=
  mkSim 1 0 (mkArr 0 0 [[Some 2; Some 1]; [None; None]; [None; None]] 1 1 (Some 1)) [ex_node 1; ex_node 2; ex_node 3] [] 0 0 []
    (mkDraws [] [] [] [] [] []) [] [[0; 0; 0]; [0; 0; 0]].
Definition dG1 : draws := mkDraws [1000] [1] [100] [] [] [].
Definition dG2 : draws := mkDraws [1000] [1] [30; 40] [] [] [].
Definition sG1 : sim := Eval vm_compute in match run_many cfG sG0 [dG1] with Ok s => s | _ => sG0 end.
(* the state in which accept(node 1, customer 2) is entered during the second event, and the state in which it calls preempt *)
Definition sGacc : sim := sG1 <| dr := dG2 |> <| inds := put_ind_l (new_ind 2 0 0 None) (inds sG1) |>.
Definition sGp : sim := Eval vm_compute in st_of (Route2.accept_body cfG (fun _ _ _ => ret tt) 1 2 sGacc) sGacc.
Definition g_vx : ind := Eval vm_compute in the_ind 1 sGp.
Definition g_x : ind := Eval vm_compute in the_ind 2 sGp.
Definition g_nd : node := Eval vm_compute in the_node 1 sGp.
Definition g_nd3 : node := Eval vm_compute in the_node 3 sGp.
Definition g_sv : server := Eval vm_compute in the_srv 1 g_nd.
Definition sGr : sim := Eval vm_compute in st_of (next_node_for cfG 1 1 1 (set_ind (g_vx <| i_ost := i_stime g_vx |>) sGp)) sGp.
Definition sG' : sim := Eval vm_compute in st_of (preempt cfG 52 1 1 2 sGp) sGp.

Example good_case_hypotheses :
  Idx_b sGp = true /\ preempt_victim cfG 1 2 sGp = Ok (Some 1, sGp) /\ preempt cfG 52 1 1 2 sGp = Ok (tt, sG') /\
  cfg_at cfG 1 = Some (ncG 4) /\ find_ind 1 (inds sGp) = Some g_vx /\ find_ind 2 (inds sGp) = Some g_x /\ node_at sGp 1 = Some g_nd /\
  nd_inf g_nd = false /\ i_server g_vx = Some 1 /\ find_server 1 (n_servers g_nd) = Some g_sv /\ sv_offduty g_sv = false /\
  next_node_for cfG 1 1 1 (set_ind (g_vx <| i_ost := i_stime g_vx |>) sGp) = Ok (3, sGr) /\
  cfg_at cfG 3 = Some (ncG 0) /\ node_at sGp 3 = Some g_nd3 /\ all_individuals g_nd3 = [] /\ map sv_cust (n_servers g_nd3) = [None] /\
  Route2.routing_ok_b cfG = true /\ Route2.upos_b sGp = true.
Proof. vm_compute. repeat split; reflexivity. Qed.

(* the theorems applied to it: node 2 and every customer other than 1 and 2 are exactly as before, up to class-change bookkeeping
   (nobody is at node 3 when preempt is called), and the destination 3 is one the routing specification allows *)
Example good_case_theorems :
  onode sG' 2 = onode sGp 2 /\ (forall k, k <> 1 -> k <> 2 -> oind sG' k = oind sGp k) /\
  (exists R rest, log sG' = log sGp ++ R :: rest /\ r_type R = 1 /\ r_id R = 1 /\ r_node R = 1 /\ r_dest R = Some 3 /\ r_exit R = Some 2 /\
                  r_sst R = Some 1 /\ r_stime R = Some 100).
Proof.
  destruct good_case_hypotheses as (HIb & _ & Hp & Hnc & Hvx & Hx & Hn & Hinf & Hsid & Hsv & Hoff & En & Hnc3 & Hn3 & Hq3 & Hs3 & _ & _).
  pose proof (Idx_b_sound _ HIb) as HI.
  assert (Hno : forall k, ~ at_node g_nd3 k).
  { intros k [Hk|(sv & Hin & Hc)]; [rewrite Hq3 in Hk; destruct Hk|].
    assert (Hm : In (sv_cust sv) (map sv_cust (n_servers g_nd3))) by (apply in_map; exact Hin).
    rewrite Hs3, Hc in Hm. destruct Hm as [Hm|[]]. discriminate Hm. }
  destruct (preempt_reroute_to_other_node cfG 50 1 1 2 sGp sG' (ncG 4) g_vx g_x g_nd 1 g_sv 3 sGr (ncG 0) g_nd3
              Hp HI ltac:(lia) Hnc eq_refl eq_refl Hvx Hx Hn Hinf Hsid Hsv Hoff En ltac:(lia) Hnc3 ltac:(cbn; lia) Hn3)
    as (ro & q & q' & s1 & s2 & xi & st & _ & _ & _ & _ & _ & _ & _ & _ & _ & _ & _ & _ & _ & _ & _ & _ & Ho & _ & _ & Hnn).
  cbv zeta in Ho, Hnn.
  split; [apply Hnn; lia|]. split; [intros k H1 H2; apply Ho; [exact H1|exact H2|apply Hno]|].
  destruct (preempt_reroute_record cfG 50 1 1 2 sGp sG' (ncG 4) g_vx g_nd 1 g_sv Hp HI Hnc eq_refl eq_refl Hvx Hn Hinf Hsid Hsv Hoff)
    as (d & sr & R & rest & En2 & HL & R1 & R2 & R3 & R4 & R5 & _ & R7 & R8 & _).
  rewrite En in En2. injection En2 as <- <-. exists R, rest. repeat (split; [assumption|]). exact R8.
Qed.

(* ... and the state after the call, read directly: one interruption record with the destination; the victim in service at node 3
   (start 2, service time 30 = the first draw); the pre-emptor on server 1 of node 1 (start 2, 40 = the second draw, end 42); node 1 has
   lost the victim, its server has been credited 2 - 1 = 1 time unit of busy time and serves customer 2; node 2 is untouched.
   (number_in_service of node 1 reads 0 with customer 2 in service: release decrements it, preempt does not bump it -- finding F-09b, known.) *)
Definition oeqb (o : option Z) (z : Z) : bool := match o with Some y => y =? z | None => false end.
Definition good_check (s : sim) : bool :=
  Idx_b s &&
  (match log s with
   | [R] => (r_type R =? 1) && (r_id R =? 1) && (r_node R =? 1) && oeqb (r_dest R) 3 && oeqb (r_exit R) 2 && oeqb (r_sst R) 1 && oeqb (r_stime R) 100 && oeqb (r_server R) 1
   | _ => false end) &&
  (let v := the_ind 1 s in oeqb (i_node v) 3 && oeqb (i_server v) 1 && oeqb (i_sst v) 2 && oeqb (i_stime v) 30 && oeqb (i_send v) 32 && oeqb (i_ost v) 100 && (i_nrec v =? 1)) &&
  (let p := the_ind 2 s in oeqb (i_node p) 1 && oeqb (i_server p) 1 && oeqb (i_sst p) 2 && oeqb (i_stime p) 40 && oeqb (i_send p) 42) &&
  (let n1 := the_node 1 s in let sv := the_srv 1 n1 in
   (n_pop n1 =? 1) && (n_insvc n1 =? 0) && (length (all_individuals n1) =? 1)%nat && oeqb (sv_cust sv) 2 && sv_busy sv && (sv_busy_time sv =? 1) && oeqb (sv_next_end sv) 42) &&
  (let n3 := the_node 3 s in let sv := the_srv 1 n3 in
   (n_pop n3 =? 1) && (n_insvc n3 =? 1) && oeqb (sv_cust sv) 1 && sv_busy sv && oeqb (sv_next_end sv) 32) &&
  (let n2 := the_node 2 s in (n_pop n2 =? 0) && (length (all_individuals n2) =? 0)%nat).
Example good_case_state : good_check sG' = true.
Proof. vm_compute. reflexivity. Qed.
(* the same through two whole events from the empty system *)
Example good_case_run : match run_many cfG sG0 [dG1; dG2] with Ok s => good_check s | _ => false end = true.
Proof. vm_compute. reflexivity. Qed.

Print Assumptions release_reroute_ok.
Print Assumptions preempt_reroute_spec.
Print Assumptions preempt_reroute_record.
Print Assumptions preempt_reroute_dest.
Print Assumptions accept_local.
Print Assumptions exit_accept_local.
Print Assumptions preempt_reroute_to_exit.
Print Assumptions preempt_reroute_to_other_node.
Print Assumptions preempt_reroute_preemptor_after.
Print Assumptions reroute_same_node_refuted.
Print Assumptions preemptor_started_twice_refuted.
Print Assumptions good_case_hypotheses.
Print Assumptions good_case_theorems.
Print Assumptions good_case_state.
Print Assumptions good_case_run.

(* SysCap.v -- T2 for C06, system capacity: q = customers created - customers at the exit never exceeds the system
   capacity (with conservation, q is the number of customers in the service nodes: Conserve.WFx_means).
   q only goes up in the arrival node's batch loop, one customer at a time, and each of them is admitted only after the
   test "system population < system capacity"; every other engine function leaves q alone or lowers it. *)
From Coq Require Import ZArith List Bool Lia.
From RecordUpdate Require Import RecordUpdate.
From CiwV Require Import Sx Prelude Routing.
From CiwV.Engine Require Import State Engine Codec.
From CiwV.Inv Require Import Frame.
Import ListNotations.
Open Scope Z_scope.

Definition q (s : sim) : Z := a_created (arr s) - exit_n s.
Definition mono {A} (m : M A) : Prop := forall s a s', m s = Ok (a, s') -> q s' <= q s.

Lemma mono_ret {A} (a : A) : mono (ret a). Proof. intros s a0 s' H; inversion H; lia. Qed.
Lemma mono_fail {A} e : mono (@fail A e). Proof. intros s a s' H; discriminate. Qed.
Lemma mono_bind {A B} (m : M A) (f : A -> M B) : mono m -> (forall a, mono (f a)) -> mono (bind m f).
Proof.
  intros Hm Hf s b s' H. unfold bind in H. destruct (m s) as [[a s1]| |] eqn:E; try discriminate.
  specialize (Hm _ _ _ E). specialize (Hf a _ _ _ H). lia.
Qed.
Lemma mono_gets {A} (f : sim -> A) : mono (gets f). Proof. intros s a s' H; inversion H; lia. Qed.
Lemma mono_lift {A} e (o : option A) : mono (lift e o). Proof. destruct o; [apply mono_ret|apply mono_fail]. Qed.
Lemma mono_modify (f : sim -> sim) : (forall s, q (f s) <= q s) -> mono (modify f).
Proof. intros Hf s a s' H. inversion H. apply Hf. Qed.
Lemma mono_get_node j : mono (get_node j).
Proof. intros s a s' H. unfold get_node in H. destruct (nthZ (nodes s) (j - 1)); inversion H; lia. Qed.
Lemma mono_get_ind i : mono (get_ind i).
Proof. intros s a s' H. unfold get_ind in H. destruct (find_ind i (inds s)); inversion H; lia. Qed.
Lemma mono_put_node nd : mono (put_node nd). Proof. apply mono_modify. intros s. unfold q. cbn. lia. Qed.
Lemma mono_put_ind x : mono (put_ind x). Proof. apply mono_modify. intros s. unfold q. cbn. lia. Qed.
Lemma mono_del_ind i : mono (del_ind i). Proof. apply mono_modify. intros s. unfold q. cbn. lia. Qed.
Lemma mono_log_rec r : mono (log_rec r). Proof. apply mono_modify. intros s. unfold q. cbn. lia. Qed.
Lemma mono_draw_arr : mono draw_arr.
Proof. intros s a s' H. unfold draw_arr in H. destruct (d_arr (dr s)); inversion H. unfold q. cbn. lia. Qed.
Lemma mono_draw_batch : mono draw_batch.
Proof. intros s a s' H. unfold draw_batch in H. destruct (d_batch (dr s)); inversion H. unfold q. cbn. lia. Qed.
Lemma mono_draw_svc : mono draw_svc.
Proof. intros s a s' H. unfold draw_svc in H. destruct (d_svc (dr s)); inversion H. unfold q. cbn. lia. Qed.
Lemma mono_draw_unif : mono draw_unif.
Proof. intros s a s' H. unfold draw_unif in H. destruct (d_unif (dr s)); inversion H. unfold q. cbn. lia. Qed.

Ltac mono_step :=
  first
    [ apply mono_ret | apply mono_fail | apply mono_gets | apply mono_lift | apply mono_get_node | apply mono_get_ind
    | apply mono_put_node | apply mono_put_ind | apply mono_del_ind | apply mono_log_rec
    | apply mono_draw_arr | apply mono_draw_batch | apply mono_draw_svc | apply mono_draw_unif
    | (apply mono_bind; [|intros])
    | match goal with
      | |- mono (if ?b then _ else _) => destruct b
      | |- mono (match ?x with _ => _ end) => destruct x
      | |- mono (let '(_, _) := ?x in _) => destruct x
      end ].
Ltac mono_auto := repeat mono_step.

Section SysCap.
  Variable cf : config.

  Lemma mono_ncfg_of j : mono (ncfg_of cf j). Proof. apply mono_lift. Qed.
  Lemma mono_is_inf j : mono (is_inf cf j). Proof. unfold is_inf. apply mono_bind; [apply mono_ncfg_of|intros; apply mono_ret]. Qed.
  Lemma mono_choice_uniform {A} (l : list A) : mono (choice_uniform l).
  Proof. unfold choice_uniform. mono_auto. Qed.
  Lemma mono_choice_weighted den P : mono (choice_weighted den P).
  Proof. unfold choice_weighted. mono_auto. Qed.
  Lemma mono_choose_next_customer nd : mono (choose_next_customer cf nd).
  Proof. unfold choose_next_customer. mono_auto; try apply mono_ncfg_of; mono_auto; try apply mono_choice_uniform; mono_auto. Qed.
  Lemma mono_start_service j i srv : mono (start_service j i srv).
  Proof. unfold start_service. mono_auto. Qed.
  Lemma mono_bsip_accept j i : mono (begin_service_if_possible_accept cf j i).
  Proof.
    unfold begin_service_if_possible_accept.
    repeat first [ apply mono_is_inf | apply mono_choose_next_customer | apply mono_start_service | mono_step ].
  Qed.
  Lemma mono_accept j x : mono (accept cf j x).
  Proof. unfold accept. repeat first [ apply mono_bsip_accept | mono_step ]. Qed.
  Lemma mono_exit_accept x c : mono (exit_accept x c).
  Proof.
    unfold exit_accept. apply mono_bind; [apply mono_del_ind|]. intros _. apply mono_modify. intros s. unfold q. cbn. lia.
  Qed.
  Lemma mono_write_individual_record j x : mono (write_individual_record cf j x).
  Proof. unfold write_individual_record. repeat first [ apply mono_is_inf | mono_step ]. Qed.
  Lemma mono_write_br_record j x ty : mono (write_br_record j x ty).
  Proof. unfold write_br_record. mono_auto. Qed.
  Lemma mono_bsip_release j freed : mono (begin_service_if_possible_release cf j freed).
  Proof. unfold begin_service_if_possible_release. repeat first [ apply mono_choose_next_customer | apply mono_start_service | mono_step ]. Qed.
  Lemma mono_block_individual j i d : mono (block_individual j i d).
  Proof. unfold block_individual. mono_auto. Qed.

  Lemma mono_release : forall f j i d, mono (release cf f j i d).
  Proof.
    induction f as [|f IH]; intros j i d; cbn [release]; [intros s a s' H; discriminate|].
    repeat first [ apply IH | apply mono_is_inf | apply mono_ncfg_of | apply mono_write_individual_record | apply mono_bsip_release
                 | apply mono_exit_accept | apply mono_accept | mono_step ].
  Qed.

  Lemma mono_finish_service j : mono (finish_service cf j).
  Proof.
    unfold finish_service.
    repeat first [ apply mono_release | apply mono_block_individual | apply mono_is_inf | apply mono_ncfg_of | apply mono_choice_uniform
                 | apply mono_choice_weighted | mono_step ].
  Qed.

  Lemma mono_update_next_event_date j : mono (update_next_event_date cf j).
  Proof. unfold update_next_event_date. repeat first [ apply mono_is_inf | mono_step ]. Qed.
  Lemma mono_update_all js : mono (update_all cf js).
  Proof. induction js as [|j r IH]; cbn [update_all]; [apply mono_ret|]. apply mono_bind; [apply mono_update_next_event_date|intros; exact IH]. Qed.
  Lemma mono_find_next_event_date : mono find_next_event_date.
  Proof. apply mono_modify. intros s. destruct (find_min_dates 1 (a_dates (arr s)) (None, 0, 0)) as [[d j] c]. unfold q. cbn. lia. Qed.
  Lemma mono_find_next_active_node : mono find_next_active_node.
  Proof.
    unfold find_next_active_node. apply mono_bind; [apply mono_gets|]. intros s0.
    destruct (scan_active 0 (a_next_date (arr s0) :: map n_next_date (nodes s0)) None [] true) as [d cands].
    apply mono_bind; [destruct cands as [|a [|b r]]; [apply mono_fail|apply mono_ret|apply mono_choice_uniform]|].
    intros k. apply mono_modify. intros s. unfold q. cbn. lia.
  Qed.

  Definition Sysq (s : sim) : Prop := match cf_syscap cf with Some sc => q s <= sc | None => True end.

  Lemma exit_accept_dec x c s s' : exit_accept x c s = Ok (tt, s') -> q s' = q s - 1.
  Proof.
    unfold exit_accept, bind, del_ind, modify. intros H. inversion H. unfold q. cbn. lia.
  Qed.

  Ltac qs H lem :=
    match type of H with
    | bind ?m ?f ?s = Ok _ =>
      let a := fresh "a" in let s1 := fresh "s" in let E := fresh "E" in let M := fresh "M" in
      unfold bind in H at 1; destruct (m s) as [[a s1]| |] eqn:E; [|discriminate H|discriminate H];
      assert (M : q s1 <= q s) by (eapply lem; exact E)
    end.

  Lemma sys_population_spec s a s' : sys_population s = Ok (a, s') -> s' = s /\ a = q s - 1.
  Proof. unfold sys_population, bind, gets, ret. intros H. inversion H. split; [reflexivity|unfold q; lia]. Qed.
  Lemma mono_sys_population : mono sys_population.
  Proof. intros s a s' H. apply sys_population_spec in H as [-> _]. lia. Qed.

  (* the customer just created (already counted in q) is admitted only if the system had room for it *)
  Lemma release_individual_sys j x s s' :
    (forall sc, cf_syscap cf = Some sc -> q s - 1 <= sc) -> release_individual cf j x s = Ok (tt, s') -> Sysq s'.
  Proof.
    intros Hq H. unfold Sysq. destruct (cf_syscap cf) as [sc|] eqn:Esc; [|exact I]. specialize (Hq sc eq_refl).
    unfold release_individual in H.
    qs H mono_get_node. qs H mono_ncfg_of.
    match type of H with bind sys_population _ ?s0 = _ =>
      let sp := fresh "sp" in let sq := fresh "sq" in let Esp := fresh "Esp" in let Hs1 := fresh "Hs" in
      unfold bind in H at 1; destruct (sys_population s0) as [[sp sq]| |] eqn:Esp; [|discriminate H|discriminate H];
      apply sys_population_spec in Esp as [Hs1 Hsp]; rewrite Hs1 in * end.
    qs H mono_put_ind.
    match type of H with (if ?b then _ else _) _ = _ => destruct b eqn:Efull end.
    - qs H mono_write_br_record.
      match type of H with exit_accept _ _ _ = Ok (?u, _) => idtac end.
      pose proof (exit_accept_dec _ _ _ _ H) as D. lia.
    - apply orb_false_iff in Efull as [_ Esys]. rewrite Esc in Esys. apply Z.leb_gt in Esys.
      qs H @mono_lift. qs H @mono_lift.
      match type of H with (match ?t with _ => _ end) _ = _ => destruct t as [tb|] end.
      + qs H mono_draw_unif.
        match type of H with (if ?b then _ else _) _ = _ => destruct b end.
        * qs H mono_write_br_record. pose proof (exit_accept_dec _ _ _ _ H) as D. lia.
        * match type of H with bind (modify ?f) _ ?sa = _ =>
            unfold bind in H at 1; destruct (modify f sa) as [[u sb]| |] eqn:Em; [|discriminate H|discriminate H];
            assert (Mm : q sb <= q sa) by (unfold modify in Em; inversion Em; unfold q; cbn; lia) end.
          pose proof (mono_accept _ _ _ _ _ H). lia.
      + match type of H with bind (modify ?f) _ ?sa = _ =>
          unfold bind in H at 1; destruct (modify f sa) as [[u sb]| |] eqn:Em; [|discriminate H|discriminate H];
          assert (Mm : q sb <= q sa) by (unfold modify in Em; inversion Em; unfold q; cbn; lia) end.
        pose proof (mono_accept _ _ _ _ _ H). lia.
  Qed.

  Lemma batch_loop_sys : forall n j c p s s', Sysq s -> batch_loop cf n j c p s = Ok (tt, s') -> Sysq s'.
  Proof.
    induction n as [|n IH]; intros j c p s s' HS H; cbn [batch_loop] in H; [inversion H; subst; exact HS|].
    match type of H with bind (modify ?f) _ ?sa = _ =>
      unfold bind in H at 1; destruct (modify f sa) as [[u sb]| |] eqn:Em; [|discriminate H|discriminate H];
      assert (Hq1 : q sb = q sa + 1) by (unfold modify in Em; inversion Em; unfold q; cbn; lia); clear Em end.
    qs H @mono_gets.
    match type of H with bind (release_individual _ ?jj ?xx) _ ?sa = _ =>
      unfold bind in H at 1; destruct (release_individual cf jj xx sa) as [[u2 sc2]| |] eqn:Er; [|discriminate H|discriminate H]; destruct u2 end.
    eapply IH; [|exact H]. eapply release_individual_sys; [|exact Er].
    intros sc Hsc. unfold Sysq in HS. rewrite Hsc in HS.
    match goal with E : gets _ ?sa = Ok (_, ?sb) |- _ => apply ro_gets in E; rewrite E in * end. lia.
  Qed.

  Lemma Sysq_mono s s' : q s' <= q s -> Sysq s -> Sysq s'.
  Proof. unfold Sysq. destruct (cf_syscap cf); [lia|auto]. Qed.

  Lemma arrival_have_event_sys s s' : Sysq s -> arrival_have_event cf s = Ok (tt, s') -> Sysq s'.
  Proof.
    intros HS H. unfold arrival_have_event in H.
    qs H @mono_gets. qs H mono_draw_batch.
    match type of H with bind (if ?b then _ else _) _ ?sa = _ =>
      unfold bind in H at 1; destruct b; [discriminate H|]; cbn [ret] in H end.
    qs H @mono_lift.
    match type of H with bind (batch_loop _ ?n ?jj ?cc ?pp) _ ?sa = _ =>
      unfold bind in H at 1; destruct (batch_loop cf n jj cc pp sa) as [[u2 sb]| |] eqn:Eb; [|discriminate H|discriminate H]; destruct u2;
      assert (S2 : Sysq sb) by (eapply batch_loop_sys; [|exact Eb]; eapply Sysq_mono; [|exact HS]; lia) end.
    qs H mono_draw_arr. qs H @mono_gets. qs H @mono_lift. qs H @mono_lift.
    match type of H with bind (modify ?f) _ ?sa = _ =>
      unfold bind in H at 1; destruct (modify f sa) as [[u sb2]| |] eqn:Em; [|discriminate H|discriminate H];
      assert (Mm : q sb2 <= q sa) by (unfold modify in Em; inversion Em; unfold q; cbn; lia) end.
    pose proof (mono_find_next_event_date _ _ _ H) as M9.
    eapply Sysq_mono; [|exact S2]. lia.
  Qed.

  (* ---------- T2 for C06 (system capacity) ---------- *)
  Theorem event_step_sys s s' : Sysq s -> event_step cf s = Ok (tt, s') -> Sysq s'.
  Proof.
    intros HS H. unfold event_step in H.
    match type of H with bind (modify ?f) _ ?sa = _ =>
      unfold bind in H at 1; destruct (modify f sa) as [[u sb]| |] eqn:Em; [|discriminate H|discriminate H];
      assert (M0 : q sb <= q sa) by (unfold modify in Em; inversion Em; unfold q; cbn; lia) end.
    qs H @mono_gets.
    match type of H with bind (if ?b then ?x else ?y) _ ?sa = _ =>
      unfold bind in H at 1; destruct ((if b then x else y) sa) as [[u2 sc2]| |] eqn:Ee; [|discriminate H|discriminate H]; destruct u2;
      assert (S2 : Sysq sc2) by
        (destruct b; [eapply arrival_have_event_sys; [|exact Ee]; eapply Sysq_mono; [|exact HS]; lia
                     |eapply Sysq_mono; [|exact HS]; pose proof (mono_finish_service _ _ _ _ Ee); lia]) end.
    qs H @mono_gets. qs H mono_update_all.
    pose proof (mono_find_next_active_node _ _ _ H) as M9.
    eapply Sysq_mono; [|exact S2]. lia.
  Qed.

  Theorem run_many_sys : forall ds s s', Sysq s -> run_many cf s ds = Ok s' -> Sysq s'.
  Proof.
    induction ds as [|d r IH]; intros s s' HS H; cbn [run_many] in H; [inversion H; subst; exact HS|].
    destruct (event_step cf (s <| dr := d |>)) as [[u s1]| |] eqn:E; try discriminate. destruct u.
    eapply IH; [|exact H]. eapply event_step_sys; [|exact E]. exact HS.
  Qed.
End SysCap.

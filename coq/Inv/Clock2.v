(* Clock2.v -- T2 for C02 (first sentence) on the STAGE-2 engine model (State2 / Engine2 / Codec2):
   "simulated time never decreases, each event is executed exactly at its scheduled date, and no event is scheduled in the past". *)
From Coq Require Import ZArith List Bool Lia Permutation.
From RecordUpdate Require Import RecordUpdate.
From CiwV Require Import Sx Prelude Routing Sched.
From CiwV.Engine Require Import State2 Engine2 Codec2.
From CiwV.Inv Require Renege2 Preempt2.
Import ListNotations.
Open Scope Z_scope.

Local Arguments Z.mul : simpl never.
Local Arguments Z.add : simpl never.
Local Arguments Z.sub : simpl never.
Local Arguments Z.ltb : simpl never.
Local Arguments Z.leb : simpl never.
Local Arguments Z.eqb : simpl never.
Local Arguments Z.to_nat : simpl never.
Local Arguments Z.of_nat : simpl never.
Local Arguments Z.min : simpl never.
Local Arguments Z.max : simpl never.
Local Arguments nth_error : simpl never.
Local Arguments gen_date : simpl never.
Local Arguments D : simpl never.

Module R := Renege2.
Module P := Preempt2.
Notation dle := R.dle.
Notation sp := R.sp.
Notation top := R.top.
Notation Idx := R.Idx.
Notation out := R.out.
Notation TNone := R.TNone.
Notation TOut := R.TOut.
Notation TRec := R.TRec.

(* invert one bind, with names chosen by the caller *)
Ltac minv H a s1 E :=
  match type of H with
  | bind ?m ?f ?s = Ok _ => unfold bind in H at 1; destruct (m s) as [[a s1]| |] eqn:E; [|discriminate H|discriminate H]
  end.

(* ================================================================================================================ *)
(* timetables                                                                                                       *)
(* ================================================================================================================ *)
(* a cyclic timetable whose dates increase: offset >= 0, at least one boundary, boundaries positive and increasing *)
Definition wf_tt (b : list Z) (off : Z) : bool := (0 <=? off) && negb (Nat.eqb (length b) 0) && increasing_pos 0 b.
Lemma wf_tt_mono b off : wf_tt b off = true -> forall i j, (i < j)%nat -> D b off i < D b off j.
Proof.
  unfold wf_tt. intros H. apply andb_prop in H as [H H4]. apply andb_prop in H as [H1 H3].
  apply Z.leb_le in H1. apply Bool.negb_true_iff in H3. apply Nat.eqb_neq in H3.
  destruct (increasing_pos_nth _ _ H4) as [A B].
  intros i j Hij. apply D_mono; auto; unfold n; try lia.
Qed.
Lemma wf_tt_D0 b off : wf_tt b off = true -> 0 <= D b off 0.
Proof. unfold wf_tt. intros H. apply andb_prop in H as [H _]. apply andb_prop in H as [H _]. apply Z.leb_le in H. exact H. Qed.

(* the date of the next slot of a slotted node after pos calls of get_next_slot *)
Definition slotdate (sl : slotcfg) (pos : nat) : Z := snd (slot_values sl pos).
Lemma slotdate_step sl k : wf_tt (sl_b sl) (sl_off sl) = true -> slotdate sl k <= slotdate sl (S k).
Proof.
  intros H. unfold slotdate, slot_values. destruct k as [|m]; cbn [snd].
  - change (gen_date (sl_b sl) (sl_off sl) 0) with (D (sl_b sl) (sl_off sl) 1).
    pose proof (wf_tt_D0 _ _ H). pose proof (wf_tt_mono _ _ H 0%nat 1%nat ltac:(lia)). lia.
  - change (gen_date (sl_b sl) (sl_off sl) m) with (D (sl_b sl) (sl_off sl) (S m)).
    change (gen_date (sl_b sl) (sl_off sl) (S m)) with (D (sl_b sl) (sl_off sl) (S (S m))).
    pose proof (wf_tt_mono _ _ H (S m) (S (S m)) ltac:(lia)). lia.
Qed.

(* ================================================================================================================ *)
(* the scope and the draws                                                                                          *)
(* ================================================================================================================ *)
Definition wf_nc (nc : ncfg) : bool :=
  match nc_srv nc with SFixed => true | SSched sc => wf_tt (sc_b sc) (sc_off sc) | SSlot sl => wf_tt (sl_b sl) (sl_off sl) end.
Definition wf_times (c : config) : bool := forallb wf_nc (cf_nodes c).

Definition nonneg (l : list Z) : Prop := Forall (fun x => 0 <= x) l.
Definition DrawsOK (d : draws) : Prop := nonneg (d_svc d) /\ nonneg (d_arr d) /\ nonneg (d_ren d) /\ nonneg (d_cct d).

(* ---------- list facts ---------- *)
Lemma find_server_In i l sv : find_server i l = Some sv -> In sv l.
Proof.
  induction l as [|y r IH]; cbn; [discriminate|]. destruct (sv_id y =? i); [intros H; injection H as <-; left; reflexivity|].
  intros H. right. auto.
Qed.
Lemma Forall_put_server (P : server -> Prop) sv l : Forall P l -> P sv -> Forall P (put_server_l sv l).
Proof.
  intros H Hs. induction l as [|y r IH]; cbn; [constructor|]. inversion H as [|? ? Hy Hr]; subst.
  destruct (sv_id y =? sv_id sv); constructor; auto.
Qed.
Lemma Forall_del_server (P : server -> Prop) i l : Forall P l -> Forall P (del_server_l i l).
Proof.
  intros H. induction l as [|y r IH]; cbn; [constructor|]. inversion H as [|? ? Hy Hr]; subst.
  destruct (sv_id y =? i); [exact Hr|constructor; auto].
Qed.
Lemma Forall_map_server (P : server -> Prop) (f : server -> server) l : (forall sv, P sv -> P (f sv)) -> Forall P l -> Forall P (map f l).
Proof. intros Hf H. induction H; cbn; constructor; auto. Qed.

Definition NN (o : option Z) : Prop := forall v, o = Some v -> 0 <= v.
Lemma NN_None : NN None. Proof. intros v H. discriminate. Qed.
Lemma NN_Some v : 0 <= v -> NN (Some v). Proof. intros Hv w H. injection H as <-. exact Hv. Qed.
Lemma NN_numo o : NN o -> 0 <= numo o. Proof. destruct o as [v|]; cbn; [intros H; apply H; reflexivity|lia]. Qed.

(* where the arrival node's next date is stored *)
Definition Loc (a : arrst) : Prop :=
  a_next_date a = None \/
  exists row, nthZ (a_dates a) (a_next_node a - 1) = Some row /\ nthZ row (a_next_cls a) = Some (a_next_date a).

(* find_min_row / find_min_dates, with an abstract "d is the date stored at (j, c)" *)
Section MinDates.
  Variable Lc : option Z -> Z -> Z -> Prop.
  Definition LB (b : option Z * Z * Z) : Prop := fst (fst b) = None \/ Lc (fst (fst b)) (snd (fst b)) (snd b).
  Lemma find_min_row_spec : forall row j c0 best,
    (forall n d, nth_error row n = Some d -> Lc d j (c0 + Z.of_nat n)) -> LB best ->
    let r := find_min_row j c0 row best in
    dle (fst (fst r)) (fst (fst best)) /\ Forall (dle (fst (fst r))) row /\ LB r.
  Proof.
    induction row as [|d row IH]; intros j c0 best HL HB; cbn [find_min_row].
    - split; [apply R.dle_refl|split; [constructor|exact HB]].
    - set (best' := if date_lt d (fst (fst best)) then (d, j, c0) else best).
      assert (HB' : LB best').
      { unfold best'. destruct (date_lt d (fst (fst best))); [|exact HB]. right. cbn. specialize (HL 0%nat d eq_refl). replace (c0 + Z.of_nat 0) with c0 in HL by lia. exact HL. }
      assert (Hd : dle (fst (fst best')) d /\ dle (fst (fst best')) (fst (fst best))).
      { unfold best'. destruct (date_lt d (fst (fst best))) eqn:E; cbn [fst].
        - split; [apply R.dle_refl|apply R.date_lt_dle; exact E].
        - split; [apply R.date_nlt_dle; exact E|apply R.dle_refl]. }
      destruct (IH j (c0 + 1) best') as (A & B & C).
      + intros n d0 Hn. specialize (HL (S n) d0 Hn). replace (c0 + 1 + Z.of_nat n) with (c0 + Z.of_nat (S n)) by lia. exact HL.
      + exact HB'.
      + split; [eapply R.dle_trans; [exact A|apply Hd]|]. split; [constructor; [eapply R.dle_trans; [exact A|apply Hd]|exact B]|exact C].
  Qed.
  Lemma find_min_dates_spec : forall rows j0 best,
    (forall n row, nth_error rows n = Some row -> forall m d, nth_error row m = Some d -> Lc d (j0 + Z.of_nat n) (Z.of_nat m)) -> LB best ->
    let r := find_min_dates j0 rows best in
    dle (fst (fst r)) (fst (fst best)) /\ Forall (Forall (dle (fst (fst r)))) rows /\ LB r.
  Proof.
    induction rows as [|row rows IH]; intros j0 best HL HB; cbn [find_min_dates].
    - split; [apply R.dle_refl|split; [constructor|exact HB]].
    - destruct (find_min_row_spec row j0 0 best) as (A1 & B1 & C1).
      + intros n d Hn. specialize (HL 0%nat row eq_refl n d Hn). replace (j0 + Z.of_nat 0) with j0 in HL by lia. exact HL.
      + exact HB.
      + destruct (IH (j0 + 1) (find_min_row j0 0 row best)) as (A & B & C).
        * intros n row0 Hn m d Hm. specialize (HL (S n) row0 Hn m d Hm). replace (j0 + 1 + Z.of_nat n) with (j0 + Z.of_nat (S n)) by lia. exact HL.
        * exact C1.
        * split; [eapply R.dle_trans; eauto|]. split; [|exact C]. constructor; [|exact B].
          eapply Forall_impl; [|exact B1]. intros a Ha. eapply R.dle_trans; eauto.
  Qed.
End MinDates.

Create HintDb spdb.

(* ================================================================================================================ *)
(* the invariant during one event (executed at date t)                                                              *)
(* ================================================================================================================ *)
Section Clock2.
  Variable cf : config.
  Variable inf_at : Z -> bool.              (* which nodes have infinitely many servers (fixed during a run) *)
  Variable t : Z.                           (* the date of the event in progress *)
  Variable nn : nat.                        (* the number of nodes *)

  Hypothesis Hpre : R.nopre cf = true.
  Hypothesis Hdyn : cf_dyn cf = false.
  Hypothesis Hwf : wf_times cf = true.
  (* a node with a server schedule has finitely many servers *)
  Hypothesis Hsch : forall j nc sc, nthZ (cf_nodes cf) (j - 1) = Some nc -> nc_srv nc = SSched sc -> inf_at j = false.

  Definition ncf (j : Z) : option ncfg := nthZ (cf_nodes cf) (j - 1).
  Definition ren_at (j : Z) : bool := match ncf j with Some nc => nc_reneging nc | None => false end.

  Definition ArrOK (a : arrst) : Prop :=
    Forall (Forall (dle (Some t))) (a_dates a) /\ Forall (Forall (dle (a_next_date a))) (a_dates a) /\ Loc a.

  (* a customer without server at a finite node with reneging: its reneging date has not passed *)
  Definition IP (x : ind) : Prop :=
    forall j z, i_node x = Some j -> ren_at j = true -> inf_at j = false -> i_ren x = XV z -> i_server x = None -> t <= z.
  Definition IndOK (loc : Z -> option Z) (tr : R.transit) (cr : Z) (x : ind) : Prop :=
    i_id x <= cr /\
    (NN (i_stime x) /\ NN (i_ost x) /\ NN (i_tleft x)) /\
    (out tr (i_id x) = false -> (exists j, i_node x = Some j /\ loc (i_id x) = Some j) /\ IP x).

  Definition SvOK (sv : server) : Prop := dle (Some t) (sv_next_end sv).
  (* the dates a node carries: end-of-service dates of its servers, its next shift change / slot *)
  Definition NodeT (nd : node) : Prop :=
    match ncf (n_id nd) with
    | None => True
    | Some nc =>
      (nd_inf nd = false -> nc_slotted nc = false -> Forall SvOK (n_servers nd)) /\
      match nc_srv nc with
      | SFixed => True
      | SSched sc => 0 <= n_spos nd /\ n_next_shift nd = Some (D (sc_b sc) (sc_off sc) (Z.to_nat (n_spos nd))) /\
                     t <= D (sc_b sc) (sc_off sc) (Z.to_nat (n_spos nd))
      | SSlot sl => 0 <= n_spos nd /\ t <= slotdate sl (Z.to_nat (n_spos nd))
      end
    end.
  Definition NodeOK (loc : Z -> option Z) (tr : R.transit) (cr : Z) (nd : node) : Prop :=
    nd_inf nd = inf_at (n_id nd) /\ NoDup (all_individuals nd) /\
    (forall id, In id (all_individuals nd) -> id <= cr /\ out tr id = false /\ loc id = Some (n_id nd)) /\
    (forall id, out tr id = false -> loc id = Some (n_id nd) -> In id (all_individuals nd)) /\
    NodeT nd.

  Definition Inv (loc : Z -> option Z) (tr : R.transit) (cr : Z) (s : sim) : Prop :=
    now s = t /\ a_created (arr s) = cr /\ length (nodes s) = nn /\ Idx s /\ NoDup (map i_id (inds s)) /\
    Forall (IndOK loc tr cr) (inds s) /\
    (forall k nd, nth_error (nodes s) k = Some nd -> NodeOK loc tr cr nd) /\
    (forall id j, loc id = Some j -> 1 <= j <= Z.of_nat nn) /\
    ArrOK (arr s) /\ DrawsOK (dr s).

  (* ---------- harmless updates ---------- *)
  Lemma IndOK_irel loc tr cr x x' : IndOK loc tr cr x ->
    i_id x' = i_id x -> i_node x' = i_node x -> i_ren x' = i_ren x -> (i_server x' = None -> i_server x = None) ->
    NN (i_stime x') -> NN (i_ost x') -> NN (i_tleft x') -> IndOK loc tr cr x'.
  Proof.
    intros (A & _ & C) E1 E2 E3 E4 N1 N2 N3. unfold IndOK. rewrite E1. split; [exact A|]. split; [auto|].
    intros Ho. destruct (C Ho) as [(j & Hj & Hl) HP]. split; [exists j; rewrite E2; auto|].
    intros j' z Hj' Hr Hi Hz Hs. rewrite E2 in Hj'. rewrite E3 in Hz. apply (HP j' z Hj' Hr Hi Hz). apply E4. exact Hs.
  Qed.
  (* any update of the customer in transit *)
  Lemma IndOK_orel loc tr cr x x' : IndOK loc tr cr x -> out tr (i_id x) = true -> i_id x' = i_id x ->
    NN (i_stime x') -> NN (i_ost x') -> NN (i_tleft x') -> IndOK loc tr cr x'.
  Proof.
    intros (A & _ & C) Ho E1 N1 N2 N3. unfold IndOK. rewrite E1. split; [exact A|]. split; [auto|]. rewrite Ho. discriminate.
  Qed.
  Lemma NodeOK_nrel loc tr cr nd nd' : NodeOK loc tr cr nd -> n_id nd' = n_id nd -> n_queues nd' = n_queues nd -> n_c nd' = n_c nd ->
    n_spos nd' = n_spos nd -> n_next_shift nd' = n_next_shift nd ->
    (Forall SvOK (n_servers nd) -> Forall SvOK (n_servers nd')) -> NodeOK loc tr cr nd'.
  Proof.
    unfold NodeOK, NodeT, all_individuals, nd_inf. intros (A & B & C & D0 & E) -> -> -> -> -> HS.
    repeat (split; [assumption|]). destruct (ncf (n_id nd)) as [nc|]; [|exact I]. destruct E as [E1 E2]. split; [|exact E2].
    intros Hi Hs. apply HS. apply E1; assumption.
  Qed.
  Lemma NodeOK_perm loc tr cr nd nd' : NodeOK loc tr cr nd -> n_id nd' = n_id nd -> Permutation (all_individuals nd) (all_individuals nd') ->
    n_c nd' = n_c nd -> n_spos nd' = n_spos nd -> n_next_shift nd' = n_next_shift nd -> n_servers nd' = n_servers nd -> NodeOK loc tr cr nd'.
  Proof.
    unfold NodeOK, NodeT, nd_inf. intros (A & B & C & D0 & E) E1 P -> -> -> ->. rewrite E1. split; [exact A|]. split; [eapply Permutation_NoDup; eauto|]. split; [|split].
    - intros id Hin. apply C. eapply Permutation_in; [symmetry; exact P|exact Hin].
    - intros id Ho Hl. eapply Permutation_in; [exact P|]. apply D0; assumption.
    - exact E.
  Qed.

  (* ---------- tactics for the walk ---------- *)
  Ltac srv_tac :=
    let HF := fresh "HF" in intro HF; cbn;
    first [ exact HF
          | (apply Forall_put_server; [exact HF|]; unfold SvOK; cbn;
             match goal with Hf : find_server _ _ = Some ?sv |- _ =>
               let HF' := fresh in pose proof HF as HF'; rewrite Forall_forall in HF'; apply (HF' sv); eapply find_server_In; exact Hf end)
          | (apply Forall_del_server; exact HF) ].
  Ltac nodeok :=
    match goal with
    | H : NodeOK ?l ?r ?c ?nd |- NodeOK ?l ?r ?c _ =>
      solve [ apply (NodeOK_nrel l r c nd _ H); [reflexivity|reflexivity|reflexivity|reflexivity|reflexivity|srv_tac] ]
    end.
  Ltac nn_tac := first [ assumption | apply NN_None | (apply NN_Some; first [lia | assumption]) ].
  Ltac irel_tac := cbn; first [ reflexivity | nn_tac | (intro; assumption) | (intro; discriminate) ].
  Ltac indok :=
    match goal with
    | H : IndOK ?l ?r ?c ?x |- IndOK ?l ?r ?c _ =>
      solve [ let H' := fresh in pose proof H as H'; destruct H' as (_ & (? & ? & ?) & _); apply (IndOK_irel l r c x _ H); irel_tac ]
    | H : IndOK ?l ?r ?c ?x, Ho : out ?r ?i = true, Hi : i_id ?x = ?i |- IndOK ?l ?r ?c _ =>
      solve [ let H' := fresh in pose proof H as H'; destruct H' as (_ & (? & ? & ?) & _);
              apply (IndOK_orel l r c x _ H); [rewrite Hi; exact Ho|reflexivity|irel_tac|irel_tac|irel_tac] ]
    end.
  Ltac sp_intro :=
    let a := fresh "v" in let H := fresh "F" in
    intros a H; cbv beta in H;
    try match type of H with _ /\ _ => let H1 := fresh "F" in let H2 := fresh "F" in destruct H as [H1 H2] end;
    try match type of H with a = _ => subst a end.

  Section Small.
    Variables (loc : Z -> option Z) (tr : R.transit) (cr : Z).
    Notation I := (Inv loc tr cr).
    Notation spI := (sp I I).

    Lemma Inv_same s s' : I s -> now s' = now s -> a_created (arr s') = a_created (arr s) -> nodes s' = nodes s -> inds s' = inds s ->
      ArrOK (arr s') -> DrawsOK (dr s') -> I s'.
    Proof. unfold Inv, Idx. intros (A & B & C & D0 & E & F & G & H & K & L) E1 E2 E3 E4 HA HD. rewrite E1, E2, E3, E4. repeat (split; [assumption|]). assumption. Qed.
    Lemma ArrOK_same a a' : ArrOK a -> a_dates a' = a_dates a -> a_next_node a' = a_next_node a -> a_next_cls a' = a_next_cls a ->
      a_next_date a' = a_next_date a -> ArrOK a'.
    Proof. unfold ArrOK, Loc. intros H -> -> -> ->. exact H. Qed.
    Lemma spI_same (f : sim -> sim) :
      (forall s, now (f s) = now s /\ a_created (arr (f s)) = a_created (arr s) /\ nodes (f s) = nodes s /\ inds (f s) = inds s /\
                 a_dates (arr (f s)) = a_dates (arr s) /\ a_next_node (arr (f s)) = a_next_node (arr s) /\
                 a_next_cls (arr (f s)) = a_next_cls (arr s) /\ a_next_date (arr (f s)) = a_next_date (arr s) /\ dr (f s) = dr s) ->
      spI (modify f) top.
    Proof.
      intros Hf s a s' HI H. apply R.modify_inv in H. subst s'. destruct (Hf s) as (E1 & E2 & E3 & E4 & E5 & E6 & E7 & E8 & E9). split; [|exact Logic.I].
      eapply Inv_same; eauto; [eapply ArrOK_same; [apply HI|..]; assumption|rewrite E9; apply HI].
    Qed.
    Lemma spI_tnow : spI tnow (fun a => a = t).
    Proof. intros s a s' HI H. apply R.tnow_inv in H as [-> ->]. split; [exact HI|apply HI]. Qed.
    Lemma spI_get_node j : spI (get_node j) (fun nd => NodeOK loc tr cr nd /\ n_id nd = j).
    Proof.
      intros s nd s' HI H. apply R.get_node_inv in H as (-> & Hj & Hn). split; [exact HI|]. destruct HI as (_ & _ & _ & HX & _ & _ & HN & _).
      split; [|eapply R.Idx_get; eauto]. apply R.nthZ_nat in Hn as [_ Hn]. eapply HN; eauto.
    Qed.
    Lemma spI_get_ind i : spI (get_ind i) (fun x => IndOK loc tr cr x /\ i_id x = i).
    Proof.
      intros s x s' HI H. apply R.get_ind_inv in H as (-> & Hx). split; [exact HI|]. destruct HI as (_ & _ & _ & _ & _ & HF & _).
      split; [|eapply R.find_ind_id; eauto]. rewrite Forall_forall in HF. apply HF. eapply R.find_ind_In; eauto.
    Qed.
    Lemma Inv_put_node s nd : I s -> NodeOK loc tr cr nd -> I (s <| nodes := updZ (nodes s) (n_id nd - 1) nd |>).
    Proof.
      intros (A & B & C & D0 & E & F & G & H & K & L) Hnd. unfold Inv. cbn [now arr nodes inds dr set].
      split; [exact A|]. split; [exact B|]. split; [rewrite R.length_updZ; exact C|]. split; [unfold Idx; cbn [nodes set]; apply R.Idx_updZ; exact D0|].
      split; [exact E|]. split; [exact F|]. split; [|auto].
      intros k x Hk. unfold updZ in Hk. destruct (n_id nd - 1 <? 0); [eapply G; eauto|].
      destruct (R.nth_error_upd_cases _ _ _ _ _ Hk) as [[_ ->]|[_ Hk']]; [exact Hnd|eapply G; eauto].
    Qed.
    Lemma spI_put_node nd : NodeOK loc tr cr nd -> spI (put_node nd) top.
    Proof. intros Hnd s a s' HI H. unfold put_node in H. apply R.modify_inv in H. subst s'. split; [apply Inv_put_node; assumption|exact Logic.I]. Qed.
    Lemma Inv_put_ind s x : I s -> IndOK loc tr cr x -> I (s <| inds := put_ind_l x (inds s) |>).
    Proof.
      intros (A & B & C & D0 & E & F & G & H & K & L) Hx. unfold Inv. cbn [now arr nodes inds dr set].
      repeat (split; [assumption|]). split; [apply R.NoDup_put_ind; exact E|]. split; [|auto].
      apply R.Forall_put_ind; [exact E| |exact Hx]. intros y Hy _. rewrite Forall_forall in F. apply F. exact Hy.
    Qed.
    Lemma spI_put_ind x : IndOK loc tr cr x -> spI (put_ind x) top.
    Proof. intros Hx s a s' HI H. unfold put_ind in H. apply R.modify_inv in H. subst s'. split; [apply Inv_put_ind; assumption|exact Logic.I]. Qed.
    Lemma spI_log_rec r : spI (log_rec r) top.
    Proof. apply spI_same. intros s. repeat split; reflexivity. Qed.

    Lemma Inv_dr_tail s d : I s -> DrawsOK d -> I (s <| dr := d |>).
    Proof. intros HI Hd. eapply Inv_same; [exact HI|reflexivity|reflexivity|reflexivity|reflexivity|apply HI|exact Hd]. Qed.
    Lemma spI_draw_svc : spI draw_svc (fun st => 0 <= st).
    Proof.
      intros s a s' HI H. unfold draw_svc in H. destruct (d_svc (dr s)) as [|p r] eqn:Ed; [discriminate|]. injection H as <- <-.
      assert (HD : DrawsOK (dr s)) by apply HI. destruct HD as (D1 & D2 & D3 & D4). unfold nonneg in D1. rewrite Ed in D1. inversion D1 as [|? ? K1 K2]; subst.
      split; [|exact K1]. apply Inv_dr_tail; [exact HI|]. unfold DrawsOK. cbn. auto.
    Qed.
    Lemma spI_draw_arr : spI draw_arr (fun st => 0 <= st).
    Proof.
      intros s a s' HI H. unfold draw_arr in H. destruct (d_arr (dr s)) as [|p r] eqn:Ed; [discriminate|]. injection H as <- <-.
      assert (HD : DrawsOK (dr s)) by apply HI. destruct HD as (D1 & D2 & D3 & D4). unfold nonneg in D2. rewrite Ed in D2. inversion D2 as [|? ? K1 K2]; subst.
      split; [|exact K1]. apply Inv_dr_tail; [exact HI|]. unfold DrawsOK. cbn. auto.
    Qed.
    Lemma spI_draw_ren : spI draw_ren (fun st => 0 <= st).
    Proof.
      intros s a s' HI H. unfold draw_ren in H. destruct (d_ren (dr s)) as [|p r] eqn:Ed; [discriminate|]. injection H as <- <-.
      assert (HD : DrawsOK (dr s)) by apply HI. destruct HD as (D1 & D2 & D3 & D4). unfold nonneg in D3. rewrite Ed in D3. inversion D3 as [|? ? K1 K2]; subst.
      split; [|exact K1]. apply Inv_dr_tail; [exact HI|]. unfold DrawsOK. cbn. auto.
    Qed.
    Lemma spI_draw_cct : spI draw_cct (fun st => 0 <= st).
    Proof.
      intros s a s' HI H. unfold draw_cct in H. destruct (d_cct (dr s)) as [|p r] eqn:Ed; [discriminate|]. injection H as <- <-.
      assert (HD : DrawsOK (dr s)) by apply HI. destruct HD as (D1 & D2 & D3 & D4). unfold nonneg in D4. rewrite Ed in D4. inversion D4 as [|? ? K1 K2]; subst.
      split; [|exact K1]. apply Inv_dr_tail; [exact HI|]. unfold DrawsOK. cbn. auto.
    Qed.
    Lemma spI_draw_batch : spI draw_batch top.
    Proof.
      intros s a s' HI H. unfold draw_batch in H. destruct (d_batch (dr s)); inversion H. subst. split; [|exact Logic.I].
      apply Inv_dr_tail; [exact HI|]. apply HI.
    Qed.
    Lemma spI_draw_unif : spI draw_unif top.
    Proof.
      intros s a s' HI H. unfold draw_unif in H. destruct (d_unif (dr s)); inversion H. subst. split; [|exact Logic.I].
      apply Inv_dr_tail; [exact HI|]. apply HI.
    Qed.
    Lemma spI_ncfg_of j : spI (ncfg_of cf j) (fun nc => ncf j = Some nc).
    Proof. apply R.sp_lift. Qed.

    Lemma spI_upd_ind i f : (forall x, i_id x = i -> IndOK loc tr cr x -> IndOK loc tr cr (f x)) -> spI (upd_ind i f) top.
    Proof. intros Hf. unfold upd_ind. eapply R.sp_bind; [apply spI_get_ind|]. intros x [Hx Hi]. apply spI_put_ind. apply Hf; assumption. Qed.
    Lemma spI_upd_node j f : (forall nd, n_id nd = j -> NodeOK loc tr cr nd -> NodeOK loc tr cr (f nd)) -> spI (upd_node j f) top.
    Proof. intros Hf. unfold upd_node. eapply R.sp_bind; [apply spI_get_node|]. intros nd [Hn Hj]. apply spI_put_node. apply Hf; assumption. Qed.

    (* ---------- the walk: one lemma per engine function ---------- *)
    Ltac nn_tac2 :=
      first [ nn_tac
            | match goal with H : NN ?o, E : ?o = Some ?v |- NN (Some ?v) => apply NN_Some; apply (H v E) end ].
    Ltac sp_prim m :=
      lazymatch m with
      | tnow => apply spI_tnow
      | get_node _ => apply spI_get_node
      | get_ind _ => apply spI_get_ind
      | ncfg_of _ _ => apply spI_ncfg_of
      | lift _ _ => apply R.sp_lift
      | gets _ => apply R.sp_gets
      | draw_arr => apply spI_draw_arr
      | draw_batch => apply spI_draw_batch
      | draw_svc => apply spI_draw_svc
      | draw_unif => apply spI_draw_unif
      | draw_cct => apply spI_draw_cct
      | draw_ren => apply spI_draw_ren
      | log_rec _ => apply spI_log_rec
      | put_node _ => apply spI_put_node; nodeok
      | put_ind _ => apply spI_put_ind; indok
      | upd_ind _ _ => apply spI_upd_ind; intros; indok
      | upd_node _ _ => apply spI_upd_node; intros; nodeok
      | modify _ => apply spI_same; intros ?; repeat split; reflexivity
      | forM_ _ _ => apply R.sp_forM; intros ?
      | mapM _ _ => apply R.sp_mapM; intros ?
      | _ => solve [eauto 4 with spdb nocore]
      end.
    Ltac sp_step :=
      lazymatch goal with
      | |- R.sp _ _ (ret _) _ => apply R.sp_ret; exact Logic.I
      | |- R.sp _ _ (fail _) _ => apply R.sp_fail
      | |- R.sp _ _ oof _ => apply R.sp_oof
      | |- R.sp _ _ (bind (match _ with _ => _ end) _) _ => eapply R.sp_bind with (phi := top); [|intros ? _]
      | |- R.sp _ _ (bind (if _ then _ else _) _) _ => eapply R.sp_bind with (phi := top); [|intros ? _]
      | |- R.sp _ _ (bind ?m _) _ => eapply R.sp_bind; [sp_prim m|sp_intro]
      | |- R.sp _ _ (if ?b then _ else _) _ => destruct b eqn:?
      | |- R.sp _ _ (match ?x with _ => _ end) _ => first [progress cbv iota beta | destruct x eqn:?]
      | |- R.sp _ _ ?m _ => first [sp_prim m | (eapply R.sp_top; sp_prim m)]
      end.
    Ltac spw := repeat sp_step.
    #[local] Hint Extern 1 (R.dle _ _) => cbn; first [exact Logic.I | lia] : spdb.
    #[local] Hint Extern 1 (IndOK _ _ _ _) => eassumption : spdb.

    Lemma spI_choice_uniform {A} (l : list A) : spI (choice_uniform l) top.
    Proof. unfold choice_uniform. spw. Qed.
    Lemma spI_choice_weighted den Pw : spI (choice_weighted den Pw) top.
    Proof. unfold choice_weighted. spw. Qed.
    #[local] Hint Resolve spI_choice_uniform spI_choice_weighted : spdb.
    Lemma spI_choose_next_customer j : spI (choose_next_customer cf j) top.
    Proof. unfold choose_next_customer. spw. Qed.
    Lemma spI_upd_server j sid f : (forall sv, SvOK sv -> SvOK (f sv)) -> spI (upd_server j sid f) top.
    Proof.
      intros Hf. unfold upd_server. eapply R.sp_bind; [apply spI_get_node|]. intros nd [Hnd Hj].
      destruct (find_server sid (n_servers nd)) as [sv|] eqn:Ef; [|apply R.sp_ret; exact Logic.I].
      apply spI_put_node. apply (NodeOK_nrel _ _ _ nd _ Hnd); try reflexivity. intros HF. cbn.
      apply Forall_put_server; [exact HF|]. apply Hf. rewrite Forall_forall in HF. apply HF. eapply find_server_In; eauto.
    Qed.
    Lemma spI_find_next_class_change j : spI (find_next_class_change j) top.
    Proof. unfold find_next_class_change. spw. Qed.
    Lemma spI_cct_loop : forall row b best bc, spI (cct_loop row b best bc) top.
    Proof.
      induction row as [|h r IH]; intros b best bc; cbn [cct_loop]; [apply R.sp_ret; exact Logic.I|]. destruct h; [|apply IH].
      eapply R.sp_bind; [apply spI_draw_cct|]. intros d _. destruct (date_lt (Some d) best); apply IH.
    Qed.
    #[local] Hint Resolve spI_choose_next_customer spI_find_next_class_change spI_cct_loop : spdb.
    Lemma spI_decide_class_change j i : spI (decide_class_change cf j i) top.
    Proof. unfold decide_class_change. spw. Qed.
    Lemma spI_reset_class_change j i : spI (reset_class_change cf j i) top.
    Proof. unfold reset_class_change. spw. Qed.
    Lemma spI_stime_num x : IndOK loc tr cr x -> spI (stime_num x) (fun st => 0 <= st).
    Proof.
      intros (_ & (H1 & _) & _). unfold stime_num. destruct (i_smark x =? 0); [|apply R.sp_fail].
      apply R.sp_ret. apply NN_numo. exact H1.
    Qed.
    Lemma spI_gstap i : spI (give_service_time_after_preemption i) top.
    Proof.
      unfold give_service_time_after_preemption. eapply R.sp_bind; [apply spI_get_ind|]. intros x [Hx Hi].
      pose proof Hx as (_ & (N1 & N2 & N3) & _).
      destruct (i_smark x =? 3).
      { eapply R.sp_bind; [apply spI_draw_svc|]. intros st Hst. cbv beta in Hst. apply spI_put_ind. apply (IndOK_irel _ _ _ x _ Hx); irel_tac. }
      destruct (i_smark x =? 2).
      { destruct (i_ost x) as [o|] eqn:Eo; [|apply R.sp_fail]. apply spI_put_ind.
        apply (IndOK_irel _ _ _ x _ Hx); cbn; try reflexivity; try (intro; assumption); try assumption; try (apply NN_Some; apply N2; reflexivity).
        rewrite Eo. exact N2. }
      destruct (i_smark x =? 1).
      { destruct (i_tleft x) as [o|] eqn:Eo; [|apply R.sp_fail]. apply spI_put_ind.
        apply (IndOK_irel _ _ _ x _ Hx); cbn; try reflexivity; try (intro; assumption); try assumption; try (apply NN_Some; apply N3; reflexivity).
        rewrite Eo. exact N3. }
      apply R.sp_ret. exact Logic.I.
    Qed.
    #[local] Hint Resolve spI_decide_class_change spI_reset_class_change spI_gstap spI_stime_num : spdb.
    Lemma spI_giast i : spI (give_individual_a_service_time i) top.
    Proof. unfold give_individual_a_service_time. spw. Qed.
    Lemma spI_attach_server j sid i : spI (attach_server j sid i) top.
    Proof.
      unfold attach_server. eapply R.sp_bind with (phi := top); [apply spI_upd_server; intros sv H; exact H|]. intros _ _. spw.
    Qed.
    Lemma spI_set_next_end j sid d : dle (Some t) d -> spI (set_next_end j sid d) top.
    Proof. intros Hd. unfold set_next_end. apply spI_upd_server. intros sv _. exact Hd. Qed.
    Lemma spI_kill_server j sid : spI (kill_server j sid) top.
    Proof. unfold kill_server. spw. Qed.
    #[local] Hint Resolve spI_giast spI_attach_server spI_set_next_end spI_kill_server : spdb.
    Lemma spI_detatch_server j sid i : out tr i = true -> spI (detatch_server j sid i) top.
    Proof. intros Ho. unfold detatch_server. spw. Qed.
    Lemma spI_bump_rec i : spI (bump_rec i) top.
    Proof. unfold bump_rec. spw. Qed.
    #[local] Hint Resolve spI_bump_rec : spdb.
    Lemma spI_write_br_record j i ty : spI (write_br_record j i ty) top.
    Proof. unfold write_br_record. spw. Qed.
    Lemma spI_write_individual_record j i : spI (write_individual_record cf j i) top.
    Proof. unfold write_individual_record. spw. Qed.
    Lemma spI_write_reneging_record j i : spI (write_reneging_record j i) top.
    Proof. unfold write_reneging_record. spw. Qed.
    Lemma spI_write_interruption_record j i d : spI (write_interruption_record cf j i d) top.
    Proof. unfold write_interruption_record. spw. Qed.
    Lemma spI_reset_individual_attributes i : spI (reset_individual_attributes i) top.
    Proof. unfold reset_individual_attributes. spw. Qed.
    Lemma spI_valid_dest d : spI (valid_dest d) top.
    Proof. unfold valid_dest. spw. Qed.
    Lemma spI_jsq_loop lb : forall ds best acc, spI (jsq_loop lb ds best acc) top.
    Proof.
      induction ds as [|d r IH]; intros best acc; cbn [jsq_loop]; [apply R.sp_ret; exact Logic.I|].
      eapply R.sp_bind; [apply spI_get_node|]. intros nd _. cbv zeta. destruct (date_eqb _ _); [apply IH|]. destruct (date_lt _ _); apply IH.
    Qed.
    #[local] Hint Resolve spI_write_br_record spI_write_individual_record spI_write_reneging_record spI_write_interruption_record
      spI_reset_individual_attributes spI_valid_dest spI_jsq_loop : spdb.
    Lemma spI_jsq_next lb ds o : spI (jsq_next lb ds o) top.
    Proof. unfold jsq_next. spw. Qed.
    Lemma spI_get_cyc c j : spI (get_cyc c j) top.
    Proof. unfold get_cyc. spw. Qed.
    Lemma spI_bump_cyc c j : spI (bump_cyc c j) top.
    Proof. unfold bump_cyc. apply spI_same. intros s. destruct (nthZ (cyc s) c) as [row|]; [|repeat split; reflexivity]. destruct (nthZ row (j - 1)); repeat split; reflexivity. Qed.
    #[local] Hint Resolve spI_jsq_next spI_get_cyc spI_bump_cyc : spdb.
    Lemma spI_node_router_next r c j : spI (node_router_next r c j) top.
    Proof. unfold node_router_next. spw. Qed.
    #[local] Hint Resolve spI_node_router_next : spdb.
    Lemma spI_next_node_for mode j i : spI (next_node_for cf mode j i) top.
    Proof. unfold next_node_for. spw. Qed.
    Lemma spI_start_fresh j i osid c : spI (start_fresh cf j i osid c) top.
    Proof. unfold start_fresh. spw. Qed.
    Lemma spI_start_give j i sid : spI (start_give cf j i sid) top.
    Proof. unfold start_give. spw. Qed.
    Lemma spI_biis j sid : spI (begin_interrupted_individuals_service j sid) top.
    Proof. unfold begin_interrupted_individuals_service. spw. Qed.
    #[local] Hint Resolve spI_next_node_for spI_start_fresh spI_start_give spI_biis : spdb.
    Lemma spI_serve_with j sid : spI (serve_with cf j sid) top.
    Proof. unfold serve_with. spw. Qed.
    #[local] Hint Resolve spI_serve_with : spdb.
    Lemma spI_bsipr j freed : spI (begin_service_if_possible_release cf j freed) top.
    Proof. unfold begin_service_if_possible_release. spw. Qed.
    Lemma spI_block_individual j i d : spI (block_individual j i d) top.
    Proof. unfold block_individual. spw. Qed.
    #[local] Hint Resolve spI_bsipr spI_block_individual : spdb.

    Lemma nopre_at j nc : ncf j = Some nc -> R.nopre_nc nc = true.
    Proof. intros H. apply R.nthZ_In in H. unfold R.nopre in Hpre. rewrite forallb_forall in Hpre. apply Hpre. exact H. Qed.
    Lemma wf_at j nc : ncf j = Some nc -> wf_nc nc = true.
    Proof. intros H. apply R.nthZ_In in H. unfold wf_times in Hwf. rewrite forallb_forall in Hwf. apply Hwf. exact H. Qed.
    (* no priority pre-emption in scope: decide_preempt finds no victim *)
    Lemma spI_preempt_victim j i : spI (preempt_victim cf j i) (fun v => v = None).
    Proof.
      unfold preempt_victim. eapply R.sp_bind; [apply spI_ncfg_of|]. intros nc Hc. apply nopre_at in Hc. unfold R.nopre_nc in Hc.
      apply andb_true_iff in Hc as [Hc _]. rewrite Hc. apply R.sp_ret. reflexivity.
    Qed.
    Lemma spI_decide_between l : spI (decide_between l) top.
    Proof. unfold decide_between. spw. Qed.
    Lemma spI_change_customer_class j i : spI (change_customer_class cf j i) top.
    Proof. unfold change_customer_class. spw. Qed.
    Lemma spI_has_space d : spI (has_space cf d) top.
    Proof. unfold has_space. spw. Qed.
    #[local] Hint Resolve spI_decide_between spI_change_customer_class spI_has_space : spdb.
    Lemma spI_tsod fl j pre : pre = 0 -> spI (take_servers_off_duty cf fl j pre) top.
    Proof.
      intros ->. unfold take_servers_off_duty. change (0 =? 0) with true. cbv iota.
      eapply R.sp_bind; [apply spI_get_node|]. intros nd [Hnd Hj].
      eapply R.sp_bind with (phi := top); [destruct (n_next_date nd); [apply R.sp_ret; exact Logic.I|apply R.sp_fail]|]. intros se _.
      eapply R.sp_bind with (phi := top).
      { apply spI_put_node. apply (NodeOK_nrel _ _ _ nd _ Hnd); try reflexivity. intros HF. cbn.
        apply Forall_map_server; [|exact HF]. intros sv Hsv. exact Hsv. }
      intros _ _. apply R.sp_forM. intros sid. apply spI_kill_server.
    Qed.
    Lemma spI_add_new_servers : forall k j, spI (add_new_servers k j) top.
    Proof.
      induction k as [|k IH]; intros j; cbn [add_new_servers]; [apply R.sp_ret; exact Logic.I|].
      eapply R.sp_bind; [apply spI_tnow|]. intros t0 _.
      eapply R.sp_bind with (phi := top); [|intros _ _; apply IH].
      apply spI_upd_node. intros nd Hj Hnd. apply (NodeOK_nrel _ _ _ nd _ Hnd); try reflexivity. intros HF. cbn.
      apply Forall_app. split; [exact HF|]. constructor; [|constructor]. exact Logic.I.
    Qed.
    Lemma spI_bsipcs j : spI (begin_service_if_possible_change_shift cf j) top.
    Proof. unfold begin_service_if_possible_change_shift. spw. Qed.
    Lemma spI_change_shift j : spI (change_shift cf j) top.
    Proof.
      unfold change_shift. eapply R.sp_bind; [apply spI_ncfg_of|]. intros nc Hc. destruct (nc_srv nc) as [|sc|sl] eqn:Esrv; [apply R.sp_fail| |apply R.sp_fail].
      pose proof (nopre_at _ _ Hc) as Hn. unfold R.nopre_nc in Hn. rewrite Esrv in Hn. apply andb_true_iff in Hn as [_ Hn]. apply Z.eqb_eq in Hn.
      pose proof (wf_at _ _ Hc) as Hw. unfold wf_nc in Hw. rewrite Esrv in Hw.
      eapply R.sp_bind; [apply spI_get_node|]. intros nd [Hnd Hj].
      eapply R.sp_bind with (phi := top); [destruct (sc_b sc); [apply R.sp_fail|apply R.sp_ret; exact Logic.I]|]. intros _ _. cbv zeta.
      eapply R.sp_bind with (phi := top).
      { apply spI_put_node. destruct Hnd as (A & B & C & D0 & E). unfold NodeOK, NodeT, all_individuals, nd_inf in *. cbn [n_id n_queues n_c n_servers n_spos n_next_shift set].
        rewrite Hj in *. unfold ncf in *. rewrite Hc, Esrv in *. destruct E as (E1 & E2 & E3 & E4).
        split; [symmetry; eapply Hsch; eauto|]. split; [exact B|]. split; [exact C|]. split; [exact D0|]. split.
        - intros _ Hs. apply E1; [|exact Hs]. rewrite A. eapply Hsch; eauto.
        - replace (Z.to_nat (n_spos nd + 1)) with (S (Z.to_nat (n_spos nd))) by lia.
          split; [lia|]. split; [reflexivity|]. pose proof (wf_tt_mono _ _ Hw (Z.to_nat (n_spos nd)) (S (Z.to_nat (n_spos nd))) ltac:(lia)). lia. }
      intros _ _. eapply R.sp_bind; [apply R.sp_gets|]. intros fl _. eapply R.sp_bind; [apply spI_tsod; exact Hn|]. intros _ _.
      eapply R.sp_bind; [apply spI_add_new_servers|]. intros _ _. apply spI_bsipcs.
    Qed.
    Lemma spI_slot_loop : forall k j, spI (slot_loop cf k j) top.
    Proof. induction k as [|k IH]; intros j; cbn [slot_loop]; [apply R.sp_ret; exact Logic.I|]. spw; apply IH. Qed.
    Lemma spI_slotted_service j : spI (slotted_service cf j) top.
    Proof.
      unfold slotted_service. eapply R.sp_bind; [apply spI_ncfg_of|]. intros nc Hc. destruct (nc_srv nc) as [|sc|sl] eqn:Esrv; [apply R.sp_fail|apply R.sp_fail|].
      pose proof (nopre_at _ _ Hc) as Hn. unfold R.nopre_nc in Hn. rewrite Esrv in Hn. apply andb_true_iff in Hn as [_ Hn]. apply negb_true_iff in Hn.
      pose proof (wf_at _ _ Hc) as Hw. unfold wf_nc in Hw. rewrite Esrv in Hw.
      eapply R.sp_bind; [apply spI_get_node|]. intros nd [Hnd Hj].
      eapply R.sp_bind with (phi := top); [destruct (sl_b sl); [apply R.sp_fail|apply R.sp_ret; exact Logic.I]|]. intros _ _. cbv zeta. rewrite Hn.
      eapply R.sp_bind with (phi := top); [apply R.sp_ret; exact Logic.I|]. intros _ _.
      eapply R.sp_bind; [apply spI_slot_loop|]. intros _ _. apply spI_upd_node. intros nd' Hj' (A & B & C & D0 & E).
      unfold NodeOK, NodeT, all_individuals, nd_inf in *. cbn [n_id n_queues n_c n_servers n_spos n_next_shift set].
      rewrite Hj' in *. unfold ncf in *. rewrite Hc, Esrv in *. destruct E as (E1 & E2 & E3).
      repeat (split; [assumption|]). replace (Z.to_nat (n_spos nd' + 1)) with (S (Z.to_nat (n_spos nd'))) by lia.
      split; [lia|]. pose proof (slotdate_step sl (Z.to_nat (n_spos nd')) Hw). lia.
    Qed.
    Lemma spI_ccww j : spI (change_customer_class_while_waiting cf j) top.
    Proof.
      unfold change_customer_class_while_waiting.
      eapply R.sp_bind; [apply spI_get_node|]. intros nd [Hnd Hj].
      eapply R.sp_bind; [apply R.sp_lift|]. intros i Hi.
      eapply R.sp_bind; [apply spI_get_ind|]. intros x [Hx Hxi].
      eapply R.sp_bind; [apply R.sp_lift|]. intros nc' Hnc.
      eapply R.sp_bind; [apply R.sp_lift|]. intros p' Hp.
      eapply R.sp_bind; [apply spI_put_ind; indok|]. intros _ _.
      eapply R.sp_bind with (phi := top).
      { destruct (negb (p' =? i_pprio x)); [|apply R.sp_ret; exact Logic.I].
        eapply R.sp_bind; [apply R.sp_lift|]. intros q Hq. eapply R.sp_bind; [apply R.sp_lift|]. intros q' Hq'. cbv zeta.
        eapply R.sp_bind; [apply R.sp_lift|]. intros qn Hqn. cbv beta in Hq, Hq', Hqn.
        eapply R.sp_bind; [apply spI_put_node|].
        { apply (NodeOK_perm _ _ _ nd _ Hnd); try reflexivity. unfold all_individuals. cbn [n_queues set].
          eapply Permutation_trans; [apply (R.concat_remove _ _ _ _ _ Hq Hq')|]. symmetry. apply R.concat_append. exact Hqn. }
        intros _ _. destruct (negb (nd_inf nd) && (0 <? numo (n_c nd))); [|apply R.sp_ret; exact Logic.I].
        eapply R.sp_bind; [apply spI_preempt_victim|]. intros v ->. apply R.sp_ret. exact Logic.I. }
      intros _ _. eapply R.sp_bind; [apply spI_upd_ind; intros; indok|]. intros _ _. apply spI_decide_class_change.
    Qed.
    Lemma spI_accept_rest pre j i nc : spI (R.accept_rest cf pre j i nc) top.
    Proof.
      unfold R.accept_rest. eapply R.sp_bind; [apply spI_decide_class_change|]. intros _ _. eapply R.sp_bind; [apply spI_get_node|]. intros nd1 [Hnd Hj]. cbv zeta.
      eapply R.sp_bind with (phi := top); [destruct (nd_inf nd1); [apply R.sp_ret; exact Logic.I|apply spI_choose_next_customer]|]. intros cand _.
      destruct cand as [c|]; [|apply R.sp_ret; exact Logic.I]. destruct (nd_inf nd1); [apply spI_start_fresh|].
      eapply R.sp_bind; [apply spI_get_ind|]. intros cx _. destruct (find_free_server_for _ _ _); [apply spI_start_fresh|].
      destruct (0 <? numo (n_c nd1)); [|apply R.sp_ret; exact Logic.I]. eapply R.sp_bind; [apply spI_preempt_victim|]. intros v ->. apply R.sp_ret. exact Logic.I.
    Qed.
    Lemma spI_sys_population : spI sys_population top.
    Proof. unfold sys_population. spw. Qed.
    Lemma spI_route_of i c : spI (route_of cf i c) top.
    Proof. unfold route_of. spw. Qed.
    Lemma spI_gets_arr : spI (gets arr) (fun a => ArrOK a).
    Proof. intros s a s' HI H. apply R.gets_inv in H as [-> ->]. split; [exact HI|apply HI]. Qed.

    (* ---------- the arrival node: the executed stream's date moves forward by a draw >= 0 and the minimum is recomputed ---------- *)
    Lemma ArrOK_recompute dates a d j c : Forall (Forall (dle (Some t))) dates -> find_min_dates 1 dates (None, 0, 0) = (d, j, c) ->
      ArrOK (a <| a_dates := dates |> <| a_next_node := j |> <| a_next_cls := c |> <| a_next_date := d |>).
    Proof.
      intros HD E.
      pose proof (find_min_dates_spec (fun d j c => exists row, nthZ dates (j - 1) = Some row /\ nthZ row c = Some d) dates 1 (None, 0, 0)) as HS.
      cbv zeta in HS. rewrite E in HS. cbn [fst snd] in HS. destruct HS as (_ & B & C).
      - intros n row Hn m d0 Hm. exists row. split.
        + replace (1 + Z.of_nat n - 1) with (Z.of_nat n) by lia. rewrite R.nthZ_of_nat. exact Hn.
        + rewrite R.nthZ_of_nat. exact Hm.
      - left. reflexivity.
      - unfold ArrOK, Loc. cbn. split; [exact HD|split; [exact B|]]. unfold LB in C. cbn [fst snd] in C. exact C.
    Qed.
    Lemma spI_set_dates j c row new : Forall (dle (Some t)) row -> dle (Some t) new ->
      spI (modify (fun s => s <| arr := arr s <| a_dates := updZ (a_dates (arr s)) (j - 1) (updZ row c new) |> |>) ;;; find_next_event_date) top.
    Proof.
      intros Hrow Hnew s a s' HI H. unfold bind, modify, find_next_event_date in H. injection H as _ <-. split; [|exact Logic.I].
      destruct HI as (A & B & C & D0 & E & F & G & H & K & L).
      set (dates := updZ (a_dates (arr s)) (j - 1) (updZ row c new)).
      assert (HD : Forall (Forall (dle (Some t))) dates).
      { apply Forall_forall. intros r Hr. apply R.In_updZ in Hr as [->|Hr].
        - apply Forall_forall. intros x Hx. apply R.In_updZ in Hx as [->|Hx]; [exact Hnew|]. rewrite Forall_forall in Hrow. apply Hrow; exact Hx.
        - destruct K as (K & _). rewrite Forall_forall in K. apply K; exact Hr. }
      cbn [arr a_dates set]. fold dates.
      destruct (find_min_dates 1 dates (None, 0, 0)) as [[d jj] cc] eqn:Em.
      unfold Inv. cbn [now arr nodes inds dr set a_created]. repeat (split; [assumption|]). split; [|exact L].
      exact (ArrOK_recompute dates (arr s) d jj cc HD Em).
    Qed.
  End Small.

  (* the walk tactics again, now with every lemma of the section above *)
  #[local] Hint Extern 1 (R.dle _ _) => cbn; first [exact Logic.I | lia] : spdb.
  #[local] Hint Extern 1 (IndOK _ _ _ _) => eassumption : spdb.
  #[local] Hint Resolve spI_choice_uniform spI_choice_weighted spI_choose_next_customer spI_find_next_class_change spI_cct_loop
    spI_decide_class_change spI_reset_class_change spI_gstap spI_stime_num spI_giast spI_attach_server spI_set_next_end spI_kill_server
    spI_bump_rec spI_write_br_record spI_write_individual_record spI_write_reneging_record spI_write_interruption_record
    spI_reset_individual_attributes spI_valid_dest spI_jsq_loop spI_jsq_next spI_get_cyc spI_bump_cyc spI_node_router_next
    spI_next_node_for spI_start_fresh spI_start_give spI_biis spI_serve_with spI_bsipr spI_block_individual
    spI_decide_between spI_change_customer_class spI_has_space spI_change_shift spI_slotted_service spI_ccww
    spI_sys_population spI_route_of : spdb.
  Ltac sp_prim m :=
    lazymatch m with
    | tnow => apply spI_tnow
    | get_node _ => apply spI_get_node
    | get_ind _ => apply spI_get_ind
    | ncfg_of _ _ => apply spI_ncfg_of
    | lift _ _ => apply R.sp_lift
    | gets _ => apply R.sp_gets
    | draw_arr => apply spI_draw_arr
    | draw_batch => apply spI_draw_batch
    | draw_svc => apply spI_draw_svc
    | draw_unif => apply spI_draw_unif
    | draw_cct => apply spI_draw_cct
    | draw_ren => apply spI_draw_ren
    | log_rec _ => apply spI_log_rec
    | put_node _ => apply spI_put_node; nodeok
    | put_ind _ => apply spI_put_ind; indok
    | upd_ind _ _ => apply spI_upd_ind; intros; indok
    | upd_node _ _ => apply spI_upd_node; intros; nodeok
    | modify _ => apply spI_same; intros ?; repeat split; reflexivity
    | forM_ _ _ => apply R.sp_forM; intros ?
    | mapM _ _ => apply R.sp_mapM; intros ?
    | _ => solve [eauto 4 with spdb nocore]
    end.
  Ltac sp_step :=
    lazymatch goal with
    | |- R.sp _ _ (ret _) _ => apply R.sp_ret; exact Logic.I
    | |- R.sp _ _ (fail _) _ => apply R.sp_fail
    | |- R.sp _ _ oof _ => apply R.sp_oof
    | |- R.sp _ _ (bind (match _ with _ => _ end) _) _ => eapply R.sp_bind with (phi := top); [|intros ? _]
    | |- R.sp _ _ (bind (if _ then _ else _) _) _ => eapply R.sp_bind with (phi := top); [|intros ? _]
    | |- R.sp _ _ (bind ?m _) _ => eapply R.sp_bind; [sp_prim m|sp_intro]
    | |- R.sp _ _ (if ?b then _ else _) _ => destruct b eqn:?
    | |- R.sp _ _ (match ?x with _ => _ end) _ => first [progress cbv iota beta | destruct x eqn:?]
    | |- R.sp _ _ ?m _ => first [sp_prim m | (eapply R.sp_top; sp_prim m)]
    end.
  Ltac spb L := eapply R.sp_bind; [L|].

  (* ---------- changes of the transit state ---------- *)
  Lemma NodeT_same nd nd' : NodeT nd -> n_id nd' = n_id nd -> n_c nd' = n_c nd -> n_servers nd' = n_servers nd ->
    n_spos nd' = n_spos nd -> n_next_shift nd' = n_next_shift nd -> NodeT nd'.
  Proof. unfold NodeT, nd_inf. intros H -> -> -> -> ->. exact H. Qed.
  Lemma IndOK_TNone_TOut loc cr i y : IndOK loc TNone cr y -> IndOK loc (TOut i) cr y.
  Proof. intros (A & B & C). split; [exact A|]. split; [exact B|]. intros _. apply C. reflexivity. Qed.
  Lemma out_TOut_false k id : out (TOut k) id = false -> (id =? k) = false.
  Proof. cbn. rewrite Z.eqb_sym. auto. Qed.

  (* T1: a customer is taken out of its queue *)
  Lemma Inv_remove loc cr s j nd nd1 prio q q' i : Inv loc TNone cr s -> 1 <= j -> nthZ (nodes s) (j - 1) = Some nd ->
    nthZ (n_queues nd) prio = Some q -> remove_first i q = Some q' ->
    n_id nd1 = n_id nd -> n_queues nd1 = updZ (n_queues nd) prio q' -> n_c nd1 = n_c nd -> n_servers nd1 = n_servers nd ->
    n_spos nd1 = n_spos nd -> n_next_shift nd1 = n_next_shift nd ->
    Inv loc (TOut i) cr (s <| nodes := updZ (nodes s) (n_id nd1 - 1) nd1 |>).
  Proof.
    intros (A & B & C & D0 & E & F & G & H & K & L) Hj Hn Hq Hq' E1 E2 E3 E4 E5 E6.
    pose proof (R.Idx_get _ _ _ D0 Hj Hn) as Hidn. destruct (R.nthZ_nat _ _ _ Hn) as [Hj0 Hn'].
    pose proof (G _ _ Hn') as (N1 & N2 & N3 & N4 & N5).
    assert (P : Permutation (all_individuals nd) (i :: all_individuals nd1)) by (unfold all_individuals; rewrite E2; apply (R.concat_remove _ _ _ _ _ Hq Hq')).
    assert (Hi_in : In i (all_individuals nd)) by (eapply Permutation_in; [symmetry; exact P|left; reflexivity]).
    assert (ND : NoDup (i :: all_individuals nd1)) by (eapply Permutation_NoDup; eauto). inversion ND as [|? ? ND1 ND2].
    unfold Inv. cbn [now arr nodes inds dr set].
    split; [exact A|]. split; [exact B|]. split; [rewrite R.length_updZ; exact C|]. split; [unfold Idx; cbn [nodes set]; apply R.Idx_updZ; exact D0|].
    split; [exact E|]. split; [eapply Forall_impl; [|exact F]; intros y Hy; apply IndOK_TNone_TOut; exact Hy|]. split; [|auto].
    intros kk y Hk. rewrite E1, Hidn in Hk. unfold updZ in Hk. destruct (j - 1 <? 0) eqn:Ej; [apply Z.ltb_lt in Ej; lia|].
    destruct (R.nth_error_upd_cases _ _ _ _ _ Hk) as [[-> ->]|[Hne Hk']].
    - split; [unfold nd_inf in *; rewrite E3, E1; exact N1|]. split; [exact ND2|]. split; [|split].
      + intros id Hi. assert (Hi' : In id (all_individuals nd)) by (eapply Permutation_in; [symmetry; exact P|right; exact Hi]).
        destruct (N3 _ Hi') as (I1 & _ & I3). split; [exact I1|]. split; [|rewrite E1; exact I3].
        cbn. apply Z.eqb_neq. intros <-. exact (ND1 Hi).
      + intros id Ho Hl. rewrite E1 in Hl. assert (Hi' : In id (all_individuals nd)) by (apply N4; [reflexivity|exact Hl]).
        apply (Permutation_in _ P) in Hi'. destruct Hi' as [<-|Hi']; [cbn in Ho; rewrite Z.eqb_refl in Ho; discriminate|exact Hi'].
      + apply (NodeT_same nd); assumption.
    - pose proof (G _ _ Hk') as (M1 & M2 & M3 & M4 & M5). pose proof (D0 _ _ Hk') as Hidy. split; [exact M1|]. split; [exact M2|]. split; [|split].
      + intros id Hi. destruct (M3 _ Hi) as (I1 & _ & I3). split; [exact I1|]. split; [|exact I3].
        cbn. apply Z.eqb_neq. intros <-. destruct (N3 _ Hi_in) as (_ & _ & I3'). rewrite I3 in I3'. injection I3' as I3'. apply Hne. lia.
      + intros id _ Hl. apply M4; [reflexivity|exact Hl].
      + exact M5.
  Qed.

  (* T3: the customer in transit has been put into the queue of node j and stamped: nobody is in transit any more *)
  Lemma Inv_after_stamp loc cr k s x nd j q nc rd rest : Inv loc (TOut k) cr s -> find_ind k (inds s) = Some x -> 1 <= j ->
    nthZ (nodes s) (j - 1) = Some nd -> nthZ (n_queues nd) (i_prio x) = Some q -> nthZ (cf_nodes cf) (j - 1) = Some nc ->
    R.stamp_of nc x (now s) (d_ren (dr s)) = Some (rd, rest) ->
    Inv (fun id => if id =? k then Some j else loc id) TNone cr (R.after_stamp s x nd j q rd rest).
  Proof.
    intros (A & B & C & D0 & E & F & G & H & K & L) Hx Hj Hn Hq Hc Hst.
    pose proof (R.find_ind_id _ _ _ Hx) as Hid. pose proof (R.find_ind_In _ _ _ Hx) as Hin.
    rewrite Forall_forall in F. pose proof (F _ Hin) as (XA & XB & XC).
    pose proof (R.Idx_get _ _ _ D0 Hj Hn) as Hidn. destruct (R.nthZ_nat _ _ _ Hn) as [Hj0 Hn'].
    pose proof (G _ _ Hn') as (N1 & N2 & N3 & N4 & N5).
    set (loc' := fun id => if id =? k then Some j else loc id).
    assert (Hk_notin : ~ In k (all_individuals nd)). { intros Hi. destruct (N3 _ Hi) as (_ & Ho & _). cbn in Ho. rewrite Z.eqb_refl in Ho. discriminate. }
    unfold Inv, R.after_stamp. cbn [now arr nodes inds dr].
    split; [exact A|]. split; [exact B|]. split; [rewrite R.length_updZ; exact C|].
    split; [unfold Idx; cbn [nodes]; change (n_id nd) with (n_id (nd <| n_queues := updZ (n_queues nd) (i_prio x) (q ++ [i_id x]) |> <| n_pop := n_pop nd + 1 |>)); apply R.Idx_updZ; exact D0|].
    split; [apply R.NoDup_put_ind; exact E|].
    split.
    { apply R.Forall_put_ind; [exact E| |].
      - intros y Hy Hne. change (i_id (R.accepted_ind x j (n_pop nd) (now s) rd)) with (i_id x) in Hne. destruct (F y Hy) as (YA & YB & YC). split; [exact YA|]. split; [exact YB|].
        intros _. assert (Ho : out (TOut k) (i_id y) = false) by (cbn; apply Z.eqb_neq; congruence).
        destruct (YC Ho) as [(jj & Hjj & Hl) HP]. split; [|exact HP]. exists jj. split; [exact Hjj|]. unfold loc'. rewrite (out_TOut_false _ _ Ho). exact Hl.
      - split; [exact XA|]. split; [exact XB|].
        intros _. split; [exists j; split; [reflexivity|]; unfold loc'; change (i_id (R.accepted_ind x j (n_pop nd) (now s) rd)) with (i_id x); rewrite Hid, Z.eqb_refl; reflexivity|].
        intros j' z Hj' Hr Hi Hz Hs. cbn in Hj'. injection Hj' as <-. unfold ren_at, ncf in Hr. rewrite Hc in Hr. unfold R.stamp_of in Hst. rewrite Hr in Hst.
        cbn in Hz. destruct L as (_ & _ & L3 & _). unfold nonneg in L3.
        destruct (nthZ (nc_ren nc) (i_cls x)) as [[|]|]; [destruct (d_ren (dr s)) as [|p r] eqn:Ed; [discriminate|]; injection Hst as <- <-|injection Hst as <- <-|discriminate].
        + injection Hz as <-. inversion L3 as [|? ? K1 K2]. lia.
        + discriminate. }
    split.
    { intros kk y Hk. rewrite Hidn in Hk. unfold updZ in Hk. destruct (j - 1 <? 0) eqn:Ej; [apply Z.ltb_lt in Ej; lia|].
      destruct (R.nth_error_upd_cases _ _ _ _ _ Hk) as [[-> ->]|[Hne Hk']].
      - assert (P : Permutation (all_individuals (nd <| n_queues := updZ (n_queues nd) (i_prio x) (q ++ [i_id x]) |> <| n_pop := n_pop nd + 1 |>)) (k :: all_individuals nd)).
        { unfold all_individuals. cbn [n_queues set]. rewrite Hid. apply R.concat_append. exact Hq. }
        split; [exact N1|]. split; [eapply Permutation_NoDup; [symmetry; exact P|constructor; assumption]|]. split; [|split].
        + intros id Hi. apply (Permutation_in _ P) in Hi. destruct Hi as [<-|Hi].
          * split; [rewrite <- Hid; exact XA|]. split; [reflexivity|]. unfold loc'. rewrite Z.eqb_refl. cbn [n_id set]. rewrite Hidn. reflexivity.
          * destruct (N3 _ Hi) as (I1 & I2 & I3). split; [exact I1|]. split; [reflexivity|]. unfold loc'. rewrite (out_TOut_false _ _ I2). exact I3.
        + intros id _ Hl. eapply Permutation_in; [symmetry; exact P|]. unfold loc' in Hl. destruct (id =? k) eqn:Ek; [left; symmetry; apply Z.eqb_eq; exact Ek|].
          right. apply N4; [cbn; rewrite Z.eqb_sym; exact Ek|exact Hl].
        + apply (NodeT_same nd); [exact N5|reflexivity..].
      - pose proof (G _ _ Hk') as (M1 & M2 & M3 & M4 & M5). pose proof (D0 _ _ Hk') as Hidy. split; [exact M1|]. split; [exact M2|]. split; [|split; [|exact M5]].
        + intros id Hi. destruct (M3 _ Hi) as (I1 & I2 & I3). split; [exact I1|]. split; [reflexivity|]. unfold loc'. rewrite (out_TOut_false _ _ I2). exact I3.
        + intros id _ Hl. unfold loc' in Hl. destruct (id =? k) eqn:Ek; [injection Hl as Hl; exfalso; apply Hne; lia|].
          apply M4; [cbn; rewrite Z.eqb_sym; exact Ek|exact Hl]. }
    split.
    { intros id jj Hl. unfold loc' in Hl. destruct (id =? k); [|eapply H; eauto]. injection Hl as <-. split; [exact Hj|].
      assert (Hlt : (Z.to_nat (j - 1) < length (nodes s))%nat) by (apply nth_error_Some; rewrite Hn'; discriminate). lia. }
    split; [exact K|].
    destruct L as (L1 & L2 & L3 & L4). destruct rest as [r|]; [|unfold DrawsOK; auto].
    unfold DrawsOK. cbn [d_svc d_arr d_ren d_cct set]. repeat (split; [assumption|]). split; [|exact L4].
    unfold R.stamp_of in Hst. destruct (nc_reneging nc); [|discriminate].
    destruct (nthZ (nc_ren nc) (i_cls x)) as [[|]|]; [|discriminate|discriminate].
    destruct (d_ren (dr s)) as [|p r0] eqn:Ed; [discriminate|]. injection Hst as _ <-. unfold nonneg in L3. inversion L3; assumption.
  Qed.

  (* T4: the customer in transit leaves by the exit *)
  Lemma sp_exit_accept loc cr k c :
    sp (Inv loc (TOut k) cr) (Inv (fun id => if id =? k then None else loc id) TNone cr) (exit_accept k c) top.
  Proof.
    intros s a s' (A & B & C & D0 & E & F & G & H & K & L) HH. unfold exit_accept, del_ind, bind, modify in HH. injection HH as _ <-.
    split; [|exact Logic.I]. set (loc' := fun id => if id =? k then None else loc id).
    destruct (R.NoDup_del_ind k _ E) as [E' Hne]. rewrite Forall_forall in F.
    unfold Inv. cbn [now arr nodes inds dr set]. repeat (split; [assumption|]).
    split.
    { apply Forall_forall. intros y Hy. pose proof (Hne _ Hy) as Hyk. destruct (F y (R.In_del_ind _ _ _ Hy)) as (YA & YB & YC). split; [exact YA|]. split; [exact YB|].
      intros _. assert (Ho : out (TOut k) (i_id y) = false) by (cbn; apply Z.eqb_neq; congruence).
      destruct (YC Ho) as [(jj & Hjj & Hl) HP]. split; [|exact HP]. exists jj. split; [exact Hjj|]. unfold loc'. rewrite (out_TOut_false _ _ Ho). exact Hl. }
    split; [|split; [|auto]].
    - intros kk y Hk. pose proof (G _ _ Hk) as (M1 & M2 & M3 & M4 & M5). split; [exact M1|]. split; [exact M2|]. split; [|split; [|exact M5]].
      + intros id Hi. destruct (M3 _ Hi) as (I1 & I2 & I3). split; [exact I1|]. split; [reflexivity|]. unfold loc'. rewrite (out_TOut_false _ _ I2). exact I3.
      + intros id _ Hl. unfold loc' in Hl. destruct (id =? k) eqn:Ek; [discriminate|]. apply M4; [cbn; rewrite Z.eqb_sym; exact Ek|exact Hl].
    - intros id jj Hl. unfold loc' in Hl. destruct (id =? k); [discriminate|eapply H; eauto].
  Qed.

  (* ---------- the functions that move customers between nodes ---------- *)
  Definition InvX (tr : R.transit) (s : sim) : Prop := exists loc cr, Inv loc tr cr s.
  Lemma InvX_of loc tr cr s : Inv loc tr cr s -> InvX tr s. Proof. intros H. exists loc, cr. exact H. Qed.
  Lemma sp_X {A} tr (m : M A) phi : (forall loc cr, sp (Inv loc tr cr) (Inv loc tr cr) m phi) -> sp (InvX tr) (InvX tr) m phi.
  Proof. intros Hm s a s' (loc & cr & HI) H. destruct (Hm loc cr _ _ _ HI H) as [HJ Hp]. split; [exists loc, cr; exact HJ|exact Hp]. Qed.
  Lemma sp_toX {A} loc tr cr tr' (m : M A) phi : sp (Inv loc tr cr) (Inv loc tr' cr) m phi -> sp (Inv loc tr cr) (InvX tr') m phi.
  Proof. intros Hm. eapply R.sp_post; [exact Hm|]. intros s0 H0. exists loc, cr. exact H0. Qed.
  Lemma sp_fromX {A} loc tr cr (J : sim -> Prop) (m : M A) phi : sp (InvX tr) J m phi -> sp (Inv loc tr cr) J m phi.
  Proof. intros Hm. eapply R.sp_pre; [exact Hm|]. intros s0 H0. exists loc, cr. exact H0. Qed.
  Lemma sp_retX {A} loc tr cr (a : A) : sp (Inv loc tr cr) (InvX tr) (ret a) top.
  Proof. apply sp_toX. apply R.sp_ret. exact Logic.I. Qed.

  Lemma sp_accept_body pre j k : sp (InvX (TOut k)) (InvX TNone) (R.accept_body cf pre j k) top.
  Proof.
    intros s a s' (loc & cr & HI) H. destruct a.
    apply R.accept_stamps in H as (x & nd & q & nc & rd & rest & Hx & Hj & Hn & Hq & Hc & Hst & H).
    pose proof (Inv_after_stamp _ _ _ _ _ _ _ _ _ _ _ HI Hx Hj Hn Hq Hc Hst) as HI1.
    destruct (spI_accept_rest _ _ _ pre j k nc _ _ _ HI1 H) as [HI2 _]. split; [eapply InvX_of; exact HI2|exact Logic.I].
  Qed.

  Lemma sp_release_body acc rbi j i d :
    (forall d' k, sp (InvX (TOut k)) (InvX TNone) (acc d' k) top) -> (forall j', sp (InvX TNone) (InvX TNone) (rbi j') top) ->
    sp (InvX TNone) (InvX TNone) (R.release_body cf acc rbi j i d false) top.
  Proof.
    intros Hacc Hrbi s a s' (loc & cr & HI) H. unfold R.release_body in H.
    minv H t0 s0 E. apply R.tnow_inv in E as [-> ->].
    minv H x s0 E. apply R.get_ind_inv in E as [-> Hx].
    minv H nd s0 E. apply R.get_node_inv in E as (-> & Hj & Hn).
    minv H nc s0 E. apply R.ncfg_of_inv in E as [-> Hc].
    minv H q s0 E. apply R.lift_inv in E as [Hq ->]. minv H q' s0 E. apply R.lift_inv in E as [Hq' ->].
    cbv zeta in H. minv H u s1 E. match type of E with put_node ?n _ = _ => set (nd1 := n) in * end.
    unfold put_node in E. apply R.modify_inv in E. subst s1.
    assert (HI1 := Inv_remove loc cr s j nd nd1 (i_pprio x) q q' i HI Hj Hn Hq Hq' eq_refl eq_refl eq_refl eq_refl eq_refl eq_refl).
    assert (Hix : IndOK loc (TOut i) cr x).
    { apply IndOK_TNone_TOut. destruct HI as (_ & _ & _ & _ & _ & F & _). rewrite Forall_forall in F. apply F. eapply R.find_ind_In; eauto. }
    pose proof (R.find_ind_id _ _ _ Hx) as Hid.
    assert (Ho : out (TOut i) i = true) by (cbn; apply Z.eqb_refl).
    match type of H with ?m _ = _ => assert (RR : sp (Inv loc (TOut i) cr) (InvX TNone) m top) end.
    { spb ltac:(apply spI_put_ind; indok). intros _ _.
      spb ltac:(apply spI_write_individual_record). intros _ _.
      eapply R.sp_bind with (phi := top) (J := Inv loc (TOut i) cr).
      { destruct (negb (nd_inf nd) && negb (nc_slotted nc)); [|apply R.sp_ret; exact Logic.I].
        spb ltac:(apply spI_get_ind). intros x1 _. spb ltac:(apply R.sp_lift). intros sid _.
        spb ltac:(apply spI_detatch_server; exact Ho). intros _ _. apply R.sp_ret. exact Logic.I. }
      intros freed _. eapply R.sp_bind with (phi := top) (J := Inv loc (TOut i) cr).
      { destruct (nc_slotted nc); [|apply R.sp_ret; exact Logic.I]. apply spI_upd_ind. intros y Hy Hyi. indok. }
      intros _ _. spb ltac:(apply spI_reset_individual_attributes). intros _ _.
      spb ltac:(apply spI_bsipr). intros _ _.
      eapply R.sp_bind with (phi := top) (J := InvX TNone).
      { destruct (d =? -1); [eapply R.sp_post; [apply sp_exit_accept|]; intros s2 H2; eapply InvX_of; exact H2|apply sp_fromX; apply Hacc]. }
      intros _ _. apply Hrbi. }
    destruct a. exact (RR _ _ _ HI1 H).
  Qed.

  Lemma sp_rbi_body rel j : (forall a b c, sp (InvX TNone) (InvX TNone) (rel a b c false) top) ->
    sp (InvX TNone) (InvX TNone) (R.rbi_body cf rel j) top.
  Proof.
    intros Hrel s a s' (loc & cr & HI) H.
    assert (RR : sp (Inv loc TNone cr) (InvX TNone) (R.rbi_body cf rel j) top).
    { unfold R.rbi_body. spb ltac:(apply spI_get_node). intros nd [Hnd Hj]. spb ltac:(apply spI_ncfg_of). intros nc _.
      destruct (_ && _); [|apply sp_retX]. destruct (n_bq nd) as [|[from y] rest]; [apply R.sp_fail|].
      spb ltac:(apply spI_get_node). intros fnd _.
      eapply R.sp_bind with (phi := top) (J := Inv loc TNone cr); [destruct (memZ _ _); [apply R.sp_ret; exact Logic.I|apply R.sp_fail]|]. intros _ _.
      spb ltac:(apply spI_put_node; nodeok). intros _ _.
      spb ltac:(apply spI_get_ind). intros yx [Hyx Hy].
      eapply R.sp_bind with (phi := top) (J := Inv loc TNone cr); [repeat sp_step|].
      intros _ _. apply sp_fromX. apply Hrel. }
    exact (RR _ _ _ HI H).
  Qed.

  Lemma sp_core : forall f,
    (forall j i d, sp (InvX TNone) (InvX TNone) (release cf f j i d false) top) /\
    (forall j, sp (InvX TNone) (InvX TNone) (release_blocked_individual cf f j) top) /\
    (forall j k, sp (InvX (TOut k)) (InvX TNone) (accept cf f j k) top).
  Proof.
    induction f as [|f (IH1 & IH2 & IH3)]; [split; [|split]; intros; intros s a s' _ H; cbn in H; discriminate H|].
    split; [|split]; intros.
    - rewrite R.release_S. apply sp_release_body; assumption.
    - rewrite R.rbi_S. apply sp_rbi_body; assumption.
    - rewrite R.accept_S. apply sp_accept_body.
  Qed.
  Lemma sp_release f j i d : sp (InvX TNone) (InvX TNone) (release cf f j i d false) top. Proof. apply sp_core. Qed.
  Lemma sp_rbi f j : sp (InvX TNone) (InvX TNone) (release_blocked_individual cf f j) top. Proof. apply sp_core. Qed.
  Lemma sp_accept f j k : sp (InvX (TOut k)) (InvX TNone) (accept cf f j k) top. Proof. apply sp_core. Qed.

  Lemma sp_finish_service j : sp (InvX TNone) (InvX TNone) (finish_service cf j) top.
  Proof.
    intros s a s' (loc & cr & HI) H.
    assert (RR : sp (Inv loc TNone cr) (InvX TNone) (finish_service cf j) top).
    { unfold finish_service. do 6 sp_step.
      eapply R.sp_bind with (phi := top) (J := Inv loc TNone cr); [repeat sp_step|]. intros _ _.
      spb ltac:(apply spI_has_space). intros space _. destruct space; [|apply sp_toX; apply spI_block_individual].
      spb ltac:(apply R.sp_gets). intros fl _. apply sp_fromX. apply sp_release. }
    exact (RR _ _ _ HI H).
  Qed.

  Lemma Inv_unif loc tr cr s rest : Inv loc tr cr s -> Inv loc tr cr (s <| dr := dr s <| d_unif := rest |> |>).
  Proof. intros HI. apply Inv_dr_tail; [exact HI|]. apply HI. Qed.

  Lemma sp_renege j : sp (InvX TNone) (InvX TNone) (renege cf j) top.
  Proof.
    intros s a s' (loc & cr & HI) H. unfold renege in H.
    minv H t0 s0 E. apply R.tnow_inv in E as [-> ->].
    minv H nd s0 E. apply R.get_node_inv in E as (-> & Hj & Hn).
    minv H i s0 E. apply R.decide_between_inv in E as [Hin Hs0].
    assert (HI0 : Inv loc TNone cr s0 /\ nodes s0 = nodes s /\ inds s0 = inds s /\ now s0 = now s).
    { destruct Hs0 as [[_ ->]|(u & rest & _ & ->)]; [auto|]. split; [apply Inv_unif; exact HI|auto]. }
    destruct HI0 as (HI0 & K2 & K1 & K3). clear Hs0 HI.
    minv H u s1 E. apply R.upd_ind_inv in E as (x & Hx & ->). pose proof (R.find_ind_id _ _ _ Hx) as Hid.
    minv H d s1 E. apply R.next_node_for_jockey in E as (-> & _).
    minv H x2 s1 E. apply R.get_ind_inv in E as (-> & Hx2). cbn [inds set] in Hx2. rewrite R.find_put_ind in Hx2. cbn [i_id set] in Hx2.
    rewrite Hid, Z.eqb_refl in Hx2. injection Hx2 as <-.
    minv H nd1 s1 E. apply R.get_node_inv in E as (-> & _ & Hn1). cbn [nodes set] in Hn1. rewrite K2, Hn in Hn1. injection Hn1 as <-.
    minv H q s1 E. apply R.lift_inv in E as [Eq ->]. cbn [i_pprio set] in Eq.
    minv H q' s1 E. apply R.lift_inv in E as [Eq' ->].
    cbv zeta in H. cbn [i_pprio set] in H.
    minv H u0 s1 E. match type of E with put_node ?n _ = _ => set (nd2 := n) in * end. unfold put_node in E. apply R.modify_inv in E. subst s1.
    rewrite <- K2 in Hn.
    assert (HI1 := Inv_remove loc cr s0 j nd nd2 (i_pprio x) q q' i HI0 Hj Hn Eq Eq' eq_refl eq_refl eq_refl eq_refl eq_refl eq_refl).
    assert (Ho : out (TOut i) i = true) by (cbn; apply Z.eqb_refl).
    assert (Hix : IndOK loc (TOut i) cr x).
    { apply IndOK_TNone_TOut. destruct HI0 as (_ & _ & _ & _ & _ & F & _). rewrite Forall_forall in F. apply F. eapply R.find_ind_In; eauto. }
    assert (HI2 := Inv_put_ind loc (TOut i) cr _ (x <| i_ren := XI |>) HI1).
    match type of H with ?m _ = _ => assert (RR : sp (Inv loc (TOut i) cr) (InvX TNone) m top) end.
    { spb ltac:(apply spI_reset_class_change). intros _ _.
      spb ltac:(apply spI_upd_ind; intros y Hy Hyi; indok). intros _ _.
      spb ltac:(apply spI_write_reneging_record). intros _ _.
      spb ltac:(apply spI_reset_individual_attributes). intros _ _.
      spb ltac:(apply R.sp_gets). intros fl _.
      eapply R.sp_bind with (phi := top) (J := InvX TNone).
      { destruct (d =? -1); [eapply R.sp_post; [apply sp_exit_accept|]; intros s2 H2; eapply InvX_of; exact H2|apply sp_fromX; apply sp_accept]. }
      intros _ _. apply sp_rbi. }
    destruct a. refine (RR _ _ _ _ H). apply HI2. indok.
  Qed.

  Lemma sp_node_have_event j : sp (InvX TNone) (InvX TNone) (node_have_event cf j) top.
  Proof.
    intros s a s' (loc & cr & HI) H.
    assert (RR : sp (Inv loc TNone cr) (InvX TNone) (node_have_event cf j) top).
    { unfold node_have_event. spb ltac:(apply spI_get_node). intros nd _. cbv zeta.
      destruct (_ =? 0); [apply sp_fromX; apply sp_finish_service|].
      destruct (_ =? 1); [apply sp_toX; apply spI_change_shift|].
      destruct (_ =? 2); [apply sp_fromX; apply sp_renege|].
      destruct (_ =? 3); [apply sp_toX; apply spI_ccww|].
      destruct (_ =? 4); [apply sp_toX; apply spI_slotted_service|apply sp_retX]. }
    exact (RR _ _ _ HI H).
  Qed.

  Lemma sp_send_individual j k : sp (InvX (TOut k)) (InvX TNone) (send_individual cf j k) top.
  Proof.
    intros s a s' (loc & cr & HI) H.
    assert (RR : sp (Inv loc (TOut k) cr) (InvX TNone) (send_individual cf j k) top).
    { unfold send_individual. spb ltac:(apply spI_same; intros ?; repeat split; reflexivity). intros _ _.
      spb ltac:(apply R.sp_gets). intros fl _. apply sp_fromX. apply sp_accept. }
    exact (RR _ _ _ HI H).
  Qed.
  Lemma sp_turn_away loc cr j k ty : sp (Inv loc (TOut k) cr) (InvX TNone) (write_br_record j k ty ;;; exit_accept k false) top.
  Proof. spb ltac:(apply spI_write_br_record). intros _ _. eapply R.sp_post; [apply sp_exit_accept|]. intros s2 H2. eapply InvX_of; exact H2. Qed.
  Lemma sp_release_individual j k : sp (InvX (TOut k)) (InvX TNone) (release_individual cf j k) top.
  Proof.
    intros s a s' (loc & cr & HI) H.
    assert (RR : sp (Inv loc (TOut k) cr) (InvX TNone) (release_individual cf j k) top).
    { unfold release_individual. spb ltac:(apply spI_get_ind). intros x _. spb ltac:(apply spI_get_node). intros nd _.
      spb ltac:(apply spI_ncfg_of). intros nc _. spb ltac:(apply spI_sys_population). intros sp0 _. cbv zeta.
      destruct (_ || _); [apply sp_turn_away|].
      spb ltac:(apply R.sp_lift). intros tabs _. spb ltac:(apply R.sp_lift). intros tab _.
      destruct tab as [tb|]; [|apply sp_fromX; apply sp_send_individual].
      spb ltac:(apply spI_draw_unif). intros u _. cbv zeta.
      destruct (_ <? _); [apply sp_turn_away|apply sp_fromX; apply sp_send_individual]. }
    exact (RR _ _ _ HI H).
  Qed.

  (* T5: a new customer is created (it is in transit until it is accepted or turned away) *)
  Lemma Inv_create loc cr s c p r : Inv loc TNone cr s ->
    Inv loc (TOut (cr + 1)) (cr + 1)
      (s <| arr := arr s <| a_created := a_created (arr s) + 1 |> |> <| inds := put_ind_l (new_ind (cr + 1) c p r) (inds s) |>).
  Proof.
    intros (A & B & C & D0 & E & F & G & H & K & L). unfold Inv. cbn [now arr nodes inds dr set a_created].
    split; [exact A|]. split; [rewrite B; reflexivity|]. split; [exact C|]. split; [exact D0|]. split; [apply R.NoDup_put_ind; exact E|].
    rewrite Forall_forall in F.
    split.
    { apply R.Forall_put_ind; [exact E| |].
      - intros y Hy _. destruct (F y Hy) as (YA & YB & YC). split; [lia|]. split; [exact YB|]. intros _. apply YC. reflexivity.
      - split; [cbn; lia|]. split; [cbn; repeat split; apply NN_None|]. cbn. rewrite Z.eqb_refl. discriminate. }
    split.
    { intros kk y Hk. destruct (G _ _ Hk) as (M1 & M2 & M3 & M4 & M5). split; [exact M1|]. split; [exact M2|]. split; [|split; [|exact M5]].
      - intros id Hi. destruct (M3 _ Hi) as (I1 & _ & I3). split; [lia|]. split; [cbn; apply Z.eqb_neq; lia|exact I3].
      - intros id _ Hl. apply M4; [reflexivity|exact Hl]. }
    split; [exact H|]. split; [|exact L]. eapply ArrOK_same; [exact K|reflexivity..].
  Qed.

  Lemma sp_batch_loop : forall n j c p, sp (InvX TNone) (InvX TNone) (batch_loop cf n j c p) top.
  Proof.
    induction n as [|n IH]; intros j c p; cbn [batch_loop]; [apply sp_X; intros; apply R.sp_ret; exact Logic.I|].
    intros s a s' (loc & cr & HI) H.
    minv H u s1 E. apply R.modify_inv in E. subst s1.
    minv H i s1 E. apply R.gets_inv in E as [-> ->]. cbn [arr set a_created] in H.
    minv H u0 s1 E. assert (s1 = s <| arr := arr s <| a_created := a_created (arr s) + 1 |> |>) as -> by (destruct (1 <=? j); [apply R.ret_inv in E as [_ ->]; reflexivity|discriminate]). clear E.
    minv H nd0 s1 E. apply R.get_node_inv in E as (-> & _).
    minv H r s1 E. apply R.route_of_inv in E as ->.
    minv H u1 s1 E. unfold put_ind in E. apply R.modify_inv in E. subst s1.
    assert (Hcr : a_created (arr s) = cr) by apply HI. rewrite Hcr in H.
    pose proof (Inv_create loc cr s c p r HI) as HI1. rewrite Hcr in HI1.
    match type of H with ?m _ = _ => assert (RR : sp (InvX (TOut (cr + 1))) (InvX TNone) m top) end.
    { spb ltac:(apply sp_release_individual). intros _ _. apply IH. }
    destruct a. refine (RR _ _ _ _ H). eapply InvX_of. exact HI1.
  Qed.

  Lemma sp_arrival_have_event : sp (InvX TNone) (InvX TNone) (arrival_have_event cf) top.
  Proof.
    unfold arrival_have_event.
    spb ltac:(apply R.sp_gets). intros a0 _. cbv zeta.
    spb ltac:(apply sp_X; intros; apply spI_draw_batch). intros b _.
    eapply R.sp_bind with (phi := top) (J := InvX TNone); [destruct (b <? 0); [apply R.sp_fail|apply R.sp_ret; exact Logic.I]|]. intros _ _.
    spb ltac:(apply R.sp_lift). intros p _.
    spb ltac:(apply sp_batch_loop). intros _ _.
    apply sp_X. intros loc cr.
    spb ltac:(apply spI_draw_arr). intros ia Hia. cbv beta in Hia.
    spb ltac:(apply spI_gets_arr). intros a' Ha'. cbv beta in Ha'.
    spb ltac:(apply R.sp_lift). intros row Hrow. spb ltac:(apply R.sp_lift). intros old Hold. cbv beta in Hrow, Hold.
    destruct Ha' as (A1 & _). rewrite Forall_forall in A1. pose proof (A1 _ (R.nthZ_In _ _ _ Hrow)) as Hr.
    apply spI_set_dates; [exact Hr|]. rewrite Forall_forall in Hr. specialize (Hr _ (R.nthZ_In _ _ _ Hold)).
    destruct old as [o|]; cbn in *; [lia|exact Logic.I].
  Qed.

  Lemma sp_have_event : sp (InvX TNone) (InvX TNone) (R.have_event cf) top.
  Proof.
    unfold R.have_event. spb ltac:(apply sp_X; intros; apply spI_same; intros ?; repeat split; reflexivity). intros _ _.
    spb ltac:(apply R.sp_gets). intros k _. destruct (k =? 0); [apply sp_arrival_have_event|apply sp_node_have_event].
  Qed.

  (* ---------- every node recomputes its next date ---------- *)
  Lemma scan_servers_spec : forall l best acc d cs, scan_servers l best acc = (d, cs) ->
    dle d best /\ Forall (fun sv => dle d (sv_next_end sv)) l /\ (d = best \/ exists sv, In sv l /\ d = sv_next_end sv).
  Proof.
    induction l as [|sv r IH]; intros best acc d cs H; cbn [scan_servers] in H.
    - inversion H. subst. split; [apply R.dle_refl|split; [constructor|left; reflexivity]].
    - destruct (date_lt (sv_next_end sv) best) eqn:E1.
      + destruct (IH _ _ _ _ H) as (A & B & C). split; [eapply R.dle_trans; [exact A|apply R.date_lt_dle; exact E1]|]. split; [constructor; assumption|].
        right. destruct C as [->|(sv' & Hin & ->)]; [exists sv; split; [left; reflexivity|reflexivity]|exists sv'; split; [right; exact Hin|reflexivity]].
      + assert (Hb : dle best (sv_next_end sv)) by (apply R.date_nlt_dle; exact E1).
        assert (G : forall acc', scan_servers r best acc' = (d, cs) ->
                    dle d best /\ Forall (fun sv0 => dle d (sv_next_end sv0)) (sv :: r) /\ (d = best \/ exists sv0, In sv0 (sv :: r) /\ d = sv_next_end sv0)).
        { intros acc' H'. destruct (IH _ _ _ _ H') as (A & B & C). split; [exact A|]. split; [constructor; [eapply R.dle_trans; eauto|exact B]|].
          destruct C as [->|(sv' & Hin & ->)]; [left; reflexivity|right; exists sv'; split; [right; exact Hin|reflexivity]]. }
        destruct (date_eqb (sv_next_end sv) best && match best with Some _ => true | None => false end); eapply G; exact H.
  Qed.
  Lemma scan_inds_ge : forall q t0 il best acc d cs, scan_inds t0 q il best acc = (d, cs) -> dle (Some t0) best -> dle (Some t0) d.
  Proof.
    induction q as [|i r IH]; intros t0 il best acc d cs H Hb; cbn [scan_inds] in H.
    - inversion H. subst. exact Hb.
    - destruct (find_ind i il) as [x|]; [|eapply IH; eauto].
      destruct (i_send x) as [e|]; [|eapply IH; eauto].
      destruct (negb (i_blocked x) && (t0 <=? e)) eqn:Eg; [|eapply IH; eauto].
      apply andb_true_iff in Eg as [_ Eg]. apply Z.leb_le in Eg.
      destruct (date_lt (Some e) best); [eapply IH; [exact H|cbn; exact Eg]|].
      destruct (date_eqb (Some e) best); eapply IH; eauto.
  Qed.

  (* what update_next_event_date leaves on a node (il = the customers at that time): its next date is not before the clock
     and not after any of the dates the node carries *)
  Definition Fresh (il : list ind) (nd : node) : Prop :=
    dle (Some t) (n_next_date nd) /\
    exists nc, ncf (n_id nd) = Some nc /\
      (nd_inf nd = false -> nc_slotted nc = false -> Forall (fun sv => dle (n_next_date nd) (sv_next_end sv)) (n_servers nd)) /\
      match nc_srv nc with
      | SFixed => True
      | SSched _ => dle (n_next_date nd) (n_next_shift nd)
      | SSlot sl => dle (n_next_date nd) (Some (slotdate sl (Z.to_nat (n_spos nd))))
      end /\
      (nd_inf nd = false -> nc_reneging nc = true ->
         forall i z, In i (all_individuals nd) -> R.waiting_at il i z -> dle (n_next_date nd) (Some z)).

  Lemma une_spec loc cr j s s' : Inv loc TNone cr s -> update_next_event_date cf j s = Ok (tt, s') ->
    exists nd d l ty, 1 <= j /\ nthZ (nodes s) (j - 1) = Some nd /\ n_id nd = j /\
      s' = s <| nodes := updZ (nodes s) (n_id nd - 1) (nd <| n_next_date := d |> <| n_next_inds := l |> <| n_next_type := ty |>) |> /\
      Fresh (inds s) (nd <| n_next_date := d |> <| n_next_inds := l |> <| n_next_type := ty |>).
  Proof.
    intros HI H. unfold update_next_event_date in H.
    minv H nd s1 E1. apply R.get_node_inv in E1 as (-> & Hj & Hn).
    minv H nc s1 E2. apply R.ncfg_of_inv in E2 as [-> Hc].
    minv H t0 s1 E3. apply R.tnow_inv in E3 as [-> ->].
    minv H il s1 E4. apply R.gets_inv in E4 as [-> ->].
    cbv zeta in H.
    pose proof HI as (Hnow & _ & _ & HX & HND & HF & HG & _).
    pose proof (R.Idx_get _ _ _ HX Hj Hn) as Hid. destruct (R.nthZ_nat _ _ _ Hn) as [_ Hn'].
    pose proof (HG _ _ Hn') as (N1 & N2 & N3 & N4 & N5).
    unfold NodeT in N5. rewrite Hid in N5. unfold ncf in N5. rewrite Hc in N5. destruct N5 as [T1 T2].
    set (es := if nc_slotted nc || nd_inf nd then scan_inds (now s) (all_individuals nd) (inds s) None [] else scan_servers (n_servers nd) None []) in H.
    (* the end-of-service candidate *)
    assert (Hes : dle (Some t) (fst es) /\ (nd_inf nd = false -> nc_slotted nc = false -> Forall (fun sv => dle (fst es) (sv_next_end sv)) (n_servers nd))).
    { unfold es. destruct (nc_slotted nc || nd_inf nd) eqn:Eb.
      - split; [|intros Hi Hs; rewrite Hi, Hs in Eb; discriminate].
        destruct (scan_inds (now s) (all_individuals nd) (inds s) None []) as [d0 l0] eqn:Es. cbn [fst]. rewrite <- Hnow. eapply scan_inds_ge; [exact Es|exact Logic.I].
      - apply orb_false_iff in Eb as [Eb1 Eb2]. destruct (scan_servers (n_servers nd) None []) as [d0 l0] eqn:Es. cbn [fst].
        destruct (scan_servers_spec _ _ _ _ _ Es) as (_ & B & C). split; [|intros _ _; exact B].
        destruct C as [->|(sv & Hin & ->)]; [exact Logic.I|]. specialize (T1 Eb2 Eb1). rewrite Forall_forall in T1. apply (T1 sv Hin). }
    destruct Hes as [Hes1 Hes2].
    minv H rn s1 E5.
    assert (Hrn : s1 = s /\ dle (Some t) (fst rn) /\
                  (nd_inf nd = false -> nc_reneging nc = true -> forall i z, In i (all_individuals nd) -> R.waiting_at (inds s) i z -> dle (fst rn) (Some z)) /\
                  (nc_reneging nc = false -> fst rn = None)).
    { destruct (negb (nd_inf nd) && nc_reneging nc) eqn:Eb.
      - apply R.lift_inv in E5 as [E5 ->]. split; [reflexivity|]. apply andb_true_iff in Eb as [Eb1 Eb2]. apply negb_true_iff in Eb1.
        destruct rn as [rd rl]. destruct (R.scan_ren_min _ _ _ _ E5) as (_ & G2 & G3 & G4 & _). cbn [fst]. split; [|split; [intros _ _; exact G2|intros Hr; rewrite Eb2 in Hr; discriminate]].
        destruct rd as [z0|]; [|exact Logic.I]. destruct rl as [|i rl]; [exfalso; apply G4; [discriminate|reflexivity]|].
        destruct (G3 i (or_introl eq_refl)) as (Hq & z & (x & Hx & Hxr & Hxs) & Hz). injection Hz as <-.
        destruct (N3 _ Hq) as (_ & _ & Hl). rewrite Forall_forall in HF. destruct (HF x (R.find_ind_In _ _ _ Hx)) as (_ & _ & XC).
        destruct (XC eq_refl) as [(j' & Hj' & Hl') HP]. rewrite (R.find_ind_id _ _ _ Hx), Hl in Hl'. injection Hl' as <-.
        cbn. apply (HP (n_id nd) z0 Hj'); [unfold ren_at, ncf; rewrite Hid, Hc; exact Eb2|rewrite <- N1; exact Eb1|exact Hxr|exact Hxs].
      - apply R.ret_inv in E5 as [-> ->]. split; [reflexivity|]. split; [exact Logic.I|]. split; [|reflexivity]. intros Hi Hr. rewrite Hi, Hr in Eb. discriminate. }
    destruct Hrn as (-> & Hrn1 & Hrn2 & Hrn3). clear E5.
    set (cc := if cf_dyn cf && negb (nd_inf nd) then (n_nccd nd, match n_ncci nd with Some i => [i] | None => [] end) else (None, [])) in H.
    assert (Hcc : fst cc = None) by (unfold cc; rewrite Hdyn; reflexivity).
    set (sh := match nc_srv nc with
               | SSched _ => [(1, (n_next_shift nd, []))]
               | SSlot sl => [(4, (Some (snd (slot_values sl (Z.to_nat (n_spos nd)))), []))]
               | SFixed => [] end) in H.
    assert (Hgen : forall d l ty, dle (Some t) d -> dle d (fst es) -> dle d (fst rn) ->
                     match nc_srv nc with SFixed => True | SSched _ => dle d (n_next_shift nd)
                                     | SSlot sl => dle d (Some (slotdate sl (Z.to_nat (n_spos nd)))) end ->
                     Fresh (inds s) (nd <| n_next_date := d |> <| n_next_inds := l |> <| n_next_type := ty |>)).
    { intros d l ty G1 G2 G3 G4. unfold Fresh. cbn [n_next_date n_id n_servers n_next_shift n_spos set]. split; [exact G1|].
      exists nc. split; [unfold ncf; rewrite Hid; exact Hc|]. split; [|split; [exact G4|]].
      - intros Hi Hs. specialize (Hes2 Hi Hs). eapply Forall_impl; [|exact Hes2]. intros sv Hsv. eapply R.dle_trans; [exact G2|exact Hsv].
      - intros Hi Hr i z Hq Hw. eapply R.dle_trans; [exact G3|]. exact (Hrn2 Hi Hr i z Hq Hw). }
    destruct (nc_reneging nc || cf_dyn cf || nc_sched nc) eqn:Eg.
    - destruct (decide_next_event (sh ++ [(0, es); (3, cc); (2, rn)]) (5, (None, []))) as [ty [d l]] eqn:ED.
      unfold put_node in H. apply R.modify_inv in H. exists nd, d, l, ty. repeat (split; [assumption|]).
      pose proof (R.dne_spec (sh ++ [(0, es); (3, cc); (2, rn)]) (5, (None, []))) as DS. cbv zeta in DS. rewrite ED in DS. cbn [fst snd] in DS.
      destruct DS as (DA & _ & DC). rewrite Forall_forall in DC.
      assert (Hall : forall c, In c (sh ++ [(0, es); (3, cc); (2, rn)]) -> dle (Some t) (fst (snd c))).
      { intros c Hin. apply in_app_or in Hin as [Hin|Hin].
        - unfold sh in Hin. destruct (nc_srv nc) as [|sc|sl]; [destruct Hin| |]; destruct Hin as [<-|[]]; cbn [fst snd].
          + destruct T2 as (_ & -> & T2). exact T2.
          + destruct T2 as (_ & T2). exact T2.
        - destruct Hin as [<-|[<-|[<-|[]]]]; cbn [fst snd]; [exact Hes1|rewrite Hcc; exact Logic.I|exact Hrn1]. }
      apply Hgen.
      + destruct DA as [DA|(DA & _)]; [injection DA as _ -> _; exact Logic.I|]. apply (Hall _ DA).
      + apply (DC (0, es)). apply in_or_app. right. left. reflexivity.
      + apply (DC (2, rn)). apply in_or_app. right. right. right. left. reflexivity.
      + unfold sh in DC. destruct (nc_srv nc) as [|sc|sl]; [exact Logic.I| |].
        * apply (DC (1, (n_next_shift nd, []))). left. reflexivity.
        * apply (DC (4, (Some (snd (slot_values sl (Z.to_nat (n_spos nd)))), []))). left. reflexivity.
    - unfold put_node in H. apply R.modify_inv in H. exists nd, (fst es), (snd es), 0. repeat (split; [assumption|]).
      apply orb_false_iff in Eg as [Eg Eg3]. apply orb_false_iff in Eg as [Eg1 Eg2].
      apply Hgen; [exact Hes1|apply R.dle_refl| |].
      + rewrite (Hrn3 Eg1). destruct (fst es); exact Logic.I.
      + unfold nc_sched in Eg3. destruct (nc_srv nc); [exact Logic.I|discriminate|discriminate].
  Qed.

  Lemma map_upd_same {A B} (f : A -> B) : forall (l : list A) k x y, nth_error l k = Some y -> f x = f y -> map f (upd l k x) = map f l.
  Proof. induction l as [|a l IH]; intros [|k] x y H E; cbn in *; try discriminate; [injection H as ->; rewrite E; reflexivity|f_equal; eauto]. Qed.

  Definition U (P : Z -> Prop) (s : sim) : Prop := forall k nd, nth_error (nodes s) k = Some nd -> P (n_id nd) -> Fresh (inds s) nd.

  Lemma une_keeps loc cr j P s s' : Inv loc TNone cr s -> U P s -> update_next_event_date cf j s = Ok (tt, s') ->
    Inv loc TNone cr s' /\ U (fun x => x = j \/ P x) s' /\ map n_id (nodes s') = map n_id (nodes s).
  Proof.
    intros HI HU H. destruct (une_spec _ _ _ _ _ HI H) as (nd & d & l & ty & Hj & Hn & Hid & -> & HF).
    set (nd' := nd <| n_next_date := d |> <| n_next_inds := l |> <| n_next_type := ty |>) in *.
    pose proof HI as (_ & _ & _ & HX & _ & _ & HG & _). destruct (R.nthZ_nat _ _ _ Hn) as [Hj0 Hn'].
    assert (Hok : NodeOK loc TNone cr nd') by (apply (NodeOK_nrel _ _ _ nd _ (HG _ _ Hn')); try reflexivity; intros HS; exact HS).
    split; [change (n_id nd) with (n_id nd'); apply Inv_put_node; assumption|]. cbn [nodes inds set].
    rewrite Hid. unfold updZ. destruct (j - 1 <? 0) eqn:Ej; [apply Z.ltb_lt in Ej; lia|]. split.
    - intros k x Hk HPx. cbn [nodes inds set] in Hk |- *.
      destruct (R.nth_error_upd_cases _ _ _ _ _ Hk) as [[-> ->]|[Hne Hk']]; [exact HF|].
      apply (HU k x Hk'). destruct HPx as [HPx|HPx]; [|exact HPx]. exfalso. apply Hne. pose proof (HX _ _ Hk'). lia.
    - eapply map_upd_same; [exact Hn'|reflexivity].
  Qed.

  Lemma update_all_keeps loc cr : forall js P s s', Inv loc TNone cr s -> U P s -> update_all cf js s = Ok (tt, s') ->
    Inv loc TNone cr s' /\ U (fun x => In x js \/ P x) s' /\ map n_id (nodes s') = map n_id (nodes s).
  Proof.
    induction js as [|j r IH]; intros P s s' HI HU H; cbn [update_all] in H.
    - apply R.ret_inv in H as [_ ->]. split; [exact HI|split; [|reflexivity]]. intros k nd Hk [[]|Hp]. eapply HU; eauto.
    - minv H u s1 E. destruct u. destruct (une_keeps _ _ _ _ _ _ HI HU E) as (K1 & U1 & M1).
      destruct (IH _ _ _ K1 U1 H) as (K2 & U2 & M2). split; [exact K2|split; [|congruence]].
      intros k nd Hk Hp. apply (U2 k nd Hk). destruct Hp as [[<-|Hp]|Hp]; auto.
  Qed.

  (* one event up to the choice of the next active node *)
  Lemma event_body_keeps s s2 : InvX TNone s -> R.have_event cf s = Ok (tt, s2) ->
    forall s3, update_all cf (map n_id (nodes s2)) s2 = Ok (tt, s3) ->
    exists loc cr, Inv loc TNone cr s3 /\ forall k nd, nth_error (nodes s3) k = Some nd -> Fresh (inds s3) nd.
  Proof.
    intros HI E1 s3 E2. destruct (sp_have_event _ _ _ HI E1) as [(loc & cr & HI2) _].
    destruct (update_all_keeps loc cr _ (fun _ => False) _ _ HI2 ltac:(intros k nd _ []) E2) as (K3 & U3 & M3).
    exists loc, cr. split; [exact K3|]. intros k nd Hk. apply (U3 k nd Hk). left. rewrite <- M3. apply in_map. eapply nth_error_In; eauto.
  Qed.
End Clock2.

(* ================================================================================================================ *)
(* from one event to the next                                                                                       *)
(* ================================================================================================================ *)
Definition dates_of (s : sim) : list (option Z) := a_next_date (arr s) :: map n_next_date (nodes s).
(* no node's next event is in the past *)
Definition Nxt (s : sim) : Prop := forall nd, In nd (nodes s) -> dle (Some (now s)) (n_next_date nd).
(* the active node's date is the clock (or nothing at all is scheduled) *)
Definition Act (s : sim) : Prop :=
  0 <= next_active s /\
  exists d, nth_error (dates_of s) (Z.to_nat (next_active s)) = Some d /\
            (d = Some (now s) \/ (d = None /\ Forall (fun x => x = None) (dates_of s))).

Lemma dle_None a : dle None a -> a = None.
Proof. destruct a; cbn; [tauto|reflexivity]. Qed.

(* find_next_active_node: the clock moves to the earliest of all next dates, the active node is one that attains it *)
Lemma fnan_spec s s' : find_next_active_node s = Ok (tt, s') ->
  nodes s' = nodes s /\ inds s' = inds s /\ arr s' = arr s /\
  (d_svc (dr s') = d_svc (dr s) /\ d_arr (dr s') = d_arr (dr s) /\ d_ren (dr s') = d_ren (dr s) /\ d_cct (dr s') = d_cct (dr s)) /\
  exists d, now s' = (match d with Some e => e | None => now s end) /\ Forall (dle d) (dates_of s) /\
            0 <= next_active s' /\ nth_error (dates_of s) (Z.to_nat (next_active s')) = Some d.
Proof.
  intros H. unfold find_next_active_node in H. minv H s0 s1 E. apply R.gets_inv in E as [-> ->]. cbv zeta in H.
  fold (dates_of s) in H.
  destruct (scan_active 0 (dates_of s) None []) as [d cands] eqn:ES.
  destruct (R.scan_active_spec _ _ _ _ _ _ ES) as (_ & SB & SC).
  minv H k s1 E.
  assert (Hk : In k cands /\ nodes s1 = nodes s /\ inds s1 = inds s /\ arr s1 = arr s /\ now s1 = now s /\
               (d_svc (dr s1) = d_svc (dr s) /\ d_arr (dr s1) = d_arr (dr s) /\ d_ren (dr s1) = d_ren (dr s) /\ d_cct (dr s1) = d_cct (dr s))).
  { destruct cands as [|a [|b r]].
    - discriminate.
    - apply R.ret_inv in E as [-> ->]. split; [left; reflexivity|repeat split; reflexivity].
    - apply R.choice_uniform_inv in E as (Hin & u & rest & _ & ->). split; [exact Hin|repeat split; reflexivity]. }
  destruct Hk as (Hk & K1 & K2 & K3 & K4 & K5).
  apply R.modify_inv in H. subst s'. cbn [nodes inds arr dr now next_active set]. rewrite K1, K2, K3, K4. repeat (split; [first [reflexivity|exact K5]|]).
  exists d. split; [reflexivity|]. split; [exact SB|].
  destruct (SC k Hk) as [[[] _]|(n & -> & Hn)]. split; [lia|]. replace (Z.to_nat (0 + Z.of_nat n)) with n by lia. exact Hn.
Qed.

Lemma ArrOK_next t a : ArrOK t a -> dle (Some t) (a_next_date a).
Proof.
  intros (A & _ & [->|(row & Hr & Hc)]); [exact I|].
  apply R.nthZ_In in Hr. apply R.nthZ_In in Hc. rewrite Forall_forall in A. specialize (A _ Hr). rewrite Forall_forall in A. apply (A _ Hc).
Qed.

Lemma Inv_now cf inf_at t nn loc cr s2 s' : Inv cf inf_at t nn loc TNone cr s2 ->
  (forall k nd, nth_error (nodes s2) k = Some nd -> Fresh cf t (inds s2) nd) ->
  find_next_active_node s2 = Ok (tt, s') ->
  Inv cf inf_at (now s') nn loc TNone cr s' /\ t <= now s' /\ Nxt s' /\ Act s'.
Proof.
  intros (A & B & C & D0 & E & F & G & H & K & L) HU HF.
  destruct (fnan_spec _ _ HF) as (N1 & N2 & N3 & N4 & d & Hnow & Hall & Hact0 & Hnth).
  rewrite Forall_forall in F, Hall.
  assert (Hds : forall x, In x (dates_of s2) -> dle (Some t) x).
  { intros x [<-|Hx]; [apply ArrOK_next; exact K|]. apply in_map_iff in Hx as (nd & <- & Hin). apply In_nth_error in Hin as [k Hk]. apply (HU k nd Hk). }
  set (t' := now s') in *.
  assert (GG : forall x, In x (dates_of s2) -> dle (Some t') x).
  { intros x Hx. specialize (Hall x Hx). rewrite Hnow. destruct d as [e|]; [exact Hall|]. apply dle_None in Hall. subst x. exact I. }
  assert (Ht : t <= t').
  { specialize (Hds d (nth_error_In _ _ Hnth)). rewrite Hnow. destruct d as [e|]; [exact Hds|lia]. }
  assert (Gn : forall k nd, nth_error (nodes s2) k = Some nd -> dle (Some t') (n_next_date nd)).
  { intros k nd Hk. apply GG. right. apply in_map. eapply nth_error_In; eauto. }
  (* every waiting customer of a finite node with reneging bounds that node's next date, hence the new clock *)
  assert (Bound : forall y j z, In y (inds s2) -> i_node y = Some j -> loc (i_id y) = Some j -> ren_at cf j = true -> inf_at j = false ->
                    i_ren y = XV z -> i_server y = None -> t' <= z).
  { intros y j z Hy Hj Hl Hr Hi Hz Hs.
    destruct (H _ _ Hl) as [Hj1 Hj2].
    destruct (nth_error (nodes s2) (Z.to_nat (j - 1))) as [nd|] eqn:Hk; [|apply nth_error_None in Hk; lia].
    pose proof (D0 _ _ Hk) as Hid. destruct (G _ _ Hk) as (M1 & M2 & M3 & M4 & M5).
    assert (Hidj : n_id nd = j) by lia.
    assert (Hin : In (i_id y) (all_individuals nd)) by (apply M4; [reflexivity|rewrite Hidj; exact Hl]).
    destruct (HU _ _ Hk) as (_ & nc & Hc & _ & _ & HR). rewrite Hidj in Hc.
    unfold ren_at in Hr. rewrite Hc in Hr.
    assert (Hw : R.waiting_at (inds s2) (i_id y) z) by (exists y; split; [apply R.find_ind_NoDup; assumption|auto]).
    assert (Hdz : dle (n_next_date nd) (Some z)) by (apply (HR ltac:(rewrite M1, Hidj; exact Hi) Hr _ _ Hin Hw)).
    pose proof (R.dle_trans _ _ _ (Gn _ _ Hk) Hdz) as Hfin. exact Hfin. }
  split; [|split; [exact Ht|split]].
  - unfold Inv. split; [reflexivity|]. split; [rewrite N3; exact B|]. split; [rewrite N1; exact C|]. split; [unfold Idx; rewrite N1; exact D0|].
    split; [rewrite N2; exact E|]. split; [|split; [|split; [exact H|split]]].
    + rewrite N2. apply Forall_forall. intros y Hy. destruct (F y Hy) as (YA & YB & YC). split; [exact YA|]. split; [exact YB|].
      intros Ho. destruct (YC Ho) as [(j & Hj & Hl) HP]. split; [exists j; auto|].
      intros j' z Hj' Hr Hi Hz Hs. rewrite Hj in Hj'. injection Hj' as <-. eapply Bound; eauto.
    + rewrite N1. intros k nd Hk. destruct (G _ _ Hk) as (M1 & M2 & M3 & M4 & M5). repeat (split; [assumption|]).
      destruct (HU _ _ Hk) as (_ & nc & Hc & HS & HT & _). unfold NodeT in *. rewrite Hc in *. destruct M5 as [T1 T2]. split.
      * intros Hi Hs. specialize (HS Hi Hs). eapply Forall_impl; [|exact HS]. intros sv Hsv. unfold SvOK. eapply R.dle_trans; [apply (Gn _ _ Hk)|exact Hsv].
      * destruct (nc_srv nc) as [|sc|sl]; [exact I| |].
        -- destruct T2 as (T2 & T3 & T4). split; [exact T2|]. split; [exact T3|]. rewrite T3 in HT. exact (R.dle_trans _ _ _ (Gn _ _ Hk) HT).
        -- destruct T2 as (T2 & T3). split; [exact T2|]. exact (R.dle_trans _ _ _ (Gn _ _ Hk) HT).
    + rewrite N3. destruct K as (K1 & K2 & K3). split; [|split; [exact K2|exact K3]].
      eapply Forall_impl; [|exact K2]. intros row Hrow. eapply Forall_impl; [|exact Hrow]. intros x Hx.
      eapply R.dle_trans; [|exact Hx]. apply GG. left. reflexivity.
    + destruct L as (L1 & L2 & L3 & L4). destruct N4 as (E1 & E2 & E3 & E4). unfold DrawsOK. rewrite E1, E2, E3, E4. auto.
  - intros nd Hin. rewrite N1 in Hin. apply GG. right. apply in_map. exact Hin.
  - assert (Hdates : dates_of s' = dates_of s2) by (unfold dates_of; rewrite N1, N3; reflexivity).
    unfold Act. rewrite Hdates. split; [exact Hact0|]. exists d. split; [exact Hnth|].
    fold t'. rewrite Hnow. destruct d as [e|]; [left; reflexivity|right; split; [reflexivity|]].
    apply Forall_forall. intros x Hx. apply dle_None. apply Hall. exact Hx.
Qed.

(* ================================================================================================================ *)
(* the invariant between events, closed form                                                                        *)
(* ================================================================================================================ *)
Lemma Inv_ext cf inf_at inf_at' t nn loc loc' tr cr s :
  (forall id, loc' id = loc id) -> (forall j, 1 <= j <= Z.of_nat nn -> inf_at' j = inf_at j) ->
  Inv cf inf_at t nn loc tr cr s -> Inv cf inf_at' t nn loc' tr cr s.
Proof.
  intros HL HF (A & B & C & D0 & E & F & G & H & K & L). unfold Inv. repeat (split; [assumption|]). split; [|split; [|split; [|auto]]].
  - eapply Forall_impl; [|exact F]. intros y (YA & YB & YC). split; [exact YA|]. split; [exact YB|].
    intros Ho. destruct (YC Ho) as [(j & Hj & Hl) HP]. split; [exists j; rewrite HL; auto|].
    intros j' z Hj' Hr Hi. apply (HP j' z Hj' Hr). rewrite <- HF; [exact Hi|]. rewrite Hj in Hj'. injection Hj' as <-. eapply H; eauto.
  - intros k nd Hk. destruct (G _ _ Hk) as (M1 & M2 & M3 & M4 & M5). pose proof (D0 _ _ Hk) as Hid.
    assert (Hlt : (k < length (nodes s))%nat) by (apply nth_error_Some; rewrite Hk; discriminate).
    split; [rewrite HF; [exact M1|lia]|]. split; [exact M2|]. split; [|split; [|exact M5]].
    + intros id Hi. rewrite HL. apply M3. exact Hi.
    + intros id Ho Hl. rewrite HL in Hl. apply M4; assumption.
  - intros id j Hl. rewrite HL in Hl. eapply H; eauto.
Qed.

Lemma Inv_canon cf inf_at t nn loc cr s : Inv cf inf_at t nn loc TNone cr s ->
  (forall j nc sc, nthZ (cf_nodes cf) (j - 1) = Some nc -> nc_srv nc = SSched sc -> inf_at j = false) ->
  Inv cf (R.inf_of s) t (length (nodes s)) (R.loc_q s) TNone (a_created (arr s)) s /\ R.sched_fin cf s.
Proof.
  intros HI Hsch. pose proof HI as (A & B & C & D0 & E & F & G & H & K & L).
  assert (Hinf : forall j, 1 <= j <= Z.of_nat nn -> R.inf_of s j = inf_at j).
  { intros j Hj. unfold R.inf_of, nthZ. destruct (j - 1 <? 0) eqn:Ej; [apply Z.ltb_lt in Ej; lia|].
    destruct (nth_error (nodes s) (Z.to_nat (j - 1))) as [nd|] eqn:Hk; [|apply nth_error_None in Hk; lia].
    destruct (G _ _ Hk) as (M1 & _). rewrite M1. f_equal. rewrite (D0 _ _ Hk). lia. }
  split.
  - rewrite B, C. apply (Inv_ext cf inf_at (R.inf_of s) t nn loc (R.loc_q s)); [|exact Hinf|exact HI].
    intros id. unfold R.loc_q. destruct (R.find_q (nodes s) id) as [j|] eqn:Eq.
    + destruct (R.find_q_Some _ _ _ Eq) as (nd & Hin & Hid & Hi). apply In_nth_error in Hin as [k Hk]. destruct (G _ _ Hk) as (_ & _ & M3 & _).
      destruct (M3 _ Hi) as (_ & _ & Hl). rewrite Hl, Hid. reflexivity.
    + destruct (loc id) as [j|] eqn:El; [|reflexivity]. exfalso. destruct (H _ _ El) as [Hj1 Hj2].
      destruct (nth_error (nodes s) (Z.to_nat (j - 1))) as [nd|] eqn:Hk; [|apply nth_error_None in Hk; lia].
      destruct (G _ _ Hk) as (_ & _ & _ & M4 & _). apply (R.find_q_None _ _ Eq nd (nth_error_In _ _ Hk)). apply M4; [reflexivity|]. rewrite El, (D0 _ _ Hk). f_equal. lia.
  - intros j nc sc Hc Hs. destruct (Z_le_dec 1 j) as [Hj1|Hj1]; [destruct (Z_le_dec j (Z.of_nat nn)) as [Hj2|Hj2]|].
    + rewrite Hinf by lia. eapply Hsch; eauto.
    + unfold R.inf_of, nthZ. destruct (j - 1 <? 0); [reflexivity|]. destruct (nth_error (nodes s) (Z.to_nat (j - 1))) eqn:Hk; [|reflexivity].
      assert (Hlt : (Z.to_nat (j - 1) < length (nodes s))%nat) by (apply nth_error_Some; rewrite Hk; discriminate). lia.
    + unfold R.inf_of, nthZ. destruct (j - 1 <? 0) eqn:Ej; [reflexivity|apply Z.ltb_ge in Ej; lia].
Qed.

(* the scope of the theorems: no pre-emption of any kind (no priority pre-emption, no pre-emptive schedule, no pre-emptive
   capacitated slot), no class change while waiting, and timetables whose dates increase *)
Definition scope (c : config) : bool := R.nopre c && negb (cf_dyn c) && wf_times c.

(* the invariant: every date the state carries is at or after the clock, every customer is in the queue of its node, and the
   node that acts next does so at the clock *)
Definition Clk2 (cf : config) (s : sim) : Prop :=
  Inv cf (R.inf_of s) (now s) (length (nodes s)) (R.loc_q s) TNone (a_created (arr s)) (s <| dr := R.nodraws |>) /\
  R.sched_fin cf s /\ Nxt s /\ Act s.

Lemma DrawsOK_nodraws : DrawsOK R.nodraws.
Proof. unfold DrawsOK, nonneg. cbn. repeat split; constructor. Qed.

(* ---------- T2 for C02: one event ---------- *)
Theorem event_step_clk2 cf s d s' : scope cf = true -> Clk2 cf s -> DrawsOK d ->
  event_step cf (s <| dr := d |>) = Ok (tt, s') -> Clk2 cf s' /\ now s <= now s'.
Proof.
  intros Hsc (HI & HS & _ & _) Hd H. unfold scope in Hsc. apply andb_true_iff in Hsc as [Hsc Hwf]. apply andb_true_iff in Hsc as [Hpre Hdyn].
  apply negb_true_iff in Hdyn.
  pose proof (Inv_dr_tail _ _ _ _ _ _ _ _ d HI Hd) as HI0. change (s <| dr := R.nodraws |> <| dr := d |>) with (s <| dr := d |>) in HI0.
  destruct (R.event_step_inv _ _ _ H) as (s1 & s2 & E1 & E2 & E3).
  destruct (event_body_keeps cf (R.inf_of s) (now s) (length (nodes s)) Hpre Hdyn Hwf HS _ _ (InvX_of _ _ _ _ _ _ _ _ HI0) E1 _ E2) as (loc & cr & HI2 & HU).
  destruct (Inv_now _ _ _ _ _ _ _ _ HI2 HU E3) as (HI3 & Hle & HN & HA).
  split; [|exact Hle].
  destruct (Inv_canon _ _ _ _ _ _ _ HI3 HS) as [HI4 HS4]. split; [|split; [exact HS4|split; [exact HN|exact HA]]].
  apply Inv_dr_tail; [exact HI4|apply DrawsOK_nodraws].
Qed.

(* ---------- any number of events, each with its own draws ---------- *)
Theorem run_many_clk2 cf : scope cf = true -> forall ds s s', Clk2 cf s -> Forall DrawsOK ds -> run_many cf s ds = Ok s' ->
  Clk2 cf s' /\ now s <= now s'.
Proof.
  intros Hsc. induction ds as [|d r IH]; intros s s' HC HD H; cbn [run_many] in H; [injection H as <-; split; [exact HC|lia]|].
  destruct (event_step cf (s <| dr := d |>)) as [[[] s1]| |] eqn:E; try discriminate.
  inversion HD as [|? ? Hd Hr]; subst.
  destruct (event_step_clk2 _ _ _ _ Hsc HC Hd E) as [C1 L1].
  destruct (IH _ _ C1 Hr H) as [C2 L2]. split; [exact C2|lia].
Qed.

(* the clock read after any prefix of a run is at most the clock read later *)
Corollary run_many_monotone2 cf : scope cf = true -> forall ds1 ds2 s s1 s2, Clk2 cf s -> Forall DrawsOK ds1 -> Forall DrawsOK ds2 ->
  run_many cf s ds1 = Ok s1 -> run_many cf s1 ds2 = Ok s2 -> now s <= now s1 <= now s2.
Proof.
  intros Hsc ds1 ds2 s s1 s2 HC H1 H2 R1 R2. destruct (run_many_clk2 _ Hsc _ _ _ HC H1 R1) as [C1 L1].
  destruct (run_many_clk2 _ Hsc _ _ _ C1 H2 R2) as [_ L2]. lia.
Qed.

(* ---------- the invariant in the words of the property ---------- *)
Definition nothing_scheduled (s : sim) : Prop := a_next_date (arr s) = None /\ forall nd, In nd (nodes s) -> n_next_date nd = None.

Theorem Clk2_means cf s : Clk2 cf s ->
  (* no arrival is scheduled in the past; the arrival node's next date is the earliest arrival date, stored where it says *)
  (forall row e, In row (a_dates (arr s)) -> In (Some e) row -> now s <= e) /\
  (forall row d, In row (a_dates (arr s)) -> In d row -> dle (a_next_date (arr s)) d) /\ Loc (arr s) /\
  (* no node's next event is in the past *)
  (forall nd e, In nd (nodes s) -> n_next_date nd = Some e -> now s <= e) /\
  (* no end of service is scheduled in the past (nodes with servers) *)
  (forall nd nc sv e, In nd (nodes s) -> nthZ (cf_nodes cf) (n_id nd - 1) = Some nc -> nd_inf nd = false -> nc_slotted nc = false ->
     In sv (n_servers nd) -> sv_next_end sv = Some e -> now s <= e) /\
  (* the next shift change is the one the timetable prescribes for the node's position and is not in the past; nor is the next slot *)
  (forall nd nc sc, In nd (nodes s) -> nthZ (cf_nodes cf) (n_id nd - 1) = Some nc -> nc_srv nc = SSched sc ->
     n_next_shift nd = Some (D (sc_b sc) (sc_off sc) (Z.to_nat (n_spos nd))) /\ now s <= D (sc_b sc) (sc_off sc) (Z.to_nat (n_spos nd))) /\
  (forall nd nc sl, In nd (nodes s) -> nthZ (cf_nodes cf) (n_id nd - 1) = Some nc -> nc_srv nc = SSlot sl ->
     now s <= slotdate sl (Z.to_nat (n_spos nd))) /\
  (* no waiting customer of a node with servers and reneging has a reneging date in the past *)
  (forall nd nc i x z, In nd (nodes s) -> nthZ (cf_nodes cf) (n_id nd - 1) = Some nc -> nc_reneging nc = true -> nd_inf nd = false ->
     In i (all_individuals nd) -> find_ind i (inds s) = Some x -> i_server x = None -> i_ren x = XV z -> now s <= z) /\
  (* the event that is executed next is scheduled exactly at the current time (unless nothing at all is scheduled) *)
  (next_active s = 0 -> a_next_date (arr s) = Some (now s) \/ nothing_scheduled s) /\
  (next_active s <> 0 -> exists nd, nth_error (nodes s) (Z.to_nat (next_active s - 1)) = Some nd /\ n_id nd = next_active s /\
                                   (n_next_date nd = Some (now s) \/ nothing_scheduled s)).
Proof.
  intros ((A & B & C & D0 & E & F & G & H & (A1 & A2 & A3) & L) & HS & HN & (H0 & d & Hd & Hact)).
  cbn [now arr nodes inds dr set] in *.
  assert (Hno : Forall (fun x => x = None) (dates_of s) -> nothing_scheduled s).
  { intros HF. unfold dates_of in HF. inversion HF as [|? ? Ha Hr]; subst. split; [exact Ha|]. intros nd Hin. rewrite Forall_forall in Hr. apply Hr. apply in_map. exact Hin. }
  assert (HT : forall nd, In nd (nodes s) -> NodeT cf (now s) nd /\ nd_inf nd = R.inf_of s (n_id nd) /\
                 forall id, In id (all_individuals nd) -> R.loc_q s id = Some (n_id nd)).
  { intros nd Hin. apply In_nth_error in Hin as [k Hk]. destruct (G _ _ Hk) as (M1 & _ & M3 & _ & M5). split; [exact M5|]. split; [exact M1|].
    intros id Hi. apply (M3 id Hi). }
  split; [|split; [|split; [exact A3|split; [|split; [|split; [|split; [|split; [|split]]]]]]]].
  - intros row e Hr He. rewrite Forall_forall in A1. specialize (A1 _ Hr). rewrite Forall_forall in A1. apply (A1 _ He).
  - intros row x Hr Hx. rewrite Forall_forall in A2. specialize (A2 _ Hr). rewrite Forall_forall in A2. apply (A2 _ Hx).
  - intros nd e Hin He. specialize (HN nd Hin). rewrite He in HN. exact HN.
  - intros nd nc sv e Hin Hc Hi Hs Hsv He. destruct (HT nd Hin) as (T & _). unfold NodeT, ncf in T. rewrite Hc in T. destruct T as [T _].
    specialize (T Hi Hs). rewrite Forall_forall in T. specialize (T sv Hsv). unfold SvOK in T. rewrite He in T. exact T.
  - intros nd nc sc Hin Hc Hs. destruct (HT nd Hin) as (T & _). unfold NodeT, ncf in T. rewrite Hc in T. destruct T as [_ T]. rewrite Hs in T. tauto.
  - intros nd nc sl Hin Hc Hs. destruct (HT nd Hin) as (T & _). unfold NodeT, ncf in T. rewrite Hc in T. destruct T as [_ T]. rewrite Hs in T. tauto.
  - intros nd nc i x z Hin Hc Hr Hi Hq Hx Hsv Hz. destruct (HT nd Hin) as (_ & Hinf & Hl).
    rewrite Forall_forall in F. destruct (F x (R.find_ind_In _ _ _ Hx)) as (_ & _ & XC). destruct (XC eq_refl) as [(j & Hj & Hlj) HP].
    rewrite (R.find_ind_id _ _ _ Hx), (Hl i Hq) in Hlj. injection Hlj as <-.
    apply (HP (n_id nd) z Hj); [unfold ren_at, ncf; rewrite Hc; exact Hr|rewrite <- Hinf; exact Hi|exact Hz|exact Hsv].
  - intros Hz. rewrite Hz in Hd. cbn in Hd. injection Hd as <-. destruct Hact as [Hx|[Hx Hall]]; [left; exact Hx|right; apply Hno; exact Hall].
  - intros Hnz. unfold dates_of in Hd. replace (Z.to_nat (next_active s)) with (S (Z.to_nat (next_active s - 1))) in Hd by lia.
    change (nth_error (a_next_date (arr s) :: map n_next_date (nodes s)) (S (Z.to_nat (next_active s - 1)))) with (nth_error (map n_next_date (nodes s)) (Z.to_nat (next_active s - 1))) in Hd.
    rewrite nth_error_map in Hd. destruct (nth_error (nodes s) (Z.to_nat (next_active s - 1))) as [nd|] eqn:En; [|discriminate]. cbn in Hd. injection Hd as <-.
    exists nd. split; [reflexivity|]. split; [rewrite (D0 _ _ En); lia|].
    destruct Hact as [Hx|[Hx Hall]]; [left; exact Hx|right; apply Hno; exact Hall].
Qed.

(* ---------- an executable test of the invariant ---------- *)
Definition dleb (a b : option Z) : bool :=
  match a, b with _, None => true | None, Some _ => false | Some x, Some y => x <=? y end.
Lemma dleb_dle a b : dleb a b = true -> dle a b.
Proof. destruct a, b; cbn; intros H; try discriminate; try exact I. apply Z.leb_le. exact H. Qed.
Definition nnb (o : option Z) : bool := match o with Some v => 0 <=? v | None => true end.
Lemma nnb_NN o : nnb o = true -> NN o.
Proof. destruct o as [v|]; cbn; intros H; [apply NN_Some; apply Z.leb_le; exact H|apply NN_None]. Qed.
Definition dnoneb (d : option Z) : bool := match d with None => true | Some _ => false end.

Definition ren_ok_b (t : Z) (x : ind) : bool :=
  match i_ren x with XV z => (match i_server x with None => t <=? z | Some _ => true end) | _ => true end.
Definition ind_ok_b (cf : config) (s : sim) (x : ind) : bool :=
  (i_id x <=? a_created (arr s)) && nnb (i_stime x) && nnb (i_ost x) && nnb (i_tleft x) &&
  match i_node x with
  | Some j => (match R.loc_q s (i_id x) with Some j' => j' =? j | None => false end) &&
              (if ren_at cf j && negb (R.inf_of s j) then ren_ok_b (now s) x else true)
  | None => false
  end.
Definition node_t_b (cf : config) (t : Z) (nd : node) : bool :=
  match nthZ (cf_nodes cf) (n_id nd - 1) with
  | None => true
  | Some nc =>
    (nd_inf nd || nc_slotted nc || forallb (fun sv => dleb (Some t) (sv_next_end sv)) (n_servers nd)) &&
    match nc_srv nc with
    | SFixed => true
    | SSched sc => (0 <=? n_spos nd) && (match n_next_shift nd with Some e => e =? D (sc_b sc) (sc_off sc) (Z.to_nat (n_spos nd)) | None => false end) &&
                   (t <=? D (sc_b sc) (sc_off sc) (Z.to_nat (n_spos nd)))
    | SSlot sl => (0 <=? n_spos nd) && (t <=? slotdate sl (Z.to_nat (n_spos nd)))
    end
  end.
Definition node_ok_b (cf : config) (s : sim) (nd : node) : bool :=
  R.nodup_b (all_individuals nd) &&
  forallb (fun id => (id <=? a_created (arr s)) && (match R.loc_q s id with Some j => j =? n_id nd | None => false end)) (all_individuals nd) &&
  node_t_b cf (now s) nd.
Definition loc_b (a : arrst) : bool :=
  match a_next_date a with
  | None => true
  | Some e => match nthZ (a_dates a) (a_next_node a - 1) with
              | Some row => match nthZ row (a_next_cls a) with Some d => date_eqb d (Some e) | None => false end
              | None => false end
  end.
Definition arr_b (s : sim) : bool :=
  forallb (forallb (dleb (Some (now s)))) (a_dates (arr s)) && forallb (forallb (dleb (a_next_date (arr s)))) (a_dates (arr s)) && loc_b (arr s).
Definition nxt_b (s : sim) : bool := forallb (fun nd => dleb (Some (now s)) (n_next_date nd)) (nodes s).
Definition act_b (s : sim) : bool :=
  (0 <=? next_active s) &&
  match nth_error (dates_of s) (Z.to_nat (next_active s)) with
  | Some d => date_eqb d (Some (now s)) || (dnoneb d && forallb dnoneb (dates_of s))
  | None => false
  end.
Definition clk2_b (cf : config) (s : sim) : bool :=
  R.idx_b (nodes s) 1 && R.nodup_b (map i_id (inds s)) && forallb (ind_ok_b cf s) (inds s) && forallb (node_ok_b cf s) (nodes s) &&
  arr_b s && R.sched_fin_b (cf_nodes cf) s 1 && nxt_b s && act_b s.

Lemma forallb2_dle a (l : list (list (option Z))) : forallb (forallb (dleb a)) l = true -> Forall (Forall (dle a)) l.
Proof.
  intros H. apply Forall_forall. intros row Hr. apply Forall_forall. intros x Hx.
  rewrite forallb_forall in H. specialize (H _ Hr). rewrite forallb_forall in H. apply dleb_dle. apply (H _ Hx).
Qed.

Theorem clk2_b_sound cf s : clk2_b cf s = true -> Clk2 cf s.
Proof.
  unfold clk2_b. intros H.
  apply andb_true_iff in H as [H HAct]. apply andb_true_iff in H as [H HNx]. apply andb_true_iff in H as [H HS].
  apply andb_true_iff in H as [H HA]. apply andb_true_iff in H as [H HN]. apply andb_true_iff in H as [H HF]. apply andb_true_iff in H as [HX HE].
  assert (HI : Idx s) by (intros k nd Hk; rewrite (R.idx_b_sound _ _ HX _ _ Hk); lia).
  assert (Hlocq : forall id k nd, nth_error (nodes s) k = Some nd -> R.loc_q s id = Some (n_id nd) -> In id (all_individuals nd)).
  { intros id k nd Hk Hl. destruct (R.find_q_Some _ _ _ Hl) as (nd' & Hin & Hid & Hi). apply In_nth_error in Hin as [k' Hk'].
    assert (k' = k) by (pose proof (HI _ _ Hk); pose proof (HI _ _ Hk'); lia). subst k'. rewrite Hk in Hk'. injection Hk' as <-. exact Hi. }
  split; [|split; [|split]].
  - unfold Inv. cbn [now arr nodes inds dr set]. split; [reflexivity|]. split; [reflexivity|]. split; [reflexivity|]. split; [exact HI|].
    split; [apply R.nodup_b_sound; exact HE|]. split; [|split; [|split; [|split; [|apply DrawsOK_nodraws]]]].
    + apply Forall_forall. intros x Hx. rewrite forallb_forall in HF. specialize (HF x Hx). unfold ind_ok_b in HF.
      apply andb_true_iff in HF as [HF F5]. apply andb_true_iff in HF as [HF F4]. apply andb_true_iff in HF as [HF F3]. apply andb_true_iff in HF as [F1 F2].
      apply Z.leb_le in F1. split; [exact F1|]. split; [split; [apply nnb_NN; exact F2|split; [apply nnb_NN; exact F3|apply nnb_NN; exact F4]]|].
      intros _. destruct (i_node x) as [j|] eqn:Ej; [|discriminate]. apply andb_true_iff in F5 as [F5 F6].
      change (R.loc_q (s <| dr := R.nodraws |>)) with (R.loc_q s).
      destruct (R.loc_q s (i_id x)) as [j'|] eqn:El; [|discriminate]. apply Z.eqb_eq in F5. subst j'. split; [exists j; auto|].
      intros j0 z Hj0 Hr Hi Hz Hs. rewrite Ej in Hj0. injection Hj0 as <-. change (R.inf_of (s <| dr := R.nodraws |>) j) with (R.inf_of s j) in Hi. rewrite Hr, Hi in F6. cbn in F6.
      unfold ren_ok_b in F6. rewrite Hz, Hs in F6. apply Z.leb_le. exact F6.
    + intros k nd Hk. rewrite forallb_forall in HN. pose proof (HN nd (nth_error_In _ _ Hk)) as Hnd. unfold node_ok_b in Hnd.
      apply andb_true_iff in Hnd as [Hnd N3]. apply andb_true_iff in Hnd as [N1 N2]. rewrite forallb_forall in N2.
      split; [|split; [apply R.nodup_b_sound; exact N1|split; [|split]]].
      * change (R.inf_of (s <| dr := R.nodraws |>)) with (R.inf_of s). unfold R.inf_of. rewrite (HI _ _ Hk). replace (Z.of_nat k + 1 - 1) with (Z.of_nat k) by lia. rewrite R.nthZ_of_nat, Hk. reflexivity.
      * intros id Hi. specialize (N2 id Hi). apply andb_true_iff in N2 as [N4 N5]. apply Z.leb_le in N4. split; [exact N4|]. split; [reflexivity|].
        change (R.loc_q (s <| dr := R.nodraws |>)) with (R.loc_q s). destruct (R.loc_q s id) as [j|]; [|discriminate]. apply Z.eqb_eq in N5. rewrite N5. reflexivity.
      * intros id _ Hl. eapply Hlocq; eauto.
      * unfold NodeT, ncf. unfold node_t_b in N3. destruct (nthZ (cf_nodes cf) (n_id nd - 1)) as [nc|]; [|exact I].
        apply andb_true_iff in N3 as [N6 N7]. split.
        -- intros Hi Hs. rewrite Hi, Hs in N6. cbn in N6. apply Forall_forall. intros sv Hsv. rewrite forallb_forall in N6. apply dleb_dle. apply (N6 sv Hsv).
        -- destruct (nc_srv nc) as [|sc|sl]; [exact I| |].
           ++ apply andb_true_iff in N7 as [N7 N9]. apply andb_true_iff in N7 as [N7 N8]. apply Z.leb_le in N7, N9.
              destruct (n_next_shift nd) as [e|]; [|discriminate]. apply Z.eqb_eq in N8. subst e. auto.
           ++ apply andb_true_iff in N7 as [N7 N8]. apply Z.leb_le in N7, N8. auto.
    + intros id j Hl. change (R.loc_q (s <| dr := R.nodraws |>)) with (R.loc_q s) in Hl. destruct (R.find_q_Some _ _ _ Hl) as (nd' & Hin & Hid & _). apply In_nth_error in Hin as [k' Hk'].
      pose proof (HI _ _ Hk'). assert (Hlt : (k' < length (nodes s))%nat) by (apply nth_error_Some; rewrite Hk'; discriminate). lia.
    + unfold arr_b in HA. apply andb_true_iff in HA as [HA A3]. apply andb_true_iff in HA as [A1 A2].
      split; [apply forallb2_dle; exact A1|split; [apply forallb2_dle; exact A2|]].
      unfold Loc. unfold loc_b in A3. destruct (a_next_date (arr s)) as [e|]; [right|left; reflexivity].
      destruct (nthZ (a_dates (arr s)) (a_next_node (arr s) - 1)) as [row|]; [|discriminate]. exists row. split; [reflexivity|].
      destruct (nthZ row (a_next_cls (arr s))) as [d|]; [|discriminate]. apply R.date_eqb_eq in A3. rewrite A3. reflexivity.
  - intros j nc sc Hc Hs. destruct (R.nthZ_nat _ _ _ Hc) as [Hj0 Hk]. pose proof (R.sched_fin_b_sound _ _ _ HS _ _ _ Hk Hs) as RR.
    replace (1 + Z.of_nat (Z.to_nat (j - 1))) with j in RR by lia. exact RR.
  - intros nd Hin. unfold nxt_b in HNx. rewrite forallb_forall in HNx. apply dleb_dle. apply (HNx nd Hin).
  - unfold act_b in HAct. apply andb_true_iff in HAct as [H6 H7]. unfold Act. split; [apply Z.leb_le; exact H6|].
    destruct (nth_error (dates_of s) (Z.to_nat (next_active s))) as [d|]; [|discriminate]. exists d. split; [reflexivity|].
    apply orb_true_iff in H7 as [H7|H7]; [left; apply R.date_eqb_eq; exact H7|right].
    apply andb_true_iff in H7 as [Ha Hb]. split; [destruct d; [discriminate|reflexivity]|].
    apply Forall_forall. intros x Hx. rewrite forallb_forall in Hb. specialize (Hb x Hx). destruct x; [discriminate|reflexivity].
Qed.

(* ================================================================================================================ *)
(* non-vacuity: three nodes in tandem -- one server with reneging and room for three, a server schedule ([1, 2] servers *)
(* until [10, 20]), slotted services (slots of [2, 1] at [7, 15]) -- from the empty system                            *)
(* ================================================================================================================ *)
Definition ex_n1 : ncfg := mkNcfg (Some 3) None 0 SFixed 0 true [true] 0.
Definition ex_n2 : ncfg := mkNcfg None None 0 (SSched (mkSched [10; 20] [1; 2] 0 0)) 0 false [false] 0.
Definition ex_n3 : ncfg := mkNcfg None None 0 (SSlot (mkSlot [7; 15] [2; 1] 0 false 0)) 0 false [false] 0.
Definition ex_cf : config :=
  mkCfg 1 [ex_n1; ex_n2; ex_n3] [0] 1 None [RtNR [RDirect 2; RDirect 3; RLeave]] [[None; None; None]] false [[false]].
Definition ex_nd1 : node :=
  mkNode 1 0 0 [[]] [mkServer 1 None false None 0 None 0 false 0 None] [] 0 None [] (Some 1) 1 [] 0 [] [] [] 5 None 0 None None.
Definition ex_nd2 : node := mkNode 2 0 0 [[]] [] [] 0 (Some 0) [] (Some 0) 0 [] 0 [] [] [] 1 (Some 0) 0 None None.
Definition ex_nd3 : node := mkNode 3 0 0 [[]] [] [] 0 (Some 0) [] (Some 0) 0 [] 0 [] [] [] 4 None 0 None None.
Definition ex_s0 : sim :=
  mkSim 0 2 (mkArr 0 0 [[Some 1]; [None]; [None]] 1 0 (Some 1)) [ex_nd1; ex_nd2; ex_nd3] [] 0 0 [] R.nodraws [] [[0; 0; 0]].
(* every event: inter-arrival 2, batch 1, service 4, patience 3 *)
Definition ex_d : draws := mkDraws [2; 2] [1; 1] [4; 4; 4] [0; 0; 0] [3; 3] [].

Example ex_scope : scope ex_cf = true. Proof. vm_compute. reflexivity. Qed.
Example ex_draws_ok : DrawsOK ex_d. Proof. unfold DrawsOK, nonneg, ex_d. cbn. repeat split; repeat constructor; lia. Qed.
Example ex_clk2_b : clk2_b ex_cf ex_s0 = true. Proof. vm_compute. reflexivity. Qed.
Example ex_clk2 : Clk2 ex_cf ex_s0. Proof. apply clk2_b_sound. exact ex_clk2_b. Qed.
(* thirty events (arrivals, services, reneges at node 1, shift changes at node 2, slots at node 3, departures): the clock reads
   0 0 1 3 5 5 7 7 8 9 9 9 10 11 12 13 13 ... 21 and the executable invariant holds after each of them *)
Definition ex_trace (n : nat) : option (Z * bool) :=
  match run_many ex_cf ex_s0 (repeat ex_d n) with Ok s => Some (now s, clk2_b ex_cf s) | _ => None end.
Example ex_run : map ex_trace [1; 2; 3; 4; 5; 8; 9; 12; 16; 20; 30]%nat =
  [Some (0, true); Some (1, true); Some (3, true); Some (5, true); Some (5, true); Some (8, true); Some (9, true); Some (10, true);
   Some (13, true); Some (16, true); Some (21, true)].
Proof. vm_compute. reflexivity. Qed.
Example ex_run_events : match run_many ex_cf ex_s0 (repeat ex_d 30) with
                        | Ok s => (map n_next_type (nodes s), exit_ids s) = ([2; 0; 4], [3; 5; 7; 1; 9]) | _ => False end.
Proof. vm_compute. reflexivity. Qed.

(* ================================================================================================================ *)
(* outside the scope the statement is false: closed witnesses                                                       *)
(* ================================================================================================================ *)
(* F-02c (Renege2.no_past_renege_refuted): one server, priority pre-emption (resume), the low class reneges.  The pre-empted
   customer goes back to waiting with the reneging date 2 it got at arrival, which passed while it was served: the clock
   goes from 5 back to 2 *)
Theorem clock_monotone_refuted_F02c : exists cf s d s',
  R.nopre cf = false /\ cf_dyn cf = false /\ wf_times cf = true /\ clk2_b cf s = true /\ DrawsOK d /\
  event_step cf (s <| dr := d |>) = Ok (tt, s') /\ now s' < now s.
Proof.
  exists R.rf_cf, R.rf_s1, R.rf_d2, R.rf_s2. split; [vm_compute; reflexivity|]. split; [reflexivity|]. split; [vm_compute; reflexivity|].
  split; [vm_compute; reflexivity|]. split; [unfold DrawsOK, nonneg; cbn; repeat split; repeat constructor; lia|].
  split; [vm_compute; reflexivity|vm_compute; reflexivity].
Qed.

(* F-02a (Preempt2.clock_monotone_refuted): priority pre-emption (resume) of a customer that is BLOCKED: its time left is
   5 - 10 = -5, and when it is resumed at 14 its service ends at 9 *)
Definition f02a_s : sim := match run_many P.cfB P.sB (firstn 4 P.dsB) with Ok s => s | _ => P.sB end.
Definition f02a_check : bool :=
  negb (R.nopre P.cfB) && negb (cf_dyn P.cfB) && wf_times P.cfB && clk2_b P.cfB f02a_s && (now f02a_s =? 10) &&
  match run_many P.cfB f02a_s [P.ex_draws [1] [4] [1000]] with
  | Ok s1 => (now s1 =? 14) && match event_step P.cfB (s1 <| dr := P.ex_draws [] [] [] |>) with Ok (_, s2) => now s2 =? 9 | _ => false end
  | _ => false
  end.
Theorem clock_monotone_refuted_F02a : exists cf s ds s1 d s2,
  R.nopre cf = false /\ cf_dyn cf = false /\ wf_times cf = true /\ clk2_b cf s = true /\ Forall DrawsOK (ds ++ [d]) /\
  run_many cf s ds = Ok s1 /\ event_step cf (s1 <| dr := d |>) = Ok (tt, s2) /\ now s <= now s1 /\ now s2 < now s1.
Proof.
  assert (E : f02a_check = true) by (vm_compute; reflexivity). unfold f02a_check in E.
  apply andb_true_iff in E as [E E6]. apply andb_true_iff in E as [E E5]. apply andb_true_iff in E as [E E4]. apply andb_true_iff in E as [E E3].
  apply andb_true_iff in E as [E1 E2]. apply negb_true_iff in E1, E2. apply Z.eqb_eq in E5.
  destruct (run_many P.cfB f02a_s [P.ex_draws [1] [4] [1000]]) as [s1| |] eqn:Er; [|discriminate E6|discriminate E6].
  apply andb_true_iff in E6 as [E6 E7]. apply Z.eqb_eq in E6.
  destruct (event_step P.cfB (s1 <| dr := P.ex_draws [] [] [] |>)) as [[[] s2]| |] eqn:Ee; [|discriminate E7|discriminate E7]. apply Z.eqb_eq in E7.
  exists P.cfB, f02a_s, [P.ex_draws [1] [4] [1000]], s1, (P.ex_draws [] [] []), s2.
  split; [exact E1|]. split; [exact E2|]. split; [exact E3|]. split; [exact E4|]. split; [|split; [exact Er|split; [exact Ee|lia]]].
  unfold DrawsOK, nonneg. cbn. repeat constructor; lia.
Qed.

(* F-02b: node 1 has a PRE-EMPTIVE schedule (resume) and feeds node 2 (one server, no waiting room).  Customer 1 occupies
   node 2 until 103; customer 2 finishes at node 1 at 6 and is blocked there, holding its server.  The shift change at 10
   interrupts the BLOCKED customer: time left = 6 - 10 = -4; the new server resumes it with end date 10 - 4 = 6: the clock
   goes from 10 back to 6 *)
Definition b_n1 : ncfg := mkNcfg None None 0 (SSched (mkSched [10; 20] [1; 1] 0 1)) 0 false [false] 0.
Definition b_n2 : ncfg := mkNcfg (Some 1) None 0 SFixed 0 false [false] 0.
Definition b_cf : config := mkCfg 1 [b_n1; b_n2] [0] 1 None [RtNR [RDirect 2; RLeave]] [[None; None]] false [[false]].
Definition b_nd1 : node := mkNode 1 0 0 [[]] [] [] 0 (Some 0) [] (Some 0) 0 [] 0 [] [] [] 1 (Some 0) 0 None None.
Definition b_nd2 : node :=
  mkNode 2 0 0 [[]] [mkServer 1 None false None 0 None 0 false 0 None] [] 0 None [] (Some 1) 1 [] 0 [] [] [] 5 None 0 None None.
Definition b_s0 : sim := mkSim 0 1 (mkArr 0 0 [[Some 1]; [None]] 1 0 (Some 1)) [b_nd1; b_nd2] [] 0 0 [] R.nodraws [] [[0; 0]].
Definition b_ds : list draws :=
  [R.nodraws; mkDraws [3] [1] [2] [] [] []; mkDraws [] [] [100] [] [] []; mkDraws [100] [1] [2] [] [] []; R.nodraws].
Definition f02b_s : sim := match run_many b_cf b_s0 b_ds with Ok s => s | _ => b_s0 end.
Definition f02b_check : bool :=
  negb (R.nopre b_cf) && negb (cf_dyn b_cf) && wf_times b_cf && clk2_b b_cf b_s0 && clk2_b b_cf f02b_s && (now f02b_s =? 10) &&
  match event_step b_cf (f02b_s <| dr := R.nodraws |>) with Ok (_, s2) => now s2 =? 6 | _ => false end.
Theorem clock_monotone_refuted_F02b : exists cf s d s',
  R.nopre cf = false /\ cf_dyn cf = false /\ wf_times cf = true /\ clk2_b cf s = true /\ DrawsOK d /\
  event_step cf (s <| dr := d |>) = Ok (tt, s') /\ now s' < now s.
Proof.
  assert (E : f02b_check = true) by (vm_compute; reflexivity). unfold f02b_check in E.
  apply andb_true_iff in E as [E E7]. apply andb_true_iff in E as [E E6]. apply andb_true_iff in E as [E E5]. apply andb_true_iff in E as [E _].
  apply andb_true_iff in E as [E E3]. apply andb_true_iff in E as [E1 E2]. apply negb_true_iff in E1, E2. apply Z.eqb_eq in E6.
  destruct (event_step b_cf (f02b_s <| dr := R.nodraws |>)) as [[[] s2]| |] eqn:Ee; [|discriminate E7|discriminate E7]. apply Z.eqb_eq in E7.
  exists b_cf, f02b_s, R.nodraws, s2. split; [exact E1|]. split; [exact E2|]. split; [exact E3|]. split; [exact E5|].
  split; [apply DrawsOK_nodraws|]. split; [exact Ee|lia].
Qed.

Print Assumptions event_step_clk2.
Print Assumptions run_many_clk2.
Print Assumptions run_many_monotone2.
Print Assumptions Clk2_means.
Print Assumptions clk2_b_sound.
Print Assumptions ex_clk2.
Print Assumptions ex_run.
Print Assumptions clock_monotone_refuted_F02a.
Print Assumptions clock_monotone_refuted_F02b.
Print Assumptions clock_monotone_refuted_F02c.
